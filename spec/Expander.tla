----------------------------- MODULE Expander -----------------------------
(* Transcription of core.py `Wtp.expand` / `expand_recurse` / `expand_args` *)
(* / `expand_parserfn` and of luaexec.py `call_lua_sandbox`'s handling of   *)
(* the expansion path, as a state-threading evaluator over the abstract     *)
(* syntax of Transclusion.tla.  Every push / pop site of `expand_stack`, in *)
(* code order and on every early-return path, is explicit; so are the       *)
(* recursion-depth limit, `detect_expand_template_loop`, the selection      *)
(* logic of `check_template_need_expand`, the `template_fn` /               *)
(* `post_template_fn` hooks, disabled parser functions / #invoke, and       *)
(* re-entry through frame:preprocess / frame:expandTemplate.                *)
(*                                                                          *)
(* Additional item kind:                                                    *)
(*   [k |-> "inv", fn |-> "echo"|"err"|"pre"|"tpl"|"loop"|"pyx"|"pcx"|"ext", args |-> Seq(arg)] *)
(*     {{#invoke:M|fn|args}} with module functions of known behaviour:      *)
(*     echo: returns "L" ++ first positional argument; err: raises a Lua    *)
(*     error; pre: returns frame:preprocess(BODY) for a fixed wikitext BODY *)
(*     given by PreBody; tpl: frame:expandTemplate{title=T1,args={"e"}};     *)
(*     loop: never terminates (stopped by the time limit); pyx: a frame     *)
(*     callback raises a Python exception; pcx: the same under pcall.       *)
EXTENDS Transclusion

CONSTANTS DepthLimit, PreBody, LogEvents

(* ---------------- machine state threaded through the evaluation -------- *)
\* stack : Seq(label)   label = [t |-> "page"|"tmpl"|"argval"|"lbl", n |-> STRING]
\* msgs  : Seq([kind, sortid])       recorded errors / warnings
\* hooks : Seq([hook, name, args, t]) calls of template_fn / post_template_fn
\* ev    : Seq(STRING)               push / pop events ("+" \o label / "-")
\* steps : Nat                       number of pushes so far (work done)
\* peak  : Nat                       deepest recursion reached: longest expansion path, or path
\*                                   + nesting depth walked by one argument-substitution pass
Lbl(n) == [t |-> "lbl", n |-> n]
TmplLbl(n) == [t |-> "tmpl", n |-> n]
ArgvalLbl == [t |-> "argval", n |-> ""]

Push(st, l) == [st EXCEPT !.stack = Append(@, l), !.steps = @ + 1,
                          !.peak = IF Len(st.stack) + 1 > @ THEN Len(st.stack) + 1 ELSE @,
                          !.ev = IF LogEvents THEN Append(@, "+" \o l.t \o ":" \o l.n) ELSE @]
Pop(st) == [st EXCEPT !.stack = SubSeq(@, 1, Len(@) - 1),
                      !.ev = IF LogEvents THEN Append(@, "-") ELSE @]
Msg(st, kind, sortid) == [st EXCEPT !.msgs = Append(@, [kind |-> kind, sortid |-> sortid])]
Hook(st, rec) == [st EXCEPT !.hooks = Append(@, rec)]

R(out, st) == [out |-> out, st |-> st]
RECURSIVE PopTo(_, _)
PopTo(st, n) == IF Len(st.stack) > n THEN PopTo(Pop(st), n) ELSE st

(* ---------------- detect_expand_template_loop (core.py) ----------------- *)
\* repaired design: the template on top is a loop iff it is already being expanded in
\* an enclosing template BODY; a template whose argument is being expanded (an
\* "argval"/ARGNAME entry directly above it) does not enclose what follows
RECURSIVE BodyAncestor(_, _, _, _)
BodyAncestor(s, i, top, inArg) ==   \* scans s[i], s[i-1], ... , s[1]
  IF i < 1 THEN FALSE
  ELSE IF s[i].t = "argval" \/ (s[i].t = "lbl" /\ s[i].n = "ARGNAME") THEN BodyAncestor(s, i - 1, top, TRUE)
  ELSE IF s[i].t = "tmpl"
       THEN IF inArg THEN BodyAncestor(s, i - 1, top, FALSE)
            ELSE IF s[i] = top THEN TRUE ELSE BodyAncestor(s, i - 1, top, FALSE)
  ELSE BodyAncestor(s, i - 1, top, inArg)
DetectLoopBody(s) ==
  LET n == Len(s) IN
  IF n < 2 \/ ~(\E j \in 1..(n - 1) : s[j] = s[n]) THEN FALSE ELSE BodyAncestor(s, n - 1, s[n], FALSE)

\* the earlier design (deviation "RepeatedPatternLoopDetection"): the tail of the path
\* is one pattern repeated at least twice, patterns starting with ARGVAL- ignored
DetectLoopPattern(s) ==
  LET n == Len(s) IN
  IF n < 2 \/ ~(\E j \in 1..(n - 1) : s[j] = s[n]) THEN FALSE
  ELSE \E p \in 1..(n \div 2) : \E i \in 0..(n - p - 1) :
         /\ (n - i) % p = 0
         /\ s[i + 1].t # "argval"
         /\ s[n] = s[n - p]          \* (implied by the next conjunct; evaluated first for speed)
         /\ \A j \in 1..(n - i) : s[i + j] = s[i + 1 + ((j - 1) % p)]

(* ---------------- check_template_need_expand (core.py:1873-1892) ------- *)
\* o = [pre, hasExp, exp, hasNot, nots, pfns, invoke, tfn, pfn]; need = names with need_pre_expand
NeedExpand(name, o, lib, need) ==
  IF name \notin DOMAIN lib THEN FALSE
  ELSE IF ~o.hasExp /\ o.hasNot THEN name \notin o.nots /\ name \in need
  ELSE IF o.hasExp /\ ~o.hasNot THEN name \in o.exp \/ name \in need
  ELSE IF o.hasExp /\ o.hasNot THEN name \notin o.nots /\ (name \in o.exp \/ name \in need)
  ELSE name \in need

(* ---------------- source rendering of unexpanded syntax ---------------- *)
\* (what _finalize_expand turns an unexpanded cookie back into)
RECURSIVE Src(_), SrcItem(_), SrcArgs(_, _)
Src(c) == IF c = <<>> THEN <<>> ELSE SrcItem(Head(c)) \o Src(Tail(c))
SrcArgs(args, i) ==
  IF i > Len(args) THEN <<>>
  ELSE <<"|">> \o (IF args[i].named THEN Src(args[i].key) \o <<"=">> ELSE <<>>) \o Src(args[i].val)
       \o SrcArgs(args, i + 1)
RECURSIVE SrcCases(_, _)
SrcCases(cs, i) == IF i > Len(cs) THEN <<>>
                   ELSE <<"|">> \o cs[i].key \o (IF IsFT(cs[i]) THEN <<>> ELSE <<"=">> \o Src(cs[i].val)) \o SrcCases(cs, i + 1)
RECURSIVE SrcJoin(_, _)
SrcJoin(args, i) == IF i > Len(args) THEN <<>> ELSE (IF i > 1 THEN <<"|">> ELSE <<>>) \o Src(args[i]) \o SrcJoin(args, i + 1)
SrcItem(it) ==
  CASE it.k = "t" -> it.s
    [] it.k = "l" -> <<"[[">> \o SrcJoin(it.args, 1) \o <<"]]">>
    [] it.k = "x" -> <<"[", "http://x.y", "SP">> \o Src(it.c) \o <<"]">>
    [] it.k = "p" -> <<"{{{">> \o it.name \o (IF it.hasDef THEN <<"|">> \o Src(it.def) ELSE <<>>) \o <<"}}}">>
    [] it.k = "pc" -> <<"{{{">> \o Src(it.name) \o (IF it.hasDef THEN <<"|">> \o Src(it.def) ELSE <<>>) \o <<"}}}">>
    [] it.k = "c" -> <<"{{", it.name>> \o SrcArgs(it.args, 1) \o <<"}}">>
    [] it.k = "if" -> <<"{{", "#if:">> \o Src(it.c) \o <<"|">> \o Src(it.y) \o <<"|">> \o Src(it.n) \o <<"}}">>
    [] it.k = "eq" -> <<"{{", "#ifeq:">> \o Src(it.a) \o <<"|">> \o Src(it.b) \o <<"|">> \o Src(it.y)
                      \o <<"|">> \o Src(it.n) \o <<"}}">>
    [] it.k = "sw" -> <<"{{", "#switch:">> \o Src(it.v) \o SrcCases(it.cases, 1)
                      \o (IF it.hasDflt THEN <<"|", "#default", "=">> \o Src(it.dflt) ELSE <<>>) \o <<"}}">>
    [] it.k = "inv" -> <<"{{", "#invoke:", "M", "|", it.fn>> \o SrcArgs(it.args, 1) \o <<"}}">>
    [] it.k = "deep" -> <<"<ERR:depth>">>
    [] it.k = "over" -> <<"<OVERRUN>">>

ErrDepth == <<"<ERR:depth>">>
DepthCut(st) == R(ErrDepth, Msg(st, "error", "core/1115"))

(* ---------------- the depth limit covers every kind of nesting ---------- *)
\* Ideal (repaired) design: whatever is nested -- transclusions, parser functions in
\* argument or name position, argument references with defaults or computed names,
\* links -- recursion stops at DepthLimit with an in-band error element and a recorded
\* error:
\*  (1) expand_recurse refuses every {{..}}, [[..]] and [..] cookie once the expansion path
\*      holds DepthLimit entries;
\*  (2) the argument-substitution pass (expand_args: run once over a template body before
\*      it is expanded, and over a top-level {{{..}}}) refuses every cookie nested
\*      DepthLimit deep in other cookies.  CutDeep is that pass seen as a rewriting of the
\*      abstract syntax: what it refuses becomes the item [k |-> "deep"].
\* Deviation "NestingOutsideCallsUnbounded" (the design before the repair): only {{..}}
\* cookies met by expand_recurse are counted; the pass (2) and links are unbounded.  The
\* twin follows such uncounted nesting up to OverrunAt levels -- beyond what the ideal design
\* can ever reach (law PeakBounded of Gen_ExpanderDepth) -- and then answers <OVERRUN>: from
\* there on the outcome is the interpreter's business (RecursionError), not the design's.
DeepItem == [k |-> "deep"]
OverItem == [k |-> "over"]
OverrunAt == 2 * DepthLimit + 8
Overrun == <<"<OVERRUN>">>
NestKinds == {"c", "if", "eq", "sw", "inv", "l", "x", "p", "pc"}
CallsOnly(X) == "NestingOutsideCallsUnbounded" \in X.Dev

RECURSIVE CutDeep(_, _, _), CutDeepItem(_, _, _), CutDeepArgs(_, _, _, _), CutDeepCases(_, _, _, _), CutDeepParts(_, _, _, _)
\* m = [lim |-> levels admitted, mark |-> the item that replaces what is refused]
CutDeep(c, d, m) == IF c = <<>> THEN <<>> ELSE <<CutDeepItem(Head(c), d, m)>> \o CutDeep(Tail(c), d, m)
CutDeepArgs(args, i, d, m) ==
  IF i > Len(args) THEN <<>>
  ELSE <<[args[i] EXCEPT !.key = CutDeep(@, d, m), !.val = CutDeep(@, d, m)]>> \o CutDeepArgs(args, i + 1, d, m)
CutDeepCases(cs, i, d, m) ==
  IF i > Len(cs) THEN <<>>
  ELSE <<(IF IsFT(cs[i]) THEN cs[i] ELSE [cs[i] EXCEPT !.val = CutDeep(@, d, m)])>> \o CutDeepCases(cs, i + 1, d, m)
CutDeepParts(ps, i, d, m) == IF i > Len(ps) THEN <<>> ELSE <<CutDeep(ps[i], d, m)>> \o CutDeepParts(ps, i + 1, d, m)
CutDeepItem(it, d, m) ==
  IF it.k \notin NestKinds THEN it
  ELSE IF d >= m.lim THEN m.mark
  ELSE CASE it.k = "c" -> [it EXCEPT !.args = CutDeepArgs(@, 1, d + 1, m)]
         [] it.k = "inv" -> [it EXCEPT !.args = CutDeepArgs(@, 1, d + 1, m)]
         [] it.k = "if" -> [it EXCEPT !.c = CutDeep(@, d + 1, m), !.y = CutDeep(@, d + 1, m), !.n = CutDeep(@, d + 1, m)]
         [] it.k = "eq" -> [it EXCEPT !.a = CutDeep(@, d + 1, m), !.b = CutDeep(@, d + 1, m), !.y = CutDeep(@, d + 1, m), !.n = CutDeep(@, d + 1, m)]
         [] it.k = "sw" -> [it EXCEPT !.v = CutDeep(@, d + 1, m), !.cases = CutDeepCases(@, 1, d + 1, m), !.dflt = CutDeep(@, d + 1, m)]
         [] it.k = "l" -> [it EXCEPT !.args = CutDeepParts(@, 1, d + 1, m)]
         [] it.k = "x" -> [it EXCEPT !.c = CutDeep(@, d + 1, m)]
         [] it.k = "p" -> [it EXCEPT !.def = CutDeep(@, d + 1, m)]
         [] it.k = "pc" -> [it EXCEPT !.name = CutDeep(@, d + 1, m), !.def = CutDeep(@, d + 1, m)]

\* how deep cookies are nested in one another in a content (what one pass walks down)
Max2(a, b) == IF a >= b THEN a ELSE b
RECURSIVE SynDepth(_), SynDepthItem(_), SynDepthArgs(_, _), SynDepthCases(_, _), SynDepthParts(_, _)
SynDepth(c) == IF c = <<>> THEN 0 ELSE Max2(SynDepthItem(Head(c)), SynDepth(Tail(c)))
SynDepthArgs(args, i) == IF i > Len(args) THEN 0 ELSE Max2(Max2(SynDepth(args[i].key), SynDepth(args[i].val)), SynDepthArgs(args, i + 1))
SynDepthCases(cs, i) == IF i > Len(cs) THEN 0 ELSE Max2((IF IsFT(cs[i]) THEN 0 ELSE SynDepth(cs[i].val)), SynDepthCases(cs, i + 1))
SynDepthParts(ps, i) == IF i > Len(ps) THEN 0 ELSE Max2(SynDepth(ps[i]), SynDepthParts(ps, i + 1))
SynDepthItem(it) ==
  IF it.k \notin NestKinds THEN (IF it.k \in {"deep", "over"} THEN 1 ELSE 0)
  ELSE 1 + (CASE it.k = "c" -> SynDepthArgs(it.args, 1)
              [] it.k = "inv" -> SynDepthArgs(it.args, 1)
              [] it.k = "if" -> Max2(SynDepth(it.c), Max2(SynDepth(it.y), SynDepth(it.n)))
              [] it.k = "eq" -> Max2(Max2(SynDepth(it.a), SynDepth(it.b)), Max2(SynDepth(it.y), SynDepth(it.n)))
              [] it.k = "sw" -> Max2(SynDepth(it.v), Max2(SynDepthCases(it.cases, 1), SynDepth(it.dflt)))
              [] it.k = "l" -> SynDepthParts(it.args, 1)
              [] it.k = "x" -> SynDepth(it.c)
              [] it.k = "p" -> SynDepth(it.def)
              [] it.k = "pc" -> Max2(SynDepth(it.name), SynDepth(it.def)))

\* one argument-substitution pass over content c, started with path st.stack
PassOver(c, X) == IF CallsOnly(X) THEN CutDeep(c, 0, [lim |-> OverrunAt, mark |-> OverItem])
                  ELSE CutDeep(c, 0, [lim |-> DepthLimit, mark |-> DeepItem])
NotePass(st, c) == LET sd == SynDepth(c)
                       d == Len(st.stack) + sd
                       s1 == IF d > st.peak THEN [st EXCEPT !.peak = d] ELSE st
                   IN IF sd > OverrunAt THEN Msg(s1, "overrun", "model") ELSE s1   \* (only with the deviation)
ErrLoop(name) == <<"<ERR:loop:", name, ">">>
ErrLua(fn) == <<"<ERR:lua:", fn, ">">>
ErrTimeout(fn) == <<"<ERR:timeout:", fn, ">">>

(* ================= C13 repeated calls: hook policies ==================== *)
\* What template_fn / post_template_fn answer may depend on the calls made so far in
\* this expand() (the hooks are arbitrary callables): the number of earlier calls of the
\* same hook is part of the threaded state (st.hooks), so a policy is a function of
\* (policy name, template name, ordinal of this call).  o.tfn: "none" | "observe" (always
\* None) | "marker" (always a marker) | "first" (marker for the 1st call of the expand(),
\* None afterwards) | "later" (None for the 1st call, marker afterwards) | "num" (a marker
\* carrying the ordinal).  o.pfn: "none" | "observe" | "replace" | "number" (the default
\* expansion followed by "#k", k the ordinal of the post_template_fn call).
HookCount(st, h) == Cardinality({i \in 1..Len(st.hooks) : st.hooks[i].hook = h})
NoAnswer == [some |-> FALSE, t |-> <<>>]
\* st: the state in which the call has already been recorded
TfnAnswer(pol, name, st) ==
  LET mark == [some |-> TRUE, t |-> <<"<MARK:", name, ">">>] IN
  CASE pol = "marker" -> mark
    [] pol = "first" -> (IF HookCount(st, "template_fn") = 1 THEN mark ELSE NoAnswer)
    [] pol = "later" -> (IF HookCount(st, "template_fn") > 1 THEN mark ELSE NoAnswer)
    [] pol = "num" -> [some |-> TRUE, t |-> <<"<MARK:", name, "#" \o ToString(HookCount(st, "template_fn")), ">">>]
    [] OTHER -> NoAnswer
PfnAnswer(pol, name, t1, st) ==
  CASE pol = "replace" -> <<"<POST:", name, ">">>
    [] pol = "number" -> t1 \o <<"#" \o ToString(HookCount(st, "post_template_fn"))>>
    [] OTHER -> t1
(* ================= end of C13 repeated calls ============================ *)

(* ---------------- the evaluator ---------------------------------------- *)
\* X = [lib, need, o, Dev, enwikt]  (fixed during one expand() call)
RECURSIVE Exp(_, _, _, _, _), ExpItem(_, _, _, _, _), ExpItem1(_, _, _, _, _), ExpArgsUnexp(_, _, _, _, _, _), ExpJoin(_, _, _, _, _, _),
          BindArgs(_, _, _, _, _, _, _), ExpSwitch(_, _, _, _, _, _)

\* expand_recurse(coded, parent, expand_all): c content, f frame, ea expand_all
Exp(c, f, ea, st, X) ==
  IF c = <<>> THEN R(<<>>, st)
  ELSE LET r1 == ExpItem(Head(c), f, ea, st, X)
           r2 == Exp(Tail(c), f, ea, r1.st, X)
       IN R(r1.out \o r2.out, r2.st)

\* arguments of a call that is left unexpanded: each raw argument is expanded with
\* expand_recurse(x, parent, expand_all) and the call is re-emitted
ExpArgsUnexp(args, i, f, ea, st, X) ==
  IF i > Len(args) THEN R(<<>>, st)
  ELSE LET a == args[i]
           rk == IF a.named THEN Exp(a.key, f, ea, st, X) ELSE R(<<>>, st)
           rv == Exp(ArgSrcDrop(a.val, f, X.Dev), f, ea, rk.st, X)
           rest == ExpArgsUnexp(args, i + 1, f, ea, rv.st, X)
       IN R(<<"|">> \o (IF a.named THEN rk.out \o <<"=">> ELSE <<>>) \o rv.out \o rest.out, rest.st)

IsPosNum(key) == Len(key) = 1 /\ \E j \in 1..Len(NumAtoms) : NumAtoms[j] = key[1]

\* the argument loop of a template call (core.py:1539-1570); returns bindings + state
BindArgs(args, i, pos, f, st, X, acc) ==
  IF i > Len(args) THEN [b |-> acc, st |-> st]
  ELSE LET a == args[i] IN
       IF a.named
       THEN LET ksrc == Trim(Src(a.key))           \* regexp strips the written key
                rk == IF IsPosNum(ksrc) THEN R(ksrc, st)
                      ELSE LET s1 == Push(st, Lbl("ARGNAME"))
                               e == Exp(a.key, f, TRUE, s1, X)
                           IN R(Trim(e.out), Pop(e.st))
                s2 == Push(rk.st, ArgvalLbl)
                rv == Exp(SrcTrim(a.val), f, TRUE, s2, X)
                val == IF "NamedValueTrimmedBeforeExpansion" \in X.Dev THEN rv.out ELSE Trim(rv.out)
            IN BindArgs(args, i + 1, pos, f, Pop(rv.st), X, Append(acc, [key |-> rk.out, val |-> val]))
       ELSE LET s2 == Push(st, ArgvalLbl)
                rv == Exp(ArgSrcDrop(a.val, f, X.Dev), f, TRUE, s2, X)
            IN BindArgs(args, i + 1, pos + 1, f, Pop(rv.st), X,
                        Append(acc, [key |-> <<NumAtoms[pos]>>, val |-> rv.out]))

ExpSwitch(v, i, it, f, st, X) ==
  IF i > Len(it.cases)
  THEN IF it.hasDflt THEN LET e == Exp(it.dflt, f, TRUE, st, X) IN R(Trim(e.out), e.st) ELSE R(<<>>, st)
  ELSE IF Trim(it.cases[i].key) = v
       THEN LET j == NextValued(it.cases, i) IN
            IF j = 0 THEN R(<<>>, st)
            ELSE LET e == Exp(it.cases[j].val, f, TRUE, st, X) IN R(Trim(e.out), e.st)
       ELSE ExpSwitch(v, i + 1, it, f, st, X)

\* a parser-function call: the name label is pushed by expand_recurse (1472) and
\* again by expand_parserfn (1384)
PfnWrap(fname, f, st, X, Body(_)) ==
  LET s1 == Push(st, Lbl(fname)) IN
  IF ~X.o.pfns THEN [r |-> "disabled", st |-> Pop(s1)]
  ELSE LET s2 == Push(s1, Lbl(fname))
           b == Body(s2)
       IN [r |-> "ok", out |-> AddNL(b.out), st |-> Pop(Pop(b.st))]

\* the |-separated parts of a link, each expanded with expand_recurse(x, parent, expand_all)
ExpJoin(args, i, f, ea, st, X) ==
  IF i > Len(args) THEN R(<<>>, st)
  ELSE LET r1 == Exp(args[i], f, ea, st, X)
           r2 == ExpJoin(args, i + 1, f, ea, r1.st, X)
       IN R((IF i > 1 THEN <<"|">> ELSE <<>>) \o r1.out \o r2.out, r2.st)

ExpItem(it0, f, ea, st0, X) ==
  \* a {{{..}}} met outside any template (kind "A" in expand_recurse) is first run through
  \* one argument-substitution pass with no bindings; the pass resolves every {{{..}}} nested in
  \* it (st.inpass: such inner references are not passed over again)
  IF f.top /\ it0.k \in {"p", "pc"} /\ ~st0.inpass
  THEN LET it == PassOver(<<it0>>, X)[1]
           r == ExpItem1(it, f, ea, [NotePass(st0, <<it>>) EXCEPT !.inpass = TRUE], X)
       IN R(r.out, [r.st EXCEPT !.inpass = FALSE])
  ELSE ExpItem1(it0, f, ea, st0, X)

ExpItem1(it, f, ea, st, X) ==
  CASE it.k = "t" -> R(it.s, st)
    [] it.k = "deep" -> DepthCut(st)
    [] it.k = "over" -> R(Overrun, Msg(st, "overrun", "model"))
    (* ---- [[a|b]] and [http://x.y c]: path label pushed around the expansion of the parts -- *)
    [] it.k = "l" ->
         IF ~CallsOnly(X) /\ Len(st.stack) >= DepthLimit THEN DepthCut(st) ELSE
         IF CallsOnly(X) /\ Len(st.stack) >= OverrunAt THEN R(Overrun, Msg(st, "overrun", "model")) ELSE
         LET r == ExpJoin(it.args, 1, f, ea, Push(st, Lbl("[[link]]")), X)
         IN R(<<"[[">> \o r.out \o <<"]]">>, Pop(r.st))
    [] it.k = "x" ->
         IF ~CallsOnly(X) /\ Len(st.stack) >= DepthLimit THEN DepthCut(st) ELSE
         IF CallsOnly(X) /\ Len(st.stack) >= OverrunAt THEN R(Overrun, Msg(st, "overrun", "model")) ELSE
         LET r == Exp(it.c, f, ea, Push(st, Lbl("[extlink]")), X)
         IN R(<<"[", "http://x.y", "SP">> \o r.out \o <<"]">>, Pop(r.st))
    (* ---- {{{name|default}}} --------------------------------------------- *)
    [] it.k = "p" ->
         LET key == Trim(it.name)
             \* expand_args: ARG-NAME pushed while the name is expanded, popped
             s1 == Pop(Push(st, Lbl("ARG-NAME")))
         IN IF f.top
            THEN \* kind "A" in expand_recurse: ARGVAL-NO-TEMPLATE around expand_args(ch, {})
                 LET s0 == Push(st, Lbl("ARGVAL-NO-TEMPLATE"))
                     s2 == Pop(Push(s0, Lbl("ARG-NAME")))
                 IN IF it.hasDef
                    THEN LET s3 == Pop(Push(s2, Lbl("ARG-DEFVAL")))
                         IN IF "TopLevelDefaultNotExpanded" \in X.Dev
                            THEN R(Src(it.def), Pop(s3))
                            ELSE LET e == Exp(it.def, f, ea, s3, X) IN R(e.out, Pop(e.st))
                    ELSE R(<<"{{{">> \o key \o <<"}}}">>, Pop(s2))
            ELSE IF HasKey(f, key) THEN R(ParamValue(f, key, X.Dev), s1)
            ELSE IF it.hasDef
                 THEN LET s3 == Pop(Push(s1, Lbl("ARG-DEFVAL")))
                      IN Exp(it.def, f, ea, s3, X)
                 ELSE R(<<"{{{">> \o key \o <<"}}}">>, s1)
    (* ---- {{{computed name|default}}}: the name is expanded (expand_all) under ARG-NAME -- *)
    [] it.k = "pc" ->
         LET s0 == IF f.top THEN Push(st, Lbl("ARGVAL-NO-TEMPLATE")) ELSE st
             e == Exp(it.name, f, TRUE, Push(s0, Lbl("ARG-NAME")), X)
             s1 == Pop(e.st)
             key == Trim(e.out)
             Fin(s) == IF f.top THEN Pop(s) ELSE s
         IN IF ~f.top /\ HasKey(f, key) THEN R(ParamValue(f, key, X.Dev), s1)
            ELSE IF it.hasDef
                 THEN LET s3 == Pop(Push(s1, Lbl("ARG-DEFVAL")))
                          d == Exp(it.def, f, ea, s3, X)
                      IN R(d.out, Fin(d.st))
                 ELSE R(<<"{{{">> \o key \o <<"}}}">>, Fin(s1))
    (* ---- {{name|args}} ---------------------------------------------------- *)
    [] it.k = "c" ->
         IF Len(st.stack) >= DepthLimit
         THEN R(ErrDepth, Msg(st, "error", "core/1115"))
         ELSE
         LET s1 == Pop(Push(st, Lbl("TEMPLATE_NAME"))) IN
         IF ~ea /\ ~NeedExpand(it.name, X.o, X.lib, X.need)
         THEN LET ra == ExpArgsUnexp(it.args, 1, f, ea, s1, X)
              IN R(<<"{{", it.name>> \o ra.out \o <<"}}">>, ra.st)
         ELSE
         LET s2 == Push(s1, TmplLbl(it.name)) IN
         IF (IF "RepeatedPatternLoopDetection" \in X.Dev THEN DetectLoopPattern(s2.stack) ELSE DetectLoopBody(s2.stack))
         THEN R(ErrLoop(it.name), Msg(Pop(s2), "warning", "core/1422"))
         ELSE
         LET ba == BindArgs(it.args, 1, 1, f, s2, X, <<>>)
             nf == Frame(ba.b)
             \* template_fn hook
             s3 == IF X.o.tfn # "none"
                   THEN Hook(Pop(Push(ba.st, Lbl("TEMPLATE_FN"))),
                             [hook |-> "template_fn", name |-> it.name, args |-> ba.b, t |-> <<>>])
                   ELSE ba.st
             ans == TfnAnswer(X.o.tfn, it.name, s3)        \* (C13 repeated calls: the answer of this call)
             body == IF ans.some THEN R(ans.t, s3)
                     ELSE IF Target(it.name, X.lib) = ""
                     THEN R(<<"[[:Template:", it.name, "]]">>, s3)
                     ELSE LET b == PassOver(IncludablePart(X.lib[Target(it.name, X.lib)]), X)   \* expand_args(encoded_body, ht)
                          IN Exp(b, nf, ea \/ (Target(it.name, X.lib) \in X.need /\ ~X.enwikt), NotePass(s3, b), X)
                          \* (core.py:1632-1643: expand_all, or the template needs pre-expansion and the
                          \*  context is not the English Wiktionary)
             t1 == AddNL(body.out)
             s4 == IF X.o.pfn # "none" /\ t1 # <<>>
                   THEN Hook(body.st, [hook |-> "post_template_fn", name |-> it.name, args |-> ba.b, t |-> t1])
                   ELSE body.st
             t2 == IF t1 # <<>> THEN PfnAnswer(X.o.pfn, it.name, t1, s4) ELSE t1   \* (C13 repeated calls)
         IN R(t2, Pop(s4))
    (* ---- parser functions -------------------------------------------------- *)
    \* the first argument is part of the cookie's first field ("#if:cond"), which is
    \* expanded as the template NAME (under TEMPLATE_NAME, with the caller's expand_all
    \* flag) and then stripped; the remaining arguments stay unexpanded until the
    \* function asks for them
    [] it.k = "if" ->
         IF Len(st.stack) >= DepthLimit THEN R(ErrDepth, Msg(st, "error", "core/1115")) ELSE
         LET c == Exp(it.c, f, ea, Push(st, Lbl("TEMPLATE_NAME")), X)
             s1 == Pop(c.st)
             cv == Trim(c.out)
             B(s) == LET br == IF cv # <<>> THEN Exp(it.y, f, TRUE, s, X) ELSE Exp(it.n, f, TRUE, s, X)
                     IN R(Trim(br.out), br.st)
             w == PfnWrap("#if", f, s1, X, B)
         IN IF w.r = "disabled"
            THEN R(<<"{{", "#if:">> \o cv \o <<"|">> \o Src(it.y) \o <<"|">> \o Src(it.n) \o <<"}}">>, w.st)
            ELSE R(w.out, w.st)
    [] it.k = "eq" ->
         IF Len(st.stack) >= DepthLimit THEN R(ErrDepth, Msg(st, "error", "core/1115")) ELSE
         LET a == Exp(it.a, f, ea, Push(st, Lbl("TEMPLATE_NAME")), X)
             s1 == Pop(a.st)
             av == Trim(a.out)
             B(s) == LET b == Exp(it.b, f, TRUE, s, X)
                         br == IF av = Trim(b.out) THEN Exp(it.y, f, TRUE, b.st, X) ELSE Exp(it.n, f, TRUE, b.st, X)
                     IN R(Trim(br.out), br.st)
             w == PfnWrap("#ifeq", f, s1, X, B)
         IN IF w.r = "disabled"
            THEN R(<<"{{", "#ifeq:">> \o av \o <<"|">> \o Src(it.b) \o <<"|">> \o Src(it.y) \o <<"|">> \o Src(it.n) \o <<"}}">>, w.st)
            ELSE R(w.out, w.st)
    [] it.k = "sw" ->
         IF Len(st.stack) >= DepthLimit THEN R(ErrDepth, Msg(st, "error", "core/1115")) ELSE
         LET v == Exp(it.v, f, ea, Push(st, Lbl("TEMPLATE_NAME")), X)
             s1 == Pop(v.st)
             vv == Trim(v.out)
             B(s) == ExpSwitch(vv, 1, it, f, s, X)
             w == PfnWrap("#switch", f, s1, X, B)
         IN IF w.r = "disabled"
            THEN R(<<"{{", "#switch:">> \o vv \o SrcCases(it.cases, 1)
                   \o (IF it.hasDflt THEN <<"|", "#default", "=">> \o Src(it.dflt) ELSE <<>>) \o <<"}}">>, w.st)
            ELSE R(w.out, w.st)
    (* ---- {{#invoke:M|fn|args}} ---------------------------------------------- *)
    [] it.k = "inv" ->
         IF Len(st.stack) >= DepthLimit THEN R(ErrDepth, Msg(st, "error", "core/1115")) ELSE
         LET s1 == Pop(Push(st, Lbl("TEMPLATE_NAME")))
             s2 == Push(s1, Lbl("#invoke"))                      \* core.py:1472
         IN IF ~X.o.pfns THEN R(SrcItem(it), Pop(s2))
            ELSE LET s3 == Push(s2, Lbl("#invoke"))              \* core.py:1384
                 IN IF ~X.o.invoke
                    THEN \* early return of expand_parserfn (core.py:1392-1393)
                         IF "InvokeDisabledLeavesStackEntry" \in X.Dev
                         THEN R(SrcItem(it), Pop(s3))            \* only the outer pop happens
                         ELSE R(SrcItem(it), Pop(Pop(s3)))
                    ELSE \* call_lua_sandbox: arguments are expanded lazily by the module;
                         \* Lua:<mod>:<fn>() pushed, anything left is popped in `finally`
                         LET base == Len(s3.stack)
                             s4 == Push(s3, Lbl("Lua:" \o it.fn))
                             Restore(s) == PopTo(s, base)
                             \* frame.args[1] is expanded on access, through frame:preprocess()
                             first == IF Len(it.args) > 0
                                      THEN LET e == Exp(it.args[1].val, f, TRUE, Push(s4, Lbl("frame:preprocess()")),
                                                         [X EXCEPT !.o.pre = FALSE, !.o.tfn = "none", !.o.pfn = "none", !.o.pfns = TRUE, !.o.invoke = TRUE])
                                           IN R(e.out, Pop(e.st))
                                      ELSE R(<<>>, s4)
                             res ==
                               CASE it.fn = "echo" -> R(<<"L">> \o first.out, first.st)
                                 [] it.fn = "err" -> R(ErrLua(it.fn), Msg(s4, "error", "luaexec/683"))
                                 [] it.fn = "loop" -> R(ErrTimeout(it.fn), Msg(s4, "error", "luaexec/683"))
                                 \* a Python exception inside a frame callback (expandTemplate with a
                                 \* non-string title): the callback's own pushes are NOT popped by the
                                 \* callback; only the `finally` of call_lua_sandbox unwinds them
                                 [] it.fn = "pyx" ->
                                      R(ErrLua(it.fn), Msg(Push(Push(s4, Lbl("frame:expandTemplate()")), Lbl("TEMPLATE_NAME")), "error", "luaexec/683"))
                                 \* the same inside the module's own pcall; the module then returns normally
                                 [] it.fn = "pcx" ->
                                      R(<<"K">>, Push(Push(s4, Lbl("frame:expandTemplate()")), Lbl("TEMPLATE_NAME")))
                                 \* frame:extensionTag: "nowiki" only makes a strip marker (nothing pushed); any
                                 \* other tag pushes extensionTag() around tag_fn and preprocesses the result.
                                 \* The module calls nowiki, span, nowiki.
                                 [] it.fn = "ext" ->
                                      LET s5 == Pop(Push(s4, Lbl("extensionTag()")))
                                          s6 == Pop(Push(s5, Lbl("frame:preprocess()")))
                                      IN R(<<"EXT">>, s6)
                                 [] it.fn = "pre" ->
                                      \* frame:preprocess(BODY): nested ctx.expand(BODY, parent) — expand all
                                      LET s5 == Push(s4, Lbl("frame:preprocess()"))
                                          e == Exp(PreBody, f, TRUE, s5, [X EXCEPT !.o.pre = FALSE, !.o.tfn = "none", !.o.pfn = "none", !.o.pfns = TRUE, !.o.invoke = TRUE])
                                      IN R(e.out, Pop(e.st))
                                 [] it.fn = "tpl" ->
                                      LET s5 == Push(s4, Lbl("frame:expandTemplate()"))
                                          e == Exp(<<[k |-> "c", name |-> "T1", args |-> <<[named |-> TRUE, key |-> <<[k |-> "t", s |-> <<"1">>]>>, val |-> <<[k |-> "t", s |-> <<"e">>]>>]>>]>>,
                                                   f, TRUE, s5, [X EXCEPT !.o.pre = FALSE, !.o.tfn = "none", !.o.pfn = "none", !.o.pfns = TRUE, !.o.invoke = TRUE])
                                      IN R(e.out, Pop(e.st))
                         IN R(AddNL(res.out), Pop(Pop(Restore(res.st))))

(* ---------------- one expand() call ---------------- *)
InitSt(stack) == [stack |-> stack, msgs |-> <<>>, hooks |-> <<>>, ev |-> <<>>, steps |-> 0, peak |-> Len(stack), inpass |-> FALSE]
ExpandCall(page, stack, X) == Exp(page, TopFrame, ~X.o.pre, InitSt(stack), X)
=============================================================================
