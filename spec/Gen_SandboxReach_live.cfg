SPECIFICATION SpecSat
CONSTANTS
  Edges <- L_Edges
  Init0 <- L_Init
  Forbidden <- L_Forbidden
INVARIANT GenInv
CHECK_DEADLOCK FALSE
