----------------------------- MODULE Includable -----------------------------
(* Transcription of core.py `Wtp._template_to_body` (the text-level          *)
(* extraction of the includable part of a template body) on token sequences, *)
(* and its link to the segment-level reference `IncludablePart` of           *)
(* Transclusion.tla (property C04, last sentence).                           *)
(* Tokens: "NO" <noinclude>  "NC" </noinclude>  "IO" <includeonly>           *)
(* "IC" </includeonly>  "OO" <onlyinclude>  "OC" </onlyinclude>              *)
(* "OS" <onlyinclude/>  "CO" <!--  "CC" -->  and text atoms.                 *)
EXTENDS Naturals, Sequences, FiniteSets, TLC

IndexFrom(s, tok, i) == \* smallest j >= i with s[j] = tok, or 0
  IF \E j \in i..Len(s) : s[j] = tok THEN CHOOSE j \in i..Len(s) : s[j] = tok /\ \A k \in i..(j - 1) : s[k] # tok ELSE 0

\* re.sub(r"(?s)<open>.*?<close>", "", text): leftmost, non-greedy, non-overlapping
RECURSIVE RemoveSpans(_, _, _)
RemoveSpans(s, open, close) ==
  LET i == IndexFrom(s, open, 1) IN
  IF i = 0 THEN s
  ELSE LET j == IndexFrom(s, close, i + 1) IN
       IF j = 0 THEN s
       ELSE SubSeq(s, 1, i - 1) \o RemoveSpans(SubSeq(s, j + 1, Len(s)), open, close)

\* re.sub(r"(?s)<tok>.*", "", text)
CutFrom(s, tok) == LET i == IndexFrom(s, tok, 1) IN IF i = 0 THEN s ELSE SubSeq(s, 1, i - 1)

\* finditer(<onlyinclude>(.*?)</onlyinclude> | <onlyinclude/>): list of group contents
RECURSIVE Onlys(_, _)
Onlys(s, i) ==
  IF i > Len(s) THEN <<>>
  ELSE IF s[i] = "OO" /\ IndexFrom(s, "OC", i + 1) # 0
       THEN LET j == IndexFrom(s, "OC", i + 1) IN <<SubSeq(s, i + 1, j - 1)>> \o Onlys(s, j + 1)
       ELSE IF s[i] = "OS" THEN <<<<>>>> \o Onlys(s, i + 1)
       ELSE Onlys(s, i + 1)
RECURSIVE Flatten(_)
Flatten(ss) == IF ss = <<>> THEN <<>> ELSE Head(ss) \o Flatten(Tail(ss))

Drop(s, toks) == SelectSeq(s, LAMBDA x : x \notin toks)

TemplateToBody(text) ==
  LET t1 == RemoveSpans(text, "CO", "CC")          \* closed comments
      t2 == RemoveSpans(t1, "NO", "NC")            \* closed noinclude
      t3 == CutFrom(t2, "NO")                      \* unclosed noinclude: rest of the body
      t4 == CutFrom(t3, "CO")                      \* unclosed comment at the end
      os == Onlys(t4, 1)
      t5 == IF os # <<>> THEN Flatten(os) ELSE t4
  IN Drop(t5, {"IO", "IC"})

(* ---- link to the segment-level reference --------------------------------- *)
\* rendering of a (non-nested, well-formed) segment list to tokens
RECURSIVE RenderSegs(_)
RenderSegs(segs) ==
  IF segs = <<>> THEN <<>>
  ELSE LET g == Head(segs)
           w == CASE g.w = "plain" -> g.c
                  [] g.w = "noinclude" -> <<"NO">> \o g.c \o <<"NC">>
                  [] g.w = "includeonly" -> <<"IO">> \o g.c \o <<"IC">>
                  [] g.w = "onlyinclude" -> <<"OO">> \o g.c \o <<"OC">>
                  [] g.w = "comment" -> <<"CO">> \o g.c \o <<"CC">>
       IN w \o RenderSegs(Tail(segs))
RECURSIVE SegSelect(_, _)
SegSelect(segs, ws) ==
  IF segs = <<>> THEN <<>> ELSE (IF Head(segs).w \in ws THEN Head(segs).c ELSE <<>>) \o SegSelect(Tail(segs), ws)
RefIncludable(segs) ==
  IF \E i \in 1..Len(segs) : segs[i].w = "onlyinclude" THEN SegSelect(segs, {"onlyinclude"})
  ELSE SegSelect(segs, {"plain", "includeonly"})
=============================================================================
