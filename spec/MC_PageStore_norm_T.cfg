SPECIFICATION SpecNorm
CONSTANTS
  PfxNs <- T_PfxNs
  CanonPfx <- T_CanonPfx
  UpperOf <- T_UpperOf
  ArgU <- ArgSet
  Dev <- DevIdeal
  Namespaces <- NsAll
  Bases <- BasesThree
  Bodies <- BodiesOne
  MaxLen = 0
  LookupPfx <- PfxAll
  WithUnderscore = TRUE
  WithNoNs = TRUE
  NrSet <- NrBoth
INVARIANT GetAgreesWithRef
CHECK_DEADLOCK FALSE
