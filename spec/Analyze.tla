--------------------------- MODULE Analyze ---------------------------
(* Template analysis of wikitextprocessor (core.py: analyze_templates,      *)
(* set_template_pre_expand, get_page; dumpparser.py only forwards the        *)
(* classifier).                                                              *)
(*                                                                           *)
(* A *world* is the content of the template namespace plus the classifier's  *)
(* answers: a sequence (database order) of pages                             *)
(*    [title, redirect, uses, flag]                                          *)
(* title    - stored title (atoms, canonical prefix atom first)              *)
(* redirect - NoRedirect or the stored title of the target                   *)
(* uses     - the names the classifier reports for the page, *as written in  *)
(*            the body* (atoms without prefix, or with any prefix spelling,  *)
(*            lower-case initial, "US" for an underscore ...)                *)
(* flag     - the classifier says the page affects document structure        *)
(* A world may carry a field `pre`: the titles whose need_pre_expand is      *)
(* already 1 when the call starts (left behind by an earlier analysis of a   *)
(* database that has been edited since, or written by                        *)
(* add_page(.., need_pre_expand=True) / an overwrite file).  No field = a    *)
(* fresh database.                                                           *)
(*                                                                           *)
(* The algorithm is transcribed step by step (one action per loop iteration  *)
(* of the code); the reference states what the property demands.  Names are  *)
(* resolved to pages the way the page store resolves them (PageStore.tla).   *)
EXTENDS PageStore

CONSTANTS TplNs      \* id of the template namespace

(* ------------------------------------------------------------------ *)
(* worlds                                                             *)
(* ------------------------------------------------------------------ *)
WPage(title, redirect, uses, flag) ==
  [title |-> title, redirect |-> redirect, uses |-> uses, flag |-> flag]

PagesOf(W) == {W.pages[k] : k \in 1..Len(W.pages)}
Titles(W) == {p.title : p \in PagesOf(W)}
PageAt(W, t) == CHOOSE p \in PagesOf(W) : p.title = t
RowsOf(W) == {Row(p.title, TplNs, p.redirect, "b", "wikitext") : p \in PagesOf(W)}
Flagged(W) == {p.title : p \in {q \in PagesOf(W) : q.flag}}
\* marks present before the call (only existing pages can carry one)
PreOf(W) == IF "pre" \in DOMAIN W THEN W.pre \cap Titles(W) ELSE {}
WithPre(W, P) == [pages |-> W.pages, pre |-> P]

\* title without the namespace prefix (str.removeprefix: unchanged if absent)
NoPfx(t) == IF HasCanon(TplNs) /\ StartsWith(t, CanonPfx[NsKey(TplNs)]) THEN Tail(t) ELSE t

(* ------------------------------------------------------------------ *)
(* reference: what the property demands                               *)
(* ------------------------------------------------------------------ *)
\* the page a written name denotes, per the page store's reference semantics
Denotes(W, w) == RefGet(RowsOf(W), w, TplNs, FALSE)

\* p includes q: some name written in p denotes the page q
Includes(W, p, q) ==
  \E w \in PageAt(W, p).uses : LET r == Denotes(W, w) IN r.found /\ r.title = q

\* as-is deviation: a written name only reaches the page whose title (without
\* prefix) is the very same string
IncludesExact(W, p, q) == NoPfx(q) \in PageAt(W, p).uses

\* x = TRUE: the as-is matching, x = FALSE: what the property demands
Inc(W, x, p, q) == IF x THEN IncludesExact(W, p, q) ELSE Includes(W, p, q)
\* the inclusion relation {<<includer, included>>} and the redirect relation
\* {<<redirect page, target page>>} of a world (independent of the flags)
\* (computed page by page: every written name is resolved once)
IncRel(W, x) ==
  IF x THEN UNION { {<<p.title, q>> : q \in {t \in Titles(W) : NoPfx(t) \in p.uses}} : p \in PagesOf(W) }
  ELSE LET S == RowsOf(W) IN
       UNION { {<<p.title, r.title>> : r \in {y \in {RefGet(S, w, TplNs, FALSE) : w \in p.uses} : y.found}}
               : p \in PagesOf(W) }
\* ... which is the relation Inc, spelled out pair by pair
IncRelIsInc(W, x) == IncRel(W, x) = {e \in Titles(W) \X Titles(W) : Inc(W, x, e[1], e[2])}
RedirRel(W) == {<<p.title, p.redirect>> : p \in {q \in PagesOf(W) : q.redirect \in Titles(W)}}

\* least set containing F and closed under "includes a member"
RECURSIVE LfpR(_, _)
LfpR(R, M) ==
  LET M2 == M \cup {e[1] : e \in {x \in R : x[2] \in M}} IN
  IF M2 = M THEN M ELSE LfpR(R, M2)

\* the same, stated without an iteration (used as a cross-check on small worlds)
ClosedUnderIncluders(R, F, X) ==
  /\ F \subseteq X
  /\ \A e \in R : e[2] \in X => e[1] \in X
IsLeastClosure(T, R, F, X) ==
  /\ ClosedUnderIncluders(R, F, X)
  /\ \A Y \in SUBSET T : ClosedUnderIncluders(R, F, Y) => X \subseteq Y

\* redirect neighbours of a set: redirects to a member, targets of members
RedirNbR(D, X) == {e[1] : e \in {d \in D : d[2] \in X}} \cup {e[2] : e \in {d \in D : d[1] \in X}}

\* the statement read literally: closure plus its redirect neighbours
LowerR(R, D, F) == LET L == LfpR(R, F) IN L \cup RedirNbR(D, L)

\* the most generous reading ("marked" also meaning the redirect neighbours, which
\* then propagate again): the least set closed under all three rules.  A marked set
\* between Lower and Upper does not contradict the statement.
RECURSIVE FullFixR(_, _, _)
FullFixR(R, D, M) ==
  LET M2 == M \cup {e[1] : e \in {x \in R : x[2] \in M}} \cup RedirNbR(D, M) IN
  IF M2 = M THEN M ELSE FullFixR(R, D, M2)

Closure(W) == LfpR(IncRel(W, FALSE), Flagged(W))
Lower(W) == LowerR(IncRel(W, FALSE), RedirRel(W), Flagged(W))
Upper(W) == FullFixR(IncRel(W, FALSE), RedirRel(W), Flagged(W))
\* what the unrepaired code computes (names matched as exact strings)
AsIs(W) == LowerR(IncRel(W, TRUE), RedirRel(W), Flagged(W))

(* ---- a call on a database that already carries marks (world.pre) ---- *)
\* What the statement demands whatever the earlier marks are: everything the
\* classifier flags now and everything that transitively includes it (+ redirect
\* neighbours) is marked after the call.  This is Lower(W): it does not depend on pre.
\* What it allows at most: analysis never removes a mark, earlier marks count as
\* "marked", so nothing beyond the full fixpoint from flagged \cup pre.
UpperH(W) == FullFixR(IncRel(W, FALSE), RedirRel(W), Flagged(W) \cup PreOf(W))
\* What the (repaired) code computes, and the statement read with "a marked one" also
\* meaning an earlier mark: the closure from flagged \cup pre, plus redirect neighbours.
IdealH(W) == LowerR(IncRel(W, FALSE), RedirRel(W), Flagged(W) \cup PreOf(W))

\* As-is deviation "MarkedNotReseeded": only the pages flagged in this call are
\* propagation sources, and propagation stops at a page that is marked already
\* (B = marks after the classifier pass).
RECURSIVE LfpBlockedR(_, _, _)
LfpBlockedR(R, B, X) ==
  LET X2 == X \cup {e[1] : e \in {x \in R : x[2] \in X /\ x[1] \notin B}} IN
  IF X2 = X THEN X ELSE LfpBlockedR(R, B, X2)
AsIsHR(R, D, F, P) ==
  LET M1 == P \cup LfpBlockedR(R, P \cup F, F) IN M1 \cup RedirNbR(D, M1)
AsIsH(W) == AsIsHR(IncRel(W, FALSE), RedirRel(W), Flagged(W), PreOf(W))

(* ------------------------------------------------------------------ *)
(* the algorithm as coded                                             *)
(* ------------------------------------------------------------------ *)
VARIABLES
  world,   \* the input (never changes)
  marked,  \* titles with need_pre_expand = 1
  pc,      \* "classify" | "propagate" | "inner" | "sql1" | "sql2" | "done"
  ci,      \* index of the next page of the classifier pass
  imap,    \* included_map as a set of <<key, including title>>
  stack,   \* expand_stack (titles)
  todo,    \* includers of the popped page still to be visited
  amemo    \* get_page memo: set of [arg, found, title, marked]

avars == <<world, marked, pc, ci, imap, stack, todo, amemo, cur, com, memo>>

AInit(W) ==
  /\ world = W
  /\ cur = RowsOf(W) /\ com = {} /\ memo = {}
  /\ marked = PreOf(W) /\ pc = "classify" /\ ci = 1
  /\ imap = {} /\ stack = <<>> /\ todo = {} /\ amemo = {}

\* the same as an action (a new call of analyze_templates on another world)
AReset(W) ==
  /\ world' = W
  /\ cur' = RowsOf(W) /\ com' = {} /\ memo' = {}
  /\ marked' = PreOf(W) /\ pc' = "classify" /\ ci' = 1
  /\ imap' = {} /\ stack' = <<>> /\ todo' = {} /\ amemo' = {}

\* get_page(name, template ns) through the lru_cache; the Page object carries the
\* need_pre_expand value of the moment it was read
FreshGet(name) ==
  LET r == DbGet(cur, name, TplNs, FALSE) IN
  [arg |-> name, found |-> r.found, title |-> r.title, marked |-> r.found /\ r.title \in marked]
MemoGet(m, name) ==
  IF \E e \in m : e.arg = name THEN CHOOSE e \in m : e.arg = name ELSE FreshGet(name)

\* key under which a written name is entered into included_map
MapKey(m, w) ==
  IF "IncludedNamesMatchedExactly" \in Dev THEN w
  ELSE LET g == MemoGet(m, w) IN IF g.found THEN NoPfx(g.title) ELSE w

Classify ==
  /\ pc = "classify"
  /\ IF ci > Len(world.pages)
     THEN /\ pc' = "propagate"
          /\ UNCHANGED <<marked, ci, imap, stack, amemo>>
     ELSE LET p == world.pages[ci] IN
          /\ imap' = imap \cup {<<MapKey(amemo, w), p.title>> : w \in p.uses}
          /\ amemo' = IF "IncludedNamesMatchedExactly" \in Dev THEN amemo
                      ELSE amemo \cup {MemoGet(amemo, w) : w \in p.uses}
          /\ marked' = IF p.flag THEN marked \cup {p.title} ELSE marked
          \* page.need_pre_expand of the row as read by get_all_pages: the mark the
          \* page had before the call (its own row is only updated after it was read)
          /\ stack' = IF p.flag \/ (p.title \in marked /\ "MarkedNotReseeded" \notin Dev)
                       THEN Append(stack, p.title) ELSE stack
          /\ ci' = ci + 1
          /\ pc' = pc
  /\ UNCHANGED <<world, todo, cur, com, memo>>

Pop ==
  /\ pc = "propagate"
  /\ IF Len(stack) = 0
     THEN pc' = "sql1" /\ UNCHANGED <<stack, todo>>
     ELSE LET t == stack[Len(stack)]
              inc == {e[2] : e \in {x \in imap : x[1] = NoPfx(t)}} IN
          /\ stack' = SubSeq(stack, 1, Len(stack) - 1)
          /\ todo' = inc
          /\ pc' = IF inc = {} THEN "propagate" ELSE "inner"
  /\ UNCHANGED <<world, marked, ci, imap, amemo, cur, com, memo>>

Visit ==
  /\ pc = "inner"
  /\ \E t \in todo :
       LET m == IF "MemoNotClearedInLoop" \in Dev THEN amemo ELSE {}
           g == MemoGet(m, t) IN
       /\ amemo' = m \cup {g}
       /\ IF ~g.found \/ g.marked
          THEN UNCHANGED <<marked, stack>>
          ELSE marked' = marked \cup {g.title} /\ stack' = Append(stack, g.title)
       /\ todo' = todo \ {t}
       /\ pc' = IF todo' = {} THEN "propagate" ELSE "inner"
  /\ UNCHANGED <<world, ci, imap, cur, com, memo>>

\* UPDATE pages SET need_pre_expand = 1 FROM pages AS dest
\*   WHERE pages.redirect_to = dest.title AND dest.need_pre_expand = 1 ...
\* (one statement: the join is evaluated on the state before the update)
Sql1 ==
  /\ pc = "sql1"
  /\ marked' = marked \cup {r.title : r \in {x \in cur : x.redirect \in marked /\
                                              \E d \in cur : d.title = x.redirect /\ d.ns = x.ns}}
  /\ pc' = "sql2"
  /\ UNCHANGED <<world, ci, imap, stack, todo, amemo, cur, com, memo>>

\* ... FROM pages AS source WHERE pages.title = source.redirect_to AND source.need_pre_expand = 1
Sql2 ==
  /\ pc = "sql2"
  /\ marked' = marked \cup {r.title : r \in {x \in cur : \E s \in cur :
                                              s.redirect = x.title /\ s.ns = x.ns /\ s.title \in marked}}
  /\ pc' = "done"
  /\ UNCHANGED <<world, ci, imap, stack, todo, amemo, cur, com, memo>>

ANext == Classify \/ Pop \/ Visit \/ Sql1 \/ Sql2
Done == pc = "done"

(* ---- histories: analyse, edit the store, analyse again ---- *)
\* A world may carry a field `next` = [world, reset, set]: after this call pages are
\* written with add_page() (new rows or overwritten ones: `reset` = their titles; a
\* written row carries the need_pre_expand argument: `set` = the titles written with
\* need_pre_expand=True, a subset of reset), giving next.world, which is analysed next.
\* All other rows keep the mark the earlier call left.
MarksAfterEdit(M, nx) == ((M \ nx.reset) \cup nx.set) \cap Titles(nx.world)
HasNext(W) == "next" \in DOMAIN W
NextWorld(W, M) ==
  LET nx == W.next
      P == MarksAfterEdit(M, nx) IN
  IF HasNext(nx.world) THEN [pages |-> nx.world.pages, pre |-> P, next |-> nx.world.next]
  ELSE [pages |-> nx.world.pages, pre |-> P]
Rerun == pc = "done" /\ HasNext(world) /\ AReset(NextWorld(world, marked))
AHNext == ANext \/ Rerun
Finished == pc = "done" /\ ~HasNext(world)

(* ------------------------------------------------------------------ *)
(* properties of the model                                            *)
(* ------------------------------------------------------------------ *)
\* the result is exactly the closure plus its redirect neighbours
ResultIsClosure == Done => marked = Lower(world)
\* with the deviation switched on the model computes the exact-string closure
ResultIsAsIs == Done => marked = AsIs(world)
\* ... which lies inside every reading of the statement
ResultWithinStatement == Done => (Lower(world) \subseteq marked /\ marked \subseteq Upper(world))
\* nothing is marked too early or without reason; the stack only holds marked pages
NeverOvermarks ==
  /\ (pc \in {"classify", "propagate", "inner", "sql1"}) => marked \subseteq Closure(world)
  /\ \A k \in 1..Len(stack) : stack[k] \in marked
\* ... the same for a call on a database that already carries marks
ResultIsIdealH == Done => marked = IdealH(world)
ResultIsAsIsH == Done => marked = AsIsH(world)
ResultWithinStatementH == Done => (Lower(world) \subseteq marked /\ marked \subseteq UpperH(world))
NeverOvermarksH ==
  /\ (pc \in {"classify", "propagate", "inner", "sql1"}) =>
        marked \subseteq LfpR(IncRel(world, FALSE), Flagged(world) \cup PreOf(world))
  /\ \A k \in 1..Len(stack) : stack[k] \in marked
\* earlier marks are never removed
KeepsEarlierMarks == PreOf(world) \subseteq marked
\* a page is pushed at most once (hence termination within |pages| pops)
PushedOnce == \A j, k \in 1..Len(stack) : j # k => stack[j] # stack[k]
\* the iterative and the declarative definitions of the closure coincide
LfpIsLeast == IncRelIsInc(world, FALSE) /\ IncRelIsInc(world, TRUE) /\ IsLeastClosure(Titles(world), IncRel(world, FALSE), Flagged(world), Closure(world))
\* termination (checked under weak fairness of the algorithm's steps)
Terminates == <>Done
TerminatesH == <>Finished
=============================================================================
