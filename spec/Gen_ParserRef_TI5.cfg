SPECIFICATION Spec
CONSTANTS
  Universe = "I"
  MaxLines = 5
INVARIANT MachineOK
CHECK_DEADLOCK FALSE
