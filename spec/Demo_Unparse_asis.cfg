SPECIFICATION Spec
CONSTANTS
  Universe = "GQ"
  Part = 0
  Parts = 1
  Known = {}
  Tags <- TagsFromFile
INVARIANT RoundTripAsIs
CHECK_DEADLOCK FALSE
