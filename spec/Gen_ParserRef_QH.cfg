SPECIFICATION Spec
CONSTANTS
  Universe = "H"
  MaxLines = 4
INVARIANT MachineOK
CHECK_DEADLOCK FALSE
