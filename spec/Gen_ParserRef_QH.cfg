SPECIFICATION Spec
CONSTANTS
  Universe = "H"
  MaxLines = 4
INVARIANT MachineOK
INVARIANT GenInv
CHECK_DEADLOCK FALSE
