SPECIFICATION Spec
CONSTANTS
  Universe = "C16"
  Known <- KnownExp
  DepthLimit = 100
  PreBody <- ThePreBody
  LogEvents = TRUE
INVARIANT GenInv
CHECK_DEADLOCK FALSE
