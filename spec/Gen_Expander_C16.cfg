SPECIFICATION Spec
CONSTANTS
  Universe = "C16"
  Known <- NoDev
  DepthLimit = 100
  PreBody <- ThePreBody
  LogEvents = TRUE
INVARIANT GenInv
CHECK_DEADLOCK FALSE
