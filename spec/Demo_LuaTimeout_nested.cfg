SPECIFICATION Spec
CONSTANTS
  Dev <- DevNested
  B = 3
  RecMax = 1
  Bodies <- BodiesTight
  Kinds <- KindsAll
  MaxDepth = 1
  Progs <- P_inv
PROPERTY AbortedAfterDeadline
CHECK_DEADLOCK FALSE
