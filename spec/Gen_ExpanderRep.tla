-------------------------- MODULE Gen_ExpanderRep --------------------------
(* C13 repeated calls: universes in which the SAME call (same name and, after *)
(* argument substitution, the same argument text) occurs several times in one *)
(* piece of text -- the page, one template body, one argument value, one      *)
(* parser-function branch, one link part -- and in which the hooks answer per *)
(* CALL instead of per (name, arguments): policies "first" / "later" / "num"  *)
(* of template_fn and "number" of post_template_fn (Expander.tla, banner      *)
(* "C13 repeated calls") depend on how many hook calls were made so far in    *)
(* the expand().  The twin threads the hook calls through its state, so the   *)
(* predicted output and the exact hook-call sequence come out of TLC.         *)
(*                                                                            *)
(* Model-level law checked here (besides those of Gen_Expander): an           *)
(* occurrence of a call is an expanded call of its own -- for hooks that are  *)
(* pure functions of (name, arguments), expanding n copies of a unit makes    *)
(* exactly n times the hook calls of one copy, and n times its text.          *)
EXTENDS Gen_Expander

(* ---------------- library: bodies holding repeated calls ---------------- *)
\* Row: two calls that become the same call only after {{{n}}} substitution
RowBody == Plain(<<Call("T1", <<Pos(<<Par(<<"1">>)>>)>>), Txt(<<"+">>), Call("T1", <<Pos(<<Par(<<"2">>)>>)>>)>>)
\* Two: literally the same call twice, another call between them
TwoBody == Plain(<<Call("T1", <<Pos(<<Txt(<<"k">>)>>)>>), Call("Sp", <<>>), Call("T1", <<Pos(<<Txt(<<"k">>)>>)>>)>>)
\* Dup: one argument used twice (its value is expanded ONCE, before substitution)
DupBody == Plain(<<Par(<<"1">>), Txt(<<"/">>), Par(<<"1">>)>>)
LibRep == LibBase @@ ("Row" :> RowBody) @@ ("Two" :> TwoBody) @@ ("Dup" :> DupBody)

(* ---------------- units: the call that is repeated ---------------- *)
TA == <<Txt(<<"a">>)>>
TB == <<Txt(<<"b">>)>>
TQ == <<Txt(<<"q">>)>>
TR == <<Txt(<<"r">>)>>
CSp == Call("Sp", <<>>)
Other == Call("T1", <<Pos(TB)>>)
UnitsQ == { Call("T1", <<Pos(TA)>>),                       \* plain call
            CSp,                                           \* no arguments
            Call("E", <<>>),                               \* empty expansion (post_template_fn not consulted)
            Call("T2", <<Pos(TA), Named(<<"x">>, TB)>>),    \* body calls T1
            Call("T1", <<Pos(<<CSp>>)>>),                   \* a call in the argument
            Call("Row", <<Pos(TQ), Pos(TQ)>>),              \* body: equal calls after substitution
            Call("Two", <<>>),                             \* body: equal calls as written
            Call("Dup", <<Pos(<<CSp>>)>>) }                 \* argument value used twice
Units == UnitsQ \cup { Call("NOPE", <<Pos(TA)>>),           \* no such template
                       Call("Row", <<Pos(TQ), Pos(TR)>>),
                       Call("T1", <<Named(<<"x">>, TA)>>),
                       Call("T2", <<Pos(<<Call("T1", <<Pos(TA)>>), Call("T1", <<Pos(TA)>>)>>)>>) }

(* ---------------- shapes: where the repetition sits ---------------- *)
SPt == Txt(<<"SP">>)
\* [page, unit, n, sep]: n > 0 says that the page is n copies of `unit` joined by text `sep`
Shaped(s, u) ==
  CASE s = "one" -> [page |-> <<u>>, unit |-> <<u>>, n |-> 1, sep |-> <<>>]
    [] s = "x2" -> [page |-> <<u, u>>, unit |-> <<u>>, n |-> 2, sep |-> <<>>]
    [] s = "x3" -> [page |-> <<u, SPt, u, SPt, u>>, unit |-> <<u>>, n |-> 3, sep |-> <<"SP">>]
    [] s = "mixed" -> [page |-> <<u, SPt, Other, SPt, u>>, unit |-> <<u>>, n |-> 0, sep |-> <<>>]
    [] s = "list" -> [page |-> <<Txt(<<"*", "SP">>), u, Txt(<<"NL", "*", "SP">>), Other, Txt(<<"NL", "*", "SP">>), u, Txt(<<"NL">>)>>,
                      unit |-> <<u>>, n |-> 0, sep |-> <<>>]
    [] s = "argval" -> [page |-> <<Call("T1", <<Pos(<<u, u>>)>>)>>, unit |-> <<u>>, n |-> 0, sep |-> <<>>]
    [] s = "namedval" -> [page |-> <<Call("T1", <<Named(<<"x">>, <<u, Txt(<<"+">>), u>>)>>)>>, unit |-> <<u>>, n |-> 0, sep |-> <<>>]
    [] s = "twoargs" -> [page |-> <<Call("T1", <<Pos(<<u>>), Named(<<"x">>, <<u>>)>>)>>, unit |-> <<u>>, n |-> 0, sep |-> <<>>]
    [] s = "unexparg" -> [page |-> <<Call("NOPE", <<Pos(<<u, u>>)>>)>>, unit |-> <<u>>, n |-> 0, sep |-> <<>>]
    [] s = "wrapped2" -> [page |-> <<Call("NOPE", <<Pos(<<u>>)>>), Call("NOPE", <<Pos(<<u>>)>>)>>,
                          unit |-> <<Call("NOPE", <<Pos(<<u>>)>>)>>, n |-> 2, sep |-> <<>>]
    [] s = "ifbranch" -> [page |-> <<If(<<Txt(<<"1">>)>>, <<u, u>>, <<>>)>>, unit |-> <<u>>, n |-> 0, sep |-> <<>>]
    [] s = "linkpart" -> [page |-> <<Link(<<TA, <<u, u>>>>)>>, unit |-> <<u>>, n |-> 0, sep |-> <<>>]
    [] s = "nested" -> [page |-> <<u, Call("T1", <<Pos(<<u>>)>>), u>>, unit |-> <<u>>, n |-> 0, sep |-> <<>>]
Shapes == {"one", "x2", "x3", "mixed", "list", "argval", "namedval", "twoargs", "unexparg", "wrapped2", "ifbranch", "linkpart", "nested"}
ShapesQ == Shapes \ {"one", "namedval", "linkpart"}

(* ---------------- options ---------------- *)
TfnPolicies == {"none", "observe", "marker", "first", "later", "num"}
PfnPolicies == {"none", "observe", "replace", "number"}
PurePolicies == {"none", "observe", "marker", "replace"}
OptsRepFull == { Opt(FALSE, FALSE, {}, FALSE, {}, TRUE, TRUE, tf, po) : tf \in TfnPolicies, po \in PfnPolicies }
SelHooks == { <<"first", "number">>, <<"num", "none">>, <<"observe", "observe">>, <<"later", "replace">>, <<"none", "number">> }
SelHooksQ == { <<"first", "number">>, <<"num", "none">>, <<"observe", "observe">> }
OptsRepSelOf(hs) ==
  { Opt(TRUE, he, IF he THEN {"T1", "Row"} ELSE {}, hn, IF hn THEN {"Sp"} ELSE {}, TRUE, TRUE, h[1], h[2]) :
      he \in BOOLEAN, hn \in BOOLEAN, h \in hs }
RepNeeds == { {"T1"}, {"Sp", "T2"}, {"Row", "Two", "Dup"} }

MkCase(sh, s, nd, o, e) ==
  [lib |-> LibRep, need |-> nd, page |-> sh.page, o |-> o, enw |-> e, shape |-> s, unit |-> sh.unit, n |-> sh.n, sep |-> sh.sep]
RepCases ==
  CASE Universe = "C13R" ->
         { MkCase(Shaped(s, u), s, {}, o, TRUE) : s \in Shapes, u \in Units, o \in OptsRepFull }
         \cup { MkCase(Shaped(s, u), s, nd, o, e) : s \in Shapes, u \in Units, nd \in RepNeeds, o \in OptsRepSelOf(SelHooks), e \in BOOLEAN }
    [] Universe = "C13RQ" ->
         { MkCase(Shaped(s, u), s, {}, o, TRUE) : s \in ShapesQ, u \in UnitsQ, o \in OptsRepFull }
         \cup { MkCase(Shaped(s, u), s, nd, o, TRUE) : s \in ShapesQ, u \in UnitsQ, nd \in RepNeeds, o \in OptsRepSelOf(SelHooksQ) }

RepInit == case \in RepCases
RepSpec == RepInit /\ [][Next]_case

(* ---------------- model-level law: every occurrence is a call of its own ---------------- *)
RECURSIVE Times(_, _, _)
Times(n, s, sep) == IF n = 0 THEN <<>> ELSE IF n = 1 THEN s ELSE s \o sep \o Times(n - 1, s, sep)
OccurrencesIndependentR(r) ==
  (case.n > 0 /\ case.o.tfn \in PurePolicies /\ case.o.pfn \in PurePolicies) =>
     LET one == Run([case EXCEPT !.page = case.unit], {})
     IN /\ r.st.hooks = Times(case.n, one.st.hooks, <<>>)
        /\ r.out = Times(case.n, one.out, case.sep)
\* per-call answers: the non-None answer of template_fn is the expansion of THAT call only --
\* with the numbering policy every copy at page level shows an ordinal of its own
IsOrdinal(atom, m) == \E k \in 1..m : atom = "#" \o ToString(k)
NumberedOnceR(r) ==
  (case.n > 0 /\ case.shape \in {"x2", "x3"} /\ case.o.tfn = "num" /\ case.o.pfn = "none"
   /\ (case.o.pre => NeedExpand(case.unit[1].name, case.o, case.lib, case.need))) =>
     LET m == HookCount(r.st, "template_fn")
         at == {i \in 1..Len(r.out) : IsOrdinal(r.out[i], m)}
     IN Cardinality(at) = case.n /\ \A i, j \in at : i # j => r.out[i] # r.out[j]

RepEmitR(r) ==
  LET a == IF Known = {} THEN r ELSE Run(case, Known)
  IN PrintT(<<"CASE", ToJson([lib |-> case.lib, need |-> case.need, page |-> case.page, o |-> case.o, enw |-> case.enw,
                               shape |-> case.shape,
                               out |-> r.out, stack |-> r.st.stack, msgs |-> r.st.msgs, hooks |-> r.st.hooks,
                               ev |-> r.st.ev,
                               asis_out |-> a.out, asis_stack |-> a.st.stack])>>)
RepGenInv == LET r == Run(case, {}) IN LawsR(r) /\ OccurrencesIndependentR(r) /\ NumberedOnceR(r) /\ RepEmitR(r)

=============================================================================
