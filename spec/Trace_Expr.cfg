SPECIFICATION TSpec
CONSTANTS
  Dev <- NoDev
INVARIANT Verdict
POSTCONDITION Accepted
CHECK_DEADLOCK FALSE
