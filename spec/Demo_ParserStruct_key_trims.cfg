SPECIFICATION Spec
CONSTANTS
  Universe = "HIST"
  Part = 0
  Parts = 1
  Known = {}
  Tags <- TagsFromFile
INVARIANT DemoKeyTrims
CHECK_DEADLOCK FALSE
