SPECIFICATION Spec
CONSTANTS
  MaxTok = 0
  Mode = "nested"
  Depth = 3
INVARIANT GenInv
CHECK_DEADLOCK FALSE
