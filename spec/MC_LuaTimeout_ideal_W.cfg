SPECIFICATION Spec
CONSTANTS
  Dev <- DevIdeal
  B = 3
  RecMax = 1
  Bodies <- BodiesAll
  Kinds <- KindsMC
  MaxDepth = 2
  Progs <- Programs
INVARIANT TypeOK
INVARIANT OutcomeMatches
INVARIANT TimeoutNotSwallowed
INVARIANT BoundedOverrun
INVARIANT CtxRestored
INVARIANT IdealMeetsDemand
PROPERTY AbortedAfterDeadline
PROPERTY TerminatingEnds
CHECK_DEADLOCK FALSE
