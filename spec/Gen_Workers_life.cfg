SPECIFICATION GSpec
CONSTANTS
  Procs <- P2
  Dev <- DevAsIs
  Scenarios <- ScnLife
  Focus = "life"
INVARIANT GenInv
INVARIANT TxnLockAgree
INVARIANT NoStaleSideFile
INVARIANT DoneMeansCommitted
CHECK_DEADLOCK FALSE
