SPECIFICATION GSpec
CONSTANTS
  Procs <- P2
  Dev <- DevAsIs
  Scenarios <- ScnLife
  Focus = "life"
INVARIANT GenInv
CHECK_DEADLOCK FALSE
