SPECIFICATION TSpec
INVARIANT Verdict
POSTCONDITION Accepted
CHECK_DEADLOCK FALSE
