---------------------------- MODULE MC_Workers ----------------------------
(* Bounded instances of Workers.                                            *)
EXTENDS Workers

P2 == {1, 2}
P3 == {1, 2, 3}
DevIdeal == {}
DevRace == {"RestoreRaceOnStartup"}
DevSnap == {"BootstrapUnderSnapshot"}
DevAsIs == {"RestoreRaceOnStartup", "BootstrapUnderSnapshot", "BootcheckNeverHits"}
DevNever == {"BootcheckNeverHits"}
DevSnapNever == {"BootstrapUnderSnapshot", "BootcheckNeverHits"}

\* drv: the creating context is still open when the workers start (only without a backup
\* file: a context that is open on the database would itself have restored the backup)
ScnPlain == [bak : BOOLEAN, boot : BOOLEAN, cursor : BOOLEAN, drv : {FALSE}]
ScnDrv == [bak : {FALSE}, boot : BOOLEAN, cursor : BOOLEAN, drv : {TRUE}]
ScnAll == ScnPlain \cup ScnDrv
ScnNoCursor == [bak : BOOLEAN, boot : BOOLEAN, cursor : {FALSE}, drv : {FALSE}]
ScnBak == [bak : {TRUE}, boot : {TRUE}, cursor : {FALSE}, drv : {FALSE}]
ScnCursor == [bak : {FALSE}, boot : BOOLEAN, cursor : {TRUE}, drv : {FALSE}]
ScnSafe == [bak : {FALSE}, boot : BOOLEAN, cursor : {FALSE}, drv : BOOLEAN]
\* lifetimes: contexts close and open at any moment, with and without the creating context
ScnLife == [bak : {FALSE}, boot : BOOLEAN, cursor : BOOLEAN, drv : BOOLEAN]
ScnLifeNoCursor == [bak : {FALSE}, boot : BOOLEAN, cursor : {FALSE}, drv : BOOLEAN]
DevTidy == {"BootcheckNeverHits", "CloseRemovesSideFiles"}
=============================================================================
