---------------------------- MODULE MC_Workers ----------------------------
(* Bounded instances of Workers.                                            *)
EXTENDS Workers

P2 == {1, 2}
P3 == {1, 2, 3}
DevIdeal == {}
DevRace == {"RestoreRaceOnStartup"}
DevSnap == {"BootstrapUnderSnapshot"}
DevAsIs == {"RestoreRaceOnStartup", "BootstrapUnderSnapshot", "BootcheckNeverHits"}
DevNever == {"BootcheckNeverHits"}
DevSnapNever == {"BootstrapUnderSnapshot", "BootcheckNeverHits"}

ScnAll == [bak : BOOLEAN, boot : BOOLEAN, cursor : BOOLEAN]
ScnNoCursor == [bak : BOOLEAN, boot : BOOLEAN, cursor : {FALSE}]
ScnBak == [bak : {TRUE}, boot : {TRUE}, cursor : {FALSE}]
ScnCursor == [bak : {FALSE}, boot : BOOLEAN, cursor : {TRUE}]
ScnSafe == [bak : {FALSE}, boot : BOOLEAN, cursor : {FALSE}]
=============================================================================
