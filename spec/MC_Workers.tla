---------------------------- MODULE MC_Workers ----------------------------
(* Bounded instances of Workers.                                            *)
EXTENDS Workers

P2 == {1, 2}
P3 == {1, 2, 3}
DevIdeal == {}
DevRace == {"RestoreRaceOnStartup"}
DevSnap == {"BootstrapUnderSnapshot"}
DevAsIs == {"RestoreRaceOnStartup", "BootstrapUnderSnapshot", "BootcheckNeverHits"}
DevNever == {"BootcheckNeverHits"}
DevSnapNever == {"BootstrapUnderSnapshot", "BootcheckNeverHits"}

\* drv: the creating context is still open when the workers start (only without a backup
\* file: a context that is open on the database would itself have restored the backup)
\* prov/rdr: see Workers (provenance of the files / which workers keep the cursor); the families
\* below this block keep the files "built" and the cursor on every worker
Old(S) == {[bak |-> s.bak, boot |-> s.boot, cursor |-> s.cursor, drv |-> s.drv, prov |-> "built", rdr |-> 0, bkd |-> FALSE] : s \in S}
ScnPlain == Old([bak : BOOLEAN, boot : BOOLEAN, cursor : BOOLEAN, drv : {FALSE}])
ScnDrv == Old([bak : {FALSE}, boot : BOOLEAN, cursor : BOOLEAN, drv : {TRUE}])
ScnNoCursor == Old([bak : BOOLEAN, boot : BOOLEAN, cursor : {FALSE}, drv : {FALSE}])
ScnBak == Old([bak : {TRUE}, boot : {TRUE}, cursor : {FALSE}, drv : {FALSE}])
ScnCursor == Old([bak : {FALSE}, boot : BOOLEAN, cursor : {TRUE}, drv : {FALSE}])
\* lifetimes: contexts close and open at any moment, with and without the creating context
ScnLife == Old([bak : {FALSE}, boot : BOOLEAN, cursor : BOOLEAN, drv : BOOLEAN])
ScnLifeNoCursor == Old([bak : {FALSE}, boot : BOOLEAN, cursor : {FALSE}, drv : BOOLEAN])
\* readers and writers on databases of every provenance: a backup written by backup_db() of an earlier
\* context (re-run), files in rollback-journal mode, and - on all of them and on the built files - a
\* single long-lived reader (worker 1 or worker 2) beside workers without cursor
ProvOk(s) == (s.prov = "lib" => s.bak) /\ ~(s.prov = "built" /\ s.rdr = 0)
ScnRW == {s \in [bak : BOOLEAN, boot : BOOLEAN, cursor : {TRUE}, drv : {FALSE}, prov : {"built", "lib", "rbj"}, rdr : {0, 1, 2}, bkd : {FALSE}] : ProvOk(s)}
\* quick tier: every reader pattern on the restored backup, one rollback-journal and one built file per single reader
ScnRWq == {s \in ScnRW : ~s.boot /\ (s.prov = "lib" \/ (s.prov = "rbj" /\ (s.bak <=> s.rdr = 2) /\ s.rdr # 0)
                                               \/ (s.prov = "built" /\ (s.bak <=> s.rdr = 1)))}
\* start-up on such files (who establishes WAL, in every interleaving of two start-ups)
ScnProvStart == {s \in [bak : BOOLEAN, boot : {FALSE}, cursor : {FALSE}, drv : {FALSE}, prov : {"lib", "rbj"}, rdr : {0}, bkd : {FALSE}] : ProvOk(s)}
ScnProv == ScnRW \cup ScnProvStart
ScnProvQ == ScnRWq \cup ScnProvStart
\* a restore WHILE ANOTHER LIVE PROCESS HAS THE DATABASE OPEN: the creating context wrote the backup with backup_db(),
\* went on storing pages (the backup holds version B, the database version M) and is still open when the workers start
\* (bak), or it writes the backup at some moment while workers are open (bkd: the backup is a copy of the database as
\* it is then; workers that are open stay on the replaced file, every later worker restores)
ScnRestoreLive == {[bak |-> b, boot |-> t, cursor |-> c, drv |-> TRUE, prov |-> IF b THEN "lib" ELSE "built", rdr |-> 0, bkd |-> ~b]
                   : b \in BOOLEAN, t \in BOOLEAN, c \in BOOLEAN}
ScnRestoreLiveQ == {s \in ScnRestoreLive : ~s.cursor}
ScnAll == ScnPlain \cup ScnDrv
ScnAllP == ScnAll \cup ScnProv \cup ScnRestoreLive
\* 3 workers, quick tier: one representative of every provenance / reader pattern
ScnAllQ == ScnAll \cup {s \in ScnProv : ~s.boot /\ s.rdr # 2 /\ (s.bak <=> s.prov = "lib")}
ScnSafe == Old([bak : {FALSE}, boot : BOOLEAN, cursor : {FALSE}, drv : BOOLEAN])
           \cup {s \in ScnProvStart : ~s.bak}
\* the seeded class: the journal mode is lost on the way through backup and restore
ScnRestored == {s \in ScnRW : s.prov = "lib" /\ ~s.boot /\ s.rdr = 1}
ScnLibOnly == {s \in ScnProv : s.prov # "rbj"}
ScnRbjReader == {s \in ScnRW : s.prov = "rbj" /\ ~s.bak /\ ~s.boot /\ s.rdr = 2}
DevRollback == {"BootcheckNeverHits", "BackupDropsJournalMode", "ModeSetByCreatorOnly"}
DevDrops == {"BootcheckNeverHits", "BackupDropsJournalMode"}
DevCreatorOnly == {"BootcheckNeverHits", "ModeSetByCreatorOnly"}
DevTidy == {"BootcheckNeverHits", "CloseRemovesSideFiles"}
\* the seeded class r6: a write transaction that is opened and not ended before the call returns.
\* Three workers race for the bootstrap write on a database without (and with) the bootstrap page.
\* With two workers the deviation is invisible (nobody writes after the loser): MC_Workers_skip_two.cfg
ScnBoot3 == Old([bak : {FALSE}, boot : BOOLEAN, cursor : {FALSE}, drv : {FALSE}])
DevSkip == {"CommitSkippedWhenUnchanged"}
\* the seeded class r7: the restore leaves a side file of the database it replaces.  Harmless when nobody has that
\* database open (ScnClosedBak: the index is rebuilt) - MC_Workers_keepsshm_closed.cfg
DevKeepsShm == {"BootcheckNeverHits", "RestoreKeepsShm"}
DevKeepsWal == {"BootcheckNeverHits", "RestoreKeepsWal"}
DevAsIsKeepsShm == DevAsIs \cup {"RestoreKeepsShm"}
ScnClosedBak == {s \in ScnPlain \cup ScnProv : s.bak}
=============================================================================
