SPECIFICATION Spec
CONSTANTS
  Universe = "tagtok"
  MaxLen = 3
INVARIANT DemoTagLaw
CHECK_DEADLOCK FALSE
