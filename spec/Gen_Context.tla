---------------------------- MODULE Gen_Context ----------------------------
EXTENDS Context, Json
CONSTANTS MaxLen, KindSet
NoDev == {}
DevAsBuilt == {"ExtensionTagsShared", "StringMetatableShared", "RetainedLibraryTablesShared"}
KnownC09 == {"StringMetatableShared", "RetainedLibraryTablesShared"}
AllKinds == Kinds
QuickKinds == Kinds \ {"luaTimeout"}
Next == Len(hist) < MaxLen /\ \E k \in KindSet : Process(k)
Spec == CInit /\ [][Next]_cvars
Emit == PrintT(<<"CASE", ToJson([hist |-> hist, interferes |-> [i \in 1..Len(clean) |-> clean[i]]])>>)
GenInv == Emit
=============================================================================
