---------------------------- MODULE Gen_Context ----------------------------
EXTENDS Context, Json
CONSTANTS MaxLen, KindSet, Shape
NoDev == {}
DevAsBuilt == {"ExtensionTagsShared", "StringMetatableShared", "RetainedLibraryTablesShared"}
KnownC09 == {"StringMetatableShared", "RetainedLibraryTablesShared"}
\* classes of seeded changes (round 8): what one call was given stays in force for later calls
DevTimeLimitKept == {"TimeLimitKept"}
DevCallOptionsKept == {"CallOptionsKept"}
\* class of a seeded change (round 9): constructors of the retained libraries hand out memoised objects
DevObjMemo == {"HandedOutObjectsMemoised"}
NamedCells == OptCells \cup {"lobjects"}
AllKinds == Kinds
BaseKinds == Kinds \ OptKinds       \* the kinds of the rounds before round 8
\* Sound reduction for model checking over ALL kinds: what a history can still do depends on `dirty` only, and
\* NonInterference on whether some step interfered: states that agree on the view have the same futures and the
\* same verdict (a state that violates the invariant differs in the third component from every state that does not)
MCView == <<dirty, Len(hist), \A i \in 1..Len(clean) : clean[i] = {}>>
QuickKinds == Kinds \ {"luaTimeout"}
\* Shape of the enumerated histories.  "all": every history over KindSet up to MaxLen (model checking).
\* "gen" (the histories the harness runs on the real code, each in its own process):
\*   - a kind that takes seconds (SlowKinds) is only placed where it tells something: slowModule after a call that
\*     was given a time limit (optTimeLimit, luaTimeout) somewhere earlier in the history; luaTimeout as before (anywhere);
\*   - histories of length <= 2 over all kinds; length 3: all over the kinds without the option kinds (as before
\*     round 8), and <writer of an option, any other kind, reader> (the option has to survive a call in between)
TimeLimitWriters == {"optTimeLimit", "luaTimeout"}
OptReaders == OptKinds
SlowOK(h, k) == k = "slowModule" => \E i \in 1..Len(h) : h[i] \in TimeLimitWriters
\* "genquick": as "gen", but of the pairs with an option kind only <writer of an option, any kind> and <any kind, probe
\* text with the defaults> (a writer after a kind that sets no option tells nothing the probe does not tell)
PairOK(h) == \/ Shape # "genquick"
             \/ h[1] \notin OptKinds /\ h[2] \notin OptKinds
             \/ h[1] \in OptWriters \cup TimeLimitWriters
             \/ h[2] \in {"optProbe", "optParseProbe"}
ShapeOK(h) == \/ Len(h) <= 1
              \/ Len(h) = 2 /\ PairOK(h)
              \/ \A i \in 1..Len(h) : h[i] \notin OptKinds
              \/ Len(h) = 3 /\ h[1] \in OptWriters \cup TimeLimitWriters /\ h[2] \notin OptKinds /\ h[3] \in OptReaders
Allowed(h, k) == Shape = "all" \/ (SlowOK(h, k) /\ ShapeOK(Append(h, k)))
Next == Len(hist) < MaxLen /\ \E k \in KindSet : Allowed(hist, k) /\ Process(k)
Spec == CInit /\ [][Next]_cvars
\* what the model in which the options of a call stay in force (classes of seeded changes) says interferes: used by
\* the harness only to NAME an observed difference (which option of which earlier call)
OK == INSTANCE Context WITH Dev <- Dev \cup DevTimeLimitKept \cup DevCallOptionsKept \cup DevObjMemo
RECURSIVE ReplayOK(_, _, _, _)
ReplayOK(h, i, d, acc) ==
  IF i > Len(h) THEN acc
  ELSE LET pre == d \ OK!Resets(h[i])
       IN ReplayOK(h, i + 1, pre \cup OK!Writes(h[i]), Append(acc, (OK!Reads(h[i]) \cap pre \cap NamedCells)))
Emit == PrintT(<<"CASE", ToJson([hist |-> hist, interferes |-> [i \in 1..Len(clean) |-> clean[i]],
                                 optkept |-> ReplayOK(hist, 1, {}, <<>>)])>>)
GenInv == Emit
=============================================================================
