SPECIFICATION Spec
CONSTANTS
  MaxTail = 2
  MaxTailWide = 3
  Variant = "ideal"
INVARIANT ExtUrlOK
CHECK_DEADLOCK FALSE
