SPECIFICATION Spec
CONSTANTS
  Tier = "quick"
INVARIANT DemoNestModules
CHECK_DEADLOCK FALSE
