--------------------------- MODULE Gen_Analyze ---------------------------
(* Case generation for Analyze: every structure (pages, redirects, written    *)
(* names) of the bound is emitted once, with the specification's verdict for  *)
(* every classifier flag set:                                                 *)
(*   res[m+1] = <<Lower, Upper, AsIs>> as bit masks over the page indices,    *)
(*   m = bit mask of the flagged pages.                                       *)
EXTENDS MC_Analyze, Json, SequencesExt

VARIABLES g, steps
gvars == <<g, steps, world, marked, pc, ci, imap, stack, todo, amemo, cur, com, memo>>

RECURSIVE MaskUpTo(_, _, _)
MaskUpTo(W, X, k) ==
  IF k = 0 THEN 0
  ELSE (IF W.pages[k].title \in X THEN 2 ^ (k - 1) ELSE 0) + MaskUpTo(W, X, k - 1)
Mask(W, X) == MaskUpTo(W, X, Len(W.pages))

FlagSet(n, m) == {k \in 1..n : (m \div (2 ^ (k - 1))) % 2 = 1}

TitleSet(W, F) == {W.pages[k].title : k \in F}
Verdicts(W) ==
  LET n == Len(W.pages)
      R == IncRel(W, FALSE)
      RX == IncRel(W, TRUE)
      D == RedirRel(W) IN
  [i \in 1..(2 ^ n) |->
     LET F == TitleSet(W, FlagSet(n, i - 1)) IN
     <<Mask(W, LowerR(R, D, F)), Mask(W, FullFixR(R, D, F)), Mask(W, LowerR(RX, D, F))>>]

CaseOf(W) ==
  [pages |-> [k \in 1..Len(W.pages) |->
                [title |-> W.pages[k].title, redirect |-> W.pages[k].redirect,
                 uses |-> SetToSeq(W.pages[k].uses)]],
   res |-> Verdicts(W)]

\* the structures are split into Parts classes so that several TLC processes can
\* share one bound
CONSTANTS Parts, Part
InPart(n, E) == Parts = 1 \/ (Cardinality(E) + Cardinality({e \in E : e[1] = e[2]}) * 3
                               + Cardinality({e \in E : e[1] < e[2]})) % Parts = Part

GInit ==
  \E n \in 1..MaxN : \E rd \in RedirFns(n) : \E E \in SUBSET EdgePairs(n, rd) : \E c \in Combos :
    /\ InPart(n, E)
    /\ AInit(MkWorld(n, rd, E, {}, c))
    /\ g = [n |-> n, combo |-> c]
    /\ steps = 0
GNext == FALSE /\ UNCHANGED gvars
GSpec == GInit /\ [][GNext]_gvars

GenInv == PrintT(<<"CASE", ToJson([g |-> g] @@ CaseOf(world))>>)

(* ---------------- calls on a database that already carries marks ---------------- *)
\* the same structures; hres[q][m+1] = <<Lower, UpperH, IdealH, AsIsH>> for the earlier
\* marks q (bit mask over the pages, q >= 1) and the flag mask m:
\*   Lower  - what the statement demands whatever the earlier marks are
\*   UpperH - the most it allows (full fixpoint from flagged \cup earlier marks)
\*   IdealH - closure from flagged \cup earlier marks + redirect neighbours (the repaired code)
\*   AsIsH  - deviation MarkedNotReseeded (only the pages flagged now are sources)
VerdictsH(W) ==
  LET n == Len(W.pages)
      R == IncRel(W, FALSE)
      D == RedirRel(W) IN
  [q \in 1..(2 ^ n - 1) |->
     LET P == TitleSet(W, FlagSet(n, q)) IN
     [i \in 1..(2 ^ n) |->
        LET F == TitleSet(W, FlagSet(n, i - 1)) IN
        <<Mask(W, LowerR(R, D, F)), Mask(W, FullFixR(R, D, F \cup P)),
          Mask(W, LowerR(R, D, F \cup P)), Mask(W, AsIsHR(R, D, F, P))>>]]
HCaseOf(W) ==
  [pages |-> [k \in 1..Len(W.pages) |->
                [title |-> W.pages[k].title, redirect |-> W.pages[k].redirect,
                 uses |-> SetToSeq(W.pages[k].uses)]],
   hres |-> VerdictsH(W)]
GenHInv == PrintT(<<"HCASE", ToJson([g |-> g] @@ HCaseOf(world))>>)

(* ---------------- sampled larger worlds (TLC -simulate) ---------------- *)
\* a random walk builds a world on 8 named pages: every step adds a written name
\* or turns a page into a redirect; the state after MaxLen steps is
\* emitted with the verdict for its flag set.
Names8 == << <<"F", "oo">>, <<"f", "oo">>, <<"B", "ar", "SP", "baz">>, <<"b", "ar", "SP", "baz">>,
             <<"É", "a">>, <<"Q", "SP", "x">>, <<"9", "z">>, <<"F", "oo", "/", "sub">> >>
CONSTANT MaxLen
svars == <<steps, g, world, marked, pc, ci, imap, stack, todo, amemo, cur, com, memo>>
World0 == [pages |-> [k \in 1..8 |-> WPage(TitleOf(Names8, k), NoRedirect, {}, FALSE)]]
SimKinds == {"exact", "lower", "under", "lowund", "pfx", "lpfx", "alias"}
SInit ==
  \E F \in {X \in SUBSET (1..8) : Cardinality(X) \in {1, 2}} :
    /\ AInit([pages |-> [k \in 1..8 |-> [World0.pages[k] EXCEPT !.flag = k \in F]]])
    /\ steps = 0 /\ g = [n |-> 8, combo |-> <<"S", "sim">>]
SetPage(k, p) == world' = [pages |-> [world.pages EXCEPT ![k] = p]]
SNext ==
  /\ steps < MaxLen
  /\ steps' = steps + 1
  /\ \/ \E i \in 1..8, j \in 1..8, kd \in SimKinds :
          /\ world.pages[i].redirect = NoRedirect
          /\ SetPage(i, [world.pages[i] EXCEPT !.uses = @ \cup {Spell(kd, Names8[j])}])
     \/ \E i \in 1..8, j \in 1..8 :
          /\ i # j /\ world.pages[i].redirect = NoRedirect
          /\ SetPage(i, [world.pages[i] EXCEPT !.redirect = TitleOf(Names8, j), !.uses = {}])
  /\ UNCHANGED <<g, marked, pc, ci, imap, stack, todo, amemo, cur, com, memo>>
SSpec == SInit /\ [][SNext]_svars
SimCase(W) ==
  [pages |-> [k \in 1..Len(W.pages) |->
                [title |-> W.pages[k].title, redirect |-> W.pages[k].redirect,
                 uses |-> SetToSeq(W.pages[k].uses)]],
   flags |-> Mask(W, Flagged(W)),
   res |-> <<Mask(W, Lower(W)), Mask(W, Upper(W)), Mask(W, AsIs(W))>>]
SimInv == (steps = MaxLen) => PrintT(<<"SIM", ToJson(SimCase(world))>>)

\* the same walk on a database in which 1..3 pages carry an earlier mark
SHInit ==
  \E F \in {X \in SUBSET (1..8) : Cardinality(X) \in {0, 1, 2}} :
    \E P \in {X \in SUBSET (1..8) : Cardinality(X) \in {1, 2, 3}} :
      /\ AInit([pages |-> [k \in 1..8 |-> [World0.pages[k] EXCEPT !.flag = k \in F]],
                pre |-> {TitleOf(Names8, k) : k \in P}])
      /\ steps = 0 /\ g = [n |-> 8, combo |-> <<"S", "simh">>]
SetPageH(k, p) == world' = [world EXCEPT !.pages = [world.pages EXCEPT ![k] = p]]
SHNext ==
  /\ steps < MaxLen
  /\ steps' = steps + 1
  /\ \/ \E i \in 1..8, j \in 1..8, kd \in SimKinds :
          /\ world.pages[i].redirect = NoRedirect
          /\ SetPageH(i, [world.pages[i] EXCEPT !.uses = @ \cup {Spell(kd, Names8[j])}])
     \/ \E i \in 1..8, j \in 1..8 :
          /\ i # j /\ world.pages[i].redirect = NoRedirect
          /\ SetPageH(i, [world.pages[i] EXCEPT !.redirect = TitleOf(Names8, j), !.uses = {}])
  /\ UNCHANGED <<g, marked, pc, ci, imap, stack, todo, amemo, cur, com, memo>>
SHSpec == SHInit /\ [][SHNext]_svars
SimHCase(W) ==
  [pages |-> [k \in 1..Len(W.pages) |->
                [title |-> W.pages[k].title, redirect |-> W.pages[k].redirect,
                 uses |-> SetToSeq(W.pages[k].uses)]],
   flags |-> Mask(W, Flagged(W)),
   pre |-> Mask(W, PreOf(W)),
   hres |-> <<Mask(W, Lower(W)), Mask(W, UpperH(W)), Mask(W, IdealH(W)), Mask(W, AsIsH(W))>>]
SimHInv == (steps = MaxLen) => PrintT(<<"SIMH", ToJson(SimHCase(world))>>)
=============================================================================
