SPECIFICATION Spec
CONSTANTS
  MaxLen = 2
  Small = {"a"}
INVARIANT Laws
CHECK_DEADLOCK FALSE
