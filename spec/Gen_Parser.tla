----------------------------- MODULE Gen_Parser -----------------------------
(* C01: bounded universes of chunk sequences (balanced or not).  Every       *)
(* reachable state is one input; it grows by one chunk per step (chunk       *)
(* universes) or by one whole line per step (line universes "nest*": list    *)
(* depth changing from line to line while an element / a table opened in a   *)
(* list item is still open).  For each                                       *)
(*   M  (MachineOK) the repaired machine never gets stuck (dispatch          *)
(*      totality), its terminal tree is WellFormed (WikiTree.tla) and no     *)
(*      open-node state is left behind;                                      *)
(*   G  the input is printed with the machine's tree (DRIFT comparison) and  *)
(*      what the as-is machine (all deviation switches on) would leave.      *)
EXTENDS Parser, WikiTree, Json, TagToken

CONSTANTS Universe, MaxLen

AsIsDevs == {"HlineClosesLevel1", "PreParseLeftSet", "HeadingTitleLost"}

Chunks ==
  CASE Universe = "core"   -> {"W", "SP", "NL", "EQ2", "Q2", "Q3", "*", "#", ";", ":", "HR", "TS", "TE", "TR", "TC",
                               "VB", "DVB", "EX", "DEX", "SPAN", "ESPAN", "PRE", "EPRE", "MT", "ML", "MTN"}
    [] Universe = "table"  -> {"W", "SP", "NL", "TS", "TE", "TR", "TC", "VB", "DVB", "EX", "DEX", "ATTR"}
    [] Universe = "block"  -> {"W", "SP", "NL", "EQ2", "EQ3", "*", "#", ";", ":", "HR", "Q2"}
    [] Universe = "html"   -> {"W", "NL", "*", "SPAN", "SPANA", "ESPAN", "DIV", "EDIV", "BR", "EBR", "REF", "EREF",
                               "UL", "EUL", "LI", "ELI", "UNK", "EUNK", "SPANS"}
    [] Universe = "inline" -> {"W", "SP", "NL", "Q2", "Q3", "Q5", "ML", "MT", "ME", "MA", "MN", "MNE", "MW", "URL", ":"}
    \* thorough tier: one chunk longer over slightly smaller alphabets
    [] Universe = "coreT"  -> {"W", "SP", "NL", "EQ2", "Q2", "Q3", "*", ";", ":", "HR", "TS", "TE", "TR", "VB", "DVB", "EX",
                               "SPAN", "ESPAN", "PRE", "MT"}
    [] Universe = "tableT" -> {"W", "SP", "NL", "TS", "TE", "TR", "VB", "DVB", "EX", "ATTR"}
    [] Universe = "blockT" -> {"W", "SP", "NL", "EQ2", "EQ3", "*", "#", ";", ":", "HR"}
    [] Universe = "htmlT"  -> {"W", "NL", "*", "SPAN", "SPANA", "ESPAN", "DIV", "EDIV", "BR", "REF", "EREF",
                               "UL", "EUL", "LI", "ELI", "EUNK"}
    [] Universe = "pre"    -> {"W", "SP", "NL", "PRE", "EPRE", "EQ2", "*", "HR", "Q2", "TS", "VB", "SPAN", "ESPAN", "MT", "MN", "MNE"}

(* machine tree -> WikiTree representation *)
StrRec(n, chars) == [n |-> n, hi |-> <<>>, c |-> chars]
RECURSIVE ToWiki(_)
ToWikiList(lst) == [i \in 1..Len(lst) |-> IF IsStr(lst[i]) THEN [s |-> StrRec(Len(lst[i].s), <<>>)] ELSE ToWiki(lst[i])]
ToWiki(n) ==
  [k |-> n.kind,
   sarg |-> StrRec(Len(n.sarg), n.sarg),
   largs |-> IF n.kind = "ROOT" THEN << <<[s |-> StrRec(2, <<"P", "g">>)]>> >>
             ELSE [j \in 1..Len(n.largs) |-> ToWikiList(n.largs[j])],
   attrs |-> [j \in 1..Len(n.attrs) |-> <<StrRec(1, <<>>), StrRec(0, <<>>)>>],
   ch |-> ToWikiList(n.children),
   hasdef |-> "def" \in DOMAIN n,
   def |-> IF "def" \in DOMAIN n THEN ToWikiList(n.def) ELSE <<>>]

RECURSIVE SetToSeq(_)
SetToSeq(S) == IF S = {} THEN <<>> ELSE LET x == CHOOSE x \in S : TRUE IN <<x>> \o SetToSeq(S \ {x})

\* the html tag data the machine uses, printed once so that the harness can compare it with
\* ctx.html_permitted_parents / ALLOWED_HTML_TAGS of the working tree
HtmlTable == [t \in ModelledTags |->
               [parents |-> SetToSeq(PermittedParents(t) \cap ModelledTags),
                closenext |-> SetToSeq(CloseNext(t)), noend |-> NoEndTag(t)]]
ASSUME PrintT(<<"HTMLTABLE", ToJson(HtmlTable)>>)

(* Line-structured universes ("nest*"): the input grows by one whole LINE per  *)
(* step (MaxLen = number of lines).  A line is a list prefix (depth 0..n) and  *)
(* a body that opens an HTML element and leaves it open at the end of the     *)
(* line, closes one as the first token of the line or in running text, starts *)
(* / continues / ends a table, or is plain / empty.  This is the dimension    *)
(* the chunk universes keep short (a 3-line document of this kind has 7..14   *)
(* chunks): the list depth changes from line to line WHILE an element or a    *)
(* table opened inside an item is still open, so that stacks of the form      *)
(*   ROOT > LIST > LIST_ITEM > HTML > LIST > LIST_ITEM                        *)
(*   ROOT > LIST > LIST_ITEM > HTML ref > TABLE > LIST > LIST_ITEM            *)
(* are reached and every beginning-of-line handler runs on them: closing the  *)
(* pending lists (close_begline_lists / pop_until_nth_list) then also closes  *)
(* the very container the token refers to, and what the handler decided       *)
(* before must still hold afterwards (Parser.tla takes every such decision on *)
(* the state AFTER the lists were closed; the machine is never stuck).        *)
(*   nest   3 lines, prefixes "", *, **; tags span, ref              (quick)  *)
(*   nestW  3 lines, prefixes "", *, **, *:; tags span, ref, div  (thorough)  *)
(*   nestL  4 lines, prefixes "", *, **; tag span                 (thorough)  *)
(*   nestB  3 lines, table tokens / rule / div after every prefix (thorough)  *)
(*   nestR  4 lines, explicit vocabulary: <ref> in and outside a list item,   *)
(*          table tokens at the line start, list lines         (both tiers)   *)
\* family, and the part of the family this run enumerates (the first line selects the part, so
\* that a family can be spread over several TLC runs)
LineU ==
  CASE Universe = "nest"   -> [fam |-> "nest", part |-> 0, of |-> 1]
    [] Universe = "nestW1" -> [fam |-> "nestW", part |-> 0, of |-> 4]
    [] Universe = "nestW2" -> [fam |-> "nestW", part |-> 1, of |-> 4]
    [] Universe = "nestW3" -> [fam |-> "nestW", part |-> 2, of |-> 4]
    [] Universe = "nestW4" -> [fam |-> "nestW", part |-> 3, of |-> 4]
    [] Universe = "nestL"  -> [fam |-> "nestL", part |-> 0, of |-> 1]
    [] Universe = "nestB"  -> [fam |-> "nestB", part |-> 0, of |-> 1]
    [] Universe = "nestR"  -> [fam |-> "nestR", part |-> 0, of |-> 1]
    [] OTHER -> [fam |-> "", part |-> 0, of |-> 1]
IsLineUniverse == LineU.fam # ""
LinePrefixes ==
  CASE LineU.fam = "nestW" -> << <<>>, <<"*">>, <<"*", "*">>, <<"*", ":">> >>
    [] OTHER -> << <<>>, <<"*">>, <<"*", "*">> >>
\* (start tag, end tag) chunk pairs
LineTags ==
  CASE LineU.fam = "nestW" -> << <<"SPAN", "ESPAN">>, <<"REF", "EREF">>, <<"DIV", "EDIV">> >>
    [] LineU.fam = "nestL" -> << <<"SPAN", "ESPAN">> >>
    [] LineU.fam = "nestB" -> << <<"DIV", "EDIV">> >>
    [] OTHER -> << <<"SPAN", "ESPAN">>, <<"REF", "EREF">> >>
TagBodies(t) ==
  IF LineU.fam = "nestL"
  THEN << <<"W", t[1]>>, <<t[2], "W">>, <<"W", t[2]>> >>
  ELSE IF LineU.fam = "nestB" \/ (LineU.fam = "nest" /\ t[1] = "REF")
  THEN << <<"W", t[1]>>, <<t[2], "W">> >>
  ELSE << <<"W", t[1]>>,      \* opened in running text, still open at the end of the line
          <<t[1], "W">>,      \* start tag as the first token of the line
          <<t[2], "W">>,      \* end tag as the first token of the line
          <<"W", t[2]>> >>    \* end tag in running text
RECURSIVE AllTagBodies(_)
AllTagBodies(i) == IF i > Len(LineTags) THEN <<>> ELSE TagBodies(LineTags[i]) \o AllTagBodies(i + 1)
\* nestB: the other containers a list item can hold open across lines (a table and its
\* parts) and the other beginning-of-line tokens that close lists and then pop "until ..."
PlainBodies ==
  CASE LineU.fam = "nestL" -> << <<"W">> >>
    [] LineU.fam = "nestB" -> << <<"W">>, <<"TS">>, <<"TE">>, <<"TR">>, <<"VB", "W">>, <<"HR">> >>
    [] OTHER -> << <<>>, <<"W">> >>
LineBodies == PlainBodies \o AllTagBodies(1)
\* the line vocabulary of a family: prefixes x bodies, or listed explicitly.
\* nestR: a TABLE can be held open inside a list item only behind the <ref> shield of
\* close_begline_lists (a "{|" after a list prefix is text, and at the line start it closes the
\* lists first); with a deeper list inside that table the stack is
\*   ROOT > LIST > LIST_ITEM > HTML ref > TABLE (> ROW > CELL) > LIST > LIST_ITEM
\* and the table tokens at the line start close the lists AND the table they belong to.
LineSeq ==
  IF LineU.fam = "nestR"
  THEN << <<"*", "W", "REF">>, <<"W", "REF">>, <<"TS">>, <<"TE">>, <<"TR">>, <<"VB", "W">>,
          <<"*", "W">>, <<"*", "*", "W">>, <<"EREF", "W">>, <<"W">> >>
  ELSE [k \in 1..(Len(LinePrefixes) * Len(LineBodies)) |->
          LinePrefixes[((k - 1) \div Len(LineBodies)) + 1] \o LineBodies[((k - 1) % Len(LineBodies)) + 1]]
NumLines(d) == IF d = <<>> THEN 0 ELSE 1 + Len(SelectSeq(d, LAMBDA c : c = "NL"))

(* Tag-token universes ("tagtok*", round 8): the INSIDE of one tag token varies   *)
(* character by character (spec/TagToken.tla).  doc = <<context, head>> \o tail:  *)
(* the document is the context's text around the string "<" head tail ">", the    *)
(* tail is every sequence over the tag-character alphabet up to the bound of the *)
(* context (unquoted values with "=", quotes, backtick, "/", "<", punctuation,   *)
(* doubled "=", missing values, odd attribute names, blanks / a newline inside   *)
(* the tag, mismatched quotes; also for end tags).  M: TokenConsistent on the    *)
(* candidate and MachineOK on the token sequence the tokenizer model yields.     *)
IsTagUniverse == Universe \in {"tagtok", "tagtokT", "tagtokN"}
TagAlpha10 == {"span", "=", "\"", "'", "`", "/", " ", "NL", "(", "<"}
TagAlpha13 == TagAlpha10 \cup {"-", ":", "_"}
TagCtxs == {"cTOP", "cLI", "cCELL", "cHEAD"}
TagHeads == {"hS", "hE", "hA"}
\* quick: running text with tails <= 3, the other contexts with tails <= 2;
\* thorough: tagtokN = every context with tails <= 3, tagtokT = running text, 10 characters, tails <= 4
TagAlpha(ctx) == IF Universe = "tagtokT" THEN TagAlpha10 ELSE TagAlpha13
TagBound(ctx) ==
  CASE Universe = "tagtok"  -> (IF ctx = "cTOP" THEN 3 ELSE 2)
    [] Universe = "tagtokT" -> (IF ctx = "cTOP" THEN 4 ELSE 0)
    [] OTHER -> 3
\* one newline at most, none in a heading line; no two apostrophes in a row (that dimension - bold / italic
\* runs - belongs to the chunk universes)
TagTailOK(d) ==
  /\ Cardinality({i \in 3..Len(d) : d[i] = "NL"}) <= (IF d[1] = "cHEAD" THEN 0 ELSE 1)
  /\ LET t == SelectSeq(SubSeq(d, 3, Len(d)), LAMBDA c : c # "NL") IN       \* (a newline inside a tag is deleted)
     \A i \in 1..(Len(t) - 1) : ~(t[i] = "'" /\ t[i + 1] = "'")
TagParse(d, Dev) == IF d = <<>> THEN Parse(d, Dev) ELSE Finish(Feed(InitState(Dev), CtxToks(d[1], TagString(d)), 1))
ParseU(d, Dev) == IF IsTagUniverse THEN TagParse(d, Dev) ELSE Parse(d, Dev)

VARIABLES doc
Init == doc = <<>>
NextTag == \/ /\ doc = <<>>
              /\ \E c \in TagCtxs, h \in TagHeads : TagBound(c) > 0 /\ doc' = <<c, h>>
           \/ /\ doc # <<>> /\ Len(doc) - 2 < TagBound(doc[1])
              /\ \E a \in TagAlpha(doc[1]) : doc' = Append(doc, a) /\ TagTailOK(doc')
NextChunk == /\ Len(doc) < MaxLen
             /\ \E c \in Chunks : doc' = Append(doc, c)
NextLine == /\ NumLines(doc) < MaxLen
            /\ \E k \in 1..Len(LineSeq) :
                 LET l == LineSeq[k] IN
                 /\ doc # <<>> \/ (l # <<>>          \* (a leading blank line adds nothing)
                                   /\ k % LineU.of = LineU.part)
                 /\ doc' = IF doc = <<>> THEN l ELSE doc \o <<"NL">> \o l
Next == IF IsTagUniverse THEN NextTag ELSE IF IsLineUniverse THEN NextLine ELSE NextChunk
Spec == Init /\ [][Next]_doc

\* what parse() leaves behind / returns, as far as the property constrains it
Obs(res) == [faults |-> SetToSeq(Faults(ToWiki(res.root))), stuck |-> res.stuck, stack |-> res.stack, pre |-> res.pre]
Clean(obs) == obs.faults = <<>> /\ ~obs.stuck /\ obs.stack = 0 /\ ~obs.pre

\* tag-token universes: the text of the document, the candidate and what the two sites make of it
TagInfo(d) ==
  IF ~IsTagUniverse \/ d = <<>> THEN [doc |-> d]
  ELSE LET cand == Candidate(TagString(d)) IN
       [doc |-> d, text |-> CtxText(d[1], TagString(d)), cand |-> JoinS(cand), cls |-> Class(cand),
        tok |-> TokAccepts(cand), fn |-> FnAccepts(cand)]
TagLawOK(d) == ~IsTagUniverse \/ d = <<>> \/ TokenConsistent(Candidate(TagString(d)))
Case ==
  \E ideal \in { ParseU(doc, {}) } :
  \E asis \in { ParseU(doc, AsIsDevs) } :
  \E oi \in { Obs(ideal) } :
    LET base == TagInfo(doc) @@ [tree |-> ideal.root] IN
    /\ PrintT(<<"CASE", ToJson(IF asis.root # ideal.root \/ asis.pre # ideal.pre
                                 THEN base @@ [treeA |-> asis.root, obsA |-> Obs(asis)]
                                 ELSE base)>>)
    /\ Clean(oi)
    /\ TagLawOK(doc)
MachineOK == Case

\* Demo: the as-is machine against the same requirement
AsIsWellFormed == Obs(ParseU(doc, AsIsDevs)).faults = <<>>
DemoTagLaw == ~IsTagUniverse \/ doc = <<>> \/ TokenConsistentFor(Candidate(TagString(doc)), TokGWideUnquoted)
AsIsFlagsClean == ~ParseU(doc, AsIsDevs).pre
=============================================================================
