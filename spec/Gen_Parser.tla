----------------------------- MODULE Gen_Parser -----------------------------
(* C01: bounded universes of chunk sequences (balanced or not).  Every       *)
(* reachable state is one input; it grows by one chunk per step.  For each   *)
(*   M  (MachineOK) the repaired machine never gets stuck (dispatch          *)
(*      totality), its terminal tree is WellFormed (WikiTree.tla) and no     *)
(*      open-node state is left behind;                                      *)
(*   G  the input is printed with the machine's tree (DRIFT comparison) and  *)
(*      what the as-is machine (all deviation switches on) would leave.      *)
EXTENDS Parser, WikiTree, Json

CONSTANTS Universe, MaxLen

AsIsDevs == {"HlineClosesLevel1", "PreParseLeftSet", "HeadingTitleLost"}

Chunks ==
  CASE Universe = "core"   -> {"W", "SP", "NL", "EQ2", "Q2", "Q3", "*", "#", ";", ":", "HR", "TS", "TE", "TR", "TC",
                               "VB", "DVB", "EX", "DEX", "SPAN", "ESPAN", "PRE", "EPRE", "MT", "ML", "MTN"}
    [] Universe = "table"  -> {"W", "SP", "NL", "TS", "TE", "TR", "TC", "VB", "DVB", "EX", "DEX", "ATTR"}
    [] Universe = "block"  -> {"W", "SP", "NL", "EQ2", "EQ3", "*", "#", ";", ":", "HR", "Q2"}
    [] Universe = "html"   -> {"W", "NL", "*", "SPAN", "SPANA", "ESPAN", "DIV", "EDIV", "BR", "EBR", "REF", "EREF",
                               "UL", "EUL", "LI", "ELI", "UNK", "EUNK", "SPANS"}
    [] Universe = "inline" -> {"W", "SP", "NL", "Q2", "Q3", "Q5", "ML", "MT", "ME", "MA", "MN", "MW", "URL", ":"}
    \* thorough tier: one chunk longer over slightly smaller alphabets
    [] Universe = "coreT"  -> {"W", "SP", "NL", "EQ2", "Q2", "Q3", "*", ";", ":", "HR", "TS", "TE", "TR", "VB", "DVB", "EX",
                               "SPAN", "ESPAN", "PRE", "MT"}
    [] Universe = "tableT" -> {"W", "SP", "NL", "TS", "TE", "TR", "VB", "DVB", "EX", "ATTR"}
    [] Universe = "blockT" -> {"W", "SP", "NL", "EQ2", "EQ3", "*", "#", ";", ":", "HR"}
    [] Universe = "htmlT"  -> {"W", "NL", "*", "SPAN", "SPANA", "ESPAN", "DIV", "EDIV", "BR", "REF", "EREF",
                               "UL", "EUL", "LI", "ELI", "EUNK"}
    [] Universe = "pre"    -> {"W", "SP", "NL", "PRE", "EPRE", "EQ2", "*", "HR", "Q2", "TS", "VB", "SPAN", "ESPAN", "MT", "MN"}

(* machine tree -> WikiTree representation *)
StrRec(n, chars) == [n |-> n, hi |-> <<>>, c |-> chars]
RECURSIVE ToWiki(_)
ToWikiList(lst) == [i \in 1..Len(lst) |-> IF IsStr(lst[i]) THEN [s |-> StrRec(Len(lst[i].s), <<>>)] ELSE ToWiki(lst[i])]
ToWiki(n) ==
  [k |-> n.kind,
   sarg |-> StrRec(Len(n.sarg), n.sarg),
   largs |-> IF n.kind = "ROOT" THEN << <<[s |-> StrRec(2, <<"P", "g">>)]>> >>
             ELSE [j \in 1..Len(n.largs) |-> ToWikiList(n.largs[j])],
   attrs |-> [j \in 1..Len(n.attrs) |-> <<StrRec(1, <<>>), StrRec(0, <<>>)>>],
   ch |-> ToWikiList(n.children),
   hasdef |-> "def" \in DOMAIN n,
   def |-> IF "def" \in DOMAIN n THEN ToWikiList(n.def) ELSE <<>>]

RECURSIVE SetToSeq(_)
SetToSeq(S) == IF S = {} THEN <<>> ELSE LET x == CHOOSE x \in S : TRUE IN <<x>> \o SetToSeq(S \ {x})

\* the html tag data the machine uses, printed once so that the harness can compare it with
\* ctx.html_permitted_parents / ALLOWED_HTML_TAGS of the working tree
HtmlTable == [t \in ModelledTags |->
               [parents |-> SetToSeq(PermittedParents(t) \cap ModelledTags),
                closenext |-> SetToSeq(CloseNext(t)), noend |-> NoEndTag(t)]]
ASSUME PrintT(<<"HTMLTABLE", ToJson(HtmlTable)>>)

VARIABLES doc
Init == doc = <<>>
Next == /\ Len(doc) < MaxLen
        /\ \E c \in Chunks : doc' = Append(doc, c)
Spec == Init /\ [][Next]_doc

\* what parse() leaves behind / returns, as far as the property constrains it
Obs(res) == [faults |-> SetToSeq(Faults(ToWiki(res.root))), stuck |-> res.stuck, stack |-> res.stack, pre |-> res.pre]
Clean(obs) == obs.faults = <<>> /\ ~obs.stuck /\ obs.stack = 0 /\ ~obs.pre

Case ==
  \E ideal \in { Parse(doc, {}) } :
  \E asis \in { Parse(doc, AsIsDevs) } :
  \E oi \in { Obs(ideal) } :
    LET base == [doc |-> doc, tree |-> ideal.root] IN
    /\ PrintT(<<"CASE", ToJson(IF asis.root # ideal.root \/ asis.pre # ideal.pre
                                 THEN base @@ [treeA |-> asis.root, obsA |-> Obs(asis)]
                                 ELSE base)>>)
    /\ Clean(oi)
MachineOK == Case

\* Demo: the as-is machine against the same requirement
AsIsWellFormed == Obs(Parse(doc, AsIsDevs)).faults = <<>>
AsIsFlagsClean == ~Parse(doc, AsIsDevs).pre
=============================================================================
