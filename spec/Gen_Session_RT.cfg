SPECIFICATION GSpec
CONSTANTS
  Dev <- DevNone
  Titles <- TitlesTwo
  Sections <- SecThree
  Subsections <- SubThree
  EmitSet <- EmitNone
  ExpandTexts <- NoText
  ParseTexts <- NoText
  Markers <- MarkersNone
  MaxMsgs = 0
  MaxMarkers = 0
  MaxLen = 0
  FreshLen = 0
  Family = "reannounce"
  PosLen = 4
  SimMode = FALSE
INVARIANT GenInv
CHECK_DEADLOCK FALSE
