SPECIFICATION Spec
CONSTANTS
  MaxTail = 3
  MaxTailWide = 4
  Variant = "ideal"
INVARIANT ExtUrlOK
CHECK_DEADLOCK FALSE
