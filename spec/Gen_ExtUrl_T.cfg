SPECIFICATION Spec
CONSTANTS
  MaxTail = 2
  MaxTailWide = 4
  Variant = "ideal"
INVARIANT ExtUrlOK
CHECK_DEADLOCK FALSE
