SPECIFICATION PSpec
CONSTANTS
  ShapeIds <- IdsAll
  PDev <- PDevRestoreGlob
INVARIANT RestoreExact
CHECK_DEADLOCK FALSE
