SPECIFICATION Spec
CONSTANTS
  Dev <- DevNone
  Titles <- TitlesTwo
  Sections <- SecTwo
  Subsections <- SecNone
  EmitSet <- EmitNone
  ExpandTexts <- ExpandTables
  ParseTexts <- ParseTables
  Markers <- MarkersMoreR
  MaxMsgs = 1
  MaxMarkers = 3
INVARIANT TypeOK
INVARIANT PosIsState
INVARIANT AnnouncedPosition
INVARIANT StampsTitleSection
INVARIANT CleanAfterStartPage
INVARIANT PathIsTitle
INVARIANT CookieInjective
INVARIANT NowikiNumbered
INVARIANT StripSameContentSameNumber
PROPERTY PathRestored
PROPERTY CookiesOnlyGrow
PROPERTY ListsOnlyGrow
CHECK_DEADLOCK FALSE
