SPECIFICATION GSpec
CONSTANTS
  Starts <- StartsBase
  Dev <- DevIdeal
  MaxRuns = 2
  FlowDef <- FlowsLib
INVARIANT GenInv
CHECK_DEADLOCK FALSE
