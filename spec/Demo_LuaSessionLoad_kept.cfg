SPECIFICATION Spec
INVARIANT DemoKept
CHECK_DEADLOCK FALSE
