---------------------------- MODULE ParserRefDoc ----------------------------
(* C02: line-structured documents as token sequences for the machine of      *)
(* Parser.tla.  Line i carries the marker word W(i) = "w<i>".                *)
(* Shared by Gen_ParserRef (enumeration) and Trace_ParserRef (validation).   *)
EXTENDS Parser, ParserRef

AllDevs == {"HlineClosesLevel1"}

Words == [i \in 1..80 |-> "w" \o ToString(i)]   \* constant: evaluated once
W(i) == Words[i]
HasF(line) == "f" \in DOMAIN line /\ line.f
Fil(line) ==
  IF HasF(line) THEN << [k |-> "SP", n |-> 1], [k |-> "MAGIC", m |-> "F"] >>
  ELSE IF "s" \in DOMAIN line
  THEN << [k |-> "SP", n |-> 1], line.s >> \o (IF line.z THEN << [k |-> "SP", n |-> 1], [k |-> "TXT", a |-> <<"z">>] >> ELSE <<>>)
  ELSE <<>>
\* the unbalanced openers: '' / ''' / <span> / <div> before the word; a table start, a cell start and the word
OpenKinds == {"IT", "BO", "SPAN", "DIV", "TBL"}
OpenToks(c, w) ==
  CASE c = "IT"   -> << [k |-> "IT"], w >>
    [] c = "BO"   -> << [k |-> "BO"], w >>
    [] c = "SPAN" -> << FixedTok("SPAN"), w >>
    [] c = "DIV"  -> << FixedTok("DIV"), w >>
    [] c = "TBL"  -> << [k |-> "TS"], [k |-> "NL"], [k |-> "VB"], w >>
\* (round 8) constructs that span lines: the opener stands after the word (and the filler) of a list / paragraph /
\* indented line, followed by a word of the construct's content; the closer stands on a later line (type "C")
SpanKinds == {"PRE", "DIV", "SPAN", "REF"}
SpanOpenTok(c) == FixedTok(c)
SpanCloseTok(c) == FixedTok(CASE c = "PRE" -> "EPRE" [] c = "DIV" -> "EDIV" [] c = "SPAN" -> "ESPAN" [] c = "REF" -> "EREF")
OpenFil(line) ==
  IF "o" \in DOMAIN line THEN << [k |-> "SP", n |-> 1], SpanOpenTok(line.o), [k |-> "TXT", a |-> <<"x">>] >> ELSE <<>>
(* ---- round 9: the WHITE SPACE AROUND THE TOKENS of a structure line (spelling variants) ---- *)
\* A heading / list / rule / paragraph line may carry the field
\*   ws |-> [a |-> Seq(WsAtoms), b |-> Seq(WsAtoms), e |-> Seq(WsAtoms)]
\*     a  H: between the opening '=' run and the title      L: between the marker and the word (<<>>: none)
\*     b  H: between the title and the closing '=' run
\*     e  the white space at the END of the line: H: after the closing '=' run; R: after '----'; L, P: after the text
\* Without the field the line has its canonical spelling (a = b = one blank, e = nothing).  The relations of the
\* nesting model do not depend on the spelling (RefRelations never reads ws): a heading line is a heading whatever
\* white space follows its end token.  Which characters count is a tokenizer fact, stated here as data:
\*   header_re = ^(={1,6})\s*(title)\s*(={1,6})\s*$     -> a, b, e of a heading line range over HeadWs (Python's \s)
\*   token [ \t]+                                        -> a / e of list, rule and paragraph lines are BLANK tokens
\* WsStrict: blank, TAB, carriage return (CRLF text) -- MediaWiki trims them as well: statement-backed.
\* WsExotic: form feed, vertical tab, U+00A0, U+3000 -- white space for Python's \s only: beyond the statement (DRIFT).
WsStrict == {"SP", "TAB", "CR"}
WsExotic == {"FF", "VT", "NBSP", "IDSP"}
HeadWs == WsStrict \cup WsExotic
BlankWs == {"SP", "TAB"}
HasWs(line) == "ws" \in DOMAIN line
WsA(line) == IF HasWs(line) THEN line.ws.a ELSE <<"SP">>
WsE(line) == IF HasWs(line) THEN line.ws.e ELSE <<>>
Blanks(s) == IF s = <<>> THEN <<>> ELSE << [k |-> "SP", n |-> Len(s)] >>
SeqIn(s, S) == \A j \in 1..Len(s) : s[j] \in S
\* the spelling is one the tokenizer facts above speak about
WsLineOK(line) ==
  HasWs(line) =>
    IF line.t = "H" THEN SeqIn(line.ws.a, HeadWs) /\ SeqIn(line.ws.b, HeadWs) /\ SeqIn(line.ws.e, HeadWs)
    ELSE line.t \in {"L", "R", "P"} /\ SeqIn(line.ws.a, BlankWs) /\ line.ws.b = <<>> /\ SeqIn(line.ws.e, BlankWs)
         /\ (line.t # "L" => line.ws.a = <<>>)
WsOK(d) == \A j \in 1..Len(d) : WsLineOK(d[j])
\* the document has a spelling outside the strict set (only heading lines can)
WsExoticDoc(d) == \E j \in 1..Len(d) : HasWs(d[j]) /\ ~(SeqIn(d[j].ws.a, WsStrict) /\ SeqIn(d[j].ws.b, WsStrict) /\ SeqIn(d[j].ws.e, WsStrict))
Tokens(line, i) ==
  LET w == [k |-> "TXT", a |-> <<W(i)>>] IN
  \* (a heading line: header_re drops the white space around the title and after the end token -- ws is not read)
  CASE line.t = "H" -> << [k |-> "HS", l |-> line.l], w >> \o Fil(line) \o << [k |-> "HE", l |-> line.l], [k |-> "NL"] >>
    [] line.t = "L" -> << [k |-> "LP", p |-> line.p] >> \o Blanks(WsA(line)) \o << w >> \o Fil(line) \o OpenFil(line)
                       \o Blanks(WsE(line)) \o << [k |-> "NL"] >>
    [] line.t = "P" -> << w >> \o Fil(line) \o OpenFil(line) \o Blanks(WsE(line)) \o << [k |-> "NL"] >>
    \* an indented line: the blank at the line start opens (or continues) a preformatted block, which is still
    \* open when the next line arrives
    [] line.t = "I" -> << [k |-> "SP", n |-> 1], w >> \o Fil(line) \o OpenFil(line) \o << [k |-> "NL"] >>
    \* a continuation line inside a construct that spans lines; the line with its closer
    [] line.t = "X" -> << w, [k |-> "NL"] >>
    [] line.t = "C" -> (IF line.b THEN << SpanCloseTok(line.c), [k |-> "SP", n |-> 1], w >> ELSE << w, SpanCloseTok(line.c) >>)
                       \o << [k |-> "NL"] >>
    \* a line that opens a construct and leaves it open (unbalanced; outside the property)
    [] line.t = "O" -> OpenToks(line.c, w) \o << [k |-> "NL"] >>
    [] line.t = "R" -> << [k |-> "HR"] >> \o Blanks(WsE(line)) \o << [k |-> "NL"] >>
    [] line.t = "B" -> << [k |-> "NL"] >>

(* ------------------------------------------------------------------------ *)
(* Structured fillers: balanced markup with inner structure.                 *)
(*                                                                            *)
(* The opaque filler above (MAGIC "F") is one token on one line.  A           *)
(* structured filler is a link / template call / argument reference /        *)
(* external link whose arguments hold words, blanks, NEWLINES, characters     *)
(* that mean something at a line start ("*", "#", a leading blank) and       *)
(* further such constructs:                                                   *)
(*   filler = [k |-> "FILL", m |-> "T"|"A"|"L"|"E", args |-> Seq(Seq(piece))] *)
(*   piece  = a token of Parser.tla (TXT, SP, NL, LP) or a filler             *)
(* A line may carry one in the field s (after its marker word; the field z    *)
(* says whether a further word follows the filler on the same line).          *)
(*                                                                            *)
(* magic_fn (parser.py) is transcribed for them: it is recursive              *)
(* (process_text over every argument, vbar_fn called directly between two     *)
(* arguments), and while it is inside the arguments the line-start machinery  *)
(* is switched off by ctx.begline_disabled, a COUNTING context manager.  The  *)
(* state therefore has two more fields                                        *)
(*   beg  ctx.begline_disable_counter     en  ctx.begline_enabled             *)
(* and every handler of Parser.tla, which reads `bol` where the code reads    *)
(* `beginning_of_line and begline_enabled`, is run on the masked state Eff.   *)
(* (Handlers that read beginning_of_line alone -- rules, headings, tables --  *)
(* do not occur inside the fillers of the universes.)  Only the stack         *)
(* discipline is modelled exactly; what a URL frame does with its text is not *)
(* (trees inside fillers are not compared, the relations of the marker words  *)
(* are).                                                                      *)
(*                                                                            *)
(* Model deviation (never part of AllDevs; Demo_ParserRef_begline.cfg):       *)
(*   "BeglineFlagNotCounted"  leaving ANY construct switches the line-start   *)
(*                            machinery on again (a flag instead of a counter)*)
ModelDevs == {"BeglineFlagNotCounted"}
\* Model deviation of the heading loop (Parser.tla; Demo_ParserRef_firsthead.cfg): the popping loop of
\* subtitle_start_fn is entered only while a SECTION is open, so that a block that is still open when the FIRST
\* heading of the document arrives (a preformatted block: an indented line directly before it) is not closed
NestDevs == {"TitleLoopNeedsSection"}
\* Model deviation of the closer of a spanning construct (Parser.tla, TagEndFn; Demo_ParserRef_premode.cfg): </pre>
\* leaves the non-interpreting mode only together with a PRE node on top of the stack -- a PRE node that was
\* closed with the list item it was opened in (text at the start of the next line) leaves the mode switched on
SpanDevs == {"PreModeLeftOnStrayEnd"}
\* the persistent MODE of the parser (ctx.pre_parse, ctx.begline_disable_counter, ctx.begline_enabled).  The law:
\* when every construct of the document has been closed the mode is the initial one
ModeOf(st) == [pre |-> st.pre, beg |-> st.beg, en |-> st.en]
InitialMode == [pre |-> FALSE, beg |-> 0, en |-> TRUE]
ArgKinds == {"LINK", "TEMPLATE", "TEMPLATE_ARG", "PARSER_FN", "URL"}      \* HAVE_ARGS_KIND_FLAGS
FillKind(m) == CASE m = "T" -> "TEMPLATE" [] m = "A" -> "TEMPLATE_ARG" [] m = "L" -> "LINK" [] m = "E" -> "URL"

InitS(Dev) == LET s == InitState(Dev) IN
  [stack |-> s.stack, bol |-> s.bol, wsp |-> s.wsp, line |-> s.line, pre |-> s.pre, stuck |-> s.stuck,
   dev |-> s.dev, beg |-> 0, en |-> TRUE]
Eff(st) == IF st.en THEN st ELSE [st EXCEPT !.bol = FALSE]
\* run a handler of Parser.tla where the code tests `beginning_of_line and begline_enabled`
Masked(st, Op(_)) == IF st.en THEN Op(st) ELSE [Op([st EXCEPT !.bol = FALSE]) EXCEPT !.bol = st.bol]

\* _parser_pop of a node with arguments: the remaining children become the last argument
PopA(st) ==
  LET f == Top(st) IN
  IF f.kind \in ArgKinds THEN Pop(SetTop(st, [f EXCEPT !.largs = Append(f.largs, f.children), !.children = <<>>]))
  ELSE Pop(st)

\* vbar_fn as magic_fn calls it between two arguments (not via process_text: the
\* line-start flags keep the values the previous argument left)
RECURSIVE VbarArg(_)
VbarArg(st) ==
  LET f == Top(st) IN
  IF st.stuck THEN st
  ELSE IF f.kind = "URL" THEN Masked(st, LAMBDA s : TextFn(s, <<"|">>))
  ELSE IF f.kind \in ArgKinds THEN SetTop(st, [f EXCEPT !.largs = Append(f.largs, f.children), !.children = <<>>])
  ELSE IF Have(st, {"TABLE"}) THEN Masked(st, LAMBDA s : TableCellFn(s, <<"|">>))
  ELSE IF Have(st, ArgKinds) THEN VbarArg(PopA(st))
  ELSE Masked(st, LAMBDA s : TextFn(s, <<"|">>))

\* the loop after the arguments: pop down to and including the construct's own frame
RECURSIVE CloseMagic(_, _)
CloseMagic(st, kind) ==
  LET f == Top(st) IN
  IF st.stuck \/ f.kind = "ROOT" THEN st
  ELSE IF f.kind = kind \/ (kind = "TEMPLATE" /\ f.kind = "PARSER_FN") THEN PopA(st)
  ELSE CloseMagic(PopA(st), kind)

RECURSIVE FeedS(_, _, _), StepS(_, _), MagicRec(_, _), ProcArgs(_, _, _)
\* BegLineDisableManager.__exit__: the counter goes down; the flag comes back when it reaches zero
LeaveArgs(st) ==
  LET n == st.beg - 1 IN
  [st EXCEPT !.beg = n, !.en = IF n < 1 \/ "BeglineFlagNotCounted" \in st.dev THEN TRUE ELSE @]
MagicRec(st0, f) ==
  LET kind == FillKind(f.m)
      c == Masked(st0, CloseBeglineLists) IN
  IF c.stuck THEN c
  ELSE LET st1 == Push([c EXCEPT !.bol = FALSE], kind, <<>>)          \* ctx.beginning_of_line = False
           st2 == [st1 EXCEPT !.beg = @ + 1, !.en = FALSE]            \* with ctx.begline_disabled:
           st3 == LeaveArgs(ProcArgs(st2, f.args, 1))
       IN IF kind = "URL" /\ ~Have(st3, {"URL"}) THEN Masked(st3, LAMBDA s : TextFn(s, <<"]">>))
          ELSE CloseMagic(st3, kind)
ProcArgs(st, args, i) ==
  IF i > Len(args) \/ st.stuck THEN st
  ELSE ProcArgs(FeedS(IF i = 1 THEN st ELSE VbarArg(st), args[i], 1), args, i + 1)
\* the body of process_text's loop for one token
StepS(st, tok) ==
  IF st.stuck THEN st
  ELSE IF tok.k = "FILL"
  THEN [MagicRec(st, tok) EXCEPT !.wsp = FALSE, !.bol = FALSE]
  ELSE IF st.en THEN Step(st, tok)
  ELSE LET r == Handle([st EXCEPT !.bol = FALSE], tok) IN
       [r EXCEPT !.line = r.line + NewLines(tok), !.wsp = st.bol /\ tok.k \in {"SP", "NL"}, !.bol = (tok.k = "NL")]
FeedS(st, toks, i) == IF i > Len(toks) THEN st ELSE FeedS(StepS(st, toks[i]), toks, i + 1)

HasS(line) == "s" \in DOMAIN line
RECURSIVE FeedDoc(_, _, _)
FeedDoc(st, d, i) == IF i > Len(d) THEN st ELSE FeedDoc(FeedS(st, Tokens(d[i], i), 1), d, i + 1)
MachineTree(d, Dev) == Finish(FeedDoc(InitS(Dev), d, 1)).root

Plain(d) == [i \in 1..Len(d) |-> [x \in (DOMAIN d[i]) \ {"f", "s", "z"} |-> d[i][x]]]
MachineRelations(d, Dev) == TreeRelations(MachineTree(d, Dev), d, W)
=============================================================================
