---------------------------- MODULE ParserRefDoc ----------------------------
(* C02: line-structured documents as token sequences for the machine of      *)
(* Parser.tla.  Line i carries the marker word W(i) = "w<i>".                *)
(* Shared by Gen_ParserRef (enumeration) and Trace_ParserRef (validation).   *)
EXTENDS Parser, ParserRef

AllDevs == {"HlineClosesLevel1"}

Words == [i \in 1..80 |-> "w" \o ToString(i)]   \* constant: evaluated once
W(i) == Words[i]
HasF(line) == "f" \in DOMAIN line /\ line.f
Fil(line) == IF HasF(line) THEN << [k |-> "SP", n |-> 1], [k |-> "MAGIC", m |-> "F"] >> ELSE <<>>
Tokens(line, i) ==
  LET w == [k |-> "TXT", a |-> <<W(i)>>] IN
  CASE line.t = "H" -> << [k |-> "HS", l |-> line.l], w >> \o Fil(line) \o << [k |-> "HE", l |-> line.l], [k |-> "NL"] >>
    [] line.t = "L" -> << [k |-> "LP", p |-> line.p], [k |-> "SP", n |-> 1], w >> \o Fil(line) \o << [k |-> "NL"] >>
    [] line.t = "P" -> << w >> \o Fil(line) \o << [k |-> "NL"] >>
    [] line.t = "R" -> << [k |-> "HR"], [k |-> "NL"] >>
    [] line.t = "B" -> << [k |-> "NL"] >>

RECURSIVE FeedDoc(_, _, _)
FeedDoc(st, d, i) == IF i > Len(d) THEN st ELSE FeedDoc(Feed(st, Tokens(d[i], i), 1), d, i + 1)
MachineTree(d, Dev) == Finish(FeedDoc(InitState(Dev), d, 1)).root

Plain(d) == [i \in 1..Len(d) |-> [x \in (DOMAIN d[i]) \ {"f"} |-> d[i][x]]]
MachineRelations(d, Dev) == TreeRelations(MachineTree(d, Dev), d, W)
=============================================================================
