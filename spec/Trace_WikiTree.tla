--------------------------- MODULE Trace_WikiTree ---------------------------
(* C01, V direction: validates a batch of structurally dumped real parse     *)
(* trees against WellFormed.  env TRACE_FILE: JSON array of entries          *)
(*   [pk |-> "NONE", t |-> whole tree]            or                          *)
(*   [pk |-> kind of the real parent, t |-> one-level slice of a big tree]   *)
(* One entry per step; the faults of ill-formed entries are collected and    *)
(* printed with the verdict.                                                 *)
EXTENDS WikiTree, Json, IOUtils, TLC

Trees == JsonDeserialize(IOEnv.TRACE_FILE)
RECURSIVE SetToSeq(_)
SetToSeq(S) == IF S = {} THEN <<>> ELSE LET x == CHOOSE x \in S : TRUE IN <<x>> \o SetToSeq(S \ {x})

VARIABLES i, bad
Init == i = 1 /\ bad = <<>>
Next ==
  /\ i <= Len(Trees)
  /\ \E f \in { IF Trees[i].pk = "NONE" THEN Faults(Trees[i].t) ELSE NodeFaults(Trees[i].t, Trees[i].pk) } :
       bad' = IF f = {} THEN bad ELSE Append(bad, [i |-> i, faults |-> SetToSeq(f)])
  /\ i' = i + 1
Spec == Init /\ [][Next]_<<i, bad>>
Verdict == (i = Len(Trees) + 1) => PrintT(<<"VERDICT", ToJson([consumed |-> i - 1, bad |-> bad])>>)
=============================================================================
