SPECIFICATION Spec
CONSTANTS
  LowerOf <- T_Lower
  UpperOf <- T_Upper
  Dev <- DevTitleparts
  Alpha <- AlphaAB
  MaxS = 2
  MaxLong = 2
  Offs <- OffsQ
  Needles <- NeedlesQ
  Fns <- FnsAll
  Spell <- NoSpell
INVARIANT TitlepartsAsIsAgrees
CHECK_DEADLOCK FALSE
