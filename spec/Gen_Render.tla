----------------------------- MODULE Gen_Render -----------------------------
(* Bounded universe of (value, handler, template library) cases for Render.tla *)
(* over the document grammar of property C19 (Gen_Unparse is INSTANCEd: the    *)
(* block contexts, inline wrappers, outer blocks and empty-part calls are      *)
(* its), plus a family of trees that carry what to_text rewrites (ref, br, hr, *)
(* headings, divN, category / piped / external links, stray angle brackets).   *)
(* Each case is printed with the specification's handled wikitext, to_html and *)
(* to_text; the laws of the composition are checked on every case.             *)
EXTENDS Render, Json

CONSTANTS Tier, Known, Part, Parts     \* "Q" | "T";  Known = open deviations of Transclusion.tla (as-is expansion)

G == INSTANCE Gen_Unparse WITH Depth <- 2, Part <- 0, Parts <- 1, doc <- <<>>, done <- TRUE

S(atoms) == Str(atoms)
Nd(kind, sarg, largs, attrs, kids) == U!Node(kind, sarg, largs, attrs, kids)
NL == S(<<"NL">>)

(* ---------------- template libraries (Transclusion.tla syntax) ---------------- *)
TI(s) == [k |-> "t", s |-> s]
Par(n) == [k |-> "p", name |-> n, hasDef |-> FALSE, def |-> <<>>]
ParD(n, d) == [k |-> "p", name |-> n, hasDef |-> TRUE, def |-> d]
Seg(w, c) == [w |-> w, c |-> c]
BodyShow == <<TI(<<"(">>), Par(<<"1">>), TI(<<",">>), ParD(<<"k">>, <<TI(<<"d">>)>>), TI(<<")">>)>>
BodyTags == <<TI(<<"<", "b", ">">>), Par(<<"1">>), TI(<<"<", "/", "b", ">", "<", "ref", ">">>), ParD(<<"k">>, <<TI(<<"d">>)>>),
              TI(<<"<", "/", "ref", ">", "NL">>)>>
Libs ==
  [show |-> ("t" :> <<Seg("plain", BodyShow)>>),
   doc  |-> ("t" :> <<Seg("noinclude", <<TI(<<"doc">>)>>), Seg("plain", BodyShow), Seg("comment", <<TI(<<"z">>)>>)>>),
   star |-> ("t" :> <<Seg("plain", <<TI(<<"*">>), Par(<<"1">>)>>)>>),
   tags |-> ("t" :> <<Seg("plain", BodyTags)>>),
   none |-> ("u" :> <<Seg("plain", <<TI(<<"u">>)>>)>>),          \* no template t: the call goes nowhere
   \* the hooks node_to_html passes through to expand(): the harness installs NO template t and passes
   \* template_fn = (t -> "%F%"), resp. installs `show` and passes post_template_fn = (t -> "%P%");
   \* for the specification that is a template t with that body
   fn   |-> ("t" :> <<Seg("plain", <<TI(<<"%", "F", "%">>)>>)>>),
   post |-> ("t" :> <<Seg("plain", <<TI(<<"%", "P", "%">>)>>)>>)]
LibNames == {"show", "doc", "star", "tags", "none", "fn", "post"}

(* ---------------- the to_text family ---------------- *)
El(tag, attrs, kids) == Nd("HTML", <<tag>>, <<>>, attrs, kids)
Lnk(largs) == Nd("LINK", <<>>, largs, <<>>, <<>>)
Around(x) == G!J3(<<S(<<"x1", "SP">>)>>, x, <<S(<<"SP", "y1">>)>>)
RTItems ==
  [ref      |-> <<El("ref", <<>>, <<S(<<"r1">>)>>)>>,
   refnl    |-> <<El("ref", <<U!Attr("name", "n1")>>, <<S(<<"r1", "SP", "s1">>)>>), S(<<"NL", "NL">>)>>,
   refempty |-> <<El("ref", <<U!Attr("name", "n1")>>, <<>>), S(<<"SP", "u1", "SP">>), El("ref", <<>>, <<S(<<"r1">>)>>)>>,   \* <ref name="n1" /> u1 <ref>r1</ref>
   refs     |-> <<El("ref", <<>>, <<S(<<"r1">>)>>), S(<<"SP">>), El("references", <<>>, <<>>), S(<<"SP", "w1">>)>>,
   refup    |-> <<S(<<"<", "Ref", "SP", ">", "r1", "<", "/", "SP", "ref", "SP", ">">>)>>,
   br       |-> <<El("br", <<>>, <<>>)>>,
   brnl     |-> <<El("br", <<>>, <<>>), S(<<"NL">>)>>,
   brclear  |-> <<El("br", <<U!Attr("clear", "all")>>, <<>>)>>,
   brslash  |-> <<S(<<"<", "br", "SP", "/", ">">>)>>,
   brupper  |-> <<S(<<"<", "BR", ">">>)>>,
   hr       |-> <<El("hr", <<>>, <<>>)>>,
   h2       |-> <<El("h2", <<>>, <<S(<<"t1">>)>>)>>,
   h2attr   |-> <<El("h2", <<U!Attr("id", "x1")>>, <<S(<<"t1">>)>>), S(<<"NL">>)>>,
   h2upper  |-> <<S(<<"<", "H2", ">", "t1", "<", "/", "H2", ">">>)>>,
   div2     |-> <<S(<<"<", "div2", ">", "t1", "<", "/", "div2", ">">>)>>,
   div      |-> <<El("div", <<>>, <<S(<<"t1">>)>>)>>,
   span     |-> <<El("span", <<U!Attr("id", "x1")>>, <<S(<<"t1">>)>>), S(<<"SP">>)>>,
   cat      |-> <<Lnk(<<<<S(<<"Category", ":", "Foo">>)>>>>)>>,
   catsort  |-> <<Lnk(<<<<S(<<"SP", "Category", ":", "Foo">>)>>, <<S(<<"k1">>)>>>>)>>,
   catlow   |-> <<Lnk(<<<<S(<<"c", "a", "t", "e", "g", "o", "r", "y", ":", "Foo">>)>>>>)>>,
   plain    |-> <<Lnk(<<<<S(<<"l">>)>>>>)>>,
   piped    |-> <<Lnk(<<<<S(<<"l">>)>>, <<S(<<"t1">>)>>>>)>>,
   piped3   |-> <<Lnk(<<<<S(<<"l">>)>>, <<S(<<"t1">>)>>, <<S(<<"v1">>)>>>>)>>,
   nested   |-> <<Lnk(<<<<S(<<"File", ":", "l">>)>>, <<S(<<"thumb">>)>>, <<S(<<"a1", "SP">>), Lnk(<<<<S(<<"l">>)>>, <<S(<<"b1">>)>>>>), S(<<"SP", "c1">>)>>>>)>>,
   ext      |-> <<Nd("URL", <<>>, <<<<S(G!Url1)>>, <<S(<<"t1", "SP", "v1">>)>>>>, <<>>, <<>>)>>,
   extbare  |-> <<Nd("URL", <<>>, <<<<S(G!Url1)>>>>, <<>>, <<>>)>>,
   less     |-> <<S(<<"a1", "SP", "<", "SP", "b1", "SP", ">", "SP", "c1">>)>>,
   lessonly |-> <<S(<<"a1", "SP", "<", "SP", "b1">>)>>,
   literal  |-> <<S(<<"[", "[", "l", "|", "t1", "]", "]">>)>>]       \* a literal [[l|t1]]: protected by to_wikitext, read as a link by to_text
RTNames == DOMAIN RTItems

(* ---------------- cases ---------------- *)
Case(fam, x, h, lib) == [fam |-> fam, x |-> x, h |-> h, lib |-> lib]
Doc(kids) == G!Doc(kids)
\* the node kinds a handler answers on
HandlerKinds == [none |-> {}, self |-> {}, tmark |-> {"TEMPLATE"}, linktext |-> {"LINK"}, htmlbold |-> {"BOLD", "ITALIC"},
                 droparg |-> {"TEMPLATE_ARG"}]
Answers(x, h) == HandlerKinds[h] \cap U!KindsInKids(AsList(x)) # {}
HasTemplate(x) == "TEMPLATE" \in U!KindsInKids(AsList(x))
\* a value with the handlers of hs that answer on it (and "self" when it is in hs) ...
VariantsH(fam, x, hs) ==
  {Case(fam, x, "none", "show")}
  \cup {Case(fam \o "+h", x, h, "show") : h \in {hh \in hs \ {"none"} : hh = "self" \/ Answers(x, hh)}}
\* ... and, when it holds a template call, with every library
Variants(fam, x) ==
  VariantsH(fam, x, Handlers)
  \cup (IF HasTemplate(x) THEN {Case(fam \o "+lib", x, "none", l) : l \in LibNames \ {"show"}} ELSE {})
Plain(fam, x) == {Case(fam, x, "none", "show")}

Inl1 == G!Inl(1, {})
TCall == G!Wrap("T", <<S(<<"a1">>)>>)
Rich == G!Wrap("B", G!Wrap("L", TCall))            \* '''[[l|{{t|a1|z1}}]]''': every handler but droparg answers
Star == G!Wrap("T", <<S(<<"*", "SP", "a1">>)>>)
CasesQ(z) ==
  UNION {Variants("inline", Doc(G!Blk("para", x))) : x \in Inl1}
  \cup UNION {VariantsH("block", Doc(G!Blk(w, Rich)), {"linktext"}) : w \in G!BlockW}
  \cup UNION {{Case("block+lib", Doc(G!Blk(w, TCall)), "none", l) : l \in {"star"}} : w \in G!BlockW}
  \cup UNION {Plain("outer", Doc(G!Outer(o, G!Blk("ul", TCall)))) : o \in G!OuterW}
  \cup UNION {Plain("text", Doc(G!Blk("para", Around(RTItems[n])))) : n \in RTNames}
  \cup UNION {Plain("text", Doc(G!Blk("ul", Around(RTItems[n])))) : n \in {"refnl", "brnl", "hr", "h2attr", "cat", "nested", "ext", "less"}}
  \cup UNION {Plain("text-in-call", Doc(G!Blk("para", G!Wrap(w, RTItems[n])))) : n \in {"ref", "br", "h2", "cat", "piped", "nested"}, w \in {"T", "P", "A", "B"}}
  \cup UNION {VariantsH("empty", Doc(G!Blk("para", <<e>>)), {"tmark", "droparg"}) : e \in {c \in G!EmptyCalls : Len(c.largs) <= 3}}
  \cup UNION {Plain("lib", Doc(G!Blk("para", G!J3(Star, <<S(<<"SP">>)>>, G!Wrap("N", <<S(<<"SP", "v1", "NL">>)>>))))) }
  \cup {Case("direct-list", [list |-> G!Blk("ul", TCall)], h, "show") : h \in {"none", "tmark"}}
  \cup {Case("direct-string", S(<<"x1", "SP", "[", "[", "y1", "]", "]">>), "none", "show")}
  \cup {Case("direct-node", G!Wrap("B", TCall)[1], h, "show") : h \in {"none", "htmlbold", "tmark"}}
\* (any cheap function of the case will do to share the cases out)
Size(c) == NCallsL(AsList(c.x)) + Cardinality(U!KindsInKids(AsList(c.x))) + Len(c.fam)
           + (CHOOSE k \in 1..6 : <<"none", "self", "tmark", "linktext", "htmlbold", "droparg">>[k] = c.h)
Inl2(z) == G!Inl(2, {})
\* the thorough universe, family by family (a TLC run takes the families k with k % Parts = Part)
NFam == 10
FamT(k) ==
  CASE k = 1 -> CasesQ(0)
    [] k \in 2..6 -> LET w == <<"", "para", "cell", "ddef", "ul", "caption">>[k] IN
                     UNION {Variants("inline2", Doc(G!Blk(w, x))) : x \in Inl2(0)}
    [] k = 7 -> UNION {VariantsH("block", Doc(G!Blk(w, x)), Handlers) : w \in G!BlockW, x \in Inl1}
    [] k = 8 -> UNION {Plain("outer", Doc(G!Outer(ow[1], G!Blk(ow[2], TCall)))) : ow \in {v \in G!OuterW \X G!BlockW : G!InnerOK(v[1], v[2])}}
                \cup UNION {Plain("text", Doc(G!Blk(w, Around(RTItems[n])))) : n \in RTNames, w \in G!BlockW}
    [] k = 9 -> UNION {Plain("text2", Doc(G!Blk("para", G!J3(Around(RTItems[n]), <<S(<<"SP">>)>>, RTItems[m])))) : n \in RTNames, m \in RTNames}
                \cup UNION {Plain("text-in-call", Doc(G!Blk("para", G!Wrap(w, RTItems[n])))) : n \in RTNames, w \in {"T", "N", "P", "A", "B", "H", "L", "E"}}
    [] k = 10 -> UNION {Variants("empty", Doc(G!Blk(w, <<e>>))) : e \in G!EmptyCalls, w \in {"para", "ul", "cell"}}
Cases(z) == IF Tier = "Q" THEN {c \in CasesQ(z) : Size(c) % Parts = Part}
            ELSE UNION {FamT(k) : k \in {j \in 1..NFam : j % Parts = Part}}

(* ---------------- generator ---------------- *)
VARIABLES case, done
Init == case \in Cases(0) /\ done = FALSE
Next == ~done /\ done' = TRUE /\ UNCHANGED case
Spec == Init /\ [][Next]_<<case, done>>

\* to_text of the predicted html: stripped, no tag of the handled shapes left, no run of three newlines
NoTagLeft(t) == \A i \in 1..Len(t) : MatchOpen(t, i).e = 0 /\ MatchClose(t, i).e = 0
TextLaws(t) ==
  /\ (t = <<>> \/ (t[1] \notin Ws /\ t[Len(t)] \notin Ws))
  /\ NoTagLeft(t)
  /\ \A i \in 1..Len(t) : ~IsAt(t, i, <<"NL", "NL", "NL">>)
Emit(c, xs) ==
  \A handled \in {U!UnparseList(xs, {})} :
    IF ~Readable(xs)
    THEN PrintT(<<"CASE", ToJson([fam |-> c.fam, x |-> c.x, h |-> c.h, lib |-> c.lib, libdef |-> Libs[c.lib], handled |-> handled,
                                   readable |-> FALSE, html |-> <<>>, text |-> <<>>, fired |-> {}])>>)
    ELSE \A html \in {Chars(T!Expand(Lower(xs), Libs[c.lib], Known))} :
         \A chars \in {Spell(html)} :
         \A text \in {ToText(chars)} :
           /\ PrintT(<<"CASE", ToJson([fam |-> c.fam, x |-> c.x, h |-> c.h, lib |-> c.lib, libdef |-> Libs[c.lib], handled |-> handled,
                                        readable |-> TRUE, html |-> html, text |-> text, fired |-> Fired(chars)])>>)
           /\ TextLaws(text)
GenInv == done \/ \A xs \in {Applied(case.x, case.h)} : Emit(case, xs)

(* ---------------- laws of the composition, checked on every case ---------------- *)
LawNone ==    \* a handler that answers None (or the node itself) everywhere leaves the tree alone: Unparse
  done \/ LET xs == AsList(case.x) IN
          /\ Applied(case.x, "none") = xs /\ Applied(case.x, "self") = xs
          /\ Handled(case.x, "none") = U!UnparseList(xs, {})
LawReading == \* the reading is a reading of exactly the emitted text
  done \/ LET xs == AsList(case.x) IN
          (Readable(xs) /\ FullArityL(xs)) => Flat(Lower(xs)) = U!UnparseList(xs, {})
LawIdentity == \* expansion is the identity on a text without calls (links are transparent)
  done \/ LET xs == AsList(case.x) IN
          (case.h = "none" /\ Readable(xs) /\ U!KindsInKids(xs) \cap {"TEMPLATE", "PARSER_FN", "TEMPLATE_ARG"} = {})
             => ToHtml(case.x, "none", Libs[case.lib], Known) = U!UnparseList(xs, {})
Laws == LawNone /\ LawReading /\ LawIdentity
=============================================================================
