SPECIFICATION TSpec
CONSTANTS
  Dev <- AsIsDev
INVARIANT Verdict
POSTCONDITION Accepted
CHECK_DEADLOCK FALSE
