SPECIFICATION Spec
CONSTANTS
  Procs <- P3
  Dev <- DevSkip
  Scenarios <- ScnBoot3
INVARIANT NoIdleTransaction
CHECK_DEADLOCK FALSE
