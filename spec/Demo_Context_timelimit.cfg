SPECIFICATION Spec
CONSTANTS
  Dev <- DevTimeLimitKept
  MaxLen = 6
  KindSet <- AllKinds
  Shape = "all"
INVARIANT NonInterference
VIEW MCView
CHECK_DEADLOCK FALSE
