SPECIFICATION SpecS
CONSTANTS
  Dev <- DevIdeal
  Known <- FileKnown
  Names <- FileNames
  Sites <- FileSites
  NsFns <- FileNsFns
INVARIANT EmitS
INVARIANT PartnersWellDefined
INVARIANT UnknownIsUnknown
CHECK_DEADLOCK FALSE
