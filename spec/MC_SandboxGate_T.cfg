SPECIFICATION SGSpec
CONSTANTS
  Objs <- D_Objs3
  Names <- D_Names
  Facts <- D_Facts
  Writable <- D_Writable
  Modes <- D_Modes
  Bounds <- D_Bounds3
  MaxLen = 3
  Dev <- DevIdeal
INVARIANT GateConfined
INVARIANT VerdictIsPure
INVARIANT AnswersAsDirect
INVARIANT RunAgrees
CHECK_DEADLOCK FALSE
