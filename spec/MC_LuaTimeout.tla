--------------------------- MODULE MC_LuaTimeout ---------------------------
(* Bounded instances of LuaTimeout: all programs of the grammar up to a     *)
(* wrapper depth, for the ideal design and for the code as it is.           *)
EXTENDS LuaTimeout

CONSTANTS Bodies, Kinds, MaxDepth, Progs

DevIdeal == {}
DevAsIs == DevNames
DevPcall == {"PcallCatchesTimeout"}
DevCo == {"CoroutineNoHook"}
DevHookCtl == {"HookControlExported"}
DevNested == {"NestedInvokeResetsHook"}
DevInBand == {"NestedTimeoutInBand"}

BodiesAll == AllBodies
BodiesTight == {"tight"}
BodiesTwo == {"tight", "deeprec"}
BodiesThree == {"tight", "deeprec", "invloop"}
KindsAll == AllKinds
\* the three ways into a nested invocation are one kind for the machine: model checking takes one
KindsMC == AllKinds \ {"ninvt", "ninvx"}
KindsCore == {"pcall", "ploop", "cowrap", "ninv"}
\* family "where the non-terminating code runs": wrapper lists that contain a nested invocation
KindsNest == {"pcall", "ploop", "xlooph", "cowrap", "ninv", "ninvt"}
BodiesNest == {"tight", "deeprec"}

RECURSIVE SeqsUpTo(_, _)
SeqsUpTo(S, n) ==
  IF n = 0 THEN {<<>>}
  ELSE LET P == SeqsUpTo(S, n - 1) IN
       P \cup {Append(p, k) : p \in {q \in P : Len(q) = n - 1}, k \in S}

Programs == {[body |-> b, wrap |-> w] : b \in Bodies, w \in SeqsUpTo(Kinds, MaxDepth)}
ProgramsNested == {q \in Programs : Len(q.wrap) = MaxDepth /\ \E i \in DOMAIN q.wrap : q.wrap[i] \in NestedKinds}

\* single programs for the demonstration configurations
P(b, w) == {[body |-> b, wrap |-> w]}
P_pcall == P("tight", <<"pcall">>)
P_ploop == P("tight", <<"ploop">>)
P_cowrap == P("tight", <<"cowrap">>)
P_clear == P("tight", <<"clear">>)
P_inv == P("tight", <<"inv">>)
P_deeploop == P("deeprec", <<"ploop">>)
P_ninv == P("tight", <<"ninv">>)
P_ploop_ninv == P("tight", <<"ploop", "ninv">>)
P_invloop == P("invloop", <<>>)

Spec == LTInit(Progs) /\ [][LTNext]_vars /\ Fair
=============================================================================
