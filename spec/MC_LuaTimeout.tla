--------------------------- MODULE MC_LuaTimeout ---------------------------
(* Bounded instances of LuaTimeout: all programs of the grammar up to a     *)
(* wrapper depth, for the ideal design and for the code as it is.           *)
EXTENDS LuaTimeout

CONSTANTS Bodies, Kinds, MaxDepth, Progs

DevIdeal == {}
DevAsIs == DevNames
DevPcall == {"PcallCatchesTimeout"}
DevCo == {"CoroutineNoHook"}
DevHookCtl == {"HookControlExported"}
DevNested == {"NestedInvokeResetsHook"}
DevInBand == {"NestedTimeoutInBand"}
DevXh == {"XpcallHandlerRunsInHook"}
DevEnvNil == {"EnvStackHelperAcceptsNil"}

BodiesAll == AllBodies
BodiesTight == {"tight"}
BodiesTwo == {"tight", "deeprec"}
BodiesThree == {"tight", "deeprec", "invloop"}
KindsAll == CoreKinds
\* the three ways into a nested invocation are one kind for the machine: model checking takes one; likewise one
\* of the transparent positions (a metamethod) and two helper calls (the one a deviation is about, one other)
KindsMC == (CoreKinds \ {"ninvt", "ninvx"}) \cup HandlerKinds \cup {"mts", HC("_python_append_env", "nil"), HC("_save_mod", "table")}
KindsMCcore == CoreKinds \ {"ninvt", "ninvx"}     \* depth 3 for the deviations that do not concern the new kinds
KindsMC3 == (CoreKinds \ {"ninvt", "ninvx"}) \cup {"xhe", "xht", HC("_python_append_env", "nil")}
KindsCore == {"pcall", "ploop", "cowrap", "ninv"}
\* family "where the non-terminating code runs": wrapper lists that contain a nested invocation
KindsNest == {"pcall", "ploop", "xlooph", "cowrap", "ninv", "ninvt"}
BodiesNest == {"tight", "deeprec"}

RECURSIVE SeqsUpTo(_, _)
SeqsUpTo(S, n) ==
  IF n = 0 THEN {<<>>}
  ELSE LET P == SeqsUpTo(S, n - 1) IN
       P \cup {Append(p, k) : p \in {q \in P : Len(q) = n - 1}, k \in S}

\* quick model checking: every program over the core kinds, and the programs that contain a handler position /
\* the helper call a deviation is about alone or next to a protected call, a loop, a coroutine, a nested invocation
\* (the thorough tier takes all of KindsMC at depth 2 and KindsMC3 at depth 3)
KindsMCQ == (CoreKinds \ {"ninvt", "ninvx"}) \cup HandlerKinds \cup {HC("_python_append_env", "nil")}
MCQOk(w) == \A i \in DOMAIN w : w[i] \notin CoreKinds => \A j \in DOMAIN w : w[j] \notin CoreKinds \/ w[j] \in {"pcall", "ploop", "cowrap", "ninv"}
ProgramsMCQ == {q \in {[body |-> b, wrap |-> w] : b \in Bodies, w \in SeqsUpTo(Kinds, MaxDepth)} : WellFormed(q.body, q.wrap) /\ MCQOk(q.wrap)}
Programs == {q \in {[body |-> b, wrap |-> w] : b \in Bodies, w \in SeqsUpTo(Kinds, MaxDepth)} : WellFormed(q.body, q.wrap)}
ProgramsNested == {q \in Programs : Len(q.wrap) = MaxDepth /\ \E i \in DOMAIN q.wrap : q.wrap[i] \in NestedKinds}

\* family "where the endless code sits relative to a protected call": in the message handler of an xpcall (entered
\* for an ordinary error / for the time limit error in the hook / for the time limit error handed on by a coroutine's
\* resumer), in a metamethod, in code run by _lua_invoke itself, in the resumer of a suspended coroutine; the handler
\* positions also under a protected call, a catch-and-continue loop, in a coroutine, in a nested invocation
BodiesWhere == {"tight", "deeprec"}
OuterWhere == {"pcall", "ploop", "cowrap", "ninv"}
ProgramsWhere ==
  {q \in {[body |-> b, wrap |-> <<k>>] : b \in Bodies, k \in WhereKinds} : WellFormed(q.body, q.wrap)}
  \cup (IF MaxDepth < 2 THEN {} ELSE
         {[body |-> b, wrap |-> <<o, h>>] : b \in Bodies \cap {"tight"}, o \in OuterWhere, h \in {"xhe", "xht"}})
\* thorough: every body under every where-kind, and the where-kinds with one more wrapper on either side (body tight)
KindsW == (CoreKinds \ {"ninvt", "ninvx", "xpcallh", "xlooph", "rearm"}) \cup WhereKinds
ProgramsWhereT ==
  {q \in Programs : /\ \E i \in DOMAIN q.wrap : q.wrap[i] \in WhereKinds
                    /\ Len(q.wrap) = 2 => q.body = "tight"}
\* family "bookkeeping helpers as control wrappers": every helper of the live module environment x every value class
BodiesHelper == {"tight"}
BodiesHelperT == {"tight", "lib"}
ProgramsHelpers ==
  {[body |-> b, wrap |-> <<k>>] : b \in Bodies, k \in HelperKinds}
  \cup (IF MaxDepth < 2 THEN {} ELSE
         {[body |-> "tight", wrap |-> <<HC(h, "nil"), o>>] : h \in HelperNames, o \in {"pcall", "ploop", "cowrap", "xhe"}})

\* single programs for the demonstration configurations
P(b, w) == {[body |-> b, wrap |-> w]}
P_pcall == P("tight", <<"pcall">>)
P_ploop == P("tight", <<"ploop">>)
P_cowrap == P("tight", <<"cowrap">>)
P_clear == P("tight", <<"clear">>)
P_inv == P("tight", <<"inv">>)
P_deeploop == P("deeprec", <<"ploop">>)
P_ninv == P("tight", <<"ninv">>)
P_ploop_ninv == P("tight", <<"ploop", "ninv">>)
P_invloop == P("invloop", <<>>)
P_xht == P("tight", <<"xht">>)
P_xhe == P("tight", <<"xhe">>)
P_envnil == P("tight", <<HC("_python_append_env", "nil")>>)

Spec == LTInit(Progs) /\ [][LTNext]_vars /\ Fair
=============================================================================
