SPECIFICATION MCHSpec
CONSTANTS
  PfxNs <- T_PfxNs
  CanonPfx <- T_CanonPfx
  UpperOf <- T_UpperOf
  ArgU <- NoArgs
  Dev <- DevNoReseed
  TplNs = 10
  MaxN = 2
  MaxRedirects = 1
  Combos <- CombosExact
  HistKinds <- KindsAll
INVARIANT ResultIsAsIsH
INVARIANT KeepsEarlierMarks
INVARIANT PushedOnce
CHECK_DEADLOCK FALSE
