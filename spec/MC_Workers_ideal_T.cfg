SPECIFICATION Spec
CONSTANTS
  Procs <- P3
  Dev <- DevIdeal
  Scenarios <- ScnAll
INVARIANT NoFailure
INVARIANT SerialResults
INVARIANT StoreUnchanged
INVARIANT NoDeadlock
CHECK_DEADLOCK FALSE
