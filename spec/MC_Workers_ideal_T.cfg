SPECIFICATION Spec
CONSTANTS
  Procs <- P3
  Dev <- DevIdeal
  Scenarios <- ScnAllQ
INVARIANT NoFailure
INVARIANT SerialResults
INVARIANT StoreUnchanged
INVARIANT NoDeadlock
INVARIANT WalAtWork
INVARIANT TxnLockAgree
INVARIANT NoStaleSideFile
INVARIANT SidePathsMatch
INVARIANT NoIdleTransaction
CHECK_DEADLOCK FALSE
