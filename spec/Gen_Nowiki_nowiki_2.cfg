SPECIFICATION Spec
CONSTANTS
  MaxTok = 2
  Mode = "nowiki"
INVARIANT GenInv
CHECK_DEADLOCK FALSE
