SPECIFICATION Spec
CONSTANTS
  MaxTok = 2
  Mode = "nowiki"
  Depth = 0
  DeepAll = FALSE
  FinRule = "fixpoint"
INVARIANT GenInv
CHECK_DEADLOCK FALSE
