SPECIFICATION TreeSpec
CONSTANTS
  Dev <- DevIdeal
  Lits <- LitsT
  Lits2 <- LitsTwo
  UnOps <- UnAll
  BinOps <- BinAll
  Families <- FamAll
  SoupAlphabet <- SoupSmall
  MaxSoup = 0
INVARIANT LadderComputesFold
INVARIANT ReferenceComputesFold
CHECK_DEADLOCK FALSE
