---------------------------- MODULE Trace_Context ----------------------------
(* V direction for C09: histories recorded from random drivers are replayed    *)
(* through Context!Process functionally; TLC prints, per step, the cells the   *)
(* as-is model (Dev = listed findings) says interfere.                         *)
EXTENDS Naturals, Sequences, FiniteSets, TLC, Json, IOUtils
CONSTANT Known
KnownC09 == {"StringMetatableShared", "RetainedLibraryTablesShared"}
VARIABLES dirty, hist, clean
C == INSTANCE Context WITH Dev <- Known
Hists == JsonDeserialize(IOEnv.TRACE_FILE)

RECURSIVE Replay(_, _, _, _)
Replay(h, i, d, acc) ==
  IF i > Len(h) THEN acc
  ELSE LET pre == d \ C!Resets(h[i])
           inter == (C!Reads(h[i]) \cap pre) \ C!Harmless
       IN Replay(h, i + 1, pre \cup C!Writes(h[i]), Append(acc, inter))

\* the model in which the options of a call stay in force: only to NAME an observed difference
CK == INSTANCE Context WITH Dev <- Known \cup {"TimeLimitKept", "CallOptionsKept", "HandedOutObjectsMemoised"}
RECURSIVE ReplayOK(_, _, _, _)
ReplayOK(h, i, d, acc) ==
  IF i > Len(h) THEN acc
  ELSE LET pre == d \ CK!Resets(h[i])
       IN ReplayOK(h, i + 1, pre \cup CK!Writes(h[i]), Append(acc, (CK!Reads(h[i]) \cap pre \cap (CK!OptCells \cup {"lobjects"}))))

VARIABLE n
TInit == n = 1 /\ dirty = {} /\ hist = <<>> /\ clean = <<>>
TNext == n <= Len(Hists) /\ n' = n + 1 /\ UNCHANGED <<dirty, hist, clean>>
TSpec == TInit /\ [][TNext]_<<n, dirty, hist, clean>>
Emit == (n <= Len(Hists)) => PrintT(<<"CASE", ToJson([i |-> n, hist |-> Hists[n], interferes |-> Replay(Hists[n], 1, {}, <<>>),
                                                            optkept |-> ReplayOK(Hists[n], 1, {}, <<>>)])>>)
=============================================================================
