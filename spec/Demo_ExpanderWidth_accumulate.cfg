SPECIFICATION SpecW
CONSTANTS
  Universe = "COMB"
  Known <- KnownExp
  DepthLimit = 100
  PreBody <- ThePreBody
  LogEvents = FALSE
  Tier = "demo"
INVARIANT DemoAccumulate
CHECK_DEADLOCK FALSE
