--------------------------- MODULE Gen_ParserRef ---------------------------
(* C02: bounded universes of line-structured documents.  Every reachable     *)
(* state is one document (documents grow one line per step).  For each, TLC  *)
(*   M  checks  TreeRelations(machine tree) = RefRelations(doc)   (MachineOK) *)
(*   G  prints the document with the relations the nesting model demands,    *)
(*      the relations of the as-is machine where they differ, and the full   *)
(*      machine tree (compared as DRIFT only).                               *)
EXTENDS ParserRefDoc, Json

CONSTANTS Universe, MaxLines

RECURSIVE MarkersOfLen(_)
MarkersOfLen(n) == IF n = 0 THEN { <<>> } ELSE { Append(m, c) : m \in MarkersOfLen(n - 1), c \in {"*", "#"} }
Markers(d) == UNION { MarkersOfLen(n) : n \in 1..d }

H(l) == [t |-> "H", l |-> l]
L(p) == [t |-> "L", p |-> p]
R == [t |-> "R"]
P == [t |-> "P"]
B == [t |-> "B"]
Lines ==
  CASE Universe = "H"  -> { H(l) : l \in 1..6 } \cup {R, P}
    [] Universe = "L"  -> { L(p) : p \in Markers(4) }
    [] Universe = "LP" -> { L(p) : p \in Markers(4) } \cup {P, B}
    [] Universe = "M"  -> { H(l) : l \in 1..4 } \cup { L(p) : p \in { <<"*">>, <<"#">>, <<"*", "*">>, <<"*", "#">>, <<"#", "#">> } }
                          \cup {R, P, B}
    [] Universe = "M6" -> { H(l) : l \in 1..6 } \cup { L(p) : p \in { <<"*">>, <<"#">>, <<"*", "*">>, <<"*", "#">> } }
                          \cup {R, P, B}
    [] Universe = "M5" -> { H(l) : l \in 1..3 } \cup { L(p) : p \in { <<"*">>, <<"#">>, <<"*", "*">> } } \cup {R, P, B}
    [] Universe = "F"  -> { [t |-> "H", l |-> l, f |-> TRUE] : l \in 1..3 } \cup { [t |-> "L", p |-> p, f |-> TRUE] : p \in Markers(2) }
                          \cup { [t |-> "P", f |-> TRUE], R, P }

VARIABLES doc, pst
vars == <<doc, pst>>
Init == doc = <<>> /\ pst = InitState({})
AddLine(l) == /\ Len(doc) < MaxLines
              /\ doc' = Append(doc, l)
              /\ pst' = Feed(pst, Tokens(l, Len(doc) + 1), 1)
Next == \E l \in Lines : AddLine(l)
Spec == Init /\ [][Next]_vars

AsIsRelevant == (\E i \in 1..Len(doc) : doc[i].t = "R") /\ (\E i \in 1..Len(doc) : doc[i].t = "H" /\ doc[i].l = 1)
\* M: the transcribed algorithm (with the rule fix) realises the nesting model;
\* G: the case is printed with what the model demands
Case ==
  \* (bound variables are evaluated once; LET definitions would be re-evaluated on every use)
  \E tree \in { Finish(pst).root } :
  \E ref \in { RefRelations(Plain(doc)) } :
  \E treeA \in { IF AsIsRelevant THEN MachineTree(doc, AllDevs) ELSE tree } :
    LET base == [doc |-> Plain(doc), rel |-> ref, tree |-> tree] IN
    /\ PrintT(<<"CASE", ToJson(IF treeA # tree
                                 THEN base @@ [asis |-> TreeRelations(treeA, doc, W), treeA |-> treeA]
                                 ELSE base)>>)
    /\ ~pst.stuck
    /\ TreeRelations(tree, doc, W) = ref
MachineOK == Case
\* Demo: the as-is machine (hline_fn without LEVEL1 in its stop set) against the model
AsIsOK == TreeRelations(MachineTree(doc, AllDevs), doc, W) = RefRelations(Plain(doc))
=============================================================================
