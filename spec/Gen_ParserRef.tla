--------------------------- MODULE Gen_ParserRef ---------------------------
(* C02: bounded universes of line-structured documents.  Every reachable     *)
(* state is one document (documents grow one line per step).  For each, TLC  *)
(*   M  checks  TreeRelations(machine tree) = RefRelations(doc)   (MachineOK) *)
(*   G  prints the document with the relations the nesting model demands,    *)
(*      the relations of the as-is machine where they differ, and the full   *)
(*      machine tree (compared as DRIFT only).                               *)
EXTENDS ParserRefDoc, Json

CONSTANTS Universe, MaxLines

RECURSIVE MarkersOfLen(_)
MarkersOfLen(n) == IF n = 0 THEN { <<>> } ELSE { Append(m, c) : m \in MarkersOfLen(n - 1), c \in {"*", "#"} }
Markers(d) == UNION { MarkersOfLen(n) : n \in 1..d }

H(l) == [t |-> "H", l |-> l]
L(p) == [t |-> "L", p |-> p]
R == [t |-> "R"]
P == [t |-> "P"]
B == [t |-> "B"]
I == [t |-> "I"]
O(c) == [t |-> "O", c |-> c]
Lines ==
  CASE Universe = "H"  -> { H(l) : l \in 1..6 } \cup {R, P}
    [] Universe = "L"  -> { L(p) : p \in Markers(4) }
    [] Universe = "LP" -> { L(p) : p \in Markers(4) } \cup {P, B}
    [] Universe = "M"  -> { H(l) : l \in 1..4 } \cup { L(p) : p \in { <<"*">>, <<"#">>, <<"*", "*">>, <<"*", "#">>, <<"#", "#">> } }
                          \cup {R, P, B}
    [] Universe = "M6" -> { H(l) : l \in 1..6 } \cup { L(p) : p \in { <<"*">>, <<"#">>, <<"*", "*">>, <<"*", "#">> } }
                          \cup {R, P, B}
    [] Universe = "M5" -> { H(l) : l \in 1..3 } \cup { L(p) : p \in { <<"*">>, <<"#">>, <<"*", "*">> } } \cup {R, P, B}
    \* the indented line (a preformatted block that is still open when the next line arrives) as a line of its own:
    \* directly before / after headings, list lines, rules, with and without a section open
    [] Universe = "I"  -> { H(l) : l \in 1..3 } \cup { I, L(<<"*">>), L(<<"*", "*">>), R, P, B }
    [] Universe = "I5" -> { H(l) : l \in 1..4 } \cup { I, L(<<"*">>), L(<<"#">>), L(<<"*", "*">>), R, P, B }
    [] Universe = "FI" -> { [t |-> "H", l |-> l, f |-> TRUE] : l \in 2..3 }
                          \cup { [t |-> "I", f |-> TRUE], I, [t |-> "L", p |-> <<"*">>, f |-> TRUE], [t |-> "P", f |-> TRUE] }
    \* unbalanced openers (outside the property: the expectation is the machine's, DRIFT only)
    [] Universe = "O"  -> { H(2), H(3), I, L(<<"*">>), R, P } \cup { O(c) : c \in OpenKinds }
    [] Universe = "F"  -> { [t |-> "H", l |-> l, f |-> TRUE] : l \in 1..3 } \cup { [t |-> "L", p |-> p, f |-> TRUE] : p \in Markers(2) }
                          \cup { [t |-> "P", f |-> TRUE], R, P }

(* ---------------- structured fillers (universes "S1", "S2", "S3") ---------------- *)
\* A filler body is a sequence over the element alphabet
\*   "N"   an inner construct            "x"   a word          "nl"  a newline
\*   "nls" newline, "*", blank, word     "nlb" newline, blank, word  (line starts that mean something)
\*   "bar" the argument separator |
\* written inside an outer construct o \in {T, A, L}; the inner construct is i \in {T, A, L, E} holding one
\* word or (ml) a word, a newline and a word, or (Deep) again a body with an innermost construct.
Wd(a) == [k |-> "TXT", a |-> <<a>>]
SPt == [k |-> "SP", n |-> 1]
NLt == [k |-> "NL"]
Fill(m, args) == [k |-> "FILL", m |-> m, args |-> args]
HeadArg(m) == CASE m = "T" -> << <<Wd("t")>> >> [] m = "A" -> << <<Wd("1")>> >> [] m = "L" -> << <<Wd("l")>> >>
                [] m = "E" -> << >>
\* the external link has one argument: url, blank, text
Close(m, argsAfterHead) ==
  IF m = "E" THEN Fill("E", << <<Wd("url"), SPt>> \o argsAfterHead[1] >>) ELSE Fill(m, HeadArg(m) \o argsAfterHead)
Elems == {"N", "x", "nl", "nls", "nlb", "bar"}
WordEnd == {"x", "nls", "nlb"}
ElemPieces(e, inner, star) ==
  CASE e = "N" -> <<inner>> [] e = "x" -> <<Wd("x")>> [] e = "nl" -> <<NLt>>
    [] e = "nls" -> <<NLt, [k |-> "LP", p |-> <<star>>], SPt, Wd("y")>>
    [] e = "nlb" -> <<NLt, SPt, Wd("y")>>
\* bodies: no word directly after a word (they would be one token); "bar" splits arguments
BodiesOfLen(n) == { b \in [1..n -> Elems] : \A j \in 1..(n - 1) : ~(b[j] \in WordEnd /\ b[j + 1] = "x") }
Bodies(lo, hi) == UNION { BodiesOfLen(n) : n \in lo..hi }
HasN(b) == \E j \in 1..Len(b) : b[j] = "N"
HasNL(b) == \E j \in 1..Len(b) : b[j] \in {"nl", "nls", "nlb"}
RECURSIVE ArgsOf(_, _, _, _, _)
\* split the body at "bar" into arguments (sequences of pieces)
ArgsOf(b, j, cur, inner, star) ==
  IF j > Len(b) THEN <<cur>>
  ELSE IF b[j] = "bar" THEN <<cur>> \o ArgsOf(b, j + 1, <<>>, inner, star)
  ELSE ArgsOf(b, j + 1, cur \o ElemPieces(b[j], inner, star), inner, star)
Build(o, b, inner, star) == Close(o, ArgsOf(b, 1, <<>>, inner, star))
\* inner constructs: one word / a word, a newline, a word
Inner(i, ml) == Close(i, << IF ml THEN <<Wd("u"), NLt, Wd("v")>> ELSE <<Wd("u")>> >>)
InnerSet(o) == { Inner(i, ml) : i \in (IF o = "L" THEN {"T", "A"} ELSE {"T", "A", "L"}), ml \in BOOLEAN }
                \cup (IF o = "L" THEN {} ELSE { Inner("E", FALSE) })
FillersOver(os, bodies, stars) ==
  UNION { IF HasN(b) THEN { Build(o, b, inn, st) : inn \in InnerSet(o), st \in stars }
          ELSE { Build(o, b, Wd("x"), st) : st \in stars } : o \in os, b \in { c \in bodies : HasN(c) \/ HasNL(c) } }
\* depth 3: the inner construct itself holds a body with an innermost construct
Deep(o, i, b1, b2, st) == Build(o, b1, Build(i, b2, Inner("T", FALSE), st), st)
DeepFillers(bodies) ==
  { Deep(o, i, b1, b2, "*") : o \in {"T", "L"}, i \in {"T", "A"}, b1 \in { c \in bodies : HasN(c) }, b2 \in { c \in bodies : HasN(c) } }

\* representative fillers for the universe that varies the document around them
Repr == { Build(o, b, Inner(i, FALSE), "*") :
            o \in {"T", "A", "L"}, i \in {"T"},
            b \in { <<"x", "nl", "x">>, <<"N", "nl", "x">>, <<"N", "nl", "bar", "x">>, <<"N", "nls">> } }

ReprT == { f \in Repr : f.m = "T" }
SL(p, f, z) == [t |-> "L", p |-> p, s |-> f, z |-> z]
IsSLine(l) == "s" \in DOMAIN l
\* S1: every filler (bodies <= 2 elements, every outer / inner kind), few documents: the filler sits in the second line
\* S2: few fillers, every document <= 3 lines around them
\* S3 (thorough): bodies <= 3 elements, depth 3
SPlain == { H(2), H(3), L(<<"*">>), L(<<"#">>), L(<<"*", "*">>), P, R }
SFillers ==
  CASE Universe = "S1" -> FillersOver({"T", "A", "L"}, Bodies(1, 2), {"*"})
    [] Universe = "S2" -> Repr
    [] Universe = "S3" -> FillersOver({"T", "A", "L"}, Bodies(3, 3), {"*", "#"}) \cup DeepFillers(Bodies(1, 2))
    [] OTHER -> {}
SLinesAt(pos) ==
  CASE Universe \in {"S1", "S3"} ->
         (IF pos = 1 THEN { H(2), L(<<"*">>) }
          ELSE IF pos = 2 THEN { SL(p, f, z) : p \in { <<"*">>, <<"*", "*">> }, f \in SFillers, z \in {FALSE} }
          ELSE { L(<<"*">>), L(<<"*", "*">>), H(3), P })
    [] Universe = "S2" ->
         SPlain \cup { SL(p, f, TRUE) : p \in { <<"*">>, <<"*", "*">> }, f \in SFillers }
                \cup { SL(<<"#">>, f, FALSE) : f \in SFillers }
                \cup { [t |-> "H", l |-> 2, s |-> f, z |-> TRUE] : f \in ReprT }
                \cup { [t |-> "P", s |-> f, z |-> TRUE] : f \in ReprT }
IsSUniverse == Universe \in {"S1", "S2", "S3"}

(* ---------------- constructs that span lines (universes "SP", "SP3"; round 8) ---------------- *)
\* A document is: at most one line in front, a list / paragraph / indented line that OPENS a construct after its
\* word (<pre>, <div>, <span>, <ref>), at most one continuation line, the line with the closer (closer first or word
\* first), and then every sequence of <= MaxLines ordinary structure lines.  The states in which the construct is
\* still open are unbalanced documents: they are passed through, not printed.
IsSpanUniverse == Universe \in {"SP", "SP3"}
SpanOpeners ==
  { [t |-> "L", p |-> p, o |-> c] : p \in { <<"*">>, <<"*", "*">>, <<"#">> }, c \in SpanKinds }
  \cup { [t |-> "P", o |-> c] : c \in SpanKinds } \cup { [t |-> "I", o |-> c] : c \in SpanKinds }
SpanFollow ==
  IF Universe = "SP" THEN { H(2), H(3), L(<<"*">>), L(<<"*", "*">>), R, P }
  ELSE { H(2), H(3), L(<<"*">>), L(<<"#">>), L(<<"*", "*">>), R, P }
CloserAt(d) == CHOOSE m \in 1..Len(d) : d[m].t = "C"
SpanLinesAfter(d) ==
  IF ~HasSpan(d) THEN (IF d = <<>> THEN { H(2), L(<<"*">>) } ELSE {}) \cup SpanOpeners
  ELSE IF SpanOpen(d)
  THEN (IF IsOpener(d, Len(d)) THEN { [t |-> "X"] } ELSE {})
       \cup { [t |-> "C", c |-> d[OpenerOf(d, Len(d) + 1)].o, b |-> b] : b \in BOOLEAN }
  ELSE IF Len(d) - CloserAt(d) < MaxLines THEN SpanFollow ELSE {}

(* ---------------- white space around the tokens (universe "W"; round 9) ---------------- *)
\* Every document of <= MaxLines lines over WBase, spelled after every SCHEME of WsSchemes.  A scheme says, per line
\* type, which white space stands around the tokens (ParserRefDoc: ws.a / ws.b / ws.e); each entry is a sequence of
\* alternatives that is cycled through by the line number, so that one document mixes spellings (the first heading
\* spelled the usual way, the second with a TAB after its end token, ...).  The scheme number is fixed by the first
\* line (field k).  The relations demanded are those of the document without the spelling.
None1 == << <<>> >>
One(x) == << <<x>> >>
Canon == [ha |-> One("SP"), hb |-> One("SP"), he |-> None1, la |-> One("SP"), le |-> None1, re |-> None1, pe |-> None1]
WsSchemes == <<
  \* after the end token of a heading: nothing / TAB / blank+TAB, by line
  [Canon EXCEPT !.he = << <<>>, <<"TAB">>, <<"SP", "TAB">> >>],
  [Canon EXCEPT !.he = << <<"TAB">>, <<"SP">>, <<"TAB", "SP">> >>],
  [Canon EXCEPT !.he = << <<"SP", "SP">>, <<"TAB", "TAB">>, <<"SP">> >>],
  \* CRLF text
  [Canon EXCEPT !.he = One("CR")],
  [Canon EXCEPT !.he = << <<>>, <<"SP", "CR">>, <<"CR">> >>],
  \* between the '=' runs and the title
  [Canon EXCEPT !.ha = None1, !.hb = None1, !.he = << <<"TAB">>, <<>> >>],
  [Canon EXCEPT !.ha = One("TAB"), !.hb = One("TAB")],
  [Canon EXCEPT !.ha = << <<"SP", "SP">>, <<>>, <<"TAB">> >>, !.hb = << <<>>, <<"SP", "TAB">>, <<"SP">> >>, !.he = << <<"SP">>, <<>> >>],
  \* after a list marker, at the end of list / paragraph lines, after '----'
  [Canon EXCEPT !.la = << <<>>, <<"TAB">>, <<"SP", "SP">> >>, !.le = << <<"SP">>, <<>>, <<"TAB">> >>, !.re = << <<"SP">>, <<"TAB">> >>,
                !.pe = << <<"TAB">>, <<"SP">> >>],
  [Canon EXCEPT !.la = << <<"TAB">>, <<>> >>, !.le = One("TAB"), !.re = << <<"SP", "TAB">> >>, !.pe = One("SP"),
                !.he = << <<"TAB">>, <<"CR">> >>, !.ha = None1],
  \* white space of Python's \s only (beyond the statement)
  [Canon EXCEPT !.he = << <<>>, <<"FF">> >>],
  [Canon EXCEPT !.he = << <<"VT">>, <<>> >>],
  [Canon EXCEPT !.he = << <<>>, <<"NBSP">>, <<"IDSP">> >>],
  [Canon EXCEPT !.ha = One("NBSP"), !.hb = One("IDSP")]
>>
Cyc(alts, i) == alts[((i - 1) % Len(alts)) + 1]
WBase == { H(2), H(3), H(4), L(<<"*">>), L(<<"*", "*">>), L(<<"#">>), R, P }
WsOf(base, sch, i) ==
  CASE base.t = "H" -> [a |-> Cyc(sch.ha, i), b |-> Cyc(sch.hb, i), e |-> Cyc(sch.he, i)]
    [] base.t = "L" -> [a |-> Cyc(sch.la, i), b |-> <<>>, e |-> Cyc(sch.le, i)]
    [] base.t = "R" -> [a |-> <<>>, b |-> <<>>, e |-> Cyc(sch.re, i)]
    [] base.t = "P" -> [a |-> <<>>, b |-> <<>>, e |-> Cyc(sch.pe, i)]
WLinesAfter(d) ==
  { b @@ [ws |-> WsOf(b, WsSchemes[k], Len(d) + 1), k |-> k] :
      b \in WBase, k \in (IF d = <<>> THEN 1..Len(WsSchemes) ELSE { d[1].k }) }

VARIABLES doc, pst
vars == <<doc, pst>>
Init == doc = <<>> /\ pst = InitS({})
AddLine(l) == /\ Len(doc) < MaxLines
              /\ doc' = Append(doc, l)
              /\ pst' = FeedS(pst, Tokens(l, Len(doc) + 1), 1)
\* structured universes: at most one line with a structured filler per document
AddSLine(l) == /\ IsSLine(l) => \A j \in 1..Len(doc) : ~IsSLine(doc[j])
               /\ AddLine(l)
AddSpanLine(l) == /\ doc' = Append(doc, l)
                  /\ pst' = FeedS(pst, Tokens(l, Len(doc) + 1), 1)
Next == IF Universe = "W" THEN \E l \in WLinesAfter(doc) : AddLine(l)
        ELSE IF IsSUniverse THEN \E l \in SLinesAt(Len(doc) + 1) : AddSLine(l)
        ELSE IF IsSpanUniverse THEN \E l \in SpanLinesAfter(doc) : AddSpanLine(l)
        ELSE \E l \in Lines : AddLine(l)
Spec == Init /\ [][Next]_vars

AsIsRelevant == (\E i \in 1..Len(doc) : doc[i].t = "R") /\ (\E i \in 1..Len(doc) : doc[i].t = "H" /\ doc[i].l = 1)
\* M: the transcribed algorithm (with the rule fix) realises the nesting model;
\* G: the case is printed with what the model demands
HasO == \E i \in 1..Len(doc) : doc[i].t = "O"
Case ==
  \* (bound variables are evaluated once; LET definitions would be re-evaluated on every use)
  \E tree \in { Finish(pst).root } :
  \E mrel \in { TreeRelations(tree, doc, W) } :
  \* a document with an unbalanced opener is outside the property: what the machine does is the expectation (ext)
  \E ref \in { IF HasO THEN mrel ELSE RefRelations(Plain(doc)) } :
  \E treeA \in { IF AsIsRelevant THEN MachineTree(doc, AllDevs) ELSE tree } :
    LET base == IF IsSUniverse THEN [doc |-> Plain(doc), rel |-> ref, sdoc |-> doc]
                \* (round 9) spelling variants: wsx = a white-space character outside the strict set occurs (DRIFT only)
                ELSE IF Universe = "W" THEN [doc |-> Plain(doc), rel |-> ref, wsp |-> TRUE, wsx |-> WsExoticDoc(doc)]
                ELSE IF HasO THEN [doc |-> Plain(doc), rel |-> ref, tree |-> tree, ext |-> TRUE]
                ELSE [doc |-> Plain(doc), rel |-> ref, tree |-> tree] IN
    /\ PrintT(<<"CASE", ToJson(IF treeA # tree
                                 THEN base @@ [asis |-> TreeRelations(treeA, doc, W), treeA |-> treeA]
                                 ELSE base)>>)
    /\ ~pst.stuck
    /\ mrel = ref
    /\ WsOK(doc)
\* documents with a construct that spans lines: the expectation printed is the machine's (rel), the statement
\* accepts both readings of the construct (acc: it ends / it continues the list item it was opened in);
\* M: the machine realises one of them
SpanCase ==
  \E tree \in { Finish(pst).root } :
  \E mrel \in { TreeRelations(tree, doc, W) } :
  \E acc \in { RefAccept(Plain(doc)) } :
    /\ PrintT(<<"CASE", ToJson([doc |-> Plain(doc), rel |-> mrel, acc |-> acc, span |-> TRUE])>>)
    /\ ~pst.stuck
    /\ \E k \in 1..Len(acc) : mrel = acc[k]
\* the law of the persistent mode: when every construct of the document has been closed, the parser is in its
\* initial mode again (whatever closed the construct's node)
ModeOK == SpanOpen(doc) \/ ModeOf(pst) = InitialMode
MachineOK == ModeOK /\ (IF HasSpan(doc) THEN SpanOpen(doc) \/ SpanCase ELSE Case)
\* Demo: a machine whose </pre> leaves the non-interpreting mode only together with a PRE node against the law
ModeLawDev == SpanOpen(doc) \/ ModeOf(FeedDoc(InitS(SpanDevs), doc, 1)) = InitialMode
\* Demo: the as-is machine (hline_fn without LEVEL1 in its stop set) against the model
AsIsOK == TreeRelations(MachineTree(doc, AllDevs), doc, W) = RefRelations(Plain(doc))
\* Demo: a machine whose line-start switch is a flag instead of a counter against the model
FlagOK == TreeRelations(MachineTree(doc, ModelDevs), doc, W) = RefRelations(Plain(doc))
\* Demo: a machine whose heading loop needs an open section against the model
NestOK == TreeRelations(MachineTree(doc, NestDevs), doc, W) = RefRelations(Plain(doc))
=============================================================================
