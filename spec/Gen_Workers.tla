---------------------------- MODULE Gen_Workers ----------------------------
(* Schedule generation for Workers: the schedule (which process takes which *)
(* step) is part of the state, so every terminal state is one interleaving;  *)
(* each is emitted with the result the model predicts for every worker and   *)
(* for the store.  Focus restricts the interleavings that are enumerated:    *)
(*   "startup": start-up steps interleave freely, page work runs afterwards  *)
(*              one worker at a time;                                        *)
(*   "work":    workers start one after the other, page work interleaves;    *)
(*   "life":    lifetimes: at most one worker is at work at a time (workers  *)
(*              start in index order), but every context - the creating one   *)
(*              included - closes at any moment, also in the middle of        *)
(*              another worker's start-up or page work;                      *)
(*   "prov":    databases of other provenance (backup written by backup_db,  *)
(*              rollback-journal files; single long-lived reader): scenarios  *)
(*              with a cursor as in "work", the others as in "startup";      *)
(*   "boot3":   the race for the bootstrap write with LIFETIMES: the workers *)
(*              start one after the other and ALL look the bootstrap page up *)
(*              before the first of them writes it; then every order of the  *)
(*              writes (write, commit and the reads after it in one go) and  *)
(*              every placement of every close: a worker that has written    *)
(*              stays open - idle - while the others write, or closes first; *)
(*   "restore": a restore while other live processes have the database open  *)
(*              (scenarios ScnRestoreLive): workers start in index order; a  *)
(*              worker may start while the earlier ones are PAUSED in the    *)
(*              middle of their page work (before the bootstrap write, or    *)
(*              after its commit) or have finished; while a later worker is  *)
(*              mid-run the earlier ones do not move; the creating context   *)
(*              writes its backup (bkd) and closes at any moment, every      *)
(*              worker closes at any moment after its page work;             *)
(*   "all":     no restriction (used with -simulate).                        *)
(* In "startup" and "work" the contexts are closed at the end, in order.     *)
EXTENDS MC_Workers, Json

CONSTANT Focus
VARIABLES sched,
          meet    \* history: a worker committed while ANOTHER worker's cursor was open on the same database
                  \* (the reader/writer meeting that only a WAL database lets pass); a class label for sampling
VARIABLE idlew    \* history: per bootstrap write (in the order performed) the number of workers that were idle then -
                  \* page work over, context still open: the meetings in which a transaction left open by an idle
                  \* context would keep the writer out for as long as that context lives; a class label for sampling
gvars == <<scn, pmain, pbak, ino, wlock, pc, conn, snap, saw, res, chk, raced, snapfail, opn, life, txn, sf, sched, meet, idlew>>

StartupLabels == {"exists", "unlink", "rename", "connect", "script"}
InStartup(p) == pc[p] \in StartupLabels
WorkDone == \A q \in Procs : Finished(q)
CloseLast(p) == WorkDone /\ \A q \in PAll : (q < p) => Ended(q)
MidRun(q) == ~Finished(q) /\ pc[q] # "exists"
AllowedStartup(p) ==
  IF Finished(p) THEN CloseLast(p)
  ELSE IF InStartup(p) THEN TRUE
  ELSE /\ \A q \in Procs : ~InStartup(q)
       /\ \A q \in Procs : (q < p) => Finished(q)
AllowedWork(p) ==
  IF Finished(p) THEN CloseLast(p)
  ELSE IF InStartup(p) THEN \A q \in Procs : (q < p) => ~InStartup(q)
  ELSE \A q \in Procs : ~InStartup(q)
PreInsert(q) == pc[q] \in {"cursor", "read1", "bootcheck"}
InBlock(q) == pc[q] \in {"commit", "read2"}
AllowedBoot3(p) ==
  IF Finished(p) THEN \A q \in Procs : ~InBlock(q)
  ELSE IF InStartup(p) THEN \A q \in Procs : (q < p) => ~InStartup(q)
  ELSE IF PreInsert(p) THEN /\ \A q \in Procs : ~InStartup(q)
                            /\ \A q \in Procs : (q < p) => ~PreInsert(q)
  ELSE /\ \A q \in Procs : ~InStartup(q) /\ ~PreInsert(q)
       /\ \A q \in Procs \ {p} : ~InBlock(q)
PausePt(q) == pc[q] \in {"read1", "read2"}
AllowedRestore(p) ==
  IF p = D \/ Finished(p) THEN \A q \in Procs : ~InStartup(q) \/ pc[q] = "exists"
  ELSE IF pc[p] = "exists" THEN /\ \A q \in Procs : (q < p) => pc[q] # "exists"
                                /\ \A q \in Procs \ {p} : MidRun(q) => PausePt(q)
  ELSE \A q \in Procs \ {p} : MidRun(q) => (PausePt(q) /\ q < p)
Allowed(p) ==
  CASE Focus = "startup" -> AllowedStartup(p)
    [] Focus = "work" -> AllowedWork(p)
    [] Focus = "life" ->
         IF Finished(p) THEN TRUE
         ELSE /\ \A q \in Procs \ {p} : ~MidRun(q)
              /\ pc[p] = "exists" => \A q \in Procs : (q < p) => pc[q] # "exists"
    \* provenance families: scenarios with a cursor as in "work", those without as in "startup"
    [] Focus = "prov" -> IF scn.cursor THEN AllowedWork(p) ELSE AllowedStartup(p)
    [] Focus = "boot3" -> AllowedBoot3(p)
    [] Focus = "restore" -> AllowedRestore(p)
    [] OTHER -> TRUE

\* workers that have been through their bootstrap write (or skipped it) and are idle now
IdleWriters(p) == {q \in Procs \ {p} : Idle(q) /\ conn[q] = conn[p]}
GInit == Init /\ sched = <<>> /\ meet = FALSE /\ idlew = <<>>
GNext == \/ \E p \in PAll : Allowed(p) /\ Step(p)
                           /\ sched' = Append(sched, [p |-> p, l |-> IF Finished(p) THEN "close" ELSE pc[p]])
                           /\ meet' = (meet \/ (pc[p] = "commit" /\ Readers(conn[p], p) # {}))
                           /\ idlew' = IF pc[p] = "insert" THEN Append(idlew, Cardinality(IdleWriters(p))) ELSE idlew
         \/ AllDone /\ UNCHANGED gvars
GSpec == GInit /\ [][GNext]_gvars

ProcSeq == CHOOSE q \in [1..Cardinality(Procs) -> Procs] : \A i \in 1..Cardinality(Procs) : q[i] = i
Emit ==
  AllDone =>
    PrintT(<<"CASE", ToJson([scn |-> scn, sched |-> sched,
                             res |-> [i \in 1..Cardinality(Procs) |-> res[i]],
                             store |-> (pmain # 0 /\ ino[pmain].c \ {"boot"} = {Exp}),
                             raced |-> raced, snapfail |-> snapfail, life |-> life,
                             meet |-> meet, idlew |-> idlew, stale |-> sf.stale, live |-> sf.live, after |-> sf.after,
                             jm |-> IF pmain # 0 THEN ino[pmain].jm ELSE "none"])>>)
GenInv == Emit
=============================================================================
