---------------------------- MODULE Gen_Workers ----------------------------
(* Schedule generation for Workers: the schedule (which process takes which *)
(* step) is part of the state, so every terminal state is one interleaving;  *)
(* each is emitted with the result the model predicts for every worker and   *)
(* for the store.  Focus restricts the interleavings that are enumerated:    *)
(*   "startup": start-up steps interleave freely, page work runs afterwards  *)
(*              one worker at a time;                                        *)
(*   "work":    workers start one after the other, page work interleaves;    *)
(*   "all":     no restriction (used with -simulate).                        *)
EXTENDS MC_Workers, Json

CONSTANT Focus
VARIABLE sched
gvars == <<scn, pmain, pbak, ino, wlock, pc, conn, snap, saw, res, chk, raced, snapfail, sched>>

StartupLabels == {"exists", "unlink", "rename", "connect", "script"}
InStartup(p) == pc[p] \in StartupLabels
Allowed(p) ==
  CASE Focus = "startup" ->
         IF InStartup(p) THEN TRUE
         ELSE /\ \A q \in Procs : ~InStartup(q)
              /\ \A q \in Procs : (q < p) => Finished(q)
    [] Focus = "work" ->
         IF InStartup(p) THEN \A q \in Procs : (q < p) => ~InStartup(q)
         ELSE \A q \in Procs : ~InStartup(q)
    [] OTHER -> TRUE

GInit == Init /\ sched = <<>>
GNext == \/ \E p \in Procs : Allowed(p) /\ Step(p) /\ sched' = Append(sched, [p |-> p, l |-> pc[p]])
         \/ AllDone /\ UNCHANGED gvars
GSpec == GInit /\ [][GNext]_gvars

ProcSeq == CHOOSE q \in [1..Cardinality(Procs) -> Procs] : \A i \in 1..Cardinality(Procs) : q[i] = i
Emit ==
  AllDone =>
    PrintT(<<"CASE", ToJson([scn |-> scn, sched |-> sched,
                             res |-> [i \in 1..Cardinality(Procs) |-> res[i]],
                             store |-> (pmain # 0 /\ ino[pmain].c \ {"boot"} = {Exp}),
                             raced |-> raced, snapfail |-> snapfail])>>)
GenInv == Emit
=============================================================================
