------------------------------ MODULE Session ------------------------------
(* The per-page session state machine of a Wtp context (core.py):           *)
(*   start_page, start_section, start_subsection, error / warning / debug / *)
(*   note / wiki_notice, to_return, expand, parse, create_strip_marker,     *)
(*   _save_value (cookie table) and the expansion path expand_stack.        *)
(* One action per public call.  What an expand()/parse() call does to the   *)
(* session state is described by the *script* of the text: the sequence of  *)
(* micro steps (push / pop of expand_stack, _save_value requests, recorded  *)
(* messages) in the order in which core.py / parser.py perform them; the    *)
(* scripts of the canonical texts used by the bounded universes and by the  *)
(* recorded sessions are transcribed below (SegOps).                        *)
(*                                                                          *)
(* Property C16 (session part): after every expand()/parse() the path is    *)
(* what it was before; every recorded message carries the documented keys   *)
(* with the page title and section current at emission; start_page empties  *)
(* the lists.  The declarative reference of the message clause is the       *)
(* variable `pos`: the section / subsection that are current according to   *)
(* the DOCUMENTED meaning of the calls (start_page: none; start_section(s):  *)
(* section s and no subsection - whatever s is, also when s is the title of  *)
(* the current section or None again; start_subsection(u): subsection u),    *)
(* kept apart from the fields `section` / `subsection` the code-like actions *)
(* assign and the messages are stamped from.  Beyond the statement (DRIFT    *)
(* class in the harness): the cookie table and the strip-marker numbering.   *)
EXTENDS Naturals, Sequences, FiniteSets, TLC

CONSTANTS Dev      \* names of the deviations from the ideal that are switched on

None == "<None>"                       \* Python None
Kinds == {"error", "warning", "debug", "note", "wiki_notice"}
ListName(k) == CASE k = "error" -> "errors" [] k = "warning" -> "warnings"
                 [] k = "debug" -> "debugs" [] k = "note" -> "notes"
                 [] k = "wiki_notice" -> "wiki_notices"
DocKeys == {"msg", "trace", "title", "section", "subsection", "called_from", "path"}
ReturnKeys == {ListName(k) : k \in Kinds}
DefaultSortid == "XYZunsorted"

(* ------------------------------------------------------------------ *)
(* scripts: micro steps of one expand()/parse() call                   *)
(* ------------------------------------------------------------------ *)
Push(lbl) == [o |-> "push", a |-> lbl, b |-> "", c |-> "", d |-> ""]
Pop == [o |-> "pop", a |-> "", b |-> "", c |-> "", d |-> ""]
Save(key) == [o |-> "save", a |-> key, b |-> "", c |-> "", d |-> ""]
Em(kind, msg, sortid, trace) == [o |-> "emit", a |-> kind, b |-> msg, c |-> sortid, d |-> trace]

TName == <<Push("TEMPLATE_NAME"), Pop>>          \* core.py: name of a {{...}} is expanded first
LoopErrText == "<strong class=\"error\">Template loop detected: [[:Template:loop]]</strong>"

\* {{loop}} where Template:loop = "{{loop}}": the body is encoded and re-saved by expand_args
\* (same value, no growth), the inner call is detected as a loop: pop, THEN the warning
CallLoop == TName \o <<Push("Template:loop"), Save("T:loop"), Save("T:loop")>> \o TName \o
            <<Push("Template:loop"), Pop, Em("warning", "loop", "core/1422", ""), Pop>>
\* {{#nosuchfn:x}}: the function name is pushed by expand_recurse and again by expand_parserfn
CallBadFn == TName \o <<Push("#nosuchfn"), Push("#nosuchfn"),
                        Em("error", "nosuchfn", "parserfns/1354", ""), Pop, Pop>>
\* body of Template:t1 = "[{{{1}}}]" once the argument map is built
T1Body == <<Save("A:1"), Push("ARG-NAME"), Pop>>

SegOps ==
  [ plain    |-> <<>>,
    loop     |-> <<Save("T:loop")>> \o CallLoop,
    badfn    |-> <<Save("T:#nosuchfn:x")>> \o CallBadFn,
    argbadfn |-> <<Save("T:#nosuchfn:x"), Save("T:t1|<T:#nosuchfn:x>")>> \o TName \o
                 <<Push("Template:t1"), Push("ARGVAL-1")>> \o CallBadFn \o <<Pop>> \o T1Body \o <<Pop>>,
    argloop  |-> <<Save("T:loop"), Save("T:t2|<T:loop>")>> \o TName \o
                 <<Push("Template:t2"), Push("ARGVAL-1")>> \o CallLoop \o
                 <<Pop, Save("A:1"), Save("T:t1|<A:1>"), Push("ARG-NAME"), Pop,
                   Save("T:t1|" \o LoopErrText)>> \o TName \o
                 <<Push("Template:t1"), Push("ARGVAL-1"), Pop>> \o T1Body \o <<Pop, Pop>>,
    pingpong |-> <<Save("T:ping")>> \o TName \o <<Push("Template:ping"), Save("T:pong"), Save("T:pong")>> \o TName \o
                 <<Push("Template:pong"), Save("T:ping"), Save("T:ping")>> \o TName \o
                 <<Push("Template:ping"), Pop, Em("warning", "loop:ping", "core/1422", ""), Pop, Pop>>,
    t1a      |-> <<Save("T:t1|a")>> \o TName \o <<Push("Template:t1"), Push("ARGVAL-1"), Pop>> \o T1Body \o <<Pop>>,
    t2z      |-> <<Save("T:t2|z")>> \o TName \o
                 <<Push("Template:t2"), Push("ARGVAL-1"), Pop, Save("A:1"), Save("T:t1|<A:1>"),
                   Push("ARG-NAME"), Pop, Save("T:t1|z")>> \o TName \o
                 <<Push("Template:t1"), Push("ARGVAL-1"), Pop>> \o T1Body \o <<Pop, Pop>>,
    ifloop   |-> <<Save("T:loop"), Save("T:#if:x|<T:loop>")>> \o TName \o <<Push("#if"), Push("#if")>> \o
                 CallLoop \o <<Pop, Pop>>,
    nosuch   |-> <<Save("T:nosuch")>> \o TName \o <<Push("Template:nosuch"), Pop>>,
    arg1     |-> <<Save("A:1"), Push("ARGVAL-NO-TEMPLATE"), Push("ARG-NAME"), Pop, Pop>>,
    \* {{{1|a|b}}}: the "too many args" debug is recorded before the argument name is expanded
    toomany  |-> <<Save("A:1|a|b"), Push("ARGVAL-NO-TEMPLATE"), Em("debug", "toomany", "core/1021", ""),
                   Push("ARG-NAME"), Pop, Push("ARG-DEFVAL"), Pop, Pop>>,
    \* ---- parse() texts (parser.py records debugs while the path is just the page title)
    p_plain   |-> <<>>,
    p_pre     |-> <<Em("debug", "pre", "parser/1308", "")>>,
    p_b       |-> <<Em("debug", "b_unclosed", "parser/304", "lineN-N")>>,
    p_heading |-> <<Em("debug", "heading", "parser20241218-2219", "")>>,
    p_section |-> <<Em("debug", "section", "parser/1299", "")>>,
    p_t1a     |-> <<Save("T:t1|a")>>,
    \* parse("{{loop}}</pre>", expand_all=True): expansion first, then the parser
    p_looppre |-> <<Save("T:loop")>> \o CallLoop \o <<Save("L::Template:loop"), Em("debug", "pre", "parser/1308", "")>> ]

ExpandSegs == {"plain", "loop", "badfn", "argbadfn", "argloop", "pingpong", "t1a", "t2z", "ifloop", "nosuch", "arg1", "toomany"}
ParseSegs == {"p_plain", "p_pre", "p_b", "p_heading", "p_section", "p_t1a", "p_looppre"}

\* a text = <nowiki> sections (their contents, in order) followed by one segment;
\* preprocess_text saves the nowiki contents first
Text(nw, seg) == [nw |-> nw, seg |-> seg]
TextOps(t) == [i \in 1..Len(t.nw) |-> Save("N:" \o t.nw[i] \o "!")] \o SegOps[t.seg]

(* ------------------------------------------------------------------ *)
(* state                                                              *)
(* ------------------------------------------------------------------ *)
VARIABLES
  title, section, subsection,  \* Wtp.title / .section / .subsection (None before start_page)
  lists,       \* kind -> sequence of recorded messages (errors, warnings, debugs, notes, wiki_notices)
  path,        \* Wtp.expand_stack
  cookies,     \* Wtp.cookies as the sequence of saved (kind,args,nowiki) keys; rev_ht is its inverse
  smc,         \* Wtp.strip_marker_cache as a set of [k, v]
  ret,         \* observable result of the last call (to_return / create_strip_marker)
  last,        \* name of the last call
  ghost,       \* kind -> sequence of [title, section, subsection] current at emission (history)
  markers,     \* strip markers issued on this page: sequence of [node, content, num] (history)
  pos          \* declarative reference: [section, subsection] current by the documented meaning of the calls

svars == <<title, section, subsection, lists, path, cookies, smc, ret, last, ghost, markers, pos>>

NoLens == [k \in Kinds |-> 0]
NoRet == [keys |-> {}, lens |-> NoLens, node |-> "", num |-> 0]
EmptyLists == [k \in Kinds |-> <<>>]

NoPos == [section |-> None, subsection |-> None]
Fresh(t, s, u, ls, p, ck, m, r, la, g, mk, ps) ==
  /\ t = None /\ s = None /\ u = None /\ ls = EmptyLists /\ p = <<>> /\ ck = <<>> /\ m = {}
  /\ r = NoRet /\ la = "init" /\ g = EmptyLists /\ mk = <<>> /\ ps = NoPos

Init == Fresh(title, section, subsection, lists, path, cookies, smc, ret, last, ghost, markers, pos)
\* a new context (used by trace validation between recorded sessions)
Reset == Fresh(title', section', subsection', lists', path', cookies', smc', ret', last', ghost', markers', pos')

(* ---------------- messages ---------------- *)
StampT(t) == IF t = None \/ t = "" THEN "ERROR_TITLE" ELSE t     \* self.title or "ERROR_TITLE"
StampS(s) == IF s = None THEN "" ELSE s                          \* self.section or ""

Record(kind, msg, trace, sortid, p) ==
  [msg |-> msg, trace |-> trace, title |-> StampT(title),
   section |-> StampS(IF "WarningSectionFromSubsection" \in Dev /\ kind = "warning" THEN subsection ELSE section),
   subsection |-> StampS(subsection), called_from |-> sortid, path |-> p]
\* what a message recorded now has to be attributed to (the declarative side)
Ctx == [title |-> title, section |-> pos.section, subsection |-> pos.subsection]

(* ---------------- cookie table: _save_value ---------------- *)
HasCookie(ck, key) == \E i \in 1..Len(ck) : ck[i] = key
SaveValue(ck, key) == IF HasCookie(ck, key) /\ "CookieNotDeduplicated" \notin Dev THEN ck ELSE Append(ck, key)

(* ---------------- running a script ---------------- *)
RECURSIVE RunOps(_, _, _)
RunOps(ops, i, st) ==
  IF i > Len(ops) THEN st
  ELSE LET op == ops[i] IN
       RunOps(ops, i + 1,
         CASE op.o = "push" -> [st EXCEPT !.path = Append(@, op.a)]
           [] op.o = "pop"  -> [st EXCEPT !.path = SubSeq(@, 1, Len(@) - 1)]
           [] op.o = "save" -> [st EXCEPT !.cookies = SaveValue(@, op.a)]
           [] op.o = "emit" -> [st EXCEPT !.lists[op.a] = Append(@, Record(op.a, op.b, op.d, op.c, st.path)),
                                          !.ghost[op.a] = Append(@, Ctx)])

(* ---------------- strip markers: create_strip_marker ---------------- *)
Has(S, k) == \E e \in S : e.k = k
Get(S, k, d) == IF Has(S, k) THEN (CHOOSE e \in S : e.k = k).v ELSE d
Put(S, k, v) == {e \in S : e.k # k} \cup {[k |-> k, v |-> v]}

\* `collide`: the as-built cache keeps the two counters ("nowiki", "preprocess") and the
\* contents in ONE dictionary; the ideal keeps contents apart from the counters
StripStep(S, node, content, collide) ==
  IF node = "nowiki"
  THEN LET n == Get(S, "nowiki", 0) IN [num |-> n, smc |-> Put(S, "nowiki", n + 1)]
  ELSE LET ck == IF collide THEN content ELSE "c:" \o content
           pp == Get(S, "preprocess", 0)
           n == Get(S, ck, pp)
       IN IF Has(S, ck) THEN [num |-> n, smc |-> S]
          ELSE [num |-> n, smc |-> Put(Put(S, "preprocess", pp + 1), ck, n)]

(* ------------------------------------------------------------------ *)
(* actions: one per public call                                        *)
(* ------------------------------------------------------------------ *)
\* Re-announcements: a call whose argument equals the value that is current already
\* (start_page(T) on page T, start_section(S) in section S, start_section(None) without a
\* section, start_subsection(U) in subsection U).  By the documentation such a call means
\* what any other call of the function means; "nothing changes, so nothing to do" is the
\* class of shortcut the deviations Same*Shortcut model.
SamePage(t) == t = title
SameSection(s) == s = section
SameSubsection(u) == u = subsection

StartPage(t) ==
  /\ pos' = NoPos
  /\ ret' = NoRet /\ last' = "start_page"
  /\ IF "SamePageShortcut" \in Dev /\ SamePage(t)
     THEN UNCHANGED <<title, lists, ghost, section, subsection, cookies, path, smc, markers>>
     ELSE /\ title' = t
          /\ lists' = [k \in Kinds |-> IF "ListsNotClearedOnStartPage" \in Dev /\ k = "note" THEN lists[k] ELSE <<>>]
          /\ ghost' = EmptyLists
          /\ section' = None /\ subsection' = None
          /\ cookies' = <<>> /\ path' = <<t>> /\ smc' = {} /\ markers' = <<>>

StartSection(s) ==
  /\ pos' = [section |-> s, subsection |-> None]
  /\ IF "SameSectionShortcut" \in Dev /\ SameSection(s)
     THEN UNCHANGED <<section, subsection>>
     ELSE /\ section' = s
          /\ subsection' = IF "SubsectionKeptOnStartSection" \in Dev THEN subsection ELSE None
  /\ ret' = NoRet /\ last' = "start_section"
  /\ UNCHANGED <<title, lists, ghost, path, cookies, smc, markers>>

StartSubsection(s) ==
  /\ pos' = [pos EXCEPT !.subsection = s]
  /\ subsection' = IF "SubsectionNamedLikeSectionIgnored" \in Dev /\ s = section /\ s # None THEN subsection ELSE s
  /\ ret' = NoRet /\ last' = "start_subsection"
  /\ UNCHANGED <<title, section, lists, ghost, path, cookies, smc, markers>>

Emit(kind, msg, trace, sortid) ==
  /\ lists' = [lists EXCEPT ![kind] = Append(@, Record(kind, msg, trace, sortid, path))]
  /\ ghost' = [ghost EXCEPT ![kind] = Append(@, Ctx)]
  /\ ret' = NoRet /\ last' = "emit"
  /\ UNCHANGED <<title, section, subsection, path, cookies, smc, markers, pos>>

RunText(t, name) ==
  /\ title # None              \* expand()/parse() assert that start_page has been called
  /\ \E st \in {RunOps(TextOps(t), 1, [path |-> path, cookies |-> cookies, lists |-> lists, ghost |-> ghost])} :
       /\ path' = st.path /\ cookies' = st.cookies /\ lists' = st.lists /\ ghost' = st.ghost
  /\ ret' = NoRet /\ last' = name
  /\ UNCHANGED <<title, section, subsection, smc, markers, pos>>

Expand(t) == t.seg \in ExpandSegs /\ RunText(t, "expand")
Parse(t) == t.seg \in ParseSegs /\ RunText(t, "parse")

ToReturn ==
  /\ ret' = [keys |-> ReturnKeys, lens |-> [k \in Kinds |-> Len(lists[k])], node |-> "", num |-> 0]
  /\ last' = "to_return"
  /\ UNCHANGED <<title, section, subsection, lists, ghost, path, cookies, smc, markers, pos>>

StripMarker(node, content) ==
  /\ \E r \in {StripStep(smc, node, content, "StripCounterKeyCollision" \in Dev)} :
       /\ smc' = r.smc
       /\ ret' = [keys |-> {}, lens |-> NoLens, node |-> node, num |-> r.num]
       /\ markers' = Append(markers, [node |-> node, content |-> content, num |-> r.num])
  /\ last' = "strip_marker"
  /\ UNCHANGED <<title, section, subsection, lists, ghost, path, cookies, pos>>

(* ------------------------------------------------------------------ *)
(* properties                                                         *)
(* ------------------------------------------------------------------ *)
TotalMsgs == Len(lists["error"]) + Len(lists["warning"]) + Len(lists["debug"]) + Len(lists["note"]) + Len(lists["wiki_notice"])

IsMsg(m) == /\ DOMAIN m = DocKeys
            /\ m.title \in STRING /\ m.section \in STRING /\ m.subsection \in STRING
            /\ m.path \in Seq(STRING)
TypeOK ==
  /\ title \in STRING /\ section \in STRING /\ subsection \in STRING
  /\ pos.section \in STRING /\ pos.subsection \in STRING
  /\ DOMAIN lists = Kinds /\ DOMAIN ghost = Kinds
  /\ \A k \in Kinds : \A i \in 1..Len(lists[k]) : IsMsg(lists[k][i])
  /\ path \in Seq(STRING) /\ cookies \in Seq(STRING)
  /\ \A e \in smc : e.k \in STRING /\ e.v \in Nat
  /\ ret.keys \subseteq ReturnKeys /\ ret.num \in Nat
  /\ last \in {"init", "start_page", "start_section", "start_subsection", "emit", "expand", "parse", "to_return", "strip_marker"}

\* the fields the messages are stamped from are the documented position
PosIsState == pos.section = section /\ pos.subsection = subsection
\* a re-announcement is a call like any other: right after it the state is what the documentation
\* says about the call (in particular no subsection after start_section, whatever came before)
AnnouncedPosition ==
  /\ last = "start_page" => section = None /\ subsection = None
  /\ last = "start_section" => section = pos.section /\ subsection = None
  /\ last = "start_subsection" => section = pos.section /\ subsection = pos.subsection

\* every message is stamped with the title / section (/ subsection) current when it was emitted
\* (ghost: the documented position `pos` at emission)
StampsTitleSection ==
  \A k \in Kinds :
    /\ Len(lists[k]) = Len(ghost[k])
    /\ \A i \in 1..Len(ghost[k]) :
         /\ lists[k][i].title = StampT(ghost[k][i].title)
         /\ lists[k][i].section = StampS(ghost[k][i].section)
StampsSubsection ==
  \A k \in Kinds : \A i \in 1..Len(ghost[k]) :
    i <= Len(lists[k]) => lists[k][i].subsection = StampS(ghost[k][i].subsection)
\* ... and, since start_page empties the lists, with the title of the current page
StampsCurrentTitle == \A k \in Kinds : \A i \in 1..Len(lists[k]) : lists[k][i].title = StampT(title)

\* right after start_page: empty lists, no section, fresh tables, path = <<title>>
CleanAfterStartPage ==
  last = "start_page" =>
    /\ \A k \in Kinds : lists[k] = <<>>
    /\ section = None /\ subsection = None
    /\ cookies = <<>> /\ smc = {} /\ path = <<title>>
SubsectionClearedByStartSection == last = "start_section" => subsection = None

\* the path is the page title between calls (hence restored by every call)
PathIsTitle == path = IF title = None THEN <<>> ELSE <<title>>
PathRestored == [][last' \in {"expand", "parse"} => path' = path]_svars

IsPrefix(s, t) == Len(s) <= Len(t) /\ \A i \in 1..Len(s) : s[i] = t[i]
ListsOnlyGrow == [][last' # "start_page" => \A k \in Kinds : IsPrefix(lists[k], lists'[k])]_svars
ToReturnObservesOnly == [][last' = "to_return" => lists' = lists /\ \A k \in Kinds : ret'.lens[k] = Len(lists[k])]_svars

\* cookie table: same (kind,args,nowiki) -> same cookie; grows by appending, reset by start_page
CookieInjective == \A i, j \in 1..Len(cookies) : cookies[i] = cookies[j] => i = j
CookiesOnlyGrow == [][last' # "start_page" => IsPrefix(cookies, cookies')]_svars

\* strip markers: nowiki markers are numbered 0,1,2,.. per page; other markers: same content
\* <=> same number
NowikiNumbered ==
  \A i \in 1..Len(markers) :
    markers[i].node = "nowiki" =>
      markers[i].num = Cardinality({j \in 1..(i - 1) : markers[j].node = "nowiki"})
StripSameContentSameNumber ==
  \A i, j \in 1..Len(markers) :
    (markers[i].node # "nowiki" /\ markers[j].node # "nowiki") =>
      ((markers[i].content = markers[j].content) <=> (markers[i].num = markers[j].num))
=============================================================================
