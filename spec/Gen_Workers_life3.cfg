SPECIFICATION GSpec
CONSTANTS
  Procs <- P3
  Dev <- DevAsIs
  Scenarios <- ScnLifeNoCursor
  Focus = "life"
INVARIANT GenInv
CHECK_DEADLOCK FALSE
