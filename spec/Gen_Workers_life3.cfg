SPECIFICATION GSpec
CONSTANTS
  Procs <- P3
  Dev <- DevAsIs
  Scenarios <- ScnLifeNoCursor
  Focus = "life"
INVARIANT GenInv
INVARIANT TxnLockAgree
INVARIANT NoStaleSideFile
INVARIANT DoneMeansCommitted
CHECK_DEADLOCK FALSE
