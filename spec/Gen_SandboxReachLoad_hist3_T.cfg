SPECIFICATION SLSpec
CONSTANTS
  Entries <- D_Entries
  Shapes <- D_ShapesMin
  Bounds <- D_Bounds
  MaxLen = 3
  Dev <- DevIdeal
INVARIANT GenInv
CHECK_DEADLOCK FALSE
