SPECIFICATION Spec
CONSTANTS
  Universe = "SEP"
  Part = 0
  Parts = 1
  Known = {}
  Tags <- TagsFromFile
INVARIANT DemoHdrSepCall
CHECK_DEADLOCK FALSE
