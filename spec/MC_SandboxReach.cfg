SPECIFICATION SpecOne
CONSTANTS
  Edges <- D_Edges
  Init0 <- D_Init
  Forbidden <- D_Forbidden
  WholeDesign = FALSE
  WithLeaves = FALSE
  Dev <- DevIdeal
INVARIANT Confined
INVARIANT WithinClosure
INVARIANT EndsInClosure
CHECK_DEADLOCK FALSE
