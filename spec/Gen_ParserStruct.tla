-------------------------- MODULE Gen_ParserStruct --------------------------
(* Bounded universes of written structures for property C03 and the generator *)
(* that prints, per structure, its rendering (atoms) and the tree the machine *)
(* twin builds from it.  On every structure TLC checks the law                *)
(*     Equiv(MachineTree(Render(page), {}), TreeOf(page))                      *)
(* i.e. the transcribed handlers (ideal design) produce the written structure.*)
(*                                                                            *)
(*   Universe "GQ"/"GT" : grids <= 3x3 / 4x4, both separator styles, spaced   *)
(*        and tight, header/data patterns, caption none/plain/with attributes,*)
(*        attribute maps none/one/two on table, rows and cells (orthogonal    *)
(*        array of strength 2 over the four 3-level factors), cell contents   *)
(*        s + t*k (+ u*k*k) over a content catalogue (every content in every  *)
(*        cell, every ordered pair in adjacent cells)                         *)
(*   "EL" : every paired tag of the allowed-tag table x 3 attribute maps x 3  *)
(*        contents x 3 surroundings                                           *)
(*   "CALL" : template calls, parser functions, argument references, links    *)
(*        and external links with 0..3 arguments over an argument catalogue   *)
(*   "PAIR" : co-occurrence: two / three constructs of one kind on one page   *)
(*        that are equal under some normalisation (line breaks or blanks at   *)
(*        the edges of arguments, case / underscore of the name, entity       *)
(*        spellings, argument order, an empty last argument, inner blanks, a  *)
(*        nested call that differs that way, the bracket kind), every ordered  *)
(*        pair of every family, in running text / paragraphs / table cells    *)
(*   "HIST" : page histories: start_page, then a sequence of parse() /        *)
(*        expand() calls on the same page over the same families; law:        *)
(*        independence of constructs - every parse has the written structure  *)
(*        of ITS text and the machine tree does not depend on the history     *)
(*   "ATTR" : written attributes: the CHARACTERS of one attribute value (the   *)
(*        quote character of the other kind at its start / end / both / inside *)
(*        / alone, blanks, = > &amp; and URL punctuation inside, empty) x its   *)
(*        own DELIMITERS (" ' none, blanks around =) x the rest of the map     *)
(*        (alone, after / before plain attributes written each way, before a   *)
(*        second value with an apostrophe) x the SITE (start tag of an element *)
(*        alone / in running text / in a cell; {| line, |+ caption, first and  *)
(*        later |- line, first / second header cell, first / second data cell  *)
(*        of a 2x2 table, one cell per line and || / !! separated, spaced and  *)
(*        tight).  Expected map = TreeOf: the written value, i.e. what stands  *)
(*        between the ONE pair of delimiters ("ATTRT": full cross, thorough)   *)
(*        + "NAME": the CHARACTERS of one attribute NAME (one character of the  *)
(*        per-site table ParserStruct.NameCharsAt inside / at the end / twice)   *)
(*        x delimiters x rest of the map x site; expected = the written name    *)
(*   "SEP" : the SEPARATOR CHARACTERS of the table grammar ( !! ! || |- |+ |} )  *)
(*        written inside an inline construct of a cell (link label / target,     *)
(*        template / parser-function / argument-reference argument, external-    *)
(*        link label, HTML element, bold / italic run, plain text) x position in  *)
(*        it x cell x header / data row x separator style x spacing; expected:    *)
(*        they belong to the construct, the grid stays 2x2 ("SEPT": full cross)   *)
(*   "FILE" : pages read from IOEnv.PAGES_FILE (random wider grids, V)        *)
(* Part/Parts split a universe over parallel TLC processes.                   *)
EXTENDS ParserStruct, Json, IOUtils

CONSTANTS Universe, Part, Parts, Known

TagsFromFile == JsonDeserialize(IOEnv.TAGS_FILE)

(* ---------------- constructors ---------------- *)
T(s) == [k |-> "t", s |-> s]
Tp(args) == [k |-> "T", args |-> args]
Pf(name, args) == [k |-> "P", name |-> name, args |-> args]
Ar(args) == [k |-> "A", args |-> args]
Lk(args, trail) == [k |-> "L", args |-> args, trail |-> trail]
Ex(url, text) == [k |-> "E", url |-> url, text |-> text]
It(c) == [k |-> "I", c |-> c]
Bo(c) == [k |-> "B", c |-> c]
Ht(tag, attrs, c) == [k |-> "H", tag |-> tag, attrs |-> attrs, c |-> c, void |-> FALSE]
Cell(kind, attrs, c) == [kind |-> kind, attrs |-> attrs, content |-> c]
Sty(sep, sp, q, first) == [sep |-> sep, sp |-> sp, q |-> q, first |-> first, hbar |-> FALSE]
W(a) == <<T(<<a>>)>>
Url1 == <<"http", ":", "/", "/", "e.x", "/", "p">>

(* ---------------- attribute maps (URL-safe names and values) ---------------- *)
\* index 0..2 = none / one / two.  Wikitext attribute positions accept any name
\* character; names inside HTML start tags are letters, digits, - _ . (the characters
\* MediaWiki's sanitizer accepts that are also URL-safe)
AM == << <<>>, <<Attr("id", "x1")>>, <<Attr("class", "a-b"), Attr("data_x", "v.1")>> >>
AMT == AM \o << <<Attr("hidden", "")>>, <<Attr("k.v", "x~y")>> >>
HM == << <<>>, <<Attr("id", "x1")>>, <<Attr("class", "a-b"), Attr("data-x", "v.1")>> >>
HMU == << <<Attr("data_x", "x~y")>>, <<Attr("k.v", "a_b"), Attr("id", "x-1")>> >>   \* names with _ and .
Quote == <<"dq", "none", "sq">>

(* ---------------- content catalogues ---------------- *)
Cat8 ==
  << W("w1"),
     <<T(<<"k", "=", "v1">>)>>,                                      \* text that looks like an attribute
     <<Tp(<<W("t"), <<T(<<"k", "=", "v1">>)>>>>)>>,                  \* {{t|k=v1}}
     <<Lk(<<W("l"), W("x1")>>, <<>>)>>,
     <<It(W("i1"))>>,
     <<Bo(W("b1"))>>,
     <<Ht("span", HM[2], W("h1"))>>,
     <<T(<<"p1", "SP">>), Tp(<<W("t"), <<T(<<"k", "=", "v1">>)>>>>), T(<<"SP", "q1">>)>> >>
Cat17 ==
  Cat8 \o
  << <<Lk(<<W("l")>>, <<"s">>), T(<<"SP", "w3">>)>>,
     <<Ex(Url1, W("u1"))>>,
     <<Pf(<<"#", "if">>, <<W("c1"), W("y1")>>)>>,
     <<It(<<T(<<"i1", "SP">>), Bo(W("b1")), T(<<"SP", "i2">>)>>)>>,
     <<Ht("span", HM[3], <<Tp(<<W("t"), W("a1")>>), T(<<"SP">>), Lk(<<W("l"), W("x1")>>, <<>>)>>)>>,
     <<>>,
     <<Ar(<<W("1"), W("d1")>>)>>,
     <<It(<<Lk(<<W("l"), W("x1")>>, <<>>)>>)>>,
     <<Tp(<<W("t"), W("a1")>>), T(<<"SP", "w1", "SP", "w2">>)>> >>

(* ---------------- grids ---------------- *)
KindAt(kp, i, j) ==
  CASE kp = 0 -> "data"
    [] kp = 1 -> "hdr"
    [] kp = 2 -> IF i = 1 THEN "hdr" ELSE "data"           \* header row
    [] kp = 3 -> IF j = 1 THEN "hdr" ELSE "data"           \* header column (mixed rows)
    [] kp = 4 -> IF (i + j) % 2 = 0 THEN "hdr" ELSE "data" \* chequered

\* x, y \in 0..2 index an orthogonal array OA(9, 4, 3, 2): columns x, y, x+y, x+2y
Grid(r, c, sep, sp, x, y, s, t, u, cat, am) ==
  LET N == Len(cat)
      ta == x
      ra == y
      ca == (x + y) % 3
      q == Quote[((x + 2 * y) % 3) + 1]
      kp == (s + x) % 5
      cp == (t + y) % 3
      first == (s + t + x) % 2 = 0
      AmAt(level, k) == IF level = 0 THEN <<>> ELSE IF level = 1 THEN am[((k % (Len(am) - 1)) + 2)] ELSE am[(k % Len(am)) + 1]
      ContentAt(i, j) == LET k == i * 5 + j IN cat[((s + t * k + u * k * k) % N) + 1]
      rows == [i \in 1..r |->
                 [rattrs |-> AmAt(ra, i),
                  cells |-> [j \in 1..c |-> Cell(KindAt(kp, i, j), AmAt(ca, i + j), ContentAt(i, j))]]]
  IN [k |-> "TB", tattrs |-> am[ta + 1], hascap |-> cp # 0, cattrs |-> IF cp = 2 THEN am[2] ELSE <<>>,
      caption |-> IF cp = 0 THEN <<>> ELSE cat[((s + t) % N) + 1],
      rows |-> rows, style |-> [Sty(sep, sp, q, first) EXCEPT !.hbar = (s + y) % 2 = 1]]

\* the parameter tuples of this Part (filtered before any grid is built)
Key(w) == w[1] + 3 * w[2] + 5 * w[5] + 7 * w[6] + 11 * w[7] + 13 * w[8] + (IF w[4] THEN 1 ELSE 0)
Params(n, seps, ss, ts) ==
  {w \in (1..n) \X (1..n) \X seps \X BOOLEAN \X (0..2) \X (0..2) \X ss \X ts : Key(w) % Parts = Part}
GridsQ(z) == { <<Grid(v[1], v[2], v[3], v[4], v[5], v[6], v[7], v[8], 0, Cat8, AM)>> :
               v \in Params(3, {"line", "inline"}, 0..7, {0, 1, 3, 5}) }
GridsT(z) == { <<Grid(v[1], v[2], v[3], v[4], v[5], v[6], v[7], v[8], u, Cat17, AMT)>> :
               v \in Params(4, {"line", "inline", "mixed"}, 0..16, {1, 2, 3, 5}), u \in 0..1 }
\* a grid inside running text / inside a cell of another table
Nested(z) == { <<T(<<"w0", "NL">>), g[1], T(<<"NL", "w9">>)>> : g \in { h \in GridsQ(z) : h[1].style.sp /\ Len(h[1].rows) = 2 } }
\* a 2x2 grid in a cell of a 1x2 grid
InCell(z) == { <<[k |-> "TB", tattrs |-> AM[2], hascap |-> FALSE, cattrs |-> <<>>, caption |-> <<>>,
                 rows |-> <<[rattrs |-> <<>>, cells |-> <<Cell("data", <<>>, <<T(<<"NL">>), g[1], T(<<"NL">>)>>), Cell("data", AM[2], W("w9"))>>]>>,
                 style |-> Sty("line", TRUE, "dq", TRUE)]>> :
               g \in { h \in GridsQ(z) : Len(h[1].rows) = 2 /\ Len(h[1].rows[1].cells) = 2 } }

(* ---------------- HTML elements ---------------- *)
PairedTags == {t \in DOMAIN Tags : ~Tags[t].noend}
SpanOK(t) == t \in PermittedParents("span")
ElContent(t, n) ==
  CASE n = 1 -> W("w1")
    [] n = 2 -> <<T(<<"w1", "SP">>), Tp(<<W("t"), W("a1")>>)>>
    [] n = 3 -> IF SpanOK(t) THEN <<T(<<"w1", "SP">>), Ht("span", HM[2], W("h1")), T(<<"SP", "w2">>)>>
                ELSE <<T(<<"w1", "NL", "w2">>)>>
Surround(n, item) ==
  CASE n = 1 -> <<item>>
    [] n = 2 -> <<T(<<"p1", "SP">>), item, T(<<"SP", "q1">>)>>
    [] n = 3 -> <<[k |-> "TB", tattrs |-> <<>>, hascap |-> FALSE, cattrs |-> <<>>, caption |-> <<>>,
                   rows |-> <<[rattrs |-> <<>>, cells |-> <<Cell("data", <<>>, <<item>>), Cell("data", <<>>, W("w9"))>>]>>,
                   style |-> Sty("line", TRUE, "dq", TRUE)]>>
ElMaps == HM \o HMU
Elements(z) == { Surround(v[3], Ht(t, ElMaps[v[1]], ElContent(t, v[2]))) :
                t \in PairedTags,
                v \in {w \in (1..Len(ElMaps)) \X (1..3) \X (1..3) : (w[1] * 9 + w[2] * 3 + w[3]) % Parts = Part} }

(* ---------------- written attributes: characters of a value x delimiters x site ---------------- *)
WA(n, w, q, eq) == [n |-> n, w |-> w, q |-> q, eq |-> eq]
OtherQuote(q) == IF q = "sq" THEN "\"" ELSE "'"
\* the characters of a quoted value; o = the quote character of the OTHER kind than its delimiters
QuotedShapes(o) ==
  << <<"w1">>,                                   \* a plain word (control)
     <<o, "w1", o>>,                             \* the other quote at both ends       "'w1'"
     <<"w1", o>>,                                \* ... at the end                     "w1'"
     <<o, "w1">>,                                \* ... at the start                   "'w1"
     <<"it", o, "s">>,                           \* ... inside                         "it's"
     <<o>>,                                      \* the value is that one character    "'"
     <<>>,                                       \* the empty value                    ""
     <<"the", "SP", "dogs", o>>,                 \* blank inside, quote at the end
     <<"k", "=", "v1">>,                         \* looks like an assignment
     <<"a1", ">", "b1">>,                        \* > inside quotes
     <<"a1", "&", "amp", ";", "b1">>,            \* an entity spelling
     <<"a-b", ":", "x~y", ";", "v.1">>,          \* URL punctuation
     <<o, "a1", o, "SP", o, "b1", o>> >>         \* two quoted words
UnquotedShapes == << <<"w1">>, <<"x~y">>, <<"a-b", ":", "x~y", ";", "v.1">> >>
\* the attribute under test: [i, special]
Specials(z) ==
  { <<i, WA("title", QuotedShapes(OtherQuote(q))[i], q, i % 2 = 0)>> : i \in 1..Len(QuotedShapes("'")), q \in {"dq", "sq"} }
  \cup { <<i, WA("title", UnquotedShapes[i], "none", i % 2 = 0)>> : i \in 1..Len(UnquotedShapes) }
\* the rest of the map
WithCompanion(sp, c) ==
  CASE c = 0 -> <<sp>>
    [] c = 1 -> <<Attr("id", "x1"), sp>>                                   \* written the way the table style says
    [] c = 2 -> <<sp, WA("class", <<"a-b">>, "none", FALSE)>>
    [] c = 3 -> <<sp, WA("lang", <<"it", "'", "s">>, "dq", TRUE)>>
    [] c = 4 -> <<WA("lang", <<"fi">>, "sq", FALSE), sp>>
TableSites == <<"table", "caption", "row1", "row2", "hdr1", "hdr2", "cell1", "cell2">>
AttrTable(site, m, sep, sp, k) ==
  LET At(s) == IF site = s THEN m ELSE <<>>
      hascap == site = "caption" \/ k % 3 = 0
  IN [k |-> "TB", tattrs |-> At("table"), hascap |-> hascap, cattrs |-> At("caption"),
      caption |-> IF hascap THEN W("c1") ELSE <<>>,
      rows |-> << [rattrs |-> At("row1"), cells |-> <<Cell("hdr", At("hdr1"), W("h1")), Cell("hdr", At("hdr2"), W("h2"))>>],
                  [rattrs |-> At("row2"), cells |-> <<Cell("data", At("cell1"), W("a1")), Cell("data", At("cell2"), W("b1"))>>] >>,
      style |-> [Sty(sep, sp, Quote[(k % 3) + 1], k % 2 = 0) EXCEPT !.hbar = k % 4 = 1]]
AttrTags == {"span", "div", "abbr"} \cap PairedTags
AttrFull == Universe = "ATTRT"
\* quick ("ATTR"): every value x delimiters at every site in both separator styles with two of the five
\* companions and one spacing, in every tag with every companion and one surrounding; thorough ("ATTRT"): the
\* full cross.  (parameter tuples are filtered before any page is built)
SKey(s) == s[1] + (IF s[2].q = "sq" THEN 1 ELSE 0)
KeepT(s, c, si, sp) == AttrFull \/ (c \in {(SKey(s) + si) % 5, (SKey(s) + si + 2) % 5} /\ sp = ((SKey(s) + si + c) % 2 = 0))
KeepH(s, c, t, sn) == AttrFull \/ sn = (IF t = "span" THEN ((SKey(s) + c) % 3) + 1 ELSE 1)
AttrPagesAll(z) ==
  { <<AttrTable(TableSites[v[3]], WithCompanion(v[1][2], v[2]), v[4], v[5], v[1][1] + v[2] + v[3])>> :
      v \in { w \in Specials(z) \X (0..4) \X (1..Len(TableSites)) \X {"line", "inline"} \X BOOLEAN :
               KeepT(w[1], w[2], w[3], w[5]) } }
  \cup { Surround(v[4], Ht(v[3], WithCompanion(v[1][2], v[2]), W("x1"))) :
      v \in { w \in Specials(z) \X (0..4) \X AttrTags \X (1..3) : KeepH(w[1], w[2], w[3], w[4]) } }
AttrPages(z) == { pg \in AttrPagesAll(z) : Admissible(pg) /\ Len(Render(pg)) % Parts = Part }

(* ---------------- written attributes: characters of a NAME x site x delimiters ---------------- *)
\* The name of the attribute under test is written character by character (ParserStruct.HasWrittenName): plain
\* words and ONE punctuation character ch of the site's table ParserStruct.NameCharsAt (start tags: - : _ . ;
\* table positions additionally ~ ; , ( ) ? @ + * $ % & #) - inside the name, at its end, twice - x the
\* delimiters of its value (" ' none, blanks around = by parity) x the rest of the map (alone / after a plain
\* attribute / before one) x the SITE (the eight table positions in both separator styles, start tags of span
\* div abbr).  Expected map = TreeOf = the written map: the name is everything in front of the '='.
\* Case.strict (UrlSafePage) is TRUE only for names over letters, digits, - . _ ~ :
WN(nw, w, q, eq) == [nw |-> nw, w |-> w, q |-> q, eq |-> eq]
NameShapes(ch) == << <<"d", ch, "1">>, <<"d1", ch>>, <<"a", ch, "b", ch, "c">> >>
NameQ == <<"dq", "sq", "none">>
NameValue(q) == IF q = "none" THEN <<"x~y">> ELSE <<"a-b", ":", "x~y">>
NameCompanion(sp, c) ==
  CASE c = 0 -> <<sp>>
    [] c = 1 -> <<Attr("id", "x1"), sp>>
    [] c = 2 -> <<sp, WA("class", <<"a-b">>, "none", FALSE)>>
\* characters in a fixed order (the thinning of the quick universe is by index)
TableNameCharSeq == <<"-", "_", ".", ":", "~", ";", ",", "(", ")", "?", "@", "+", "*", "$", "%", "&", "#">>
TagNameCharSeq == <<"-", "_", ".", ":">>
NameFull == Universe \in {"ATTRT", "NAMET"}
\* quick: the URL-safe characters (index <= 5) at every site x separator style x shape, every other character
\* inside the name at every site; delimiters, companion, spacing tied to the indices
NameKeepT(ci, sh, qi, c, si, sep, sp) ==
  (NameFull /\ sp = ((ci + sh + si + qi + c) % 2 = 0))      \* thorough: the full cross but the spacing
  \/ (/\ qi = ((ci + sh + si) % 3) + 1
               /\ c = (ci + si + (IF sep = "line" THEN 0 ELSE 1)) % 3
               /\ sp = ((ci + sh + si) % 2 = 0)
               /\ (ci <= 5 \/ (sh = 1 /\ sep = (IF (ci + si) % 2 = 0 THEN "line" ELSE "inline"))))
NameKeepH(ci, sh, qi, c, sn) == NameFull \/ (qi = ((ci + sh) % 3) + 1 /\ c = (ci + sh) % 3 /\ sn = ((ci + sh) % 3) + 1)
NameAttr(chs, ci, sh, qi) == WN(NameShapes(chs[ci])[sh], NameValue(NameQ[qi]), NameQ[qi], (ci + sh) % 2 = 0)
NamePagesAll(z) ==
  { <<AttrTable(TableSites[v[5]], NameCompanion(NameAttr(TableNameCharSeq, v[1], v[2], v[3]), v[4]), v[6], v[7], v[1] + v[2] + v[5])>> :
      v \in { w \in (1..Len(TableNameCharSeq)) \X (1..3) \X (1..3) \X (0..2) \X (1..Len(TableSites)) \X {"line", "inline"} \X BOOLEAN :
               NameKeepT(w[1], w[2], w[3], w[4], w[5], w[6], w[7]) } }
  \cup { Surround(v[6], Ht(v[5], NameCompanion(NameAttr(TagNameCharSeq, v[1], v[2], v[3]), v[4]), W("x1"))) :
      v \in { w \in (1..Len(TagNameCharSeq)) \X (1..3) \X (1..3) \X (0..2) \X AttrTags \X (1..3) :
               NameKeepH(w[1], w[2], w[3], w[4], w[6]) } }
NamePages(z) == { pg \in NamePagesAll(z) : Admissible(pg) /\ Len(Render(pg)) % Parts = Part }
\* the tables are what the universe runs over (a character of a table that is missing here is never tried)
ASSUME {TableNameCharSeq[i] : i \in 1..Len(TableNameCharSeq)} = TableNameChars
ASSUME {TagNameCharSeq[i] : i \in 1..Len(TagNameCharSeq)} = TagNameChars

(* ---------------- separator characters of the table grammar inside inline constructs ---------------- *)
\* The character sequences that separate the parts of a table ( !! ! || | |- |+ |} ) written INSIDE an inline
\* construct that sits in a cell of a 2x2 table: they belong to the construct (TreeOf: the grid stays 2x2, the
\* construct keeps its written argument lists / content).  Family BANG: ! and !! as characters of a text at the
\* end / in the middle / at the start of (1) a link label (2) a link target (3) a template argument (4) a named
\* template argument (5) the default of an argument reference (6) a parser-function argument (7) the label of an
\* external link (8) an inline HTML element (9) a bold run (10) an italic run (11) the plain text of the cell.
\* Family BAR: | followed by | - + } inside a call / link, where | separates arguments: an empty argument in the
\* middle ( || ), an argument that starts with - or + ( |- |+ ), an empty last argument ( |}} ).
\* x cell (first / second of the first row) x header / data row x one cell per line / separated inline (on a
\* header line by !! or by ||) x spaced / tight x alone in the cell / between words.
\* Not written structures (SepOK): on a header line MediaWiki's table grammar itself splits at a !! that is not
\* protected by brackets: bold / italic runs, plain text and HTML elements holding ! characters stand in data cells only.
BangShapes(b) == << <<"w1">> \o b, <<"w1">> \o b \o <<"w2">>, b \o <<"w1">> >>
Bangs == << <<"!", "!">>, <<"!">> >>
BangHolders == 11
BangHolder(c, w) ==
  LET x == <<T(w)>> IN
  CASE c = 1 -> Lk(<<W("l"), x>>, <<>>)
    [] c = 2 -> Lk(<<x>>, <<>>)
    [] c = 3 -> Tp(<<W("t"), x>>)
    [] c = 4 -> Tp(<<W("t"), <<T(<<"k", "=">> \o w)>>>>)
    [] c = 5 -> Ar(<<W("1"), x>>)
    [] c = 6 -> Pf(<<"#", "if">>, <<W("c1"), x>>)
    [] c = 7 -> Ex(Url1, x)
    [] c = 8 -> Ht("span", HM[2], x)
    [] c = 9 -> Bo(x)
    [] c = 10 -> It(x)
    [] c = 11 -> T(w)
BarArgs == << << <<>>, W("b1") >>, << <<T(<<"-", "b1">>)>> >>, << <<T(<<"+", "b1">>)>> >>, << <<>> >> >>
BarHolder(c, as) ==
  CASE c = 1 -> Lk(<<W("l")>> \o as, <<>>)
    [] c = 2 -> Tp(<<W("t")>> \o as)
    [] c = 3 -> Ar(<<W("1")>> \o as)
    [] c = 4 -> Pf(<<"#", "if">>, <<W("c1")>> \o as)
SepTable(item, sur, pos, hdr, sep, sp, hb) ==
  LET content == IF sur = 0 THEN <<item>> ELSE <<T(<<"p1", "SP">>), item, T(<<"SP", "q1">>)>>
      K == IF hdr THEN "hdr" ELSE "data"
  IN <<[k |-> "TB", tattrs |-> <<>>, hascap |-> FALSE, cattrs |-> <<>>, caption |-> <<>>,
        rows |-> << [rattrs |-> <<>>, cells |-> <<Cell(K, <<>>, IF pos = 1 THEN content ELSE W("a1")),
                                                  Cell(K, <<>>, IF pos = 2 THEN content ELSE W("b2"))>>],
                    [rattrs |-> <<>>, cells |-> <<Cell("data", <<>>, W("c1")), Cell("data", <<>>, W("d1"))>>] >>,
        style |-> [Sty(sep, sp, "dq", TRUE) EXCEPT !.hbar = hb]]>>
\* v = <<holder, bang / bar index, shape, surrounding, cell, header row, separator style, spaced, || on a header line>>
SepOK(fam, v) ==
  /\ v[9] => (v[6] /\ v[7] = "inline")                        \* one spelling of what does not exist
  /\ (fam = "bang" /\ v[1] >= 8) => ~v[6]                      \* unprotected ! characters: data cells only
  /\ (fam = "bar" /\ v[1] = 1) => v[2] # 4                     \* [[l|]] is the pipe trick, not an empty label
SepFull == Universe = "SEPT"
\* quick: spacing and surrounding tied to the other indices
SepKeep(v) == SepFull \/ (v[8] = ((v[1] + v[2] + v[3] + v[5]) % 2 = 0) /\ v[4] = (v[1] + v[3] + (IF v[6] THEN 1 ELSE 0)) % 2)
SepTuples(n, m, k) == { w \in (1..n) \X (1..m) \X (1..k) \X (0..1) \X (1..2) \X BOOLEAN \X {"line", "inline"} \X BOOLEAN \X BOOLEAN : SepKeep(w) }
SepPagesAll(z) ==
  { SepTable(BangHolder(v[1], BangShapes(Bangs[v[2]])[v[3]]), v[4], v[5], v[6], v[7], v[8], v[9]) :
      v \in { w \in SepTuples(BangHolders, 2, 3) : SepOK("bang", w) } }
  \cup { SepTable(BarHolder(v[1], BarArgs[v[2]]), v[4], v[5], v[6], v[7], v[8], v[9]) :
      v \in { w \in SepTuples(4, Len(BarArgs), 1) : SepOK("bar", w) } }
SepPages(z) == { pg \in SepPagesAll(z) : Admissible(pg) /\ Len(Render(pg)) % Parts = Part }

(* ---------------- calls and links ---------------- *)
ArgCat ==
  << W("a1"), <<T(<<"SP", "a1", "SP">>)>>, <<T(<<"k", "=", "v1">>)>>, <<>>,
     <<Tp(<<W("u"), W("b1")>>)>>, <<T(<<"a1", "NL", "a2">>)>>, <<Ar(<<W("1")>>)>>,
     <<T(<<"a1", "SP">>), Lk(<<W("l"), W("x1")>>, <<>>)>> >>
ArgLists(cat, lo, hi) == UNION { [1..n -> {cat[i] : i \in 1..Len(cat)}] : n \in lo..hi }
LinkText == << W("x1"), <<T(<<"x1", "SP", "y1">>)>>, <<It(W("i1"))>>, <<Tp(<<W("t"), W("a1")>>)>>, <<T(<<"thumb">>)>> >>
Calls(z) ==
  { Tp(<<W("t")>> \o as) : as \in ArgLists(ArgCat, 0, 3) }
  \cup { Ar(<<W("1")>> \o as) : as \in ArgLists(ArgCat, 0, 2) }
  \cup { Pf(<<"#", "if">>, as) : as \in ArgLists(ArgCat, 1, 2) }
  \cup { Pf(<<"lc">>, as) : as \in ArgLists(ArgCat, 1, 1) }
  \cup { Pf(<<"PAGENAME">>, <<>>) }
  \cup { Lk(<<tg>> \o as, tr) : tg \in {W("l"), <<T(<<"File", ":", "x.png">>)>>, <<T(<<"l", "SP", "m">>)>>},
                                 as \in ArgLists(LinkText, 0, 2), tr \in {<<>>, <<"s">>} }
  \cup { Ex(Url1, tx) : tx \in {<<>>, W("u1"), <<T(<<"u1", "SP", "u2">>)>>, <<It(W("i1"))>>, <<Tp(<<W("t"), W("a1")>>)>>} }
  \cup { Ex(<<"https", ":", "/", "/", "w.org">>, W("u1")) }
\* calls written over several lines: an argument that ends with a nested call / link and a line break,
\* followed by an argument whose text would mean something at the start of a line
MLFirst == << <<Tp(<<W("u"), W("b1")>>), T(<<"NL">>)>>, <<Lk(<<W("l"), W("x1")>>, <<>>), T(<<"NL">>)>>,
              <<T(<<"k", "=">>), Tp(<<W("u"), W("b1")>>), T(<<"NL">>)>>, <<T(<<"a1", "NL">>)>>,
              <<Tp(<<W("u"), <<Tp(<<W("v"), W("c1")>>)>>>>), T(<<"NL">>)>> >>
MLNext == << <<T(<<"*", "SP", "a1">>)>>, <<T(<<"SP", "c1">>)>>, <<T(<<":", "a1">>)>>, <<T(<<"p", "=", "y1">>)>>, <<T(<<"#", "a1">>)>>, <<T(<<";", "a1">>)>> >>
MLCalls(z) ==
  { Tp(<<W("t"), MLFirst[i], MLNext[j]>>) : i \in 1..Len(MLFirst), j \in 1..Len(MLNext) }
  \cup { Tp(<<W("t"), W("a0"), MLFirst[i], MLNext[j]>>) : i \in 1..Len(MLFirst), j \in 1..Len(MLNext) }
  \cup { Pf(<<"#", "if">>, <<MLFirst[i], MLNext[j]>>) : i \in 1..Len(MLFirst), j \in 1..Len(MLNext) }
  \cup { Lk(<<<<T(<<"File", ":", "x.png">>)>>, MLFirst[i], MLNext[j]>>, <<>>) : i \in {1, 4, 5}, j \in 1..Len(MLNext) }
CallPages(z) == { pg \in { Surround(sn, cl) : cl \in Calls(z) \cup MLCalls(z), sn \in 1..3 } : Len(Render(pg)) % Parts = Part }

(* ---------------- co-occurrence and page histories ---------------- *)
\* Families of constructs of ONE kind that some normalisation makes equal although they are
\* written differently.  Each member must parse to its own written argument lists whatever
\* else the page holds or held (the cookie table is state of the page, see ParserStruct).
NLt == T(<<"NL">>)
SPt == T(<<"SP">>)
\* layouts of one argument
Lay(c, v) ==
  CASE v = "=" -> c
    [] v = "nl>" -> c \o <<NLt>>
    [] v = "<nl" -> <<NLt>> \o c
    [] v = "sp>" -> c \o <<SPt>>
    [] v = "<sp" -> <<SPt>> \o c
\* args = <<name, a, b>>; `nm` = may the name carry a line break (not in [[ ]])
LayoutFamily(Mk(_), args, nm) ==
  LET n == args[1]  a == args[2]  b == args[3] IN
  << Mk(<<n, a, b>>),                                                              \* one line
     Mk(<<IF nm THEN Lay(n, "nl>") ELSE n, Lay(a, "nl>"), Lay(b, "nl>")>>),         \* one argument per line
     Mk(<<n, Lay(a, "<nl"), Lay(b, "<nl")>>),                                      \* line break after each |
     Mk(<<n, a, Lay(b, "nl>")>>),                                                  \* closing brackets on their own line
     Mk(<<Lay(n, "sp>"), Lay(a, "sp>"), Lay(b, "sp>")>>),                          \* blank before each |
     Mk(<<n, Lay(a, "<sp"), Lay(b, "<sp")>>),                                      \* blank after each |
     Mk(<<n, b, a>>),                                                              \* argument order
     Mk(<<n, a, b, <<>>>>),                                                        \* an empty last argument
     Mk(<<n, a>>) >>                                                               \* a prefix
MkT(as) == Tp(as)
MkA(as) == Ar(as)
MkL(as) == Lk(as, <<>>)
MkP(as) == Pf(<<"#", "if">>, as)
LayoutFamilies(z) ==
  { LayoutFamily(MkT, <<W("t"), W("a1"), W("b1")>>, TRUE),
    LayoutFamily(MkA, <<W("1"), W("a1"), W("b1")>>, TRUE),
    LayoutFamily(MkL, <<W("l"), W("a1"), W("b1")>>, FALSE),
    LayoutFamily(MkP, <<W("c1"), W("a1"), W("b1")>>, FALSE) }
SpellingFamilies(z) ==
  { \* spelling of the name: case, underscore / blank
    << Tp(<<W("t"), W("a1")>>), Tp(<<W("T"), W("a1")>>), Tp(<<<<T(<<"t", "SP">>)>>, W("a1")>>) >>,
    << Tp(<<W("a_b"), W("x1")>>), Tp(<<<<T(<<"a", "SP", "b">>)>>, W("x1")>>), Tp(<<<<T(<<"A", "SP", "b">>)>>, W("x1")>>) >>,
    << Lk(<<W("a_b"), W("x1")>>, <<>>), Lk(<<<<T(<<"a", "SP", "b">>)>>, W("x1")>>, <<>>),
       Lk(<<<<T(<<"A", "SP", "b">>)>>, W("x1")>>, <<>>), Lk(<<W("a_b"), W("X1")>>, <<>>) >>,
    \* entity spellings of one character
    << Tp(<<W("t"), <<T(<<"a1", "&", "b1">>)>>>>), Tp(<<W("t"), <<T(<<"a1", "&", "amp", ";", "b1">>)>>>>),
       Tp(<<W("t"), <<T(<<"a1", "&", "#", "38", ";", "b1">>)>>>>) >>,
    \* named arguments: order, blanks around =
    << Tp(<<W("t"), <<T(<<"k", "=", "v1">>)>>, <<T(<<"p", "=", "y1">>)>>>>),
       Tp(<<W("t"), <<T(<<"p", "=", "y1">>)>>, <<T(<<"k", "=", "v1">>)>>>>),
       Tp(<<W("t"), <<T(<<"k", "SP", "=", "SP", "v1">>)>>, <<T(<<"p", "=", "y1">>)>>>>) >>,
    \* blanks / line breaks inside an argument
    << Tp(<<W("t"), <<T(<<"a1", "SP", "a2">>)>>>>), Tp(<<W("t"), <<T(<<"a1", "NL", "a2">>)>>>>),
       Tp(<<W("t"), <<T(<<"a1", "SP", "SP", "a2">>)>>>>), Tp(<<W("t"), W("a1a2")>>) >>,
    \* a nested call / link that differs by a line break: inside it, after it
    << Tp(<<W("t"), <<Tp(<<W("u"), W("b1")>>)>>>>), Tp(<<W("t"), <<Tp(<<W("u"), <<T(<<"b1", "NL">>)>>>>)>>>>),
       Tp(<<W("t"), <<Tp(<<W("u"), W("b1")>>), NLt>>>>), Tp(<<W("t"), <<Lk(<<W("u"), W("b1")>>, <<>>)>>>>),
       Tp(<<W("t"), <<Lk(<<W("u"), <<T(<<"NL", "b1">>)>>>>, <<>>)>>>>) >>,
    \* external links: blanks, case, word order
    << Ex(Url1, W("u1")), Ex(Url1, <<T(<<"u1", "SP">>)>>), Ex(Url1, W("U1")), Ex(Url1, <<T(<<"u1", "SP", "u2">>)>>),
       Ex(Url1, <<T(<<"u2", "SP", "u1">>)>>), Ex(<<"http", ":", "/", "/", "e.x", "/", "P">>, W("u1")) >>,
    \* the same argument list in different brackets
    << Tp(<<W("t"), W("a1")>>), Ar(<<W("t"), W("a1")>>), Lk(<<W("t"), W("a1")>>, <<>>) >> }
OrdPairs(f) == { <<f[w[1]], f[w[2]]>> : w \in { v \in (1..Len(f)) \X (1..Len(f)) : v[1] # v[2] } }
\* triples over the first three members (the line-break layouts) of the layout families;
\* over all members in the wide universes "PAIRT" / "HISTT" (thorough tier)
Wide == Universe \in {"PAIRT", "HISTT"}
Triples(f) == LET I == 1..(IF Wide THEN Len(f) ELSE 3) IN
              { <<f[w[1]], f[w[2]], f[w[3]]>> : w \in { v \in I \X I \X I : v[1] # v[2] /\ v[2] # v[3] } }
Tuples(z) == UNION ({ OrdPairs(f) \cup Triples(f) : f \in LayoutFamilies(z) } \cup { OrdPairs(f) : f \in SpellingFamilies(z) })
\* the constructs of a tuple on one page: in running text, as paragraphs, one per table cell
RECURSIVE Joined(_, _)
Joined(tp, sep) == IF Len(tp) = 1 THEN <<tp[1]>> ELSE <<tp[1], T(sep)>> \o Joined(Tail(tp), sep)
Together(tp, lay) ==
  CASE lay = 1 -> Joined(tp, <<"SP">>)
    [] lay = 2 -> <<T(<<"p1", "SP">>)>> \o Joined(tp, <<"NL", "NL">>) \o <<T(<<"SP", "q1">>)>>
    [] lay = 3 -> <<[k |-> "TB", tattrs |-> <<>>, hascap |-> FALSE, cattrs |-> <<>>, caption |-> <<>>,
                    rows |-> [i \in 1..Len(tp) |-> [rattrs |-> <<>>, cells |-> <<Cell("data", <<>>, <<tp[i]>>)>>]],
                    style |-> Sty("line", TRUE, "dq", TRUE)]>>
PairPages(z) == { pg \in { Together(tp, lay) : tp \in Tuples(z), lay \in 1..3 } : Len(Render(pg)) % Parts = Part }
\* histories on one page: start_page(), then the steps in order
Step(op, pg) == [op |-> op, page |-> pg]
HistOf(tp, h) ==
  CASE h = 1 -> [i \in 1..Len(tp) |-> Step("parse", <<tp[i]>>)]                         \* one parse() per construct
    [] h = 2 -> [i \in 1..Len(tp) |-> Step(IF i = Len(tp) THEN "parse" ELSE "expand", <<tp[i]>>)]   \* expand() ... then parse()
    [] h = 3 -> <<Step("parse", Joined(tp, <<"SP">>)), Step("parse", <<tp[Len(tp)]>>), Step("parse", <<tp[1]>>)>>
Histories(z) == { hs \in { HistOf(tp, h) : tp \in Tuples(z), h \in 1..3 } :
                  (Len(Render(hs[1].page)) + Len(Render(hs[Len(hs)].page))) % Parts = Part }

(* ---------------- the universe ---------------- *)
\* (the universes take a dummy parameter: TLC evaluates every parameterless constant
\* definition at start-up, which would build all of them in every run)
FilePages(z) == LET raw == JsonDeserialize(IOEnv.PAGES_FILE) IN {raw[i] : i \in {k \in 1..Len(raw) : k % Parts = Part}}
Pages ==
  CASE Universe = "GQ" -> GridsQ(0)
    [] Universe = "GT" -> GridsT(0)
    [] Universe = "NEST" -> Nested(0) \cup InCell(0)
    [] Universe = "EL" -> Elements(0)
    [] Universe = "CALL" -> CallPages(0)
    [] Universe \in {"PAIR", "PAIRT"} -> PairPages(0)
    [] Universe \in {"HIST", "HISTT"} -> Histories(0)      \* here `page` is a history: Seq([op, page])
    [] Universe \in {"ATTR", "ATTRT"} -> AttrPages(0) \cup NamePages(0)
    [] Universe \in {"NAME", "NAMET"} -> NamePages(0)          \* the name family alone
    [] Universe \in {"SEP", "SEPT"} -> SepPages(0)
    [] Universe = "FILE" -> FilePages(0)

\* `done` only keeps TLC from evaluating the invariant twice per structure
VARIABLES page, done
Init == page \in Pages /\ done = FALSE
Next == ~done /\ done' = TRUE /\ UNCHANGED page
Spec == Init /\ [][Next]_<<page, done>>

\* one evaluation of the machine per structure; r0 = ideal run, r = as-is run
LawOf(r0) == /\ Admissible(page)
             /\ ~r0.oof
             /\ Equiv(r0.stack[1], TreeOf(page))
\* strict = the page is inside the statement's quantifier (URL-safe attribute values): a disagreement
\* of the real parser is a VIOLATION; otherwise the model predicts more than the statement says (DRIFT)
Case(a, r, law) == [page |-> page, text |-> a, mt |-> r.stack[1], cov |-> r.cov, law |-> law, strict |-> UrlSafePage(page)]
GenInv ==
  done \/ LET a == Render(page)
               r0 == Run(a, {})
               r == IF Known = {} THEN r0 ELSE Run(a, Known)
           IN LawOf(r0) /\ PrintT(<<"CASE", ToJson(Case(a, r, TRUE))>>)
\* FILE universe: pages come from outside; inadmissible ones are skipped, the law is
\* reported instead of asserted
GenInvF ==
  done \/ LET a == Render(page)
               r0 == Run(a, {})
               r == IF Known = {} THEN r0 ELSE Run(a, Known)
           IN IF Admissible(page) THEN PrintT(<<"CASE", ToJson(Case(a, r, LawOf(r0)))>>)
              ELSE PrintT(<<"SKIP", ToJson([text |-> a])>>)
\* HIST universe: `page` is a history.  Law (independence of constructs): every parse() of the
\* history has the written structure of its own text, and the tree the machine builds is the
\* tree it builds for that text on a fresh page - whatever was parsed / expanded before.
RECURSIVE HistRun(_, _, _, _)
HistRun(steps, i, tab, Dev) ==
  IF i > Len(steps) THEN <<>>
  ELSE LET a == Render(steps[i].page) IN
       IF steps[i].op = "parse"
       THEN LET r == RunFrom(tab, a, Dev) IN
            <<[op |-> "parse", page |-> steps[i].page, text |-> a, r |-> r]>> \o HistRun(steps, i + 1, r.tab, Dev)
       ELSE <<[op |-> "expand", page |-> steps[i].page, text |-> a, r |-> Run(<<>>, {})]>>
              \o HistRun(steps, i + 1, TabAfterExpand(tab, a, Dev), Dev)
HistLaw(rs) ==
  \A i \in 1..Len(rs) :
     /\ Admissible(rs[i].page)
     /\ rs[i].op = "parse" =>
          /\ ~rs[i].r.oof
          /\ Equiv(rs[i].r.stack[1], TreeOf(rs[i].page))
          /\ rs[i].r.stack[1] = Run(rs[i].text, {}).stack[1]
HCase(rs) == [steps |-> [i \in 1..Len(rs) |-> [op |-> rs[i].op, page |-> rs[i].page, text |-> rs[i].text,
                                                mt |-> rs[i].r.stack[1], cov |-> rs[i].r.cov]]]
GenInvH ==
  done \/ LET rs0 == HistRun(page, 1, <<>>, {})
               rs == IF Known = {} THEN rs0 ELSE HistRun(page, 1, <<>>, Known)
           IN HistLaw(rs0) /\ PrintT(<<"HCASE", ToJson(HCase(rs))>>)
\* Demo: with a cookie key that is not injective (what-if switches of ParserStruct) a construct is
\* decoded with the arguments of a nearly equal one: TLC finds the page / the history
DemoKey(dev) ==
  done \/ IF Universe \in {"HIST", "HISTT"} THEN HistLaw(HistRun(page, 1, <<>>, dev))
          ELSE Equiv(Run(Render(page), dev).stack[1], TreeOf(page))
DemoKeyLineBreaks == DemoKey({"KeyDropsEdgeLineBreaks"})
DemoKeyTrims == DemoKey({"KeyTrimsArguments"})
DemoKeyKind == DemoKey({"KeyIgnoresKind"})
\* Demo: a parse_attrs that takes the delimiters off a quoted value in a way that agrees with "drop the
\* first and the last character" on every value made of letters (what-if switches of ParserStruct): TLC finds
\* the written attribute whose value it shortens (universe "ATTR")
DemoAttr(dev) == done \/ Equiv(Run(Render(page), dev).stack[1], TreeOf(page))
DemoAttrGreedy == DemoAttr({"QuotesStrippedGreedily"})
DemoAttrEverywhere == DemoAttr({"QuotesRemovedEverywhere"})
DemoAttrAnyQuote == DemoAttr({"ValueEndsAtAnyQuote"})
\* ... and a parse_attrs whose NAME class is the positive class of start tags: TLC finds the table position
\* whose written name it cuts (universe "NAME")
DemoAttrNameClass == DemoAttr({"NameClassOfStartTags"})
\* Demo: with the found behaviour of table_hdr_cell_fn (a !! inside an argument reference / parser function, inside a
\* bold / italic run of a data cell ends the construct) TLC finds the table of universe "SEP" that loses its grid
DemoHdrSepCall == DemoAttr({"HdrSepEndsCall"})
DemoHdrSepFormat == DemoAttr({"HdrSepEndsFormat"})
\* Demo: with the found behaviour of table_cell_fn the law fails (a caption followed by a data cell)
DemoAsIs == done \/ Equiv(Run(Render(page), AllParserDevs).stack[1], TreeOf(page))
=============================================================================
