SPECIFICATION Spec
CONSTANTS
  MaxTail = 2
  MaxTailWide = 2
  Variant = "NoMergeBeforeLabel"
INVARIANT DemoOK
CHECK_DEADLOCK FALSE
