SPECIFICATION TreeSpec
CONSTANTS
  Dev <- DevIdeal
  Lits <- LitsQ
  Lits2 <- LitsTwo
  UnOps <- UnExact
  BinOps <- BinAll
  Families <- FamTies
  SoupAlphabet <- SoupSmall
  MaxSoup = 0
INVARIANT EmitTie
INVARIANT LadderComputesFold
INVARIANT ReferenceComputesFold
INVARIANT RoundIsNearestAwayFromZero
CHECK_DEADLOCK FALSE
