SPECIFICATION TreeSpec
CONSTANTS
  Dev <- DevIdeal
  Lits <- LitsQ
  Lits2 <- LitsTwo
  UnOps <- UnExact
  BinOps <- BinAll
  Families <- FamTiesSpell
  SoupAlphabet <- SoupSmall
  MaxSoup = 0
INVARIANT EmitTie
INVARIANT LadderComputesFold
INVARIANT ReferenceComputesFold
INVARIANT RoundIsNearestAwayFromZero
INVARIANT SpellingsDenoteTheirNumber
INVARIANT ValueIndependentOfSpelling
CHECK_DEADLOCK FALSE
