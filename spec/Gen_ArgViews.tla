--------------------------- MODULE Gen_ArgViews ---------------------------
(* All argument lists up to MaxLen over a 13-form alphabet of written        *)
(* arguments; TLC checks that the three transcribed views equal the          *)
(* reference ArgMap (ideal design) and prints the map each view must show.   *)
EXTENDS Naturals, Sequences, FiniteSets, TLC, Json, SequencesExt, IOUtils

CONSTANTS MaxLen, Known
NoDev == {}
LuaDevs == {"LuaPositionalRenumbering", "LuaNumericNameClampedTo1000", "LuaPositionalFinalNewlineDropped"}
KnownC14 == {"LuaNumericNameClampedTo1000", "LuaPositionalFinalNewlineDropped", "NodeViewDropsBlankOnlyLines"}

Ideal == INSTANCE ArgViews WITH Dev <- NoDev
AsIs == INSTANCE ArgViews WITH Dev <- Known
Old == INSTANCE ArgViews WITH Dev <- LuaDevs

Forms ==
  { <<"v">>, <<"SP", "v", "SP">>, <<"NL", "w">>, <<"u", "NL">>,                       \* positional
    <<"x", "=", "a">>, <<"SP", "x", "SP", "=", "SP", "b", "SP">>, <<"y", "=", "NL", "c", "NL">>,
    <<"z", "=", "d", "SP", "e">>,                                                       \* named
    <<"1", "=", "f">>, <<"2", "=", "g">>, <<"SP", "3", "SP", "=", "SP", "h">>,           \* numeric names
    <<"0", "1", "=", "i">>,                                                             \* zero-led numeric name
    <<"q", "=", "j", "=", "k">>,                                                        \* '=' inside the value
    <<"1", "0", "0", "1", "=", "m">>,                                                   \* numeric name > 1000
    <<"r", "=", "n", "NL", "o">>, <<"4", "=", "p", "NL", "q">>, <<"s", "NL", "t">>,     \* a line break inside a value
    <<"0", "=", "a0">>, <<"-", "1", "=", "a1">>, <<"1", ".", "5", "=", "a2">>,
    <<"2", "=", "b", "SP">>, <<"1", "=", "SP", "c", "NL">>, <<"x", "=", "d", "NL">>,
    <<"a", "NL", "SP", "NL", "b">>, <<"SP", "NL", "c">>, <<"d", "NL", "SP">>,                               \* a line of blanks only inside / at the edge of a value
    <<"n", "=", "e", "NL", "SP", "SP", "NL", "f">>,
    \* characters inside a NAME that some normalisation might fold: underscore, hyphen, dot, upper case, inner blank
    <<"a", "_", "b", "=", "x1">>, <<"SP", "l", "_", "1", "SP", "=", "SP", "y1">>, <<"A", "-", "b", ".", "c", "=", "x2">>,
    <<"k", "SP", "m", "=", "x3">> }                      \* blanks AFTER the value of a (numeric-)named argument         \* names a number parser accepts but that are no positive integers: strings

\* a reduced alphabet for the deeper bound (one form of every kind, the ones whose interaction matters:
\* positionals with and without blanks, a named one, numeric names 1..3 in both spellings, a name > 1000)
FormsR ==
  { <<"v">>, <<"SP", "v", "SP">>, <<"u", "NL">>, <<"x", "=", "a">>, <<"y", "=", "NL", "c", "NL">>,
    <<"1", "=", "f">>, <<"2", "=", "g">>, <<"SP", "3", "SP", "=", "SP", "h">>, <<"0", "1", "=", "i">>,
    <<"1", "0", "0", "1", "=", "m">>, <<"0", "=", "a0">>, <<"2", "=", "b", "SP">> }

\* lists of four arguments leave out the name-character forms (kept for lengths up to 3: the universe would triple)
NameCharForms == { <<"a", "_", "b", "=", "x1">>, <<"SP", "l", "_", "1", "SP", "=", "SP", "y1">>, <<"A", "-", "b", ".", "c", "=", "x2">>,
                   <<"k", "SP", "m", "=", "x3">> }
Lists == UNION { [1..n -> IF n <= 3 THEN Forms ELSE Forms \ NameCharForms] : n \in 0..MaxLen }
ListsR == { l \in [1..5 -> FormsR] : TRUE }

VARIABLE args
Init == args \in {l \in Lists : Ideal!Admissible(l)}
Next == UNCHANGED args
Spec == Init /\ [][Next]_args
\* deeper bound: every list of exactly five arguments over the reduced alphabet
InitR == args \in {l \in ListsR : Ideal!Admissible(l)}
SpecR == InitR /\ [][Next]_args
\* V direction: lists supplied in a file (only the admissible ones are cases)
FileLists == LET raw == JsonDeserialize(IOEnv.LIST_FILE) IN {raw[i] : i \in 1..Len(raw)}
InitF == args \in {l \in FileLists : Ideal!Admissible(l)}
SpecF == InitF /\ [][Next]_args

AsSeq(m) == SetToSeq(m)
Laws == Ideal!ViewsAgree(args)
\* Demo: the earlier Lua frame construction disagrees with the reference
DemoLua == Old!ViewLua(args) = Old!ArgMap(args)
Emit == PrintT(<<"CASE", ToJson([args |-> args, map |-> AsSeq(Ideal!ArgMap(args)),
                                 lua_asis |-> AsSeq(AsIs!ViewLua(args)), node_asis |-> AsSeq(AsIs!ViewNode(args))])>>)
GenInv == Laws /\ Emit
=============================================================================
