--------------------------- MODULE Ingest ---------------------------
(* Dump ingestion of wikitextprocessor (dumpparser.py: parse_dump_xml,        *)
(* add_default_templates as called by process_dump; core.py: add_page,        *)
(* _template_to_body) over the page store of PageStore.tla.                   *)
(*                                                                            *)
(* A dump is a sequence of pages                                              *)
(*    [title, ns, model, red, body, inc]                                      *)
(* title - the <title> (atoms; the namespace's canonical prefix atom first    *)
(*         for ns # 0, as MediaWiki writes dumps; "/documentation" and        *)
(*         "/testcases" occur only as atoms of their own)                     *)
(* red   - NoRedirect or the <redirect title=..> attribute (atoms): optional   *)
(*         ":" atom (leading colon), optional namespace-prefix atom (any      *)
(*         spelling of DOMAIN PfxNs), base atoms (underscore = "US" or "_",   *)
(*         space = "SP" or " "), optional "#" atom followed by the fragment;  *)
(*         recorded traces put the marker atom "=>" first.  The target is     *)
(*         independent of the page's own namespace: a page of any namespace   *)
(*         may point to the main namespace (no prefix), to its own or another *)
(*         namespace, to another redirect (chains) or to itself               *)
(* body  - identifier of the <text> (the concrete text lives in the harness;  *)
(*         equality of identifiers = byte equality of texts)                  *)
(* inc   - identifier of the includable part of that text                     *)
(* A site is the pair (TplNs, Defaults) taken from the language data.         *)
EXTENDS PageStore

CONSTANTS
  TplNs,      \* id of the template namespace
  Defaults,   \* sequence of [title, body]: the default helper templates
  OkModels    \* content models that are kept

NullBody == "NULL"    \* body IS NULL (redirect pages)
DPage(title, ns, model, red, body, inc) ==
  [title |-> title, ns |-> ns, model |-> model, red |-> red, body |-> body, inc |-> inc]

HasAtom(t, a) == \E k \in 1..Len(t) : t[k] = a
LastAtom(t) == IF Len(t) = 0 THEN "" ELSE t[Len(t)]

(* ------------------------------------------------------------------ *)
(* the filter of parse_dump_xml (dumpparser.py:55-80)                  *)
(* ------------------------------------------------------------------ *)
\* title.endswith("/documentation") or "/testcases" in title
CodeExcluded(t) == LastAtom(t) = "/documentation" \/ HasAtom(t, "/testcases")
Selected(p, sel) ==
  /\ p.ns \in sel
  /\ ~CodeExcluded(p.title)
  /\ (p.red # NoRedirect \/ p.model \in OkModels)

\* what the statement says without doubt: the subpage called documentation/testcases
StmtExcluded(t) == LastAtom(t) \in {"/documentation", "/testcases"}
\* pages on which the statement can be read both ways (deeper subpages of a
\* documentation/testcases page, names merely starting with "testcases", redirects
\* with another content model): the model follows the code there, a difference is
\* drift, not a violation
Ambiguous(p) ==
  \/ CodeExcluded(p.title) # StmtExcluded(p.title)
  \/ (HasAtom(p.title, "/documentation") /\ LastAtom(p.title) # "/documentation")
  \/ (p.red # NoRedirect /\ p.model \notin OkModels)
AmbiguousDump(d) == \E k \in 1..Len(d) : Ambiguous(d[k])
\* the (title, ns) keys such pages would be stored under; a difference between an
\* observed store and Expected is attributed to the ambiguity only if it is confined
\* to rows with these keys
AmbKeys(d) == {[title |-> d[k].title, ns |-> d[k].ns] : k \in {i \in 1..Len(d) : Ambiguous(d[i])}}
OnlyAmbiguousRows(d, rows) == \A r \in rows : [title |-> r.title, ns |-> r.ns] \in AmbKeys(d)
Unambiguous(d, rows) == {r \in rows : [title |-> r.title, ns |-> r.ns] \notin AmbKeys(d)}

(* ------------------------------------------------------------------ *)
(* redirect targets: what a written target denotes, the form MediaWiki *)
(* exports it in, and its other spellings                              *)
(* ------------------------------------------------------------------ *)
RedMark == "=>"
RedAtoms(r) == IF StartsWith(r, RedMark) THEN Tail(r) ELSE r
Marked(r, s) == IF StartsWith(r, RedMark) THEN <<RedMark>> \o s ELSE s
Uncolon(a) == IF StartsWith(a, ":") THEN Tail(a) ELSE a
HasPfx(a) == Len(a) > 0 /\ IsPfx(a[1])
Unprefix(a) == IF HasPfx(a) THEN Tail(a) ELSE a
FragPos(a) == IF \E k \in 1..Len(a) : a[k] = "#"
              THEN CHOOSE k \in 1..Len(a) : a[k] = "#" /\ \A j \in 1..(k - 1) : a[j] # "#"
              ELSE Len(a) + 1
Unspace(a) == [i \in 1..Len(a) |-> IF a[i] = "US" THEN "SP" ELSE IF a[i] = "_" THEN " " ELSE a[i]]
\* the page (and section) a written target denotes: no prefix = main namespace,
\* whatever the namespace of the redirecting page is
Denote(r) ==
  LET a1 == Uncolon(RedAtoms(r))
      a2 == Unprefix(a1)
      fp == FragPos(a2)
  IN [ns |-> IF HasPfx(a1) THEN PfxNs[a1[1]] ELSE 0,
      base |-> Unspace(SubSeq(a2, 1, fp - 1)),
      frag |-> SubSeq(a2, fp, Len(a2))]
\* the spelling a MediaWiki export uses: canonical prefix, spaces, no leading colon,
\* no fragment.  For these the statement's "redirect target" is the written string.
CanonicalTarget(r) ==
  LET a == RedAtoms(r) IN
  /\ ~StartsWith(a, ":")
  /\ \A k \in 1..Len(a) : a[k] \notin {"US", "_", "#"}
  /\ HasPfx(a) => (HasCanon(PfxNs[a[1]]) /\ a[1] = CanonPfx[NsKey(PfxNs[a[1]])])
\* all spellings of the page a target denotes (prefix spelled any way, with/without
\* leading colon, underscores or spaces, with/without the fragment).  A target that is
\* NOT written canonically may be stored in any of these without contradicting the
\* statement (drift); any other stored value names another page.
PfxSpellings(ns) == IF ns = 0 THEN {<<>>} ELSE {<<x>> : x \in {y \in DOMAIN PfxNs : PfxNs[y] = ns}}
AltSpellings(r) ==
  LET d == Denote(r)
      a2 == Unprefix(Uncolon(RedAtoms(r)))
      raw == SubSeq(a2, 1, FragPos(a2) - 1)
  IN {Marked(r, c \o p \o b \o f) :
        c \in {<<>>, <<":">>}, p \in PfxSpellings(d.ns), b \in {raw, d.base}, f \in {<<>>, d.frag}}
\* two stores that differ only in redirect targets
RedirectOnlyDiff(exp, obs) ==
  /\ exp # obs
  /\ \A r \in exp \ obs : \E u \in obs \ exp : u = [r EXCEPT !.redirect = u.redirect]
  /\ \A u \in obs \ exp : \E r \in exp \ obs : u = [r EXCEPT !.redirect = u.redirect]
\* ... and every difference is another spelling of a target not written canonically
RespelledOnly(exp, obs) ==
  /\ RedirectOnlyDiff(exp, obs)
  /\ \A r \in exp \ obs :
       /\ r.redirect # NoRedirect /\ ~CanonicalTarget(r.redirect)
       /\ \A u \in obs \ exp : u = [r EXCEPT !.redirect = u.redirect] => u.redirect \in AltSpellings(r.redirect)
\* the rows whose target may be respelled, with the admissible spellings
SoftRedirects(S) ==
  {[title |-> r.title, ns |-> r.ns, alts |-> AltSpellings(r.redirect)] :
     r \in {x \in S : x.redirect # NoRedirect /\ ~CanonicalTarget(x.redirect)}}

\* the redirect target add_page stores: the written one.  Hypothetical deviation used
\* as vacuity guard (Demo_Ingest_red): the target is normalised like a title
StoredRed(p) == IF p.red # NoRedirect /\ "RedirectTreatedAsTitle" \in Dev
                THEN NormAdd(p.red, p.ns) ELSE p.red

\* the text that is stored for a page.  Whether a page is a template is a matter of its
\* NAMESPACE, never of the text of its title: a page of the talk namespace of the templates
\* ("Template talk:Zed"), a main-namespace entry called "Template" / "Templates" / "Templatex",
\* "Appendix:Templates", "Module:Template" keep their text as written.  Hypothetical deviation
\* used as vacuity guard (Demo_Ingest_names): the pages of the talk namespace (id + 1, its
\* name extends the subject namespace's name) are reduced like templates
ReducedOnStoring(p) ==
  \/ p.ns = TplNs
  \/ ("TalkReducedLikeSubject" \in Dev /\ p.ns = TplNs + 1)
StoredBody(p) == IF p.red # NoRedirect THEN NullBody
                 ELSE IF ReducedOnStoring(p) THEN p.inc ELSE p.body

(* ------------------------------------------------------------------ *)
(* reference: what the property demands                               *)
(* ------------------------------------------------------------------ *)
\* each selected page under its own title, the last of several pages with the same
\* (title, namespace) being the one that stays
ExpectedRow(p) == Row(p.title, p.ns, p.red, StoredBody(p), p.model)
SelIdx(d, sel) == {k \in 1..Len(d) : Selected(d[k], sel)}
SameKey(p, q) == p.title = q.title /\ p.ns = q.ns
ExpectedDump(d, sel) ==
  {ExpectedRow(d[k]) : k \in {i \in SelIdx(d, sel) :
                               \A j \in SelIdx(d, sel) : j > i => ~SameKey(d[i], d[j])}}
DefaultRow(D) == Row(D.title, TplNs, NoRedirect, D.body, "wikitext")
MissingDefaults(S) ==
  {DefaultRow(Defaults[k]) : k \in {i \in 1..Len(Defaults) :
                                     ~\E r \in S : r.title = Defaults[i].title /\ r.ns = TplNs}}
Expected(d, sel) == LET S == ExpectedDump(d, sel) IN S \cup MissingDefaults(S)

\* nothing lost, merged or altered: one row per distinct selected (title, ns)
NothingMerged(d, sel, S) ==
  Cardinality(S) = Cardinality({<<d[k].title, d[k].ns>> : k \in SelIdx(d, sel)})
                   + Cardinality(MissingDefaults(ExpectedDump(d, sel)))

(* ------------------------------------------------------------------ *)
(* the as-is store, computed functionally (used to explain observations) *)
(* strip = TRUE: add_page drops a leading "Main:" whatever the namespace  *)
(* ------------------------------------------------------------------ *)
AddTitle(t, ns, strip) ==
  LET t1 == NormAdd(t, ns) IN IF strip /\ StartsWith(t1, "Main:") THEN Tail(t1) ELSE t1
RECURSIVE FoldDump(_, _, _, _)
FoldDump(d, sel, k, strip) ==
  IF k = 0 THEN {}
  ELSE LET S == FoldDump(d, sel, k - 1, strip)
           p == d[k] IN
       IF Selected(p, sel)
       THEN Upsert(S, Row(AddTitle(p.title, p.ns, strip), p.ns, StoredRed(p), StoredBody(p), p.model))
       ELSE S
RECURSIVE FoldDefaults(_, _, _)
FoldDefaults(S, k, strip) ==
  IF k = 0 THEN S
  ELSE LET S1 == FoldDefaults(S, k - 1, strip)
           D == Defaults[k] IN
       IF DbGet(S1, D.title, TplNs, FALSE).found THEN S1
       ELSE Upsert(S1, Row(AddTitle(D.title, TplNs, strip), TplNs, NoRedirect, D.body, "wikitext"))
StoreAfter(d, sel, strip) == FoldDefaults(FoldDump(d, sel, Len(d), strip), Len(Defaults), strip)

(* ------------------------------------------------------------------ *)
(* the ingestion as coded: one action per page / default / commit      *)
(* ------------------------------------------------------------------ *)
VARIABLES
  dump, sel,   \* the input (never changes)
  phase,       \* "parse" | "defaults" | "done"
  pos          \* next page of the dump / next default template

ivars == <<dump, sel, phase, pos, cur, com, memo>>

IInit(d, s) ==
  /\ dump = d /\ sel = s /\ phase = "parse" /\ pos = 1
  /\ PSInit

IReset(d, s) ==
  /\ dump' = d /\ sel' = s /\ phase' = "parse" /\ pos' = 1
  /\ cur' = {} /\ com' = {} /\ memo' = {}

ParsePage ==
  /\ phase = "parse"
  /\ IF pos > Len(dump)
     THEN phase' = "defaults" /\ pos' = 1 /\ UNCHANGED psvars
     ELSE LET p == dump[pos] IN
          /\ IF Selected(p, sel)
             THEN AddPage(p.title, p.ns, StoredRed(p), StoredBody(p), p.model)
             ELSE UNCHANGED psvars
          /\ pos' = pos + 1 /\ phase' = phase
  /\ UNCHANGED <<dump, sel>>

\* add_default_templates: page_exists (get_page through the memo), add_page, commit
DefaultStep ==
  /\ phase = "defaults"
  /\ IF pos > Len(Defaults)
     THEN Commit /\ phase' = "done" /\ pos' = pos
     ELSE LET D == Defaults[pos]
              g == GetPage(Args(D.title, TplNs, FALSE)) IN
          /\ IF g.res.found
             THEN memo' = g.memo /\ UNCHANGED <<cur, com>>
             ELSE AddPage(D.title, TplNs, NoRedirect, D.body, "wikitext")
          /\ pos' = pos + 1 /\ phase' = phase
  /\ UNCHANGED <<dump, sel>>

INext == ParsePage \/ DefaultStep
IDone == phase = "done"

(* ------------------------------------------------------------------ *)
(* properties of the model                                            *)
(* ------------------------------------------------------------------ *)
\* after ingestion the store is exactly what the property demands, and committed
StoreIsExpected == IDone => (cur = Expected(dump, sel) /\ com = cur)
\* ... with one row per selected page title: nothing lost or merged
NothingLostOrMerged == IDone => NothingMerged(dump, sel, cur)
\* while parsing, the store is what the property demands of the prefix read so far
PrefixIsExpected ==
  (phase = "parse") => cur = ExpectedDump(SubSeq(dump, 1, pos - 1), sel)
\* every selected redirect page (the last one of its key) is stored with the target
\* that was written, whatever the namespaces of the page and of the target are
LastOfKey(d, s, k) == \A j \in SelIdx(d, s) : j > k => ~SameKey(d[k], d[j])
RedirectsVerbatim ==
  IDone => \A k \in SelIdx(dump, sel) :
             (dump[k].red # NoRedirect /\ LastOfKey(dump, sel, k)) =>
               \E r \in cur : /\ r.title = dump[k].title /\ r.ns = dump[k].ns
                              /\ r.redirect = dump[k].red
                              /\ Denote(r.redirect) = Denote(dump[k].red)
\* every selected page that is not a redirect (the last one of its key) is stored with the
\* text that was written; the includable part only in the template namespace, whatever the
\* title of the page looks like
TextsVerbatim ==
  IDone => \A k \in SelIdx(dump, sel) :
             (dump[k].red = NoRedirect /\ LastOfKey(dump, sel, k)) =>
               \E r \in cur : /\ r.title = dump[k].title /\ r.ns = dump[k].ns
                              /\ r.body = IF dump[k].ns = TplNs THEN dump[k].inc ELSE dump[k].body
\* the functional fold and the action sequence agree (both ideal and as-is depend on Dev
\* only through NormAdd; the fold adds the as-is stripping by itself)
FoldAgrees == IDone => cur = StoreAfter(dump, sel, "MainPrefixStrippedOnAdd" \in Dev)
=============================================================================
