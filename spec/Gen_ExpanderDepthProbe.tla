---- MODULE Gen_ExpanderDepthProbe ----
EXTENDS Gen_ExpanderDepth
CONSTANTS PN, What
InitP == case \in { CaseOf(<<Seg(p, PN)>>) : p \in { <<"ifbr">>, <<"link">>, <<"def">>, <<"tpos","ifcond">> } } \cup { CaseOf(<<Seg(<<"ifbr">>, 40), Seg(p, PN)>>) : p \in { <<"ifbr">>, <<"link">>, <<"def">>, <<"pname">> } }
SpecP == InitP /\ [][Next]_case
InvP == GenInvD
====
