SPECIFICATION GSpec
CONSTANTS
  PfxNs <- T_PfxNs
  CanonPfx <- T_CanonPfx
  UpperOf <- T_UpperOf
  ArgU <- NoArgs
  TplNs = 10
  ModNs = 828
  Defaults <- T_Defaults
  OkModels <- T_OkModels
  NsByLocal <- T_NsByLocal
  ColonPre <- T_ColonPre
  ColonLast <- T_ColonLast
  IncOfBody <- T_IncOfBody
  BodyUses <- T_BodyUses
  BodyPre <- T_BodyPre
  WinName <- T_WinName
  Dev <- DevAsIs
  MaxOv = 2
  Bases <- BasesT
  PoolJ <- PoolJ_T
  PoolD <- PoolD_T
  Dumps <- DumpsT
  Parts = 1
  Part = 0
  TitleU <- TitlesGood
  MaxPages = 1
  Wins <- WinNo
INVARIANT P1_FinalIsOverlay
INVARIANT P1_NsAgrees
INVARIANT P2_BackupBeforeOverrides
INVARIANT P2_RestoreUndoesOverrides
INVARIANT P3_ProbeWritesNothing
INVARIANT P3_ProbeIsRight
INVARIANT P3_OtherMarksKept
INVARIANT GenInv
CHECK_DEADLOCK FALSE
