----------------------------- MODULE ParserStruct -----------------------------
(* TLA+ twin of the table / HTML element / link / template-call fragment of   *)
(* wikitextprocessor's parser (core.py _encode, parser.py token_iter and the  *)
(* handlers table_*_fn, vbar_fn, double_vbar_fn, check_for_attributes,        *)
(* parse_attrs, tag_fn, magic_fn, italic_fn, bold_fn, url_fn, text_fn,        *)
(* _parser_pop), together with the *written structure* the property C03 talks *)
(* about.                                                                     *)
(*                                                                            *)
(*   page    = content = Seq(item)             what the author wrote          *)
(*   item    = [k |-> "t",  s : Seq(atom)]                        text        *)
(*           | [k |-> "T",  args : Seq(content)]                  {{a|b|c}}   *)
(*           | [k |-> "P",  name : Seq(atom), args : Seq(content)] {{#if:a|b}}*)
(*           | [k |-> "A",  args : Seq(content)]                  {{{a|b}}}   *)
(*           | [k |-> "L",  args : Seq(content), trail : Seq(atom)] [[a|b]]s  *)
(*           | [k |-> "E",  url : Seq(atom), text : content]      [url text]  *)
(*           | [k |-> "I",  c : content]  | [k |-> "B", c : content]          *)
(*           | [k |-> "H",  tag, attrs, c : content, void : BOOLEAN]          *)
(*           | [k |-> "TB", tattrs, hascap, cattrs, caption : content,        *)
(*              rows : Seq([rattrs, cells : Seq([kind : "hdr"|"data", attrs,  *)
(*              content])]), style]                                           *)
(*   attrs   = Seq([n |-> STRING, v |-> STRING])   (v = "" : bare name)       *)
(*           | ... [n |-> STRING, w : Seq(atom), q : "dq"|"sq"|"none",        *)
(*                  eq : BOOLEAN]   a WRITTEN attribute: the characters of    *)
(*              the value (w), its own delimiters (q) and blanks around '='   *)
(*              (eq); the value the property demands is CatAtoms(w) - what is *)
(*              written between the ONE pair of delimiters                    *)
(*   style   = [sep : "line"|"inline"|"mixed", sp : BOOLEAN, q : "dq"|"sq"|   *)
(*              "none", first : BOOLEAN, hbar : BOOLEAN]                      *)
(*                                                                            *)
(*   Render(page)        the atoms of the wikitext an author writes           *)
(*   TreeOf(page)        the tree the property demands                        *)
(*   MachineTree(a, Dev) Encode + Lex + handlers run on atoms a               *)
(*   RunFrom(tab, a, Dev) the same on a page whose cookie table already is    *)
(*                       `tab` (page history: the table is emptied by         *)
(*                       start_page() only; _save_value re-uses the cookie of *)
(*                       an identical construct)                              *)
(*                                                                            *)
(* Dev = {} is the ideal parser.  Behaviours found in the repository:          *)
(*   "CaptionSwallowsDataCells"  table_cell_fn: a | line after a caption stays *)
(*                               text of the caption                           *)
(*   "TagAttrNameCharset"        start tags with _ or . in an attribute name   *)
(*                               are not tags                                  *)
(*   "RowCellsReadAsAttributes"  table_row_check_attrs re-reads the cells a    *)
(*                               row already has as its attribute text         *)
(*   "HdrSepEndsCall"            a !! inside {{{1|...}}} / {{#fn:...}} within  *)
(*                               a table closes the call (table_hdr_cell_fn    *)
(*                               knows TEMPLATE, LINK, URL, HTML only)          *)
(*   "HdrSepEndsFormat"          a !! inside a bold / italic run of a DATA cell *)
(*                               closes the run (only a bare cell is checked)   *)
(* What-if switches (never passed by the harness, demos only): WhatIfKeyDevs    *)
(* (cookie key not injective), WhatIfAttrDevs (parse_attrs takes more than the  *)
(* ONE pair of delimiters off a quoted value).                                  *)
EXTENDS Unparse

CONSTANT Tags   \* wikihtml.ALLOWED_HTML_TAGS as tag :> [parents, content, closenext : Seq(STRING), noend : BOOLEAN]

AllParserDevs == {"CaptionSwallowsDataCells", "TagAttrNameCharset", "RowCellsReadAsAttributes",
                  "HdrSepEndsCall", "HdrSepEndsFormat"}

(* ------------------------------------------------------------------------ *)
(* vocabulary (TLC cannot look inside a string: classes are explicit sets)   *)
(* ------------------------------------------------------------------------ *)
Punct == {"|", "!", "{", "}", "[", "]", "<", ">", "/", "=", "\"", "'", ":", "+", "-", "*", "#", ";", "&",
          ".", ",", "(", ")", "_", "~", "%", "?", "@", "`", "$", "^", "\\"}
MaxCk == 150
CkAtom(i) == "CK#" \o ToString(i)
CkSet == {CkAtom(i) : i \in 1..MaxCk}
CkIdx(a) == CHOOSE i \in 1..MaxCk : CkAtom(i) = a
LB == "LB#"     \* MAGIC_LBRACKET_CHAR / MAGIC_RBRACKET_CHAR
RB == "RB#"
IsWord(a) == a \notin Punct /\ a \notin WS /\ a \notin CkSet /\ a \notin {LB, RB}
\* word atoms of the vocabulary that contain characters outside [A-Za-z0-9]
\* (not matched by \w+ resp. by the [-a-zA-Z0-9] classes of the tag regexps)
UnderDotAtoms == {"e.x", "w.org", "v.1", "a_b", "data_x", "k.v", "x.png"}   \* contain . or _
TildeAtoms == {"x~y"}                                              \* contain ~
DashedAtoms == {"a-b", "data-x", "x-1"}                            \* contain - only
DottedAtoms == UnderDotAtoms \cup TildeAtoms
IsPlainWord(a) == IsWord(a) /\ a \notin DottedAtoms /\ a \notin DashedAtoms      \* \w+ (no _ in plain vocabulary)
IsHtmlName(a) == IsWord(a) /\ a \notin DottedAtoms                              \* [-a-zA-Z0-9]+
\* attribute names inside a start tag: [-a-zA-Z0-9:]+ as found, [-a-zA-Z0-9:_.]+ repaired
IsTagAttrName(a, dev) ==
  a = ":" \/ IsHtmlName(a) \/ ("TagAttrNameCharset" \notin dev /\ a \in UnderDotAtoms)
\* names of parserfns.PARSER_FUNCTIONS used by the vocabulary
PFNames == {<<"#", "if">>, <<"#", "switch">>, <<"lc">>, <<"uc">>, <<"PAGENAME">>, <<"#", "expr">>}
UrlSchemes == {"http", "https"}
\* the string an atom sequence spells (attribute names / values of real trees are strings)
AtomStr(a) == IF a = "SP" THEN " " ELSE IF a = "NL" THEN "\n" ELSE a
RECURSIVE CatAtoms(_)
CatAtoms(s) == IF s = <<>> THEN "" ELSE AtomStr(s[1]) \o CatAtoms(Tail(s))

(* ------------------------------------------------------------------------ *)
(* written attributes: the characters of a value and how it is delimited     *)
(* ------------------------------------------------------------------------ *)
\* An attribute of a written structure is either [n, v] (one URL-safe atom, delimiters
\* chosen by the table style / "dq" in start tags) or a WRITTEN attribute [n, w, q, eq]:
\*   w   the characters of the value as atoms (may hold the quote character of the other
\*       kind at its first / last position or inside, blanks, = > & ... , may be empty)
\*   q   its own delimiters: "dq" "..."  /  "sq" '...'  /  "none"
\*   eq  blanks around the '=' (name = "value")
\* The value the statement demands ("exactly that map") is the written value: everything
\* between the ONE pair of delimiters, character by character.
IsWritten(a) == "w" \in DOMAIN a
\* A written attribute may also carry the CHARACTERS of its NAME: [nw, w, q, eq] with nw : Seq(atom)
\* (plain words and single punctuation characters: d ~ 1) instead of the one-atom name n.  The name the
\* statement demands is the written name: everything in front of the '=' (and its blanks).
HasWrittenName(a) == "nw" \in DOMAIN a
NameAtoms(a) == IF HasWrittenName(a) THEN a.nw ELSE <<a.n>>
NameOf(a) == IF HasWrittenName(a) THEN CatAtoms(a.nw) ELSE a.n
AttrOf(a) == IF IsWritten(a) THEN [n |-> NameOf(a), v |-> CatAtoms(a.w)] ELSE a
AttrsOf(attrs) == [i \in 1..Len(attrs) |-> AttrOf(attrs[i])]
Delim(q) == CASE q = "dq" -> <<"\"">> [] q = "sq" -> <<"'">> [] q = "none" -> <<>>
\* characters a URL-safe value is made of (RFC 3986 unreserved and sub-delims / pchar that have
\* no meaning of their own in the wikitext positions used; the apostrophe is one of them, the
\* double quote, blanks, < > & are not).  The statement quantifies over URL-safe values: a
\* page whose written values stay inside this set is judged strictly (VIOLATION), any other
\* page is a prediction of the model beyond the statement (DRIFT).
SafeValuePunct == {"'", "=", ":", ";", ",", ".", "-", "_", "~", "(", ")", "/", "?", "@", "+", "*", "$", "%"}
UrlSafeValue(w) == \A i \in 1..Len(w) : (w[i] \notin Punct /\ w[i] \notin {"SP", "NL"}) \/ w[i] \in SafeValuePunct
\* Per-site table of the characters an attribute NAME may hold besides letters and digits (data; the law
\* Equiv(MachineTree(Render), TreeOf) ties it to the transcribed regexps, the conformance runs to the real ones):
\*   "tag"    inside an HTML start tag: \b[-a-zA-Z0-9:_.]+ of the start-tag token and of tag_fn
\*   "table"  {| |+ |- ! | positions: only parse_attrs reads the text, its name class is NEGATIVE
\*            [^"'>/=\0-\037\s]+ : every character that cannot end a name belongs to it (of the RFC 3986
\*            unreserved / sub-delim / pchar characters all but ' = / and those that end the attribute
\*            position in wikitext: | ! { } [ ] <)
\* A name starts with a letter or digit (\b) at every site.
TagNameChars == {"-", ":", "_", "."}
TableNameChars == TagNameChars \cup {"~", ";", ",", "(", ")", "?", "@", "+", "*", "$", "%", "&", "#"}
NameCharsAt(site) == IF site = "tag" THEN TagNameChars ELSE TableNameChars
\* the statement quantifies over URL-safe NAMES: letters, digits and the RFC 3986 unreserved marks - . _ ~
\* plus ':' (every name class of the code has it: xml:lang); a name with any other character is a
\* prediction of the model beyond the statement (DRIFT)
SafeNamePunct == {"-", ".", "_", "~", ":"}
UrlSafeName(a) == HasWrittenName(a) => \A i \in 1..Len(a.nw) : IsWord(a.nw[i]) \/ a.nw[i] \in SafeNamePunct
UrlSafeAttrs(attrs) == \A i \in 1..Len(attrs) : IsWritten(attrs[i]) => UrlSafeValue(attrs[i].w) /\ UrlSafeName(attrs[i])
\* which written attributes the fragment covers (site = "tag": inside an HTML start tag, "table": the
\* {| |- |+ ! | positions).  Outside: a value holding its own delimiter; an unquoted value that is
\* empty or holds a quote, blank, = < > `; two adjacent apostrophes anywhere in the rendering ('' is
\* the italic token of wikitext, so also the empty value written ''); characters that end the
\* attribute position (| ! { } [ ] < line break); > inside a start tag (the start-tag token ends
\* at the first >); an unquoted value that ends with / inside a start tag (<sup id=a/> is read as a
\* self-closing tag whose value is a/); a value that spells a URL scheme.
NoAdjacentApostrophes(w) == \A i \in 1..(Len(w) - 1) : ~(w[i] = "'" /\ w[i + 1] = "'")
OKWritten(a, site) ==
  \/ ~IsWritten(a)
  \/ /\ a.q \in {"dq", "sq", "none"}
     /\ \A i \in 1..Len(a.w) : a.w[i] \notin {"|", "!", "{", "}", "[", "]", "<", "`", "NL", "http", "https", "mailto", "ftp"}
     /\ a.q = "dq" => \A i \in 1..Len(a.w) : a.w[i] # "\""
     /\ a.q = "sq" => a.w # <<>> /\ \A i \in 1..Len(a.w) : a.w[i] # "'"
     /\ a.q = "none" => a.w # <<>> /\ \A i \in 1..Len(a.w) : a.w[i] \notin {"\"", "'", "SP", "=", ">"}
     /\ NoAdjacentApostrophes(a.w)
     /\ site = "tag" => \A i \in 1..Len(a.w) : a.w[i] # ">"
     /\ (site = "tag" /\ a.q = "none") => a.w[Len(a.w)] # "/"
     \* a written name: plain words and the characters of the site's table, starting with a word
     /\ HasWrittenName(a) => (a.nw # <<>> /\ IsPlainWord(a.nw[1])
                              /\ \A i \in 1..Len(a.nw) : IsPlainWord(a.nw[i]) \/ a.nw[i] \in NameCharsAt(site))
OKAttrs(attrs, site) == \A i \in 1..Len(attrs) : OKWritten(attrs[i], site)

(* ------------------------------------------------------------------------ *)
(* Render: how the structure is written                                      *)
(* ------------------------------------------------------------------------ *)
RenderAttr(a, q) ==
  IF IsWritten(a)
  THEN NameAtoms(a) \o (IF a.eq THEN <<"SP", "=", "SP">> ELSE <<"=">>) \o Delim(a.q) \o a.w \o Delim(a.q)
  ELSE
  IF a.v = "" THEN <<a.n>>
  ELSE CASE q = "dq" -> <<a.n, "=", "\"", a.v, "\"">>
         [] q = "sq" -> <<a.n, "=", "'", a.v, "'">>
         [] q = "none" -> <<a.n, "=", a.v>>
RECURSIVE RenderAttrs(_, _)
RenderAttrs(attrs, q) ==
  IF attrs = <<>> THEN <<>>
  ELSE IF Len(attrs) = 1 THEN RenderAttr(attrs[1], q)
  ELSE RenderAttr(attrs[1], q) \o <<"SP">> \o RenderAttrs(Tail(attrs), q)

RowSep(style, i) == IF style.sep = "mixed" THEN (IF i % 2 = 1 THEN "inline" ELSE "line") ELSE style.sep
UniformRow(cells) == \A i \in 1..Len(cells) : cells[i].kind = cells[1].kind
\* a cell holding a nested table spans lines: its row is written one cell per line
HasTable(cells) == \E i \in 1..Len(cells) : \E j \in 1..Len(cells[i].content) : cells[i].content[j].k = "TB"

RECURSIVE Render(_), RenderItem(_), RenderArgs(_), RenderTable(_)
Render(c) == IF c = <<>> THEN <<>> ELSE RenderItem(Head(c)) \o Render(Tail(c))
RenderArgs(args) ==
  IF args = <<>> THEN <<>>
  ELSE IF Len(args) = 1 THEN Render(args[1])
  ELSE Render(args[1]) \o <<"|">> \o RenderArgs(Tail(args))
RenderItem(it) ==
  CASE it.k = "t" -> it.s
    [] it.k = "T" -> <<"{", "{">> \o RenderArgs(it.args) \o <<"}", "}">>
    [] it.k = "P" -> <<"{", "{">> \o it.name \o (IF it.args = <<>> THEN <<>> ELSE <<":">> \o RenderArgs(it.args)) \o <<"}", "}">>
    [] it.k = "A" -> <<"{", "{", "{">> \o RenderArgs(it.args) \o <<"}", "}", "}">>
    [] it.k = "L" -> <<"[", "[">> \o RenderArgs(it.args) \o <<"]", "]">> \o it.trail
    [] it.k = "E" -> <<"[">> \o it.url \o (IF it.text = <<>> THEN <<>> ELSE <<"SP">> \o Render(it.text)) \o <<"]">>
    [] it.k = "I" -> <<"'", "'">> \o Render(it.c) \o <<"'", "'">>
    [] it.k = "B" -> <<"'", "'", "'">> \o Render(it.c) \o <<"'", "'", "'">>
    [] it.k = "H" ->
         LET open == <<"<", it.tag>> \o (IF it.attrs = <<>> THEN <<>> ELSE <<"SP">> \o RenderAttrs(it.attrs, "dq")) IN
         IF it.void THEN open \o <<">">>
         ELSE open \o <<">">> \o Render(it.c) \o <<"<", "/", it.tag, ">">>
    [] it.k = "TB" -> RenderTable(it)

RenderTable(g) ==
  LET st == g.style
      Sp == IF st.sp THEN <<"SP">> ELSE <<>>
      RA(attrs) == RenderAttrs(attrs, st.q)
      \* attributes in front of a caption / cell: `attrs |`
      AttrPart(attrs) == IF attrs = <<>> THEN <<>> ELSE Sp \o RA(attrs) \o Sp \o <<"|">>
      open == <<"{", "|">> \o (IF g.tattrs = <<>> THEN <<>> ELSE <<"SP">> \o RA(g.tattrs)) \o <<"NL">>
      cap == IF ~g.hascap THEN <<>>
             ELSE <<"|", "+">> \o AttrPart(g.cattrs) \o Sp \o Render(g.caption) \o <<"NL">>
      Mark(kind) == IF kind = "hdr" THEN <<"!">> ELSE <<"|">>
      \* on a header line both !! and || separate header cells (style.hbar chooses ||)
      DMark(kind) == IF kind = "hdr" /\ ~st.hbar THEN <<"!", "!">> ELSE <<"|", "|">>
      \* an empty cell is written as one blank (`| || x`, `! !! x`)
      Cell(c) == AttrPart(c.attrs) \o (IF c.content = <<>> THEN <<"SP">> ELSE Sp \o Render(c.content))
      RowMarker(i) ==
        IF i > 1 \/ st.first \/ g.rows[i].rattrs # <<>>
        THEN <<"|", "-">> \o (IF g.rows[i].rattrs = <<>> THEN <<>> ELSE <<"SP">> \o RA(g.rows[i].rattrs)) \o <<"NL">>
        ELSE <<>>
      LineCells(cells) == Concat([j \in 1..Len(cells) |-> Mark(cells[j].kind) \o Cell(cells[j]) \o <<"NL">>])
      InlineCells(cells) ==
        Mark(cells[1].kind) \o Cell(cells[1])
          \o Concat([j \in 1..(Len(cells) - 1) |-> Sp \o DMark(cells[j + 1].kind) \o Cell(cells[j + 1])])
          \o <<"NL">>
      \* a row of mixed kinds written inline: every run of cells of one kind starts a new line with
      \* its marker, the following cells of the run are joined by the double marker ("! h" NL "| a || b")
      RunCells(cells) ==
        Concat([j \in 1..Len(cells) |->
                  (IF j = 1 THEN Mark(cells[j].kind)
                   ELSE IF cells[j].kind # cells[j - 1].kind THEN <<"NL">> \o Mark(cells[j].kind)
                   ELSE Sp \o DMark(cells[j].kind)) \o Cell(cells[j])]) \o <<"NL">>
      Row(i) ==
        LET cells == g.rows[i].cells IN
        RowMarker(i) \o (IF RowSep(st, i) = "inline" /\ cells # <<>> /\ ~HasTable(cells)
                         THEN (IF UniformRow(cells) THEN InlineCells(cells) ELSE RunCells(cells))
                         ELSE LineCells(cells))
  IN open \o cap \o Concat([i \in 1..Len(g.rows) |-> Row(i)]) \o <<"|", "}">>

(* ------------------------------------------------------------------------ *)
(* TreeOf: the tree the property demands for a written structure             *)
(* ------------------------------------------------------------------------ *)
\* append a child list, merging adjacent strings (children never hold two adjacent strings)
JoinKids(a, b) ==
  IF a # <<>> /\ b # <<>> /\ IsStr(a[Len(a)]) /\ IsStr(b[1])
  THEN SubSeq(a, 1, Len(a) - 1) \o <<Str(a[Len(a)].s \o b[1].s)>> \o Tail(b)
  ELSE a \o b
KindOfCell(k) == IF k = "hdr" THEN "TABLE_HEADER_CELL" ELSE "TABLE_CELL"

RECURSIVE CT(_), ItemTree(_)
CT(c) == IF c = <<>> THEN <<>> ELSE JoinKids(ItemTree(Head(c)), CT(Tail(c)))
ArgTrees(args) == [i \in 1..Len(args) |-> CT(args[i])]
ItemTree(it) ==
  CASE it.k = "t" -> IF it.s = <<>> THEN <<>> ELSE <<Str(it.s)>>
    [] it.k = "T" -> <<Node("TEMPLATE", <<>>, ArgTrees(it.args), <<>>, <<>>)>>
    [] it.k = "P" -> <<Node("PARSER_FN", <<>>, <<<<Str(it.name)>>>> \o ArgTrees(it.args), <<>>, <<>>)>>
    [] it.k = "A" -> <<Node("TEMPLATE_ARG", <<>>, ArgTrees(it.args), <<>>, <<>>)>>
    [] it.k = "L" -> <<Node("LINK", <<>>, ArgTrees(it.args), <<>>, IF it.trail = <<>> THEN <<>> ELSE <<Str(it.trail)>>)>>
    [] it.k = "E" -> <<Node("URL", <<>>, <<<<Str(it.url)>>>> \o (IF it.text = <<>> THEN <<>> ELSE <<CT(it.text)>>), <<>>, <<>>)>>
    [] it.k = "I" -> <<Node("ITALIC", <<>>, <<>>, <<>>, CT(it.c))>>
    [] it.k = "B" -> <<Node("BOLD", <<>>, <<>>, <<>>, CT(it.c))>>
    [] it.k = "H" -> <<Node("HTML", <<it.tag>>, <<>>, AttrsOf(it.attrs), CT(it.c))>>
    [] it.k = "TB" ->
         LET cap == IF it.hascap THEN <<Node("TABLE_CAPTION", <<>>, <<>>, AttrsOf(it.cattrs), CT(it.caption))>> ELSE <<>>
             Cells(cells) == [j \in 1..Len(cells) |->
                                Node(KindOfCell(cells[j].kind), <<>>, <<>>, AttrsOf(cells[j].attrs), CT(cells[j].content))]
             rows == [i \in 1..Len(it.rows) |-> Node("TABLE_ROW", <<>>, <<>>, AttrsOf(it.rows[i].rattrs), Cells(it.rows[i].cells))]
         IN <<Node("TABLE", <<>>, <<>>, AttrsOf(it.tattrs), cap \o rows)>>

RootNode(kids) == [kind |-> "ROOT", sarg |-> <<>>, largs |-> <<<<Str(<<"Pg">>)>>>>, attrs |-> <<>>,
                   children |-> kids, defn |-> <<>>]
TreeOf(page) == RootNode(CT(page))

(* ------------------------------------------------------------------------ *)
(* which written structures the statement is about (preconditions)           *)
(* ------------------------------------------------------------------------ *)
UniqueNames(attrs) == \A i, j \in 1..Len(attrs) : i # j => NameOf(attrs[i]) # NameOf(attrs[j])
NoFormatEdge(c) == c # <<>> /\ c[1].k \notin {"I", "B"} /\ c[Len(c)].k \notin {"I", "B"}
RECURSIVE OKContent(_, _), OKItem(_, _)
\* cx: set of enclosing construct kinds
OKContent(c, cx) == \A i \in 1..Len(c) : OKItem(c[i], cx)
OKItem(it, cx) ==
  LET inCall == cx \cap {"T", "P", "A"} # {} IN
  CASE it.k = "t" -> TRUE
    [] it.k \in {"T", "A", "P"} -> \A i \in 1..Len(it.args) : OKContent(it.args[i], cx \cup {it.k})
    [] it.k = "L" -> cx \cap {"L", "E"} = {} /\ \A i \in 1..Len(it.args) : OKContent(it.args[i], cx \cup {"L"})
    [] it.k = "E" -> cx \cap {"L", "E"} = {} /\ OKContent(it.text, cx \cup {"E"})
    \* bold directly at the edge of italic (or vice versa) is written with five quotes,
    \* which wikitext itself reads ambiguously: not part of the written structures
    [] it.k = "I" -> ~inCall /\ "I" \notin cx /\ NoFormatEdge(it.c) /\ OKContent(it.c, cx \cup {"I"})
    [] it.k = "B" -> ~inCall /\ "B" \notin cx /\ NoFormatEdge(it.c) /\ OKContent(it.c, cx \cup {"B"})
    \* [url <b>text</b>]: the bracket syntax of this parser ends at the first < or >
    [] it.k = "H" -> ~inCall /\ "E" \notin cx /\ UniqueNames(it.attrs) /\ OKAttrs(it.attrs, "tag") /\ OKContent(it.c, cx \cup {"H"})
    [] it.k = "TB" ->
         /\ cx \subseteq {"TB"}
         /\ UniqueNames(it.tattrs) /\ UniqueNames(it.cattrs)
         /\ OKAttrs(it.tattrs, "table") /\ OKAttrs(it.cattrs, "table")
         /\ OKContent(it.caption, cx \cup {"TB"})
         /\ \A i \in 1..Len(it.rows) :
              /\ UniqueNames(it.rows[i].rattrs) /\ OKAttrs(it.rows[i].rattrs, "table")
              /\ it.rows[i].cells # <<>>
              /\ \A j \in 1..Len(it.rows[i].cells) :
                   /\ UniqueNames(it.rows[i].cells[j].attrs) /\ OKAttrs(it.rows[i].cells[j].attrs, "table")
                   /\ OKContent(it.rows[i].cells[j].content, cx \cup {"TB"})
Admissible(page) == OKContent(page, {})
\* is the page inside the statement's quantifier as far as attribute values go (URL-safe values)?
RECURSIVE SafeContent(_), SafeItem(_)
SafeContent(c) == \A i \in 1..Len(c) : SafeItem(c[i])
SafeItem(it) ==
  CASE it.k = "t" -> TRUE
    [] it.k \in {"T", "A", "P", "L"} -> \A i \in 1..Len(it.args) : SafeContent(it.args[i])
    [] it.k = "E" -> SafeContent(it.text)
    [] it.k \in {"I", "B"} -> SafeContent(it.c)
    [] it.k = "H" -> UrlSafeAttrs(it.attrs) /\ SafeContent(it.c)
    [] it.k = "TB" ->
         /\ UrlSafeAttrs(it.tattrs) /\ UrlSafeAttrs(it.cattrs) /\ SafeContent(it.caption)
         /\ \A i \in 1..Len(it.rows) :
              /\ UrlSafeAttrs(it.rows[i].rattrs)
              /\ \A j \in 1..Len(it.rows[i].cells) :
                   UrlSafeAttrs(it.rows[i].cells[j].attrs) /\ SafeContent(it.rows[i].cells[j].content)
UrlSafePage(page) == SafeContent(page)

(* ------------------------------------------------------------------------ *)
(* Encode: core.py _encode at atom level (inside-out cookie replacement)     *)
(* ------------------------------------------------------------------------ *)
\* A cookie is [kind : "T"|"A"|"L"|"E", args : Seq(Seq(atom))]; the atom CkAtom(i)
\* stands for cookies[i].  Simplifications (all outside what Render emits): the
\* bracketed text of a match holds no further bracket/brace atom, so the leftmost
\* match is the innermost one and one replacement per iteration in the priority
\* order links > external links > arguments > templates reaches the same final
\* text as the nested sub() loops; nowiki flags, the empty-link/empty-template
\* escapes and the HTML-element exception of vbar_split are not modelled.
RECURSIVE IndexIn(_, _, _)
IndexIn(s, from, S) ==   \* least i >= from with s[i] \in S, or 0
  IF from > Len(s) THEN 0 ELSE IF s[from] \in S THEN from ELSE IndexIn(s, from + 1, S)

RECURSIVE SplitBar(_)
SplitBar(s) ==   \* vbar_split
  LET i == IndexIn(s, 1, {"|"})
  IN IF i = 0 THEN <<s>> ELSE <<SubSeq(s, 1, i - 1)>> \o SplitBar(SubSeq(s, i + 1, Len(s)))

NoBr(s, from, to, bad) == \A k \in from..to : s[k] \notin bad

\* [[ ... ]] : (?<!\[)\[\[ inner \]\], inner without [ ] { }, no newline before the first |
LinkAt(s, i) ==
  IF i + 1 <= Len(s) /\ s[i] = "[" /\ s[i + 1] = "[" /\ (i = 1 \/ s[i - 1] # "[")
  THEN LET j == IndexIn(s, i + 2, {"[", "]", "{", "}"})
       IN IF j > i + 2 /\ j + 1 <= Len(s) /\ s[j] = "]" /\ s[j + 1] = "]"
             /\ LET b == IndexIn(SubSeq(s, i + 2, j - 1), 1, {"|", "NL"})
                IN b = 0 \/ s[i + 1 + b] = "|"
          THEN j + 1 ELSE 0
  ELSE 0
\* [ ... ](?!]) : inner without [ ] { } < > newline
ExtAt(s, i) ==
  IF s[i] = "["
  THEN LET j == IndexIn(s, i + 1, {"[", "]", "{", "}", "<", ">", "NL"})
       IN IF j > i + 1 /\ s[j] = "]" /\ (j = Len(s) \/ s[j + 1] # "]") THEN j ELSE 0
  ELSE 0
StartsUrl(inner) ==
  \/ Len(inner) >= 4 /\ inner[1] \in UrlSchemes \cup {"ftp"} /\ inner[2] = ":" /\ inner[3] = "/" /\ inner[4] = "/"
  \/ Len(inner) >= 2 /\ inner[1] = "mailto" /\ inner[2] = ":"
  \/ Len(inner) >= 2 /\ inner[1] = "/" /\ inner[2] = "/"
\* {{{ ... }}} / {{ ... }} : inner without braces
BraceAt(s, i, n) ==
  IF i + n - 1 <= Len(s) /\ \A k \in 0..(n - 1) : s[i + k] = "{"
  THEN LET j == IndexIn(s, i + n, {"{", "}"})
       IN IF j > 0 /\ j + n - 1 <= Len(s) /\ (\A k \in 0..(n - 1) : s[j + k] = "}") /\ (n = 3 \/ j > i + n)
          THEN j + n - 1 ELSE 0
  ELSE 0

MatchK(s, i, kind) ==
  CASE kind = "L" -> LinkAt(s, i) [] kind = "E" -> ExtAt(s, i) [] kind = "A" -> BraceAt(s, i, 3) [] kind = "T" -> BraceAt(s, i, 2)
RECURSIVE FirstMatch(_, _, _)
FirstMatch(s, i, kind) ==   \* leftmost position >= i where a bracket group of this kind starts, or 0
  IF i > Len(s) THEN 0
  ELSE IF s[i] \in {"[", "{"} /\ MatchK(s, i, kind) > 0 THEN i
  ELSE FirstMatch(s, i + 1, kind)

\* The cookie table is STATE OF THE PAGE (Wtp.cookies / Wtp.rev_ht): start_page() empties it,
\* every parse() / expand() on the page goes on filling it.  _save_value gives a construct
\* that is identical - same kind, same argument strings, character by character - the cookie
\* it was given before and every other construct a new one (the key must be injective:
\* magic_fn decodes a cookie with the arguments stored under it).
\* What-if switches (never part of a Dev the harness passes; Demo_ParserStruct_cookiekey.cfg
\* lets TLC show that each of them breaks the law on the universes "PAIR"/"HIST"):
\*   "KeyDropsEdgeLineBreaks"  the key ignores line breaks at the edges of an argument
\*   "KeyTrimsArguments"       the key ignores blanks and line breaks at the edges
\*   "KeyIgnoresKind"          the key ignores the kind of bracket
WhatIfKeyDevs == {"KeyDropsEdgeLineBreaks", "KeyTrimsArguments", "KeyIgnoresKind"}
RECURSIVE LStripNL(_), RStripNL(_)
LStripNL(s) == IF Len(s) > 0 /\ s[1] = "NL" THEN LStripNL(Tail(s)) ELSE s
RStripNL(s) == IF Len(s) > 0 /\ s[Len(s)] = "NL" THEN RStripNL(SubSeq(s, 1, Len(s) - 1)) ELSE s
CkKey(c, dev) ==
  LET A(x) == IF "KeyTrimsArguments" \in dev THEN RStrip(LStrip(x))
              ELSE IF "KeyDropsEdgeLineBreaks" \in dev THEN RStripNL(LStripNL(x)) ELSE x
  IN [kind |-> IF "KeyIgnoresKind" \in dev THEN "*" ELSE c.kind, args |-> [k \in 1..Len(c.args) |-> A(c.args[k])]]
\* _save_value: [idx |-> cookie number, cookies |-> table afterwards]
SaveValue(cookies, c, dev) ==
  LET hit == {k \in 1..Len(cookies) : CkKey(cookies[k], dev) = CkKey(c, dev)}
  IN IF hit # {} THEN [idx |-> CHOOSE k \in hit : \A m \in hit : k <= m, cookies |-> cookies]
     ELSE [idx |-> Len(cookies) + 1, cookies |-> Append(cookies, c)]

RECURSIVE EncodeLoop(_, _)
EncodeLoop(e, dev) ==
  LET s == e.text
      Put(i, j, kind, args) ==
        LET sv == SaveValue(e.cookies, [kind |-> kind, args |-> args], dev) IN
        EncodeLoop([text |-> SubSeq(s, 1, i - 1) \o <<CkAtom(sv.idx)>> \o SubSeq(s, j + 1, Len(s)),
                    cookies |-> sv.cookies], dev)
      Arg3(t, i) == BraceAt(t, i, 3)
      Tpl2(t, i) == BraceAt(t, i, 2)
      l == FirstMatch(s, 1, "L")
      x == FirstMatch(s, 1, "E")
      a == FirstMatch(s, 1, "A")
      t == FirstMatch(s, 1, "T")
  IN IF l > 0 THEN Put(l, LinkAt(s, l), "L", SplitBar(SubSeq(s, l + 2, LinkAt(s, l) - 2)))
     ELSE IF x > 0
     THEN LET j == ExtAt(s, x)
              inner == SubSeq(s, x + 1, j - 1)
          IN IF StartsUrl(inner) THEN Put(x, j, "E", <<inner>>)
             ELSE EncodeLoop([e EXCEPT !.text = SubSeq(s, 1, x - 1) \o <<LB>> \o inner \o <<RB>> \o SubSeq(s, j + 1, Len(s))], dev)
     ELSE IF a > 0 THEN Put(a, Arg3(s, a), "A", SplitBar(SubSeq(s, a + 3, Arg3(s, a) - 3)))
     ELSE IF t > 0 THEN Put(t, Tpl2(s, t), "T", SplitBar(SubSeq(s, t + 2, Tpl2(s, t) - 2)))
     ELSE e
Unbracket(s) == [i \in 1..Len(s) |-> IF s[i] = LB THEN "[" ELSE IF s[i] = RB THEN "]" ELSE s[i]]
\* _encode on a page whose cookie table is `tab`; `tab` afterwards = the table the next call starts from
EncodeFrom(tab, atoms, dev) ==
  LET e == EncodeLoop([text |-> atoms, cookies |-> tab], dev)
  IN [text |-> Unbracket(e.text),
      tab |-> e.cookies,
      cookies |-> [i \in 1..Len(e.cookies) |->
                     [kind |-> e.cookies[i].kind,
                      args |-> [k \in 1..Len(e.cookies[i].args) |-> Unbracket(e.cookies[i].args[k])]]]]
Encode(atoms) == EncodeFrom(<<>>, atoms, {})      \* first call after start_page

(* ------------------------------------------------------------------------ *)
(* Lex: parser.py token_iter at atom level                                   *)
(* ------------------------------------------------------------------------ *)
\* token = [k |-> class, s |-> spelling].  Not modelled: headings (header_re), magic
\* words, the '-inside-tag pre-pass, <<x>> markers.
Tok(k, s) == [k |-> k, s |-> s]
NoMatch == [n |-> 0, toks |-> <<>>]
M1(n, k, s) == [n |-> n, toks |-> <<Tok(k, s)>>]
Has(seg, q, lit) == q + Len(lit) - 1 <= Len(seg) /\ \A k \in 1..Len(lit) : seg[q + k - 1] = lit[k]

\* character classes used by the token regexps
InClass(a, cls, dev) ==
  CASE cls = "sp" -> a = "SP"
    [] cls = "ws" -> a \in WS
    [] cls = "q" -> a = "'"
    [] cls = "dash" -> a = "-"
    [] cls = "lm" -> a \in {"*", ":", ";", "#"}
    [] cls = "host" -> IsWord(a) \/ a \in {".", "-", "_"}
    [] cls = "path" -> a \notin {"[", "]", "{", "}", "<", ">", "|", "SP", "NL"}
    [] cls = "tagattr" -> IsTagAttrName(a, dev)
    \* the same class AFTER the first atom of a name: - _ . written as atoms of their own (the characters of
    \* a written name, HasWrittenName); in canonical text they are part of the word atom in front of them
    [] cls = "tagattr+" -> IsTagAttrName(a, dev) \/ a = "-" \/ ("TagAttrNameCharset" \notin dev /\ a \in {"_", "."})
    \* what-if "NameClassOfStartTags": the name class of parse_attrs is the POSITIVE class of start tags
    [] cls = "attrname-as-tag" -> IsWord(a) \/ a \in {"-", ":", "_", "."}
    [] cls = "unq" -> a \notin {"SP", "NL", "\"", "'", "`", "=", "<", ">"}
    [] cls = "attrname" -> a \notin {"\"", "'", ">", "/", "=", "SP", "NL"}        \* [^"'>/=\0-\037\s]
    [] cls = "attrunq" -> a \notin {"\"", "'", "<", ">", "`", "SP", "NL"}        \* [^"'<>`\s]
\* length of the maximal run of atoms of a class that starts at q
RECURSIVE RunLenC(_, _, _, _)
RunLenC(seg, q, cls, dev) == IF q <= Len(seg) /\ InClass(seg[q], cls, dev) THEN 1 + RunLenC(seg, q + 1, cls, dev) ELSE 0
RunLen(seg, q, cls) == RunLenC(seg, q, cls, {})

\* \s*https?://[\w.-]+(/[^][{}<>|\s]*)?
UrlAt(seg, q) ==
  LET sp == RunLen(seg, q, "sp")
      p == q + sp
  IN IF Has(seg, p, <<"http", ":", "/", "/">>) \/ Has(seg, p, <<"https", ":", "/", "/">>)
     THEN LET h == RunLen(seg, p + 4, "host")
              e1 == p + 4 + h
              pl == IF h > 0 /\ e1 <= Len(seg) /\ seg[e1] = "/" THEN 1 + RunLen(seg, e1 + 1, "path") ELSE 0
          IN IF h = 0 THEN NoMatch
             ELSE LET url == SubSeq(seg, p, e1 + pl - 1) IN
                  IF q > 1 /\ seg[q - 1] = "=" THEN [n |-> sp + Len(url), toks |-> <<Tok("TXT", url)>>]
                  ELSE IF sp > 0 THEN [n |-> sp + Len(url), toks |-> <<Tok("WS", SubSeq(seg, q, p - 1)), Tok("URL", url)>>]
                  ELSE [n |-> Len(url), toks |-> <<Tok("URL", url)>>]
     ELSE NoMatch

\* one attribute group of the start-tag regexp: \b[-a-zA-Z0-9:]+(\s*=\s*("[^<>"]*"|'[^<>']*'|[^ \t\n"'`=<>]*))?\s*
\* returns the number of atoms consumed (0 = no group here)
QuotedLen(seg, q, qc) ==   \* length of "...": 0 if not a quoted string
  IF q <= Len(seg) /\ seg[q] = qc
  THEN LET j == IndexIn(seg, q + 1, {qc, "<", ">"})
       IN IF j > 0 /\ seg[j] = qc THEN j - q + 1 ELSE 0
  ELSE 0
AttrGroupLen(seg, q, dev) ==
  LET nl == IF q <= Len(seg) /\ InClass(seg[q], "tagattr", dev) THEN 1 + RunLenC(seg, q + 1, "tagattr+", dev) ELSE 0
      p1 == q + nl
      w1 == RunLen(seg, p1, "ws")
  IN IF nl = 0 THEN 0
     ELSE IF p1 + w1 <= Len(seg) /\ seg[p1 + w1] = "="
          THEN LET p2 == p1 + w1 + 1
                   w2 == RunLen(seg, p2, "ws")
                   p3 == p2 + w2
                   dq == QuotedLen(seg, p3, "\"")
                   sq == QuotedLen(seg, p3, "'")
                   vl == IF dq > 0 THEN dq ELSE IF sq > 0 THEN sq ELSE RunLen(seg, p3, "unq")
                   p4 == p3 + vl
               IN (p4 - q) + RunLen(seg, p4, "ws")
          ELSE nl + w1
RECURSIVE AttrGroupsLen(_, _, _)
AttrGroupsLen(seg, q, dev) == LET g == AttrGroupLen(seg, q, dev) IN IF g = 0 THEN 0 ELSE g + AttrGroupsLen(seg, q + g, dev)

\* <name\s*(groups)*/?>  -> [n, name, attrs (text of the groups), selfclose]
StartTagAt(seg, q, dev) ==
  IF q + 1 <= Len(seg) /\ seg[q] = "<" /\ IsHtmlName(seg[q + 1])
  THEN LET w == RunLen(seg, q + 2, "ws")
           g0 == q + 2 + w
           gl == AttrGroupsLen(seg, g0, dev)
           e == g0 + gl
       IN IF e <= Len(seg) /\ seg[e] = ">"
          THEN [n |-> e - q + 1, name |-> seg[q + 1], attrs |-> SubSeq(seg, g0, e - 1), selfclose |-> FALSE]
          ELSE IF e + 1 <= Len(seg) /\ seg[e] = "/" /\ seg[e + 1] = ">"
          THEN [n |-> e - q + 2, name |-> seg[q + 1], attrs |-> SubSeq(seg, g0, e - 1), selfclose |-> TRUE]
          ELSE [n |-> 0, name |-> "", attrs |-> <<>>, selfclose |-> FALSE]
  ELSE [n |-> 0, name |-> "", attrs |-> <<>>, selfclose |-> FALSE]
\* </name\s*>
EndTagAt(seg, q) ==
  IF q + 2 <= Len(seg) /\ seg[q] = "<" /\ seg[q + 1] = "/" /\ IsHtmlName(seg[q + 2])
  THEN LET w == RunLen(seg, q + 3, "ws") IN
       IF q + 3 + w <= Len(seg) /\ seg[q + 3 + w] = ">" THEN [n |-> 4 + w, name |-> seg[q + 2]] ELSE [n |-> 0, name |-> ""]
  ELSE [n |-> 0, name |-> ""]

\* the alternatives of token_list in order; caret = "^" can match here
MatchAt(seg, q, caret, dev) ==
  LET a == seg[q]
      spb == RunLen(seg, q, "sp")
      url == UrlAt(seg, q)
      stg == StartTagAt(seg, q, dev)
      etg == EndTagAt(seg, q)
  IN IF Has(seg, q, <<"|", "}">>) THEN M1(2, "TEND", <<"|", "}">>)
     ELSE IF Has(seg, q, <<"{", "|", "|">>) THEN M1(3, "MISTOK", <<"{", "|", "|">>)
     ELSE IF Has(seg, q, <<"{", "|">>) THEN M1(2, "TSTART", <<"{", "|">>)
     ELSE IF Has(seg, q, <<"|", "+">>) THEN M1(2, "CAPTION", <<"|", "+">>)
     ELSE IF Has(seg, q, <<"|", "-">>) THEN M1(2, "ROW", <<"|", "-">>)
     ELSE IF Has(seg, q, <<"!", "!">>) THEN M1(2, "HDR2", <<"!", "!">>)
     ELSE IF url.n > 0 THEN url
     ELSE IF caret /\ q + spb <= Len(seg) /\ seg[q + spb] = "!" THEN M1(spb + 1, "HDR", SubSeq(seg, q, q + spb))
     ELSE IF caret /\ a = "|" THEN M1(1, "VBAR", <<"|">>)
     ELSE IF Has(seg, q, <<"|", "|">>) THEN M1(2, "DVBAR", <<"|", "|">>)
     ELSE IF a = "|" THEN M1(1, "VBAR", <<"|">>)
     ELSE IF caret /\ RunLen(seg, q, "dash") >= 4 THEN M1(RunLen(seg, q, "dash"), "HLINE", SubSeq(seg, q, q + RunLen(seg, q, "dash") - 1))
     ELSE IF caret /\ InClass(a, "lm", {}) THEN M1(RunLen(seg, q, "lm"), "LISTPFX", SubSeq(seg, q, q + RunLen(seg, q, "lm") - 1))
     ELSE IF spb > 0 THEN M1(spb, "WS", SubSeq(seg, q, q + spb - 1))
     ELSE IF a = ":" THEN M1(1, "COLON", <<":">>)
     ELSE IF stg.n > 0 THEN [n |-> stg.n, toks |-> <<[k |-> "STAG", s |-> SubSeq(seg, q, q + stg.n - 1), name |-> stg.name,
                                                       attrs |-> stg.attrs, selfclose |-> stg.selfclose]>>]
     ELSE IF etg.n > 0 THEN [n |-> etg.n, toks |-> <<[k |-> "ETAG", s |-> SubSeq(seg, q, q + etg.n - 1), name |-> etg.name]>>]
     ELSE IF a \in CkSet THEN M1(1, "CK", <<a>>)
     ELSE NoMatch

\* finditer over one part: text between matches is one non-token
RECURSIVE ScanSeg(_, _, _, _, _)
ScanSeg(seg, q, from, caret, dev) ==
  IF q > Len(seg) THEN (IF from <= Len(seg) THEN <<Tok("TXT", SubSeq(seg, from, Len(seg)))>> ELSE <<>>)
  ELSE LET m == MatchAt(seg, q, caret /\ q = 1, dev) IN
       IF m.n = 0 THEN ScanSeg(seg, q + 1, from, caret, dev)
       ELSE (IF from < q THEN <<Tok("TXT", SubSeq(seg, from, q - 1))>> ELSE <<>>) \o m.toks
            \o ScanSeg(seg, q + m.n, q + m.n, caret, dev)

\* is there a ''' (or longer) run after position p
RECURSIVE BoldFollows(_, _)
BoldFollows(line, p) ==
  IF p > Len(line) THEN FALSE
  ELSE IF line[p] = "'" THEN (LET r == RunLen(line, p, "q") IN r >= 3 \/ BoldFollows(line, p + r))
  ELSE BoldFollows(line, p + 1)
Quotes(n) == [i \in 1..n |-> "'"]
IT == Tok("ITALIC", <<"'", "'">>)
BT == Tok("BOLD", <<"'", "'", "'">>)
\* one ''+ part: [toks, used, state]
QuoteRun(line, p, r, state) ==
  IF r >= 5
  THEN CASE state = 1 -> [toks |-> <<IT, BT>>, used |-> 5, state |-> 2]
         [] state = 2 -> [toks |-> <<BT, IT>>, used |-> 5, state |-> 1]
         [] state = 3 -> [toks |-> <<BT, IT>>, used |-> 5, state |-> 0]
         [] state = 0 -> [toks |-> IF BoldFollows(line, p + r) THEN <<IT, BT>> ELSE <<BT, IT>>, used |-> 5, state |-> 3]
  ELSE IF r >= 3
  THEN CASE state = 1 -> IF BoldFollows(line, p + r) THEN [toks |-> <<BT>>, used |-> 3, state |-> 3]
                         ELSE [toks |-> <<IT>>, used |-> 2, state |-> 0]
         [] state = 2 -> [toks |-> <<BT>>, used |-> 3, state |-> 0]
         [] state = 3 -> [toks |-> <<BT>>, used |-> 3, state |-> 1]
         [] state = 0 -> [toks |-> <<BT>>, used |-> 3, state |-> 2]
  ELSE CASE state = 1 -> [toks |-> <<IT>>, used |-> 2, state |-> 0]
         [] state = 2 -> [toks |-> <<IT>>, used |-> 2, state |-> 3]
         [] state = 3 -> [toks |-> <<IT>>, used |-> 2, state |-> 2]
         [] state = 0 -> [toks |-> <<IT>>, used |-> 2, state |-> 1]

\* next position >= p where a run of >= 2 quotes starts (Len+1 if none)
RECURSIVE NextQuoteRun(_, _)
NextQuoteRun(line, p) ==
  IF p > Len(line) THEN p
  ELSE IF line[p] = "'" THEN (LET r == RunLen(line, p, "q") IN IF r >= 2 THEN p ELSE NextQuoteRun(line, p + r))
  ELSE NextQuoteRun(line, p + 1)

RECURSIVE LexLine(_, _, _, _, _)
LexLine(line, p, state, first, dev) ==
  IF p > Len(line) THEN <<>>
  ELSE LET r == IF line[p] = "'" THEN RunLen(line, p, "q") ELSE 0 IN
       IF r >= 2
       THEN LET qr == QuoteRun(line, p, r, state) IN
            qr.toks \o (IF r > qr.used THEN <<Tok("TXT", Quotes(r - qr.used))>> ELSE <<>>)
              \o LexLine(line, p + r, qr.state, FALSE, dev)
       ELSE LET e == NextQuoteRun(line, p) IN
            ScanSeg(SubSeq(line, p, e - 1), 1, 1, first, dev) \o LexLine(line, e, state, FALSE, dev)

\* split at newline runs; blank-only lines are skipped; every newline is its own token
RECURSIVE Lex(_, _)
Lex(s, dev) ==
  IF s = <<>> THEN <<>>
  ELSE IF s[1] = "NL" THEN <<Tok("NL", <<"NL">>)>> \o Lex(Tail(s), dev)
  ELSE LET j == IndexIn(s, 1, {"NL"})
           e == IF j = 0 THEN Len(s) ELSE j - 1
           line == SubSeq(s, 1, e)
       IN (IF \A k \in 1..e : line[k] = "SP" THEN <<>> ELSE LexLine(line, 1, 0, TRUE, dev)) \o Lex(SubSeq(s, e + 1, Len(s)), dev)

(* ------------------------------------------------------------------------ *)
(* parser state and stack operations (parser.py:727-885)                     *)
(* ------------------------------------------------------------------------ *)
\* st = [stack : Seq(frame), bol, wbol : BOOLEAN, beg : Nat (begline_disable_counter),
\*       ck : cookies, dev : set of deviations, oof : BOOLEAN (left the modelled fragment),
\*       cov : set of branch labels taken]
Frame(kind) == [kind |-> kind, sarg |-> <<>>, largs |-> <<>>, attrs |-> <<>>, children |-> <<>>, defn |-> <<>>]
Top(st) == st.stack[Len(st.stack)]
SetTop(st, f) == [st EXCEPT !.stack[Len(st.stack)] = f]
Cov(st, label) == [st EXCEPT !.cov = @ \cup {label}]
Have(st, kinds) == \E i \in 1..Len(st.stack) : st.stack[i].kind \in kinds
HaveArgsKinds == {"LINK", "TEMPLATE", "TEMPLATE_ARG", "PARSER_FN", "URL"}
BegEnabled(st) == st.beg = 0
AtBol(st) == st.bol /\ BegEnabled(st)     \* ctx.beginning_of_line and ctx.begline_enabled

\* children.append(text) followed by the merge of _parser_merge_str_children
AddText(f, atoms) ==
  LET n == Len(f.children) IN
  IF atoms = <<>> THEN f
  ELSE IF n > 0 /\ IsStr(f.children[n]) THEN [f EXCEPT !.children[n] = Str(f.children[n].s \o atoms)]
  ELSE [f EXCEPT !.children = Append(f.children, Str(atoms))]
AddChild(f, node) == [f EXCEPT !.children = Append(f.children, node)]

Push(st, kind) == [st EXCEPT !.stack = Append(st.stack, Frame(kind))]
\* drop the top frame without attaching it (ctx.parser_stack.pop(); parent.children.pop())
Unpush(st) == [st EXCEPT !.stack = SubSeq(st.stack, 1, Len(st.stack) - 1)]

TrimAtoms(s) == RStrip(LStrip(s))
IsPfTemplate(f) ==   \* template_name in PARSER_FUNCTIONS and no parameters
  /\ f.kind = "TEMPLATE" /\ Len(f.largs) = 1
  /\ Len(f.largs[1]) = 1 /\ IsStr(f.largs[1][1]) /\ TrimAtoms(f.largs[1][1].s) \in PFNames

RECURSIVE TextFn(_, _), Pop(_, _)

\* _parser_pop
Pop(st, warn) ==
  LET n == Len(st.stack)
      f == st.stack[n]
  IN IF warn /\ f.kind = "URL" /\ f.children = <<>>
     THEN TextFn(Cov(Unpush(st), "pop:url-unpush"), <<"[">>)
     ELSE IF f.kind \in {"BOLD", "ITALIC"} /\ f.children = <<>>
     THEN Cov(Unpush(st), "pop:empty-format")
     ELSE LET f1 == IF f.kind \in HaveArgsKinds THEN [f EXCEPT !.largs = Append(f.largs, f.children), !.children = <<>>] ELSE f
              f2 == IF IsPfTemplate(f1) THEN [f1 EXCEPT !.kind = "PARSER_FN"] ELSE f1
              rest == SubSeq(st.stack, 1, n - 1)
          IN [st EXCEPT !.stack = [rest EXCEPT ![n - 1] = AddChild(rest[n - 1], f2)],
                        !.cov = @ \cup (IF f2.kind # f1.kind THEN {"pop:template->parserfn"} ELSE {})]

RECURSIVE PopUntil(_, _, _)
\* while top.kind not in stop: pop(warn)
PopUntil(st, stop, warn) == IF Top(st).kind \in stop \/ Len(st.stack) = 1 THEN st ELSE PopUntil(Pop(st, warn), stop, warn)

(* ---- text_fn (parser.py:927-1040); lists are outside the fragment ---- *)
LooksLikeUrl(a) ==   \* re.match(r"(https?:|mailto:|//)", token)
  \/ Len(a) >= 2 /\ a[1] \in UrlSchemes \cup {"mailto"} /\ a[2] = ":"
  \/ Len(a) >= 2 /\ a[1] = "/" /\ a[2] = "/"
AllSpace(a) == a # <<>> /\ \A i \in 1..Len(a) : a[i] \in WS
InRefOrP(st) == \E i \in 1..Len(st.stack) : st.stack[i].kind = "HTML" /\ st.stack[i].sarg \in {<<"ref">>, <<"p">>}

RECURSIVE BolPops(_)
BolPops(st) ==   \* the `while True` of text_fn: BOLD / ITALIC are closed at a line start
  IF Top(st).kind \in {"BOLD", "ITALIC"} THEN BolPops(Cov(Pop(st, FALSE), "text:format-closed-at-bol")) ELSE st

TextFn(st, a) ==
  LET node == Top(st) IN
  IF node.kind = "URL" /\ node.largs = <<>> /\ node.children = <<>> /\ ~LooksLikeUrl(a)
  THEN TextFn(Cov(Unpush(st), "text:not-a-url"), <<"[">> \o a)
  ELSE IF node.kind = "URL" /\ AllSpace(a) /\ node.largs = <<>>
  THEN Cov(SetTop(st, [node EXCEPT !.largs = <<node.children>>, !.children = <<>>]), "text:url-arg-split")
  ELSE
  LET st1 == IF AtBol(st) THEN BolPops(st) ELSE st
      drop == AtBol(st) /\ a[1] = "SP" /\ Top(st1).kind \in {"TABLE", "TABLE_ROW"}
      st2 == IF AtBol(st) /\ a[1] = "SP" /\ ~drop /\ Top(st1).kind # "PREFORMATTED" /\ ~InRefOrP(st1)
             THEN Cov(Push(st1, "PREFORMATTED"), "text:preformatted") ELSE st1
      top == Top(st2)
      n == Len(top.children)
      trail == /\ n > 0 /\ IsNode(top.children[n]) /\ top.children[n].kind = "LINK"
               /\ top.children[n].children = <<>> /\ IsPlainWord(a[1])
  IN IF drop THEN Cov(st1, "text:blank-dropped-in-table")
     ELSE IF trail
     THEN LET st3 == Cov(SetTop(st2, [top EXCEPT !.children[n] = [@ EXCEPT !.children = <<Str(<<a[1]>>)>>]]), "text:link-trail")
          IN SetTop(st3, AddText(Top(st3), Tail(a)))
     ELSE SetTop(st2, AddText(top, a))

(* ---- parse_attrs (parser.py:1872-1889) over the atoms of the attribute text ---- *)
\* \b(name)(?:\s*=\s*("[^"]*"|'[^']*'|[^"'<>`\s]*))?\s*  with finditer.  Names and values
\* are the concatenated spellings of their atoms (one atom for every URL-safe name/value).
SkipWs(s, p) == p + RunLen(s, p, "ws")
PlainQuotedLen(s, q, qc) ==   \* length of qc [^qc]* qc at q, 0 if none
  IF q <= Len(s) /\ s[q] = qc THEN (LET j == IndexIn(s, q + 1, {qc}) IN IF j > 0 THEN j - q + 1 ELSE 0) ELSE 0
\* What-if switches (never part of a Dev the harness passes; Demo_ParserStruct_attr_*.cfg let TLC show
\* that each of them breaks the law on the universe "ATTR"): ways of taking the delimiters off a quoted
\* value that agree with "drop the first and the last character" on every value made of letters
\*   "QuotesStrippedGreedily"   every quote character of either kind is taken off both ends
\*   "QuotesRemovedEverywhere"  every quote character of either kind is taken out of the value
\*   "ValueEndsAtAnyQuote"      a quoted value ends at the next quote character of either kind
\*   "NameClassOfStartTags"     the NAME class of parse_attrs is the positive class of start tags ([\w:.-]+)
\*                              instead of "everything that cannot end a name": a name written in a table
\*                              position is cut at the first character outside it (d~1=7 -> d, 1=7)
WhatIfAttrDevs == {"QuotesStrippedGreedily", "QuotesRemovedEverywhere", "ValueEndsAtAnyQuote", "NameClassOfStartTags"}
QuoteAtoms == {"\"", "'"}
RECURSIVE LStripQ(_), RStripQ(_)
LStripQ(s) == IF Len(s) > 0 /\ s[1] \in QuoteAtoms THEN LStripQ(Tail(s)) ELSE s
RStripQ(s) == IF Len(s) > 0 /\ s[Len(s)] \in QuoteAtoms THEN RStripQ(SubSeq(s, 1, Len(s) - 1)) ELSE s
\* the value of a quoted match m = delimiter ... delimiter
Unquote(m, dev) ==
  IF "QuotesRemovedEverywhere" \in dev THEN SelectSeq(m, LAMBDA x : x \notin QuoteAtoms)
  ELSE IF "QuotesStrippedGreedily" \in dev THEN RStripQ(LStripQ(m))
  ELSE SubSeq(m, 2, Len(m) - 1)                    \* value[1:-1]: exactly one delimiter on each side
QuotedValueLen(s, q, qc, dev) ==   \* length of qc [^qc]* qc at q, 0 if none
  IF "ValueEndsAtAnyQuote" \in dev
  THEN (IF q <= Len(s) /\ s[q] = qc THEN (LET j == IndexIn(s, q + 1, QuoteAtoms) IN IF j > 0 THEN j - q + 1 ELSE 0) ELSE 0)
  ELSE PlainQuotedLen(s, q, qc)
RECURSIVE ParseAttrsFromD(_, _, _)
ParseAttrsFromD(s, p, dev) ==
  IF p > Len(s) THEN <<>>
  ELSE IF ~(IsWord(s[p]) \/ s[p] = "_") THEN ParseAttrsFromD(s, p + 1, dev)      \* \b
  ELSE LET nl == RunLen(s, p, IF "NameClassOfStartTags" \in dev THEN "attrname-as-tag" ELSE "attrname")
           name == CatAtoms(SubSeq(s, p, p + nl - 1))
           p1 == SkipWs(s, p + nl)
       IN IF p1 <= Len(s) /\ s[p1] = "="
          THEN LET p2 == SkipWs(s, p1 + 1)
                   dq == QuotedValueLen(s, p2, "\"", dev)
                   sq == QuotedValueLen(s, p2, "'", dev)
                   ql == IF dq > 0 THEN dq ELSE sq
                   ul == RunLen(s, p2, "attrunq")
               IN IF ql > 0 THEN <<Attr(name, CatAtoms(Unquote(SubSeq(s, p2, p2 + ql - 1), dev)))>> \o ParseAttrsFromD(s, SkipWs(s, p2 + ql), dev)
                  ELSE <<Attr(name, CatAtoms(SubSeq(s, p2, p2 + ul - 1)))>> \o ParseAttrsFromD(s, SkipWs(s, p2 + ul), dev)
          ELSE <<Attr(name, "")>> \o ParseAttrsFromD(s, SkipWs(s, p + nl), dev)
ParseAttrsFrom(s, p) == ParseAttrsFromD(s, p, {})
\* node.attrs[name] = value: a dict, later duplicates overwrite in place
RECURSIVE PutAttrs(_, _)
PutAttrs(attrs, new) ==
  IF new = <<>> THEN attrs
  ELSE LET a == Head(new)
           hit == \E i \in 1..Len(attrs) : attrs[i].n = a.n
       IN PutAttrs(IF hit THEN [i \in 1..Len(attrs) |-> IF attrs[i].n = a.n THEN a ELSE attrs[i]] ELSE Append(attrs, a),
                   Tail(new))
ParseAttrsD(f, s, dev) == [f EXCEPT !.attrs = PutAttrs(f.attrs, ParseAttrsFromD(s, 1, dev))]
ParseAttrs(f, s) == ParseAttrsD(f, s, {})

(* ---- check_for_attributes / table_check_attrs / table_row_check_attrs ---- *)
\* html.escape(quote=True)
EscapeAtom(a) ==
  CASE a = "&" -> <<"&", "amp", ";">> [] a = "<" -> <<"&", "lt", ";">> [] a = ">" -> <<"&", "gt", ";">>
    [] a = "\"" -> <<"&", "quot", ";">> [] a = "'" -> <<"&", "#", "x27", ";">> [] OTHER -> <<a>>
EscapeHtml(s) == Concat([i \in 1..Len(s) |-> EscapeAtom(s[i])])
\* candidate: strings as they are, child nodes re-serialised and escaped
Candidate(kids, emitDevs) ==
  Concat([i \in 1..Len(kids) |-> IF IsStr(kids[i]) THEN kids[i].s ELSE EscapeHtml(Unparse(kids[i], emitDevs))])
\* re.match(attr_assignments_re): (\s*name\s*=\s*("..."|'...'|[^"'<>`\s]+))+\s*$   (greedy, no backtracking
\* into an unquoted value)
RECURSIVE MatchAssignments(_, _, _)
MatchAssignments(s, p, n) ==
  LET p0 == SkipWs(s, p) IN
  IF p0 > Len(s) THEN n >= 1
  ELSE LET nl == RunLen(s, p0, "attrname")
           p1 == SkipWs(s, p0 + nl)
       IN IF nl = 0 \/ p1 > Len(s) \/ s[p1] # "=" THEN FALSE
          ELSE LET p2 == SkipWs(s, p1 + 1)
                   dq == PlainQuotedLen(s, p2, "\"")
                   sq == PlainQuotedLen(s, p2, "'")
                   ql == IF dq > 0 THEN dq ELSE sq
                   ul == RunLen(s, p2, "attrunq")
               IN IF ql > 0 THEN MatchAssignments(s, p2 + ql, n + 1)
                  ELSE IF ul > 0 THEN MatchAssignments(s, p2 + ul, n + 1)
                  ELSE FALSE
IsCellNode(c) == IsNode(c) /\ c.kind \in {"TABLE_CELL", "TABLE_HEADER_CELL"}
CheckAttrs(st, kind) ==
  LET f == Top(st) IN
  IF f.kind # kind \/ f.children = <<>> THEN st
  \* repaired table_row_check_attrs: a row that already has cells has no attribute text left
  ELSE IF kind = "TABLE_ROW" /\ "RowCellsReadAsAttributes" \notin st.dev /\ (\E i \in 1..Len(f.children) : IsCellNode(f.children[i]))
  THEN Cov(st, "attrs:row-has-cells")
  ELSE IF Len(f.children) = 1 /\ IsStr(f.children[1])
  THEN Cov(SetTop(st, ParseAttrsD([f EXCEPT !.children = <<>>], f.children[1].s, st.dev)), "attrs:" \o kind)
  ELSE LET cand == Candidate(f.children, st.dev \cap AllUnparseDevs) IN
       IF \A i \in 1..Len(cand) : cand[i] \in WS THEN SetTop(st, [f EXCEPT !.children = <<>>])
       ELSE IF MatchAssignments(cand, 1, 0)
       THEN Cov(SetTop(st, ParseAttrsD([f EXCEPT !.children = <<>>], cand, st.dev)), "attrs:regex-over-child-nodes")
       ELSE Cov(st, "attrs:not-attributes")
TableCheckAttrs(st) == CheckAttrs(st, "TABLE")
TableRowCheckAttrs(st) == CheckAttrs(st, "TABLE_ROW")

LineStart(st) == st.bol \/ st.wbol     \* ctx.beginning_of_line or ctx.wsp_beginning_of_line

RECURSIVE VbarFn(_, _), TableCellFn(_, _), TableHdrCellFn(_, _), CellLoop(_, _), HdrLoop(_, _)

(* ---- table_start_fn / mistokenized_start_fn ---- *)
TableStartFn(st) ==
  IF ~LineStart(st) THEN VbarFn(TextFn(Cov(st, "tstart:midline"), <<"{">>), <<"|">>)
  ELSE Cov(Push(st, "TABLE"), "tstart")

(* ---- table_caption_fn ---- *)
TableCaptionFn(st) ==
  IF ~LineStart(st) THEN TextFn(VbarFn(Cov(st, "caption:midline"), <<"|">>), <<"+">>)
  ELSE LET st1 == TableCheckAttrs(st) IN
       IF ~Have(st1, {"TABLE"}) THEN TextFn(st1, <<"|", "+">>)
       ELSE Cov(Push(PopUntil(st1, {"TABLE"}, TRUE), "TABLE_CAPTION"), "caption")

(* ---- table_row_fn ---- *)
RECURSIVE ContainsKind(_, _)
ContainsKind(kids, kind) == \E i \in 1..Len(kids) : IsNode(kids[i]) /\ (kids[i].kind = kind \/ ContainsKind(kids[i].children, kind))
TableRowFn(st) ==
  IF ~LineStart(st)
  THEN IF Top(st).kind = "TABLE" /\ ~ContainsKind(Top(st).children, "TABLE_ROW") THEN Cov(st, "row:midline-ignored")
       ELSE TextFn(VbarFn(Cov(st, "row:midline"), <<"|">>), <<"-">>)
  ELSE LET st1 == TableCheckAttrs(st) IN
       IF ~Have(st1, {"TABLE"}) THEN TextFn(st1, <<"|", "-">>)
       ELSE Cov(Push(PopUntil(st1, {"TABLE"}, TRUE), "TABLE_ROW"), "row")

(* ---- table_hdr_cell_fn ---- *)
TablePartKinds == {"TABLE", "TABLE_CAPTION", "TABLE_ROW", "TABLE_CELL", "TABLE_HEADER_CELL"}
RECURSIVE InnerTablePartAt(_, _)
InnerTablePartAt(st, i) == IF i = 0 THEN "none" ELSE IF st.stack[i].kind \in TablePartKinds THEN st.stack[i].kind ELSE InnerTablePartAt(st, i - 1)
InnerTablePart(st) == InnerTablePartAt(st, Len(st.stack))      \* kind of the innermost open table part
HdrLoop(st, tok) ==
  LET node == Top(st) IN
  IF node.kind = "TABLE_ROW" THEN Cov(Push(st, "TABLE_HEADER_CELL"), "hdr:in-row")
  ELSE IF node.kind = "TABLE" THEN Cov(Push(Push(st, "TABLE_ROW"), "TABLE_HEADER_CELL"), "hdr:implicit-row")
  ELSE IF node.kind = "TABLE_CAPTION"
  THEN IF AtBol(st) THEN Cov(Push(Push(Pop(st, FALSE), "TABLE_ROW"), "TABLE_HEADER_CELL"), "hdr:closes-caption")
       ELSE TextFn(st, tok)
  ELSE IF node.kind \in {"HTML", "TEMPLATE", "LINK", "URL"} THEN TextFn(Cov(st, "hdr:text-in-inline"), tok)
  \* repaired table_hdr_cell_fn: an argument reference / a parser function is a call like a template: the
  \* characters between its brackets belong to its arguments
  ELSE IF node.kind \in {"TEMPLATE_ARG", "PARSER_FN"} /\ "HdrSepEndsCall" \notin st.dev THEN TextFn(Cov(st, "hdr:text-in-call"), tok)
  \* repaired: on a data line (innermost open table part = a data cell) ! and !! are text also inside a bold / italic run
  ELSE IF node.kind \in {"BOLD", "ITALIC"} /\ "HdrSepEndsFormat" \notin st.dev /\ InnerTablePart(st) = "TABLE_CELL"
          /\ ~AtBol(st) /\ ~st.wbol THEN TextFn(Cov(st, "hdr:text-in-format"), tok)
  ELSE IF node.kind = "TABLE_CELL" /\ ~AtBol(st) /\ ~st.wbol THEN TextFn(Cov(st, "hdr:text-in-cell"), tok)
  ELSE IF Len(st.stack) = 1 THEN TextFn(st, tok)
  ELSE HdrLoop(Pop(st, TRUE), tok)
TableHdrCellFn(st, tok) ==   \* tok = <<"!">> or <<"!", "!">>
  LET st1 == TableCheckAttrs(TableRowCheckAttrs(st)) IN
  IF ~Have(st1, {"TABLE"}) THEN TextFn(st1, tok)
  ELSE IF tok = <<"!">> /\ ~LineStart(st1) THEN TextFn(st1, tok)
  ELSE HdrLoop(st1, tok)

(* ---- table_cell_fn ---- *)
CellLoop(st, tok) ==
  LET node == Top(st) IN
  IF node.kind = "TABLE_ROW" THEN Cov(Push(st, "TABLE_CELL"), "cell:in-row")
  ELSE IF node.kind = "TABLE" THEN Cov(Push(Push(st, "TABLE_ROW"), "TABLE_CELL"), "cell:implicit-row")
  ELSE IF node.kind = "TABLE_CAPTION"
  THEN IF "CaptionSwallowsDataCells" \notin st.dev /\ tok = <<"|">> /\ AtBol(st)
       THEN Cov(Push(Push(Pop(st, FALSE), "TABLE_ROW"), "TABLE_CELL"), "cell:closes-caption")
       ELSE TextFn(Cov(st, "cell:text-in-caption"), tok)
  ELSE IF node.kind = "HTML" THEN TextFn(Cov(st, "cell:text-in-html"), tok)
  ELSE IF Len(st.stack) = 1 THEN TextFn(st, tok)
  ELSE CellLoop(Pop(st, TRUE), tok)
TableCellFn(st, tok) ==   \* tok = <<"|">> or <<"|", "|">>
  LET st1 == TableCheckAttrs(TableRowCheckAttrs(st))
      node == Top(st1)
  IN IF ~Have(st1, {"TABLE"}) THEN TextFn(st1, tok)
     ELSE IF tok = <<"|">> /\ ~st1.wbol /\ ~AtBol(st1)
             /\ node.kind \in {"TABLE_CAPTION", "TABLE_HEADER_CELL", "TABLE_CELL"}
     THEN \* the first | after the start of a caption / cell separates its attributes
          IF node.attrs = <<>>
          THEN IF Len(node.children) = 1 /\ IsStr(node.children[1])
               THEN Cov(SetTop(st1, ParseAttrsD([node EXCEPT !.children = <<>>], node.children[1].s, st1.dev)), "cell:attrs")
               ELSE Cov(st1, "cell:bar-dropped")
          ELSE TextFn(Cov(st1, "cell:bar-is-text"), tok)
     ELSE CellLoop(st1, tok)

(* ---- vbar_fn / double_vbar_fn ---- *)
VbarFn(st, tok) ==
  LET node == Top(st) IN
  IF node.kind = "URL" THEN TextFn(st, tok)
  ELSE IF node.kind \in HaveArgsKinds
  THEN Cov(SetTop(st, [node EXCEPT !.largs = Append(node.largs, node.children), !.children = <<>>]), "vbar:argument")
  ELSE IF Have(st, {"TABLE"}) THEN TableCellFn(st, tok)
  ELSE IF Have(st, HaveArgsKinds) THEN VbarFn(Pop(st, TRUE), tok)
  ELSE TextFn(Cov(st, "vbar:text"), tok)

RECURSIVE DvbarPops(_)
DvbarPops(st) == IF Top(st).kind \in {"TABLE_CELL", "TABLE_HEADER_CELL"} THEN DvbarPops(Pop(st, TRUE)) ELSE st
DoubleVbarFn(st) ==
  IF Top(st).kind \in HaveArgsKinds THEN VbarFn(VbarFn(st, <<"|">>), <<"|">>)
  ELSE LET st1 == DvbarPops(st)
           node == Top(st1)
           n == Len(node.children)
       IN IF node.kind = "TABLE" THEN TableCellFn(Push(st1, "TABLE_ROW"), <<"|", "|">>)
          ELSE IF node.kind \in {"TABLE_CAPTION", "HTML"} THEN TextFn(Cov(st1, "dvbar:text"), <<"|", "|">>)
          ELSE IF node.kind = "TABLE_ROW" /\ n > 0 /\ IsNode(node.children[n]) /\ node.children[n].kind = "TABLE_HEADER_CELL"
          THEN TableHdrCellFn(Cov(st1, "dvbar:header-line"), <<"|", "|">>)
          ELSE TableCellFn(st1, <<"|", "|">>)

(* ---- table_end_fn ---- *)
TableEndFn(st) ==
  IF ~LineStart(st) THEN TextFn(VbarFn(Cov(st, "tend:midline"), <<"|">>), <<"}">>)
  ELSE LET st1 == TableCheckAttrs(TableRowCheckAttrs(st)) IN
       IF ~Have(st1, {"TABLE"}) THEN TextFn(st1, <<"|", "}">>)
       ELSE Cov(Pop(PopUntil(st1, {"TABLE"}, TRUE), FALSE), "tend")

(* ---- italic_fn / bold_fn ---- *)
RECURSIVE FormatClose(_, _, _)
\* pop until `kind` is closed; remember whether the other format was crossed
FormatClose(st, kind, crossed) ==
  LET k == Top(st).kind IN
  IF k = kind THEN [st |-> Pop(st, FALSE), crossed |-> crossed]
  ELSE FormatClose(Pop(st, FALSE), kind, crossed \/ k = (IF kind = "ITALIC" THEN "BOLD" ELSE "ITALIC"))
FormatFn(st, kind, tok) ==
  LET node == Top(st) IN
  IF node.kind \in {"TEMPLATE", "TEMPLATE_ARG"} THEN TextFn(Cov(st, "format:text-in-call"), tok)
  ELSE IF ~Have(st, {kind}) \/ node.kind = "LINK" THEN Cov(Push(st, kind), "format:open")
  ELSE LET r == FormatClose(st, kind, FALSE) IN
       IF r.crossed THEN Cov(Push(r.st, IF kind = "ITALIC" THEN "BOLD" ELSE "ITALIC"), "format:reopen-crossed")
       ELSE Cov(r.st, "format:close")

(* ---- colon_fn / list_fn (only the parts that do not create lists) ---- *)
ListFn(st, tok) ==
  LET node == Top(st) IN
  IF tok = <<":">> /\ node.kind = "TEMPLATE"
  THEN IF node.largs = <<>> /\ Len(node.children) = 1 /\ IsStr(node.children[1]) /\ node.children[1].s \in PFNames
       THEN Cov(SetTop(st, [node EXCEPT !.kind = "PARSER_FN", !.largs = <<node.children>>, !.children = <<>>]), "colon:parser-fn")
       ELSE TextFn(Cov(st, "colon:text"), tok)
  ELSE IF node.kind \in {"LINK", "URL"} THEN TextFn(st, tok)
  ELSE IF ~AtBol(st) THEN TextFn(st, tok)
  ELSE [TextFn(st, tok) EXCEPT !.oof = TRUE]     \* a real list would start here

(* ---- url_fn ---- *)
UrlFn(st, a) ==
  LET n == Len(a)
      suf == a[n] \in {".", "!", "?", ","}
      u == IF suf THEN SubSeq(a, 1, n - 1) ELSE a
  IN IF Top(st).kind = "URL" THEN TextFn(st, u)
     ELSE LET st1 == Pop(TextFn(Cov(Push(st, "URL"), "url:bare"), u), FALSE)
          IN IF suf THEN TextFn(st1, <<a[n]>>) ELSE st1

(* ---- tag_fn (parser.py:1892-2124) ---- *)
Content(t) == {Tags[t].content[i] : i \in 1..Len(Tags[t].content)}
Parents(t) == {Tags[t].parents[i] : i \in 1..Len(Tags[t].parents)}
CloseNext(t) == {Tags[t].closenext[i] : i \in 1..Len(Tags[t].closenext)}
Allowed == DOMAIN Tags
\* set_html_tag_data
FlowParents == {k \in Allowed : Content(k) \cap {"flow", "*"} # {}}
PhrasingParents == {k \in Allowed : Content(k) \cap {"phrasing", "flow", "*"} # {}}
PermittedParents(t) ==
  (IF Parents(t) \cap {"flow", "*"} # {} THEN FlowParents ELSE {})
    \cup (IF Parents(t) \cap {"phrasing", "*"} # {} THEN PhrasingParents ELSE {})
    \cup Parents(t)

RECURSIVE AutoClose(_, _)
AutoClose(st, name) ==   \* close parents that may not contain <name>
  LET node == Top(st) IN
  IF node.kind = "URL" /\ node.children = <<>> THEN AutoClose(TextFn(Unpush(st), <<"[">>), name)
  ELSE IF node.kind # "HTML" THEN st
  ELSE IF node.sarg[1] \in PermittedParents(name) THEN st
  ELSE AutoClose(Cov(Pop(st, name \notin CloseNext(node.sarg[1])), "tag:auto-close-parent"), name)

RECURSIVE CloseTo(_, _)
CloseTo(st, name) ==
  LET node == Top(st) IN
  IF node.kind = "URL" /\ node.children = <<>> THEN CloseTo(TextFn(Unpush(st), <<"[">>), name)
  ELSE IF node.kind = "HTML" /\ node.sarg = <<name>> THEN Cov(Pop(st, FALSE), "tag:close")
  ELSE IF node.kind = "HTML" /\ CloseNext(node.sarg[1]) # {} THEN CloseTo(Cov(Pop(st, FALSE), "tag:implicit-close"), name)
  ELSE CloseTo(Cov(Pop(st, TRUE), "tag:close-crosses-node"), name)

StartTagFn(st, tok) ==
  LET name == tok.name IN
  IF Have(st, {"TEMPLATE", "TEMPLATE_ARG", "PARSER_FN"}) THEN TextFn(Cov(st, "tag:text-in-call"), tok.s)
  ELSE IF name = "section" THEN st
  ELSE IF name = "noinclude" /\ tok.selfclose THEN Cov(st, "tag:noinclude-dropped")
  ELSE IF name \in {"pre", "nowiki"} THEN [TextFn(st, tok.s) EXCEPT !.oof = TRUE]
  ELSE IF name \notin Allowed THEN TextFn(Cov(st, "tag:not-allowed"), tok.s)
  ELSE LET st1 == AutoClose(st, name)
           st2 == Push(st1, "HTML")
           st3 == SetTop(st2, ParseAttrsD([Top(st2) EXCEPT !.sarg = <<name>>], tok.attrs, st.dev))
       IN IF Tags[name].noend \/ tok.selfclose THEN Cov(Pop(st3, FALSE), "tag:void") ELSE Cov(st3, "tag:open")

EndTagFn(st, tok) ==
  LET name == tok.name IN
  IF Have(st, {"TEMPLATE", "TEMPLATE_ARG", "PARSER_FN"}) THEN TextFn(Cov(st, "tag:text-in-call"), tok.s)
  ELSE IF name = "section" THEN st
  ELSE IF name = "pre" THEN [TextFn(st, tok.s) EXCEPT !.oof = TRUE]
  ELSE IF \E i \in 1..Len(st.stack) : st.stack[i].kind = "HTML" /\ st.stack[i].sarg = <<name>> THEN CloseTo(st, name)
  ELSE IF name \in {"br", "hl", "wbr"} THEN Cov(Pop(SetTop(Push(st, "HTML"), [Frame("HTML") EXCEPT !.sarg = <<name>>]), FALSE), "tag:stray-br")
  ELSE TextFn(Cov(st, "tag:stray-end"), tok.s)

(* ---- magic_fn and process_text (mutually recursive) ---- *)
RECURSIVE ProcessText(_, _), Feed(_, _, _), MagicFn(_, _), ProcessArgs(_, _, _)

Dispatch(st, tok) ==
  CASE tok.k = "TXT" -> TextFn(st, tok.s)
    [] tok.k \in {"NL", "WS"} -> TextFn(st, tok.s)
    [] tok.k = "BOLD" -> FormatFn(st, "BOLD", tok.s)
    [] tok.k = "ITALIC" -> FormatFn(st, "ITALIC", tok.s)
    [] tok.k = "TSTART" -> TableStartFn(st)
    [] tok.k = "MISTOK" -> (IF ~LineStart(st) THEN DoubleVbarFn(TextFn(st, <<"{">>)) ELSE VbarFn(TableStartFn(st), <<"|">>))
    [] tok.k = "TEND" -> TableEndFn(st)
    [] tok.k = "CAPTION" -> TableCaptionFn(st)
    [] tok.k = "HDR" -> TableHdrCellFn(st, <<"!">>)
    [] tok.k = "HDR2" -> TableHdrCellFn(st, <<"!", "!">>)
    [] tok.k = "ROW" -> TableRowFn(st)
    [] tok.k = "DVBAR" -> DoubleVbarFn(st)
    [] tok.k = "VBAR" -> VbarFn(st, <<"|">>)
    [] tok.k = "STAG" -> StartTagFn(st, tok)
    [] tok.k = "ETAG" -> EndTagFn(st, tok)
    [] tok.k \in {"LISTPFX", "COLON"} -> ListFn(st, tok.s)
    [] tok.k = "HLINE" -> [TextFn(st, tok.s) EXCEPT !.oof = TRUE]
    [] tok.k = "URL" -> UrlFn(st, tok.s)
    [] tok.k = "CK" -> MagicFn(st, st.ck[CkIdx(tok.s[1])])

\* the bookkeeping at the end of the loop body of process_text
Feed(st, toks, i) ==
  IF i > Len(toks) THEN st
  ELSE LET tok == toks[i]
           r == Dispatch(st, tok)
           sp == AllSpace(tok.s)
       IN Feed([r EXCEPT !.wbol = r.bol /\ sp, !.bol = tok.s[Len(tok.s)] = "NL"], toks, i + 1)
ProcessText(st, atoms) == Feed(st, Lex(atoms, st.dev), 1)

\* process_text(args[0]); for arg in args[1:]: vbar_fn("|"); process_text(arg)
ProcessArgs(st, args, i) ==
  IF i > Len(args) THEN st
  ELSE ProcessArgs(ProcessText(IF i = 1 THEN st ELSE VbarFn(st, <<"|">>), args[i]), args, i + 1)

RECURSIVE CloseCall(_, _)
CloseCall(st, kinds) ==   \* pop until the call node itself has been popped
  IF Len(st.stack) = 1 THEN st
  ELSE IF Top(st).kind \in kinds THEN Pop(st, FALSE)
  ELSE CloseCall(Pop(st, TRUE), kinds)

MagicFn(st0, ck) ==
  LET st == [st0 EXCEPT !.bol = FALSE]
      Call(kind, closes) ==
        LET s1 == Push(st, kind)
            s2 == ProcessArgs([s1 EXCEPT !.beg = @ + 1], ck.args, 1)
        IN CloseCall([s2 EXCEPT !.beg = @ - 1], closes)
  IN CASE ck.kind = "T" -> Cov(Call("TEMPLATE", {"TEMPLATE", "PARSER_FN"}), "magic:template")
       [] ck.kind = "A" -> Cov(Call("TEMPLATE_ARG", {"TEMPLATE_ARG"}), "magic:argument")
       [] ck.kind = "L" -> Cov(Call("LINK", {"LINK"}), "magic:link")
       [] ck.kind = "E" ->
            LET s1 == Push(st, "URL")
                s2 == ProcessArgs([s1 EXCEPT !.beg = @ + 1], ck.args, 1)
                s3 == [s2 EXCEPT !.beg = @ - 1]
            IN IF ~Have(s3, {"URL"}) THEN TextFn(Cov(s3, "magic:not-a-url"), <<"]">>)
               ELSE Cov(CloseCall(s3, {"URL"}), "magic:extlink")

(* ---- parse_encoded ---- *)
RECURSIVE PopAll(_)
PopAll(st) == IF Len(st.stack) = 1 THEN st ELSE PopAll(Pop(st, TRUE))
\* parse() on a page whose cookie table is `tab` (the state start_page() resets); the state
\* returned carries the table the next parse() / expand() on the same page starts from
RunFrom(tab, atoms, Dev) ==
  LET e == EncodeFrom(tab, atoms, Dev)
      root == [Frame("ROOT") EXCEPT !.largs = <<<<Str(<<"Pg">>)>>>>]
      st0 == [stack |-> <<root>>, bol |-> TRUE, wbol |-> FALSE, beg |-> 0, ck |-> e.cookies, dev |-> Dev,
              oof |-> FALSE, cov |-> {}, tab |-> e.tab]
  IN PopAll(ProcessText(st0, e.text))
Run(atoms, Dev) == RunFrom(<<>>, atoms, Dev)       \* start_page(); parse()
\* expand() is modelled only by what it leaves behind for later parses of the page: the
\* cookies of its text (what it returns is the subject of other properties)
TabAfterExpand(tab, atoms, Dev) == EncodeFrom(tab, atoms, Dev).tab
MachineTree(atoms, Dev) == Run(atoms, Dev).stack[1]
=============================================================================
