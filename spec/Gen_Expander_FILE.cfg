SPECIFICATION Spec
CONSTANTS
  Universe = "FILE"
  Known <- NoDev
  DepthLimit = 100
  PreBody <- ThePreBody
  LogEvents = FALSE
INVARIANT GenInv
CHECK_DEADLOCK FALSE
