SPECIFICATION Spec
CONSTANTS
  Universe = "FILE"
  Known <- KnownExp
  DepthLimit = 100
  PreBody <- ThePreBody
  LogEvents = FALSE
INVARIANT GenInv
CHECK_DEADLOCK FALSE
