SPECIFICATION Spec
CONSTANTS
  Dev <- DevSameSection
  Titles <- TitlesOne
  Sections <- SecTwo
  Subsections <- SubTwo
  EmitSet <- EmitTwoKinds
  ExpandTexts <- NoText
  ParseTexts <- NoText
  Markers <- MarkersNone
  MaxMsgs = 1
  MaxMarkers = 0
INVARIANT StampsSubsection
CHECK_DEADLOCK FALSE
