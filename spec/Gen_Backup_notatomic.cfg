SPECIFICATION GSpec
CONSTANTS
  Dev <- DevBak
  MaxRuns = 2
  FlowDef <- FlowsLib
INVARIANT GenInv
CHECK_DEADLOCK FALSE
