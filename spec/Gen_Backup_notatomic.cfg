SPECIFICATION GSpec
CONSTANTS
  Starts <- StartsBase
  Dev <- DevBak
  MaxRuns = 2
  FlowDef <- FlowsLib
INVARIANT GenInv
CHECK_DEADLOCK FALSE
