SPECIFICATION GSpec
CONSTANTS
  Dev <- DevIdeal
  B = 3
  RecMax = 1
  Bodies <- BodiesAll
  Kinds <- KindsW
  MaxDepth = 2
  Progs <- ProgramsWhereT
INVARIANT GenInv
CHECK_DEADLOCK FALSE
