--------------------------- MODULE PageStore ---------------------------
(* The page store of wikitextprocessor (core.py: add_page, get_page,        *)
(* page_exists, get_page_resolve_redirect, get_page_body, commit, a second  *)
(* context opened on the same file).                                        *)
(*                                                                          *)
(* Titles are sequences of atoms (strings).  The first atom may be a        *)
(* namespace-prefix atom ("Template:", "template:", "T:", ...), "Main:",   *)
(* then a first-letter atom, then word atoms, "SP" (space) and "US"         *)
(* (underscore).  The tables describing the atoms are constants so that the *)
(* same module is used by the exhaustive configurations (small tables       *)
(* defined in MC_PageStore) and by trace validation (tables shipped with    *)
(* the recorded trace).                                                     *)
EXTENDS Naturals, Sequences, FiniteSets, TLC

CONSTANTS
  PfxNs,      \* prefix atom -> namespace id it denotes (any spelling)
  CanonPfx,   \* namespace id (as string) -> canonical prefix atom
  UpperOf,    \* first-letter atom -> its upper-cased atom (identity if none)
  Dev         \* deviations of the code from the ideal that are switched on

NoNs == 9999            \* namespace_id = None
NoRedirect == <<"-">>   \* redirect_to IS NULL
NsKey(ns) == ToString(ns)

IsPfx(a) == a \in DOMAIN PfxNs
HasCanon(ns) == NsKey(ns) \in DOMAIN CanonPfx

(* ------------------------------------------------------------------ *)
(* the namespace table of a site (init_namespace_data reads            *)
(* data/<lang>/namespaces.json; namespace_prefixes, core.py:2089-2107) *)
(*                                                                     *)
(* PfxNs and CanonPfx above are atom tables.  They are not free: a     *)
(* site has ONE table of namespaces, each with an id, the canonical    *)
(* (MediaWiki-internal, English) name that is the key of the shipped   *)
(* file, the local name (the prefix stored titles carry) and a list of *)
(* aliases.  The operators below derive the atom tables from such a    *)
(* table, so that a configuration can take the table of any language   *)
(* as its constant.  Names are atoms without the colon.  Letter case   *)
(* is a fact about strings TLC cannot compute: `fold` maps every       *)
(* prefix atom of the spelling universe (a name in some letter case,   *)
(* blanks possibly written as underscores, followed by ":") to its     *)
(* folded form; two atoms spell the same name iff they fold alike.     *)
(* ------------------------------------------------------------------ *)
NsEntry(id, canonical, local, aliases) ==
  [id |-> id, canonical |-> canonical, local |-> local, aliases |-> aliases]
NsPfxAtom(name) == name \o ":"
NsFolded(fold, p) == IF p \in DOMAIN fold THEN fold[p] ELSE p
NsAliasSet(e) == {e.aliases[i] : i \in 1..Len(e.aliases)}
NsPrefixed(tab) == {e \in tab : e.id # 0}      \* the main namespace has no prefix

\* the statement: the prefix may be the namespace's name, given "aliased or written in
\* another case" -- every name the table lists for the namespace, in any letter case
NsAllNames(e) == {e.local, e.canonical} \cup NsAliasSet(e)
NsNamedBy(p, e, fold) ==
  NsFolded(fold, p) \in {NsFolded(fold, NsPfxAtom(n)) : n \in NsAllNames(e)}

\* the code: namespace_prefixes(id, lower=True) builds the tuple of folded prefixes that
\* get_page tests the folded title against: local name and aliases, then the canonical name
\* when it differs from the local one.
\* Deviation "CanonicalNameNotFolded": the canonical name is appended as written.
NsAcceptedFolded(e, fold, dev) ==
  {NsFolded(fold, NsPfxAtom(n)) : n \in {e.local} \cup NsAliasSet(e)} \cup
  (IF e.canonical = e.local THEN {}
   ELSE IF "CanonicalNameNotFolded" \in dev THEN {NsPfxAtom(e.canonical)}
   ELSE {NsFolded(fold, NsPfxAtom(e.canonical))})
NsAcceptedBy(p, e, fold, dev) == NsFolded(fold, p) \in NsAcceptedFolded(e, fold, dev)

\* PfxNs as the statement demands it / as the code builds it, CanonPfx (local names)
\* (TLCEval: TLC keeps [x \in S |-> e] lazy and would re-evaluate e at every application)
NsRefPfxNs(tab, fold) ==
  TLCEval([p \in {q \in DOMAIN fold : \E e \in NsPrefixed(tab) : NsNamedBy(q, e, fold)} |->
             (CHOOSE e \in NsPrefixed(tab) : NsNamedBy(p, e, fold)).id])
NsCodePfxNs(tab, fold, dev) ==
  TLCEval([p \in {q \in DOMAIN fold : \E e \in NsPrefixed(tab) : NsAcceptedBy(q, e, fold, dev)} |->
             (CHOOSE e \in NsPrefixed(tab) : NsAcceptedBy(p, e, fold, dev)).id])
NsCanonPfx(tab) ==
  TLCEval([k \in {NsKey(e.id) : e \in NsPrefixed(tab)} |->
             NsPfxAtom((CHOOSE e \in NsPrefixed(tab) : NsKey(e.id) = k).local)])
\* no spelling names two namespaces, no id occurs twice (otherwise PfxNs is not a function)
NsUnambiguous(tab, fold) ==
  /\ \A p \in DOMAIN fold : Cardinality({e \in NsPrefixed(tab) : NsNamedBy(p, e, fold)}) <= 1
  /\ \A e1, e2 \in tab : e1.id = e2.id => e1 = e2

(* ------------------------------------------------------------------ *)
(* rows and results                                                   *)
(* ------------------------------------------------------------------ *)
Row(title, ns, redirect, body, model) ==
  [title |-> title, ns |-> ns, redirect |-> redirect, body |-> body, model |-> model]

NotFound == [found |-> FALSE, title |-> <<>>, ns |-> 0, redirect |-> NoRedirect,
             body |-> "", model |-> ""]
Found(r) == [found |-> TRUE, title |-> r.title, ns |-> r.ns, redirect |-> r.redirect,
             body |-> r.body, model |-> r.model]

Upsert(S, row) == {r \in S : ~(r.title = row.title /\ r.ns = row.ns)} \cup {row}

(* ------------------------------------------------------------------ *)
(* add_page: title normalisation on the write side (core.py:1015-1041) *)
(* ------------------------------------------------------------------ *)
StartsWith(t, a) == Len(t) > 0 /\ t[1] = a

NormAddP(title, ns, canon) ==
  LET t1 == IF ns # 0 /\ ns # NoNs /\ NsKey(ns) \in DOMAIN canon /\ ~StartsWith(title, canon[NsKey(ns)])
            THEN <<canon[NsKey(ns)]>> \o title
            ELSE title
      \* deviation kept for C12: "Main:" is stripped whatever the namespace is
      t2 == IF StartsWith(t1, "Main:") /\ ("MainPrefixStrippedOnAdd" \in Dev)
            THEN Tail(t1) ELSE t1
  IN t2
NormAdd(title, ns) == NormAddP(title, ns, CanonPfx)

(* ------------------------------------------------------------------ *)
(* get_page: normalisation on the read side (core.py:1774-1838)        *)
(* ------------------------------------------------------------------ *)
Despace(t) == [i \in 1..Len(t) |-> IF t[i] = "US" THEN "SP" ELSE t[i]]

UpperFirst(t) ==   \* t is the title after the prefix
  IF Len(t) = 0 THEN t
  ELSE [t EXCEPT ![1] = IF t[1] \in DOMAIN UpperOf THEN UpperOf[t[1]] ELSE t[1]]

\* sequence of (title) candidates the SQL query tries, in order; the prefix tables are
\* parameters (pfxns: prefix atom -> namespace, canon: namespace key -> stored prefix) so that
\* the table the code builds and the table the statement demands can be told apart
CandidatesP(title0, ns, pfxns, canon) ==
  LET t1 == Despace(title0)
      t2 == IF StartsWith(t1, "Main:") THEN Tail(t1) ELSE t1
  IN IF Len(t2) = 0 THEN <<>>
     ELSE IF ns = NoNs \/ ns = 0 \/ NsKey(ns) \notin DOMAIN canon THEN <<t2>>
     ELSE LET cp == canon[NsKey(ns)]
              t3 == IF StartsWith(t2, cp) THEN t2
                    ELSE IF t2[1] \in DOMAIN pfxns /\ pfxns[t2[1]] = ns THEN <<cp>> \o Tail(t2)
                    ELSE <<cp>> \o t2
              up == <<cp>> \o UpperFirst(Tail(t3))
          IN IF up = t3 THEN <<t3>> ELSE <<t3, up>>
Candidates(title0, ns) == CandidatesP(title0, ns, PfxNs, CanonPfx)

Query(S, title, ns, nr) ==
  {r \in S : /\ r.title = title
             /\ (ns = NoNs \/ r.ns = ns)
             /\ (nr => r.redirect = NoRedirect)}

RECURSIVE FirstHit(_, _, _, _, _)
FirstHit(S, cands, i, ns, nr) ==
  IF i > Len(cands) THEN NotFound
  ELSE LET q == Query(S, cands[i], ns, nr) IN
       IF q # {} THEN Found(CHOOSE r \in q : TRUE)
       ELSE FirstHit(S, cands, i + 1, ns, nr)

\* what get_page returns when it goes to the database
DbGetP(S, title, ns, nr, pfxns, canon) == FirstHit(S, CandidatesP(title, ns, pfxns, canon), 1, ns, nr)
DbGet(S, title, ns, nr) == DbGetP(S, title, ns, nr, PfxNs, CanonPfx)

(* ------------------------------------------------------------------ *)
(* state                                                              *)
(* ------------------------------------------------------------------ *)
VARIABLES
  cur,    \* rows visible to the writer connection (committed + pending)
  com,    \* rows committed to the file
  memo    \* the lru_cache of get_page: set of [args, res]

psvars == <<cur, com, memo>>

PSInit == cur = {} /\ com = {} /\ memo = {}

Args(title, ns, nr) == [title |-> title, ns |-> ns, nr |-> nr]

MemoHit(a) == \E m \in memo : m.args = a
MemoVal(a) == (CHOOSE m \in memo : m.args = a).res

\* get_page through the memo; returns <<result, memo'>>
GetPage(a) ==
  IF MemoHit(a) THEN [res |-> MemoVal(a), memo |-> memo]
  ELSE LET r == DbGet(cur, a.title, a.ns, a.nr) IN
       [res |-> r, memo |-> memo \cup {[args |-> a, res |-> r]}]

\* get_page_resolve_redirect (core.py:1894-1902): two memoised calls
Resolve(title, ns) ==
  LET g1 == GetPage(Args(title, ns, FALSE)) IN
  IF ~g1.res.found THEN g1
  ELSE IF g1.res.redirect # NoRedirect
  THEN LET a2 == Args(g1.res.redirect, ns, TRUE)
           r2 == IF \E m \in g1.memo : m.args = a2
                 THEN (CHOOSE m \in g1.memo : m.args = a2).res
                 ELSE DbGet(cur, a2.title, a2.ns, a2.nr)
       IN [res |-> r2, memo |-> g1.memo \cup {[args |-> a2, res |-> r2]}]
  ELSE g1

(* actions ----------------------------------------------------------- *)
AddPageP(title, ns, redirect, body, model, canon) ==
  /\ cur' = Upsert(cur, Row(NormAddP(title, ns, canon), ns, redirect, body, model))
  /\ memo' = IF "MemoNotInvalidatedOnAdd" \in Dev THEN memo ELSE {}
  /\ UNCHANGED com
AddPage(title, ns, redirect, body, model) == AddPageP(title, ns, redirect, body, model, CanonPfx)

Lookup(title, ns, nr) ==
  /\ memo' = GetPage(Args(title, ns, nr)).memo
  /\ UNCHANGED <<cur, com>>

LookupResolve(title, ns) ==
  /\ memo' = Resolve(title, ns).memo
  /\ UNCHANGED <<cur, com>>

Commit == com' = cur /\ UNCHANGED <<cur, memo>>

(* ------------------------------------------------------------------ *)
(* reference semantics: what the property demands of a lookup          *)
(* (memo-less map semantics, stated on structured titles)              *)
(* ------------------------------------------------------------------ *)
\* the stored title a spelling denotes under namespace ns, per the statement:
\* prefix given / omitted / aliased / other case, underscores = spaces
DenotedP(title0, ns, pfxns, canon) ==
  LET t1 == Despace(title0)
      t2 == IF StartsWith(t1, "Main:") THEN Tail(t1) ELSE t1
  IN IF ns = NoNs \/ ns = 0 \/ NsKey(ns) \notin DOMAIN canon \/ Len(t2) = 0 THEN t2
     ELSE IF t2[1] \in DOMAIN pfxns /\ pfxns[t2[1]] = ns THEN <<canon[NsKey(ns)]>> \o Tail(t2)
     ELSE <<canon[NsKey(ns)]>> \o t2
Denoted(title0, ns) == DenotedP(title0, ns, PfxNs, CanonPfx)

RefGetP(S, title0, ns, nr, pfxns, canon) ==
  LET t == DenotedP(title0, ns, pfxns, canon)
      exact == Query(S, t, ns, nr)
      upT == IF ns = NoNs \/ ns = 0 \/ NsKey(ns) \notin DOMAIN canon \/ Len(t) = 0 THEN t
             ELSE <<t[1]>> \o UpperFirst(Tail(t))
      upper == Query(S, upT, ns, nr)
  IN IF Len(t) = 0 THEN NotFound
     ELSE IF exact # {} THEN Found(CHOOSE r \in exact : TRUE)
     ELSE IF upper # {} THEN Found(CHOOSE r \in upper : TRUE)
     ELSE NotFound
RefGet(S, title0, ns, nr) == RefGetP(S, title0, ns, nr, PfxNs, CanonPfx)

RefResolveP(S, title0, ns, pfxns, canon) ==
  LET r1 == RefGetP(S, title0, ns, FALSE, pfxns, canon) IN
  IF r1.found /\ r1.redirect # NoRedirect THEN RefGetP(S, r1.redirect, ns, TRUE, pfxns, canon) ELSE r1
RefResolve(S, title0, ns) == RefResolveP(S, title0, ns, PfxNs, CanonPfx)

(* ------------------------------------------------------------------ *)
(* bulk queries: get_all_pages / saved_page_nums (core.py:446-496,      *)
(* 1843-1871) with their namespace / redirect / model filters           *)
(* ------------------------------------------------------------------ *)
\* nsFilter: set of namespace ids, or {} meaning "no filter" together with hasNs = FALSE
SelectedRows(S, hasNs, nsSet, inclRedirects, hasModel, model) ==
  {r \in S : /\ (hasNs => r.ns \in nsSet)
             /\ (~inclRedirects => r.redirect = NoRedirect)
             /\ (hasModel => r.model = model)}
CountPages(S, hasNs, nsSet, inclRedirects, hasModel, model) ==
  Cardinality(SelectedRows(S, hasNs, nsSet, inclRedirects, hasModel, model))
\* titles are unique per (title, ns): the listing is a set of rows
AllPages(S, hasNs, nsSet, inclRedirects, hasModel, model) ==
  {Found(r) : r \in SelectedRows(S, hasNs, nsSet, inclRedirects, hasModel, model)}

(* ------------------------------------------------------------------ *)
(* properties checked on the model                                     *)
(* ------------------------------------------------------------------ *)
\* memo coherence: whatever is memoised is what the database would answer now
MemoCoherent == \A m \in memo : m.res = DbGet(cur, m.args.title, m.args.ns, m.args.nr)

\* the read-side transcription agrees with the statement's reference
\* (checked over the finite argument universe ArgU supplied by the configuration)
CONSTANT ArgU
GetAgreesWithRef ==
  \A a \in ArgU : DbGet(cur, a.title, a.ns, a.nr) = RefGet(cur, a.title, a.ns, a.nr)

\* what an observer sees through the API equals the reference on the current rows
ObservedLookupsCorrect ==
  \A a \in ArgU : GetPage(a).res = RefGet(cur, a.title, a.ns, a.nr)

\* committed rows only ever change at Commit, and then become exactly cur
CommitOnlyPublishes == [][com' # com => com' = cur]_psvars
=============================================================================
