SPECIFICATION SoupSpec
CONSTANTS
  Dev <- DevIdeal
  Lits <- LitsQ
  Lits2 <- LitsTwo
  UnOps <- UnExact
  BinOps <- BinAll
  Families <- NoFam
  SoupAlphabet <- SoupT
  MaxSoup = 4
INVARIANT Total
INVARIANT LadderMatchesReference
CHECK_DEADLOCK FALSE
