SPECIFICATION GSpec
CONSTANTS
  Procs <- P2
  Dev <- DevAsIs
  Scenarios <- ScnRestoreLiveQ
  Focus = "restore"
INVARIANT GenInv
INVARIANT TxnLockAgree
INVARIANT DoneMeansCommitted
INVARIANT NoStaleSideFile
INVARIANT SidePathsMatch
CHECK_DEADLOCK FALSE
