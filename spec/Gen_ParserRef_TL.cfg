SPECIFICATION Spec
CONSTANTS
  Universe = "LP"
  MaxLines = 3
INVARIANT MachineOK
CHECK_DEADLOCK FALSE
