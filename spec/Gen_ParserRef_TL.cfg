SPECIFICATION Spec
CONSTANTS
  Universe = "LP"
  MaxLines = 3
INVARIANT MachineOK
INVARIANT GenInv
CHECK_DEADLOCK FALSE
