--------------------------- MODULE MC_Analyze ---------------------------
(* Bounded instances of Analyze: every inclusion graph on <= MaxN templates, *)
(* every classifier flag set, every redirect placement, several name sets    *)
(* and spelling schemes for the names written in the bodies.                 *)
EXTENDS Analyze

(* ---------------- atom tables ---------------- *)
T_PfxNs == ("Template:" :> 10) @@ ("template:" :> 10) @@ ("T:" :> 10) @@ ("t:" :> 10)
T_CanonPfx == ("10" :> "Template:")
T_UpperOf == ("f" :> "F") @@ ("F" :> "F") @@ ("é" :> "É") @@ ("É" :> "É") @@
             ("b" :> "B") @@ ("B" :> "B") @@ ("q" :> "Q") @@ ("Q" :> "Q")
T_LowerOf == ("F" :> "f") @@ ("É" :> "é") @@ ("B" :> "b") @@ ("Q" :> "q")
DevIdeal == {}
DevExact == {"IncludedNamesMatchedExactly"}
DevStale == {"MemoNotClearedInLoop"}
DevNoReseed == {"MarkedNotReseeded"}
NoArgs == {}

CONSTANTS MaxN, Combos, MaxRedirects

(* ---------------- names and spellings ---------------- *)
\* name sets: node k of a world is called NameSet[k]
NamesA == << <<"F", "oo">>, <<"B", "ar", "SP", "baz">>, <<"É", "a">>, <<"Q", "SP", "x">> >>
\* "foo" and "Foo" are different pages (first letter is significant in the store,
\* a written "foo" denotes Template:foo when that exists, else Template:Foo)
NamesB == << <<"F", "oo">>, <<"f", "oo">>, <<"B", "ar", "SP", "baz">>, <<"b", "ar", "SP", "baz">> >>
NameSeq(ns) == IF ns = "A" THEN NamesA ELSE NamesB

LowerFirstName(n) == [n EXCEPT ![1] = IF n[1] \in DOMAIN T_LowerOf THEN T_LowerOf[n[1]] ELSE n[1]]
UnderName(n) == [k \in 1..Len(n) |-> IF n[k] = "SP" THEN "US" ELSE n[k]]

Spell(kind, n) ==
  CASE kind = "exact" -> n
    [] kind = "lower" -> LowerFirstName(n)
    [] kind = "under" -> UnderName(n)
    [] kind = "lowund" -> UnderName(LowerFirstName(n))
    [] kind = "pfx" -> <<"Template:">> \o n
    [] kind = "lpfx" -> <<"template:">> \o UnderName(n)
    [] kind = "alias" -> <<"T:">> \o LowerFirstName(n)

MixKinds == <<"exact", "lower", "under", "pfx", "lowund", "alias", "lpfx">>
\* spelling used by the edge i -> j under a scheme
EdgeKind(scheme, i, j) ==
  CASE scheme = "exact" -> "exact"
    [] scheme = "lower" -> "lower"
    [] scheme = "under" -> "lowund"
    [] scheme = "mixed" -> MixKinds[((i + 2 * j) % 7) + 1]
    [] scheme = "mixed2" -> MixKinds[((3 * i + j) % 7) + 1]

(* ---------------- worlds ---------------- *)
TitleOf(names, k) == <<"Template:">> \o names[k]

\* rd[k] = 0: page with a body; rd[k] = j: redirect to node j
RedirFns(n) ==
  {rd \in [1..n -> 0..n] :
     /\ \A k \in 1..n : rd[k] # k
     /\ Cardinality({k \in 1..n : rd[k] # 0}) <= MaxRedirects}
EdgePairs(n, rd) == {e \in (1..n) \X (1..n) : rd[e[1]] = 0}

MkWorld(n, rd, E, F, combo) ==
  LET names == NameSeq(combo[1]) IN
  [pages |-> [k \in 1..n |->
      WPage(TitleOf(names, k),
            IF rd[k] = 0 THEN NoRedirect ELSE TitleOf(names, rd[k]),
            {Spell(EdgeKind(combo[2], e[1], e[2]), names[e[2]]) : e \in {x \in E : x[1] = k}},
            k \in F)]]

CombosQ == {<<"A", "exact">>, <<"A", "mixed">>, <<"B", "lower">>, <<"B", "mixed2">>}
CombosQ2 == {<<"A", "mixed">>, <<"B", "mixed2">>}
CombosAll == {"A", "B"} \X {"exact", "lower", "under", "mixed", "mixed2"}
CombosExact == {<<"A", "exact">>}
CombosB == {<<"B", "mixed">>}
CombosB2 == {<<"B", "mixed2">>}

\* (nested quantifiers, not one big set: TLC enumerates them lazily)
MCInit ==
  \E n \in 1..MaxN : \E rd \in RedirFns(n) : \E E \in SUBSET EdgePairs(n, rd) :
    \E F \in SUBSET (1..n) : \E c \in Combos : AInit(MkWorld(n, rd, E, F, c))
MCSpec == MCInit /\ [][ANext]_avars /\ WF_avars(ANext)

(* ---------------- histories: analyse, edit, analyse again ---------------- *)
\* The last analysed world W2 is any world of the bound; the history says how its last
\* page (a new row goes to the end of the table, an overwritten row keeps its place) came
\* to be after the first analysis:
\*   absent     - it did not exist (a template added later, e.g. by an overwrite file)
\*   premarked  - the same, added with need_pre_expand=True
\*   plain      - it was a plain unflagged text and is overwritten by its final form
\*   wasflagged - it was flagged and is overwritten by a text that is not (stale marks)
CONSTANT HistKinds
KindsAll == {"absent", "premarked", "plain", "wasflagged"}
KindsQ == {"absent"}
EarlyWorld(W, kind) ==
  LET n == Len(W.pages) IN
  CASE kind \in {"absent", "premarked"} -> [pages |-> SubSeq(W.pages, 1, n - 1)]
    [] kind = "plain" -> [pages |-> [W.pages EXCEPT ![n] = WPage(@.title, NoRedirect, {}, FALSE)]]
    [] kind = "wasflagged" -> [pages |-> [W.pages EXCEPT ![n] = [@ EXCEPT !.flag = TRUE]]]
History(W, kind) ==
  LET t == W.pages[Len(W.pages)].title IN
  [pages |-> EarlyWorld(W, kind).pages,
   next |-> [world |-> [pages |-> W.pages], reset |-> {t},
             set |-> IF kind = "premarked" THEN {t} ELSE {}]]
\* all kinds on the worlds of up to MaxN - 1 pages, HistKinds on those of MaxN pages
MCHInit ==
  \E n \in 1..MaxN : \E rd \in RedirFns(n) : \E E \in SUBSET EdgePairs(n, rd) :
    \E F \in SUBSET (1..n) : \E c \in Combos : \E kind \in (IF n < MaxN THEN KindsAll ELSE HistKinds) :
      /\ (kind = "wasflagged") => (n \notin F /\ rd[n] = 0)
      /\ AInit(History(MkWorld(n, rd, E, F, c), kind))
MCHSpec == MCHInit /\ [][AHNext]_avars /\ WF_avars(AHNext)
\* calls on a database with arbitrary earlier marks (any subset of the pages)
MCPInit ==
  \E n \in 1..MaxN : \E rd \in RedirFns(n) : \E E \in SUBSET EdgePairs(n, rd) :
    \E F \in SUBSET (1..n) : \E P \in SUBSET (1..n) : \E c \in Combos :
      LET W == MkWorld(n, rd, E, F, c) IN AInit(WithPre(W, {W.pages[k].title : k \in P}))
MCPSpec == MCPInit /\ [][ANext]_avars /\ WF_avars(ANext)

\* the witness of the as-is deviation MarkedNotReseeded: Foo is flagged, Bar includes Foo,
\* both get marked; Qx, which includes Bar, is added afterwards; the second call must mark it
DemoHistory ==
  LET a == WPage(<<"Template:", "F", "oo">>, NoRedirect, {}, TRUE)
      b == WPage(<<"Template:", "B", "ar">>, NoRedirect, {<<"F", "oo">>}, FALSE)
      c == WPage(<<"Template:", "Q", "x">>, NoRedirect, {<<"B", "ar">>}, FALSE) IN
  [pages |-> <<a, b>>,
   next |-> [world |-> [pages |-> <<a, b, c>>], reset |-> {c.title}, set |-> {}]]
DemoHInit == AInit(DemoHistory)
DemoHSpec == DemoHInit /\ [][AHNext]_avars /\ WF_avars(AHNext)

\* hand-made world for the Demo configurations: B <-> C include each other, B includes
\* the flagged A by its lower-case spelling
DemoWorld ==
  [pages |-> << WPage(<<"Template:", "F", "oo">>, NoRedirect, {}, TRUE),
                WPage(<<"Template:", "B", "ar">>, NoRedirect, {<<"f", "oo">>, <<"Q", "x">>}, FALSE),
                WPage(<<"Template:", "Q", "x">>, NoRedirect, {<<"B", "ar">>}, FALSE) >>]
DemoInit == AInit(DemoWorld)
DemoSpec == DemoInit /\ [][ANext]_avars /\ WF_avars(ANext)
=============================================================================
