SPECIFICATION Spec
CONSTANTS
  Tier = "quick"
INVARIANT DemoContLang
CHECK_DEADLOCK FALSE
