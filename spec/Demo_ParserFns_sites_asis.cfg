SPECIFICATION SpecS
CONSTANTS
  Dev <- DevAsIs
  Known <- KnownBuiltin
  Names <- NamesBuiltin
  Sites <- SitesBuiltin
  NsFns <- NsFnsBuiltin
INVARIANT EverySiteCallEndsInBand
CHECK_DEADLOCK FALSE
