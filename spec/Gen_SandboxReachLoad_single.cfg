SPECIFICATION SLSpec
CONSTANTS
  Entries <- D_Entries
  Shapes <- D_ShapesAll
  Bounds <- D_Bounds
  MaxLen = 1
  Dev <- DevIdeal
INVARIANT GenInv
CHECK_DEADLOCK FALSE
