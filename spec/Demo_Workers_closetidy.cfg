SPECIFICATION Spec
CONSTANTS
  Procs <- P2
  Dev <- DevTidy
  Scenarios <- ScnLifeNoCursor
INVARIANT NoFailure
INVARIANT SerialResults
INVARIANT StoreUnchanged
INVARIANT NoDeadlock
CHECK_DEADLOCK FALSE
