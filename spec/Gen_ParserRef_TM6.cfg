SPECIFICATION Spec
CONSTANTS
  Universe = "M6"
  MaxLines = 4
INVARIANT MachineOK
CHECK_DEADLOCK FALSE
