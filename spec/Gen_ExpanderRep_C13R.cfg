SPECIFICATION RepSpec
CONSTANTS
  Universe = "C13R"
  Known <- KnownExp
  DepthLimit = 100
  PreBody <- ThePreBody
  LogEvents = FALSE
INVARIANT RepGenInv
CHECK_DEADLOCK FALSE
