------------------------- MODULE Gen_ExpanderDepth -------------------------
(* C05: nesting ladders.  The dimension WHAT is nested x HOW DEEP x WHERE the *)
(* nesting sits (page text / template bodies), for the depth limit of the     *)
(* expander twin (Expander.tla).                                              *)
(*                                                                            *)
(* A ladder is n rungs around a core; rung i is one construct that contains   *)
(* the next rung in one of its positions (the kinds below); the kinds of the  *)
(* rungs follow a pattern cyclically (pure ladders: one kind; alternations:   *)
(* two or three).  A case is a chain of segments: segment 1 is the page, the  *)
(* core of segment i is a call of template D(i+1) whose body is segment i+1   *)
(* (nesting split between the page and template bodies).                      *)
(*                                                                            *)
(* TLC evaluates the twin in the ideal design and in the as-is design         *)
(* (deviation NestingOutsideCallsUnbounded) on every case, checks the laws    *)
(* (recursion depth bounded whatever is nested; a cut is reported) and prints *)
(* the page / bodies as source atoms (flat: the syntax trees are up to        *)
(* several thousand levels deep) with the predicted class.                    *)
EXTENDS Gen_Expander

CONSTANTS Tier

L == DepthLimit
AsIsDev == KnownExp \cup {"NestingOutsideCallsUnbounded"}

T(s) == <<Txt(<<s>>)>>
\* one rung of kind k around the content `in`
Rung(k, in) ==
  CASE k = "tpos"   -> <<Call("T1", <<Pos(in)>>)>>                          \* {{T1|..}}
    [] k = "tnamed" -> <<Call("T1", <<Named(<<"x">>, in)>>)>>               \* {{T1|x=..}}
    [] k = "ifbr"   -> <<If(T("1"), in, <<>>)>>                             \* {{#if:1|..|}}
    [] k = "ifelse" -> <<If(<<>>, T("q"), in)>>                             \* {{#if:|q|..}}
    [] k = "ifcond" -> <<If(in, T("y"), <<>>)>>                             \* {{#if:..|y|}}   (name part of the cookie)
    [] k = "eqbr"   -> <<IfEq(T("a"), T("a"), in, <<>>)>>                   \* {{#ifeq:a|a|..|}}
    [] k = "eqa"    -> <<IfEq(in, T("c"), T("y"), T("n"))>>                 \* {{#ifeq:..|c|y|n}} (name part)
    [] k = "eqb"    -> <<IfEq(T("c"), in, T("y"), T("n"))>>                 \* {{#ifeq:c|..|y|n}}
    [] k = "swbr"   -> <<Switch(T("k"), <<[key |-> <<"k">>, val |-> in]>>, FALSE, <<>>)>>   \* {{#switch:k|k=..}}
    [] k = "swval"  -> <<Switch(in, <<[key |-> <<"c">>, val |-> T("y")]>>, TRUE, T("n"))>>  \* {{#switch:..|c=y|#default=n}}
    [] k = "swdflt" -> <<Switch(T("q"), <<[key |-> <<"k">>, val |-> T("y")]>>, TRUE, in)>>  \* {{#switch:q|k=y|#default=..}}
    [] k = "def"    -> <<ParD(<<"u">>, in)>>                                \* {{{u|..}}}
    [] k = "pname"  -> <<ParC(in, T("d"))>>                                 \* {{{..|d}}}
    [] k = "link"   -> <<Link(<<T("a"), in>>)>>                             \* [[a|..]]
    [] k = "ext"    -> <<Ext(in)>>                                          \* [http://x.y ..]
    [] k = "inv"    -> <<Inv("echo", <<Pos(in)>>)>>                         \* {{#invoke:M|echo|..}}

RECURSIVE Ladder(_, _, _, _)
Ladder(pat, i, n, core) ==
  IF i > n THEN core ELSE Rung(pat[((i - 1) % Len(pat)) + 1], Ladder(pat, i + 1, n, core))

DName == <<"D1", "D2", "D3">>
SegCore(segs, i) ==
  IF i = Len(segs) THEN (IF i = 1 THEN T("c") ELSE <<ParD(<<"1">>, <<>>)>>)
  ELSE <<Call(DName[i + 1], <<Pos(IF i = 1 THEN T("z") ELSE <<Par(<<"1">>)>>)>>)>>
SegContent(segs, i) == Ladder(segs[i].pat, 1, segs[i].n, SegCore(segs, i))
RECURSIVE SegLib(_, _)
SegLib(segs, i) == IF i > Len(segs) THEN LibBase ELSE (DName[i] :> Plain(SegContent(segs, i))) @@ SegLib(segs, i + 1)
CaseOf(segs) == [segs |-> segs, lib |-> SegLib(segs, 2), need |-> {}, page |-> SegContent(segs, 1), o |-> OptAll, enw |-> TRUE]

(* ---------------- the families ---------------- *)
Seg(pat, n) == [pat |-> pat, n |-> n]
PureKinds(z) == {"tpos", "tnamed", "ifbr", "ifelse", "ifcond", "eqbr", "eqa", "eqb", "swbr", "swval", "swdflt", "def", "pname", "link"}
MixedPats(z) == { <<"tpos", "ifbr">>, <<"ifbr", "link">>, <<"link", "def">>, <<"def", "tpos">>, <<"ifcond", "swbr">>,
                  <<"eqbr", "swbr">>, <<"tnamed", "ifcond", "link">>, <<"ext", "ifbr">>, <<"pname", "ifelse">>,
                  <<"swval", "eqa">>, <<"link", "tpos", "def">> }
\* how deep: around the places where the constructs reach the limit (one, two or three path
\* entries per rung), at the limit, and 2x, 5x, 10x (thorough: 3x, 20x) the limit
Depths(z) == IF Tier = "thorough"
             THEN {L \div 3, (L \div 3) + 1, (L \div 2) - 1, L \div 2, (L \div 2) + 1, L - 1, L, L + 1, 2 * L, 3 * L, 5 * L, 10 * L, 20 * L}
             ELSE {(L \div 2) - 1, L \div 2, L - 1, L, L + 1, 2 * L, 5 * L, 10 * L}
MixedDepths(z) == IF Tier = "thorough" THEN Depths(z) ELSE {L, 5 * L}
MixedDeep(z) == { <<"tpos", "ifbr">>, <<"ifbr", "link">>, <<"eqbr", "swbr">>, <<"pname", "ifelse">>, <<"link", "tpos", "def">> }   \* quick: these at 10x too
\* #invoke: every rung re-enters the expander from Lua (frame.args -> frame:preprocess)
InvDepths(z) == IF Tier = "thorough" THEN {3, 19, 20, 21, L \div 2, L, 2 * L} ELSE {20, L}
InvPats(z) == { <<"inv">>, <<"inv", "ifbr">>, <<"tpos", "inv">> }

\* nesting split between the page and template bodies: <<page pattern, rungs on the page>> x body
PageParts(z) == IF Tier = "thorough"
                THEN { << <<"ifbr">>, 0 >>, << <<"ifbr">>, 40 >>, << <<"ifbr">>, L - 1 >>, << <<"tpos">>, 1 >>, << <<"tpos">>, (L \div 2) - 1 >>,
                       << <<"link">>, 40 >>, << <<"link">>, L - 1 >>, << <<"def", "ifcond">>, L \div 2 >> }
                ELSE { << <<"ifbr">>, 40 >> }
BodyPats(z) == IF Tier = "thorough"
               THEN { <<"ifbr">>, <<"ifcond">>, <<"tpos">>, <<"link">>, <<"def">>, <<"pname">>, <<"swbr">>, <<"eqbr", "swbr">>, <<"link", "def">>, <<"tnamed", "ifelse">> }
               ELSE { <<"ifbr">>, <<"ifcond">>, <<"tpos">>, <<"link">>, <<"def">>, <<"eqbr", "swbr">> }
BodyDepths(z) == IF Tier = "thorough" THEN {L \div 2, L - 1, L, L + 1, 170, 2 * L, 5 * L, 10 * L} ELSE {L + 1, 170, 10 * L}
ChainPats(z) == IF Tier = "thorough" THEN { <<"ifbr">>, <<"link">>, <<"def">>, <<"tpos", "ifcond">> } ELSE { <<"ifbr">>, <<"link">> }

LadderCases ==
  IF Tier = "demo" THEN { <<Seg(<<"link">>, 10 * L)>>, <<Seg(<<"ifbr">>, 0), Seg(<<"ifbr">>, 10 * L)>> } ELSE
  { <<Seg(<<k>>, n)>> : k \in PureKinds(0), n \in Depths(0) }
  \cup { <<Seg(p, n)>> : p \in MixedPats(0), n \in MixedDepths(0) }
  \cup { <<Seg(p, 10 * L)>> : p \in MixedDeep(0) }
  \cup { <<Seg(<<"link", "tpos">>, 3), Seg(bp, k)>> : bp \in BodyPats(0), k \in {L - 1, 5 * L} }
  \cup (IF Tier = "thorough" THEN { <<Seg(<<"ifbr">>, 40), Seg(bp, 20 * L)>> : bp \in BodyPats(0) } ELSE {})
  \cup { <<Seg(p, n)>> : p \in InvPats(0), n \in InvDepths(0) }
  \cup { <<Seg(pm[1], pm[2]), Seg(bp, k)>> : pm \in PageParts(0), bp \in BodyPats(0), k \in BodyDepths(0) }
  \* two bodies deep: page -> D2 -> D3
  \cup { <<Seg(<<"ifbr">>, m), Seg(bp, k), Seg(bp, k)>> : m \in {0, 20}, bp \in ChainPats(0), k \in {30, 6 * L} }

InitD == case \in { CaseOf(s) : s \in LadderCases }
SpecD == InitD /\ [][Next]_case

(* ---------------- laws ---------------- *)
\* whatever is nested and however deep, the recursion of the ideal design stays within
\* the limit: the expansion path holds at most L entries when a construct is admitted (the
\* admitted construct pushes a few more), one substitution pass walks down at most L levels
PeakBoundedR(r) == r.st.peak <= OverrunAt
IsOverrun(a) == \E i \in 1..Len(a.st.msgs) : a.st.msgs[i].kind = "overrun"
Cls(r) == IF \E i \in 1..Len(r.out) : r.out[i] = "<ERR:depth>" THEN "cut" ELSE "plain"
\* a ladder that is deeper than the limit in one piece of text is cut
DeepIsCutR(c, r) ==
  (\E i \in 1..Len(c.segs) : c.segs[i].n > L) => \E j \in 1..Len(r.st.msgs) : r.st.msgs[j].sortid = "core/1115"

(* ---------------- the case as source text ---------------- *)
\* The syntax trees are up to several thousand levels deep, so a ladder is printed in
\* factored form: the source atoms of one rung of each kind of the pattern before and after
\* the position that holds the next rung, and the source of the core; the text of the segment is
\* open(1) open(2) .. open(n) core close(n) .. close(1).  For ladders of at most 2L rungs the
\* complete rendering Src(..) is printed as well (the harness checks its assembly against it).
Hole == "@HOLE@"
RungSrc(k) == Src(Rung(k, T(Hole)))
HolePos(s) == CHOOSE i \in 1..Len(s) : s[i] = Hole
Open(k) == LET s == RungSrc(k) IN SubSeq(s, 1, HolePos(s) - 1)
Close(k) == LET s == RungSrc(k) IN SubSeq(s, HolePos(s) + 1, Len(s))
RECURSIVE Opens(_, _), Closes(_, _)
Opens(pat, i) == IF i > Len(pat) THEN <<>> ELSE <<Open(pat[i])>> \o Opens(pat, i + 1)
Closes(pat, i) == IF i > Len(pat) THEN <<>> ELSE <<Close(pat[i])>> \o Closes(pat, i + 1)
Small(c) == \A i \in 1..Len(c.segs) : c.segs[i].n <= 2 * L
RECURSIVE SegSrc(_, _)
SegSrc(c, i) ==
  IF i > Len(c.segs) THEN <<>>
  ELSE <<[name |-> DName[i], pat |-> c.segs[i].pat, n |-> c.segs[i].n,
          opens |-> Opens(c.segs[i].pat, 1), closes |-> Closes(c.segs[i].pat, 1), core |-> Src(SegCore(c.segs, i)),
          full |-> IF Small(c) THEN Src(SegContent(c.segs, i)) ELSE <<>>]>> \o SegSrc(c, i + 1)

EmitD(c, r, a) ==
  PrintT(<<"CASE", ToJson([segs |-> SegSrc(c, 1), small |-> Small(c), base |-> LibBase,
                           out |-> r.out, msgs |-> r.st.msgs, cls |-> Cls(r), peak |-> r.st.peak,
                           asis_out |-> a.out, asis_msgs |-> a.st.msgs, asis_cls |-> Cls(a), asis_peak |-> a.st.peak,
                           \* the as-is design lets the recursion leave the region the ideal design stays in
                           asis_overrun |-> IsOverrun(a)])>>)

GenInvD ==
  LET r == Run(case, {})
      a == Run(case, AsIsDev)
  IN /\ StackRestoredR(r) /\ CutsReportedR(r) /\ PeakBoundedR(r) /\ DeepIsCutR(case, r)
     /\ StackRestoredR(a) /\ CutsReportedR(a)
     /\ EmitD(case, r, a)

\* Demo: in the as-is design the recursion depth is not bounded by the limit
DemoUnbounded == LET a == Run(case, AsIsDev) IN PeakBoundedR(a) /\ ~IsOverrun(a)
=============================================================================
