------------------------- MODULE SandboxReachLoad -------------------------
(* HOW a chunk of page-supplied Lua source comes to run (property C06).     *)
(*                                                                          *)
(* SandboxReach takes "the environment a module receives" as the root of    *)
(* the attacker's reachability and SandboxGate the gate on the bridge.      *)
(* Both assume that page code runs in THAT environment.  In Lua 5.1 this is *)
(* not a given: loadstring() hands back a chunk whose environment is the    *)
(* thread's global table (the real _G with io, os, package, debug, load*,   *)
(* the lupa bridge); the chunk is confined only because the loader binds it *)
(* (setfenv) before anybody can call it.  This module models the loader of  *)
(* lua/_sandbox_phase1.lua (new_loader, new_require, new_loadData,          *)
(* new_loadJsonData, _cached_mod/_save_mod) and _lua_invoke of              *)
(* _sandbox_phase2.lua, step by step, over                                  *)
(*                                                                          *)
(*   entry point x SHAPE OF THE SOURCE x history of loads of the module     *)
(*                                                                          *)
(*   entry   #invoke, #invoke through a template, nested #invoke            *)
(*           (frame:preprocess), require, require from a required module,   *)
(*           mw.loadData, mw.loadJsonData, a module calling _new_loader /   *)
(*           package.loaders[2] itself                                      *)
(*   shape   [pre, form, eol, tail]: what precedes the code (nothing, UTF-8  *)
(*           byte order mark, '#!' line, binary chunk signature, NUL, blank *)
(*           lines, a very long comment line, a stray token), what the      *)
(*           chunk hands back (table, string, nothing, raises, or the       *)
(*           source is a bare expression), line ends (LF, CRLF, CR), how it *)
(*           ends (properly, unfinished block, trailing token)              *)
(*   step    [e, b]: entry + where the load happens relative to the         *)
(*           previous one (same invocation / a later #invoke / a later      *)
(*           page): loader_cache lives as long as the runtime,              *)
(*           package.loaded until the next top-level #invoke,               *)
(*           loaddata_cache until the next page                             *)
(*                                                                          *)
(* Property (PageCodeConfined): EVERY piece of code whose source came from  *)
(* the page store - the chunk body and every function it defined, also when *)
(* it is handed out of a cache later - runs in an environment that is not   *)
(* the host global table and shows none of the forbidden names.  A module   *)
(* that does not load at all is confined trivially.                         *)
(* Declarative reference: a chunk runs only if its source compiles as it    *)
(* stands (RunsOnlyIfCompiles) and always in the environment the entry      *)
(* point asked for, whatever was cached before (RunsInRequestedEnv).        *)
(*                                                                          *)
(* Deviation switches (dev):                                                *)
(*   RecompiledChunkNotConfined  when the first compilation fails and the   *)
(*        source can be "repaired", the loader compiles the repaired text   *)
(*        and returns that chunk WITHOUT binding it (no setfenv)            *)
(*   RepairBom / RepairFirstLine / RepairWrapReturn   (modifiers) which     *)
(*        repair: strip a byte order mark (default when none is given),     *)
(*        drop an unparsable first line, prefix a bare expression with      *)
(*        'return'                                                          *)
(*   RecompiledCached            (modifier) the recompiled chunk is put     *)
(*        into loader_cache (a later load rebinds it: the FIRST load leaks) *)
(*   DataEnvFromHost             new_loadData clones the host global table  *)
(*        instead of the sandbox environment                                *)
EXTENDS Naturals, Sequences, FiniteSets, TLC

CONSTANTS
  Entries,   \* subset of AllEntries
  Shapes,    \* set of [pre, form, eol, tail]
  Bounds,    \* subset of {"same", "invoke", "page"}
  MaxLen,    \* bound on the number of loads of the module in one runtime
  Dev

(* ---------------------------------------------------------------- atoms *)
TopLevel == {"invoke", "tplinvoke"}              \* wikitext of the page itself
InModule == {"nested", "require", "require2", "loadData", "loadJsonData", "loader", "pkgloader"}
AllEntries == TopLevel \cup InModule
AllPre == {"none", "bom", "shebang", "binhdr", "nul", "blank", "longline", "garbage"}
AllForm == {"table", "string", "nothing", "raise", "expr"}
AllEol == {"lf", "crlf", "cr"}
AllTail == {"none", "unfinished", "trailing"}
Shape(p, f, e, t) == [pre |-> p, form |-> f, eol |-> e, tail |-> t]

(* names the statement forbids a module to hold; the real _G has them all *)
ForbiddenNames == {"io", "os.execute", "os.getenv", "os.remove", "os.exit", "package.loadlib",
                   "debug.getregistry", "debug.sethook", "loadstring", "load", "dofile", "loadfile",
                   "python", "getfenv", "setfenv"}

(* environments, by role.  HOST = the real global table; HOSTCLONE = a copy *)
(* of it (not the table itself, but it shows every host global)             *)
\*   base  the sandbox environment built by _lua_reset_env
\*   inv   clone made by _lua_invoke for a top-level #invoke (_python_top_env() during it)
\*   nest  clone of inv made by _lua_invoke for a nested #invoke
\*   data  clone of base made by new_loadData
Visible(env) == IF env \in {"HOST", "HOSTCLONE"} THEN ForbiddenNames ELSE {}
IsHostTable(env) == env = "HOST"

(* ------------------------------------------ facts about the Lua 5.1 compiler *)
(* loadstring(text): no '#' line skipping (that is luaL_loadfile), no BOM    *)
(* skipping, "\27Lua" selects the binary loader, NUL is an unexpected symbol; *)
(* CR, CRLF and LF all end a line                                            *)
PreOk(p) == p \in {"none", "blank", "longline"}
Compiles(s) == PreOk(s.pre) /\ s.form # "expr" /\ s.tail = "none"

Kind(s) == CASE s.form = "table" -> "table" [] s.form = "string" -> "string"
             [] s.form = "nothing" -> "nil" [] s.form = "raise" -> "raise" [] s.form = "expr" -> "table"

(* ---------------------------------------------------------- the deviations *)
Repairs(dev) ==
  IF "RecompiledChunkNotConfined" \notin dev THEN {}
  ELSE LET m == dev \cap {"RepairBom", "RepairFirstLine", "RepairWrapReturn"}
       IN IF m = {} THEN {"RepairBom"} ELSE m
\* the texts a repair produces, as shapes (one repair at a time, as a fallback would do)
Repaired(dev, s) ==
  (IF "RepairBom" \in Repairs(dev) /\ s.pre = "bom" THEN {[s EXCEPT !.pre = "none"]} ELSE {})
  \cup (IF "RepairFirstLine" \in Repairs(dev) /\ s.pre \in {"shebang", "garbage", "binhdr", "nul"}
        THEN {[s EXCEPT !.pre = "none"]} ELSE {})
  \cup (IF "RepairWrapReturn" \in Repairs(dev) /\ s.form = "expr" THEN {[s EXCEPT !.form = "table"]} ELSE {})
Recompilable(dev, s) == {r \in Repaired(dev, s) : Compiles(r)}

(* ------------------------------------------------------------------ state *)
NoVal == [has |-> FALSE, kind |-> "nil", env |-> "base"]
Val(k, e) == [has |-> TRUE, kind |-> k, env |-> e]   \* a module value; env = environment of the functions in it
NoChunk == [has |-> FALSE, env |-> "base", kind |-> "nil"]
Chunk(e, k) == [has |-> TRUE, env |-> e, kind |-> k]   \* a compiled chunk: current environment, what running it yields

\* lc = loader_cache[T] (the compiled chunk and its CURRENT environment), pl = package.loaded[T], dc = loaddata_cache[T]
St0 == [lc |-> NoChunk, pl |-> NoVal, dc |-> NoVal]

(* what lies between two loads that are not made in the same invocation *)
Cross(st, b) ==
  CASE b = "same" -> st
    [] b = "invoke" -> [st EXCEPT !.pl = NoVal]                  \* _lua_reset_env: package.loaded emptied
    [] b = "page" -> [st EXCEPT !.pl = NoVal, !.dc = NoVal]      \* start_page: + lua_clear_loaddata_cache

(* ------------------------------------------------------- new_loader, by step *)
\* loadstring(): a fresh chunk has the thread's global table as its environment
Compiled(s) == Chunk("HOST", Kind(s))
\* setfenv(fn, mod_env)
Bind(chunk, e) == [chunk EXCEPT !.env = e]

L(ok, e, k, st) == [ok |-> ok, env |-> e, kind |-> k, st |-> st]

NewLoader(dev, st, s, modenv) ==
  IF st.lc.has
  THEN \* cached chunk: setfenv(cached_mod, mod_env); return cached_mod
       LET c == Bind(st.lc, modenv) IN L(TRUE, c.env, c.kind, [st EXCEPT !.lc = c])
  ELSE IF Compiles(s)
  THEN \* fn = loadstring(content); setfenv(fn, mod_env); loader_cache[modname] = fn; return fn
       LET c == Bind(Compiled(s), modenv) IN L(TRUE, c.env, c.kind, [st EXCEPT !.lc = c])
  ELSE IF Recompilable(dev, s) # {}
  THEN \* deviation: the fallback returns the recompiled chunk as loadstring() made it
       LET c == Compiled(CHOOSE x \in Recompilable(dev, s) : TRUE)
       IN L(TRUE, c.env, c.kind, IF "RecompiledCached" \in dev THEN [st EXCEPT !.lc = c] ELSE st)
  ELSE \* return nil, "load ... failed"
       L(FALSE, "base", "nil", st)

(* ----------------------------------------------------------- entry points *)
\* outcome of one load request:
\*   got       what the consumer obtained: "table" "string" "nil" "text" (expansion of an #invoke) "error"
\*   chunkenv  {} or {environment the chunk body ran in}
\*   fnenv     {} or {environment the module value handed to the consumer comes from: its functions run there}
O(got, ce, fe, st) == [got |-> got, chunkenv |-> ce, fnenv |-> fe, st |-> st]
FnEnv(v) == IF v.kind = "table" THEN {v.env} ELSE {}
\* what a consumer that receives the value itself learns: the functions of a table run in the environment of the
\* chunk that made it; a string is handed over as it was computed there (the probe's report of what it saw)
Carried(v) == IF v.kind \in {"table", "string"} THEN {v.env} ELSE {}

\* _lua_invoke(mod_name, "main", frame): envNew = clone of _python_top_env() or of the base environment
InvokeLike(dev, st, s, envNew) ==
  IF st.pl.has
  THEN \* _cached_mod(mod_name): no load; mod[fn_name] is looked up and called
       O(IF st.pl.kind = "table" THEN "text" ELSE "error", {}, FnEnv(st.pl), st)
  ELSE LET ld == NewLoader(dev, st, s, envNew) IN
       IF ~ld.ok THEN O("error", {}, {}, ld.st)                               \* error("Could not find module ...")
       ELSE IF ld.kind = "raise" THEN O("error", {ld.env}, {}, ld.st)        \* "Loading module failed in #invoke"
       ELSE IF ld.kind = "nil" THEN O("error", {ld.env}, {}, ld.st)          \* _save_mod(name, nil); assert(mod)
       ELSE LET v == Val(ld.kind, ld.env) IN
            O(IF ld.kind = "table" THEN "text" ELSE "error",                 \* a string has no field "main"
              {ld.env}, FnEnv(v), [ld.st EXCEPT !.pl = v])

\* new_require(modname): mod_env = _python_top_env() or env
RequireLike(dev, st, s) ==
  IF st.pl.has THEN O(st.pl.kind, {}, Carried(st.pl), st)
  ELSE LET ld == NewLoader(dev, st, s, "inv") IN
       IF ~ld.ok THEN O("error", {}, {}, ld.st)                               \* assert(fn, msg)
       ELSE IF ld.kind = "raise" THEN O("error", {ld.env}, {}, ld.st)
       ELSE IF ld.kind = "nil" THEN O("nil", {ld.env}, {}, ld.st)            \* not saved
       ELSE LET v == Val(ld.kind, ld.env) IN O(ld.kind, {ld.env}, Carried(v), [ld.st EXCEPT !.pl = v])

DataEnv(dev) == IF "DataEnvFromHost" \in dev THEN "HOSTCLONE" ELSE "data"

\* new_loadData(modname): mod_env = mw_clone(env)
LoadData(dev, st, s) ==
  IF st.dc.has THEN O(st.dc.kind, {}, Carried(st.dc), st)
  ELSE LET ld == NewLoader(dev, st, s, DataEnv(dev)) IN
       IF ~ld.ok THEN O("error", {}, {}, ld.st)
       ELSE IF ld.kind = "raise" THEN O("error", {ld.env}, {}, ld.st)
       ELSE IF ld.kind = "nil" THEN O("nil", {ld.env}, {}, ld.st)            \* loaddata_cache[modname] = nil
       ELSE LET v == Val(ld.kind, ld.env) IN O(ld.kind, {ld.env}, Carried(v), [ld.st EXCEPT !.dc = v])

\* new_loadJsonData(page): same cache; otherwise the text goes to the JSON decoder, never to the compiler
LoadJson(dev, st, s) ==
  IF st.dc.has THEN O(st.dc.kind, {}, Carried(st.dc), st)
  ELSE O("error", {}, {}, st)

\* a module calling _new_loader(name) / package.loaders[2](name) and then the chunk
Loader(dev, st, s) ==
  LET ld == NewLoader(dev, st, s, "inv") IN
  IF ~ld.ok THEN O("error", {}, {}, ld.st)
  ELSE IF ld.kind = "raise" THEN O("error", {ld.env}, {}, ld.st)
  ELSE O(ld.kind, {ld.env}, Carried(Val(ld.kind, ld.env)), ld.st)

Enter(dev, st, s, e) ==
  CASE e \in TopLevel -> InvokeLike(dev, st, s, "inv")
    [] e = "nested" -> InvokeLike(dev, st, s, "nest")
    [] e \in {"require", "require2"} -> RequireLike(dev, st, s)
    [] e = "loadData" -> LoadData(dev, st, s)
    [] e = "loadJsonData" -> LoadJson(dev, st, s)
    [] e \in {"loader", "pkgloader"} -> Loader(dev, st, s)

(* the environment the entry point asks new_loader for (declarative reference) *)
RequestedEnv(e) ==
  CASE e \in TopLevel -> "inv" [] e = "nested" -> "nest" [] e = "loadData" -> "data"
    [] e = "loadJsonData" -> "none" [] OTHER -> "inv"

(* what the page code of this step can see / does: the probe of the harness reports exactly this *)
Out(o) ==
  [got |-> o.got,
   ran |-> o.chunkenv # {},
   cenv |-> o.chunkenv,
   envs |-> o.chunkenv \cup o.fnenv,
   sees |-> UNION {Visible(x) : x \in o.chunkenv \cup o.fnenv},
   hostwrite |-> \E x \in o.chunkenv : IsHostTable(x)]    \* a global assignment of the chunk lands in the real _G

(* functional form: the outcomes of a whole history of loads of one module *)
RECURSIVE RunFrom(_, _, _, _, _)
RunFrom(dev, st, s, steps, i) ==
  IF i > Len(steps) THEN <<>>
  ELSE LET o == Enter(dev, Cross(st, steps[i].b), s, steps[i].e)
       IN <<Out(o)>> \o RunFrom(dev, o.st, s, steps, i + 1)
Run(dev, s, steps) == RunFrom(dev, St0, s, steps, 1)

(* ------------------------------------------------------------------ *)
(* the state machine                                                   *)
(* ------------------------------------------------------------------ *)
VARIABLES
  shape,   \* the source of the module T in the page store (chosen once)
  lst,     \* [lc, pl, dc]
  hist     \* sequence of [step, out]

slvars == <<shape, lst, hist>>

\* the second and later loads: in the same invocation only module code can load again
StepsAt(k, prev) ==
  IF k = 1 THEN {[e |-> e, b |-> "same"] : e \in Entries}
  ELSE {[e |-> e, b |-> b] : e \in Entries, b \in Bounds} \
       {x \in [e : Entries, b : {"same"}] : x.e \in TopLevel \/ prev \in TopLevel}

SLInit == shape \in Shapes /\ lst = St0 /\ hist = <<>>

Load(x) ==
  LET o == Enter(Dev, Cross(lst, x.b), shape, x.e)
  IN /\ hist' = Append(hist, [step |-> x, out |-> Out(o)])
     /\ lst' = o.st
     /\ UNCHANGED shape

SLNext == Len(hist) < MaxLen
          /\ \E x \in StepsAt(Len(hist) + 1, IF hist = <<>> THEN "invoke" ELSE hist[Len(hist)].step.e) : Load(x)
SLSpec == SLInit /\ [][SLNext]_slvars

StepsOf(h) == [i \in DOMAIN h |-> h[i].step]

(* ---- the property ---- *)
PageCodeConfined ==
  \A i \in DOMAIN hist : hist[i].out.sees = {} /\ ~hist[i].out.hostwrite
                         /\ \A x \in hist[i].out.envs : ~IsHostTable(x)

(* ---- declarative reference ---- *)
RunsOnlyIfCompiles == \A i \in DOMAIN hist : hist[i].out.ran => Compiles(shape)
LoadsOnlyIfCompiles == \A i \in DOMAIN hist : hist[i].out.got \in {"table", "string", "nil", "text"} => Compiles(shape)
\* the chunk body always runs in the environment THIS entry point asked for, whatever is cached
RunsInRequestedEnv ==
  \A i \in DOMAIN hist : hist[i].out.ran => hist[i].out.cenv = {RequestedEnv(hist[i].step.e)}
\* after any load that compiled, the cached chunk is bound (never left as loadstring() made it)
CachedChunkBound == lst.lc.has => ~IsHostTable(lst.lc.env)
RunAgrees == [i \in DOMAIN hist |-> hist[i].out] = Run(Dev, shape, StepsOf(hist))
=============================================================================
