---------------------------- MODULE BackupPaths ----------------------------
(* The SHAPE OF THE DATABASE PATH: which files of a directory belong to one  *)
(* page database, as functions of its path (core.py: create_db,             *)
(* backup_db_path, backup_db, close_db_conn).                               *)
(*                                                                          *)
(* Backup.tla speaks of the files main / wal / shm / jrn / bak / tmp of ONE *)
(* database.  In a real directory these are NAMES computed from the path,   *)
(* other databases live beside them, and a name can contain every character *)
(* but "/" and NUL.  The law (declarative reference):                       *)
(*   N1  every file name of a database is computed from the last component  *)
(*       of its path by string concatenation alone:                         *)
(*         main = stem suf      wal/shm/jrn = main "-wal" / "-shm" / "-journal"*)
(*         bak  = stem "_backup" suf       tmp = bak ".tmp"                 *)
(*       (PDev "TempBySuffix": tmp = stem "_backup" ".tmp", the suffix of   *)
(*       the backup name REPLACED - for a database called x.tmp that is the *)
(*       backup name itself, N2 fails and the unfinished copy is written    *)
(*       under the name create_db restores; repaired in /repo)              *)
(*       (stem suf = the name split at its last inner "."), all of them in  *)
(*       the directory of the path; no character of the name has a meaning  *)
(*   N2  the six names of one database are pairwise different               *)
(*   N3  two databases of one directory whose names differ own disjoint file*)
(*       sets (where the naming scheme itself makes them overlap - "a.db"   *)
(*       beside "a_backup.db" - the pair is reported as Colliding and the   *)
(*       harness never builds it)                                           *)
(*   N4  the cleanup before a restore removes exactly SideFiles(p) =        *)
(*       {wal, shm} of THIS database: all of them, and no other file        *)
(*   N5  closing a database of the temporary directory removes exactly its  *)
(*       own files                                                          *)
(* A name is a sequence of one-character strings (TLC strings are atoms),   *)
(* Join makes the string the harness uses.  Match is the pattern language   *)
(* of pathlib.Path.glob / fnmatch: "*", "?", "[set]", "[!set]"; a "[" that   *)
(* is never closed is literal.  PDev switches on computations that read the *)
(* NAME AS A PATTERN:                                                       *)
(*   "RestoreByGlob": the restore removes every file matching name "-*"     *)
(*   "CloseByGlob":   the close of a temp-dir database removes every file   *)
(*                    matching name "*"  (what close_db_conn does today)    *)
(* The state machine below runs the cleanup on a directory that holds the   *)
(* database, its side files, its backup and the sibling databases with      *)
(* their side files; the invariants N4 / N5 are checked by TLC, and every   *)
(* shape is printed with its names for the harness (SHAPE lines), which     *)
(* builds the fixtures from them and runs the crash flows of Backup.tla on  *)
(* each shape: the expected contents do not depend on the name.             *)
EXTENDS Naturals, Sequences, FiniteSets, TLC, Json

CONSTANTS ShapeIds,   \* shapes of the universe that are explored
          PDev        \* name-as-pattern deviations switched on

RECURSIVE Join(_)
Join(q) == IF q = <<>> THEN "" ELSE Head(q) \o Join(Tail(q))

(* ---------------- the pattern language of glob ---------------- *)
RECURSIVE ClassEnd(_, _), Match(_, _)
\* p[1] = "[": index of the "]" closing the set (a "]" right after "[" or "[!" is a member); 0: never closed
ClassEnd(p, i) == IF i > Len(p) THEN 0
                  ELSE IF p[i] = "]" /\ i > (IF Len(p) >= 2 /\ p[2] = "!" THEN 3 ELSE 2) THEN i
                  ELSE ClassEnd(p, i + 1)
Match(p, t) ==
  IF p = <<>> THEN t = <<>>
  ELSE IF Head(p) = "*" THEN Match(Tail(p), t) \/ (t # <<>> /\ Match(p, Tail(t)))
  ELSE IF t = <<>> THEN FALSE
  ELSE IF Head(p) = "?" THEN Match(Tail(p), Tail(t))
  ELSE IF Head(p) = "[" /\ ClassEnd(p, 2) > 0
  THEN LET e == ClassEnd(p, 2)
           neg == p[2] = "!"
           mem == {p[k] : k \in (IF neg THEN 3 ELSE 2)..(e - 1)}
       IN ((Head(t) \in mem) # neg) /\ Match(SubSeq(p, e + 1, Len(p)), Tail(t))
  ELSE Head(p) = Head(t) /\ Match(Tail(p), Tail(t))

(* ---------------- names as functions of the path (N1) ---------------- *)
Name(p) == p.stem \o p.suf
WalName(p) == Name(p) \o <<"-", "w", "a", "l">>
ShmName(p) == Name(p) \o <<"-", "s", "h", "m">>
JrnName(p) == Name(p) \o <<"-", "j", "o", "u", "r", "n", "a", "l">>
BackupName(p) == p.stem \o <<"_", "b", "a", "c", "k", "u", "p">> \o p.suf
TempName(p) == IF "TempBySuffix" \in PDev
               THEN p.stem \o <<"_", "b", "a", "c", "k", "u", "p">> \o <<".", "t", "m", "p">>
               ELSE BackupName(p) \o <<".", "t", "m", "p">>
SideFiles(p) == {WalName(p), ShmName(p)}
FileSet(p) == {Name(p), WalName(p), ShmName(p), JrnName(p), BackupName(p), TempName(p)}
Db(stem, suf) == [stem |-> stem, suf |-> suf]

DB == <<".", "d", "b">>
(* ---------------- the universe of path shapes ---------------- *)
\* id -> [dir (a directory component below the scratch directory, <<>>: none), stem, suf,
\*        rel (the path is given relative to the current directory),
\*        sibs (databases beside it whose names a sloppy computation confuses with it),
\*        what]
Shape(dir, stem, suf, rel, sibs, what) ==
  [dir |-> dir, stem |-> stem, suf |-> suf, rel |-> rel, sibs |-> sibs, what |-> what]
Universe ==
  [plain    |-> Shape(<<>>, <<"p", "a", "g", "e", "s">>, DB, FALSE,
                      {Db(<<"p", "a", "g", "e", "s", ".", "d", "b", "-", "o", "l", "d">>, <<>>),
                       Db(<<"p", "a", "g", "e", "s", ".", "d", "b">>, <<".", "o", "l", "d">>),
                       Db(<<"p", "a", "g", "e", "s", "_", "b", "a", "c", "k", "u", "p">>, DB),
                       Db(<<"p", "a", "g", "e", "s">>, <<".", "s", "q", "l", "i", "t", "e">>)},
                      "an ordinary name; beside it names that extend it, its own backup name, the same stem with another suffix"),
   class    |-> Shape(<<>>, <<"w", "i", "k", "t", "[", "e", "n", "]">>, DB, FALSE,
                      {Db(<<"w", "i", "k", "t", "e">>, DB), Db(<<"w", "i", "k", "t", "n">>, DB),
                       Db(<<"w", "i", "k", "t", "[", "e", "n", "]", ".", "d", "b", "-", "o", "l", "d">>, <<>>)},
                      "a character set [..] in the file name; beside it the names the set stands for"),
   negclass |-> Shape(<<>>, <<"d", "u", "m", "p", "[", "!", "x", "]">>, DB, FALSE,
                      {Db(<<"d", "u", "m", "p", "y">>, DB), Db(<<"d", "u", "m", "p", "x">>, DB)},
                      "a negated character set [!..] in the file name"),
   star     |-> Shape(<<>>, <<"p", "a", "*", "e", "s", "?">>, DB, FALSE,
                      {Db(<<"p", "a", "g", "e", "s", "1">>, DB), Db(<<"p", "a", "e", "s", "?">>, DB)},
                      "* and ? in the file name; beside it names they stand for"),
   dash     |-> Shape(<<>>, <<"-", "m", "y", " ", "p", "a", "g", "e", "s">>, DB, FALSE,
                      {Db(<<"-", "m", "y">>, <<>>), Db(<<"m", "y", " ", "p", "a", "g", "e", "s">>, DB)},
                      "a leading - and a blank in the file name"),
   twodots  |-> Shape(<<>>, <<"a", ".", "b">>, DB, FALSE,
                      {Db(<<"a">>, DB), Db(<<"a">>, <<".", "b">>), Db(<<"a", "_", "b", "a", "c", "k", "u", "p", ".", "b">>, DB),
                       Db(<<"a", ".", "b", "_", "b", "a", "c", "k", "u", "p">>, <<>>)},
                      "a second dot in the file name (a.b.db); beside it what stem/suffix arithmetic at the first dot yields"),
   nosuffix |-> Shape(<<>>, <<"p", "a", "g", "e", "s">>, <<>>, FALSE,
                      {Db(<<"p", "a", "g", "e", "s">>, DB), Db(<<"p", "a", "g", "e", "s", "-", "o", "l", "d">>, <<>>),
                       Db(<<"p", "a", "g", "e", "s", "_", "b", "a", "c", "k", "u", "p">>, DB)},
                      "no suffix at all"),
   unicode  |-> Shape(<<>>, <<"w", "ö", "r", "t", "e", "r", "日", "本">>, DB, FALSE,
                      {Db(<<"w", "o", "r", "t", "e", "r", "日", "本">>, DB)},
                      "letters outside ASCII in the file name"),
   dirclass |-> Shape(<<"d", "[", "1", "]", " ", "x", "*">>, <<"p", "a", "g", "e", "s">>, DB, FALSE,
                      {Db(<<"p", "a", "g", "e", "s", ".", "d", "b", "-", "o", "l", "d">>, <<>>)},
                      "a directory component with [..], a blank and *"),
   relative |-> Shape(<<>>, <<"r", "e", "l", "[", "a", "b", "]">>, DB, TRUE,
                      {Db(<<"r", "e", "l", "a">>, DB)},
                      "a relative path (bare file name, the process runs in the directory), [..] in the name"),
   tmpsuf   |-> Shape(<<>>, <<"p", "a", "g", "e", "s">>, <<".", "t", "m", "p">>, FALSE,
                      {Db(<<"p", "a", "g", "e", "s">>, DB), Db(<<"p", "a", "g", "e", "s", "_", "b", "a", "c", "k", "u", "p">>, <<".", "t", "m", "p">>),
                       Db(<<"p", "a", "g", "e", "s", ".", "t", "m", "p">>, <<".", "t", "m", "p">>)},
                      "the suffix .tmp, which the library itself uses for the unfinished copy of a backup"),
   \* the quick tier: the dimensions folded into four shapes
   q_under  |-> Shape(<<>>, <<"w", "i", "k", "t", "[", "e", "n", "]">>, DB, FALSE,
                      {Db(<<"w", "i", "k", "t", "e">>, DB),
                       Db(<<"w", "i", "k", "t", "[", "e", "n", "]", ".", "d", "b", "-", "o", "l", "d">>, <<>>)},
                      "a character set [..] in the file name; beside it a name the set stands for and a name that extends it"),
   q_over   |-> Shape(<<>>, <<"-", "m", "y", " ", "p", "a", "*", "e", "s", ".", "v", "2">>, DB, TRUE,
                      {Db(<<"-", "m", "y", " ", "p", "a", "g", "e", "s", ".", "v", "2">>, DB),
                       Db(<<"-", "m", "y", " ", "p", "a", "*", "e", "s">>, DB),
                       Db(<<"-", "m", "y", " ", "p", "a", "*", "e", "s">>, <<".", "v", "2">>)},
                      "a relative path (bare file name); a leading -, a blank, a * and a second dot in the file name"),
   q_dir    |-> Shape(<<"d", "[", "1", "]", " ", "x", "*">>, <<"w", "ö", "r", "t", "e", "r">>, <<>>, FALSE,
                      {Db(<<"w", "ö", "r", "t", "e", "r">>, DB), Db(<<"w", "ö", "r", "t", "e", "r", "-", "o", "l", "d">>, <<>>)},
                      "below a directory with [..], blank and *; no suffix; a letter outside ASCII"),
   q_tmp    |-> Shape(<<>>, <<"w", ".", "v", "2">>, <<".", "t", "m", "p">>, FALSE,
                      {Db(<<"w", ".", "v", "2">>, DB), Db(<<"w", ".", "v", "2", "_", "b", "a", "c", "k", "u", "p">>, <<".", "t", "m", "p">>)},
                      "the suffix .tmp (the one the library uses for the unfinished copy of a backup) after a second dot")]

IdsQuick == {"q_under", "q_over", "q_dir", "q_tmp"}
IdsTmp == {"q_tmp", "tmpsuf"}
IdsAll == {"plain", "class", "negclass", "star", "dash", "twodots", "nosuffix", "unicode", "dirclass", "relative", "tmpsuf"}
PDevNone == {}
PDevRestoreGlob == {"RestoreByGlob"}
PDevCloseGlob == {"CloseByGlob"}
PDevTempBySuffix == {"TempBySuffix"}

S(id) == Universe[id]
\* N3: a sibling whose file set overlaps the one of the database (or of another sibling) by the naming
\* scheme itself cannot live beside it
Overlaps(p, q) == FileSet(p) \cap FileSet(q) # {}
Colliding(id) == {q \in S(id).sibs : Overlaps(S(id), q)}
Sibs(id) == S(id).sibs \ Colliding(id)

(* ---------------- the cleanup steps on a directory ---------------- *)
\* a directory = set of file names.  Before a restore: the database with its side files and its backup,
\* every sibling with its side files
SibFiles(q) == {Name(q), WalName(q), ShmName(q)}
DirBefore(id) == {Name(S(id)), WalName(S(id)), ShmName(S(id)), BackupName(S(id))}
                 \cup UNION {SibFiles(q) : q \in Sibs(id)}
RestoreRemoves(id, dir) ==
  IF "RestoreByGlob" \in PDev
  THEN {f \in dir : Match(Name(S(id)) \o <<"-", "*">>, f)}
  ELSE SideFiles(S(id)) \cap dir
\* the close of a database of the temporary directory (the database is a temporary file: it goes too)
CloseOwn(p) == {Name(p), WalName(p), ShmName(p), JrnName(p)}
\* (closing the last connection, SQLite itself removes the -wal and -shm it computed by concatenation; then the library)
CloseRemoves(id, dir) ==
  (SideFiles(S(id)) \cap dir) \cup
  (IF "CloseByGlob" \in PDev
   THEN {f \in dir : Match(Name(S(id)) \o <<"*">>, f)}
   ELSE CloseOwn(S(id)) \cap dir)

VARIABLES id, step, dir, gone
pvars == <<id, step, dir, gone>>

PInit == id \in ShapeIds /\ step = "start" /\ dir = DirBefore(id) /\ gone = {}
Restore == /\ step = "start" /\ step' = "restored" /\ gone' = RestoreRemoves(id, dir)
           /\ dir' = dir \ RestoreRemoves(id, dir) /\ UNCHANGED id
Close == /\ step = "start" /\ step' = "closed" /\ gone' = CloseRemoves(id, dir)
         /\ dir' = dir \ CloseRemoves(id, dir) /\ UNCHANGED id
PNext == Restore \/ Close \/ (step # "start" /\ UNCHANGED pvars)
PSpec == PInit /\ [][PNext]_pvars

\* N2, N3 on the explored shapes
NamesDistinct == Cardinality(FileSet(S(id))) = 6
SiblingsDisjoint == \A q \in Sibs(id) : /\ ~Overlaps(S(id), q)
                                        /\ \A r \in Sibs(id) : r # q => SibFiles(q) \cap SibFiles(r) = {}
\* N4: the restore removes all side files of this database and nothing else
RestoreExact == step = "restored" => gone = SideFiles(S(id))
\* N5
CloseExact == step = "closed" => gone = CloseOwn(S(id)) \cap DirBefore(id)

RECURSIVE SetToSeq(_)
SetToSeq(T) == IF T = {} THEN <<>> ELSE LET x == CHOOSE y \in T : TRUE IN <<x>> \o SetToSeq(T \ {x})
JoinAll(T) == LET q == SetToSeq(T) IN [i \in DOMAIN q |-> Join(q[i])]
\* what today's close_db_conn (name "*" read as a pattern) would remove in the temporary directory
GlobClose(i) == (SideFiles(S(i)) \cap DirBefore(i)) \cup {f \in DirBefore(i) : Match(Name(S(i)) \o <<"*">>, f)}
GlobRestore(i) == {f \in DirBefore(i) : Match(Name(S(i)) \o <<"-", "*">>, f)}
Emit ==
  step = "start" =>
    PrintT(<<"SHAPE", ToJson([id |-> id, what |-> S(id).what,
      dir |-> Join(S(id).dir), rel |-> S(id).rel,
      files |-> [main |-> Join(Name(S(id))), wal |-> Join(WalName(S(id))), shm |-> Join(ShmName(S(id))),
                 jrn |-> Join(JrnName(S(id))), bak |-> Join(BackupName(S(id))), tmp |-> Join(TempName(S(id)))],
      sibs |-> LET q == SetToSeq(Sibs(id)) IN
               [i \in DOMAIN q |-> [main |-> Join(Name(q[i])), wal |-> Join(WalName(q[i])), shm |-> Join(ShmName(q[i]))]],
      colliding |-> LET q == SetToSeq(Colliding(id)) IN
               [i \in DOMAIN q |-> [main |-> Join(Name(q[i])),
                                    shared |-> JoinAll(FileSet(S(id)) \cap FileSet(q[i]))]],
      sidefiles |-> JoinAll(SideFiles(S(id))),
      closeown |-> JoinAll(CloseOwn(S(id)) \cap DirBefore(id)),
      globclose |-> JoinAll(GlobClose(id)),
      globrestore |-> JoinAll(GlobRestore(id))])>>)
PathInv == Emit
=============================================================================
