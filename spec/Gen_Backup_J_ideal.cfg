SPECIFICATION GSpec
CONSTANTS
  Starts <- StartsJ
  Dev <- DevIdeal
  MaxRuns = 2
  FlowDef <- FlowsLibJ
INVARIANT GenInv
CHECK_DEADLOCK FALSE
