SPECIFICATION Spec
CONSTANTS
  Dev <- DevNone
  Titles <- TitlesTwo
  Sections <- SecTwo
  Subsections <- SubTwo
  EmitSet <- EmitAllKinds
  ExpandTexts <- ExpandMsgs
  ParseTexts <- ParseMsgs
  Markers <- MarkersNone
  MaxMsgs = 2
  MaxMarkers = 0
INVARIANT TypeOK
INVARIANT PosIsState
INVARIANT AnnouncedPosition
INVARIANT StampsTitleSection
INVARIANT StampsSubsection
INVARIANT StampsCurrentTitle
INVARIANT CleanAfterStartPage
INVARIANT SubsectionClearedByStartSection
INVARIANT PathIsTitle
INVARIANT CookieInjective
PROPERTY PathRestored
PROPERTY ListsOnlyGrow
PROPERTY ToReturnObservesOnly
PROPERTY CookiesOnlyGrow
CHECK_DEADLOCK FALSE
