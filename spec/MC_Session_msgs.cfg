SPECIFICATION Spec
CONSTANTS
  Dev <- DevNone
  Titles <- TitlesTwo
  Sections <- SecTwo
  Subsections <- SubThree
  EmitSet <- EmitRich
  ExpandTexts <- ExpandMsgs
  ParseTexts <- ParseMsgs
  Markers <- MarkersNone
  MaxMsgs = 2
  MaxMarkers = 0
INVARIANT TypeOK
INVARIANT StampsTitleSection
INVARIANT StampsSubsection
INVARIANT StampsCurrentTitle
INVARIANT CleanAfterStartPage
INVARIANT SubsectionClearedByStartSection
INVARIANT PathIsTitle
INVARIANT CookieInjective
PROPERTY PathRestored
PROPERTY ListsOnlyGrow
PROPERTY ToReturnObservesOnly
PROPERTY CookiesOnlyGrow
CHECK_DEADLOCK FALSE
