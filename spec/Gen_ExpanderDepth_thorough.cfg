SPECIFICATION SpecD
CONSTANTS
  Universe = "LADDER"
  Known <- KnownExp
  DepthLimit = 100
  PreBody <- ThePreBody
  LogEvents = FALSE
  Tier = "thorough"
INVARIANT GenInvD
CHECK_DEADLOCK FALSE
