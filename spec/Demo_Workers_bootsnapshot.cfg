SPECIFICATION Spec
CONSTANTS
  Procs <- P2
  Dev <- DevSnapNever
  Scenarios <- ScnCursor
INVARIANT NoFailure
INVARIANT SerialResults
INVARIANT StoreUnchanged
INVARIANT NoDeadlock
CHECK_DEADLOCK FALSE
