SPECIFICATION Spec
CONSTANTS
  Procs <- P2
  Dev <- DevSnap
  Scenarios <- ScnCursor
INVARIANT NoFailure
INVARIANT SerialResults
INVARIANT StoreUnchanged
INVARIANT NoDeadlock
CHECK_DEADLOCK FALSE
