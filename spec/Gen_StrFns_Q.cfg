SPECIFICATION Spec
CONSTANTS
  LowerOf <- T_Lower
  UpperOf <- T_Upper
  Dev <- DevIdeal
  Alpha <- AlphaAB
  MaxS = 3
  MaxLong = 5
  Offs <- OffsQ
  Needles <- NeedlesQ
  Fns <- FnsAll
  Spell <- SpellQ
INVARIANT Emit
CHECK_DEADLOCK FALSE
