SPECIFICATION Spec
CONSTANTS
  Depth = 3
  Part = 0
  Parts = 1
INVARIANT GenInv
INVARIANT Laws
CHECK_DEADLOCK FALSE
