SPECIFICATION Spec
CONSTANTS
  Tier = "quick"
INVARIANT DemoKept
CHECK_DEADLOCK FALSE
