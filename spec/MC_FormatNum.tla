---------------------------- MODULE MC_FormatNum ----------------------------
(* Bounded instances of FormatNum.  Shapes is a sequence of locale shapes    *)
(* (built-in copies of the shipped ones for MC, the shapes read from the     *)
(* localization.json files of the working tree for Gen).                     *)
EXTENDS FormatNum

CONSTANTS Shapes, MaxDigits, Fracs
VARIABLE x

DevIdeal == {}
DevAsIs == {"RawDecimalPointTakenForSeparator", "ReverseReplacesDecimalFirst"}

Sh(sep, dec, grp) == [sep |-> sep, dec |-> dec, grp |-> grp]
BuiltinShapes ==
  << Sh(<<",">>, ".", <<3, 0>>), Sh(<<".">>, ",", <<3, 0>>), Sh(<<"NBSP">>, ",", <<3, 0>>),
     Sh(<<",">>, ".", <<3, 2, 0>>), Sh(<<>>, ",", <<>>), Sh(<<"NNBSP">>, ",", <<3, 0>>),
     Sh(<<".">>, ",", <<>>), Sh(<<>>, ",", <<3, 0>>),
     \* not shipped: other grouping methods
     Sh(<<"'">>, ".", <<2, 2, 3, 0>>), Sh(<<",">>, ".", <<4, 0>>), Sh(<<".">>, ",", <<3, 2>>) >>

DigitAt(i) == CASE i = 0 -> "0" [] i = 1 -> "1" [] i = 2 -> "2" [] i = 3 -> "3" [] i = 4 -> "4"
                [] i = 5 -> "5" [] i = 6 -> "6" [] i = 7 -> "7" [] i = 8 -> "8" [] i = 9 -> "9"
Cyclic(k, start) == [i \in 1..k |-> DigitAt((start + i) % 10)]
IntParts == {Cyclic(k, s) : k \in 1..MaxDigits, s \in 0..9}
            \cup UNION {[1..k -> {"0", "7"}] : k \in 1..4}
FracsFew == {<<>>, <<"5">>, <<"0", "5">>}
FracsAll == {<<>>, <<"5">>, <<"0", "5">>, <<"1", "2", "5">>, <<"0", "0", "0", "1">>}
Numerals == {[int |-> i, frac |-> f] : i \in IntParts, f \in Fracs}

State(ph, sh, n) == [ph |-> ph, sh |-> sh, n |-> n]
NoNum == [int |-> <<>>, frac |-> <<>>]
Init == x = State("root", 0, NoNum)
PickShape == x.ph = "root" /\ \E i \in 1..Len(Shapes) : x' = State("shape", i, NoNum)
PickNumeral == x.ph = "shape" /\ \E n \in Numerals : x' = State("case", x.sh, n)
Next == PickShape \/ PickNumeral
Spec == Init /\ [][Next]_x

RoundTrip == x.ph = "case" => RoundTrips(x.n, Shapes[x.sh], Dev)
\* the transcription formats like the declarative grouping (when it formats)
FormatsLikeReference ==
  x.ph = "case" => (EarlyReturn(x.n, Shapes[x.sh], Dev) \/ FormatCode(x.n, Shapes[x.sh], Dev) = RefFormat(x.n, Shapes[x.sh]))
\* sanity of the reference: removing the separators gives the digits back and
\* no group is longer than the largest size
Ungrouped ==
  x.ph = "case" =>
    LET sh == Shapes[x.sh] g == Grouped(x.n.int, <<"|">>, sh.grp) IN
    /\ SelectSeq(g, LAMBDA c : c # "|") = x.n.int
    /\ g[1] # "|" /\ g[Len(g)] # "|"
=============================================================================
