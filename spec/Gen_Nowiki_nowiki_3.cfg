SPECIFICATION Spec
CONSTANTS
  MaxTok = 3
  Mode = "nowiki"
  Depth = 0
  DeepAll = FALSE
INVARIANT GenInv
CHECK_DEADLOCK FALSE
