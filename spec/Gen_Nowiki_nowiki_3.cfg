SPECIFICATION Spec
CONSTANTS
  MaxTok = 3
  Mode = "nowiki"
INVARIANT GenInv
CHECK_DEADLOCK FALSE
