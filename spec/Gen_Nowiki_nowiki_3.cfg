SPECIFICATION Spec
CONSTANTS
  MaxTok = 3
  Mode = "nowiki"
  Depth = 0
  DeepAll = FALSE
  FinRule = "fixpoint"
INVARIANT GenInv
CHECK_DEADLOCK FALSE
