---------------------------- MODULE MC_StrFns ----------------------------
(* Bounded instances of StrFns: every call of every function over all       *)
(* strings up to a length over a small atom alphabet x all integer offsets. *)
(* State graph: root -> function -> subject string -> one state per call (so *)
(* that TLC's workers share the work); a call state is the record            *)
(*   [ph |-> "call", fn, args, exp, strict]                                  *)
(* args: sequence of [k |-> "s"|"i", s, i]; exp: the reference result;       *)
(* strict = FALSE marks calls outside the documented domain (the prediction  *)
(* is then what the code is read to do; a difference is drift).              *)
EXTENDS StrFns

CONSTANTS Alpha,      \* atoms of the subject strings
          MaxS,       \* max length of subject strings for the offset grids
          MaxLong,    \* max length for the cheap one-argument functions
          Offs,       \* integer offsets
          Needles,    \* search terms / delimiters / paddings
          Fns,
          Spell       \* {} | {"spell"} | {"spell", "spellT"}: integer parameters written as non-canonical numerals

VARIABLE x

T_Lower == ("A" :> "a") @@ ("B" :> "b") @@ ("a" :> "a") @@ ("b" :> "b")
T_Upper == ("a" :> "A") @@ ("b" :> "B") @@ ("A" :> "A") @@ ("B" :> "B")
DevIdeal == {}
DevTitleparts == {"TitlepartsSplitsOnColon", "TitlepartsFirstZeroBased", "TitlepartsNegativeCountFromStart"}
DevPlural == {"PluralComparesStringWithInt"}

AlphaAB == {"a", "b", "SP"}
AlphaCase == {"a", "B", "SP"}
Alpha2 == {"a", "b"}
OffsQ == -4..4
OffsT == -10..10
NeedlesQ == {<<>>, <<"a">>, <<"b">>, <<"a", "b">>, <<"a", "a">>, <<"SP">>}
NeedlesT == NeedlesQ \cup {<<"b", "a">>, <<"a", "b", "a">>, <<"b", "SP">>}
FnsAll == {"#len", "#pos", "#rpos", "#sub", "#replace", "#explode", "#titleparts", "padleft",
           "padright", "lc", "uc", "lcfirst", "ucfirst", "plural", "urlencode", "#urldecode"}

StrsOver(A, n) == UNION {[1..k -> A] : k \in 0..n}
Strs == StrsOver(Alpha, MaxS)
Long == StrsOver(Alpha, MaxLong)

AS(s) == [k |-> "s", s |-> s, i |-> 0]
AI(i) == [k |-> "i", s |-> <<>>, i |-> i]
\* an integer parameter written as the numeral sp (the harness writes sp verbatim); i = how the reference reads it
AN(sp) == [k |-> "n", s |-> sp, i |-> IntArg(sp)]
Call(fn, args, exp, strict) == [ph |-> "call", fn |-> fn, args |-> args, exp |-> exp, strict |-> strict]
Phase(ph, fn) == [ph |-> ph, fn |-> fn, args |-> <<>>, exp |-> RS(<<>>), strict |-> TRUE]

DoubleSP(s) == \E i \in 1..(Len(s) - 1) : s[i] = SP /\ s[i + 1] = SP
HasOuterSP(s) == Len(s) > 0 /\ (s[1] = SP \/ s[Len(s)] = SP) /\ Trim(s) # <<>>

\* titles: a fixed capital first atom, then segments over {"b", "/"}, with or
\* without a namespace-like prefix atom containing a colon
TitleStrs == {<<"A">> \o t : t \in StrsOver({"b", "/"}, MaxS)}
             \cup {<<"H", ":", "A">> \o t : t \in StrsOver({"b", "/"}, IF MaxS > 3 THEN 3 ELSE MaxS)}
UrlStrs == StrsOver({"a", "SP", "/", ":", "&", "%", "+", "="}, IF MaxS > 3 THEN 3 ELSE MaxS)

\* subject strings (first argument) of a function
Subjects(fn) ==
  CASE fn \in {"#len"} -> Long
    [] fn \in {"lc", "uc", "lcfirst", "ucfirst"} -> StrsOver(AlphaCase, MaxLong)
    [] fn = "#titleparts" -> TitleStrs
    [] fn \in {"urlencode", "#urldecode"} -> UrlStrs
    [] fn = "plural" -> {<<"a">>, <<"a", "SP", "b">>}
    [] OTHER -> Strs

\* the calls of fn on subject s
CallsOf(fn, s) ==
  CASE fn = "#len" -> {Call(fn, <<AS(s)>>, StrLen(s), TRUE)}
    [] fn = "lc" -> {Call(fn, <<AS(s)>>, Lc(s), TRUE)}
    [] fn = "uc" -> {Call(fn, <<AS(s)>>, Uc(s), TRUE)}
    [] fn = "lcfirst" -> {Call(fn, <<AS(s)>>, LcFirst(s), TRUE)}
    [] fn = "ucfirst" -> {Call(fn, <<AS(s)>>, UcFirst(s), TRUE)}
    [] fn = "#pos" ->
         {Call(fn, <<AS(s), AS(n), AI(o)>>, Pos(s, n, IF o < 0 THEN 0 ELSE o), o >= 0 /\ ~HasOuterSP(n))
            : n \in Needles, o \in Offs}
         \cup {Call(fn, <<AS(s), AS(n)>>, Pos(s, n, 0), ~HasOuterSP(n)) : n \in Needles}
         \cup {Call(fn, <<AS(s)>>, Pos(s, <<>>, 0), TRUE)}
    [] fn = "#rpos" ->
         {Call(fn, <<AS(s), AS(n)>>, RPos(s, n), ~HasOuterSP(n)) : n \in Needles}
         \cup {Call(fn, <<AS(s)>>, RPos(s, <<>>), TRUE)}
    [] fn = "#sub" ->
         {Call(fn, <<AS(s), AI(a), AI(b)>>, Sub(s, a, b), TRUE) : a \in Offs, b \in Offs}
         \cup {Call(fn, <<AS(s), AI(a)>>, Sub(s, a, 0), TRUE) : a \in Offs}
         \cup {Call(fn, <<AS(s)>>, Sub(s, 0, 0), TRUE)}
    [] fn = "#replace" ->
         {Call(fn, <<AS(s), AS(n), AS(r)>>, Replace(s, n, r), ~HasOuterSP(n) /\ ~HasOuterSP(r) /\ r # <<SP>>)
            : n \in Needles, r \in Needles}
         \cup {Call(fn, <<AS(s), AS(n)>>, Replace(s, n, <<>>), ~HasOuterSP(n)) : n \in Needles}
    [] fn = "#explode" ->
         {Call(fn, <<AS(s), AS(d), AI(p), AI(l)>>, Explode(s, d, p, l), ~HasOuterSP(d))
            : d \in Needles, p \in Offs, l \in 1..3}
         \cup {Call(fn, <<AS(s), AS(d), AI(p)>>, Explode(s, d, p, 0), ~HasOuterSP(d))
            : d \in Needles, p \in Offs}
         \cup {Call(fn, <<AS(s), AS(d)>>, Explode(s, d, 0, 0), ~HasOuterSP(d)) : d \in Needles}
    [] fn = "#titleparts" ->
         {Call(fn, <<AS(s), AI(a), AI(b)>>, TitleParts(s, a, b), TRUE) : a \in Offs, b \in Offs}
         \cup {Call(fn, <<AS(s), AI(a)>>, TitleParts(s, a, 0), TRUE) : a \in Offs}
         \cup {Call(fn, <<AS(s)>>, TitleParts(s, 0, 0), TRUE)}
    [] fn = "padleft" ->
         {Call(fn, <<AS(s), AI(a), AS(p)>>, PadLeft(s, a, p), p # <<>> /\ p # <<SP>> /\ ~HasOuterSP(p))
            : a \in Offs, p \in Needles}
         \cup {Call(fn, <<AS(s), AI(a)>>, PadLeft(s, a, <<"0">>), TRUE) : a \in Offs}
    [] fn = "padright" ->
         {Call(fn, <<AS(s), AI(a), AS(p)>>, PadRight(s, a, p), p # <<>> /\ p # <<SP>> /\ ~HasOuterSP(p))
            : a \in Offs, p \in Needles}
         \cup {Call(fn, <<AS(s), AI(a)>>, PadRight(s, a, <<"0">>), TRUE) : a \in Offs}
    [] fn = "plural" ->
         {Call(fn, <<AI(n), AS(s), AS(b)>>, Plural(n, s, b), TRUE)
            : n \in {0, 1, 2, 3, 5, 10, 11, 21, 100, 101}, b \in {<<"b">>, <<>>}}
         \cup {Call(fn, <<AI(n), AS(s)>>, Plural(n, s, <<>>), TRUE) : n \in {0, 1, 2}}
    [] fn = "urlencode" ->
         \* (the code writes one "_" for a run of blanks in WIKI mode: outside the ASCII table modelled)
         {Call(fn, <<AS(s), AS(<<m>>)>>, UrlEncode(s, m), ~(m = "WIKI" /\ DoubleSP(Trim(s)))) : m \in {"QUERY", "WIKI", "PATH"}}
         \cup {Call(fn, <<AS(s)>>, UrlEncode(s, "QUERY"), TRUE)}
    [] fn = "#urldecode" ->
         {Call(fn, <<AS(UrlEncode(s, m).s)>>, RS(Trim(s)), TRUE) : m \in {"QUERY", "PATH"}}

(* ---- integer parameters written as non-canonical numerals (Spell) ----                        *)
(* One integer, several texts: leading zeros, blanks around it (documented: the number decides),  *)
(* and -- outside the documentation, strict = FALSE -- an explicit "+", a fraction of zeros, an   *)
(* exponent, parentheses.  Every call has the result of the call with the canonical numeral.      *)
NoSpell == {}
SpellQ == {"spell"}
SpellT == {"spell", "spellT"}
SpellWide == "spellT" \in Spell
Sgn(v) == IF v < 0 THEN <<"-">> ELSE <<>>
Mag(v) == IF v < 0 THEN -v ELSE v
DocSpellings(v) ==
  {Sgn(v) \o <<"0">> \o Dec(Mag(v)), Sgn(v) \o <<"0", "0">> \o Dec(Mag(v)),
   <<SP>> \o Canon(v) \o <<SP>>, <<SP, SP>> \o Sgn(v) \o <<"0">> \o Dec(Mag(v))}
  \cup (IF v = 0 THEN {<<"-", "0">>} ELSE {})
  \cup (IF SpellWide THEN {Sgn(v) \o <<"0", "0", "0", "0">> \o Dec(Mag(v)), Canon(v) \o <<SP, SP>>} ELSE {})
OtherSpellings(v) ==
  (IF v >= 0 THEN {<<"+">> \o Dec(v), <<"+", "0">> \o Dec(v)} ELSE {})
  \cup {Canon(v) \o <<".", "0">>, Canon(v) \o <<"e", "0">>}
  \cup (IF SpellWide THEN {Canon(v) \o <<".">>, Sgn(v) \o <<"0">> \o Dec(Mag(v)) \o <<".", "0", "0">>, Canon(v) \o <<"-", "0">>} ELSE {})
Spellings(v) == DocSpellings(v) \cup OtherSpellings(v)
\* for plural the parameter is a NUMBER (an #expr): these spellings all denote v there too
NumberSpellings(v) == DocSpellings(v) \cup (IF v >= 0 THEN {<<"+">> \o Dec(v)} ELSE {})
                      \cup {Canon(v) \o <<".", "0">>, Canon(v) \o <<".">>, Sgn(v) \o <<"0">> \o Dec(Mag(v)) \o <<".", "0", "0">>}
SpellInts == IF SpellWide THEN -3..5 ELSE -2..3
SpellFew == {-1, 0, 2}
SpellCounts == {0, 1, 3, 5, 10} \cup (IF SpellWide THEN {2, 4, 12, -1} ELSE {})
SpellPlurals == {0, 1, 2, 10, 11, -1} \cup (IF SpellWide THEN {21, 100, 101, 3} ELSE {})
SpellSubjects(fn) ==
  IF Spell = {} THEN {}
  ELSE CASE fn \in {"#sub", "#pos", "#explode"} -> {<<"a", "b", "b", "a", "b">>, <<"b", "SP", "a", "b">>}
         [] fn = "#titleparts" -> {<<"A", "/", "b", "/", "b", "b", "/", "b">>} \cup (IF SpellWide THEN {<<"A", "b", "/", "b">>} ELSE {})
         [] fn \in {"padleft", "padright"} -> {<<"a">>, <<"a", "b">>}
         [] fn = "plural" -> {<<"a">>}
         [] OTHER -> {}
SpellCallsOf(fn, s) ==
  CASE fn = "#sub" ->
         {Call(fn, <<AS(s), AN(p), AI(b)>>, Sub(s, IntArg(p), b), IntArgPlain(p)) : p \in UNION {Spellings(a) : a \in SpellInts}, b \in SpellFew}
         \cup {Call(fn, <<AS(s), AI(a), AN(q)>>, Sub(s, a, IntArg(q)), IntArgPlain(q)) : a \in SpellFew, q \in UNION {Spellings(b) : b \in SpellInts}}
         \cup {Call(fn, <<AS(s), AN(p)>>, Sub(s, IntArg(p), 0), IntArgPlain(p)) : p \in UNION {Spellings(a) : a \in SpellInts}}
         \cup {Call(fn, <<AS(s), AN(p), AN(q)>>, Sub(s, IntArg(p), IntArg(q)), TRUE) : p \in DocSpellings(1) \cup DocSpellings(-2), q \in DocSpellings(2) \cup DocSpellings(-1)}
    [] fn = "#pos" ->
         {Call(fn, <<AS(s), AS(n), AN(p)>>, Pos(s, n, IntArg(p)), IntArgPlain(p))
            : n \in {<<"a">>, <<"b">>, <<"a", "b">>}, p \in UNION {Spellings(a) : a \in 0..3}}
    [] fn = "#explode" ->
         {Call(fn, <<AS(s), AS(d), AN(p)>>, Explode(s, d, IntArg(p), 0), IntArgPlain(p))
            : d \in {<<"a">>, <<"b">>}, p \in UNION {Spellings(a) : a \in SpellInts}}
         \cup {Call(fn, <<AS(s), AS(d), AN(p), AI(l)>>, Explode(s, d, IntArg(p), l), IntArgPlain(p))
            : d \in {<<"b">>}, p \in UNION {Spellings(a) : a \in SpellFew}, l \in 1..2}
         \cup {Call(fn, <<AS(s), AS(d), AI(a), AN(q)>>, Explode(s, d, a, IntArg(q)), IntArgPlain(q))
            : d \in {<<"b">>}, a \in {0, 1, -1}, q \in UNION {Spellings(l) : l \in 1..3}}
    [] fn = "#titleparts" ->
         {Call(fn, <<AS(s), AN(p), AI(b)>>, TitleParts(s, IntArg(p), b), IntArgPlain(p)) : p \in UNION {Spellings(a) : a \in SpellInts}, b \in {0, 2, -1}}
         \cup {Call(fn, <<AS(s), AI(a), AN(q)>>, TitleParts(s, a, IntArg(q)), IntArgPlain(q)) : a \in {0, 1, -1}, q \in UNION {Spellings(b) : b \in SpellInts}}
         \cup {Call(fn, <<AS(s), AN(p)>>, TitleParts(s, IntArg(p), 0), IntArgPlain(p)) : p \in UNION {Spellings(a) : a \in SpellInts}}
    [] fn = "padleft" ->
         {Call(fn, <<AS(s), AN(p), AS(q)>>, PadLeft(s, IntArg(p), q), IntArgPlain(p)) : p \in UNION {Spellings(a) : a \in SpellCounts}, q \in {<<"b">>, <<"a", "b">>}}
         \cup {Call(fn, <<AS(s), AN(p)>>, PadLeft(s, IntArg(p), <<"0">>), IntArgPlain(p)) : p \in UNION {Spellings(a) : a \in SpellCounts}}
    [] fn = "padright" ->
         {Call(fn, <<AS(s), AN(p), AS(q)>>, PadRight(s, IntArg(p), q), IntArgPlain(p)) : p \in UNION {Spellings(a) : a \in SpellCounts}, q \in {<<"b">>, <<"a", "b">>}}
         \cup {Call(fn, <<AS(s), AN(p)>>, PadRight(s, IntArg(p), <<"0">>), IntArgPlain(p)) : p \in UNION {Spellings(a) : a \in SpellCounts}}
    [] fn = "plural" ->
         {Call(fn, <<AN(p), AS(s), AS(<<"b">>)>>, Plural(IntArg(p), s, <<"b">>), TRUE) : p \in UNION {NumberSpellings(v) : v \in SpellPlurals}}
         \cup {Call(fn, <<AN(p), AS(s)>>, Plural(IntArg(p), s, <<>>), TRUE) : p \in UNION {NumberSpellings(v) : v \in {0, 1, 2}}}
    [] OTHER -> {}

Init == x = Phase("root", "")
PickFunction == x.ph = "root" /\ \E f \in Fns : x' = Phase("fn", f)
PickSubject == x.ph = "fn" /\ \E s \in Subjects(x.fn) : x' = [Phase("subject", x.fn) EXCEPT !.args = <<AS(s)>>]
MakeCall == x.ph = "subject" /\ x' \in CallsOf(x.fn, x.args[1].s)
PickSpellSubject == x.ph = "fn" /\ \E s \in SpellSubjects(x.fn) : x' = [Phase("nsubject", x.fn) EXCEPT !.args = <<AS(s)>>]
MakeSpelledCall == x.ph = "nsubject" /\ x' \in SpellCallsOf(x.fn, x.args[1].s)
Next == PickFunction \/ PickSubject \/ MakeCall \/ PickSpellSubject \/ MakeSpelledCall
Spec == Init /\ [][Next]_x
IsCall == x.ph = "call"

(* ---- M: laws the reference definitions satisfy (sanity of the reference) ---- *)
A(i) == x.args[i]
NArgs == Len(x.args)
Laws ==
  IsCall =>
  CASE x.fn = "#sub" /\ NArgs = 3 ->
         LET s == Trim(A(1).s) r == x.exp.s IN
         /\ Len(r) <= Len(s)
         /\ \E i \in 0..Len(s) : Occurs(s, r, i)                     \* a contiguous piece
         /\ (A(2).i >= 0 /\ A(2).i <= Len(s) /\ A(3).i = 0) =>
              Sub(s, 0, A(2).i).s \o r = (IF A(2).i = 0 THEN s \o s ELSE s)   \* prefix + rest (start 0, length 0 = whole)
    [] x.fn = "#pos" /\ NArgs = 3 /\ A(3).i >= 0 ->
         LET s == Trim(A(1).s) n == Needle(A(2).s) IN
         IF x.exp.k = "i"
         THEN Occurs(s, n, x.exp.i) /\ x.exp.i >= A(3).i /\ \A j \in A(3).i..(x.exp.i - 1) : ~Occurs(s, n, j)
         ELSE \A j \in A(3).i..Len(s) : ~Occurs(s, n, j)
    [] x.fn = "#rpos" /\ NArgs = 2 ->
         LET s == Trim(A(1).s) n == Needle(A(2).s) p == Pos(s, n, 0) IN
         IF x.exp.i = -1 THEN p.k = "s" ELSE p.k = "i" /\ p.i <= x.exp.i /\ Occurs(s, n, x.exp.i)
    [] x.fn = "#replace" /\ NArgs = 3 ->
         LET s == Trim(A(1).s) n == Needle(A(2).s) IN
         /\ Repl(s, n, n) = s
         /\ x.exp.s = Join(Split(s, n), Trim(A(3).s))
    [] x.fn = "#explode" /\ NArgs = 3 ->
         LET s == Trim(A(1).s) d == Needle(A(2).s) ps == Split(s, d) IN
         /\ Join(ps, d) = s
         /\ (A(3).i >= 0 /\ A(3).i < Len(ps)) => x.exp.s = ps[A(3).i + 1]
         /\ (A(3).i >= Len(ps) \/ A(3).i < -Len(ps)) => x.exp.s = <<>>
    [] x.fn \in {"padleft", "padright"} /\ NArgs = 3 ->
         LET s == Trim(A(1).s) p == Trim(A(3).s) IN
         IF p = <<>> THEN x.exp.s = s
         ELSE /\ Len(x.exp.s) = Max(A(2).i, Len(s))
              /\ (IF x.fn = "padleft" THEN SubSeq(x.exp.s, Len(x.exp.s) - Len(s) + 1, Len(x.exp.s))
                                      ELSE SubSeq(x.exp.s, 1, Len(s))) = s
    [] x.fn = "#titleparts" /\ NArgs = 3 ->
         \* the transcription of the code with all deviations off is the reference
         /\ TitlePartsCode(A(1).s, A(2).i, A(3).i) = x.exp
         /\ (A(2).i = 0 /\ A(3).i \in {0, 1}) => x.exp.s = Trim(A(1).s)
    [] x.fn = "#urldecode" -> UrlDecode(A(1).s) = x.exp
    [] OTHER -> TRUE

\* M (numerals): building a numeral from an integer (Dec: division by 10) and reading a numeral
\* (Positional) are inverse; every documented spelling is a plain numeral of its integer, every other
\* spelling is not plain and is read as the same integer by the reference; for plural every spelling
\* is read as its number
SpellValues == SpellInts \cup SpellCounts \cup SpellPlurals
NumeralsDenote ==
  (x.ph = "root" /\ Spell # {}) =>
    \A v \in SpellValues :
      /\ IntArgPlain(Canon(v)) /\ IntArg(Canon(v)) = v
      /\ \A p \in DocSpellings(v) : IntArgPlain(p) /\ IntArg(p) = v /\ p # Canon(v)
      /\ \A p \in OtherSpellings(v) : ~IntArgPlain(p) /\ IntArg(p) = v
      /\ \A p \in NumberSpellings(v) : IntArg(p) = v
\* M (numerals): a call whose integer parameters are written in another way has the result of the call with the
\* canonical numerals (stated on the reference definitions, for the spelled calls of this instance)
RefOfInts(fn, a) ==
  LET I(k) == IF k <= Len(a) THEN a[k].i ELSE 0
      S(k) == IF k <= Len(a) THEN a[k].s ELSE <<>> IN
  CASE fn = "#sub" -> Sub(S(1), I(2), I(3))
    [] fn = "#pos" -> Pos(S(1), S(2), I(3))
    [] fn = "#explode" -> Explode(S(1), S(2), I(3), I(4))
    [] fn = "#titleparts" -> TitleParts(S(1), I(2), I(3))
    [] fn = "padleft" -> PadLeft(S(1), I(2), IF Len(a) >= 3 THEN S(3) ELSE <<"0">>)
    [] fn = "padright" -> PadRight(S(1), I(2), IF Len(a) >= 3 THEN S(3) ELSE <<"0">>)
    [] fn = "plural" -> Plural(I(1), S(2), S(3))
IsSpelledCall == IsCall /\ \E k \in 1..Len(x.args) : x.args[k].k = "n"
SpellingDoesNotMatter ==
  IsSpelledCall =>
    /\ x.exp = RefOfInts(x.fn, [k \in 1..Len(x.args) |-> IF x.args[k].k = "n" THEN AI(IntArg(Canon(x.args[k].i))) ELSE x.args[k]])
    /\ x.strict => \A k \in 1..Len(x.args) : x.args[k].k = "n" => (x.fn = "plural" \/ IntArgPlain(x.args[k].s))

\* Demo: with the as-is deviations on, the transcription differs from the reference
TitlepartsAsIsAgrees ==
  (IsCall /\ x.fn = "#titleparts" /\ NArgs = 3) => TitlePartsCode(A(1).s, A(2).i, A(3).i) = x.exp
PluralAsIsAgrees ==
  (IsCall /\ x.fn = "plural" /\ NArgs = 3) => x.exp = RS(IF A(1).i = 1 THEN Trim(A(2).s) ELSE Trim(A(3).s))
=============================================================================
