---------------------------- MODULE MC_StrFns ----------------------------
(* Bounded instances of StrFns: every call of every function over all       *)
(* strings up to a length over a small atom alphabet x all integer offsets. *)
(* State graph: root -> function -> subject string -> one state per call (so *)
(* that TLC's workers share the work); a call state is the record            *)
(*   [ph |-> "call", fn, args, exp, strict]                                  *)
(* args: sequence of [k |-> "s"|"i", s, i]; exp: the reference result;       *)
(* strict = FALSE marks calls outside the documented domain (the prediction  *)
(* is then what the code is read to do; a difference is drift).              *)
EXTENDS StrFns

CONSTANTS Alpha,      \* atoms of the subject strings
          MaxS,       \* max length of subject strings for the offset grids
          MaxLong,    \* max length for the cheap one-argument functions
          Offs,       \* integer offsets
          Needles,    \* search terms / delimiters / paddings
          Fns

VARIABLE x

T_Lower == ("A" :> "a") @@ ("B" :> "b") @@ ("a" :> "a") @@ ("b" :> "b")
T_Upper == ("a" :> "A") @@ ("b" :> "B") @@ ("A" :> "A") @@ ("B" :> "B")
DevIdeal == {}
DevTitleparts == {"TitlepartsSplitsOnColon", "TitlepartsFirstZeroBased", "TitlepartsNegativeCountFromStart"}
DevPlural == {"PluralComparesStringWithInt"}

AlphaAB == {"a", "b", "SP"}
AlphaCase == {"a", "B", "SP"}
Alpha2 == {"a", "b"}
OffsQ == -4..4
OffsT == -10..10
NeedlesQ == {<<>>, <<"a">>, <<"b">>, <<"a", "b">>, <<"a", "a">>, <<"SP">>}
NeedlesT == NeedlesQ \cup {<<"b", "a">>, <<"a", "b", "a">>, <<"b", "SP">>}
FnsAll == {"#len", "#pos", "#rpos", "#sub", "#replace", "#explode", "#titleparts", "padleft",
           "padright", "lc", "uc", "lcfirst", "ucfirst", "plural", "urlencode", "#urldecode"}

StrsOver(A, n) == UNION {[1..k -> A] : k \in 0..n}
Strs == StrsOver(Alpha, MaxS)
Long == StrsOver(Alpha, MaxLong)

AS(s) == [k |-> "s", s |-> s, i |-> 0]
AI(i) == [k |-> "i", s |-> <<>>, i |-> i]
Call(fn, args, exp, strict) == [ph |-> "call", fn |-> fn, args |-> args, exp |-> exp, strict |-> strict]
Phase(ph, fn) == [ph |-> ph, fn |-> fn, args |-> <<>>, exp |-> RS(<<>>), strict |-> TRUE]

DoubleSP(s) == \E i \in 1..(Len(s) - 1) : s[i] = SP /\ s[i + 1] = SP
HasOuterSP(s) == Len(s) > 0 /\ (s[1] = SP \/ s[Len(s)] = SP) /\ Trim(s) # <<>>

\* titles: a fixed capital first atom, then segments over {"b", "/"}, with or
\* without a namespace-like prefix atom containing a colon
TitleStrs == {<<"A">> \o t : t \in StrsOver({"b", "/"}, MaxS)}
             \cup {<<"H", ":", "A">> \o t : t \in StrsOver({"b", "/"}, IF MaxS > 3 THEN 3 ELSE MaxS)}
UrlStrs == StrsOver({"a", "SP", "/", ":", "&", "%", "+", "="}, IF MaxS > 3 THEN 3 ELSE MaxS)

\* subject strings (first argument) of a function
Subjects(fn) ==
  CASE fn \in {"#len"} -> Long
    [] fn \in {"lc", "uc", "lcfirst", "ucfirst"} -> StrsOver(AlphaCase, MaxLong)
    [] fn = "#titleparts" -> TitleStrs
    [] fn \in {"urlencode", "#urldecode"} -> UrlStrs
    [] fn = "plural" -> {<<"a">>, <<"a", "SP", "b">>}
    [] OTHER -> Strs

\* the calls of fn on subject s
CallsOf(fn, s) ==
  CASE fn = "#len" -> {Call(fn, <<AS(s)>>, StrLen(s), TRUE)}
    [] fn = "lc" -> {Call(fn, <<AS(s)>>, Lc(s), TRUE)}
    [] fn = "uc" -> {Call(fn, <<AS(s)>>, Uc(s), TRUE)}
    [] fn = "lcfirst" -> {Call(fn, <<AS(s)>>, LcFirst(s), TRUE)}
    [] fn = "ucfirst" -> {Call(fn, <<AS(s)>>, UcFirst(s), TRUE)}
    [] fn = "#pos" ->
         {Call(fn, <<AS(s), AS(n), AI(o)>>, Pos(s, n, IF o < 0 THEN 0 ELSE o), o >= 0 /\ ~HasOuterSP(n))
            : n \in Needles, o \in Offs}
         \cup {Call(fn, <<AS(s), AS(n)>>, Pos(s, n, 0), ~HasOuterSP(n)) : n \in Needles}
         \cup {Call(fn, <<AS(s)>>, Pos(s, <<>>, 0), TRUE)}
    [] fn = "#rpos" ->
         {Call(fn, <<AS(s), AS(n)>>, RPos(s, n), ~HasOuterSP(n)) : n \in Needles}
         \cup {Call(fn, <<AS(s)>>, RPos(s, <<>>), TRUE)}
    [] fn = "#sub" ->
         {Call(fn, <<AS(s), AI(a), AI(b)>>, Sub(s, a, b), TRUE) : a \in Offs, b \in Offs}
         \cup {Call(fn, <<AS(s), AI(a)>>, Sub(s, a, 0), TRUE) : a \in Offs}
         \cup {Call(fn, <<AS(s)>>, Sub(s, 0, 0), TRUE)}
    [] fn = "#replace" ->
         {Call(fn, <<AS(s), AS(n), AS(r)>>, Replace(s, n, r), ~HasOuterSP(n) /\ ~HasOuterSP(r) /\ r # <<SP>>)
            : n \in Needles, r \in Needles}
         \cup {Call(fn, <<AS(s), AS(n)>>, Replace(s, n, <<>>), ~HasOuterSP(n)) : n \in Needles}
    [] fn = "#explode" ->
         {Call(fn, <<AS(s), AS(d), AI(p), AI(l)>>, Explode(s, d, p, l), ~HasOuterSP(d))
            : d \in Needles, p \in Offs, l \in 1..3}
         \cup {Call(fn, <<AS(s), AS(d), AI(p)>>, Explode(s, d, p, 0), ~HasOuterSP(d))
            : d \in Needles, p \in Offs}
         \cup {Call(fn, <<AS(s), AS(d)>>, Explode(s, d, 0, 0), ~HasOuterSP(d)) : d \in Needles}
    [] fn = "#titleparts" ->
         {Call(fn, <<AS(s), AI(a), AI(b)>>, TitleParts(s, a, b), TRUE) : a \in Offs, b \in Offs}
         \cup {Call(fn, <<AS(s), AI(a)>>, TitleParts(s, a, 0), TRUE) : a \in Offs}
         \cup {Call(fn, <<AS(s)>>, TitleParts(s, 0, 0), TRUE)}
    [] fn = "padleft" ->
         {Call(fn, <<AS(s), AI(a), AS(p)>>, PadLeft(s, a, p), p # <<>> /\ p # <<SP>> /\ ~HasOuterSP(p))
            : a \in Offs, p \in Needles}
         \cup {Call(fn, <<AS(s), AI(a)>>, PadLeft(s, a, <<"0">>), TRUE) : a \in Offs}
    [] fn = "padright" ->
         {Call(fn, <<AS(s), AI(a), AS(p)>>, PadRight(s, a, p), p # <<>> /\ p # <<SP>> /\ ~HasOuterSP(p))
            : a \in Offs, p \in Needles}
         \cup {Call(fn, <<AS(s), AI(a)>>, PadRight(s, a, <<"0">>), TRUE) : a \in Offs}
    [] fn = "plural" ->
         {Call(fn, <<AI(n), AS(s), AS(b)>>, Plural(n, s, b), TRUE)
            : n \in {0, 1, 2, 3, 5, 10, 11, 21, 100, 101}, b \in {<<"b">>, <<>>}}
         \cup {Call(fn, <<AI(n), AS(s)>>, Plural(n, s, <<>>), TRUE) : n \in {0, 1, 2}}
    [] fn = "urlencode" ->
         \* (the code writes one "_" for a run of blanks in WIKI mode: outside the ASCII table modelled)
         {Call(fn, <<AS(s), AS(<<m>>)>>, UrlEncode(s, m), ~(m = "WIKI" /\ DoubleSP(Trim(s)))) : m \in {"QUERY", "WIKI", "PATH"}}
         \cup {Call(fn, <<AS(s)>>, UrlEncode(s, "QUERY"), TRUE)}
    [] fn = "#urldecode" ->
         {Call(fn, <<AS(UrlEncode(s, m).s)>>, RS(Trim(s)), TRUE) : m \in {"QUERY", "PATH"}}

Init == x = Phase("root", "")
PickFunction == x.ph = "root" /\ \E f \in Fns : x' = Phase("fn", f)
PickSubject == x.ph = "fn" /\ \E s \in Subjects(x.fn) : x' = [Phase("subject", x.fn) EXCEPT !.args = <<AS(s)>>]
MakeCall == x.ph = "subject" /\ x' \in CallsOf(x.fn, x.args[1].s)
Next == PickFunction \/ PickSubject \/ MakeCall
Spec == Init /\ [][Next]_x
IsCall == x.ph = "call"

(* ---- M: laws the reference definitions satisfy (sanity of the reference) ---- *)
A(i) == x.args[i]
NArgs == Len(x.args)
Laws ==
  IsCall =>
  CASE x.fn = "#sub" /\ NArgs = 3 ->
         LET s == Trim(A(1).s) r == x.exp.s IN
         /\ Len(r) <= Len(s)
         /\ \E i \in 0..Len(s) : Occurs(s, r, i)                     \* a contiguous piece
         /\ (A(2).i >= 0 /\ A(2).i <= Len(s) /\ A(3).i = 0) =>
              Sub(s, 0, A(2).i).s \o r = (IF A(2).i = 0 THEN s \o s ELSE s)   \* prefix + rest (start 0, length 0 = whole)
    [] x.fn = "#pos" /\ NArgs = 3 /\ A(3).i >= 0 ->
         LET s == Trim(A(1).s) n == Needle(A(2).s) IN
         IF x.exp.k = "i"
         THEN Occurs(s, n, x.exp.i) /\ x.exp.i >= A(3).i /\ \A j \in A(3).i..(x.exp.i - 1) : ~Occurs(s, n, j)
         ELSE \A j \in A(3).i..Len(s) : ~Occurs(s, n, j)
    [] x.fn = "#rpos" /\ NArgs = 2 ->
         LET s == Trim(A(1).s) n == Needle(A(2).s) p == Pos(s, n, 0) IN
         IF x.exp.i = -1 THEN p.k = "s" ELSE p.k = "i" /\ p.i <= x.exp.i /\ Occurs(s, n, x.exp.i)
    [] x.fn = "#replace" /\ NArgs = 3 ->
         LET s == Trim(A(1).s) n == Needle(A(2).s) IN
         /\ Repl(s, n, n) = s
         /\ x.exp.s = Join(Split(s, n), Trim(A(3).s))
    [] x.fn = "#explode" /\ NArgs = 3 ->
         LET s == Trim(A(1).s) d == Needle(A(2).s) ps == Split(s, d) IN
         /\ Join(ps, d) = s
         /\ (A(3).i >= 0 /\ A(3).i < Len(ps)) => x.exp.s = ps[A(3).i + 1]
         /\ (A(3).i >= Len(ps) \/ A(3).i < -Len(ps)) => x.exp.s = <<>>
    [] x.fn \in {"padleft", "padright"} /\ NArgs = 3 ->
         LET s == Trim(A(1).s) p == Trim(A(3).s) IN
         IF p = <<>> THEN x.exp.s = s
         ELSE /\ Len(x.exp.s) = Max(A(2).i, Len(s))
              /\ (IF x.fn = "padleft" THEN SubSeq(x.exp.s, Len(x.exp.s) - Len(s) + 1, Len(x.exp.s))
                                      ELSE SubSeq(x.exp.s, 1, Len(s))) = s
    [] x.fn = "#titleparts" /\ NArgs = 3 ->
         \* the transcription of the code with all deviations off is the reference
         /\ TitlePartsCode(A(1).s, A(2).i, A(3).i) = x.exp
         /\ (A(2).i = 0 /\ A(3).i \in {0, 1}) => x.exp.s = Trim(A(1).s)
    [] x.fn = "#urldecode" -> UrlDecode(A(1).s) = x.exp
    [] OTHER -> TRUE

\* Demo: with the as-is deviations on, the transcription differs from the reference
TitlepartsAsIsAgrees ==
  (IsCall /\ x.fn = "#titleparts" /\ NArgs = 3) => TitlePartsCode(A(1).s, A(2).i, A(3).i) = x.exp
PluralAsIsAgrees ==
  (IsCall /\ x.fn = "plural" /\ NArgs = 3) => x.exp = RS(IF A(1).i = 1 THEN Trim(A(2).s) ELSE Trim(A(3).s))
=============================================================================
