SPECIFICATION SpecN
CONSTANTS
  Universe = "NAMES"
  Known <- NoDev
  DepthLimit = 100
  PreBody <- ThePreBody
  LogEvents = TRUE
  Tier = "quick"
INVARIANT GenInvN
CHECK_DEADLOCK FALSE
