--------------------------- MODULE Gen_Pipeline ---------------------------
(* Case generation for Pipeline.                                            *)
(*  GSpec: every scenario of the bound, run through the model's actions;    *)
(*         in the final state one CASE is printed with the scenario, the    *)
(*         store when analyze_and_overwrite_pages was entered, the final    *)
(*         store, the backup, the calls made, and the references            *)
(*         (P1 overlay, P3 closure of the final store).                     *)
(*  SGen:  every sequence of <= MaxPages pages of the title universe with   *)
(*         the predicted tree of save_pages_to_file and the rows read back. *)
EXTENDS MC_Pipeline

VARIABLE g
gvars == <<mcvars, g>>

GInit ==
  \E b \in Bases, an \in BOOLEAN, skip \in BOOLEAN, func \in BOOLEAN, d \in Dumps :
    /\ ScenOK(b, an, skip, d) /\ InPart(skip, func)
    /\ g = [b |-> b, an |-> an, d |-> d]
    /\ \/ \E x \in OvSets : InitWith(b, an, skip, func, d, TRUE, SrcsOf(x[1], x[2], x[3]))
       \/ InitWith(b, an, skip, func, d, FALSE, <<>>)
GNext == MCNext /\ UNCHANGED g
GSpec == GInit /\ [][GNext]_gvars

R6(r, M) == <<r.title, r.ns, r.redirect, r.body, r.model, KeyOf(r) \in M>>
Rows6(S, M) == SetToSeq({R6(r, M) : r \in S})
I7(it) == <<it.title, it.ns, it.red, it.pre, it.body, it.model, it.hidden>>
SrcOut(s) == [fmt |-> s.fmt, items |-> [i \in 1..Len(s.items) |-> I7(s.items[i])]]

CaseOf ==
  [b |-> g.b, an |-> g.an, d |-> g.d, skip |-> scn.skip, func |-> scn.func, hasOv |-> scn.hasOv,
   srcs |-> [k \in 1..Len(scn.srcs) |-> SrcOut(scn.srcs[k])],
   pre |-> Rows6(preOv.rows, preOv.marked),
   fin |-> Rows6(cur, marked),
   committed |-> com = cur,
   bak |-> [some |-> bak.some, rows |-> Rows6(bak.rows, bak.marked)],
   path |-> path, kind |-> PathKind,
   ovkeys |-> SetToSeq({<<ItemKey(TheFlat[i]).title, ItemKey(TheFlat[i]).ns>> : i \in 1..Len(TheFlat)}),
   p1 |-> cur = (IF scn.hasOv THEN Overlay(preOv.rows, TheFlat) ELSE preOv.rows),
   due |-> AnalysisDue,
   ideal |-> SetToSeq(ClosureOf(cur))]

Tables ==
  [bases |-> [b \in Bases |-> [rows |-> Rows6(BaseOf(b), {}), marks |-> SetToSeq(TplMarks(AnalysedMarks(BaseOf(b))))]],
   dumps |-> [d \in Dumps |-> [k \in 1..Len(DumpOfId(d)) |->
                <<DumpOfId(d)[k].title, DumpOfId(d)[k].ns, DumpOfId(d)[k].model, DumpOfId(d)[k].body>>]]]

IsFirst == pc = "ingest" /\ pos = 1 /\ path = <<>> /\ phase = "parse" /\ ~scn.hasOv /\ ~scn.skip /\ ~scn.func
           /\ ~g.an /\ g.d = "D0" /\ g.b = (CHOOSE x \in Bases : TRUE)
GenInv ==
  /\ (Part = 0 /\ IsFirst => PrintT(<<"TABLES", ToJson(Tables)>>))
  /\ (PDone => PrintT(<<"CASE", ToJson(CaseOf)>>))

(* ---------------- save / read back ---------------- *)
F4(f) == [path |-> f.path, title |-> f.title, kind |-> f.content.kind, body |-> f.content.body,
          target |-> f.content.title, hidden |-> f.hidden]
B3(x) == [title |-> x.row.title, ns |-> x.row.ns, kind |-> x.content.kind, body |-> x.row.body,
          target |-> x.content.title]
SaveCase ==
  [pages |-> [i \in 1..Len(pages) |-> R6(pages[i], {})], win |-> win,
   tree |-> SetToSeq({F4(f) : f \in Tree(pages, win)}),
   back |-> SetToSeq({B3(x) : x \in ReadBack(Tree(pages, win))}),
   good |-> \A i \in 1..Len(pages) : pages[i] \in TitlesGood,
   injective |-> PathsInjective(pages, win),
   comesback |-> ComesBack(pages, win)]
SGInit == SInit /\ g = [b |-> "", an |-> FALSE, d |-> ""]
SGSpec == SGInit /\ [][UNCHANGED gvars]_gvars
SGenInv == PrintT(<<"SAVE", ToJson(SaveCase)>>)
=============================================================================
