SPECIFICATION Spec
CONSTANTS
  Universe = "SP"
  MaxLines = 1
INVARIANT ModeLawDev
CHECK_DEADLOCK FALSE
