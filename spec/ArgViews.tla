----------------------------- MODULE ArgViews -----------------------------
(* The three places where wikitextprocessor turns the written argument list *)
(* of a call into an argument map, transcribed separately:                  *)
(*   ViewNode     parser.py  TemplateNode.template_parameters               *)
(*   ViewExpander core.py    the argument loop of expand_recurse            *)
(*   ViewLua      luaexec.py make_frame + _sandbox_phase2.lua frame_args_index *)
(* and the reference ArgMap of property C14/C08: positional arguments are   *)
(* numbered from 1 (counting positional arguments only) and kept verbatim,  *)
(* named ones have key and value trimmed, a key that is a positive decimal  *)
(* numeral is an integer key.                                               *)
(* An argument is a text (Seq of atoms: letters, digits "0".."9", "=",      *)
(* "SP", "NL"); a map is a set of [int |-> BOOLEAN, key, val].              *)
EXTENDS Naturals, Sequences, FiniteSets, TLC

CONSTANT Dev

WS == {"SP", "NL"}
Digits == {"0", "1", "2", "3", "4", "5", "6", "7", "8", "9"}
DigitVal(d) == CASE d = "0" -> 0 [] d = "1" -> 1 [] d = "2" -> 2 [] d = "3" -> 3 [] d = "4" -> 4
                 [] d = "5" -> 5 [] d = "6" -> 6 [] d = "7" -> 7 [] d = "8" -> 8 [] d = "9" -> 9

RECURSIVE LTrim(_)
LTrim(s) == IF Len(s) > 0 /\ s[1] \in WS THEN LTrim(Tail(s)) ELSE s
RECURSIVE RTrim(_)
RTrim(s) == IF Len(s) > 0 /\ s[Len(s)] \in WS THEN RTrim(SubSeq(s, 1, Len(s) - 1)) ELSE s
Trim(s) == RTrim(LTrim(s))

HasEq(a) == \E i \in 1..Len(a) : a[i] = "="
FirstEq(a) == CHOOSE i \in 1..Len(a) : a[i] = "=" /\ \A j \in 1..(i - 1) : a[j] # "="
Before(a) == SubSeq(a, 1, FirstEq(a) - 1)
After(a) == SubSeq(a, FirstEq(a) + 1, Len(a))

IsDigits(k) == Len(k) > 0 /\ \A i \in 1..Len(k) : k[i] \in Digits
RECURSIVE NumVal(_)
NumVal(k) == IF Len(k) = 0 THEN 0 ELSE NumVal(SubSeq(k, 1, Len(k) - 1)) * 10 + DigitVal(k[Len(k)])
IsPosNum(k) == IsDigits(k) /\ Len(k) <= 6 /\ NumVal(k) > 0

IntKey(n, v) == [int |-> TRUE, num |-> n, key |-> <<>>, val |-> v]
StrKey(k, v) == [int |-> FALSE, num |-> 0, key |-> k, val |-> v]
\* insert with "later duplicates win"
Put(m, e) == {x \in m : ~(x.int = e.int /\ x.num = e.num /\ x.key = e.key)} \cup {e}

(* ---------------- reference ---------------- *)
RECURSIVE RefMap(_, _, _, _)
RefMap(args, i, pos, m) ==
  IF i > Len(args) THEN m
  ELSE LET a == args[i] IN
       IF HasEq(a) /\ Trim(Before(a)) # <<>>
       THEN LET k == Trim(Before(a)) v == Trim(After(a)) IN
            RefMap(args, i + 1, pos, Put(m, IF IsPosNum(k) THEN IntKey(NumVal(k), v) ELSE StrKey(k, v)))
       ELSE RefMap(args, i + 1, pos + 1, Put(m, IntKey(pos, a)))
ArgMap(args) == RefMap(args, 1, 1, {})

(* ---------------- core.py expander loop (1539-1570) ---------------- *)
RECURSIVE ExpanderMap(_, _, _, _)
ExpanderMap(args, i, num, m) ==
  IF i > Len(args) THEN m
  ELSE LET a == args[i] IN
       IF HasEq(a) /\ Trim(Before(a)) # <<>>            \* the regexp matched
       THEN LET k == Trim(Before(a))
                v == Trim(After(a))                    \* regexp strips; expanded value stripped again
            IN ExpanderMap(args, i + 1, num, Put(m, IF IsPosNum(k) THEN IntKey(NumVal(k), v) ELSE StrKey(k, v)))
       ELSE ExpanderMap(args, i + 1, num + 1, Put(m, IntKey(num, a)))
ViewExpander(args) == ExpanderMap(args, 1, 1, {})

(* ---------------- parser.py template_parameters (620-687), plain-text arguments --- *)
\* Deviation "NodeViewDropsBlankOnlyLines": the text of an argument reaches the node through the
\* tokenizer (token_iter), which skips every line that consists of blanks only
\* (`if not line.strip(" \t"): continue`): the blanks of such a line are missing from the node's value.
BlankOnly(l) == Len(l) > 0 /\ \A i \in 1..Len(l) : l[i] = "SP"
RECURSIVE DropBL(_, _, _)
DropBL(s, line, out) ==
  IF Len(s) = 0 THEN out \o (IF BlankOnly(line) THEN <<>> ELSE line)
  ELSE IF s[1] = "NL" THEN DropBL(Tail(s), <<>>, out \o (IF BlankOnly(line) THEN <<>> ELSE line) \o <<"NL">>)
  ELSE DropBL(Tail(s), Append(line, s[1]), out)
Tokenized(a) == IF "NodeViewDropsBlankOnlyLines" \in Dev THEN DropBL(a, <<>>, <<>>) ELSE a
RECURSIVE NodeMap(_, _, _, _)
NodeMap(args, i, unnamed, m) ==
  IF i > Len(args) THEN m
  ELSE LET a == Tokenized(args[i]) IN
       IF Len(a) = 0 THEN NodeMap(args, i + 1, unnamed + 1, Put(m, IntKey(unnamed + 1, <<>>)))
       ELSE IF HasEq(a)
       THEN LET name == Trim(Before(a))
                val == Trim(LTrim(After(a)))             \* lstrip, then strip (single-string argument)
                e == IF IsPosNum(name) THEN IntKey(NumVal(name), val) ELSE StrKey(name, val)
            IN NodeMap(args, i + 1, unnamed, IF Len(LTrim(After(a))) > 0 THEN Put(m, e) ELSE m)
       ELSE NodeMap(args, i + 1, unnamed + 1, Put(m, IntKey(unnamed + 1, a)))
ViewNode(args) == NodeMap(args, 1, 0, {})

(* ---------------- luaexec.py make_frame (436-470) + frame_args_index ---------- *)
DropFinalNL(a) == IF Len(a) > 0 /\ a[Len(a)] = "NL" THEN SubSeq(a, 1, Len(a) - 1) ELSE a
RECURSIVE LuaMap(_, _, _, _)
LuaMap(args, i, num, m) ==
  IF i > Len(args) THEN m
  ELSE LET a == args[i] IN
       IF HasEq(a) /\ Trim(Before(a)) # <<>>
       THEN LET k == Trim(Before(a))
                v == Trim(After(a))
                n0 == NumVal(k)
                n == IF "LuaNumericNameClampedTo1000" \in Dev /\ n0 > 1000 THEN 1000 ELSE n0
                num2 == IF IsPosNum(k) /\ "LuaPositionalRenumbering" \in Dev /\ num <= n THEN n + 1 ELSE num
            IN LuaMap(args, i + 1, num2, Put(m, IF IsPosNum(k) THEN IntKey(n, v) ELSE StrKey(k, v)))
       ELSE LET v == IF "LuaPositionalFinalNewlineDropped" \in Dev THEN DropFinalNL(a) ELSE a
            IN LuaMap(args, i + 1, num + 1, Put(m, IntKey(num, v)))
ViewLua(args) == LuaMap(args, 1, 1, {})

(* ---------------- precondition of the property ---------------- *)
KeyOf(a, pos) == IF HasEq(a) /\ Trim(Before(a)) # <<>>
                 THEN LET k == Trim(Before(a)) IN IF IsPosNum(k) THEN <<"int", NumVal(k)>> ELSE <<"str", k>>
                 ELSE <<"int", pos>>
RECURSIVE Keys(_, _, _)
Keys(args, i, pos) ==
  IF i > Len(args) THEN <<>>
  ELSE LET named == HasEq(args[i]) /\ Trim(Before(args[i])) # <<>> IN
       <<KeyOf(args[i], pos)>> \o Keys(args, i + 1, IF named THEN pos ELSE pos + 1)
DistinctNames(args) == LET ks == Keys(args, 1, 1) IN \A i, j \in 1..Len(ks) : i # j => ks[i] # ks[j]
NonBlankValues(args) ==
  \A i \in 1..Len(args) :
    LET a == args[i] IN
    IF HasEq(a) /\ Trim(Before(a)) # <<>> THEN Trim(After(a)) # <<>> ELSE Trim(a) # <<>>
Admissible(args) == DistinctNames(args) /\ NonBlankValues(args)

ViewsAgree(args) == ViewNode(args) = ArgMap(args) /\ ViewExpander(args) = ArgMap(args) /\ ViewLua(args) = ArgMap(args)
=============================================================================
