--------------------------- MODULE Gen_PageStore ---------------------------
(* Behaviour generation for PageStore: the history is part of the state, so *)
(* every reachable state is one behaviour prefix; each is emitted as JSON.   *)
EXTENDS MC_PageStore, SequencesExt

(* ---------------- behaviour generation (history in the state) -------- *)
VARIABLE hist
gvars == <<cur, com, memo, hist>>

\* Expected lookup tables per the *reference*, emitted compactly: the argument
\* universe once (ArgSeq), then per state the distinct results and, for every
\* argument in ArgSeq order, the index of its result.
ArgSeq == SetToSeq(ArgSet)
ResSeq(S) == SetToSeq({NotFound} \cup {Found(r) : r \in S})
IdxOf(seq, x) == CHOOSE i \in 1..Len(seq) : seq[i] = x
Table(S) ==
  LET rs == ResSeq(S) IN
  [results |-> rs,
   get |-> [i \in 1..Len(ArgSeq) |-> IdxOf(rs, RefGet(S, ArgSeq[i].title, ArgSeq[i].ns, ArgSeq[i].nr))],
   res |-> [i \in 1..Len(ArgSeq) |-> IdxOf(rs, RefResolve(S, ArgSeq[i].title, ArgSeq[i].ns))]]

ComTable == IF com = cur THEN [same |-> TRUE, results |-> <<>>, get |-> <<>>, res |-> <<>>]
            ELSE [same |-> FALSE] @@ Table(com)

GInit == PSInit /\ hist = <<>>
GAdd ==
  \E ns \in Namespaces, b \in Bases :
    \E t \in AddSpellings(ns, b) :
      \/ \E body \in Bodies :
           /\ AddPage(t, ns, NoRedirect, body, "wikitext")
           /\ hist' = Append(hist, [op |-> "add", title |-> t, ns |-> ns, redirect |-> NoRedirect,
                                    body |-> body])
      \/ \E tgt \in RedirectTargets(ns) :
           /\ IsRedirectOf(tgt, ns, b)
           /\ AddPage(t, ns, tgt, "", "wikitext")
           /\ hist' = Append(hist, [op |-> "add", title |-> t, ns |-> ns, redirect |-> tgt,
                                    body |-> ""])
GCommit == Commit /\ hist' = Append(hist, [op |-> "commit", title |-> <<>>, ns |-> 0,
                                          redirect |-> NoRedirect, body |-> ""])
GNext == Len(hist) < MaxLen /\ (GAdd \/ GCommit)
\* (memo is driven by the replay harness's probing schedule, not by the generator)
GSpec == GInit /\ [][GNext]_gvars

Emit == /\ (hist = <<>> => PrintT(<<"ARGS", ToJson(ArgSeq)>>))
        /\ PrintT(<<"CASE", ToJson([hist |-> hist, cur |-> Table(cur), com |-> ComTable])>>)
GenInv == Emit
\* S_ configurations (namespace table of a site, MC_PageStore): the derived atom tables and the
\* model-level verdicts on the table are printed once, for the harness to cross-check its transport
SiteInv == hist = <<>> =>
  PrintT(<<"SITE", ToJson([wellformed |-> TableWellFormed,
                           code_meets_statement |-> (S_CodePfxNs = PfxNs),
                           namespaces |-> SetToSeq(Namespaces),
                           pfxns |-> PfxNs, canon |-> CanonPfx])>>)

(* simulation: TLC evaluates invariants on every candidate successor, so only
   the final state of a walk prints, with the tables of all its prefixes
   recomputed functionally from the history *)
RECURSIVE CurAfter(_, _), ComAfter(_, _)
CurAfter(h, k) ==
  IF k = 0 THEN {}
  ELSE IF h[k].op = "add"
       THEN Upsert(CurAfter(h, k - 1), Row(NormAdd(h[k].title, h[k].ns), h[k].ns, h[k].redirect, h[k].body, "wikitext"))
       ELSE CurAfter(h, k - 1)
ComAfter(h, k) ==
  IF k = 0 THEN {} ELSE IF h[k].op = "commit" THEN CurAfter(h, k) ELSE ComAfter(h, k - 1)
SimEmit ==
  Len(hist) = MaxLen =>
    /\ cur = CurAfter(hist, Len(hist)) /\ com = ComAfter(hist, Len(hist))
    /\ PrintT(<<"SIM", ToJson([hist |-> hist,
                               com |-> ComTable,
                               steps |-> [k \in 1..Len(hist) |-> Table(CurAfter(hist, k))]])>>)
SimInv == (hist = <<>> => PrintT(<<"ARGS", ToJson(ArgSeq)>>)) /\ SimEmit
=============================================================================
