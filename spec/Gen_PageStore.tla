--------------------------- MODULE Gen_PageStore ---------------------------
(* Behaviour generation for PageStore: the history is part of the state, so *)
(* every reachable state is one behaviour prefix; each is emitted as JSON.   *)
EXTENDS MC_PageStore, SequencesExt

(* ---------------- behaviour generation (history in the state) -------- *)
VARIABLE hist,
         site   \* index into Sites of the namespace table in force (multi-site generation), else 0
gvars == <<cur, com, memo, hist, site>>

\* Expected lookup tables per the *reference*, emitted compactly: the argument
\* universe once (ArgSeq), then per state the distinct results and, for every
\* argument in ArgSeq order, the index of its result.
ArgSeq == SetToSeq(ArgSet)
ResSeq(S) == SetToSeq({NotFound} \cup {Found(r) : r \in S})
IdxOf(seq, x) == CHOOSE i \in 1..Len(seq) : seq[i] = x
Table(S) ==
  LET rs == ResSeq(S) IN
  [results |-> rs,
   get |-> [i \in 1..Len(ArgSeq) |-> IdxOf(rs, RefGet(S, ArgSeq[i].title, ArgSeq[i].ns, ArgSeq[i].nr))],
   res |-> [i \in 1..Len(ArgSeq) |-> IdxOf(rs, RefResolve(S, ArgSeq[i].title, ArgSeq[i].ns))]]

ComTable == IF com = cur THEN [same |-> TRUE, results |-> <<>>, get |-> <<>>, res |-> <<>>]
            ELSE [same |-> FALSE] @@ Table(com)

GInit == PSInit /\ hist = <<>> /\ site = 0
GAdd ==
  \E ns \in Namespaces, b \in Bases :
    \E t \in AddSpellings(ns, b) :
      \/ \E body \in Bodies :
           /\ AddPage(t, ns, NoRedirect, body, "wikitext")
           /\ hist' = Append(hist, [op |-> "add", title |-> t, ns |-> ns, redirect |-> NoRedirect,
                                    body |-> body])
      \/ \E tgt \in RedirectTargets(ns) :
           /\ IsRedirectOf(tgt, ns, b)
           /\ AddPage(t, ns, tgt, "", "wikitext")
           /\ hist' = Append(hist, [op |-> "add", title |-> t, ns |-> ns, redirect |-> tgt,
                                    body |-> ""])
GCommit == Commit /\ hist' = Append(hist, [op |-> "commit", title |-> <<>>, ns |-> 0,
                                          redirect |-> NoRedirect, body |-> ""])
GNext == Len(hist) < MaxLen /\ (GAdd \/ GCommit) /\ UNCHANGED site
\* (memo is driven by the replay harness's probing schedule, not by the generator)
GSpec == GInit /\ [][GNext]_gvars

Emit == /\ (hist = <<>> => PrintT(<<"ARGS", ToJson(ArgSeq)>>))
        /\ PrintT(<<"CASE", ToJson([hist |-> hist, cur |-> Table(cur), com |-> ComTable])>>)
GenInv == Emit
(* ---------------- one run over the namespace tables of many sites ---------------- *)
(* Gen_PageStore_M: the initial state chooses a site of the file; the atom tables TLC   *)
(* derives from its namespace table (PageStore.tla, Ns.. operators), the universe and the  *)
(* model-level verdicts on the table are computed once per site (M_View) and printed    *)
(* with the empty history; histories are bounded by the site's own maxlen.              *)
M_ViewOf(s) ==
  LET tab == {s.nstab[i] : i \in 1..Len(s.nstab)}
      nss == {s.namespaces[i] : i \in 1..Len(s.namespaces)}
      pfxns == NsRefPfxNs(tab, s.fold)
      canon == NsCanonPfx(tab)
  IN [tab |-> tab, nss |-> nss, pfxns |-> pfxns, canon |-> canon,
      args |-> SetToSeq(SiteArgSet(nss, pfxns, canon)),
      wellformed |-> (NsUnambiguous(tab, s.fold) /\ nss \subseteq {e.id : e \in tab}),
      code_meets_statement |-> (NsCodePfxNs(tab, s.fold, Dev) = pfxns)]
M_View == TLCEval([i \in 1..Len(Sites) |-> M_ViewOf(Sites[i])])

MTable(S, v) ==
  LET rs == ResSeq(S) IN
  [results |-> rs,
   get |-> [i \in 1..Len(v.args) |-> IdxOf(rs, RefGetP(S, v.args[i].title, v.args[i].ns, v.args[i].nr, v.pfxns, v.canon))],
   res |-> [i \in 1..Len(v.args) |-> IdxOf(rs, RefResolveP(S, v.args[i].title, v.args[i].ns, v.pfxns, v.canon))]]
MComTable(v) == IF com = cur THEN [same |-> TRUE, results |-> <<>>, get |-> <<>>, res |-> <<>>]
                ELSE [same |-> FALSE] @@ MTable(com, v)

MInit == PSInit /\ hist = <<>> /\ site \in 1..Len(Sites)
MAdd(v) ==
  \E ns \in v.nss, b \in Bases :
    \E t \in AddSpellingsP(ns, b, v.canon) :
      \/ \E body \in Bodies :
           /\ AddPageP(t, ns, NoRedirect, body, "wikitext", v.canon)
           /\ hist' = Append(hist, [op |-> "add", title |-> t, ns |-> ns, redirect |-> NoRedirect,
                                    body |-> body])
      \/ \E tgt \in SiteRedirectTargets(ns, v.tab, v.canon) :
           /\ SiteIsRedirectOf(tgt, ns, b, v.tab, v.canon)
           /\ AddPageP(t, ns, tgt, "", "wikitext", v.canon)
           /\ hist' = Append(hist, [op |-> "add", title |-> t, ns |-> ns, redirect |-> tgt,
                                    body |-> ""])
MNext == Len(hist) < Sites[site].maxlen /\ (MAdd(M_View[site]) \/ GCommit) /\ UNCHANGED site
MSpec == MInit /\ [][MNext]_gvars

MEmit ==
  LET v == M_View[site] IN
  /\ (hist = <<>> =>
        PrintT(<<"SITE", ToJson([site |-> site, lang |-> Sites[site].lang, args |-> v.args,
                                 wellformed |-> v.wellformed, code_meets_statement |-> v.code_meets_statement,
                                 namespaces |-> SetToSeq(v.nss), pfxns |-> v.pfxns, canon |-> v.canon])>>))
  /\ PrintT(<<"CASE", ToJson([site |-> site, hist |-> hist, cur |-> MTable(cur, v), com |-> MComTable(v)])>>)
MGenInv == MEmit

(* simulation: TLC evaluates invariants on every candidate successor, so only
   the final state of a walk prints, with the tables of all its prefixes
   recomputed functionally from the history *)
RECURSIVE CurAfter(_, _), ComAfter(_, _)
CurAfter(h, k) ==
  IF k = 0 THEN {}
  ELSE IF h[k].op = "add"
       THEN Upsert(CurAfter(h, k - 1), Row(NormAdd(h[k].title, h[k].ns), h[k].ns, h[k].redirect, h[k].body, "wikitext"))
       ELSE CurAfter(h, k - 1)
ComAfter(h, k) ==
  IF k = 0 THEN {} ELSE IF h[k].op = "commit" THEN CurAfter(h, k) ELSE ComAfter(h, k - 1)
SimEmit ==
  Len(hist) = MaxLen =>
    /\ cur = CurAfter(hist, Len(hist)) /\ com = ComAfter(hist, Len(hist))
    /\ PrintT(<<"SIM", ToJson([hist |-> hist,
                               com |-> ComTable,
                               steps |-> [k \in 1..Len(hist) |-> Table(CurAfter(hist, k))]])>>)
SimInv == (hist = <<>> => PrintT(<<"ARGS", ToJson(ArgSeq)>>)) /\ SimEmit
=============================================================================
