SPECIFICATION Spec
CONSTANTS
  Universe = "FI"
  MaxLines = 3
INVARIANT MachineOK
CHECK_DEADLOCK FALSE
