--------------------------- MODULE Gen_SandboxGate ---------------------------
(* SandboxGate instantiated with the universe found in the LIVE sandbox of  *)
(* the working tree (file named by env GATE_FILE, written by               *)
(* harness/c06_gate.py): the Python objects a module really holds with     *)
(* their real kind and lifetime, attribute names, and what getattr of the  *)
(* real host objects returns.  TLC enumerates every history of at most     *)
(* MaxLen lookups (the states of SGSpec) and prints, per history, the      *)
(* answers the design demands (exp) and the answers each modelled          *)
(* deviation would give (alt; lets the harness name the deviation that     *)
(* explains what the real code did, and guards against vacuity: breaks =   *)
(* deviations under which this history hands out a forbidden value).       *)
(* The harness runs every history in a fresh runtime of the real code.     *)
EXTENDS SandboxGate, Json, IOUtils

U == JsonDeserialize(IOEnv.GATE_FILE)
Range0(s) == {s[i] : i \in DOMAIN s}
L_Objs == Range0(U.objs)
L_Names == Range0(U.names)
L_Facts == Range0(U.facts)
L_Writable == Range0(U.writable)
L_Modes == Range0(U.modes)
L_Bounds == Range0(U.bounds)
L_MaxLen == U.maxlen
NoDev == {}

DevLabels == {"MemoByName", "MemoByObject", "MemoByName+MemoPerInvocation", "MemoByObject+MemoPerInvocation"}
DevOf(l) == CASE l = "MemoByName" -> {"MemoByName"}
              [] l = "MemoByObject" -> {"MemoByObject"}
              [] l = "MemoByName+MemoPerInvocation" -> {"MemoByName", "MemoPerInvocation"}
              [] l = "MemoByObject+MemoPerInvocation" -> {"MemoByObject", "MemoPerInvocation"}

Breaks(asks) == {l \in DevLabels : \E i \in DOMAIN asks : Leak(Run(DevOf(l), asks)[i])}
Differs(asks, exp) == {l \in DevLabels : Run(DevOf(l), asks) # exp}

Emit ==
  Len(hist) >= 1 =>
    LET asks == AsksOf(hist)
        exp == [i \in DOMAIN hist |-> hist[i].ans]
    IN PrintT(<<"CASE", ToJson([asks |-> asks, exp |-> exp,
                                 alt |-> [l \in Differs(asks, exp) |-> Run(DevOf(l), asks)],
                                 breaks |-> Breaks(asks)])>>)
GenInv == GateConfined /\ VerdictIsPure /\ Emit
=============================================================================
