--------------------------- MODULE Pipeline ---------------------------
(* The dump-processing pipeline of wikitextprocessor (dumpparser.py):         *)
(*   process_dump  =  [parse_dump_xml]  ->  add_default_templates             *)
(*                    ->  analyze_and_overwrite_pages                         *)
(*   analyze_and_overwrite_pages(overwrite_folders, skip_extract_dump, func)  *)
(*   overwrite_pages (two file formats, probing pass / writing pass),         *)
(*   overwrite_single_page, backup_db / analyze_templates placement,          *)
(*   save_pages_to_file and reading such a tree back with overwrite_pages.    *)
(*                                                                            *)
(* One level above Ingest.tla (phases 1-2: ParsePage / DefaultStep are reused *)
(* as they are), Backup.tla (here the backup is one atomic snapshot: its      *)
(* crash behaviour is Backup.tla's business, its *placement* is ours) and     *)
(* Analyze.tla (the analysis is one step whose result is stated with that     *)
(* module's closure operators).                                               *)
(*                                                                            *)
(* Store rows have the shape of PageStore.tla (title atoms, ns, redirect,     *)
(* body, model); need_pre_expand is the set `marked` of row keys.             *)
(*                                                                            *)
(* Dev switches (the pipeline's own):                                         *)
(*   "AnalysisKeepsOldMarks"  as-is: analyze_templates never clears a mark,   *)
(*                            and a page that is already marked is not        *)
(*                            propagated through (Dev off = marks recomputed) *)
(*   "BackupAfterOverrides"   demo: template branch takes the backup last     *)
(*   "ProbeWrites"            demo: the probing pass ignores do_overwrite     *)
(*   "NsByLastColon"          demo: namespace inferred with rfind(':')        *)
(*   "AnalysisSkippedAfterTemplate"  demo: template branch does not analyse   *)
(*   "PathDropsSlashslash"    demo: save path: "//" collapses to nothing      *)
EXTENDS Ingest, SequencesExt

CONSTANTS
  ModNs,      \* id of the module namespace
  NsByLocal,  \* local namespace name (string, no colon) -> id   (NS_ID_BY_LOCAL_NAME)
  ColonPre,   \* atom containing a colon -> its text before the first colon
  ColonLast,  \* atom containing a colon -> its text before the LAST colon
  IncOfBody,  \* body id of a template text -> id of its includable part
  BodyUses,   \* stored body id -> sequence of template names written in it
  BodyPre     \* stored body ids for which the classifier says "pre-expand"

Key(t, ns) == [title |-> t, ns |-> ns]
KeyOf(r) == Key(r.title, r.ns)
Inc(b) == IF b \in DOMAIN IncOfBody THEN IncOfBody[b] ELSE b
AtomText(a) == IF a = "SP" THEN " " ELSE IF a = "US" THEN "_" ELSE a

(* ------------------------------------------------------------------ *)
(* override sources                                                   *)
(* ------------------------------------------------------------------ *)
\* a source:  [fmt |-> "json" | "dir" | "missing" | "otherfile", items |-> Seq(item)]
\* an item:   [title, ns (NoNs = no "namespace_id"), red, pre, body, model, hidden]
\*   model  - a content model, "ABSENT" (no "model" key) or "NULL" (JSON null)
\*   hidden - dir format: the file is called ".something" or "*.json" (skipped)
Item(title, ns, red, pre, body, model, hidden) ==
  [title |-> title, ns |-> ns, red |-> red, pre |-> pre, body |-> body, model |-> model,
   hidden |-> hidden]

\* what overwrite_pages hands to overwrite_single_page for an item of a source
EffItem(fmt, it) ==
  IF fmt = "json" THEN [it EXCEPT !.hidden = FALSE]
  ELSE Item(it.title, NoNs, NoRedirect, FALSE, it.body, "ABSENT", FALSE)

RECURSIVE FlatFrom(_, _)
FlatFrom(srcs, k) ==
  IF k > Len(srcs) THEN <<>>
  ELSE LET s == srcs[k]
           its == IF s.fmt = "json" THEN [i \in 1..Len(s.items) |-> EffItem("json", s.items[i])]
                  ELSE IF s.fmt = "dir"
                  THEN LET vis == SelectSeq(s.items, LAMBDA it : ~it.hidden)
                       IN [i \in 1..Len(vis) |-> EffItem("dir", vis[i])]
                  ELSE <<>>       \* path does not exist / is a file that is not *.json
       IN its \o FlatFrom(srcs, k + 1)
Flat(srcs) == FlatFrom(srcs, 1)

(* ------------------------------------------------------------------ *)
(* overwrite_single_page (dumpparser.py:234-268)                       *)
(* ------------------------------------------------------------------ *)
\* title[: title.find(":")] : text before the first colon (last: the demo deviation)
RECURSIVE BeforeColon(_, _, _, _)
BeforeColon(t, k, acc, tab) ==
  IF k > Len(t) THEN [has |-> FALSE, name |-> acc]
  ELSE IF t[k] \in DOMAIN tab THEN [has |-> TRUE, name |-> acc \o tab[t[k]]]
  ELSE BeforeColon(t, k + 1, acc \o AtomText(t[k]), tab)

\* rfind: everything up to the last atom that has a colon, then that atom's part
RECURSIVE TextOf(_, _, _)
TextOf(t, k, n) == IF k > n THEN "" ELSE AtomText(t[k]) \o TextOf(t, k + 1, n)
BeforeLastColon(t) ==
  LET ks == {k \in 1..Len(t) : t[k] \in DOMAIN ColonLast} IN
  IF ks = {} THEN [has |-> FALSE, name |-> ""]
  ELSE LET k == CHOOSE x \in ks : \A y \in ks : y <= x
       IN [has |-> TRUE, name |-> TextOf(t, 1, k - 1) \o ColonLast[t[k]]]

CodeNs(t) ==
  LET c == IF "NsByLastColon" \in Dev THEN BeforeLastColon(t) ELSE BeforeColon(t, 1, "", ColonPre)
  IN IF c.has /\ c.name \in DOMAIN NsByLocal THEN NsByLocal[c.name] ELSE 0
ItemNs(it) == IF it.ns # NoNs THEN it.ns ELSE CodeNs(it.title)

\* reference: the namespace a title denotes = that of the canonical prefix it starts with
RefNs(t) ==
  IF Len(t) > 0 /\ IsPfx(t[1]) /\ HasCanon(PfxNs[t[1]]) /\ CanonPfx[NsKey(PfxNs[t[1]])] = t[1]
  THEN PfxNs[t[1]] ELSE 0
RefItemNs(it) == IF it.ns # NoNs THEN it.ns ELSE RefNs(it.title)

ItemModel(it, ns) ==
  IF it.model = "NULL" THEN (IF ns = ModNs THEN "Scribunto" ELSE "wikitext")
  ELSE IF it.model = "ABSENT" THEN "wikitext" ELSE it.model
\* add_page: a template that is not a redirect is reduced to its includable part
ItemBody(it, ns) == IF ns = TplNs /\ it.red = NoRedirect THEN Inc(it.body) ELSE it.body
ItemRowNs(it, ns) == Row(NormAdd(it.title, ns), ns, it.red, ItemBody(it, ns), ItemModel(it, ns))
ItemRow(it) == ItemRowNs(it, ItemNs(it))
ItemKey(it) == KeyOf(ItemRow(it))

(* ------------------------------------------------------------------ *)
(* reference: what the pipeline is meant to leave behind               *)
(* ------------------------------------------------------------------ *)
\* P1: base (+) overrides: the last override of a key wins, everything else untouched
RefRow(it) == ItemRowNs(it, RefItemNs(it))
LastIdx(flat) == {i \in 1..Len(flat) : \A j \in 1..Len(flat) : j > i => KeyOf(RefRow(flat[j])) # KeyOf(RefRow(flat[i]))}
Overlay(S, flat) ==
  LET keys == {KeyOf(RefRow(flat[i])) : i \in 1..Len(flat)} IN
  {r \in S : KeyOf(r) \notin keys} \cup {RefRow(flat[i]) : i \in LastIdx(flat)}
OverlayMarks(M, flat) ==
  LET keys == {KeyOf(RefRow(flat[i])) : i \in 1..Len(flat)} IN
  (M \ keys) \cup {KeyOf(RefRow(flat[i])) : i \in {j \in LastIdx(flat) : flat[j].pre}}
OvHasTemplate(flat) == \E i \in 1..Len(flat) : RefItemNs(flat[i]) = TplNs

\* P3: the analysis closure of a store (Analyze.tla's operators on the template rows)
AN == INSTANCE Analyze WITH world <- <<>>, marked <- {}, pc <- "", ci <- 0, imap <- {},
                            stack <- <<>>, todo <- {}, amemo <- {}
UsesOf(b) == IF b \in DOMAIN BodyUses THEN {BodyUses[b][i] : i \in 1..Len(BodyUses[b])} ELSE {}
TplRows(S) == {r \in S : r.ns = TplNs}
WorldOf(S) ==
  [pages |-> SetToSeq({AN!WPage(r.title, r.redirect, UsesOf(r.body), r.body \in BodyPre) : r \in TplRows(S)})]
\* titles the property C17 wants marked (closure + redirect neighbours)
ClosureOf(S) == AN!Lower(WorldOf(S))
TplMarks(M) == {k.title : k \in {x \in M : x.ns = TplNs}}

(* ------------------------------------------------------------------ *)
(* analyze_templates as one step                                       *)
(* ------------------------------------------------------------------ *)
\* propagation as coded: an includer is marked and pushed unless it is marked already
RECURSIVE LfpBlocked(_, _, _)
LfpBlocked(R, M0, X) ==
  LET X2 == X \cup {e[1] : e \in {x \in R : x[2] \in X /\ x[1] \notin M0}} IN
  IF X2 = X THEN X ELSE LfpBlocked(R, M0, X2)

\* the two SQL statements (all namespaces; each evaluated on the state before it)
SqlRedirects(S, M1) ==
  LET M2 == M1 \cup {KeyOf(r) : r \in {x \in S : \E d \in S : d.title = x.redirect /\ d.ns = x.ns /\ KeyOf(d) \in M1}}
  IN M2 \cup {KeyOf(r) : r \in {x \in S : \E s \in S : s.redirect = x.title /\ s.ns = x.ns /\ KeyOf(s) \in M2}}

AnalyzeAsIs(S, M) ==
  LET W == WorldOf(S)
      R == AN!IncRel(W, FALSE)
      F == AN!Flagged(W)
      X == LfpBlocked(R, TplMarks(M), F)
  IN SqlRedirects(S, M \cup {Key(t, TplNs) : t \in X})

AnalyzeIdeal(S, M) ==
  {k \in M : k.ns # TplNs} \cup {Key(t, TplNs) : t \in ClosureOf(S)}

Analyzed(S, M) == IF "AnalysisKeepsOldMarks" \in Dev THEN AnalyzeAsIs(S, M) ELSE AnalyzeIdeal(S, M)

(* ------------------------------------------------------------------ *)
(* state                                                              *)
(* ------------------------------------------------------------------ *)
VARIABLES
  scn,      \* the scenario: [skip, func, hasOv, srcs]   (never changes)
  marked,   \* keys of the rows with need_pre_expand = 1
  bak,      \* the backup file: [some, rows, marked]
  pc,       \* pipeline step (see PNext)
  ip,       \* next item of the pass that is running
  preOv,    \* ghost: [rows, marked] when analyze_and_overwrite_pages was entered
  probed,   \* ghost: result of the probing pass ("none" | "tpl" | "notpl")
  path      \* ghost: sequence of the calls made (for coverage / the generator)

pvars == <<scn, marked, bak, pc, ip, preOv, probed, path, dump, sel, phase, pos, cur, com, memo>>

NoBak == [some |-> FALSE, rows |-> {}, marked |-> {}]
Scn(skip, func, hasOv, srcs) == [skip |-> skip, func |-> func, hasOv |-> hasOv, srcs |-> srcs]
TheFlat == Flat(scn.srcs)

\* base store B (committed) with marks M; the dump is parsed unless skip_extract_dump
PInit(B, M, d, s, sc) ==
  /\ scn = sc /\ marked = M /\ bak = NoBak /\ pc = "ingest" /\ ip = 1
  /\ preOv = [rows |-> {}, marked |-> {}] /\ probed = "none" /\ path = <<>>
  /\ dump = d /\ sel = s /\ phase = (IF sc.skip THEN "defaults" ELSE "parse") /\ pos = 1
  /\ cur = B /\ com = B /\ memo = {}

PReset(B, M, d, s, sc) ==
  /\ scn' = sc /\ marked' = M /\ bak' = NoBak /\ pc' = "ingest" /\ ip' = 1
  /\ preOv' = [rows |-> {}, marked |-> {}] /\ probed' = "none" /\ path' = <<>>
  /\ dump' = d /\ sel' = s /\ phase' = (IF sc.skip THEN "defaults" ELSE "parse") /\ pos' = 1
  /\ cur' = B /\ com' = B /\ memo' = {}

Keep(vs) == UNCHANGED vs
Called(c) == path' = Append(path, c)

(* ---- phases 1-2: Ingest's actions; add_page resets the mark of the row it writes ---- *)
PParse ==
  /\ pc = "ingest" /\ phase = "parse"
  /\ ParsePage
  /\ marked' = IF pos <= Len(dump) /\ Selected(dump[pos], sel)
               THEN marked \ {Key(NormAdd(dump[pos].title, dump[pos].ns), dump[pos].ns)}
               ELSE marked
  /\ path' = IF pos > Len(dump) THEN Append(path, "parse") ELSE path
  /\ UNCHANGED <<scn, bak, pc, ip, preOv, probed>>

PDefaults ==
  /\ pc = "ingest" /\ phase = "defaults"
  /\ DefaultStep
  /\ path' = IF pos > Len(Defaults) THEN Append(path, "defaults") ELSE path
  /\ UNCHANGED <<scn, marked, bak, pc, ip, preOv, probed>>

\* analyze_and_overwrite_pages is entered (dumpparser.py:147-154)
PEnter ==
  /\ pc = "ingest" /\ phase = "done"
  /\ preOv' = [rows |-> cur, marked |-> marked]
  /\ pc' = IF scn.hasOv THEN "probe" ELSE "C_analyze"
  /\ ip' = 1
  /\ UNCHANGED <<scn, marked, bak, probed, path, dump, sel, phase, pos, cur, com, memo>>

(* ---- add_page of one override item ---- *)
WriteItem(it) ==
  LET r == ItemRow(it) IN
  /\ AddPage(it.title, ItemNs(it), it.red, ItemBody(it, ItemNs(it)), ItemModel(it, ItemNs(it)))
  /\ marked' = (marked \ {KeyOf(r)}) \cup (IF it.pre THEN {KeyOf(r)} ELSE {})

(* ---- overwrite_pages(do_overwrite = False): one step per item ---- *)
ProbeStep ==
  /\ pc = "probe"
  /\ IF ip > Len(TheFlat)
     THEN \* nothing found: commit, return False
          /\ Commit /\ probed' = "notpl" /\ pc' = "B_analyze" /\ ip' = 1
          /\ Called("probe:False") /\ UNCHANGED marked
     ELSE LET it == TheFlat[ip] IN
          IF "ProbeWrites" \in Dev
          THEN /\ WriteItem(it) /\ ip' = ip + 1 /\ UNCHANGED <<pc, probed, path>>
          ELSE IF ItemNs(it) = TplNs
          THEN /\ probed' = "tpl" /\ pc' = "A_backup" /\ ip' = 1
               /\ Called("probe:True") /\ UNCHANGED <<marked, cur, com, memo>>
          ELSE /\ ip' = ip + 1 /\ UNCHANGED <<pc, probed, path, marked, cur, com, memo>>
  /\ UNCHANGED <<scn, bak, preOv, dump, sel, phase, pos>>

(* ---- backup_db: commit, copy ---- *)
DoBackup == bak' = [some |-> TRUE, rows |-> cur, marked |-> marked] /\ Commit

BackupStep(here, next) ==
  /\ pc = here
  /\ IF scn.skip /\ ~(here = "A_backup" /\ "BackupAfterOverrides" \in Dev)
     THEN DoBackup /\ Called("backup")
     ELSE UNCHANGED <<bak, cur, com, memo, path>>
  /\ pc' = next /\ ip' = 1
  /\ UNCHANGED <<scn, marked, preOv, probed, dump, sel, phase, pos>>
ABackup == BackupStep("A_backup", "A_write")
BBackup == BackupStep("B_backup", "B_write")
\* (demo deviation only) the backup of the template branch, taken after the writing pass
ALateBackup ==
  /\ pc = "A_latebackup"
  /\ IF scn.skip THEN DoBackup /\ Called("backup") ELSE UNCHANGED <<bak, cur, com, memo, path>>
  /\ pc' = "A_analyze" /\ ip' = 1
  /\ UNCHANGED <<scn, marked, preOv, probed, dump, sel, phase, pos>>

(* ---- overwrite_pages(do_overwrite = True): one step per item, then commit ---- *)
WriteStep(here, next) ==
  /\ pc = here
  /\ IF ip > Len(TheFlat)
     THEN /\ Commit /\ pc' = next /\ ip' = 1 /\ Called("write") /\ UNCHANGED marked
     ELSE /\ WriteItem(TheFlat[ip]) /\ ip' = ip + 1 /\ UNCHANGED <<pc, path>>
  /\ UNCHANGED <<scn, bak, preOv, probed, dump, sel, phase, pos>>
AWrite == WriteStep("A_write", IF "BackupAfterOverrides" \in Dev THEN "A_latebackup" ELSE "A_analyze")
BWrite == WriteStep("B_write", "commit")

(* ---- analyze_templates placement ---- *)
DoAnalyze == marked' = Analyzed(cur, marked) /\ Commit /\ Called("analyze")

\* template branch: always, if a classifier is given
AAnalyze ==
  /\ pc = "A_analyze"
  /\ IF scn.func /\ "AnalysisSkippedAfterTemplate" \notin Dev THEN DoAnalyze
     ELSE UNCHANGED <<marked, cur, com, memo, path>>
  /\ pc' = "commit"
  /\ UNCHANGED <<scn, bak, ip, preOv, probed, dump, sel, phase, pos>>

\* the other two: only when nothing is marked yet (has_analyzed_templates)
LazyAnalyze(here, next) ==
  /\ pc = here
  /\ IF scn.func /\ marked = {} THEN DoAnalyze
     ELSE UNCHANGED <<marked, cur, com, memo, path>>
  /\ pc' = next
  /\ UNCHANGED <<scn, bak, ip, preOv, probed, dump, sel, phase, pos>>
BAnalyze == LazyAnalyze("B_analyze", "B_backup")
CAnalyze == LazyAnalyze("C_analyze", "commit")

FinalCommit ==
  /\ pc = "commit"
  /\ IF scn.func THEN Commit ELSE UNCHANGED <<cur, com, memo>>
  /\ pc' = "end"
  /\ UNCHANGED <<scn, marked, bak, ip, preOv, probed, path, dump, sel, phase, pos>>

PNext == PParse \/ PDefaults \/ PEnter \/ ProbeStep \/ ABackup \/ AWrite \/ ALateBackup \/ AAnalyze
         \/ BAnalyze \/ BBackup \/ BWrite \/ CAnalyze \/ FinalCommit
PDone == pc = "end"

(* ------------------------------------------------------------------ *)
(* properties of the model                                            *)
(* ------------------------------------------------------------------ *)
InOverwrite == pc \notin {"ingest"}
\* P1: final store = base (+) overrides, every override under the namespace its title denotes
P1_FinalIsOverlay ==
  PDone => /\ cur = (IF scn.hasOv THEN Overlay(preOv.rows, TheFlat) ELSE preOv.rows)
           /\ com = cur
\* ... and the inference as coded agrees with the reference on every item
P1_NsAgrees == \A i \in 1..Len(TheFlat) : ItemNs(TheFlat[i]) = RefItemNs(TheFlat[i])

\* P2: a backup is taken iff skip_extract_dump and overrides are given; it holds the
\* store as it was before any override was written
P2_BackupBeforeOverrides ==
  /\ bak.some => (bak.rows = preOv.rows /\ scn.skip /\ scn.hasOv)
  /\ PDone => (bak.some <=> (scn.skip /\ scn.hasOv))
\* ... so that restoring it removes every override
P2_RestoreUndoesOverrides == (PDone /\ bak.some) => bak.rows = preOv.rows

\* P3: nothing is written while probing
P3_ProbeWritesNothing == (pc = "probe") => (cur = preOv.rows /\ marked = preOv.marked)
\* the probe answers "do the overrides include a template?"
P3_ProbeIsRight == (probed # "none") => ((probed = "tpl") <=> OvHasTemplate(TheFlat))
\* at the end the template marks are the closure of the FINAL store whenever the
\* overrides contain a template or nothing was marked before
AnalysisDue == scn.func /\ ((scn.hasOv /\ OvHasTemplate(TheFlat)) \/ preOv.marked = {})
P3_MarksAreFinalClosure ==
  (PDone /\ AnalysisDue) => TplMarks(marked) = ClosureOf(cur)
\* marks of rows that are neither templates nor overridden are never lost
P3_OtherMarksKept ==
  PDone => \A k \in preOv.marked : (k.ns # TplNs /\ ~\E i \in 1..Len(TheFlat) : ItemKey(TheFlat[i]) = k)
                                     => k \in marked

\* the four paths through analyze_and_overwrite_pages
PathKind == IF ~scn.hasOv THEN (IF "analyze" \in {path[i] : i \in 1..Len(path)} THEN "C:analyze" ELSE "C:nothing")
            ELSE IF probed = "tpl" THEN "A:template" ELSE "B:no-template"

(* ================================================================== *)
(* save_pages_to_file / reading the tree back (dumpparser.py:306-345)  *)
(* ================================================================== *)
(* Titles here are sequences of single characters (after the canonical *)
(* prefix atom, if any).  A path is a sequence of segment strings.     *)
CONSTANTS
  WinName    \* character -> its replacement on a Windows partition ("__colon__" ...)

SS == "__slashslash__"
DOT == "__dot__"
IsRepl(a) == a = SS \/ a = DOT \/ \E c \in DOMAIN WinName : WinName[c] = a

\* s.replace("//", "__slashslash__"): leftmost, non-overlapping
RECURSIVE ReplSS(_)
ReplSS(s) ==
  IF Len(s) < 2 THEN s
  ELSE IF s[1] = "/" /\ s[2] = "/"
  THEN (IF "PathDropsSlashslash" \in Dev THEN <<>> ELSE <<SS>>) \o ReplSS(SubSeq(s, 3, Len(s)))
  ELSE <<s[1]>> \o ReplSS(Tail(s))
HasDotDot(s) == \E k \in 1..(Len(s) - 1) : s[k] = "." /\ s[k + 1] = "."
ReplDots(s) == IF HasDotDot(s) THEN [k \in 1..Len(s) |-> IF s[k] = "." THEN DOT ELSE s[k]] ELSE s
ReplWin(s) == [k \in 1..Len(s) |-> IF s[k] \in DOMAIN WinName THEN WinName[s[k]] ELSE s[k]]

\* the title as characters, the prefix atom split into name and colon
Expand(t) == IF Len(t) > 0 /\ IsPfx(t[1]) THEN <<ColonPre[t[1]], ":">> \o Tail(t) ELSE t
Replaced(t, win) ==
  LET a == ReplDots(ReplSS(Expand(t))) IN IF win THEN ReplWin(a) ELSE a

\* title.replace(":", "/", 1)
RECURSIVE FirstColonToSlash(_)
FirstColonToSlash(s) ==
  IF Len(s) = 0 THEN s
  ELSE IF s[1] = ":" THEN <<"/">> \o Tail(s) ELSE <<s[1]>> \o FirstColonToSlash(Tail(s))

\* title[0:2] on the replaced title (replacement names start with two underscores)
FirstChars(a) == IF IsRepl(a) THEN <<"_", "_">> ELSE <<a>>
First2(s) ==
  LET c == (IF Len(s) >= 1 THEN FirstChars(s[1]) ELSE <<>>) \o (IF Len(s) >= 2 THEN FirstChars(s[2]) ELSE <<>>)
  IN SubSeq(c, 1, IF Len(c) < 2 THEN Len(c) ELSE 2)

RawPath(t, ns, win) ==
  LET s == Replaced(t, win) IN
  IF ns = 0 THEN <<"Words", "/">> \o First2(s) \o <<"/">> \o s \o <<".txt">>
  ELSE FirstColonToSlash(s) \o <<".txt">>

\* pathlib: split at "/", drop empty and "." components
RECURSIVE Split(_, _)
Split(s, accu) ==
  IF Len(s) = 0 THEN <<accu>>
  ELSE IF s[1] = "/" THEN <<accu>> \o Split(Tail(s), <<>>)
  ELSE Split(Tail(s), Append(accu, s[1]))
RECURSIVE JoinText(_)
JoinText(seg) == IF Len(seg) = 0 THEN "" ELSE AtomText(seg[1]) \o JoinText(Tail(seg))
Segments(p) == SelectSeq(Split(p, <<>>), LAMBDA g : g # <<>> /\ g # <<".">>)
SavePath(t, ns, win) ==
  LET segs == Segments(RawPath(t, ns, win)) IN [k \in 1..Len(segs) |-> JoinText(segs[k])]
\* the file is skipped by overwrite_pages: its name starts with "."
NameHidden(t, ns, win) ==
  LET segs == Segments(RawPath(t, ns, win)) IN segs[Len(segs)][1] \in {".", ".txt"}

\* what is written into the file after the "TITLE: " line
Content(r) == IF r.body # NullBody THEN [kind |-> "body", body |-> r.body, title |-> <<>>]
              ELSE IF r.redirect # NoRedirect THEN [kind |-> "target", body |-> "", title |-> r.redirect]
              ELSE [kind |-> "empty", body |-> "", title |-> <<>>]
SavedFile(r, win) == [path |-> SavePath(r.title, r.ns, win), title |-> r.title, content |-> Content(r),
                      hidden |-> NameHidden(r.title, r.ns, win)]

\* pages: sequence of rows in database order; a later page overwrites a file of the same path
RECURSIVE TreeFrom(_, _, _)
TreeFrom(pages, k, win) ==
  IF k = 0 THEN {}
  ELSE LET f == SavedFile(pages[k], win) IN
       {g \in TreeFrom(pages, k - 1, win) : g.path # f.path} \cup {f}
Tree(pages, win) == TreeFrom(pages, Len(pages), win)

\* overwrite_pages(old format) over every directory of the tree, into an empty store
ReadRow(f) ==
  LET ns == CodeNs(f.title)
      b == IF f.content.kind = "body" THEN f.content.body ELSE "" IN
  [row |-> Row(NormAdd(f.title, ns), ns, NoRedirect,
               IF ns = TplNs /\ f.content.kind = "body" THEN Inc(b) ELSE b, "wikitext"),
   content |-> f.content]
ReadBack(tree) == {ReadRow(f) : f \in {g \in tree : ~g.hidden}}

\* P4
PathsInjective(pages, win) ==
  \A i, j \in 1..Len(pages) : i # j => SavePath(pages[i].title, pages[i].ns, win) # SavePath(pages[j].title, pages[j].ns, win)
\* every saved page that is not a redirect comes back with its title and text
ComesBack(pages, win) ==
  LET back == ReadBack(Tree(pages, win)) IN
  \A i \in 1..Len(pages) :
    LET r == pages[i] IN
    r.redirect = NoRedirect =>
      \E x \in back : x.row.title = r.title /\ x.content.kind = "body"
                      /\ x.row.body = (IF x.row.ns = TplNs THEN Inc(r.body) ELSE r.body)
=============================================================================
