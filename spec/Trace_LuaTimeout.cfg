SPECIFICATION TSpec
CONSTANTS
  Dev <- T_Dev
  B = 3
  RecMax = 1
INVARIANT Progress
INVARIANT TypeOK
CHECK_DEADLOCK FALSE
