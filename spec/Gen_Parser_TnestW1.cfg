SPECIFICATION Spec
CONSTANTS
  Universe = "nestW1"
  MaxLen = 3
INVARIANT MachineOK
CHECK_DEADLOCK FALSE
