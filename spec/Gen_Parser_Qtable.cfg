SPECIFICATION Spec
CONSTANTS
  Universe = "table"
  MaxLen = 4
INVARIANT MachineOK
CHECK_DEADLOCK FALSE
