SPECIFICATION Spec
CONSTANTS
  Universe = "T"
  Known <- KnownC04
  Slice = 0
INVARIANT GenInv
INVARIANT Laws
CHECK_DEADLOCK FALSE
