SPECIFICATION Spec
CONSTANTS
  Universe = "T"
  Known <- KnownC04
INVARIANT GenInv
INVARIANT Laws
CHECK_DEADLOCK FALSE
