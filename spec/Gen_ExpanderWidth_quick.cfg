SPECIFICATION SpecW
CONSTANTS
  Universe = "COMB"
  Known <- KnownExp
  DepthLimit = 100
  PreBody <- ThePreBody
  LogEvents = FALSE
  Tier = "quick"
INVARIANT GenInvW
CHECK_DEADLOCK FALSE
