SPECIFICATION Spec
CONSTANTS
  Universe = "core"
  MaxLen = 3
INVARIANT MachineOK
CHECK_DEADLOCK FALSE
