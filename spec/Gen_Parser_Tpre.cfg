SPECIFICATION Spec
CONSTANTS
  Universe = "pre"
  MaxLen = 4
INVARIANT MachineOK
CHECK_DEADLOCK FALSE
