--------------------------- MODULE LuaTimeout ---------------------------
(* Time limit of one #invoke (property C07).                                *)
(*                                                                          *)
(* Code modelled:                                                           *)
(*  _sandbox_phase1.lua  _lua_set_timeout: debug.sethook(count hook every   *)
(*                       100000 instructions) on the CURRENT Lua thread; the *)
(*                       hook raises "Lua timeout error" iff                *)
(*                       os.time() > start + _lua_current_max_time (shared)  *)
(*                       _lua_clear_timeout_hook: debug.sethook()            *)
(*  _sandbox_phase2.lua  _lua_invoke: set timeout, pcall(fn, frame), clear  *)
(*  luaexec.py           call_lua_sandbox: pushes expand_stack / frame      *)
(*                       stack (env stack is pushed from Lua), maps the     *)
(*                       error text to the in-band element, restores stacks *)
(*                                                                          *)
(* An abstract program is a non-terminating body under a list of wrappers   *)
(* (outermost first):                                                       *)
(*   pcall xpcall   pcall(function() INNER end)            -- one shot      *)
(*   ploop xloop    while true do pcall(function() INNER end) end           *)
(*   xpcallh xlooph the same with a message handler that does not hand the   *)
(*                  error text on (returns a table): what the handler makes  *)
(*                  of the error has no influence on the time limit          *)
(*   cowrap         coroutine.wrap(function() INNER end)()                  *)
(*   cores          coroutine.resume(coroutine.create(function() INNER end))*)
(*   clear          _lua_clear_timeout_hook(); INNER                        *)
(*   rearm          _lua_set_timeout(59); INNER                             *)
(*   inv            frame:preprocess("{{#invoke:benign|f}}"); INNER         *)
(*   ninv ninvt ninvx   INNER runs in a NESTED invocation: the module calls  *)
(*                  frame:preprocess("{{#invoke:self|n}}") / frame:          *)
(*                  expandTemplate of a template that invokes / frame:       *)
(*                  extensionTag(.., "{{#invoke:self|n}}") and p.n is INNER. *)
(*                  WHERE the non-terminating code runs (in the outermost    *)
(*                  invocation or in one reached through Python and back) is *)
(*                  a dimension of the grammar: the nested call_lua_sandbox  *)
(*                  turns every error of the nested function into an in-band *)
(*                  element - right for an ordinary error, but the time limit *)
(*                  is the limit of the OUTERMOST invocation: when it strikes *)
(*                  inside a nested one the enclosing code must end too.     *)
(*   xhe xht xhc    INNER runs in the MESSAGE HANDLER of an xpcall (innermost    *)
(*                  wrapper only: the handler holds a body).  WHERE the      *)
(*                  endless code sits relative to a protected call decides   *)
(*                  in what CONTEXT it runs:                                 *)
(*                    xhe  xpcall(function() error('x') end, function(e)     *)
(*                         INNER end): the handler is entered for an         *)
(*                         ordinary error, outside any hook; the count hook  *)
(*                         fires inside it, the error raised there re-enters *)
(*                         the handler INSIDE the hook                       *)
(*                    xht  xpcall(function() while true do end end,          *)
(*                         function(e) INNER end): the handler would be      *)
(*                         entered for the time limit error itself, at the   *)
(*                         point of the error = inside the count hook        *)
(*                    xhc  xpcall(function() coroutine.wrap(function() while *)
(*                         true do end end)() end, function(e) INNER end):   *)
(*                         the limit strikes in a coroutine's BODY and is    *)
(*                         handed on by library code in the RESUMER: the     *)
(*                         handler would be entered for the time limit error *)
(*                         outside a hook                                    *)
(*                  Lua calls no hook while a hook - or anything called from *)
(*                  one - is running ("in-hook" context: frame hdlh of the   *)
(*                  machine): code there is out of reach of the time limit.  *)
(*                  Demanded design: the module's handler is never run for   *)
(*                  the time limit error (a guard answers in its place).     *)
(*   mts mix        INNER runs in a __tostring / __index metamethod called   *)
(*                  from module code; lix: in the __index metamethod of the  *)
(*                  module table, called by _lua_invoke's mod[fn_name] -     *)
(*                  OUTSIDE the library's pcall(fn, frame); load: at chunk   *)
(*                  level while the module is being loaded (the library's    *)
(*                  own host pcall(initfn)); coy: in the RESUMER of a        *)
(*                  coroutine that was created and is suspended.  All        *)
(*                  transparent for the time limit (outermost only: lix load)*)
(*   hc:<helper>:<value>   <helper>(<value>); INNER - a call of one of the   *)
(*                  sandbox BOOKKEEPING helpers that are exported into every *)
(*                  module environment (HelperNames: enumerated from the     *)
(*                  live module environment by the harness, env C07_HELPERS) *)
(*                  with nil / false / a table / a number.  Demanded: no such *)
(*                  call has any influence on the time limit.                *)
(* bodies: tight (while true do end), lib (loop calling string functions),  *)
(* tailrec (infinite tail recursion), deeprec (unbounded non-tail recursion: *)
(* ends quickly with an ordinary "stack overflow" error), invloop (a loop    *)
(* that keeps making benign nested invocations: the count hook practically   *)
(* always fires inside one of them, often before it has pushed its           *)
(* environment).                                                            *)
(*                                                                          *)
(* Dev = deviations of the code from the demanded behaviour:                *)
(*   PcallCatchesTimeout     pcall/xpcall/coroutine.resume of the sandbox   *)
(*                           are the host functions: they swallow the       *)
(*                           timeout error like any other                   *)
(*   CoroutineNoHook         the hook is per Lua thread; coroutines created *)
(*                           by the module run without one                  *)
(*   HookControlExported     _lua_clear_timeout_hook / _lua_set_timeout are *)
(*                           callable (and effective) from module code      *)
(*   NestedInvokeResetsHook  a nested #invoke (frame:preprocess) re-arms    *)
(*                           the hook with the default limit and clears it  *)
(*                           when it returns                                *)
(*   NestedTimeoutInBand     the time limit striking inside a nested         *)
(*                           invocation is turned into the in-band element   *)
(*                           of THAT invocation and the enclosing module     *)
(*                           carries on: one shot -> returns its own value   *)
(*                           after the limit; in a loop -> never ends        *)
(*   XpcallHandlerRunsInHook a module's xpcall message handler is run for    *)
(*                           the time limit error too: entered from the      *)
(*                           count hook it runs where no hook is called any  *)
(*                           more - a handler that does not return is never  *)
(*                           stopped (implied by PcallCatchesTimeout: the    *)
(*                           host xpcall)                                    *)
(*   EnvStackHelperAcceptsNil  the helper that pushes an environment on the  *)
(*                           Python-side stack accepts nil: the sandbox then *)
(*                           believes that no invocation is in progress, the *)
(*                           hook and the re-raise of the protected calls    *)
(*                           (both test _python_top_env() ~= nil) go inert   *)
EXTENDS Naturals, Sequences, FiniteSets, TLC, Json, IOUtils

CONSTANTS
  Dev,        \* deviations switched on
  B,          \* instructions between two hook firings (abstract, >= 1)
  RecMax      \* steps after which deeprec overflows the stack (< B)

DevNames == {"PcallCatchesTimeout", "CoroutineNoHook", "HookControlExported", "NestedInvokeResetsHook", "NestedTimeoutInBand",
             "XpcallHandlerRunsInHook", "EnvStackHelperAcceptsNil"}
Limit0 == 1          \* configured limit (clock granules); Start = 0, deadline D = 1; one granule stands for any configured limit in (0, 1] s, fractions included (harness limit_of)
Big == 9             \* a limit that does not expire within the horizon (59 s / 60 s)
Never == 99          \* "limit" of a sandbox that believes no invocation is in progress: hook and re-raise inert
Horizon == 3
D == Limit0

Infinite == {"tight", "lib", "tailrec", "invloop"}
AllBodies == Infinite \cup {"deeprec"}
Catchers == {"pcall", "xpcall", "xpcallh", "cores"}
Loops == {"ploop", "xloop", "xlooph"}
CoKinds == {"cowrap", "cores"}
Controls == {"clear", "rearm", "inv"}
NestedKinds == {"ninv", "ninvt", "ninvx"}
HandlerKinds == {"xhe", "xht", "xhc"}     \* INNER is the message handler of an xpcall
MetaKinds == {"mts", "mix"}               \* INNER is a metamethod called from module code
LibKinds == {"lix", "load"}               \* INNER is run by _lua_invoke itself, outside pcall(fn, frame)
Transparent == MetaKinds \cup LibKinds \cup {"coy"}
WhereKinds == HandlerKinds \cup Transparent
\* the bookkeeping helpers of a module environment: the live names when the harness supplies them
HelperNamesDefault == <<"_python_append_env", "_python_top_env", "_lua_reset_env", "_save_mod", "_cached_mod", "_new_loader",
                        "_new_loadData", "_new_loadJsonData", "_lua_set_timeout", "_lua_clear_timeout_hook",
                        "_lua_set_python_loader", "_lua_io_flush", "_mw_clone", "_orig_format", "_orig_gsub", "_orig_insert",
                        "_orig_next", "_orig_tostring">>
HelperSeq == IF "C07_HELPERS" \in DOMAIN IOEnv THEN JsonDeserialize(IOEnv.C07_HELPERS) ELSE HelperNamesDefault
HelperNames == {HelperSeq[i] : i \in DOMAIN HelperSeq}
ArgVals == {"nil", "false", "table", "number"}
HC(h, v) == "hc:" \o h \o ":" \o v
HelperKinds == {HC(h, v) : h \in HelperNames, v \in ArgVals}
\* the helper whose role is to push an environment on the stack _python_top_env() looks at
PushHelpers == {"_python_append_env"}
\* calls after which the sandbox believes that no invocation is in progress
InertCalls(Dv) == IF "EnvStackHelperAcceptsNil" \in Dv THEN {HC(h, "nil") : h \in PushHelpers \cap HelperNames} ELSE {}
CoreKinds == Catchers \cup Loops \cup {"cowrap"} \cup Controls \cup NestedKinds
AllKinds == CoreKinds \cup WhereKinds \cup HelperKinds

\* the grammar: a handler holds a body (innermost wrapper; not the loop of nested invocations); code run by
\* _lua_invoke itself is outermost and has no frame object (no nested invocation in it); helper calls are
\* combined with everything that stays inside ONE invocation
NeedsFrame(b, Wr) == b = "invloop" \/ \E i \in DOMAIN Wr : Wr[i] \in NestedKinds \cup {"inv"}
WellFormed(b, Wr) ==
  /\ \A i \in DOMAIN Wr : Wr[i] \in HandlerKinds => i = Len(Wr) /\ b # "invloop"
  /\ \A i \in DOMAIN Wr : Wr[i] \in LibKinds => i = 1 /\ ~NeedsFrame(b, Wr)
  /\ (\E i \in DOMAIN Wr : Wr[i] \in HelperKinds) => ~NeedsFrame(b, Wr)

(* ------------------------------------------------------------------ *)
(* what the property demands of a program                              *)
(* ------------------------------------------------------------------ *)
HasLoop(W) == \E i \in DOMAIN W : W[i] \in Loops
\* an ordinary error ends at the nearest protected call of the module - or at the boundary of the
\* nested invocation it happened in (in-band error element, the enclosing module goes on)
HasCatcher(W) == \E i \in DOMAIN W : W[i] \in Catchers \cup NestedKinds \cup HandlerKinds
\* (the protected function of xht / xhc is an endless loop itself)
NonTerminating(b, W) == b \in Infinite \/ HasLoop(W) \/ \E i \in DOMAIN W : W[i] \in {"xht", "xhc"}
\* non-terminating code must end as the in-band timeout element; terminating
\* code of the grammar ends on its own (error element, or normal return when
\* the overflow error is caught)
Demand(b, W) ==
  IF NonTerminating(b, W) THEN "aborted"
  ELSE IF HasCatcher(W) THEN "returned" ELSE "error"

(* ------------------------------------------------------------------ *)
(* big-step prediction of the outcome under a set of deviations        *)
(*   state s: hk = hook armed on the current thread, mh = on the main   *)
(*   thread, big = shared limit replaced by a long one, main = current  *)
(*   thread is the main thread.  Result r: T raises timeout, E raises   *)
(*   an ordinary error, N returns normally, H does not end in the bound, *)
(*   A returns normally after the time limit struck inside a nested      *)
(*   invocation and was handed to the module as an in-band element       *)
(* ------------------------------------------------------------------ *)
Eff(s) == s.hk /\ ~s.big

\* what a one-shot protected call makes of the result of its body
Caught(r, Dv) == CASE r = "T" -> IF "PcallCatchesTimeout" \in Dv THEN "N" ELSE "T"
                   [] r = "E" -> "N"
                   [] OTHER -> r

\* what the boundary of a nested invocation makes of the result of the nested function
NestedResult(r, Dv) == CASE r = "T" -> IF "NestedTimeoutInBand" \in Dv THEN "A" ELSE "T"
                         [] r = "E" -> "N"
                         [] OTHER -> r

\* "in-hook" context: Lua calls no hook while a hook, or a handler entered from a hook, is running on that thread
InHookS(s) == [s EXCEPT !.hk = FALSE, !.mh = IF s.main THEN FALSE ELSE s.mh]
\* the module's message handler is run for the time limit error (the host xpcall does that too)
Unguarded(Dv) == "XpcallHandlerRunsInHook" \in Dv \/ "PcallCatchesTimeout" \in Dv
\* what xpcall makes of a handler that ran after the deadline and ended with r (an error in the handler ends
\* as "error in error handling"): false + a message, which the repaired xpcall answers by raising the timeout
AfterDeadline(r, Dv) == IF r = "H" THEN "H" ELSE IF "PcallCatchesTimeout" \in Dv THEN "N" ELSE "T"

\* Sem = [rs |-> set of possible results, s |-> hook state afterwards].  The only
\* source of non-determinism is WHERE the count hook fires in a catch-and-continue loop
\* whose iterations end by themselves: inside the protected call (caught, the loop goes
\* on) or in the loop statement itself (the error leaves the loop).
RECURSIVE Sem(_, _, _, _, _)
Sem(b, W, i, s, Dv) ==
  IF i > Len(W) THEN
    IF b = "invloop" THEN
      \* the benign nested invocations run on the main thread; the hook fires in the loop statement
      \* (current thread) or inside one of them (main thread)
      LET reset == "NestedInvokeResetsHook" \in Dv
          s2 == IF reset THEN [s EXCEPT !.hk = IF s.main THEN FALSE ELSE s.hk, !.mh = FALSE, !.big = TRUE] ELSE s
          fireOuter == s2.hk /\ ~s2.big
          fireNested == s2.mh /\ ~s2.big
      IN [rs |-> (IF fireOuter THEN {"T"} ELSE {})
                 \cup (IF fireNested THEN {IF "NestedTimeoutInBand" \in Dv THEN "H" ELSE "T"} ELSE {})
                 \cup (IF ~fireOuter /\ ~fireNested THEN {"H"} ELSE {}),
          s |-> s2]
    ELSE
    [rs |-> {IF b \in Infinite THEN (IF Eff(s) THEN "T" ELSE "H") ELSE "E"}, s |-> s]
  ELSE
    LET w == W[i] IN
    CASE w \in {"pcall", "xpcall", "xpcallh"} ->
           LET x == Sem(b, W, i + 1, s, Dv) IN
           [rs |-> {Caught(r, Dv) : r \in x.rs}, s |-> x.s]
      [] w \in CoKinds ->
           LET s1 == [hk |-> "CoroutineNoHook" \notin Dv, mh |-> s.mh, big |-> s.big, main |-> FALSE]
               x == Sem(b, W, i + 1, s1, Dv)
               back == [hk |-> IF s.main THEN x.s.mh ELSE s.hk, mh |-> x.s.mh, big |-> x.s.big, main |-> s.main]
           IN [rs |-> IF w = "cowrap" THEN x.rs ELSE {Caught(r, Dv) : r \in x.rs}, s |-> back]
      [] w \in Loops ->
           LET x == Sem(b, W, i + 1, s, Dv)
               repaired == "PcallCatchesTimeout" \notin Dv
               selfend == x.rs \cap {"E", "N"} # {}     \* iterations that come to an end by themselves
               \* a hook firing inside such an iteration can be absorbed by a nested invocation in it
               absorbing == "NestedTimeoutInBand" \in Dv /\ \E j \in (i + 1)..Len(W) : W[j] \in NestedKinds
               \* the absorbed timeout was not raised by the hook but by a protected call re-raising
               \* after the deadline (iterations of an inner loop that end by themselves): the count
               \* was not restarted, the hook may fire in this loop's statement
               reraisedInside == b \notin Infinite /\ \E j \in (i + 1)..Len(W) : W[j] \in Loops
           IN
           \* Iterations ended by the hook (T): the repaired pcall re-raises once the deadline has
           \* passed, the host pcall catches for ever (the count restarts at every firing, the few
           \* instructions of the loop statement never reach it).  Iterations in which the hook was
           \* absorbed by a nested invocation (A) end normally: nothing to re-raise, the loop goes on
           \* for ever.  Iterations that end by themselves (deeprec's overflow caught, or absorbed by
           \* the nested boundary): the hook may fire anywhere, also in the loop statement.
           [rs |-> (IF "H" \in x.rs \/ "A" \in x.rs THEN {"H"} ELSE {})
                   \cup (IF "A" \in x.rs /\ reraisedInside /\ Eff(x.s) THEN {"T"} ELSE {})
                   \cup (IF "T" \in x.rs THEN (IF repaired /\ ~x.s.big THEN {"T"} ELSE {"H"}) ELSE {})
                   \cup (IF ~selfend THEN {}
                         ELSE IF repaired THEN (IF x.s.big THEN {"H"} ELSE {"T"} \cup (IF absorbing THEN {"H"} ELSE {}))
                         ELSE {"H"} \cup (IF Eff(x.s) THEN {"T"} ELSE {})),
            s |-> x.s]
      [] w \in HandlerKinds ->
           LET \* the handler runs INNER, entered outside a hook (late: the deadline has passed already)
               Normal(late) ==
                 UNION {CASE r = "T" ->      \* the hook fires in the handler: the error re-enters it INSIDE the hook
                               IF Unguarded(Dv) THEN {AfterDeadline(q, Dv) : q \in Sem(b, W, i + 1, InHookS(s), Dv).rs} ELSE {"T"}
                          [] r = "E" -> {IF late THEN AfterDeadline("E", Dv) ELSE "N"}
                          [] OTHER -> {r} : r \in Sem(b, W, i + 1, s, Dv).rs}
               co == [hk |-> "CoroutineNoHook" \notin Dv, mh |-> s.mh, big |-> s.big, main |-> FALSE]
           IN [rs |-> CASE w = "xhe" -> Normal(FALSE)
                        [] w = "xht" ->    \* the protected function loops on the current thread
                             IF ~Eff(s) THEN {"H"}
                             ELSE IF Unguarded(Dv) THEN {AfterDeadline(q, Dv) : q \in Sem(b, W, i + 1, InHookS(s), Dv).rs}
                             ELSE {"T"}
                        [] w = "xhc" ->    \* ... in a coroutine; its resumer hands the error on
                             IF ~Eff(co) THEN {"H"} ELSE IF Unguarded(Dv) THEN Normal(TRUE) ELSE {"T"},
               s |-> s]
      [] w \in Transparent -> Sem(b, W, i + 1, s, Dv)
      [] w \in HelperKinds ->
           Sem(b, W, i + 1, IF w \in InertCalls(Dv) THEN [s EXCEPT !.big = TRUE] ELSE s, Dv)
      [] w = "clear" ->
           Sem(b, W, i + 1,
               IF "HookControlExported" \in Dv
               THEN [s EXCEPT !.hk = FALSE, !.mh = IF s.main THEN FALSE ELSE s.mh] ELSE s, Dv)
      [] w = "rearm" ->
           Sem(b, W, i + 1,
               IF "HookControlExported" \in Dv
               THEN [s EXCEPT !.hk = TRUE, !.mh = IF s.main THEN TRUE ELSE s.mh, !.big = TRUE] ELSE s, Dv)
      [] w = "inv" ->
           Sem(b, W, i + 1,
               IF "NestedInvokeResetsHook" \in Dv
               THEN [s EXCEPT !.hk = IF s.main THEN FALSE ELSE s.hk, !.mh = FALSE, !.big = TRUE] ELSE s, Dv)
      [] w \in NestedKinds ->   \* the nested _lua_invoke runs INNER on the main Lua thread
           LET reset == "NestedInvokeResetsHook" \in Dv
               s1 == [hk |-> reset \/ s.mh, mh |-> reset \/ s.mh, big |-> reset \/ s.big, main |-> TRUE]
               x == Sem(b, W, i + 1, s1, Dv)
               mh2 == IF reset THEN FALSE ELSE x.s.mh
               back == [hk |-> IF s.main THEN mh2 ELSE s.hk, mh |-> mh2, big |-> x.s.big, main |-> s.main]
           IN [rs |-> {NestedResult(r, Dv) : r \in x.rs}, s |-> back]

S0 == [hk |-> TRUE, mh |-> TRUE, big |-> FALSE, main |-> TRUE]
OutcomeOf(r) == CASE r = "T" -> "aborted" [] r = "E" -> "error" [] r \in {"N", "A"} -> "returned" [] r = "H" -> "hung"
\* set of outcome classes the code can show for this program under these deviations
Pred(b, W, Dv) == {OutcomeOf(r) : r \in Sem(b, W, 1, S0, Dv).rs}

(* ------------------------------------------------------------------ *)
(* small-step machine                                                  *)
(* ------------------------------------------------------------------ *)
VARIABLES
  prog,      \* [body, wrap]
  status,    \* idle | running | aborted | error | returned   (what expand() sees)
  phase,     \* run | unwind | ret
  stack,     \* control stack of frames [k, d]: k = kind of the wrapper ("seq" for the transparent
             \* ones), d = its index; a catch-and-continue loop has two frames: "loop" (the loop
             \* statement) and, while an iteration runs, "lpc" (its protected call); the frame of a
             \* nested invocation (k \in NestedKinds) is the boundary call_lua_sandbox draws: what
             \* is above it runs in the nested _lua_invoke on the main Lua thread; an xpcall whose INNER is
             \* its message handler has ONE frame that changes its kind: xpfe / xpft / xpfc while the
             \* protected function runs (raising at once / looping / looping in a coroutine), hdl / hdlt
             \* while the handler runs after being entered outside a hook for an ordinary error / for the
             \* time limit error, hdlh while it runs after being entered INSIDE the count hook
  err,       \* none | timeout | lua   (error being propagated)
  hooked,    \* thread -> BOOLEAN: count hook installed on that Lua thread
  limit,     \* the shared _lua_current_max_time
  budget,    \* instructions until the hook of the current thread fires
  checked,   \* the hook of the current thread has run since the last clock tick
  now,       \* os.time()
  swallowed, \* a timeout error was caught by module code
  rec,       \* recursion depth of deeprec
  spin,      \* makes an iteration of an unhooked loop a visible step; body invloop: 0 = in the loop
             \* statement, 1 = inside the benign nested invocation
  py         \* Python side: depths of expand_stack (above the page), lua_env_stack, lua_frame_stack

vars == <<prog, status, phase, stack, err, hooked, limit, budget, checked, now, swallowed, rec, spin, py>>

W == prog.wrap
Done == {"aborted", "error", "returned"}
Threads == 0..3
Top == stack[Len(stack)]
Depth == IF stack = <<>> THEN 0 ELSE Top.d
AtLoopLevel == stack # <<>> /\ Top.k = "loop"
PFFrames == {"xpfe", "xpft", "xpfc"}
HdlFrames == {"hdl", "hdlt", "hdlh"}
CoFrames == CoKinds \cup {"xpfc"}
InPF == stack # <<>> /\ Top.k \in PFFrames
InBody == status = "running" /\ phase = "run" /\ Depth = Len(W) /\ ~AtLoopLevel /\ ~InPF
\* the current thread runs a hook or something called from one: Lua calls no hook there (a handler is the
\* innermost wrapper, so it is the top frame whenever it runs)
InHook == stack # <<>> /\ Top.k = "hdlh"
\* the benign nested invocation of body invloop is running
InNestedCall == InBody /\ prog.body = "invloop" /\ spin = 1
\* the current Lua thread: a nested invocation runs on the main thread (0), whatever thread called
\* it; a coroutine created since then is numbered by the coroutines alive (suspended ones included)
NBase == IF \E i \in DOMAIN stack : stack[i].k \in NestedKinds
         THEN CHOOSE i \in DOMAIN stack : stack[i].k \in NestedKinds /\ \A j \in DOMAIN stack : j > i => stack[j].k \notin NestedKinds
         ELSE 0
Cur == IF InNestedCall \/ ~\E i \in DOMAIN stack : i > NBase /\ stack[i].k \in CoFrames
       THEN 0 ELSE Cardinality({i \in DOMAIN stack : stack[i].k \in CoFrames})
\* the count hook of the current thread is installed and Lua would call it
Counting == hooked[Cur] /\ ~InHook
SetTop(k) == [stack EXCEPT ![Len(stack)] = [k |-> k, d |-> Top.d]]
PyZero == [expand |-> 0, env |-> 0, frame |-> 0]
\* call_lua_sandbox pushes expand_stack / lua_frame_stack, _lua_invoke the environment; popped on the way out
PyUp(q) == [expand |-> q.expand + 1, env |-> q.env + 1, frame |-> q.frame + 1]
PyDown(q) == [expand |-> q.expand - 1, env |-> q.env - 1, frame |-> q.frame - 1]
NestedResets == "NestedInvokeResetsHook" \in Dev
DeadlinePassed == status = "running" /\ now > D

LTInit(P) ==
  /\ prog \in P
  /\ status = "idle" /\ phase = "run" /\ stack = <<>> /\ err = "none"
  /\ hooked = [t \in Threads |-> FALSE] /\ limit = Limit0 /\ budget = B /\ checked = FALSE
  /\ now = 0 /\ swallowed = FALSE /\ rec = 0 /\ spin = 0 /\ py = PyZero

\* call_lua_sandbox up to pcall(fn, frame) in _lua_invoke
Invoke ==
  /\ status = "idle"
  /\ status' = "running"
  /\ py' = [expand |-> 1, env |-> 1, frame |-> 1]
  /\ hooked' = [hooked EXCEPT ![0] = TRUE]
  /\ limit' = Limit0 /\ budget' \in 1..B    \* the phase of the instruction counter is not known
  /\ UNCHANGED <<prog, phase, stack, err, checked, now, swallowed, rec, spin>>

Push(k, d) == stack' = Append(stack, [k |-> k, d |-> d])

\* the wrapper code itself runs (and counts instructions) on the current thread
Enter ==
  /\ status = "running" /\ phase = "run" /\ (AtLoopLevel \/ Depth < Len(W))
  /\ Counting => budget > 0
  /\ budget' = IF Counting THEN budget - 1 ELSE budget
  /\ IF AtLoopLevel
     THEN Push("lpc", Depth) /\ UNCHANGED <<hooked, limit, py>>      \* next iteration: pcall(function() ... end)
     ELSE LET w == W[Depth + 1] d == Depth + 1 t == Cur IN
     CASE w \in {"pcall", "xpcall", "xpcallh"} ->
            Push(w, d) /\ UNCHANGED <<hooked, limit, py>>
       [] w \in Loops ->
            Push("loop", d) /\ UNCHANGED <<hooked, limit, py>>
       [] w \in CoKinds ->
            /\ Push(w, d)
            /\ hooked' = [hooked EXCEPT ![Cardinality({j \in DOMAIN stack : stack[j].k \in CoFrames}) + 1] = "CoroutineNoHook" \notin Dev]
            /\ UNCHANGED <<limit, py>>
       [] w \in HandlerKinds ->   \* xpcall(<protected function>, function(e) INNER end): the protected function starts
            /\ Push(CASE w = "xhe" -> "xpfe" [] w = "xht" -> "xpft" [] OTHER -> "xpfc", d)
            /\ hooked' = IF w = "xhc"
                         THEN [hooked EXCEPT ![Cardinality({j \in DOMAIN stack : stack[j].k \in CoFrames}) + 1] = "CoroutineNoHook" \notin Dev]
                         ELSE hooked
            /\ UNCHANGED <<limit, py>>
       [] w \in Transparent ->
            Push("seq", d) /\ UNCHANGED <<hooked, limit, py>>
       [] w \in HelperKinds ->    \* _python_top_env() = nil from here on: hook and re-raise are inert
            /\ Push("seq", d)
            /\ limit' = IF w \in InertCalls(Dev) THEN Never ELSE limit
            /\ UNCHANGED <<hooked, py>>
       [] w = "clear" ->
            /\ Push("seq", d)
            /\ hooked' = IF "HookControlExported" \in Dev THEN [hooked EXCEPT ![t] = FALSE] ELSE hooked
            /\ UNCHANGED <<limit, py>>
       [] w = "rearm" ->
            /\ Push("seq", d)
            /\ hooked' = IF "HookControlExported" \in Dev THEN [hooked EXCEPT ![t] = TRUE] ELSE hooked
            /\ limit' = IF "HookControlExported" \in Dev THEN Big ELSE limit
            /\ UNCHANGED py
       [] w = "inv" ->   \* the nested _lua_invoke runs on the main Lua thread
            /\ Push("seq", d)
            /\ hooked' = IF "NestedInvokeResetsHook" \in Dev THEN [hooked EXCEPT ![0] = FALSE] ELSE hooked
            /\ limit' = IF "NestedInvokeResetsHook" \in Dev THEN Big ELSE limit
            /\ UNCHANGED py
       [] w \in NestedKinds ->   \* call_lua_sandbox -> _lua_invoke for INNER, on the main Lua thread
            /\ Push(w, d)
            /\ py' = PyUp(py)
            /\ hooked' = IF NestedResets THEN [hooked EXCEPT ![0] = TRUE] ELSE hooked
            /\ limit' = IF NestedResets THEN Big ELSE limit
  /\ UNCHANGED <<prog, status, phase, err, checked, now, swallowed, rec, spin>>

\* one stretch of instructions of the body
Step ==
  /\ InBody
  /\ Counting => budget > 0
  /\ budget' = IF Counting THEN budget - 1 ELSE budget
  /\ spin' = 1 - spin
  /\ IF prog.body = "deeprec" /\ rec + 1 >= RecMax
     THEN phase' = "unwind" /\ err' = "lua" /\ rec' = 0
     ELSE /\ rec' = IF prog.body = "deeprec" THEN rec + 1 ELSE rec
          /\ UNCHANGED <<phase, err>>
  /\ IF prog.body = "invloop"      \* spin 0 -> 1: the benign nested invocation starts; 1 -> 0: it returns
     THEN /\ py' = IF spin = 0 THEN PyUp(py) ELSE PyDown(py)
          /\ hooked' = IF NestedResets THEN [hooked EXCEPT ![0] = (spin = 0)] ELSE hooked
          /\ limit' = IF NestedResets /\ spin = 0 THEN Big ELSE limit
     ELSE UNCHANGED <<py, hooked, limit>>
  /\ UNCHANGED <<prog, status, stack, checked, now, swallowed>>

\* the protected function of an xpcall whose INNER is the message handler
PFStep ==
  /\ status = "running" /\ phase = "run" /\ InPF
  /\ Counting => budget > 0
  /\ budget' = IF Counting THEN budget - 1 ELSE budget
  /\ IF Top.k = "xpfe"
     THEN \* error('x'): Lua calls the message handler at the point of the error, outside any hook; once the
          \* deadline has passed the guard answers in the place of the module's handler
          IF ~Unguarded(Dev) /\ now > limit
          THEN phase' = "unwind" /\ err' = "timeout" /\ UNCHANGED <<stack, spin>>
          ELSE stack' = SetTop("hdl") /\ UNCHANGED <<phase, err, spin>>
     ELSE spin' = 1 - spin /\ UNCHANGED <<stack, phase, err>>        \* while true do end
  /\ UNCHANGED <<prog, status, hooked, limit, checked, now, swallowed, rec, py>>

\* the count hook of the current thread: raises iff the deadline has passed
HookFires ==
  /\ status = "running" /\ phase = "run" /\ Counting /\ budget = 0
  /\ IF now > limit   \* os.time() > start_time + _lua_current_max_time, start_time = 0
     THEN /\ budget' = B /\ UNCHANGED checked
          /\ IF InNestedCall     \* the error leaves the benign nested invocation of body invloop
             THEN /\ spin' = 0 /\ py' = PyDown(py)
                  /\ hooked' = IF NestedResets THEN [hooked EXCEPT ![0] = FALSE] ELSE hooked
                  /\ IF "NestedTimeoutInBand" \in Dev
                     THEN swallowed' = TRUE /\ UNCHANGED <<phase, err>>   \* in-band element, the loop goes on
                     ELSE phase' = "unwind" /\ err' = "timeout" /\ UNCHANGED swallowed
                  /\ UNCHANGED stack
             ELSE IF stack # <<>> /\ Top.k \in {"xpft", "xpfc", "hdl", "hdlt"} /\ Unguarded(Dev)
             THEN \* the error is raised under an xpcall of the module: Lua calls the module's message handler
                  \* at the point of the error - INSIDE the hook, unless it was raised in a coroutine and is
                  \* handed on by its resumer.  An error raised in the handler enters the handler again.
                  /\ stack' = SetTop(IF Top.k = "xpfc" THEN "hdlt" ELSE "hdlh")
                  /\ UNCHANGED <<phase, err, spin, py, hooked, swallowed>>
             ELSE phase' = "unwind" /\ err' = "timeout" /\ UNCHANGED <<stack, spin, py, hooked, swallowed>>
     ELSE budget' = B /\ checked' = TRUE /\ UNCHANGED <<stack, phase, err, spin, py, hooked, swallowed>>
  /\ UNCHANGED <<prog, status, limit, now, rec>>

\* the clock.  Code that ends by itself ends in no time; while non-terminating code
\* runs the clock advances, and (hook period << 1 s) the hook of a hooked thread gets
\* its turn within every granule
Tick ==
  /\ now < Horizon
  /\ status = "running" /\ phase = "run" /\ NonTerminating(prog.body, W)
  \* entering the wrappers takes no time; neither does the statement of a catch-and-continue loop - time passes
  \* between the iterations of a loop whose iterations end by themselves (an endless body is where the time goes)
  /\ InBody \/ (InPF /\ Top.k # "xpfe") \/ (prog.body \notin Infinite /\ \E i \in DOMAIN stack : stack[i].k = "loop")
  /\ Counting => checked
  /\ now' = now + 1 /\ checked' = FALSE
  /\ UNCHANGED <<prog, status, phase, stack, err, hooked, limit, budget, swallowed, rec, spin, py>>

Pop == stack' = SubSeq(stack, 1, Len(stack) - 1)

CatchFrames == Catchers \cup {"lpc"} \cup PFFrames \cup HdlFrames
\* the repaired protected calls re-raise once the deadline has passed
Reraise == "PcallCatchesTimeout" \notin Dev /\ (err = "timeout" \/ now > limit)

\* call_lua_sandbox after lua_invoke returned or raised: finally-clause + pops
Finish(st) ==
  /\ status' = st
  /\ py' = PyDown(py)
  /\ hooked' = [t \in Threads |-> FALSE]   \* _lua_clear_timeout_hook / hook inert outside invocations

\* what the boundary of a nested invocation hands to the enclosing module in-band
NestedAbsorbs == err = "lua" \/ "NestedTimeoutInBand" \in Dev

Unwind ==
  /\ status = "running" /\ phase = "unwind"
  /\ IF stack = <<>>
     THEN /\ Finish(IF err = "timeout" THEN "aborted" ELSE "error")
          /\ UNCHANGED <<phase, stack, err, swallowed>>
     ELSE /\ UNCHANGED status
          /\ Pop
          /\ IF Top.k \in NestedKinds
             THEN \* the nested call_lua_sandbox: stacks popped; an ordinary error becomes the in-band
                  \* error element and the enclosing module goes on; the time limit (the limit of the
                  \* outermost invocation) is raised in the enclosing module
                  /\ py' = PyDown(py)
                  /\ hooked' = IF NestedResets THEN [hooked EXCEPT ![0] = FALSE] ELSE hooked
                  /\ IF NestedAbsorbs
                     THEN phase' = "ret" /\ err' = "none" /\ swallowed' = (swallowed \/ err = "timeout")
                     ELSE UNCHANGED <<phase, err, swallowed>>
             ELSE /\ UNCHANGED <<py, hooked>>
                  \* (an xpcall whose handler ended with an error returns false like any protected call; if the
                  \* handler had been entered for the time limit error, that error is lost with it)
                  /\ IF Top.k \in CatchFrames /\ ~Reraise
                     THEN phase' = "ret" /\ err' = "none" /\ swallowed' = (swallowed \/ err = "timeout" \/ Top.k \in {"hdlt", "hdlh"})
                     ELSE /\ err' = IF Top.k \in CatchFrames THEN "timeout" ELSE err
                          /\ UNCHANGED <<phase, swallowed>>
  /\ UNCHANGED <<prog, limit, budget, checked, now, rec, spin>>

Ret ==
  /\ status = "running" /\ phase = "ret"
  /\ IF stack = <<>>
     THEN Finish("returned") /\ UNCHANGED <<phase, stack>>
     ELSE /\ UNCHANGED status
          /\ IF Top.k = "loop"
             THEN phase' = "run" /\ UNCHANGED <<stack, py, hooked>>
             ELSE /\ Pop /\ UNCHANGED phase
                  /\ IF Top.k \in NestedKinds      \* the nested invocation returns its value
                     THEN /\ py' = PyDown(py)
                          /\ hooked' = IF NestedResets THEN [hooked EXCEPT ![0] = FALSE] ELSE hooked
                     ELSE UNCHANGED <<py, hooked>>
  /\ UNCHANGED <<prog, err, limit, budget, checked, now, swallowed, rec, spin>>

ProgNext == Invoke \/ Enter \/ Step \/ PFStep \/ HookFires \/ Unwind \/ Ret
LTNext == ProgNext \/ Tick
Fair == WF_vars(ProgNext) /\ WF_vars(Tick)

(* ------------------------------------------------------------------ *)
(* properties                                                          *)
(* ------------------------------------------------------------------ *)
TypeOK ==
  /\ status \in {"idle", "running"} \cup Done /\ phase \in {"run", "unwind", "ret"}
  /\ err \in {"none", "timeout", "lua"} /\ budget \in 0..B /\ now \in 0..Horizon
  /\ Len(stack) <= 2 * Len(W)

\* the in-band result is one the big-step semantics predicts for these deviations
OutcomeMatches ==
  LET p == Pred(prog.body, W, Dev) IN
  /\ status \in Done => status \in p
  /\ p = {"hung"} => status \notin Done

\* C07, liveness part: once the deadline has passed the invocation ends ...
AbortedAfterDeadline == DeadlinePassed ~> (status \in Done)
\* ... code that ends by itself does end
\* (a loop whose timeout is handed on in-band by a nested invocation - deviation NestedTimeoutInBand -
\* "returns", but only once the clock has passed the deadline; the loop alternates between phases, so
\* weak fairness of Tick does not force that: such programs are not code that ends by itself)
TerminatingEnds == (status = "idle" /\ Pred(prog.body, W, Dev) \subseteq {"error", "returned"}
                    /\ ~(HasLoop(W) /\ \E i \in DOMAIN W : W[i] \in NestedKinds)) ~> (status \in Done)
\* ... a raised timeout is never turned into a normal result
TimeoutNotSwallowed == status = "returned" => ~swallowed
\* ... and it ends within one clock granule (+ one hook period) after the limit
BoundedOverrun == status = "running" => now <= D + 1
\* after the invocation, whatever its result, the context is as before it
CtxRestored == status \in Done => py = PyZero /\ \A t \in Threads : ~hooked[t]
\* (reachability probe, expected to FAIL in Demo_LuaTimeout_loop_escape: with the host pcall a
\* catch-and-continue loop over deeprec can still be left when the hook fires in the loop statement)
NeverAborted == status # "aborted"
\* with no deviation every program of the grammar gets what the property demands
IdealMeetsDemand == Pred(prog.body, W, {}) = {Demand(prog.body, W)}
=============================================================================
