--------------------------- MODULE LuaTimeout ---------------------------
(* Time limit of one #invoke (property C07).                                *)
(*                                                                          *)
(* Code modelled:                                                           *)
(*  _sandbox_phase1.lua  _lua_set_timeout: debug.sethook(count hook every   *)
(*                       100000 instructions) on the CURRENT Lua thread; the *)
(*                       hook raises "Lua timeout error" iff                *)
(*                       os.time() > start + _lua_current_max_time (shared)  *)
(*                       _lua_clear_timeout_hook: debug.sethook()            *)
(*  _sandbox_phase2.lua  _lua_invoke: set timeout, pcall(fn, frame), clear  *)
(*  luaexec.py           call_lua_sandbox: pushes expand_stack / frame      *)
(*                       stack (env stack is pushed from Lua), maps the     *)
(*                       error text to the in-band element, restores stacks *)
(*                                                                          *)
(* An abstract program is a non-terminating body under a list of wrappers   *)
(* (outermost first):                                                       *)
(*   pcall xpcall   pcall(function() INNER end)            -- one shot      *)
(*   ploop xloop    while true do pcall(function() INNER end) end           *)
(*   cowrap         coroutine.wrap(function() INNER end)()                  *)
(*   cores          coroutine.resume(coroutine.create(function() INNER end))*)
(*   clear          _lua_clear_timeout_hook(); INNER                        *)
(*   rearm          _lua_set_timeout(59); INNER                             *)
(*   inv            frame:preprocess("{{#invoke:benign|f}}"); INNER         *)
(* bodies: tight (while true do end), lib (loop calling string functions),  *)
(* tailrec (infinite tail recursion), deeprec (unbounded non-tail recursion: *)
(* ends quickly with an ordinary "stack overflow" error).                   *)
(*                                                                          *)
(* Dev = deviations of the code from the demanded behaviour:                *)
(*   PcallCatchesTimeout     pcall/xpcall/coroutine.resume of the sandbox   *)
(*                           are the host functions: they swallow the       *)
(*                           timeout error like any other                   *)
(*   CoroutineNoHook         the hook is per Lua thread; coroutines created *)
(*                           by the module run without one                  *)
(*   HookControlExported     _lua_clear_timeout_hook / _lua_set_timeout are *)
(*                           callable (and effective) from module code      *)
(*   NestedInvokeResetsHook  a nested #invoke (frame:preprocess) re-arms    *)
(*                           the hook with the default limit and clears it  *)
(*                           when it returns                                *)
EXTENDS Naturals, Sequences, FiniteSets, TLC

CONSTANTS
  Dev,        \* deviations switched on
  B,          \* instructions between two hook firings (abstract, >= 1)
  RecMax      \* steps after which deeprec overflows the stack (< B)

DevNames == {"PcallCatchesTimeout", "CoroutineNoHook", "HookControlExported", "NestedInvokeResetsHook"}
Limit0 == 1          \* configured limit (clock granules); Start = 0, deadline D = 1
Big == 9             \* a limit that does not expire within the horizon (59 s / 60 s)
Horizon == 3
D == Limit0

Infinite == {"tight", "lib", "tailrec"}
AllBodies == Infinite \cup {"deeprec"}
Catchers == {"pcall", "xpcall", "cores"}
Loops == {"ploop", "xloop"}
CoKinds == {"cowrap", "cores"}
Controls == {"clear", "rearm", "inv"}
AllKinds == Catchers \cup Loops \cup {"cowrap"} \cup Controls

(* ------------------------------------------------------------------ *)
(* what the property demands of a program                              *)
(* ------------------------------------------------------------------ *)
HasLoop(W) == \E i \in DOMAIN W : W[i] \in Loops
HasCatcher(W) == \E i \in DOMAIN W : W[i] \in Catchers
NonTerminating(b, W) == b \in Infinite \/ HasLoop(W)
\* non-terminating code must end as the in-band timeout element; terminating
\* code of the grammar ends on its own (error element, or normal return when
\* the overflow error is caught)
Demand(b, W) ==
  IF NonTerminating(b, W) THEN "aborted"
  ELSE IF HasCatcher(W) THEN "returned" ELSE "error"

(* ------------------------------------------------------------------ *)
(* big-step prediction of the outcome under a set of deviations        *)
(*   state s: hk = hook armed on the current thread, mh = on the main   *)
(*   thread, big = shared limit replaced by a long one, main = current  *)
(*   thread is the main thread.  Result r: T raises timeout, E raises   *)
(*   an ordinary error, N returns normally, H does not end in the bound *)
(* ------------------------------------------------------------------ *)
Eff(s) == s.hk /\ ~s.big

RECURSIVE Sem(_, _, _, _, _)
Sem(b, W, i, s, Dv) ==
  IF i > Len(W) THEN
    [r |-> IF b \in Infinite THEN (IF Eff(s) THEN "T" ELSE "H") ELSE "E", s |-> s]
  ELSE
    LET w == W[i] IN
    CASE w \in {"pcall", "xpcall"} ->
           LET x == Sem(b, W, i + 1, s, Dv) IN
           [r |-> CASE x.r = "T" -> IF "PcallCatchesTimeout" \in Dv THEN "N" ELSE "T"
                    [] x.r = "E" -> "N"
                    [] OTHER -> x.r,
            s |-> x.s]
      [] w \in CoKinds ->
           LET s1 == [hk |-> "CoroutineNoHook" \notin Dv, mh |-> s.mh, big |-> s.big, main |-> FALSE]
               x == Sem(b, W, i + 1, s1, Dv)
               back == [hk |-> IF s.main THEN x.s.mh ELSE s.hk, mh |-> x.s.mh, big |-> x.s.big, main |-> s.main]
           IN [r |-> IF w = "cowrap" THEN x.r
                     ELSE CASE x.r = "T" -> IF "PcallCatchesTimeout" \in Dv THEN "N" ELSE "T"
                            [] x.r = "E" -> "N"
                            [] OTHER -> x.r,
               s |-> back]
      [] w \in Loops ->
           LET x == Sem(b, W, i + 1, s, Dv) IN
           \* every iteration ends with an error (the hook's, or deeprec's overflow); the
           \* repaired pcall re-raises it once the deadline has passed, the host pcall never
           [r |-> IF x.r = "H" THEN "H"
                  ELSE IF ~x.s.big /\ "PcallCatchesTimeout" \notin Dv THEN "T"
                  ELSE "H",
            s |-> x.s]
      [] w = "clear" ->
           Sem(b, W, i + 1,
               IF "HookControlExported" \in Dv
               THEN [s EXCEPT !.hk = FALSE, !.mh = IF s.main THEN FALSE ELSE s.mh] ELSE s, Dv)
      [] w = "rearm" ->
           Sem(b, W, i + 1,
               IF "HookControlExported" \in Dv
               THEN [s EXCEPT !.hk = TRUE, !.mh = IF s.main THEN TRUE ELSE s.mh, !.big = TRUE] ELSE s, Dv)
      [] w = "inv" ->
           Sem(b, W, i + 1,
               IF "NestedInvokeResetsHook" \in Dv
               THEN [s EXCEPT !.hk = IF s.main THEN FALSE ELSE s.hk, !.mh = FALSE, !.big = TRUE] ELSE s, Dv)

S0 == [hk |-> TRUE, mh |-> TRUE, big |-> FALSE, main |-> TRUE]
OutcomeOf(r) == CASE r = "T" -> "aborted" [] r = "E" -> "error" [] r = "N" -> "returned" [] r = "H" -> "hung"
Pred(b, W, Dv) == OutcomeOf(Sem(b, W, 1, S0, Dv).r)

(* ------------------------------------------------------------------ *)
(* small-step machine                                                  *)
(* ------------------------------------------------------------------ *)
VARIABLES
  prog,      \* [body, wrap]
  status,    \* idle | running | aborted | error | returned   (what expand() sees)
  phase,     \* run | unwind | ret
  stack,     \* control stack: one frame [k] per entered wrapper (k = kind, or "seq")
  err,       \* none | timeout | lua   (error being propagated)
  hooked,    \* thread -> BOOLEAN: count hook installed on that Lua thread
  limit,     \* the shared _lua_current_max_time
  budget,    \* instructions until the hook of the current thread fires
  checked,   \* the hook of the current thread has run since the last clock tick
  now,       \* os.time()
  swallowed, \* a timeout error was caught by module code
  rec,       \* recursion depth of deeprec
  spin,      \* makes an iteration of an unhooked loop a visible step
  py         \* Python side: depths of expand_stack (above the page), lua_env_stack, lua_frame_stack

vars == <<prog, status, phase, stack, err, hooked, limit, budget, checked, now, swallowed, rec, spin, py>>

W == prog.wrap
Done == {"aborted", "error", "returned"}
Threads == 0..3
Cur == Cardinality({i \in DOMAIN stack : stack[i].k \in CoKinds})
InBody == status = "running" /\ phase = "run" /\ Len(stack) = Len(W)
PyZero == [expand |-> 0, env |-> 0, frame |-> 0]
DeadlinePassed == status = "running" /\ now > D

LTInit(P) ==
  /\ prog \in P
  /\ status = "idle" /\ phase = "run" /\ stack = <<>> /\ err = "none"
  /\ hooked = [t \in Threads |-> FALSE] /\ limit = Limit0 /\ budget = B /\ checked = FALSE
  /\ now = 0 /\ swallowed = FALSE /\ rec = 0 /\ spin = 0 /\ py = PyZero

\* call_lua_sandbox up to pcall(fn, frame) in _lua_invoke
Invoke ==
  /\ status = "idle"
  /\ status' = "running"
  /\ py' = [expand |-> 1, env |-> 1, frame |-> 1]
  /\ hooked' = [hooked EXCEPT ![0] = TRUE]
  /\ limit' = Limit0 /\ budget' = B
  /\ UNCHANGED <<prog, phase, stack, err, checked, now, swallowed, rec, spin>>

Push(k) == stack' = Append(stack, [k |-> k])

\* the wrapper code itself runs (and counts instructions) on the current thread
Enter ==
  /\ status = "running" /\ phase = "run" /\ Len(stack) < Len(W)
  /\ hooked[Cur] => budget > 0
  /\ budget' = IF hooked[Cur] THEN budget - 1 ELSE budget
  /\ LET w == W[Len(stack) + 1] t == Cur IN
     CASE w \in Catchers \ {"cores"} \/ w \in Loops ->
            Push(w) /\ UNCHANGED <<hooked, limit>>
       [] w \in CoKinds ->
            /\ Push(w)
            /\ hooked' = [hooked EXCEPT ![t + 1] = "CoroutineNoHook" \notin Dev]
            /\ UNCHANGED limit
       [] w = "clear" ->
            /\ Push("seq")
            /\ hooked' = IF "HookControlExported" \in Dev THEN [hooked EXCEPT ![t] = FALSE] ELSE hooked
            /\ UNCHANGED limit
       [] w = "rearm" ->
            /\ Push("seq")
            /\ hooked' = IF "HookControlExported" \in Dev THEN [hooked EXCEPT ![t] = TRUE] ELSE hooked
            /\ limit' = IF "HookControlExported" \in Dev THEN Big ELSE limit
       [] w = "inv" ->   \* the nested _lua_invoke runs on the main Lua thread
            /\ Push("seq")
            /\ hooked' = IF "NestedInvokeResetsHook" \in Dev THEN [hooked EXCEPT ![0] = FALSE] ELSE hooked
            /\ limit' = IF "NestedInvokeResetsHook" \in Dev THEN Big ELSE limit
  /\ UNCHANGED <<prog, status, phase, err, checked, now, swallowed, rec, spin, py>>

\* one stretch of instructions of the body
Step ==
  /\ InBody
  /\ hooked[Cur] => budget > 0
  /\ budget' = IF hooked[Cur] THEN budget - 1 ELSE budget
  /\ spin' = 1 - spin
  /\ IF prog.body = "deeprec" /\ rec + 1 >= RecMax
     THEN phase' = "unwind" /\ err' = "lua" /\ rec' = 0
     ELSE /\ rec' = IF prog.body = "deeprec" THEN rec + 1 ELSE rec
          /\ UNCHANGED <<phase, err>>
  /\ UNCHANGED <<prog, status, stack, hooked, limit, checked, now, swallowed, py>>

\* the count hook of the current thread: raises iff the deadline has passed
HookFires ==
  /\ status = "running" /\ phase = "run" /\ hooked[Cur] /\ budget = 0
  /\ IF now > limit   \* os.time() > start_time + _lua_current_max_time, start_time = 0
     THEN phase' = "unwind" /\ err' = "timeout" /\ budget' = B /\ UNCHANGED checked
     ELSE budget' = B /\ checked' = TRUE /\ UNCHANGED <<phase, err>>
  /\ UNCHANGED <<prog, status, stack, hooked, limit, now, swallowed, rec, spin, py>>

\* the clock.  Code that ends by itself ends in no time; while non-terminating code
\* runs the clock advances, and (hook period << 1 s) the hook of a hooked thread gets
\* its turn within every granule
Tick ==
  /\ now < Horizon
  /\ status = "running" /\ phase = "run" /\ NonTerminating(prog.body, W)
  /\ hooked[Cur] => checked
  /\ now' = now + 1 /\ checked' = FALSE
  /\ UNCHANGED <<prog, status, phase, stack, err, hooked, limit, budget, swallowed, rec, spin, py>>

Pop == stack' = SubSeq(stack, 1, Len(stack) - 1)

\* the repaired protected calls re-raise once the deadline has passed
Reraise == "PcallCatchesTimeout" \notin Dev /\ (err = "timeout" \/ now > limit)

\* call_lua_sandbox after lua_invoke returned or raised: finally-clause + pops
Finish(st) ==
  /\ status' = st
  /\ py' = PyZero
  /\ hooked' = [t \in Threads |-> FALSE]   \* _lua_clear_timeout_hook / hook inert outside invocations

Unwind ==
  /\ status = "running" /\ phase = "unwind"
  /\ IF stack = <<>>
     THEN /\ Finish(IF err = "timeout" THEN "aborted" ELSE "error")
          /\ UNCHANGED <<phase, stack, err, swallowed>>
     ELSE LET f == stack[Len(stack)] IN
          /\ UNCHANGED <<status, py, hooked>>
          /\ CASE f.k \in {"seq", "cowrap"} -> Pop /\ UNCHANGED <<phase, err, swallowed>>
               [] f.k \in Catchers ->
                    IF Reraise THEN Pop /\ err' = "timeout" /\ UNCHANGED <<phase, swallowed>>
                    ELSE Pop /\ phase' = "ret" /\ err' = "none" /\ swallowed' = (swallowed \/ err = "timeout")
               [] f.k \in Loops ->
                    IF Reraise THEN Pop /\ err' = "timeout" /\ UNCHANGED <<phase, swallowed>>
                    ELSE /\ UNCHANGED stack /\ phase' = "run" /\ err' = "none"
                         /\ swallowed' = (swallowed \/ err = "timeout")
  /\ UNCHANGED <<prog, limit, budget, checked, now, rec, spin>>

Ret ==
  /\ status = "running" /\ phase = "ret"
  /\ IF stack = <<>>
     THEN Finish("returned") /\ UNCHANGED <<phase, stack>>
     ELSE /\ UNCHANGED <<status, py, hooked>>
          /\ IF stack[Len(stack)].k \in Loops
             THEN phase' = "run" /\ UNCHANGED stack
             ELSE Pop /\ UNCHANGED phase
  /\ UNCHANGED <<prog, err, limit, budget, checked, now, swallowed, rec, spin>>

ProgNext == Invoke \/ Enter \/ Step \/ HookFires \/ Unwind \/ Ret
LTNext == ProgNext \/ Tick
Fair == WF_vars(ProgNext) /\ WF_vars(Tick)

(* ------------------------------------------------------------------ *)
(* properties                                                          *)
(* ------------------------------------------------------------------ *)
TypeOK ==
  /\ status \in {"idle", "running"} \cup Done /\ phase \in {"run", "unwind", "ret"}
  /\ err \in {"none", "timeout", "lua"} /\ budget \in 0..B /\ now \in 0..Horizon
  /\ Len(stack) <= Len(W)

\* the in-band result is the one the big-step semantics predicts for these deviations
OutcomeMatches ==
  LET p == Pred(prog.body, W, Dev) IN
  /\ status \in Done => status = p
  /\ p = "hung" => status \notin Done

\* C07, liveness part: once the deadline has passed the invocation ends ...
AbortedAfterDeadline == DeadlinePassed ~> (status \in Done)
\* ... code that ends by itself does end
TerminatingEnds == (status = "idle" /\ Pred(prog.body, W, Dev) \in {"error", "returned"}) ~> (status \in Done)
\* ... a raised timeout is never turned into a normal result
TimeoutNotSwallowed == status = "returned" => ~swallowed
\* ... and it ends within one clock granule (+ one hook period) after the limit
BoundedOverrun == status = "running" => now <= D + 1
\* after the invocation, whatever its result, the context is as before it
CtxRestored == status \in Done => py = PyZero /\ \A t \in Threads : ~hooked[t]
\* with no deviation every program of the grammar gets what the property demands
IdealMeetsDemand == Pred(prog.body, W, {}) = Demand(prog.body, W)
=============================================================================
