--------------------------- MODULE LuaTimeout ---------------------------
(* Time limit of one #invoke (property C07).                                *)
(*                                                                          *)
(* Code modelled:                                                           *)
(*  _sandbox_phase1.lua  _lua_set_timeout: debug.sethook(count hook every   *)
(*                       100000 instructions) on the CURRENT Lua thread; the *)
(*                       hook raises "Lua timeout error" iff                *)
(*                       os.time() > start + _lua_current_max_time (shared)  *)
(*                       _lua_clear_timeout_hook: debug.sethook()            *)
(*  _sandbox_phase2.lua  _lua_invoke: set timeout, pcall(fn, frame), clear  *)
(*  luaexec.py           call_lua_sandbox: pushes expand_stack / frame      *)
(*                       stack (env stack is pushed from Lua), maps the     *)
(*                       error text to the in-band element, restores stacks *)
(*                                                                          *)
(* An abstract program is a non-terminating body under a list of wrappers   *)
(* (outermost first):                                                       *)
(*   pcall xpcall   pcall(function() INNER end)            -- one shot      *)
(*   ploop xloop    while true do pcall(function() INNER end) end           *)
(*   xpcallh xlooph the same with a message handler that does not hand the   *)
(*                  error text on (returns a table): what the handler makes  *)
(*                  of the error has no influence on the time limit          *)
(*   cowrap         coroutine.wrap(function() INNER end)()                  *)
(*   cores          coroutine.resume(coroutine.create(function() INNER end))*)
(*   clear          _lua_clear_timeout_hook(); INNER                        *)
(*   rearm          _lua_set_timeout(59); INNER                             *)
(*   inv            frame:preprocess("{{#invoke:benign|f}}"); INNER         *)
(* bodies: tight (while true do end), lib (loop calling string functions),  *)
(* tailrec (infinite tail recursion), deeprec (unbounded non-tail recursion: *)
(* ends quickly with an ordinary "stack overflow" error).                   *)
(*                                                                          *)
(* Dev = deviations of the code from the demanded behaviour:                *)
(*   PcallCatchesTimeout     pcall/xpcall/coroutine.resume of the sandbox   *)
(*                           are the host functions: they swallow the       *)
(*                           timeout error like any other                   *)
(*   CoroutineNoHook         the hook is per Lua thread; coroutines created *)
(*                           by the module run without one                  *)
(*   HookControlExported     _lua_clear_timeout_hook / _lua_set_timeout are *)
(*                           callable (and effective) from module code      *)
(*   NestedInvokeResetsHook  a nested #invoke (frame:preprocess) re-arms    *)
(*                           the hook with the default limit and clears it  *)
(*                           when it returns                                *)
EXTENDS Naturals, Sequences, FiniteSets, TLC

CONSTANTS
  Dev,        \* deviations switched on
  B,          \* instructions between two hook firings (abstract, >= 1)
  RecMax      \* steps after which deeprec overflows the stack (< B)

DevNames == {"PcallCatchesTimeout", "CoroutineNoHook", "HookControlExported", "NestedInvokeResetsHook"}
Limit0 == 1          \* configured limit (clock granules); Start = 0, deadline D = 1; one granule stands for any configured limit in (0, 1] s, fractions included (harness limit_of)
Big == 9             \* a limit that does not expire within the horizon (59 s / 60 s)
Horizon == 3
D == Limit0

Infinite == {"tight", "lib", "tailrec"}
AllBodies == Infinite \cup {"deeprec"}
Catchers == {"pcall", "xpcall", "xpcallh", "cores"}
Loops == {"ploop", "xloop", "xlooph"}
CoKinds == {"cowrap", "cores"}
Controls == {"clear", "rearm", "inv"}
AllKinds == Catchers \cup Loops \cup {"cowrap"} \cup Controls

(* ------------------------------------------------------------------ *)
(* what the property demands of a program                              *)
(* ------------------------------------------------------------------ *)
HasLoop(W) == \E i \in DOMAIN W : W[i] \in Loops
HasCatcher(W) == \E i \in DOMAIN W : W[i] \in Catchers
NonTerminating(b, W) == b \in Infinite \/ HasLoop(W)
\* non-terminating code must end as the in-band timeout element; terminating
\* code of the grammar ends on its own (error element, or normal return when
\* the overflow error is caught)
Demand(b, W) ==
  IF NonTerminating(b, W) THEN "aborted"
  ELSE IF HasCatcher(W) THEN "returned" ELSE "error"

(* ------------------------------------------------------------------ *)
(* big-step prediction of the outcome under a set of deviations        *)
(*   state s: hk = hook armed on the current thread, mh = on the main   *)
(*   thread, big = shared limit replaced by a long one, main = current  *)
(*   thread is the main thread.  Result r: T raises timeout, E raises   *)
(*   an ordinary error, N returns normally, H does not end in the bound *)
(* ------------------------------------------------------------------ *)
Eff(s) == s.hk /\ ~s.big

\* what a one-shot protected call makes of the result of its body
Caught(r, Dv) == CASE r = "T" -> IF "PcallCatchesTimeout" \in Dv THEN "N" ELSE "T"
                   [] r = "E" -> "N"
                   [] OTHER -> r

\* Sem = [rs |-> set of possible results, s |-> hook state afterwards].  The only
\* source of non-determinism is WHERE the count hook fires in a catch-and-continue loop
\* whose iterations end by themselves: inside the protected call (caught, the loop goes
\* on) or in the loop statement itself (the error leaves the loop).
RECURSIVE Sem(_, _, _, _, _)
Sem(b, W, i, s, Dv) ==
  IF i > Len(W) THEN
    [rs |-> {IF b \in Infinite THEN (IF Eff(s) THEN "T" ELSE "H") ELSE "E"}, s |-> s]
  ELSE
    LET w == W[i] IN
    CASE w \in {"pcall", "xpcall", "xpcallh"} ->
           LET x == Sem(b, W, i + 1, s, Dv) IN
           [rs |-> {Caught(r, Dv) : r \in x.rs}, s |-> x.s]
      [] w \in CoKinds ->
           LET s1 == [hk |-> "CoroutineNoHook" \notin Dv, mh |-> s.mh, big |-> s.big, main |-> FALSE]
               x == Sem(b, W, i + 1, s1, Dv)
               back == [hk |-> IF s.main THEN x.s.mh ELSE s.hk, mh |-> x.s.mh, big |-> x.s.big, main |-> s.main]
           IN [rs |-> IF w = "cowrap" THEN x.rs ELSE {Caught(r, Dv) : r \in x.rs}, s |-> back]
      [] w \in Loops ->
           LET x == Sem(b, W, i + 1, s, Dv)
               ending == x.rs \ {"H"}      \* iterations that come to an end
               repaired == "PcallCatchesTimeout" \notin Dv
           IN
           \* every ending iteration ends with an error (the hook's, or deeprec's overflow).
           \* Repaired pcall: re-raised once the deadline has passed.  Host pcall: caught for
           \* ever, unless the hook fires in the loop statement, which needs iterations that
           \* are not themselves ended by the hook (the count restarts at every firing).
           [rs |-> (IF "H" \in x.rs THEN {"H"} ELSE {})
                   \cup (IF ending = {} THEN {}
                         ELSE IF repaired THEN (IF x.s.big THEN {"H"} ELSE {"T"})
                         ELSE {"H"} \cup (IF Eff(x.s) /\ ending \cap {"E", "N"} # {} THEN {"T"} ELSE {})),
            s |-> x.s]
      [] w = "clear" ->
           Sem(b, W, i + 1,
               IF "HookControlExported" \in Dv
               THEN [s EXCEPT !.hk = FALSE, !.mh = IF s.main THEN FALSE ELSE s.mh] ELSE s, Dv)
      [] w = "rearm" ->
           Sem(b, W, i + 1,
               IF "HookControlExported" \in Dv
               THEN [s EXCEPT !.hk = TRUE, !.mh = IF s.main THEN TRUE ELSE s.mh, !.big = TRUE] ELSE s, Dv)
      [] w = "inv" ->
           Sem(b, W, i + 1,
               IF "NestedInvokeResetsHook" \in Dv
               THEN [s EXCEPT !.hk = IF s.main THEN FALSE ELSE s.hk, !.mh = FALSE, !.big = TRUE] ELSE s, Dv)

S0 == [hk |-> TRUE, mh |-> TRUE, big |-> FALSE, main |-> TRUE]
OutcomeOf(r) == CASE r = "T" -> "aborted" [] r = "E" -> "error" [] r = "N" -> "returned" [] r = "H" -> "hung"
\* set of outcome classes the code can show for this program under these deviations
Pred(b, W, Dv) == {OutcomeOf(r) : r \in Sem(b, W, 1, S0, Dv).rs}

(* ------------------------------------------------------------------ *)
(* small-step machine                                                  *)
(* ------------------------------------------------------------------ *)
VARIABLES
  prog,      \* [body, wrap]
  status,    \* idle | running | aborted | error | returned   (what expand() sees)
  phase,     \* run | unwind | ret
  stack,     \* control stack of frames [k, d]: k = kind of the wrapper ("seq" for the transparent
             \* ones), d = its index; a catch-and-continue loop has two frames: "loop" (the loop
             \* statement) and, while an iteration runs, "lpc" (its protected call)
  err,       \* none | timeout | lua   (error being propagated)
  hooked,    \* thread -> BOOLEAN: count hook installed on that Lua thread
  limit,     \* the shared _lua_current_max_time
  budget,    \* instructions until the hook of the current thread fires
  checked,   \* the hook of the current thread has run since the last clock tick
  now,       \* os.time()
  swallowed, \* a timeout error was caught by module code
  rec,       \* recursion depth of deeprec
  spin,      \* makes an iteration of an unhooked loop a visible step
  py         \* Python side: depths of expand_stack (above the page), lua_env_stack, lua_frame_stack

vars == <<prog, status, phase, stack, err, hooked, limit, budget, checked, now, swallowed, rec, spin, py>>

W == prog.wrap
Done == {"aborted", "error", "returned"}
Threads == 0..3
Cur == Cardinality({i \in DOMAIN stack : stack[i].k \in CoKinds})
Top == stack[Len(stack)]
Depth == IF stack = <<>> THEN 0 ELSE Top.d
AtLoopLevel == stack # <<>> /\ Top.k = "loop"
InBody == status = "running" /\ phase = "run" /\ Depth = Len(W) /\ ~AtLoopLevel
PyZero == [expand |-> 0, env |-> 0, frame |-> 0]
DeadlinePassed == status = "running" /\ now > D

LTInit(P) ==
  /\ prog \in P
  /\ status = "idle" /\ phase = "run" /\ stack = <<>> /\ err = "none"
  /\ hooked = [t \in Threads |-> FALSE] /\ limit = Limit0 /\ budget = B /\ checked = FALSE
  /\ now = 0 /\ swallowed = FALSE /\ rec = 0 /\ spin = 0 /\ py = PyZero

\* call_lua_sandbox up to pcall(fn, frame) in _lua_invoke
Invoke ==
  /\ status = "idle"
  /\ status' = "running"
  /\ py' = [expand |-> 1, env |-> 1, frame |-> 1]
  /\ hooked' = [hooked EXCEPT ![0] = TRUE]
  /\ limit' = Limit0 /\ budget' \in 1..B    \* the phase of the instruction counter is not known
  /\ UNCHANGED <<prog, phase, stack, err, checked, now, swallowed, rec, spin>>

Push(k, d) == stack' = Append(stack, [k |-> k, d |-> d])

\* the wrapper code itself runs (and counts instructions) on the current thread
Enter ==
  /\ status = "running" /\ phase = "run" /\ (AtLoopLevel \/ Depth < Len(W))
  /\ hooked[Cur] => budget > 0
  /\ budget' = IF hooked[Cur] THEN budget - 1 ELSE budget
  /\ IF AtLoopLevel
     THEN Push("lpc", Depth) /\ UNCHANGED <<hooked, limit>>      \* next iteration: pcall(function() ... end)
     ELSE LET w == W[Depth + 1] d == Depth + 1 t == Cur IN
     CASE w \in {"pcall", "xpcall", "xpcallh"} ->
            Push(w, d) /\ UNCHANGED <<hooked, limit>>
       [] w \in Loops ->
            Push("loop", d) /\ UNCHANGED <<hooked, limit>>
       [] w \in CoKinds ->
            /\ Push(w, d)
            /\ hooked' = [hooked EXCEPT ![t + 1] = "CoroutineNoHook" \notin Dev]
            /\ UNCHANGED limit
       [] w = "clear" ->
            /\ Push("seq", d)
            /\ hooked' = IF "HookControlExported" \in Dev THEN [hooked EXCEPT ![t] = FALSE] ELSE hooked
            /\ UNCHANGED limit
       [] w = "rearm" ->
            /\ Push("seq", d)
            /\ hooked' = IF "HookControlExported" \in Dev THEN [hooked EXCEPT ![t] = TRUE] ELSE hooked
            /\ limit' = IF "HookControlExported" \in Dev THEN Big ELSE limit
       [] w = "inv" ->   \* the nested _lua_invoke runs on the main Lua thread
            /\ Push("seq", d)
            /\ hooked' = IF "NestedInvokeResetsHook" \in Dev THEN [hooked EXCEPT ![0] = FALSE] ELSE hooked
            /\ limit' = IF "NestedInvokeResetsHook" \in Dev THEN Big ELSE limit
  /\ UNCHANGED <<prog, status, phase, err, checked, now, swallowed, rec, spin, py>>

\* one stretch of instructions of the body
Step ==
  /\ InBody
  /\ hooked[Cur] => budget > 0
  /\ budget' = IF hooked[Cur] THEN budget - 1 ELSE budget
  /\ spin' = 1 - spin
  /\ IF prog.body = "deeprec" /\ rec + 1 >= RecMax
     THEN phase' = "unwind" /\ err' = "lua" /\ rec' = 0
     ELSE /\ rec' = IF prog.body = "deeprec" THEN rec + 1 ELSE rec
          /\ UNCHANGED <<phase, err>>
  /\ UNCHANGED <<prog, status, stack, hooked, limit, checked, now, swallowed, py>>

\* the count hook of the current thread: raises iff the deadline has passed
HookFires ==
  /\ status = "running" /\ phase = "run" /\ hooked[Cur] /\ budget = 0
  /\ IF now > limit   \* os.time() > start_time + _lua_current_max_time, start_time = 0
     THEN phase' = "unwind" /\ err' = "timeout" /\ budget' = B /\ UNCHANGED checked
     ELSE budget' = B /\ checked' = TRUE /\ UNCHANGED <<phase, err>>
  /\ UNCHANGED <<prog, status, stack, hooked, limit, now, swallowed, rec, spin, py>>

\* the clock.  Code that ends by itself ends in no time; while non-terminating code
\* runs the clock advances, and (hook period << 1 s) the hook of a hooked thread gets
\* its turn within every granule
Tick ==
  /\ now < Horizon
  /\ status = "running" /\ phase = "run" /\ NonTerminating(prog.body, W)
  /\ InBody \/ \E i \in DOMAIN stack : stack[i].k = "loop"   \* entering the wrappers takes no time
  /\ hooked[Cur] => checked
  /\ now' = now + 1 /\ checked' = FALSE
  /\ UNCHANGED <<prog, status, phase, stack, err, hooked, limit, budget, swallowed, rec, spin, py>>

Pop == stack' = SubSeq(stack, 1, Len(stack) - 1)

\* the repaired protected calls re-raise once the deadline has passed
Reraise == "PcallCatchesTimeout" \notin Dev /\ (err = "timeout" \/ now > limit)

\* call_lua_sandbox after lua_invoke returned or raised: finally-clause + pops
Finish(st) ==
  /\ status' = st
  /\ py' = PyZero
  /\ hooked' = [t \in Threads |-> FALSE]   \* _lua_clear_timeout_hook / hook inert outside invocations

Unwind ==
  /\ status = "running" /\ phase = "unwind"
  /\ IF stack = <<>>
     THEN /\ Finish(IF err = "timeout" THEN "aborted" ELSE "error")
          /\ UNCHANGED <<phase, stack, err, swallowed>>
     ELSE /\ UNCHANGED <<status, py, hooked>>
          /\ Pop
          /\ IF Top.k \in Catchers \cup {"lpc"} /\ ~Reraise
             THEN phase' = "ret" /\ err' = "none" /\ swallowed' = (swallowed \/ err = "timeout")
             ELSE /\ err' = IF Top.k \in Catchers \cup {"lpc"} THEN "timeout" ELSE err
                  /\ UNCHANGED <<phase, swallowed>>
  /\ UNCHANGED <<prog, limit, budget, checked, now, rec, spin>>

Ret ==
  /\ status = "running" /\ phase = "ret"
  /\ IF stack = <<>>
     THEN Finish("returned") /\ UNCHANGED <<phase, stack>>
     ELSE /\ UNCHANGED <<status, py, hooked>>
          /\ IF Top.k = "loop"
             THEN phase' = "run" /\ UNCHANGED stack
             ELSE Pop /\ UNCHANGED phase
  /\ UNCHANGED <<prog, err, limit, budget, checked, now, swallowed, rec, spin>>

ProgNext == Invoke \/ Enter \/ Step \/ HookFires \/ Unwind \/ Ret
LTNext == ProgNext \/ Tick
Fair == WF_vars(ProgNext) /\ WF_vars(Tick)

(* ------------------------------------------------------------------ *)
(* properties                                                          *)
(* ------------------------------------------------------------------ *)
TypeOK ==
  /\ status \in {"idle", "running"} \cup Done /\ phase \in {"run", "unwind", "ret"}
  /\ err \in {"none", "timeout", "lua"} /\ budget \in 0..B /\ now \in 0..Horizon
  /\ Len(stack) <= 2 * Len(W)

\* the in-band result is one the big-step semantics predicts for these deviations
OutcomeMatches ==
  LET p == Pred(prog.body, W, Dev) IN
  /\ status \in Done => status \in p
  /\ p = {"hung"} => status \notin Done

\* C07, liveness part: once the deadline has passed the invocation ends ...
AbortedAfterDeadline == DeadlinePassed ~> (status \in Done)
\* ... code that ends by itself does end
TerminatingEnds == (status = "idle" /\ Pred(prog.body, W, Dev) \subseteq {"error", "returned"}) ~> (status \in Done)
\* ... a raised timeout is never turned into a normal result
TimeoutNotSwallowed == status = "returned" => ~swallowed
\* ... and it ends within one clock granule (+ one hook period) after the limit
BoundedOverrun == status = "running" => now <= D + 1
\* after the invocation, whatever its result, the context is as before it
CtxRestored == status \in Done => py = PyZero /\ \A t \in Threads : ~hooked[t]
\* (reachability probe, expected to FAIL in Demo_LuaTimeout_loop_escape: with the host pcall a
\* catch-and-continue loop over deeprec can still be left when the hook fires in the loop statement)
NeverAborted == status # "aborted"
\* with no deviation every program of the grammar gets what the property demands
IdealMeetsDemand == Pred(prog.body, W, {}) = {Demand(prog.body, W)}
=============================================================================
