SPECIFICATION SGSpec
CONSTANTS
  Objs <- D_Objs
  Names <- D_Names
  Facts <- D_Facts
  Writable <- D_Writable
  Modes <- D_Modes
  Bounds <- D_Bounds
  MaxLen = 2
  Dev <- DevMemoObject
INVARIANT GateConfined
CHECK_DEADLOCK FALSE
