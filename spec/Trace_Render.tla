---------------------------- MODULE Trace_Render ----------------------------
(* Validates recorded calls of the real node_to_wikitext(handler) /           *)
(* node_to_html / node_to_text against Render.tla.  TRACE_FILE is a JSON      *)
(* object                                                                      *)
(*   known : open deviations of Transclusion.tla (the as-is expansion)        *)
(*   cov   : BOOLEAN, also collect which substitutions change a text          *)
(*   recs  : [x, h, lib, handled, html, htmlc, textc]                         *)
(*           x       the value passed: an abstract tree of harness/ptree2.py  *)
(*                   (dumped from the REAL parse tree), a string child or a   *)
(*                   wrapped list                                             *)
(*           h       name of the node_handler_fn of the family of Render.tla  *)
(*           lib     the template library installed (Transclusion syntax)     *)
(*           handled, html    the strings returned by node_to_wikitext(x, h)  *)
(*                   and node_to_html(x, h), as strings                       *)
(*           htmlc, textc     node_to_html / node_to_text output character by *)
(*                   character ("SP" / "NL" for blank / newline)              *)
(* Per record TLC decides three clauses                                       *)
(*   handled  Glue(Handled(x, h)) = handled                                   *)
(*   html     Readable(..) => Glue(ToHtml(x, h, lib, known)) = html           *)
(*   text     ToText(htmlc) = textc      (the rewriting system on the html    *)
(*            the real code produced, whatever the model thinks of that html) *)
EXTENDS Render, Json, IOUtils

Batch == JsonDeserialize(IOEnv.TRACE_FILE)
Known == {Batch.known[i] : i \in 1..Len(Batch.known)}
Recs == Batch.recs

Sym(a) == IF a = "SP" THEN " " ELSE IF a = "NL" THEN "\n" ELSE a
\* the string an atom sequence spells (balanced concatenation: short intermediate strings)
RECURSIVE GlueR(_, _, _)
GlueR(s, lo, hi) == IF lo > hi THEN "" ELSE IF lo = hi THEN Sym(s[lo])
                    ELSE GlueR(s, lo, (lo + hi) \div 2) \o GlueR(s, (lo + hi) \div 2 + 1, hi)
Glue(s) == GlueR(s, 1, Len(s))

Miss(k, clause, e) == <<[i |-> k, clause |-> clause, expected |-> e]>>
ClHandled(r, k, xs) ==
  \* (CHOOSE over a singleton: the expected text is computed once)
  CHOOSE v \in {IF Glue(e) = r.handled THEN <<>> ELSE Miss(k, "handled", e) : e \in {U!UnparseList(xs, {})}} : TRUE
ClHtml(r, k, xs) ==
  IF ~Readable(xs) THEN <<>>
  ELSE CHOOSE v \in {IF Glue(e) = r.html THEN <<>> ELSE Miss(k, "html", e) :
                       e \in {Chars(T!Expand(Lower(xs), r.lib, Known))}} : TRUE
ClText(r, k) ==
  CHOOSE v \in {IF e = r.textc THEN <<>> ELSE Miss(k, "text", e) : e \in {ToText(r.htmlc)}} : TRUE
Judge(r, k) ==
  CHOOSE v \in {ClHandled(r, k, xs) \o ClHtml(r, k, xs) \o ClText(r, k) : xs \in {Applied(r.x, r.h)}} : TRUE

VARIABLES i, bad, readable, fired
Init == i = 1 /\ bad = <<>> /\ readable = 0 /\ fired = {}
Next ==
  /\ i <= Len(Recs)
  /\ bad' = bad \o Judge(Recs[i], i)
  /\ readable' = readable + (IF Readable(Applied(Recs[i].x, Recs[i].h)) THEN 1 ELSE 0)
  /\ fired' = IF Batch.cov THEN fired \cup Fired(Recs[i].htmlc) ELSE fired
  /\ i' = i + 1
Spec == Init /\ [][Next]_<<i, bad, readable, fired>>
Verdict == (i = Len(Recs) + 1) =>
  PrintT(<<"VERDICT", ToJson([consumed |-> i - 1, readable |-> readable, fired |-> fired, bad |-> bad])>>)
=============================================================================
