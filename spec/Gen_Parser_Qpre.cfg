SPECIFICATION Spec
CONSTANTS
  Universe = "pre"
  MaxLen = 3
INVARIANT MachineOK
CHECK_DEADLOCK FALSE
