SPECIFICATION Spec
CONSTANTS
  Universe = "O"
  MaxLines = 4
INVARIANT MachineOK
CHECK_DEADLOCK FALSE
