SPECIFICATION GSpec
CONSTANTS
  PfxNs <- T_PfxNs
  CanonPfx <- T_CanonPfx
  UpperOf <- T_UpperOf
  ArgU <- NoArgs
  Dev <- DevIdeal
  TplNs = 10
  MaxN = 3
  MaxRedirects = 3
  Combos <- CombosQ
  HistKinds <- KindsQ
  Parts = 1
  Part = 0
  MaxLen = 0
INVARIANT GenInv
CHECK_DEADLOCK FALSE
