-------------------------- MODULE Trace_SandboxGate --------------------------
(* Replays recorded lookup histories of the REAL bridge through the model.  *)
(* TRACE_FILE: the universe (as for Gen_SandboxGate) plus                   *)
(*   "histories": [ [ {o, n, m, b, r, cls}, ... ], ... ]                    *)
(* one inner list per fresh runtime: every lookup a driver module made, in  *)
(* order, with the observed answer (r, cls).                                *)
(* bad:   a lookup handed out a forbidden value that the design does not    *)
(*        hand out (what the property states)                               *)
(* drift: any other difference between observed and predicted answer        *)
(* explained: labels of the modelled deviations that predict exactly the    *)
(*        observed answers of a bad history                                 *)
EXTENDS SandboxGate, Json, IOUtils

U == JsonDeserialize(IOEnv.TRACE_FILE)
Range0(s) == {s[i] : i \in DOMAIN s}
L_Objs == Range0(U.objs)
L_Names == Range0(U.names)
L_Facts == Range0(U.facts)
L_Writable == Range0(U.writable)
L_Modes == Range0(U.modes)
L_Bounds == Range0(U.bounds)
L_MaxLen == U.maxlen
NoDev == {}
Histories == U.histories

DevLabels == {"MemoByName", "MemoByObject", "MemoByName+MemoPerInvocation", "MemoByObject+MemoPerInvocation"}
DevOf(l) == CASE l = "MemoByName" -> {"MemoByName"}
              [] l = "MemoByObject" -> {"MemoByObject"}
              [] l = "MemoByName+MemoPerInvocation" -> {"MemoByName", "MemoPerInvocation"}
              [] l = "MemoByObject+MemoPerInvocation" -> {"MemoByObject", "MemoPerInvocation"}

VARIABLES l, bad, drift
tvars == <<l, bad, drift, gst, hist>>

AskOf(e) == [o |-> e.o, n |-> e.n, m |-> e.m, b |-> e.b]
ObsOf(e) == [r |-> e.r, cls |-> e.cls]

TInit == l = 1 /\ bad = <<>> /\ drift = <<>> /\ SGInit
TNext ==
  /\ l <= Len(Histories)
  /\ LET h == Histories[l]
         asks == [i \in DOMAIN h |-> AskOf(h[i])]
         obs == [i \in DOMAIN h |-> ObsOf(h[i])]
         exp == Run(NoDev, asks)
         leaks == {i \in DOMAIN h : Leak(obs[i]) /\ obs[i] # exp[i]}
         diffs == {i \in DOMAIN h : obs[i] # exp[i]}
     IN /\ bad' = IF leaks = {} THEN bad
                  ELSE Append(bad, [h |-> l, at |-> leaks, expected |-> exp,
                                    explained |-> {d \in DevLabels : Run(DevOf(d), asks) = obs}])
        /\ drift' = IF diffs = {} \/ leaks # {} THEN drift
                    ELSE Append(drift, [h |-> l, at |-> diffs, expected |-> exp])
  /\ l' = l + 1
  /\ UNCHANGED <<gst, hist>>
TSpec == TInit /\ [][TNext]_tvars
TraceVerdict == (l = Len(Histories) + 1) =>
             PrintT(<<"VERDICT", ToJson([consumed |-> l - 1, bad |-> bad, drift |-> drift])>>)
Accepted == TLCGet("stats").diameter = Len(Histories) + 1
=============================================================================
