SPECIFICATION Spec
CONSTANTS
  MaxTok = 0
  MaxSeg = 3
  Mode = "segs"
INVARIANT GenInv
CHECK_DEADLOCK FALSE
