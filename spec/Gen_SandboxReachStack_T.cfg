SPECIFICATION STSpec
CONSTANTS
  Entries <- K_Entries
  Shapes <- K_ShapesT4
  Bounds <- K_BoundsAll
  MaxLen = 3
  MaxLoads = 2
  Dev <- KDevIdeal
  Contexts <- K_Contexts
  Manips <- K_ManipsT
INVARIANT GenInvS
CHECK_DEADLOCK FALSE
