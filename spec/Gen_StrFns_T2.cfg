SPECIFICATION Spec
CONSTANTS
  LowerOf <- T_Lower
  UpperOf <- T_Upper
  Dev <- DevIdeal
  Alpha <- Alpha2
  MaxS = 8
  MaxLong = 8
  Offs <- OffsT
  Needles <- NeedlesQ
  Fns <- FnsAll
  Spell <- NoSpell
INVARIANT Emit
CHECK_DEADLOCK FALSE
