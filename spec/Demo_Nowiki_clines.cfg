\* TLC itself finds a line layout in which a comment removed by the mistaken rule "lines" contributes to the text
SPECIFICATION Spec
CONSTANTS
  MaxTok = 1
  Mode = "comment"
  Depth = 0
  DeepAll = FALSE
  FinRule = "lines"
INVARIANT GenInv
CHECK_DEADLOCK FALSE
