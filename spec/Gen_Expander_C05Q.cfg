SPECIFICATION Spec
CONSTANTS
  Universe = "C05Q"
  Known <- KnownExp
  DepthLimit = 100
  PreBody <- ThePreBody
  LogEvents = FALSE
INVARIANT GenInv
CHECK_DEADLOCK FALSE
