SPECIFICATION Spec
CONSTANTS
  Universe = "C05Q"
  Known <- NoDev
  DepthLimit = 100
  PreBody <- ThePreBody
  LogEvents = FALSE
INVARIANT GenInv
CHECK_DEADLOCK FALSE
