SPECIFICATION Spec
CONSTANTS
  Dev <- DevXh
  B = 3
  RecMax = 1
  Bodies <- BodiesTight
  Kinds <- KindsAll
  MaxDepth = 1
  Progs <- P_xhe
PROPERTY AbortedAfterDeadline
CHECK_DEADLOCK FALSE
