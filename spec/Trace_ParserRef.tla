--------------------------- MODULE Trace_ParserRef ---------------------------
(* C02, V direction: validates recorded (document, relations extracted from  *)
(* the real parse tree) pairs against the declarative nesting model.  The     *)
(* batch (env TRACE_FILE) is a JSON array of [doc, obs]; obs has the shape   *)
(* of RefRelations(doc).  A mismatch is also compared with the as-is machine *)
(* (all deviation switches on) so that the harness can classify it.  Lines    *)
(* may carry a structured filler (fields s, z: ParserRefDoc); the model       *)
(* demands the relations of the document without it.  A document with a       *)
(* construct that spans lines (field o / lines X, C; round 8) is compared     *)
(* with the machine's relations; the bad record carries what the statement    *)
(* accepts (acc: both readings of the construct) and whether the observation  *)
(* is the machine's whose </pre> does not leave pre mode (mode).              *)
EXTENDS ParserRefDoc, Json, IOUtils

Cases == JsonDeserialize(IOEnv.TRACE_FILE)

VARIABLES i, bad
Init == i = 1 /\ bad = <<>>
Next ==
  /\ i <= Len(Cases)
  /\ \E c \in { Cases[i] } :
     \E ref \in { IF HasSpan(c.doc) THEN MachineRelations(c.doc, {}) ELSE RefRelations(Plain(c.doc)) } :
       bad' = IF c.obs = ref THEN bad
              ELSE Append(bad, [i |-> i, expected |-> ref, asis |-> (c.obs = MachineRelations(c.doc, AllDevs)),
                                acc |-> RefAccept(Plain(c.doc)),
                                \* is it the machine whose </pre> leaves pre mode only together with a PRE node?
                                mode |-> (HasSpan(c.doc) /\ c.obs = MachineRelations(c.doc, SpanDevs)),
                                \* documents with a structured filler: is it the flag-instead-of-counter machine?
                                flag |-> ((\E j \in 1..Len(c.doc) : HasS(c.doc[j]))
                                          /\ c.obs = MachineRelations(c.doc, ModelDevs)),
                                \* is it the machine whose heading loop needs an open section?
                                nest |-> (c.obs = MachineRelations(c.doc, NestDevs))])
  /\ i' = i + 1
Spec == Init /\ [][Next]_<<i, bad>>
Verdict == (i = Len(Cases) + 1) => PrintT(<<"VERDICT", ToJson([consumed |-> i - 1, bad |-> bad])>>)
=============================================================================
