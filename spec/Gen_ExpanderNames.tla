------------------------- MODULE Gen_ExpanderNames -------------------------
(* C16: the FORM OF THE CALLED NAME.  The other universes of the expander twin *)
(* call templates by the plain name of a Template-namespace page.  A call can  *)
(* be written in many more forms, and the code treats the name in several      *)
(* steps between the push of the path entry and its pop (core.py, template     *)
(* branch of expand_recurse): the written name is expanded and stripped        *)
(* (tname.strip()), the entry "Template:" + name is pushed, the name is looked  *)
(* up for selection (check_template_need_expand: Template namespace only), and  *)
(* on the default path a leading colon is removed and the namespace worked out *)
(* ({{:Page}} = main-namespace page, {{:Ns:Title}}, {{Ns:Title}}); get_page     *)
(* folds underscores, the first-letter case and the namespace-prefix case;     *)
(* redirects are followed one hop.  Whatever the form: ONE entry is pushed and  *)
(* ONE entry is popped (law StackRestoredR), also when the page is missing, a   *)
(* redirect, called twice side by side, inside an argument or inside a body.   *)
(*                                                                            *)
(* A form is [w: the name as written, n: the name the code holds when it pushes *)
(* the entry (stripped), pg: key of the stored page it resolves to ("" = goes   *)
(* nowhere), sel: check_template_need_expand finds a FLAGGED page for it, shown: the *)
(* name in the link left for a missing page].  The twin (Expander.tla, not      *)
(* changed) is run on the page with the names n and a library that maps every   *)
(* n to the body of its page; the case is printed with the names w, the page    *)
(* store to install, and the predicted output in which re-emitted calls carry   *)
(* w and missing-page links carry `shown`.                                     *)
EXTENDS Gen_Expander

CONSTANT Tier

(* ---------------- the page store ---------------- *)
MpBody == Plain(<<Txt(<<"m">>), ParD(<<"1">>, <<>>), Call("T1", <<Pos(<<Txt(<<"k">>)>>)>>)>>)     \* main-namespace page Mp
AxBody == Plain(<<Txt(<<"ax">>), ParD(<<"1">>, <<>>)>>)                                        \* Appendix:Ax
MyBody == Plain(<<Txt(<<"my">>)>>)                                                            \* Template:My tpl
WbBody == Plain(<<Txt(<<"<">>), Call(":Mp", <<>>), Txt(<<"+">>), Call("Appendix:Ax", <<>>), Txt(<<">">>)>>)   \* call site in a body
BodyOf == [Mp |-> MpBody, Ax |-> AxBody, T1 |-> T1Show, My |-> MyBody, Wb |-> WbBody]
StorePg(title, ns, key, need) == [title |-> title, ns |-> ns, body |-> BodyOf[key], redirect |-> "", need |-> need]
Rd(title, ns, to) == [title |-> title, ns |-> ns, body |-> <<>>, redirect |-> to, need |-> FALSE]
Store == << StorePg("Mp", 0, "Mp", TRUE), StorePg("Appendix:Ax", 100, "Ax", FALSE), StorePg("Template:T1", 10, "T1", TRUE),
            StorePg("Template:My tpl", 10, "My", FALSE), StorePg("Template:Wb", 10, "Wb", FALSE),
            Rd("Rd", 0, "Mp"), Rd("Template:R1", 10, "Template:T1"), Rd("Appendix:Ar", 100, "Appendix:Ax") >>

(* ---------------- name forms ---------------- *)
F(w, n, pg, sel, shown) == [w |-> w, n |-> n, pg |-> pg, sel |-> sel, shown |-> shown]
Same(w, pg, sel) == F(w, w, pg, sel, w)
Forms == <<
  Same("T1", "T1", TRUE),                         \* 1  plain name (control)
  Same(":Mp", "Mp", FALSE),                       \* 2  {{:Page}}: main namespace
  Same("Template:T1", "T1", TRUE),                \* 3  explicit namespace
  Same(":Template:T1", "T1", FALSE),              \* 4  colon + namespace
  Same("Appendix:Ax", "Ax", FALSE),               \* 5  another namespace
  Same(":Appendix:Ax", "Ax", FALSE),              \* 6
  Same("t1", "T1", TRUE),                         \* 7  first-letter case
  Same("template:T1", "T1", TRUE),                \* 8  namespace-prefix case
  Same("My tpl", "My", FALSE),                     \* 9  blank in the title
  Same("My_tpl", "My", FALSE),                     \* 10 underscore for the blank
  Same("my_tpl", "My", FALSE),                     \* 11
  Same(":Template:My_tpl", "My", FALSE),          \* 12
  F(" T1 ", "T1", "T1", TRUE, "T1"),              \* 13 blanks around the name
  F("T1\n", "T1", "T1", TRUE, "T1"),              \* 14 trailing newline
  F(" :Mp ", ":Mp", "Mp", FALSE, "Mp"),           \* 15
  Same(":Main:Mp", "Mp", FALSE),                  \* 16 "Main:" prefix
  F(":Nope", ":Nope", "", FALSE, "Nope"),         \* 17 missing page, colon form
  Same("Appendix:Nope", "", FALSE),               \* 18 missing page in another namespace
  F(":mp", ":mp", "", FALSE, "mp"),               \* 19 the main namespace does not fold the first letter
  Same(":Rd", "Mp", FALSE),                       \* 20 redirect in the main namespace
  Same("R1", "T1", FALSE),                        \* 21 redirect in the Template namespace
  Same("Appendix:Ar", "Ax", FALSE),               \* 22 redirect in another namespace
  Same(":Appendix:Ar", "Ax", FALSE),              \* 23
  Same("Wb", "Wb", FALSE) >>                       \* 24 colon / namespace calls inside a body
NF == Len(Forms)
Colon == {2, 4, 6, 12, 15, 16, 17, 19, 20, 23}

\* the twin's library: every name n with a page -> the body of that page
LibN == [nm \in {Forms[i].n : i \in {j \in 1..NF : Forms[j].pg # ""}} |-> BodyOf[Forms[CHOOSE i \in 1..NF : Forms[i].n = nm].pg]]
\* names selected for pre-expansion by the need_pre_expand flag: check_template_need_expand looks the name up in the
\* Template namespace only (no colon / other namespace: Template::Mp is no page) and does not follow a redirect
NeedN == {Forms[i].n : i \in {j \in 1..NF : Forms[j].sel}}

(* ---------------- pages ---------------- *)
\* a page shape is built twice: with the written names (s = "w") and with the names the twin sees (s = "n")
Nm(i, s) == IF s = "w" THEN Forms[i].w ELSE Forms[i].n
Once(i, s) == <<Call(Nm(i, s), <<>>)>>
Twice(i, s) == <<Txt(<<"a", "SP">>), Call(Nm(i, s), <<>>), Txt(<<"SP">>), Call(Nm(i, s), <<Pos(<<Txt(<<"q">>)>>)>>), Txt(<<"SP", "b">>)>>
InArg(i, s) == <<Call("T1", <<Pos(<<Call(Nm(i, s), <<>>)>>), Named(<<"x">>, <<Call(Nm(i, s), <<>>)>>)>>)>>
InIf(i, s) == <<If(<<Call(Nm(i, s), <<>>)>>, <<Call(Nm(i, s), <<>>)>>, <<Txt(<<"n">>)>>)>>
Mixed(is, s) == <<Call(Nm(is[1], s), <<>>), Txt(<<",">>), Call(Nm(is[2], s), <<Pos(<<Call(Nm(is[3], s), <<>>)>>)>>), Txt(<<",">>), Call(Nm(is[1], s), <<>>)>>
Shapes ==
  { [sh |-> "once", is |-> <<i>>] : i \in 1..NF }
  \cup { [sh |-> "twice", is |-> <<i>>] : i \in (IF Tier = "quick" THEN Colon \cup {3, 5, 13, 21, 24} ELSE 1..NF) }
  \cup { [sh |-> "arg", is |-> <<i>>] : i \in (IF Tier = "quick" THEN {2, 6, 17, 20} ELSE Colon \cup {3, 5, 10, 18, 22}) }
  \cup { [sh |-> "if", is |-> <<i>>] : i \in (IF Tier = "quick" THEN {2, 5} ELSE {2, 4, 5, 6, 17, 20}) }
  \cup { [sh |-> "mixed", is |-> t] : t \in {<<2, 5, 6>>, <<20, 3, 17>>, <<13, 2, 10>>} }
PageOf(x, s) == CASE x.sh = "once" -> Once(x.is[1], s) [] x.sh = "twice" -> Twice(x.is[1], s) [] x.sh = "arg" -> InArg(x.is[1], s)
                  [] x.sh = "if" -> InIf(x.is[1], s) [] x.sh = "mixed" -> Mixed(x.is, s)

CasesN == { [lib |-> LibN, need |-> NeedN, page |-> PageOf(x, "w"), tpage |-> PageOf(x, "n"), o |-> o, enw |-> TRUE, shape |-> x] :
              x \in Shapes, o \in Opts16 }
InitN == case \in CasesN
SpecN == InitN /\ [][Next]_case

(* ---------------- the twin's output, with the names as the code shows them ---------------- *)
\* a call that is left unexpanded comes back as written (w); the link left for a missing page carries the name
\* after the colon was removed (shown)
FormsOf(x) == {x.is[j] : j \in 1..Len(x.is)}
ShowAt(out, i, x) ==
  IF i > 1 /\ out[i - 1] = "{{" /\ \E j \in FormsOf(x) : Forms[j].n = out[i]
  THEN Forms[CHOOSE j \in FormsOf(x) : Forms[j].n = out[i]].w
  ELSE IF i > 1 /\ out[i - 1] = "[[:Template:" /\ \E j \in 1..NF : Forms[j].n = out[i]
  THEN Forms[CHOOSE j \in 1..NF : Forms[j].n = out[i]].shown
  ELSE out[i]
Shown(out, x) == [i \in 1..Len(out) |-> ShowAt(out, i, x)]

RunN(c) == ExpandCall(c.tpage, PageStack, XOf(c, {}))
\* every form really pushes its entry when everything is expanded (vacuity guard of the family)
FormPushesR(r) == (~case.o.pre) => \A j \in FormsOf(case.shape) : \E e \in 1..Len(r.st.ev) : r.st.ev[e] = "+tmpl:" \o Forms[j].n
EmitN(r) ==
  PrintT(<<"CASE", ToJson([lib |-> case.lib, need |-> case.need, page |-> case.page, o |-> case.o, enw |-> case.enw,
                           out |-> Shown(r.out, case.shape), stack |-> r.st.stack, msgs |-> r.st.msgs, hooks |-> r.st.hooks, ev |-> r.st.ev,
                           asis_out |-> Shown(r.out, case.shape), asis_stack |-> r.st.stack,
                           store |-> Store, shape |-> case.shape.sh,
                           forms |-> [j \in 1..Len(case.shape.is) |-> Forms[case.shape.is[j]]]])>>)
GenInvN == LET r == RunN(case) IN LawsR(r) /\ FormPushesR(r) /\ EmitN(r)
=============================================================================
