SPECIFICATION Spec
CONSTANTS
  Universe = "html"
  MaxLen = 4
INVARIANT MachineOK
CHECK_DEADLOCK FALSE
