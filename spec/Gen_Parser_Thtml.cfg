SPECIFICATION Spec
CONSTANTS
  Universe = "htmlT"
  MaxLen = 4
INVARIANT MachineOK
CHECK_DEADLOCK FALSE
