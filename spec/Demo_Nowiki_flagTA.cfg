\* TLC itself finds a nested context in which the mistaken finalize loop "flagTA" leaves a placeholder
SPECIFICATION Spec
CONSTANTS
  MaxTok = 0
  Mode = "nested"
  Depth = 3
  DeepAll = FALSE
  FinRule = "flagTA"
INVARIANT GenInv
CHECK_DEADLOCK FALSE
