SPECIFICATION Spec
CONSTANTS
  MaxTok = 0
  Mode = "nested"
  Depth = 2
INVARIANT GenInv
CHECK_DEADLOCK FALSE
