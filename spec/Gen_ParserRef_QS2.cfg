SPECIFICATION Spec
CONSTANTS
  Universe = "S2"
  MaxLines = 3
INVARIANT MachineOK
CHECK_DEADLOCK FALSE
