------------------------ MODULE Trace_ContextInvoke ------------------------
(* V direction for the invocation-level histories of C09: random longer       *)
(* histories of #invoke kinds (with page breaks) are run on a long-lived real  *)
(* context; one event per invocation (kind + the observed outcome, abstracted  *)
(* by the harness to the record shape of ContextInvoke!Out) is recorded and    *)
(* replayed here: TLC computes the demanded outcomes and reports the events    *)
(* that differ, and whether the as-coded model with the deviation              *)
(* EnvKeptOnAbort reproduces the recorded history exactly.                     *)
EXTENDS Naturals, Sequences, FiniteSets, TLC, Json, IOUtils
NoDev == {}
DevKept == {"EnvKeptOnAbort"}
Ideal == INSTANCE ContextInvoke WITH Dev <- NoDev
Kept == INSTANCE ContextInvoke WITH Dev <- DevKept
DevAsIs == {"LoadDataTableMutableWithinPage"}
AsIs == INSTANCE ContextInvoke WITH Dev <- DevAsIs
Hists == JsonDeserialize(IOEnv.TRACE_FILE)
KindsOf(h) == [i \in 1..Len(h) |-> h[i].k]
VARIABLE n
TInit == n = 1
TNext == n <= Len(Hists) /\ n' = n + 1
TSpec == TInit /\ [][TNext]_n
Verdict(i) ==
  LET h == Hists[i]
      ks == KindsOf(h)
  IN \E exp \in {Ideal!Outcomes(ks)} : \E kp \in {Kept!Outcomes(ks)} :
       PrintT(<<"CASE", ToJson([i |-> i, bad |-> {j \in 1..Len(h) : h[j] # exp[j]}, exp |-> exp, asis |-> AsIs!Outcomes(ks),
                                 law |-> Ideal!MeetsDemand(ks), keptExplains |-> (kp = h /\ kp # exp)])>>)
Emit == (n <= Len(Hists)) => Verdict(n)
=============================================================================
