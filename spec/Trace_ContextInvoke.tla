------------------------ MODULE Trace_ContextInvoke ------------------------
(* V direction for the invocation-level histories of C09: random longer       *)
(* histories of #invoke kinds (with page breaks) are run on a long-lived real  *)
(* context; one event per invocation (kind + the observed outcome, abstracted  *)
(* by the harness to the record shape of ContextInvoke!Out) is recorded and    *)
(* replayed here: TLC computes the demanded outcomes and reports the events    *)
(* that differ, and whether the as-coded model with the deviation              *)
(* EnvKeptOnAbort reproduces the recorded history exactly.                     *)
(* Round 7: the file also holds recorded NEST CASES (top-level invocations,    *)
(* one invocation of the driver running a random program of nested             *)
(* invocations, top-level invocations; one record per step); TLC computes the  *)
(* demanded outcome of every step, the as-is outcome and the outcome of the    *)
(* model in which a nested invocation runs in its caller's environment.        *)
EXTENDS Naturals, Sequences, FiniteSets, TLC, Json, IOUtils
NoDev == {}
DevKept == {"EnvKeptOnAbort", "NestedInvokeSharesLoadedModules"}    \* on top of the code as it is
Ideal == INSTANCE ContextInvoke WITH Dev <- NoDev
Kept == INSTANCE ContextInvoke WITH Dev <- DevKept
DevAsIs == {"LoadDataTableMutableWithinPage", "NestedInvokeSharesLoadedModules", "ContentLanguageObjectShared"}
AsIs == INSTANCE ContextInvoke WITH Dev <- DevAsIs
DevObjMemo == DevAsIs \cup {"HandedOutObjectsMemoised"}      \* (round 9) class of a seeded change
ObjMemo == INSTANCE ContextInvoke WITH Dev <- DevObjMemo
DevShared == DevAsIs \cup {"NestedSharesCallerEnv"}
Shared == INSTANCE ContextInvoke WITH Dev <- DevShared
KeptLim == INSTANCE ContextInvoke WITH Dev <- {"TimeLimitKept"}
Data == JsonDeserialize(IOEnv.TRACE_FILE)
Hists == Data.hists
Progs == Data.progs       \* [case |-> [pre, prog, post], got |-> [pre, prog, post]]
KindsOf(h) == [i \in 1..Len(h) |-> h[i].k]
VARIABLE n
TInit == n = 1
TNext == n <= Len(Hists) + Len(Progs) /\ n' = n + 1
TSpec == TInit /\ [][TNext]_n
Verdict(i) ==
  LET h == Hists[i]
      ks == KindsOf(h)
  IN \E exp \in {Ideal!Outcomes(ks)} : \E kp \in {Kept!Outcomes(ks)} : \E kl \in {KeptLim!Outcomes(ks)} : \E om \in {ObjMemo!Outcomes(ks)} :
       PrintT(<<"CASE", ToJson([i |-> i, bad |-> {j \in 1..Len(h) : h[j] # exp[j]}, exp |-> exp, asis |-> AsIs!Outcomes(ks),
                                 law |-> Ideal!MeetsDemand(ks), keptExplains |-> (kp = h /\ kp # exp),
                                 limKeptExplains |-> (kl = h /\ kl # exp), limkept |-> kl,
                                 objMemoExplains |-> (om = h /\ om # AsIs!Outcomes(ks))])>>)
NVerdict(j) ==
  LET c == Progs[j].case
      got == Progs[j].got
  IN \E exp \in {Ideal!CaseOutcomes(c)} : \E ai \in {AsIs!CaseOutcomes(c)} : \E sh \in {Shared!CaseOutcomes(c)} :
       PrintT(<<"NCASE", ToJson([i |-> j, ok |-> (got = exp), exp |-> exp, asis |-> ai, shared |-> sh,
                                  law |-> Ideal!CaseMeetsDemand(c), asisExplains |-> (got = ai /\ ai # exp),
                                  sharedExplains |-> (got = sh /\ sh # ai)])>>)
Emit == IF n <= Len(Hists) THEN Verdict(n) ELSE (n <= Len(Hists) + Len(Progs)) => NVerdict(n - Len(Hists))
=============================================================================
