SPECIFICATION Spec
CONSTANTS
  Dev <- DevIdeal
  Known <- FileKnown
  Names <- FileNames
INVARIANT Emit
CHECK_DEADLOCK FALSE
