SPECIFICATION Spec
CONSTANTS
  Dev <- DevIdeal
  Known <- FileKnown
  Names <- FileNames
  Sites <- FileSites
  NsFns <- FileNsFns
INVARIANT Emit
CHECK_DEADLOCK FALSE
