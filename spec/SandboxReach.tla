--------------------------- MODULE SandboxReach ---------------------------
(* Confinement of Lua code run through #invoke (property C06) as an        *)
(* object-capability reachability problem.                                  *)
(*                                                                          *)
(* The attacker is an arbitrary Lua module.  All it can ever do is use      *)
(* references it already holds to obtain further references: read a table   *)
(* field, ask for a metatable, call a function that hands out a reference   *)
(* (require, the module cache, loaders, frame getters), read an attribute   *)
(* or item of a Python object through the bridge.  Each such possibility is *)
(* one edge  src --label--> dst  of the object graph; an edge may need      *)
(* further references (req), e.g. the metatable edge needs getmetatable.    *)
(*                                                                          *)
(* The graph is a CONSTANT: for the design-level instance it is written by  *)
(* hand from the sandbox sources (MC_SandboxReach), for the conformance run *)
(* it is the edge relation extracted from the live sandbox of the working   *)
(* tree (Gen_SandboxReach reads it with JsonDeserialize), so that the model *)
(* IS the live object graph.                                                *)
EXTENDS Naturals, Sequences, FiniteSets, TLC

CONSTANTS
  Edges,      \* sequence of records [src, dst, label, req]  (req = sequence of nodes)
  Init0,      \* the references a module receives: environment, frame, string values
  Forbidden   \* host capabilities (io/os/package/debug, _G, load*, the bridge, Python objects)

VARIABLES
  held,       \* set of references the attacker holds
  layers      \* layers[k] = held after k-1 saturation rounds (history, for shortest paths)

srvars == <<held, layers>>

Range(s) == {s[i] : i \in DOMAIN s}

\* edge i can be followed by somebody holding the references H
Usable(i, H) == Edges[i].src \in H /\ Range(Edges[i].req) \subseteq H

Succ(H) == {Edges[i].dst : i \in {j \in DOMAIN Edges : Usable(j, H)}}

SRInit == held = Init0 /\ layers = <<Init0>>

(* the attacker's atomic move: follow ONE usable edge *)
FollowOne ==
  \E i \in DOMAIN Edges :
    /\ Usable(i, held)
    /\ Edges[i].dst \notin held
    /\ held' = held \cup {Edges[i].dst}
    /\ UNCHANGED layers   \* (history only kept by the saturating step: every order = one state per held set)

(* all moves that are possible now, at once (held is monotone, so the       *)
(* reachable references are the same; the search depth becomes the graph    *)
(* depth instead of the number of nodes)                                    *)
Saturate ==
  /\ ~(Succ(held) \subseteq held)
  /\ held' = held \cup Succ(held)
  /\ layers' = Append(layers, held')

SpecOne == SRInit /\ [][FollowOne]_srvars
SpecSat == SRInit /\ [][Saturate]_srvars

(* ------------------------------------------------------------------ *)
(* the property                                                        *)
(* ------------------------------------------------------------------ *)
Confined == held \cap Forbidden = {}

(* declarative reference: least fixed point of Succ above Init0 *)
RECURSIVE Closure(_)
Closure(H) == LET N == H \cup Succ(H) IN IF N = H THEN H ELSE Closure(N)

Saturated == Succ(held) \subseteq held

\* whatever order the attacker chooses, it never leaves the closure and ends in it
WithinClosure == held \subseteq Closure(Init0)
EndsInClosure == Saturated => held = Closure(Init0)

(* ------------------------------------------------------------------ *)
(* witness paths (shortest in number of saturation rounds)             *)
(* ------------------------------------------------------------------ *)
LayerOf(n) == CHOOSE k \in DOMAIN layers : n \in layers[k] /\ (k = 1 \/ n \notin layers[k - 1])

RECURSIVE PathTo(_)
PathTo(n) ==
  LET k == LayerOf(n) IN
  IF k = 1 THEN <<>>
  ELSE LET i == CHOOSE j \in DOMAIN Edges : Edges[j].dst = n /\ Usable(j, layers[k - 1])
       IN Append(PathTo(Edges[i].src), i)
=============================================================================
