SPECIFICATION GSpec
CONSTANTS
  Starts <- StartsBase
  Dev <- DevWal
  MaxRuns = 2
  FlowDef <- FlowsLib
INVARIANT GenInv
CHECK_DEADLOCK FALSE
