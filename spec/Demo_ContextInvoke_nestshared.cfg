SPECIFICATION Spec
CONSTANTS
  Tier = "quick"
INVARIANT DemoNestShared
CHECK_DEADLOCK FALSE
