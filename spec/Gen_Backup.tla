---------------------------- MODULE Gen_Backup ----------------------------
(* Behaviour generation for Backup: the history of process runs is part of *)
(* the state, so every reachable idle state is one behaviour              *)
(* (flow, crash step) x (flow, crash step) ...; each is emitted as JSON    *)
(* with the file state predicted after every run and the content the       *)
(* specification predicts for a new open of the database path.             *)
EXTENDS MC_Backup, Json

VARIABLES hist, cur
gvars == <<s, pc, todo, runs, nw, fresh, hist, cur>>

GInit == Init /\ hist = <<>> /\ cur = "-"

\* started = number of calls of the flow that had been started when the process ended (the harness
\* knows the same number for a real run from its progress marks: a coarse, model-independent position)
Ended(stop) == hist' = Append(hist, [flow |-> cur, stop |-> stop, obs |-> Obs(s'),
                                     started |-> Len(FlowDef[cur]) - Len(todo)]) /\ cur' = "-"

GNext ==
  \/ \E fl \in DOMAIN FlowDef : Start(fl) /\ cur' = fl /\ hist' = hist
  \/ (O1 \/ Ow \/ Os \/ O2 \/ O3 \/ O4 \/ O5 \/ O6 \/ CallBackup \/ CallWrite \/ CallBigWrite \/ CallClose
      \/ B1 \/ B2 \/ Bt \/ B3 \/ B4 \/ B5 \/ B6 \/ W1 \/ W2 \/ V1 \/ V2 \/ C1) /\ UNCHANGED <<hist, cur>>
  \/ C2 /\ Ended("done")
  \/ Crash /\ Ended(pc)

GSpec == GInit /\ [][GNext]_gvars

DevSeq == IF Dev = {} THEN <<>> ELSE IF Dev = DevWal THEN <<"StaleWalKept">>
          ELSE IF Dev = DevBak THEN <<"BackupNotAtomic">>
          ELSE IF Dev = DevMode THEN <<"JournalModeKept">> ELSE <<"StaleWalKept", "BackupNotAtomic">>

Emit ==
  (pc = "idle" /\ runs >= 1) =>
    LET r == Reopened(s) IN
    PrintT(<<"CASE", ToJson([dev |-> DevSeq, start |-> s.start, runs |-> hist, expected |-> s.expected,
                             pred |-> Pages(Visible(r)), sound |-> (r.main.st = "db" /\ ~r.mixed),
                             robs |-> Obs(r)])>>)
GenInv == Emit
=============================================================================
