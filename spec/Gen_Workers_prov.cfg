SPECIFICATION GSpec
CONSTANTS
  Procs <- P2
  Dev <- DevAsIs
  Scenarios <- ScnProv
  Focus = "prov"
INVARIANT GenInv
INVARIANT TxnLockAgree
INVARIANT NoStaleSideFile
INVARIANT DoneMeansCommitted
CHECK_DEADLOCK FALSE
