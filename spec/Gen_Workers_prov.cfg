SPECIFICATION GSpec
CONSTANTS
  Procs <- P2
  Dev <- DevAsIs
  Scenarios <- ScnProv
  Focus = "prov"
INVARIANT GenInv
CHECK_DEADLOCK FALSE
