---------------------------- MODULE Trace_Nowiki ----------------------------
EXTENDS Nowiki, Json, IOUtils

(* V direction: recorded (context, payload, tokenised real output) triples *)
Recorded == JsonDeserialize(IOEnv.TRACE_FILE)
VARIABLES i, bad
TInit == i = 1 /\ bad = <<>>
TNext == /\ i <= Len(Recorded)
         /\ LET r == Recorded[i] IN
            bad' = IF r.out = Expanded(r.ctx, r.c) /\ Recoverable(r.c) THEN bad ELSE Append(bad, [i |-> i, expected |-> Expanded(r.ctx, r.c)])
         /\ i' = i + 1
TSpec == TInit /\ [][TNext]_<<i, bad>>
Verdict == (i = Len(Recorded) + 1) => PrintT(<<"VERDICT", ToJson([consumed |-> i - 1, bad |-> bad])>>)
=============================================================================
