---------------------------- MODULE Trace_Nowiki ----------------------------
EXTENDS Nowiki, Json, IOUtils

(* V direction: recorded real outputs, tokenised into characters / entities ("CK" = any     *)
(* character of the placeholder range), are judged here.                                    *)
(*   k = "ctx"  (context, payload, output) of one of the one-level contexts                 *)
(*   k = "nest" (frames, options, payload, output [, written input]) of a nested context    *)
(* The verdict of a record is "ok" or names what is wrong:                                  *)
(*   "placeholder"  a placeholder character is left in the output          (statement)      *)
(*   "payload"      the entity-quoted payload is not in the output where the model says     *)
(*                  it must be                                              (statement)      *)
(*   "mismatch"     one-level context: output differs from the required one (statement)      *)
(*   "frame"        nested: the payload is delivered, the rendering of the frames around it  *)
(*                  differs from the model                                  (drift)          *)
(*   "input"        the harness wrote an input that is not the model's      (machinery)      *)
(*   k = "cm"   (written text, output) of a text without templates / links / nowiki, in      *)
(*              which expand() has nothing to do but to remove the comments: the output (as  *)
(*              characters) must be StripRef(written text);  verdict "comment" otherwise, with `like` = the   *)
(*              mistaken rule of Nowiki.tla (CMistakes, "only") that gives the recorded      *)
(*              output, if one does                                              (statement) *)
Recorded == JsonDeserialize(IOEnv.TRACE_FILE)
VARIABLES i, bad

NWc(c) == <<"<", "n", "o", "w", "i", "k", "i", ">">> \o c \o <<"<", "/", "n", "o", "w", "i", "k", "i", ">">>
RECURSIVE NInputC(_, _)
NInputC(fs, c) == IF fs = <<>> THEN NWc(c) ELSE FPre(fs[1]) \o NInputC(Tail(fs), c) \o FPost(fs[1])

JudgeCtx(r, e) ==
  IF r.out = e /\ Recoverable(r.c) THEN "ok"
  ELSE IF ~NoPlaceholder(r.out) THEN "placeholder"
  ELSE "mismatch"
JudgeNest(r, e, q, must) ==
  IF "inp" \in DOMAIN r /\ r.inp # NInputC(r.fs, r.c) THEN "input"
  ELSE IF ~NoPlaceholder(r.out) THEN "placeholder"
  ELSE IF must /\ ~Contains(r.out, q) THEN "payload"
  ELSE IF ~Recoverable(r.c) THEN "mismatch"
  ELSE IF Exact(r.fs) /\ r.out # e THEN "frame"
  ELSE "ok"
\* (the model's intermediate and final results are bound, so they are evaluated once)
JudgeCm(r, e) ==
  IF r.out = Chars(e) THEN "ok"
  ELSE IF ~NoPlaceholder(r.out) THEN "placeholder"
  ELSE "comment"
Like(r, e) == IF r.out = Chars(e) \/ ~\E ru \in CMistakes \cup {"only"} : Chars(StripScan(r.inp, 1, ru)) = r.out THEN ""
              ELSE CHOOSE ru \in CMistakes \cup {"only"} : Chars(StripScan(r.inp, 1, ru)) = r.out
Judge(r) ==
  IF r.k = "cm"
  THEN CHOOSE j \in { [why |-> JudgeCm(r, e), expected |-> e, q |-> <<>>, like |-> Like(r, e)] : e \in {StripRef(r.inp)} } : TRUE
  ELSE IF r.k = "nest"
  THEN CHOOSE j \in UNION { { [why |-> JudgeNest(r, e, Quote(r.c), Demand(r.fs, res)), expected |-> e, q |-> Quote(r.c), like |-> ""] : e \in {Fin(res, r.c)} }
                            : res \in {NRes(r.fs, r.o)} } : TRUE
  ELSE CHOOSE j \in { [why |-> JudgeCtx(r, e), expected |-> e, q |-> Quote(r.c), like |-> ""] : e \in {Expanded(r.ctx, r.c)} } : TRUE

TInit == i = 1 /\ bad = <<>>
TNext == /\ i <= Len(Recorded)
         /\ \E j \in {Judge(Recorded[i])} :
              bad' = IF j.why = "ok" THEN bad ELSE Append(bad, [i |-> i, why |-> j.why, expected |-> j.expected, q |-> j.q, like |-> j.like])
         /\ i' = i + 1
TSpec == TInit /\ [][TNext]_<<i, bad>>
Verdict == (i = Len(Recorded) + 1) => PrintT(<<"VERDICT", ToJson([consumed |-> i - 1, bad |-> bad])>>)
=============================================================================
