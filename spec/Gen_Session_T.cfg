SPECIFICATION GSpec
CONSTANTS
  Dev <- DevNone
  Titles <- TitlesTwo
  Sections <- SecThree
  Subsections <- SubTwo
  EmitSet <- EmitRich
  ExpandTexts <- ExpandGen
  ParseTexts <- ParseGen
  Markers <- MarkersPlain
  MaxMsgs = 0
  MaxMarkers = 0
  MaxLen = 4
  FreshLen = 2
  Family = "seq"
  PosLen = 0
  SimMode = FALSE
INVARIANT GenInv
CHECK_DEADLOCK FALSE
