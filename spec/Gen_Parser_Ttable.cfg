SPECIFICATION Spec
CONSTANTS
  Universe = "tableT"
  MaxLen = 5
INVARIANT MachineOK
CHECK_DEADLOCK FALSE
