SPECIFICATION Spec
CONSTANTS
  Universe = "table"
  MaxLen = 5
INVARIANT MachineOK
CHECK_DEADLOCK FALSE
