SPECIFICATION Spec
CONSTANTS
  MaxTok = 1
  Mode = "comment"
  Depth = 1
  DeepAll = FALSE
  FinRule = "fixpoint"
INVARIANT GenInv
CHECK_DEADLOCK FALSE
