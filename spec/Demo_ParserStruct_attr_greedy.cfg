SPECIFICATION Spec
CONSTANTS
  Universe = "ATTR"
  Part = 0
  Parts = 1
  Known = {}
  Tags <- TagsFromFile
INVARIANT DemoAttrGreedy
CHECK_DEADLOCK FALSE
