SPECIFICATION SpecSat
CONSTANTS
  Edges <- D_Edges
  Init0 <- D_Init
  Forbidden <- D_Forbidden
  WholeDesign = TRUE
  WithLeaves = TRUE
  Dev <- DevPartial
INVARIANT Confined
CHECK_DEADLOCK FALSE
