SPECIFICATION Spec
CONSTANTS
  Universe = "S3"
  MaxLines = 3
INVARIANT MachineOK
CHECK_DEADLOCK FALSE
