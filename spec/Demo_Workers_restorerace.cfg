SPECIFICATION Spec
CONSTANTS
  Procs <- P2
  Dev <- DevRace
  Scenarios <- ScnBak
INVARIANT NoFailure
INVARIANT SerialResults
INVARIANT StoreUnchanged
INVARIANT NoDeadlock
CHECK_DEADLOCK FALSE
