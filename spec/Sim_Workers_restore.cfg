SPECIFICATION GSpec
CONSTANTS
  Procs <- P3
  Dev <- DevAsIs
  Scenarios <- ScnRestoreLiveQ
  Focus = "restore"
INVARIANT GenInv
INVARIANT TxnLockAgree
INVARIANT DoneMeansCommitted
INVARIANT NoStaleSideFile
CHECK_DEADLOCK FALSE
