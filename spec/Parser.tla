------------------------------- MODULE Parser -------------------------------
(* The token-driven push-down machine of wikitextprocessor/parser.py, written *)
(* from the code: one operator per handler function.                          *)
(*                                                                            *)
(*   state  st = [stack, bol, wsp, line, pre, stuck]                           *)
(*     stack  open frames, bottom = ROOT (ctx.parser_stack)                   *)
(*     bol    ctx.beginning_of_line      wsp  ctx.wsp_beginning_of_line       *)
(*     line   ctx.linenum                pre  ctx.pre_parse                   *)
(*     stuck  set when no handler branch applies (an exception in the code)   *)
(*   frame    [kind, sarg, largs, attrs, children, loc]                       *)
(*   child    [s |-> <<atoms>>]  (a string, atoms merged on append)  or a     *)
(*            popped frame [kind, sarg, largs, attrs, children]               *)
(*                                                                            *)
(* Strings are sequences of atoms ("w3", "NL", "SP", ...); list markers are   *)
(* sequences of one-character strings.  Links, templates, template arguments  *)
(* and external links arrive as one atomic MAGIC token (their arguments are   *)
(* plain words, so the recursion of magic_fn cannot disturb the stack).       *)
(*                                                                            *)
(* Dev: named deviations; Dev = {} is the behaviour the properties demand,    *)
(*   "HlineClosesLevel1"  hline_fn stops only at ROOT/LEVEL2 (as-is), so a    *)
(*                        rule also closes an open LEVEL1 without LEVEL2      *)
(*   "PreParseLeftSet"    parse_encoded leaves pre_parse set when <pre> is    *)
(*                        still open at the end of input                      *)
EXTENDS Naturals, Sequences, FiniteSets, TLC

(* ---------------------------------------------------------------- kinds -- *)
LevelOf(kind) ==
  CASE kind = "ROOT" -> 0 [] kind = "LEVEL1" -> 1 [] kind = "LEVEL2" -> 2
    [] kind = "LEVEL3" -> 3 [] kind = "LEVEL4" -> 4 [] kind = "LEVEL5" -> 5
    [] kind = "LEVEL6" -> 6 [] OTHER -> 99
KindOfLevel(l) ==
  CASE l = 1 -> "LEVEL1" [] l = 2 -> "LEVEL2" [] l = 3 -> "LEVEL3"
    [] l = 4 -> "LEVEL4" [] l = 5 -> "LEVEL5" [] l = 6 -> "LEVEL6"
IsLevel(kind) == LevelOf(kind) < 99          \* kind in KIND_TO_LEVEL (incl. ROOT)

HaveArgsKinds == {"LINK", "TEMPLATE", "TEMPLATE_ARG", "PARSER_FN", "URL"}
MustCloseKinds == {"ITALIC", "BOLD", "PRE", "HTML", "LINK", "TEMPLATE", "TEMPLATE_ARG",
                   "PARSER_FN", "URL", "TABLE"}
TableParts == {"TABLE", "TABLE_CAPTION", "TABLE_ROW", "TABLE_HEADER_CELL", "TABLE_CELL"}

(* ------------------------------------------------ html tag data (wikihtml) *)
\* the modelled tags; the harness cross-checks this table against
\* ctx.html_permitted_parents / ALLOWED_HTML_TAGS of the working tree
ModelledTags == {"span", "div", "br", "ref", "li", "ul"}
NoEndTag(t) == t = "br"
CloseNext(t) == IF t = "li" THEN {"li"} ELSE {}
\* set_html_tag_data: parents of a phrasing child = tags whose content has
\* phrasing/flow/*; parents of a flow child = tags whose content has flow/*
FlowContent == {"div", "li", "ref"}            \* content: flow or *
PhrasingContent == FlowContent \cup {"span"}   \* content: phrasing (or flow, *)
PermittedParents(t) ==
  CASE t = "span" -> PhrasingContent
    [] t = "br"   -> PhrasingContent
    [] t = "div"  -> FlowContent
    [] t = "ul"   -> FlowContent
    [] t = "ref"  -> PhrasingContent           \* parents "*": flow + phrasing parents
    [] t = "li"   -> {"ul"}
    [] OTHER      -> {}

(* --------------------------------------------------------------- frames -- *)
Frame(kind, sarg, loc) ==
  [kind |-> kind, sarg |-> sarg, largs |-> <<>>, attrs |-> <<>>, children |-> <<>>, loc |-> loc]
NodeOf(f) == [kind |-> f.kind, sarg |-> f.sarg, largs |-> f.largs, attrs |-> f.attrs, children |-> f.children]
IsStr(c) == "s" \in DOMAIN c

Top(st) == st.stack[Len(st.stack)]
SetTop(st, f) == [st EXCEPT !.stack[Len(st.stack)] = f]
Have(st, kinds) == \E i \in 1..Len(st.stack) : st.stack[i].kind \in kinds
Stuck(st) == [st EXCEPT !.stuck = TRUE]

LastIsStr(f) == Len(f.children) > 0 /\ IsStr(f.children[Len(f.children)])
LastStr(f) == f.children[Len(f.children)].s
LastIsNode(f) == Len(f.children) > 0 /\ ~IsStr(f.children[Len(f.children)])
LastNode(f) == f.children[Len(f.children)]

\* node.children.append(token) followed (later) by _parser_merge_str_children
AppendText(f, atom) ==
  IF LastIsStr(f)
  THEN [f EXCEPT !.children[Len(f.children)] = [s |-> Append(LastStr(f), atom)]]
  ELSE [f EXCEPT !.children = Append(f.children, [s |-> <<atom>>])]
AppendNode(f, node) == [f EXCEPT !.children = Append(f.children, node)]
DropLast(seq) == SubSeq(seq, 1, Len(seq) - 1)

(* _parser_push: the new node becomes a child of the top when it is popped   *)
Push(st, kind, sarg) == [st EXCEPT !.stack = Append(st.stack, Frame(kind, sarg, st.line))]

(* _parser_pop(ctx, warn): fix-ups, then the frame becomes a child of the new *)
(* top.  `warn` only matters for an empty URL frame (un-pushed into "[").     *)
RECURSIVE TextFn(_, _)
PopRaw(st) ==
  LET n == Len(st.stack)
      f == st.stack[n]
      rest == SubSeq(st.stack, 1, n - 1)
      g == IF f.kind \in HaveArgsKinds
           THEN [f EXCEPT !.largs = Append(f.largs, f.children), !.children = <<>>]
           ELSE f
  IN [st EXCEPT !.stack = [rest EXCEPT ![n - 1] = AppendNode(rest[n - 1], NodeOf(g))]]
Discard(st) == [st EXCEPT !.stack = DropLast(st.stack)]
Pop(st, warn) ==
  LET f == Top(st) IN
  IF Len(st.stack) < 2 THEN Stuck(st)
  ELSE IF warn /\ f.kind = "URL" /\ f.children = <<>> THEN TextFn(Discard(st), "[")
  ELSE IF f.kind \in {"BOLD", "ITALIC"} /\ f.children = <<>> THEN Discard(st)
  ELSE PopRaw(st)

RECURSIVE PopN(_, _, _)
PopN(st, n, warn) == IF n <= 0 \/ st.stuck THEN st ELSE PopN(Pop(st, warn), n - 1, warn)

(* close_begline_lists (begline_enabled is always true at token level: magic  *)
(* tokens are atomic)                                                         *)
RECURSIVE PopWhileHaveList(_)
PopWhileHaveList(st) == IF Have(st, {"LIST"}) /\ ~st.stuck THEN PopWhileHaveList(Pop(st, TRUE)) ELSE st
\* scanning from the top: a LIST before any <ref> -> close; a <ref> first -> keep
RECURSIVE RefShields(_, _)
RefShields(stack, i) ==
  IF i = 0 THEN FALSE
  ELSE IF stack[i].kind = "LIST" THEN FALSE
  ELSE IF stack[i].kind = "HTML" /\ stack[i].sarg = <<"ref">> THEN TRUE
  ELSE RefShields(stack, i - 1)
CloseBeglineLists(st) ==
  IF ~st.bol THEN st
  ELSE IF RefShields(st.stack, Len(st.stack)) THEN st
  ELSE PopWhileHaveList(st)

(* ---------------------------------------------------------------- text_fn *)
IsSpaceAtom(a) == a \in {"SP", "NL"}
AllWs(s) == \A i \in 1..Len(s) : IsSpaceAtom(s[i])
EndsNL(f) == LastIsStr(f) /\ LastStr(f)[Len(LastStr(f))] = "NL"
LooksLikeUrl(atom) == atom = "URLW"           \* re.match("(https?:|mailto:|//)", token)
StartsWithSpace(atom) == atom = "SP"
InRefOrP(st) == \E i \in 1..Len(st.stack) :
                   st.stack[i].kind = "HTML" /\ st.stack[i].sarg \in {<<"ref">>, <<"p">>}

\* the auto-close loop of text_fn at the beginning of a line; result
\* [st, done]: done = the token was consumed inside the loop
RECURSIVE AutoPop(_, _)
AutoPop(st, atom) ==
  LET f == Top(st) IN
  IF st.stuck THEN [st |-> st, done |-> TRUE]
  ELSE IF f.kind = "LIST_ITEM"
  THEN IF StartsWithSpace(atom) THEN [st |-> SetTop(st, AppendText(f, atom)), done |-> TRUE]
       ELSE IF EndsNL(f) /\ (Len(f.children) > 1 \/ ~AllWs(LastStr(f)))
            THEN AutoPop(Pop(st, FALSE), atom)
            ELSE [st |-> st, done |-> FALSE]
  ELSE IF f.kind = "LIST" THEN AutoPop(Pop(st, FALSE), atom)
  ELSE IF f.kind = "PREFORMATTED"
  THEN IF EndsNL(f) /\ ~StartsWithSpace(atom) THEN AutoPop(Pop(st, FALSE), atom)
       ELSE [st |-> st, done |-> FALSE]
  ELSE IF f.kind \in {"BOLD", "ITALIC"} THEN AutoPop(Pop(st, FALSE), atom)
  ELSE [st |-> st, done |-> FALSE]

\* link trail: a word directly after a LINK without children goes into the link
IsWordAtom(atom) == ~IsSpaceAtom(atom) /\ atom \notin {"[", "]", "|", "!", "+", "-", "}", "{", "EQ", "MARK", "COLON", "TAGTXT", "HR", "APO", "URLW", "NOWIKI"}
AddTextChild(st, atom) ==
  LET f == Top(st) IN
  IF LastIsNode(f) /\ LastNode(f).kind = "LINK" /\ LastNode(f).children = <<>> /\ IsWordAtom(atom)
  THEN SetTop(st, [f EXCEPT !.children[Len(f.children)].children = <<[s |-> <<atom>>]>>])
  ELSE SetTop(st, AppendText(f, atom))

TextFn(st0, atom) ==
  LET st1 == CloseBeglineLists(st0)
      f1 == Top(st1)
  IN
  IF st1.stuck THEN st1
  \* external link [ ... ]: only a URL-looking first token keeps the URL node
  ELSE IF f1.kind = "URL" /\ f1.largs = <<>> /\ f1.children = <<>> /\ ~LooksLikeUrl(atom)
  THEN TextFn(TextFn(Discard(st1), "["), atom)
  ELSE IF f1.kind = "URL" /\ IsSpaceAtom(atom) /\ f1.largs = <<>>
  THEN SetTop(st1, [f1 EXCEPT !.largs = <<f1.children>>, !.children = <<>>])
  ELSE IF ~st1.bol THEN AddTextChild(st1, atom)
  ELSE LET r == AutoPop(st1, atom) IN
       IF r.done THEN r.st
       ELSE LET st2 == r.st
                f2 == Top(st2) IN
            IF StartsWithSpace(atom)
            THEN IF f2.kind \in {"TABLE", "TABLE_ROW"} THEN st2
                 ELSE IF f2.kind # "PREFORMATTED" /\ ~st2.pre /\ ~InRefOrP(st2)
                      THEN AddTextChild(Push(st2, "PREFORMATTED", <<>>), atom)
                      ELSE AddTextChild(st2, atom)
            ELSE AddTextChild(st2, atom)

(* --------------------------------------------------------------- hline_fn *)
HlineStops(Dev) == {"ROOT", "LEVEL2", "HTML"} \cup TableParts
                   \cup (IF "HlineClosesLevel1" \in Dev THEN {} ELSE {"LEVEL1"})
RECURSIVE PopToHline(_, _)
PopToHline(st, Dev) ==
  IF st.stuck \/ Top(st).kind \in HlineStops(Dev) THEN st ELSE PopToHline(Pop(st, TRUE), Dev)
HlineFn(st0, Dev) == Pop(Push(PopToHline(CloseBeglineLists(st0), Dev), "HLINE", <<>>), TRUE)

(* ------------------------------------------- subtitle_start_fn / _end_fn -- *)
RECURSIVE PopForTitle(_, _)
HaveLevel(st) == \E i \in 1..Len(st.stack) : IsLevel(st.stack[i].kind)
PopForTitle(st, level) ==
  LET f == Top(st) IN
  IF st.stuck \/ ~HaveLevel(st) THEN st
  ELSE IF LevelOf(f.kind) < level THEN st
  ELSE IF f.kind = "HTML" /\ f.sarg # <<"span">> THEN st
  ELSE IF f.kind \in (MustCloseKinds \ {"HTML"}) THEN st
  ELSE PopForTitle(Pop(st, TRUE), level)
EqAtoms(l) == [i \in 1..l |-> "EQ"]
RECURSIVE TextSeq(_, _, _)
TextSeq(st, atoms, i) == IF i > Len(atoms) THEN st ELSE TextSeq(TextFn(st, atoms[i]), atoms, i + 1)
SubtitleStart(st0, l) ==
  IF st0.pre \/ ~st0.bol THEN TextFn(st0, "EQ")
  ELSE Push(PopForTitle(CloseBeglineLists(st0), l), KindOfLevel(l), <<>>)

\* looks down the stack while frames were opened on this line; pops down to
\* the start node; not found -> text
RECURSIVE FindStart(_, _, _)
FindStart(st, kind, i) ==      \* number of frames above the start node, or 99 = not found
  IF i = 0 THEN 99
  ELSE IF st.stack[i].loc # st.line THEN 99
  ELSE IF st.stack[i].kind = kind THEN Len(st.stack) - i
  ELSE FindStart(st, kind, i - 1)
SubtitleEnd(st, l) ==
  IF st.pre THEN TextFn(st, "EQ")
  ELSE LET cnt == FindStart(st, KindOfLevel(l), Len(st.stack)) IN
       IF cnt = 99 THEN TextFn(st, "EQ")
       ELSE LET st1 == PopN(st, cnt, TRUE)
                f == Top(st1) IN
            IF st1.stuck \/ f.kind # KindOfLevel(l) THEN Stuck(st1)
            ELSE SetTop(st1, [f EXCEPT !.largs = Append(f.largs, f.children), !.children = <<>>])

(* ---------------------------------------------------------------- list_fn *)
\* len(sarg) < len(tok) and tok[i] in (":", sarg[i]) for all i
IsPrefixMatch(sarg, tok) ==
  Len(sarg) < Len(tok) /\ \A i \in 1..Len(sarg) : tok[i] = ":" \/ tok[i] = sarg[i]
ListKeep == {"HTML", "TEMPLATE", "TEMPLATE_ARG", "PARSER_FN", "TABLE", "TABLE_HEADER_CELL",
             "TABLE_ROW", "TABLE_CELL"}
Last(seq) == seq[Len(seq)]
\* result [st, ret]: ret = list_fn returned from inside the loop (definition shuffle)
RECURSIVE ListPop(_, _)
ListPop(st, tok) ==
  LET f == Top(st) IN
  IF st.stuck THEN [st |-> st, ret |-> TRUE]
  ELSE IF f.kind = "LIST_ITEM" /\ Last(f.sarg) = ";" /\ Last(tok) = ":"
          /\ DropLast(tok) = DropLast(f.sarg) /\ ~f.th.has
  THEN [st |-> SetTop(st, [f EXCEPT !.th = [has |-> TRUE, v |-> f.children], !.children = <<>>]), ret |-> TRUE]
  ELSE IF f.kind = "LIST_ITEM" /\ Last(tok) = ":" /\ f.sarg = DropLast(tok) /\ LastIsNode(f)
  THEN [st |-> st, ret |-> FALSE]
  ELSE IF f.kind = "LIST_ITEM" /\ f.sarg = tok THEN [st |-> Pop(st, FALSE), ret |-> FALSE]
  ELSE IF f.kind = "LIST_ITEM" /\ IsPrefixMatch(f.sarg, tok) THEN [st |-> st, ret |-> FALSE]
  ELSE IF IsLevel(f.kind) THEN [st |-> st, ret |-> FALSE]
  ELSE IF f.kind \in ListKeep THEN [st |-> st, ret |-> FALSE]
  ELSE ListPop(Pop(st, TRUE), tok)
\* pop_until_nth_list
RECURSIVE CountPassed(_, _, _, _)
CountPassed(stack, i, cnt, passed) ==
  IF i > Len(stack) THEN passed
  ELSE LET c2 == IF stack[i].kind = "LIST" THEN cnt - 1 ELSE cnt IN
       IF c2 = 0 THEN passed + 1 ELSE CountPassed(stack, i + 1, c2, passed + 1)
PopUntilNthList(st, tok) ==
  LET passed == CountPassed(st.stack, 1, Len(tok), 0)
                + (IF tok[1] \in {":", ";"} THEN 1 ELSE 0)
  IN PopN(st, Len(st.stack) - passed, TRUE)
ListFrame(kind, tok, loc) == Frame(kind, tok, loc) @@ [th |-> [has |-> FALSE, v |-> <<>>]]
PushList(st, kind, tok) == [st EXCEPT !.stack = Append(st.stack, ListFrame(kind, tok, st.line))]
ListFn(st0, tok) ==
  IF st0.pre THEN TextFn(st0, "MARK")
  ELSE IF Top(st0).kind \in {"LINK", "URL"} THEN TextFn(st0, "MARK")
  ELSE IF ~st0.bol THEN TextFn(st0, "MARK")
  ELSE LET r == ListPop(st0, tok) IN
       IF r.ret THEN r.st
       ELSE LET st2 == PopUntilNthList(r.st, tok)
                st3 == IF Top(st2).kind # "LIST" THEN PushList(st2, "LIST", tok) ELSE st2
            IN IF st2.stuck THEN st2 ELSE PushList(st3, "LIST_ITEM", tok)

(* a colon in the middle of a line: "; term : definition" *)
ColonFn(st) ==
  LET f == Top(st) IN
  IF st.pre THEN TextFn(st, "COLON")
  ELSE IF f.kind \in {"LINK", "URL"} THEN TextFn(st, "COLON")
  ELSE IF st.bol THEN ListFn(st, <<":">>)
  ELSE IF f.kind = "LIST_ITEM" /\ Last(f.sarg) = ";" /\ ~f.th.has
  THEN SetTop(st, [f EXCEPT !.th = [has |-> TRUE, v |-> f.children], !.children = <<>>])
  ELSE TextFn(st, "COLON")
=============================================================================
