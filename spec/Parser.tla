------------------------------- MODULE Parser -------------------------------
(* The token-driven push-down machine of wikitextprocessor/parser.py, written *)
(* from the code: one operator per handler function, plus a model of the      *)
(* context-dependent part of token_iter (heading lines, apostrophe runs,      *)
(* line-start-only tokens).                                                   *)
(*                                                                            *)
(*   state  st = [stack, bol, wsp, line, pre, stuck, dev]                      *)
(*     stack  open frames, bottom = ROOT (ctx.parser_stack)                   *)
(*     bol    ctx.beginning_of_line      wsp  ctx.wsp_beginning_of_line       *)
(*     line   ctx.linenum                pre  ctx.pre_parse                   *)
(*     stuck  set when no handler branch applies (an exception in the code)   *)
(*     dev    the deviation switches of this run (constant during a parse)    *)
(*   frame    [kind, sarg, largs, attrs, children, loc, th]                   *)
(*   child    [s |-> <<atoms>>]  (a string; atoms are merged on append)  or a *)
(*            popped frame [kind, sarg, largs, attrs, children (, def)]       *)
(*                                                                            *)
(* Strings are sequences of atoms ("w", "NL", "SP", ...); list markers are    *)
(* sequences of one-character strings.  Links, templates, template arguments  *)
(* and external links arrive as one atomic MAGIC token (their arguments are   *)
(* plain words, so the recursion inside magic_fn cannot disturb the stack;    *)
(* consequently URL/TEMPLATE frames are never open at token level and         *)
(* begline_enabled is always true).                                           *)
(*                                                                            *)
(* Deviations (st.dev); {} is the behaviour the properties demand:            *)
(*   "HlineClosesLevel1"  hline_fn stops only at ROOT/LEVEL2 (as-is), so a    *)
(*                        rule also closes an open LEVEL1 without LEVEL2      *)
(*   "PreParseLeftSet"    parse_encoded leaves pre_parse set when <pre> was   *)
(*                        never closed                                        *)
(*   "HeadingTitleLost"   as-is subtitle_end_fn (gives up in <pre> mode and   *)
(*                        when the line number moved inside the title) and    *)
(*                        as-is _parser_pop (a title node closed before its   *)
(*                        end token keeps no title argument)                  *)
(*   "PreModeLeftOnStrayEnd"  (model deviation of C02, Demo only) </pre> clears *)
(*                        pre_parse only when a PRE node is on top of the stack *)
(*   "TitleLoopNeedsSection"  (model deviation of C02, Demo only) the popping *)
(*                        loop of subtitle_start_fn runs only while a section *)
(*                        is open: before the first heading nothing is closed *)
EXTENDS Naturals, Sequences, FiniteSets, TLC

(* ---------------------------------------------------------------- kinds -- *)
LevelOf(kind) ==
  CASE kind = "ROOT" -> 0 [] kind = "LEVEL1" -> 1 [] kind = "LEVEL2" -> 2
    [] kind = "LEVEL3" -> 3 [] kind = "LEVEL4" -> 4 [] kind = "LEVEL5" -> 5
    [] kind = "LEVEL6" -> 6 [] OTHER -> 99
KindOfLevel(l) ==
  CASE l = 1 -> "LEVEL1" [] l = 2 -> "LEVEL2" [] l = 3 -> "LEVEL3"
    [] l = 4 -> "LEVEL4" [] l = 5 -> "LEVEL5" [] l = 6 -> "LEVEL6"
IsLevel(kind) == LevelOf(kind) < 99          \* kind in KIND_TO_LEVEL (incl. ROOT)

MustCloseKinds == {"ITALIC", "BOLD", "PRE", "HTML", "LINK", "TEMPLATE", "TEMPLATE_ARG",
                   "PARSER_FN", "URL", "TABLE"}
TableParts == {"TABLE", "TABLE_CAPTION", "TABLE_ROW", "TABLE_HEADER_CELL", "TABLE_CELL"}

(* ------------------------------------------------ html tag data (wikihtml) *)
\* the modelled tags; the harness cross-checks this table against
\* ctx.html_permitted_parents / ALLOWED_HTML_TAGS of the working tree
ModelledTags == {"span", "div", "br", "ref", "li", "ul"}
NoEndTag(t) == t = "br"
CloseNext(t) == IF t = "li" THEN {"li"} ELSE {}
FlowContent == {"div", "li", "ref", "ul"}      \* tags whose content has flow or *
PhrasingContent == FlowContent \cup {"span"}   \* ... phrasing, flow or *
PermittedParents(t) ==
  CASE t = "span" -> PhrasingContent
    [] t = "br"   -> PhrasingContent
    [] t = "div"  -> FlowContent
    [] t = "ul"   -> FlowContent
    [] t = "ref"  -> PhrasingContent
    [] t = "li"   -> {"ul"}
    [] OTHER      -> {}

(* --------------------------------------------------------------- frames -- *)
NoHead == [has |-> FALSE, v |-> <<>>]
Frame(kind, sarg, loc) ==
  [kind |-> kind, sarg |-> sarg, largs |-> <<>>, attrs |-> <<>>, children |-> <<>>,
   loc |-> loc, th |-> NoHead]
IsStr(c) == "s" \in DOMAIN c
Last(seq) == seq[Len(seq)]
DropLast(seq) == SubSeq(seq, 1, Len(seq) - 1)

\* _parser_pop: a definition-list item with a non-empty saved head gets
\* children = head, definition = what followed the colon
NodeOf(f) ==
  LET base == [kind |-> f.kind, sarg |-> f.sarg, largs |-> f.largs, attrs |-> f.attrs,
               children |-> f.children] IN
  IF f.kind = "LIST_ITEM" /\ Last(f.sarg) = ";" /\ f.th.has /\ f.th.v # <<>>
  THEN [base EXCEPT !.children = f.th.v] @@ [def |-> f.children]
  ELSE base

Top(st) == st.stack[Len(st.stack)]
SetTop(st, f) == [st EXCEPT !.stack[Len(st.stack)] = f]
Have(st, kinds) == \E i \in 1..Len(st.stack) : st.stack[i].kind \in kinds
Stuck(st) == [st EXCEPT !.stuck = TRUE]

LastIsStr(f) == Len(f.children) > 0 /\ IsStr(Last(f.children))
LastStr(f) == Last(f.children).s
LastIsNode(f) == Len(f.children) > 0 /\ ~IsStr(Last(f.children))
LastNode(f) == Last(f.children)

\* node.children.append(token), merged by _parser_merge_str_children
AppendText(f, atom) ==
  IF LastIsStr(f)
  THEN [f EXCEPT !.children[Len(f.children)] = [s |-> Append(LastStr(f), atom)]]
  ELSE [f EXCEPT !.children = Append(f.children, [s |-> <<atom>>])]
AppendNode(f, node) == [f EXCEPT !.children = Append(f.children, node)]

(* _parser_push: (the new node becomes a child of the frame below when popped) *)
Push(st, kind, sarg) == [st EXCEPT !.stack = Append(st.stack, Frame(kind, sarg, st.line))]
PushA(st, kind, sarg, attrs) ==
  [st EXCEPT !.stack = Append(st.stack, [Frame(kind, sarg, st.line) EXCEPT !.attrs = attrs])]

(* _parser_pop: empty BOLD/ITALIC frames vanish; otherwise the frame becomes  *)
(* the last child of the frame below.  Popping ROOT is an IndexError.         *)
Pop(st) ==
  LET n == Len(st.stack)
      f == st.stack[n]
      rest == SubSeq(st.stack, 1, n - 1)
      \* (repaired) a title node closed before its end token takes what it collected as its title
      g == IF IsLevel(f.kind) /\ f.kind # "ROOT" /\ f.largs = <<>> /\ "HeadingTitleLost" \notin st.dev
           THEN [f EXCEPT !.largs = <<f.children>>, !.children = <<>>] ELSE f
  IN IF n < 2 THEN Stuck(st)
     ELSE IF f.kind \in {"BOLD", "ITALIC"} /\ f.children = <<>> THEN [st EXCEPT !.stack = rest]
     ELSE [st EXCEPT !.stack = [rest EXCEPT ![n - 1] = AppendNode(rest[n - 1], NodeOf(g))]]

RECURSIVE PopN(_, _)
PopN(st, n) == IF n <= 0 \/ st.stuck THEN st ELSE PopN(Pop(st), n - 1)
RECURSIVE PopUntil(_, _)       \* pop while the top kind is not in `kinds`
PopUntil(st, kinds) == IF st.stuck \/ Top(st).kind \in kinds THEN st ELSE PopUntil(Pop(st), kinds)
\* a closed leaf node (push immediately followed by pop)
Leaf(kind, sarg, largs) == [kind |-> kind, sarg |-> sarg, largs |-> largs, attrs |-> <<>>, children |-> <<>>]

(* close_begline_lists *)
RECURSIVE PopWhileHaveList(_)
PopWhileHaveList(st) == IF Have(st, {"LIST"}) /\ ~st.stuck THEN PopWhileHaveList(Pop(st)) ELSE st
\* scanning down from the top: a LIST before any <ref> -> close; <ref> first -> keep
RECURSIVE RefShields(_, _)
RefShields(stack, i) ==
  IF i = 0 THEN FALSE
  ELSE IF stack[i].kind = "LIST" THEN FALSE
  ELSE IF stack[i].kind = "HTML" /\ stack[i].sarg = <<"ref">> THEN TRUE
  ELSE RefShields(stack, i - 1)
CloseBeglineLists(st) ==
  IF ~st.bol THEN st
  ELSE IF RefShields(st.stack, Len(st.stack)) THEN st
  ELSE PopWhileHaveList(st)

(* ---------------------------------------------------------------- text_fn *)
(* text_fn(ctx, token): `atoms` is the whole token; its first atom decides     *)
(* the startswith(" ") / link-trail questions                                  *)
IsSpaceAtom(a) == a \in {"SP", "NL"}
AllWs(s) == \A i \in 1..Len(s) : IsSpaceAtom(s[i])
EndsNL(f) == LastIsStr(f) /\ Last(LastStr(f)) = "NL"
InRefOrP(st) == \E i \in 1..Len(st.stack) :
                   st.stack[i].kind = "HTML" /\ st.stack[i].sarg \in {<<"ref">>, <<"p">>}
\* atoms whose text does not start with a \w character
NonWordAtoms == {"SP", "NL", "=", "'", "''", "'''", "*", "#", ";", ":", "----", "!", "|", "{", "}",
                 "+", "-", "=b", "url", "magicT", "magicA", "magicL", "magicE", "magicN", "magicF",
                 "<span>", "</span>", "<div>", "</div>", "<br>", "</br>", "<ref>", "</ref>", "<ul>", "</ul>",
                 "<li>", "</li>", "<pre>", "</pre>", "<foo>", "</foo>", "<span/>", "<span class=\"c\">", "magicTN"}
IsWordAtom(a) == a \notin NonWordAtoms
RECURSIVE AppendAtoms(_, _, _)
AppendAtoms(f, atoms, i) == IF i > Len(atoms) THEN f ELSE AppendAtoms(AppendText(f, atoms[i]), atoms, i + 1)

\* the auto-close loop of text_fn at the beginning of a line;
\* done = the token was consumed inside the loop
RECURSIVE AutoPop(_, _)
AutoPop(st, atoms) ==
  LET f == Top(st) IN
  IF st.stuck THEN [st |-> st, done |-> TRUE]
  ELSE IF f.kind = "LIST_ITEM"
  THEN IF atoms[1] = "SP" THEN [st |-> SetTop(st, AppendAtoms(f, atoms, 1)), done |-> TRUE]
       ELSE IF EndsNL(f) /\ (Len(f.children) > 1 \/ ~AllWs(LastStr(f)))
            THEN AutoPop(Pop(st), atoms)
            ELSE [st |-> st, done |-> FALSE]
  ELSE IF f.kind = "LIST" THEN AutoPop(Pop(st), atoms)
  ELSE IF f.kind = "PREFORMATTED"
  THEN IF EndsNL(f) /\ atoms[1] # "SP" THEN AutoPop(Pop(st), atoms)
       ELSE [st |-> st, done |-> FALSE]
  ELSE IF f.kind \in {"BOLD", "ITALIC"} THEN AutoPop(Pop(st), atoms)
  ELSE [st |-> st, done |-> FALSE]

\* link trail: leading word characters directly after a LINK without children
AddTextChild(st, atoms) ==
  LET f == Top(st) IN
  IF LastIsNode(f) /\ LastNode(f).kind = "LINK" /\ LastNode(f).children = <<>> /\ IsWordAtom(atoms[1])
  THEN LET head == IF atoms[1] = "a=b" THEN "a" ELSE atoms[1]
           rest == (IF atoms[1] = "a=b" THEN <<"=b">> ELSE <<>>) \o Tail(atoms)
           f1 == [f EXCEPT !.children[Len(f.children)].children = <<[s |-> <<head>>]>>]
       IN SetTop(st, AppendAtoms(f1, rest, 1))
  ELSE SetTop(st, AppendAtoms(f, atoms, 1))

TextFn(st0, atoms) ==
  LET st1 == CloseBeglineLists(st0) IN
  IF st1.stuck THEN st1
  ELSE IF ~st1.bol THEN AddTextChild(st1, atoms)
  ELSE LET r == AutoPop(st1, atoms) IN
       IF r.done THEN r.st
       ELSE LET st2 == r.st
                f2 == Top(st2) IN
            IF atoms[1] = "SP"
            THEN IF f2.kind \in {"TABLE", "TABLE_ROW"} THEN st2
                 ELSE IF f2.kind # "PREFORMATTED" /\ ~st2.pre /\ ~InRefOrP(st2)
                      THEN AddTextChild(Push(st2, "PREFORMATTED", <<>>), atoms)
                      ELSE AddTextChild(st2, atoms)
            ELSE AddTextChild(st2, atoms)

(* --------------------------------------------------------------- hline_fn *)
HlineStops(Dev) == {"ROOT", "LEVEL2", "HTML"} \cup TableParts
                   \cup (IF "HlineClosesLevel1" \in Dev THEN {} ELSE {"LEVEL1"})
HlineFn(st0) ==
  LET st1 == PopUntil(CloseBeglineLists(st0), HlineStops(st0.dev)) IN
  IF st1.stuck THEN st1 ELSE SetTop(st1, AppendNode(Top(st1), Leaf("HLINE", <<>>, <<>>)))

(* ------------------------------------------- subtitle_start_fn / _end_fn -- *)
HaveLevel(st) == \E i \in 1..Len(st.stack) : IsLevel(st.stack[i].kind)
\* ---- begin C02 (round 7): model deviation "TitleLoopNeedsSection" (never switched on by C01) ----
\* the guard of the popping loop looks for an open SECTION instead of a KIND_TO_LEVEL member (which ROOT is):
\* with no section open yet the loop is not entered and whatever is open stays open under the new section
HaveSection(st) == \E i \in 1..Len(st.stack) : IsLevel(st.stack[i].kind) /\ st.stack[i].kind # "ROOT"
TitleLoopOff(st) == "TitleLoopNeedsSection" \in st.dev /\ ~HaveSection(st)
\* ---- end C02 (round 7) ----
RECURSIVE PopForTitle(_, _)
PopForTitle(st, level) ==
  LET f == Top(st) IN
  IF st.stuck \/ ~HaveLevel(st) \/ TitleLoopOff(st) THEN st
  ELSE IF LevelOf(f.kind) < level THEN st
  ELSE IF f.kind = "HTML" /\ f.sarg # <<"span">> THEN st
  ELSE IF f.kind \in (MustCloseKinds \ {"HTML"}) THEN st
  ELSE PopForTitle(Pop(st), level)
EqAtoms(l) == [i \in 1..l |-> "="]
SubtitleStart(st0, l) ==
  IF st0.pre \/ ~st0.bol THEN TextFn(st0, EqAtoms(l))
  ELSE Push(PopForTitle(CloseBeglineLists(st0), l), KindOfLevel(l), <<>>)

\* walks down the stack while the frames were opened on this line
RECURSIVE FindStart(_, _, _)
FindStart(st, kind, i) ==      \* number of frames above the start node; 99 = not found
  IF i = 0 THEN 99
  ELSE IF st.stack[i].loc # st.line THEN 99
  ELSE IF st.stack[i].kind = kind THEN Len(st.stack) - i
  ELSE FindStart(st, kind, i - 1)
MoveTitle(st) ==
  LET f == Top(st) IN SetTop(st, [f EXCEPT !.largs = Append(f.largs, f.children), !.children = <<>>])
\* as-is: gives up in <pre> mode; looks only at frames opened on the current line
SubtitleEndAsIs(st, l) ==
  IF st.pre THEN TextFn(st, EqAtoms(l))
  ELSE LET cnt == FindStart(st, KindOfLevel(l), Len(st.stack)) IN
       IF cnt = 99 THEN TextFn(st, EqAtoms(l))
       ELSE LET st1 == PopN(st, cnt) IN
            IF st1.stuck \/ Top(st1).kind # KindOfLevel(l) THEN Stuck(st1) ELSE MoveTitle(st1)
\* repaired: the start node is the innermost title frame, if it is of this
\* level and still lacks its title; a <pre> opened in the title ends with it
RECURSIVE InnermostLevel(_, _)
InnermostLevel(st, i) == IF IsLevel(st.stack[i].kind) THEN i ELSE InnermostLevel(st, i - 1)
SubtitleEndIdeal(st, l) ==
  LET i == InnermostLevel(st, Len(st.stack)) IN
  IF st.stack[i].kind = KindOfLevel(l) /\ st.stack[i].largs = <<>>
  THEN LET st1 == PopN([st EXCEPT !.pre = FALSE], Len(st.stack) - i) IN
       IF st1.stuck THEN st1 ELSE MoveTitle(st1)
  ELSE TextFn(st, EqAtoms(l))
SubtitleEnd(st, l) ==
  IF "HeadingTitleLost" \in st.dev THEN SubtitleEndAsIs(st, l) ELSE SubtitleEndIdeal(st, l)

(* ---------------------------------------------------------------- list_fn *)
\* len(sarg) < len(tok) and tok[i] in (":", sarg[i]) for all i
IsPrefixMatch(sarg, tok) ==
  Len(sarg) < Len(tok) /\ \A i \in 1..Len(sarg) : tok[i] = ":" \/ tok[i] = sarg[i]
ListKeep == {"HTML", "TEMPLATE", "TEMPLATE_ARG", "PARSER_FN", "TABLE", "TABLE_HEADER_CELL",
             "TABLE_ROW", "TABLE_CELL"}
SaveHead(f) == [f EXCEPT !.th = [has |-> TRUE, v |-> f.children], !.children = <<>>]
\* ret = list_fn returned from inside its loop (definition shuffle)
RECURSIVE ListPop(_, _)
ListPop(st, tok) ==
  LET f == Top(st) IN
  IF st.stuck THEN [st |-> st, ret |-> TRUE]
  ELSE IF f.kind = "LIST_ITEM" /\ Last(f.sarg) = ";" /\ Last(tok) = ":"
          /\ DropLast(tok) = DropLast(f.sarg) /\ ~f.th.has
  THEN [st |-> SetTop(st, SaveHead(f)), ret |-> TRUE]
  ELSE IF f.kind = "LIST_ITEM" /\ Last(tok) = ":" /\ f.sarg = DropLast(tok) /\ LastIsNode(f)
  THEN [st |-> st, ret |-> FALSE]
  ELSE IF f.kind = "LIST_ITEM" /\ f.sarg = tok THEN [st |-> Pop(st), ret |-> FALSE]
  ELSE IF f.kind = "LIST_ITEM" /\ IsPrefixMatch(f.sarg, tok) THEN [st |-> st, ret |-> FALSE]
  ELSE IF IsLevel(f.kind) THEN [st |-> st, ret |-> FALSE]
  ELSE IF f.kind \in ListKeep THEN [st |-> st, ret |-> FALSE]
  ELSE ListPop(Pop(st), tok)
\* pop_until_nth_list
RECURSIVE CountPassed(_, _, _, _)
CountPassed(stack, i, cnt, passed) ==
  IF i > Len(stack) THEN passed
  ELSE LET c2 == IF stack[i].kind = "LIST" THEN cnt - 1 ELSE cnt IN
       IF c2 = 0 THEN passed + 1 ELSE CountPassed(stack, i + 1, c2, passed + 1)
PopUntilNthList(st, tok) ==
  LET passed == CountPassed(st.stack, 1, Len(tok), 0) + (IF tok[1] \in {":", ";"} THEN 1 ELSE 0)
  IN PopN(st, Len(st.stack) - passed)
ListFn(st0, tok) ==
  LET f0 == Top(st0) IN
  IF st0.pre THEN TextFn(st0, tok)
  ELSE IF f0.kind \in {"LINK", "URL"} THEN TextFn(st0, tok)
  ELSE IF ~st0.bol
  THEN IF tok = <<":">> /\ f0.kind = "LIST_ITEM" /\ Last(f0.sarg) = ";" /\ ~f0.th.has
       THEN SetTop(st0, SaveHead(f0))
       ELSE TextFn(st0, tok)
  ELSE LET r == ListPop(st0, tok) IN
       IF r.ret THEN r.st
       ELSE LET st2 == PopUntilNthList(r.st, tok)
                st3 == IF Top(st2).kind # "LIST" THEN Push(st2, "LIST", tok) ELSE st2
            IN IF st2.stuck THEN st2 ELSE Push(st3, "LIST_ITEM", tok)

(* ------------------------------------------------- italic_fn / bold_fn ---- *)
Other(kind) == IF kind = "ITALIC" THEN "BOLD" ELSE "ITALIC"
\* pops down to and including the nearest `kind` frame; saw = an Other(kind)
\* frame was passed on the way
RECURSIVE PopToFormat(_, _, _)
PopToFormat(st, kind, saw) ==
  LET f == Top(st) IN
  IF st.stuck THEN [st |-> st, saw |-> saw]
  ELSE IF f.kind = kind THEN [st |-> Pop(st), saw |-> saw]
  ELSE PopToFormat(Pop(st), kind, saw \/ f.kind = Other(kind))
FormatFn(st0, kind, atoms) ==
  IF st0.pre THEN TextFn(st0, atoms)
  ELSE LET st1 == CloseBeglineLists(st0) IN
       IF st1.stuck THEN st1
       ELSE IF ~Have(st1, {kind}) \/ Top(st1).kind = "LINK" THEN Push(st1, kind, <<>>)
       ELSE LET r == PopToFormat(st1, kind, FALSE) IN
            IF r.saw /\ ~r.st.stuck THEN Push(r.st, Other(kind), <<>>) ELSE r.st

(* ------------------------------------------------------------- tables ---- *)
\* parse_attrs on a plain string: every blank-separated run of name characters is a key
\* (a run ends at "=": the rest of the run is the value).  Keys are built by joining atoms.
NameAtoms == {"w", "{", "}", "|", "!", "+", "-", "*", "#", ";", ":", "----"}
AddKey(acc, key) == IF key = "" \/ (\E j \in 1..Len(acc) : acc[j] = key) THEN acc ELSE Append(acc, key)
\* cur = key being collected; val = inside a value (skip to the next blank)
RECURSIVE KeysOf(_, _, _, _, _)
KeysOf(s, i, acc, cur, val) ==
  IF i > Len(s) THEN AddKey(acc, cur)
  ELSE LET a == s[i] IN
       IF a \in {"SP", "NL"} THEN KeysOf(s, i + 1, AddKey(acc, cur), "", FALSE)
       ELSE IF val THEN KeysOf(s, i + 1, acc, cur, TRUE)
       ELSE IF a = "a=b" THEN KeysOf(s, i + 1, AddKey(acc, cur \o "a"), "", TRUE)
       \* (\b: a key starts at a word character; punctuation only continues a key)
       ELSE IF a = "w" \/ (a \in NameAtoms /\ cur # "") THEN KeysOf(s, i + 1, acc, cur \o a, FALSE)
       ELSE IF a \in NameAtoms THEN KeysOf(s, i + 1, acc, cur, FALSE)
       ELSE KeysOf(s, i + 1, AddKey(acc, cur), "", FALSE)
\* check_for_attributes + parse_attrs for a frame whose children are one
\* string; mixed children are left alone (approximation, see notes/C01.md)
TakeAttrs(f) ==
  IF Len(f.children) = 1 /\ IsStr(f.children[1])
  THEN [f EXCEPT !.attrs = KeysOf(f.children[1].s, 1, f.attrs, "", FALSE), !.children = <<>>]
  ELSE f
TableCheckAttrs(st) ==
  IF Top(st).kind = "TABLE" THEN SetTop(st, TakeAttrs(Top(st))) ELSE st
TableRowCheckAttrs(st0) ==
  LET st == CloseBeglineLists(st0) IN
  IF ~st.stuck /\ Top(st).kind = "TABLE_ROW" THEN SetTop(st, TakeAttrs(Top(st))) ELSE st

RECURSIVE TableCellLoop(_, _)
RECURSIVE TableHdrLoop(_, _)
TableCellFn(st0, atoms) ==        \* token "|" (atoms <<"|">>) or "||"
  IF st0.pre THEN TextFn(st0, atoms)
  ELSE LET st1 == TableCheckAttrs(TableRowCheckAttrs(CloseBeglineLists(st0)))
           f == Top(st1) IN
       IF st1.stuck THEN st1
       ELSE IF ~Have(st1, {"TABLE"}) THEN TextFn(st1, atoms)
       ELSE IF atoms = <<"|">> /\ ~st1.wsp /\ ~st1.bol
               /\ f.kind \in {"TABLE_CAPTION", "TABLE_HEADER_CELL", "TABLE_CELL"}
       THEN IF f.attrs = <<>>
            THEN (IF Len(f.children) = 1 /\ IsStr(f.children[1]) THEN SetTop(st1, TakeAttrs(f)) ELSE st1)
            ELSE TextFn(st1, atoms)
       ELSE TableCellLoop(st1, atoms)
TableCellLoop(st, atoms) ==
  LET f == Top(st) IN
  IF st.stuck THEN st
  ELSE IF f.kind = "TABLE_ROW" THEN Push(st, "TABLE_CELL", <<>>)
  ELSE IF f.kind = "TABLE" THEN Push(Push(st, "TABLE_ROW", <<>>), "TABLE_CELL", <<>>)
  ELSE IF f.kind \in {"TABLE_CAPTION", "HTML"} THEN TextFn(st, atoms)
  ELSE TableCellLoop(Pop(st), atoms)

TableHdrCellFn(st0, atoms) ==     \* token "!" or "!!" (or "||" via double_vbar_fn)
  IF st0.pre THEN TextFn(st0, atoms)
  ELSE LET st1 == TableCheckAttrs(TableRowCheckAttrs(CloseBeglineLists(st0))) IN
       IF st1.stuck THEN st1
       ELSE IF ~Have(st1, {"TABLE"}) THEN TextFn(st1, atoms)
       ELSE IF atoms = <<"!">> /\ ~(st1.bol \/ st1.wsp) THEN TextFn(st1, atoms)
       ELSE TableHdrLoop(st1, atoms)
TableHdrLoop(st, atoms) ==
  LET f == Top(st) IN
  IF st.stuck THEN st
  ELSE IF f.kind = "TABLE_ROW" THEN Push(st, "TABLE_HEADER_CELL", <<>>)
  ELSE IF f.kind = "TABLE" THEN Push(Push(st, "TABLE_ROW", <<>>), "TABLE_HEADER_CELL", <<>>)
  ELSE IF f.kind = "TABLE_CAPTION"
  THEN IF st.bol THEN Push(Push(Pop(st), "TABLE_ROW", <<>>), "TABLE_HEADER_CELL", <<>>)
       ELSE TextFn(st, atoms)
  ELSE IF f.kind \in {"HTML", "TEMPLATE", "LINK", "URL"} THEN TextFn(st, atoms)
  ELSE IF f.kind = "TABLE_CELL" /\ ~st.bol /\ ~st.wsp THEN TextFn(st, atoms)
  ELSE TableHdrLoop(Pop(st), atoms)

VbarFn(st) == IF Have(st, {"TABLE"}) THEN TableCellFn(st, <<"|">>) ELSE TextFn(st, <<"|">>)

\* [st, kind]: kind = the last frame kind the loop looked at
RECURSIVE DvbLoop(_)
DvbLoop(st) ==
  LET f == Top(st) IN
  IF st.stuck THEN [st |-> st, k |-> "X", txt |-> FALSE]
  ELSE IF f.kind = "TABLE_ROW" THEN [st |-> st, k |-> "TABLE_ROW", txt |-> FALSE]
  ELSE IF f.kind = "TABLE" THEN [st |-> Push(st, "TABLE_ROW", <<>>), k |-> "TABLE", txt |-> FALSE]
  ELSE IF f.kind \in {"TABLE_CAPTION", "HTML"} THEN [st |-> st, k |-> f.kind, txt |-> TRUE]
  ELSE IF f.kind \in {"TABLE_CELL", "TABLE_HEADER_CELL"} THEN DvbLoop(Pop(st))
  ELSE [st |-> st, k |-> f.kind, txt |-> FALSE]
DoubleVbarFn(st0) ==
  LET r == DvbLoop(st0)
      f == Top(r.st) IN
  IF r.st.stuck THEN r.st
  ELSE IF r.txt THEN TextFn(r.st, <<"|", "|">>)
  ELSE IF r.k = "TABLE_ROW" /\ LastIsNode(f) /\ LastNode(f).kind = "TABLE_HEADER_CELL"
  THEN TableHdrCellFn(r.st, <<"|", "|">>)
  ELSE TableCellFn(r.st, <<"|", "|">>)

TableStartFn(st) ==
  IF st.pre THEN TextFn(st, <<"{", "|">>)
  ELSE IF ~(st.bol \/ st.wsp) THEN VbarFn(TextFn(st, <<"{">>))
  ELSE Push(CloseBeglineLists(st), "TABLE", <<>>)

\* "{||" : table start + "|", or "{" + "||"
MistokenizedStartFn(st) ==
  IF st.pre THEN TextFn(st, <<"{", "|", "|">>)
  ELSE IF ~(st.bol \/ st.wsp) THEN DoubleVbarFn(TextFn(st, <<"{">>))
  ELSE VbarFn(TableStartFn(st))

RECURSIVE ContainsKind(_, _)
ContainsKindIn(lst, kind) == \E i \in 1..Len(lst) : ~IsStr(lst[i]) /\ (lst[i].kind = kind \/ ContainsKind(lst[i], kind))
ContainsKind(n, kind) == ContainsKindIn(n.children, kind) \/ \E k \in 1..Len(n.largs) : ContainsKindIn(n.largs[k], kind)

TableCaptionFn(st0) ==
  IF st0.pre THEN TextFn(st0, <<"|", "+">>)
  ELSE IF ~(st0.bol \/ st0.wsp) THEN TextFn(VbarFn(st0), <<"+">>)
  ELSE LET st1 == TableCheckAttrs(CloseBeglineLists(st0)) IN
       IF st1.stuck THEN st1
       ELSE IF ~Have(st1, {"TABLE"}) THEN TextFn(st1, <<"|", "+">>)
       ELSE Push(PopUntil(st1, {"TABLE"}), "TABLE_CAPTION", <<>>)
TableRowFn(st0) ==
  IF st0.pre THEN TextFn(st0, <<"|", "-">>)
  ELSE IF ~(st0.bol \/ st0.wsp)
  THEN IF Top(st0).kind = "TABLE" /\ ~ContainsKind(Top(st0), "TABLE_ROW") THEN st0
       ELSE TextFn(VbarFn(st0), <<"-">>)
  ELSE LET st1 == TableCheckAttrs(CloseBeglineLists(st0)) IN
       IF st1.stuck THEN st1
       ELSE IF ~Have(st1, {"TABLE"}) THEN TextFn(st1, <<"|", "-">>)
       ELSE Push(PopUntil(st1, {"TABLE"}), "TABLE_ROW", <<>>)
TableEndFn(st0) ==
  IF st0.pre THEN TextFn(st0, <<"|", "}">>)
  ELSE IF ~(st0.bol \/ st0.wsp) THEN TextFn(VbarFn(st0), <<"}">>)
  ELSE LET st1 == TableCheckAttrs(TableRowCheckAttrs(CloseBeglineLists(st0))) IN
       IF st1.stuck THEN st1
       ELSE IF ~Have(st1, {"TABLE"}) THEN TextFn(st1, <<"|", "}">>)
       ELSE Pop(PopUntil(st1, {"TABLE"}))

(* ----------------------------------------------------------------- tag_fn *)
HaveTag(st, name) == \E i \in 1..Len(st.stack) : st.stack[i].kind = "HTML" /\ st.stack[i].sarg = <<name>>
\* auto-close HTML parents that may not contain this tag
RECURSIVE CloseParents(_, _)
CloseParents(st, name) ==
  LET f == Top(st) IN
  IF st.stuck \/ f.kind # "HTML" THEN st
  ELSE IF f.sarg[1] \in PermittedParents(name) THEN st
  ELSE CloseParents(Pop(st), name)
TagStartFn(st0, name, attrs, alsoEnd, txt) ==
  LET st1 == CloseBeglineLists(st0) IN
  IF st1.stuck THEN st1
  ELSE IF st1.pre THEN TextFn(st1, <<txt>>)
  ELSE IF name = "pre"
  THEN IF alsoEnd THEN Pop(PushA(st1, "PRE", <<>>, attrs))
       ELSE [PushA(st1, "PRE", <<>>, attrs) EXCEPT !.pre = TRUE]
  ELSE IF name \notin ModelledTags THEN TextFn(st1, <<txt>>)
  ELSE LET st2 == PushA(CloseParents(st1, name), "HTML", <<name>>, attrs) IN
       IF st2.stuck THEN st2
       ELSE IF NoEndTag(name) \/ alsoEnd THEN Pop(st2) ELSE st2

\* which of "matching HTML frame" / "LIST_ITEM" comes first from the top
RECURSIVE EndTagCloses(_, _, _)
EndTagCloses(stack, i, name) ==
  IF i = 0 THEN FALSE
  ELSE IF stack[i].kind = "HTML" /\ stack[i].sarg = <<name>> THEN FALSE
  ELSE IF stack[i].kind = "LIST_ITEM" THEN TRUE
  ELSE EndTagCloses(stack, i - 1, name)
RECURSIVE CloseToTag(_, _)
CloseToTag(st, name) ==
  LET f == Top(st) IN
  IF st.stuck THEN st
  ELSE IF f.kind = "HTML" /\ f.sarg = <<name>> THEN Pop(st)
  ELSE CloseToTag(Pop(st), name)
\* ---- begin C02 (round 8): model deviation "PreModeLeftOnStrayEnd" (never switched on by C01) ----
\* </pre> leaves the non-interpreting mode (ctx.pre_parse) only together with a PRE node on top of the stack: when
\* the PRE node has been closed by something else (close_begline_lists: text at the start of the next line of a
\* list item) the end tag is "unexpected" and the mode stays switched on
PreModeKept(st) == "PreModeLeftOnStrayEnd" \in st.dev /\ st.pre /\ Top(st).kind # "PRE"
\* ---- end C02 (round 8) ----
TagEndFn(st0, name, txt) ==
  LET st1 == IF EndTagCloses(st0.stack, Len(st0.stack), name) THEN CloseBeglineLists(st0) ELSE st0 IN
  IF st1.stuck THEN st1
  ELSE IF name = "pre"
  THEN LET st2 == [st1 EXCEPT !.pre = PreModeKept(st1)] IN
       IF Top(st2).kind # "PRE" THEN TextFn(st2, <<txt>>) ELSE Pop(st2)
  ELSE IF st1.pre THEN TextFn(st1, <<txt>>)
  ELSE IF ~HaveTag(st1, name)
  THEN IF name = "br" THEN SetTop(st1, AppendNode(Top(st1), Leaf("HTML", <<name>>, <<>>)))
       ELSE TextFn(st1, <<txt>>)
  ELSE CloseToTag(st1, name)

(* ------------------------------------------- magic_fn / magicword / url -- *)
\* T, A, L, E cookies with plain-word arguments: close lists, append a leaf
MagicLeaf(k) ==
  CASE k = "T" -> Leaf("TEMPLATE", <<>>, << <<[s |-> <<"t">>]>> >>)
    [] k = "A" -> Leaf("TEMPLATE_ARG", <<>>, << <<[s |-> <<"1">>]>> >>)
    [] k = "L" -> Leaf("LINK", <<>>, << <<[s |-> <<"L">>]>> >>)
    [] k = "E" -> Leaf("URL", <<>>, << <<[s |-> <<"url">>]>>, <<[s |-> <<"w">>]>> >>)
    [] k = "F" -> Leaf("FILLER", <<>>, <<>>)
TemplateNL == Leaf("TEMPLATE", <<>>, << <<[s |-> <<"t", "NL">>]>>, <<[s |-> <<"a">>]>> >>)
MagicFn(st0, k, nl) ==
  LET st1 == CloseBeglineLists(st0) IN
  IF st1.stuck THEN st1
  ELSE IF k = "T" /\ nl > 0 THEN SetTop(st1, AppendNode(Top(st1), TemplateNL))
  ELSE IF k = "N" THEN TextFn([st1 EXCEPT !.bol = FALSE], <<"nowiki">>)   \* magic_fn cleared beginning_of_line
  \* an empty payload: text_fn("") appends an empty string, which the merge of string children drops again -
  \* the tree is unchanged (no empty string may survive: WellFormed), only beginning_of_line is cleared
  ELSE IF k = "NE" THEN [st1 EXCEPT !.bol = FALSE]
  ELSE SetTop(st1, AppendNode(Top(st1), MagicLeaf(k)))
MagicWordFn(st0) ==
  LET st1 == CloseBeglineLists(st0) IN
  IF st1.stuck THEN st1 ELSE SetTop(st1, AppendNode(Top(st1), Leaf("MAGIC_WORD", <<"__NOTOC__">>, <<>>)))
UrlFn(st0) ==
  LET st1 == CloseBeglineLists(st0) IN
  IF st1.stuck THEN st1
  ELSE IF st1.pre THEN TextFn(st1, <<"url">>)
  ELSE SetTop(st1, AppendNode(Top(st1), Leaf("URL", <<>>, << <<[s |-> <<"url">>]>> >>)))

(* ------------------------------------------------------------ dispatch ---- *)
\* tokens: [k |-> kind (, more)]; the text a token turns into when it is not special
NewLines(tok) == IF tok.k = "NL" THEN 1 ELSE IF tok.k = "MAGIC" /\ "nl" \in DOMAIN tok THEN tok.nl ELSE 0
TokAtoms(tok) ==
  CASE tok.k = "TXT" -> tok.a
    [] tok.k = "SP"  -> [i \in 1..tok.n |-> "SP"]
    [] tok.k = "NL"  -> <<"NL">>
    [] tok.k = "HS"  -> EqAtoms(tok.l)
    [] tok.k = "HE"  -> EqAtoms(tok.l)
    [] tok.k = "LP"  -> tok.p
    [] tok.k = "HR"  -> <<"----">>
    [] tok.k = "IT"  -> <<"''">>
    [] tok.k = "BO"  -> <<"'''">>
    [] tok.k = "TS"  -> <<"{", "|">>
    [] tok.k = "TE"  -> <<"|", "}">>
    [] tok.k = "TR"  -> <<"|", "-">>
    [] tok.k = "TC"  -> <<"|", "+">>
    [] tok.k = "VB"  -> <<"|">>
    [] tok.k = "DVB" -> <<"|", "|">>
    [] tok.k = "EX"  -> <<"!">>
    [] tok.k = "DEX" -> <<"!", "!">>
    [] tok.k = "TAG" -> <<tok.txt>>
    [] tok.k = "MTS" -> <<"{", "|", "|">>
    [] tok.k = "MAGIC" -> (IF tok.m = "N" THEN <<"nowiki">>
                           ELSE IF tok.m = "NE" THEN <<>>
                           ELSE IF NewLines(tok) > 0 THEN <<"magicTN">> ELSE <<"magic" \o tok.m>>)
    [] tok.k = "MW"  -> <<"__NOTOC__">>
    [] tok.k = "URL" -> <<"url">>

Handle(st, tok) ==
  IF Top(st).kind = "PRE" /\ ~(tok.k = "TAG" /\ tok.close /\ tok.name = "pre")
  THEN IF TokAtoms(tok) = <<>> THEN st ELSE
       TextFn(st, TokAtoms(tok))        \* process_text: inside <pre> everything is text
  ELSE CASE tok.k \in {"TXT", "SP", "NL"} -> TextFn(st, TokAtoms(tok))
         [] tok.k = "HS"  -> SubtitleStart(st, tok.l)
         [] tok.k = "HE"  -> SubtitleEnd(st, tok.l)
         [] tok.k = "LP"  -> ListFn(st, tok.p)
         [] tok.k = "HR"  -> (IF st.bol THEN HlineFn(st) ELSE TextFn(st, <<"----">>))
         [] tok.k = "IT"  -> FormatFn(st, "ITALIC", <<"''">>)
         [] tok.k = "BO"  -> FormatFn(st, "BOLD", <<"'''">>)
         [] tok.k = "TS"  -> TableStartFn(st)
         [] tok.k = "TE"  -> TableEndFn(st)
         [] tok.k = "TR"  -> TableRowFn(st)
         [] tok.k = "TC"  -> TableCaptionFn(st)
         [] tok.k = "VB"  -> VbarFn(st)
         [] tok.k = "DVB" -> DoubleVbarFn(st)
         [] tok.k = "EX"  -> TableHdrCellFn(st, <<"!">>)
         [] tok.k = "DEX" -> TableHdrCellFn(st, <<"!", "!">>)
         [] tok.k = "TAG" -> (IF tok.close THEN TagEndFn(st, tok.name, tok.txt)
                              ELSE TagStartFn(st, tok.name, tok.attrs, tok.self, tok.txt))
         [] tok.k = "MTS" -> MistokenizedStartFn(st)
         [] tok.k = "MAGIC" -> MagicFn(st, tok.m, NewLines(tok))
         [] tok.k = "MW"  -> MagicWordFn(st)
         [] tok.k = "URL" -> UrlFn(st)

\* process_text: handler, then linenum / wsp_beginning_of_line / beginning_of_line
Step(st, tok) ==
  IF st.stuck THEN st
  ELSE LET r == Handle(st, tok) IN
       [r EXCEPT !.line = r.line + NewLines(tok),
                 !.wsp = st.bol /\ tok.k \in {"SP", "NL"},
                 !.bol = (tok.k = "NL")]
RECURSIVE Feed(_, _, _)
Feed(st, toks, i) == IF i > Len(toks) THEN st ELSE Feed(Step(st, toks[i]), toks, i + 1)

InitState(Dev) == [stack |-> << Frame("ROOT", <<>>, 0) >>, bol |-> TRUE, wsp |-> FALSE, line |-> 1,
                   pre |-> FALSE, stuck |-> FALSE, dev |-> Dev]

(* parse_encoded after process_text: pop everything, return the root; the    *)
(* `finally` empties the stack                                               *)
RECURSIVE PopAll(_)
PopAll(st) == IF Len(st.stack) = 1 \/ st.stuck THEN st ELSE PopAll(Pop(st))
Finish(st) ==
  LET st1 == PopAll(st) IN
  [root |-> NodeOf(st1.stack[1]),
   stack |-> 0,                                         \* ctx.parser_stack = [] in the finally
   pre |-> IF "PreParseLeftSet" \in st.dev THEN st1.pre ELSE FALSE,
   stuck |-> st1.stuck]

(* -------------------------------------------------- tokenizer (token_iter) *)
(* Input: a sequence of chunks (strings naming a piece of source text).      *)
(* Lines are separated by "NL" chunks.                                        *)
MarkerChunks == {"*", "#", ";", ":"}
EqLen(c) == CASE c = "EQ1" -> 1 [] c = "EQ2" -> 2 [] c = "EQ3" -> 3 [] c = "EQ4" -> 4
              [] c = "EQ5" -> 5 [] c = "EQ6" -> 6 [] OTHER -> 0
QLen(c) == CASE c = "Q2" -> 2 [] c = "Q3" -> 3 [] c = "Q5" -> 5 [] OTHER -> 0

\* a chunk that is always the same token, wherever it stands
FixedTok(c) ==
  CASE c = "W"     -> [k |-> "TXT", a |-> <<"w">>]
    [] c = "ATTR"  -> [k |-> "TXT", a |-> <<"a=b">>]
    [] c = ":"     -> [k |-> "LP", p |-> <<":">>]
    [] c = "SPAN"  -> [k |-> "TAG", txt |-> "<span>", name |-> "span", close |-> FALSE, self |-> FALSE, attrs |-> <<>>]
    [] c = "SPANA" -> [k |-> "TAG", txt |-> "<span class=\"c\">", name |-> "span", close |-> FALSE, self |-> FALSE, attrs |-> <<"class">>]
    [] c = "ESPAN" -> [k |-> "TAG", txt |-> "</span>", name |-> "span", close |-> TRUE, self |-> FALSE, attrs |-> <<>>]
    [] c = "DIV"   -> [k |-> "TAG", txt |-> "<div>", name |-> "div", close |-> FALSE, self |-> FALSE, attrs |-> <<>>]
    [] c = "EDIV"  -> [k |-> "TAG", txt |-> "</div>", name |-> "div", close |-> TRUE, self |-> FALSE, attrs |-> <<>>]
    [] c = "BR"    -> [k |-> "TAG", txt |-> "<br>", name |-> "br", close |-> FALSE, self |-> FALSE, attrs |-> <<>>]
    [] c = "EBR"   -> [k |-> "TAG", txt |-> "</br>", name |-> "br", close |-> TRUE, self |-> FALSE, attrs |-> <<>>]
    [] c = "SPANS" -> [k |-> "TAG", txt |-> "<span/>", name |-> "span", close |-> FALSE, self |-> TRUE, attrs |-> <<>>]
    [] c = "REF"   -> [k |-> "TAG", txt |-> "<ref>", name |-> "ref", close |-> FALSE, self |-> FALSE, attrs |-> <<>>]
    [] c = "EREF"  -> [k |-> "TAG", txt |-> "</ref>", name |-> "ref", close |-> TRUE, self |-> FALSE, attrs |-> <<>>]
    [] c = "UL"    -> [k |-> "TAG", txt |-> "<ul>", name |-> "ul", close |-> FALSE, self |-> FALSE, attrs |-> <<>>]
    [] c = "EUL"   -> [k |-> "TAG", txt |-> "</ul>", name |-> "ul", close |-> TRUE, self |-> FALSE, attrs |-> <<>>]
    [] c = "LI"    -> [k |-> "TAG", txt |-> "<li>", name |-> "li", close |-> FALSE, self |-> FALSE, attrs |-> <<>>]
    [] c = "ELI"   -> [k |-> "TAG", txt |-> "</li>", name |-> "li", close |-> TRUE, self |-> FALSE, attrs |-> <<>>]
    [] c = "PRE"   -> [k |-> "TAG", txt |-> "<pre>", name |-> "pre", close |-> FALSE, self |-> FALSE, attrs |-> <<>>]
    [] c = "EPRE"  -> [k |-> "TAG", txt |-> "</pre>", name |-> "pre", close |-> TRUE, self |-> FALSE, attrs |-> <<>>]
    [] c = "UNK"   -> [k |-> "TAG", txt |-> "<foo>", name |-> "foo", close |-> FALSE, self |-> FALSE, attrs |-> <<>>]
    [] c = "EUNK"  -> [k |-> "TAG", txt |-> "</foo>", name |-> "foo", close |-> TRUE, self |-> FALSE, attrs |-> <<>>]
    [] c = "MT"    -> [k |-> "MAGIC", m |-> "T"]
    [] c = "MTN"   -> [k |-> "MAGIC", m |-> "T", nl |-> 1]      \* a template call with a newline inside
    [] c = "MA"    -> [k |-> "MAGIC", m |-> "A"]
    [] c = "ML"    -> [k |-> "MAGIC", m |-> "L"]
    [] c = "ME"    -> [k |-> "MAGIC", m |-> "E"]
    [] c = "MN"    -> [k |-> "MAGIC", m |-> "N"]
    [] c = "MNE"   -> [k |-> "MAGIC", m |-> "NE"]               \* <nowiki></nowiki>: a nowiki cookie with an empty payload
    [] c = "FIL"   -> [k |-> "MAGIC", m |-> "F"]
    [] c = "MW"    -> [k |-> "MW"]
    [] c = "URL"   -> [k |-> "URL"]
IsQ(c) == QLen(c) > 0
(* A line is first expanded into items: the punctuation chunks become their    *)
(* characters ("{", "|", "}", "+", "-", "!", " "), adjacent "=" chunks merge,  *)
(* every other chunk is one opaque item.  The token regular expression is then *)
(* applied to the items in the order of token_list:                            *)
(*   |}  {||  {|  |+  |-  !!  ^[ \t]*!  ^|  ||  |  ^----+  ^[*:;#]+  [ \t]+  :  *)
PunctChars(c) ==
  CASE c = "SP" -> <<" ">>
    [] c = "TS" -> <<"{", "|">>   [] c = "TE" -> <<"|", "}">>
    [] c = "TR" -> <<"|", "-">>   [] c = "TC" -> <<"|", "+">>
    [] c = "VB" -> <<"|">>        [] c = "DVB" -> <<"|", "|">>
    [] c = "EX" -> <<"!">>        [] c = "DEX" -> <<"!", "!">>
    [] c = "HR" -> <<"-", "-", "-", "-">>
    [] OTHER -> <<c>>
\* runs of more than six "=" never delimit a heading in the modelled universes
EqNames == <<"EQ1", "EQ2", "EQ3", "EQ4", "EQ5", "EQ6", "EQ7", "EQ8", "EQ9", "EQ10", "EQ11", "EQ12", "EQ13", "EQ14", "EQ15">>
EqName(n) == EqNames[n]
EqTotal(c) == IF \E n \in 1..15 : EqNames[n] = c THEN CHOOSE n \in 1..15 : EqNames[n] = c ELSE 0
RECURSIVE Items(_, _, _)
Items(line, i, acc) ==
  IF i > Len(line) THEN acc
  ELSE IF EqLen(line[i]) > 0 /\ acc # <<>> /\ EqTotal(Last(acc)) > 0
  THEN Items(line, i + 1, Append(DropLast(acc), EqName(EqTotal(Last(acc)) + EqLen(line[i]))))
  ELSE Items(line, i + 1, acc \o PunctChars(line[i]))

RECURSIVE RunEndQ(_, _)
RunEndQ(line, i) == IF i <= Len(line) /\ IsQ(line[i]) THEN RunEndQ(line, i + 1) ELSE i
RECURSIVE RunEndC(_, _, _)
RunEndC(line, i, ch) == IF i <= Len(line) /\ line[i] = ch THEN RunEndC(line, i + 1, ch) ELSE i
RECURSIVE RunEndMarker(_, _)
RunEndMarker(line, i) == IF i <= Len(line) /\ line[i] \in MarkerChunks THEN RunEndMarker(line, i + 1) ELSE i
RECURSIVE SumQ(_, _, _)
SumQ(line, i, j) == IF i >= j THEN 0 ELSE QLen(line[i]) + SumQ(line, i + 1, j)
\* bold_follows: a later apostrophe run of length >= 3 on the same line
RECURSIVE BoldFollows(_, _)
BoldFollows(line, i) ==
  IF i > Len(line) THEN FALSE
  ELSE IF IsQ(line[i])
       THEN LET j == RunEndQ(line, i) IN SumQ(line, i, j) >= 3 \/ BoldFollows(line, j)
       ELSE BoldFollows(line, i + 1)
\* (q marks text that token_iter yields separately: it is not merged with its neighbours)
Apos(n) == IF n > 0 THEN << [k |-> "TXT", a |-> [i \in 1..n |-> "'"], q |-> TRUE] >> ELSE <<>>
IT == [k |-> "IT"]
BO == [k |-> "BO"]
\* tokens for an apostrophe run of length n in state s (0 none, 1 italic, 2 bold, 3 both)
QuoteToks(n, s, follows) ==
  IF n >= 5
  THEN CASE s = 1 -> [t |-> <<IT, BO>> \o Apos(n - 5), s |-> 2]
         [] s = 2 -> [t |-> <<BO, IT>> \o Apos(n - 5), s |-> 1]
         [] s = 3 -> [t |-> <<BO, IT>> \o Apos(n - 5), s |-> 0]
         [] s = 0 -> [t |-> (IF follows THEN <<IT, BO>> ELSE <<BO, IT>>) \o Apos(n - 5), s |-> 3]
  ELSE IF n >= 3
  THEN CASE s = 1 -> (IF follows THEN [t |-> <<BO>> \o Apos(n - 3), s |-> 3]
                      ELSE [t |-> <<IT>> \o Apos(n - 2), s |-> 0])
         [] s = 2 -> [t |-> <<BO>> \o Apos(n - 3), s |-> 0]
         [] s = 3 -> [t |-> <<BO>> \o Apos(n - 3), s |-> 1]
         [] s = 0 -> [t |-> <<BO>> \o Apos(n - 3), s |-> 2]
  ELSE CASE s = 1 -> [t |-> <<IT>>, s |-> 0]
         [] s = 2 -> [t |-> <<IT>>, s |-> 3]
         [] s = 3 -> [t |-> <<IT>>, s |-> 2]
         [] s = 0 -> [t |-> <<IT>>, s |-> 1]

IsMarker(c) == c \in MarkerChunks
AllSP(line) == \A i \in 1..Len(line) : line[i] = " "
Txt(atoms) == [k |-> "TXT", a |-> atoms]
At(line, i) == IF i <= Len(line) THEN line[i] ELSE "END"

\* tokens of the rest of a non-heading line from item i on; first = still in
\* the first apostrophe-free part (where ^-anchored tokens can match at i = 1)
RECURSIVE LineToks(_, _, _, _)
LineToks(line, i, s, first) ==
  IF i > Len(line) THEN <<>>
  ELSE LET c == line[i]
           n1 == At(line, i + 1)
           n2 == At(line, i + 2)
           bol == (i = 1 /\ first)
           Go(toks, j) == toks \o LineToks(line, j, s, first)
       IN
    IF IsQ(c)
    THEN LET j == RunEndQ(line, i)
             q == QuoteToks(SumQ(line, i, j), s, BoldFollows(line, j))
         IN q.t \o LineToks(line, j, q.s, FALSE)
    ELSE IF c = "|"
    THEN IF n1 = "}" THEN Go(<<[k |-> "TE"]>>, i + 2)
         ELSE IF n1 = "+" THEN Go(<<[k |-> "TC"]>>, i + 2)
         ELSE IF n1 = "-" THEN Go(<<[k |-> "TR"]>>, i + 2)
         ELSE IF bol THEN Go(<<[k |-> "VB"]>>, i + 1)                 \* ^\| comes before \|\|
         ELSE IF n1 = "|" THEN Go(<<[k |-> "DVB"]>>, i + 2)
         ELSE Go(<<[k |-> "VB"]>>, i + 1)
    ELSE IF c = "{"
    THEN IF n1 = "|" /\ n2 = "|" THEN Go(<<[k |-> "MTS"]>>, i + 3)
         ELSE IF n1 = "|" THEN Go(<<[k |-> "TS"]>>, i + 2)
         ELSE Go(<<Txt(<<"{">>)>>, i + 1)
    ELSE IF c = "!"
    THEN IF n1 = "!" THEN Go(<<[k |-> "DEX"]>>, i + 2)
         ELSE IF bol THEN Go(<<[k |-> "EX"]>>, i + 1)
         ELSE Go(<<Txt(<<"!">>)>>, i + 1)
    ELSE IF c = " "
    THEN LET j == RunEndC(line, i, " ") IN
         \* "^[ \t]*!" : leading blanks directly before ! at the line start belong to the token
         IF bol /\ At(line, j) = "!" THEN Go(<<[k |-> "EX"]>>, j + 1)
         ELSE Go(<<[k |-> "SP", n |-> j - i]>>, j)
    ELSE IF c = "-"
    THEN LET j == RunEndC(line, i, "-") IN
         IF bol /\ j - i >= 4 THEN Go(<<[k |-> "HR"]>>, j)             \* ^----+
         ELSE Go(<<Txt([x \in 1..(j - i) |-> "-"])>>, j)
    ELSE IF c \in {"}", "+"} THEN Go(<<Txt(<<c>>)>>, i + 1)
    ELSE IF bol /\ IsMarker(c)
    THEN LET j == RunEndMarker(line, 1) IN Go(<<[k |-> "LP", p |-> SubSeq(line, 1, j - 1)]>>, j)
    ELSE IF c \in {"*", "#", ";"} THEN Go(<<Txt(<<c>>)>>, i + 1)
    ELSE IF EqTotal(c) > 0 THEN Go(<<Txt(EqAtoms(EqTotal(c)))>>, i + 1)
    ELSE Go(<<FixedTok(c)>>, i + 1)

\* text between two tokens is one text token
RECURSIVE MergeText(_, _)
MergeText(toks, acc) ==
  IF toks = <<>> THEN acc
  ELSE LET t == toks[1] IN
       IF acc # <<>> /\ t.k = "TXT" /\ Last(acc).k = "TXT" /\ "q" \notin DOMAIN t /\ "q" \notin DOMAIN Last(acc)
       THEN MergeText(Tail(toks), Append(DropLast(acc), Txt(Last(acc).a \o t.a)))
       ELSE MergeText(Tail(toks), Append(acc, t))

\* header_re: ^(={1,6})\s*(([^=]|=[^=])+?)\s*(={1,6})\s*$
RECURSIVE LastNonSP(_, _)
LastNonSP(line, i) == IF i = 0 THEN 0 ELSE IF line[i] # " " THEN i ELSE LastNonSP(line, i - 1)
RECURSIVE Strip(_)
Strip(seq) ==
  IF seq = <<>> THEN seq
  ELSE IF seq[1] = " " THEN Strip(Tail(seq))
  ELSE IF Last(seq) = " " THEN Strip(DropLast(seq))
  ELSE seq
IsHeading(line) ==
  LET j == LastNonSP(line, Len(line)) IN
  /\ Len(line) >= 3 /\ EqLen(line[1]) > 0 /\ j >= 3 /\ EqLen(line[j]) > 0
  /\ \A m \in 2..(j - 1) : EqTotal(line[m]) = 0
HeadingToks(line) ==
  LET j == LastNonSP(line, Len(line))
      a == EqLen(line[1])
      b == EqLen(line[j])
      l == IF a < b THEN a ELSE b
      raw == SubSeq(line, 2, j - 1)
      \* the title group needs one character: of an all-blank middle it keeps the last blank
      mid == IF AllSP(raw) THEN <<" ">> ELSE Strip(raw)
      \* surplus "=" of the longer delimiter belong to the title
      title == (IF a > b THEN <<EqName(a - b)>> ELSE <<>>) \o mid \o (IF b > a THEN <<EqName(b - a)>> ELSE <<>>)
  IN <<[k |-> "HS", l |-> l]>>
     \o (IF AllSP(title) THEN <<>> ELSE MergeText(LineToks(title, 1, 0, TRUE), <<>>))   \* token_iter(mid)
     \o <<[k |-> "HE", l |-> l]>>
LineTokens(chunks) ==
  LET line == Items(chunks, 1, <<>>) IN
  IF AllSP(line) THEN <<>>                   \* whitespace-only lines are skipped
  ELSE IF IsHeading(line) THEN HeadingToks(line)
  ELSE MergeText(LineToks(line, 1, 0, TRUE), <<>>)

RECURSIVE Tokenize(_, _, _)
\* doc from chunk i on; cur = chunks of the current line so far
Tokenize(doc, i, cur) ==
  IF i > Len(doc) THEN LineTokens(cur)
  ELSE IF doc[i] = "NL" THEN LineTokens(cur) \o <<[k |-> "NL"]>> \o Tokenize(doc, i + 1, <<>>)
  ELSE Tokenize(doc, i + 1, Append(cur, doc[i]))

Parse(doc, Dev) == Finish(Feed(InitState(Dev), Tokenize(doc, 1, <<>>), 1))
=============================================================================
