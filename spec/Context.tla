------------------------------ MODULE Context ------------------------------
(* C09: every piece of state that outlives a call of the processing context, *)
(* with the point at which the code resets it, and page operations as        *)
(* readers / writers of these cells.  A cell is "dirty" when an earlier page  *)
(* left a value in it that differs from a fresh context's.                    *)
(*                                                                          *)
(*   cell                      reset by            (code anchor)             *)
(*   parser   parser_stack, beginning_of_line, linenum, pre_parse            *)
(*                             every parse          parser.py parse_encoded  *)
(*   cookies  cookies, rev_ht  start_page           core.py:1140             *)
(*   path     expand_stack     start_page (and restored by every call)       *)
(*   msgs     errors .. wiki_notices, section       start_page               *)
(*   strip    strip_marker_cache                    start_page               *)
(*   luastk   lua_env_stack, lua_frame_stack        start_page / call exit   *)
(*   lglobal  globals of the module environment     every top-level #invoke  *)
(*   lloaded  package.loaded of page modules        every top-level #invoke  *)
(*   ldata    mw.loadData cache                     start_page               *)
(*   lstring  the `string` library table            every top-level #invoke  *)
(*   lsmeta   the string metatable                  (see Dev)                *)
(*   lretain  tables of retained mw libraries        (see Dev)                *)
(*   lobjects objects HANDED OUT by the constructors of the retained         *)
(*            libraries (mw.title.new / makeTitle / getCurrentTitle /         *)
(*            subPageTitle, mw.language.new, mw.html.create, mw.message.new): *)
(*            every request builds a new object      (round 9; see Dev)       *)
(*   memo     get_page memo                          add_page (coherent)      *)
(*   tags     allowed HTML tag table                 per context (see Dev)    *)
(* OPTIONS OF ONE CALL (round 8): the arguments of expand() / parse() are cells  *)
(* too - what one call was given must not be in force for a later call.         *)
(*   cell        argument(s)                       kept in          reset by    *)
(*   otimelimit  timeout=                          _lua_current_max_time, _lua_deadline of the Lua *)
(*                                                 runtime (one per context)                        *)
(*                                                 every top-level #invoke (_lua_set_timeout takes  *)
(*                                                 the limit of THIS call or the default)           *)
(*   oinvoke     expand_invoke=                    locals of the call   every call (own argument / default) *)
(*   oparserfns  expand_parserfns=                 "                    "       *)
(*   opreexpand  pre_expand= (expand and parse)    "                    "       *)
(*   otmplsets   templates_to_expand= / templates_to_not_expand= / additional_expand= / do_not_pre_expand= *)
(*   otmplfns    template_fn= / post_template_fn=  "                    "       *)
(*   oexpandall  expand_all= of parse()            "                    "       *)
(*   oquiet      quiet=                            "                    "       *)
(* Writer kinds (opt...) process ONE probe text with one option set, the reader  *)
(* kind optProbe processes the same text with the defaults; slowModule is the    *)
(* reader of the time limit (a module that runs longer than the small limit of   *)
(* the writers and far shorter than the default).                                *)
(* A page is one atom here; the invocations INSIDE one page (lglobal, lloaded, *)
(* lstring, luastk per #invoke) are modelled in ContextInvoke.tla.             *)
EXTENDS Naturals, Sequences, FiniteSets, TLC

CONSTANT Dev   \* deviations: "ExtensionTagsShared", "StringMetatableShared", "RetainedLibraryTablesShared"
               \* (classes of seeded changes, never as-is:) "TimeLimitKept": a top-level #invoke whose call gives no
               \*    (acceptable) timeout runs under the limit an earlier call left in the Lua runtime;
               \*    "CallOptionsKept": an argument not given to a call keeps the value an earlier call was given
               \*    "HandedOutObjectsMemoised": a constructor of a retained library hands out the object it built for an
               \*    earlier request again (kept in the library, which no reset reaches)

\* options of one call
CallOptCells == {"oinvoke", "oparserfns", "opreexpand", "otmplsets", "otmplfns", "oexpandall", "oquiet"}
OptCells == CallOptCells \cup {"otimelimit"}
Cells == {"parser", "cookies", "path", "msgs", "strip", "luastk", "lglobal", "lloaded", "ldata",
          "lstring", "lsmeta", "lretain", "lobjects", "memo", "tags"} \cup OptCells

\* round 8: kinds about the options of a call
OptWriters == {"optTimeLimit", "optNoInvoke", "optNoParserFns", "optPreExpand", "optTemplateSets", "optTemplateFns", "optQuiet",
               "optAll", "optParsePreExpand", "optParseHooks"}
OptKinds == OptWriters \cup {"optProbe", "optParseProbe", "slowModule"}
\* kinds that take seconds of wall-clock time (the harness keeps them rare)
SlowKinds == {"slowModule", "luaTimeout"}
\* page kinds (the harness has one concrete page per kind)
Kinds == {"unclosedMarkup", "unclosedTable", "preTag", "manyCalls", "templateLoop", "sectionError", "templateNowiki",
          "luaGlobal", "luaString", "luaStringMeta", "luaRequired", "luaRetained", "luaHandedOut", "luaLoadData", "luaLoadJson",
          "luaStripMarker", "luaError", "luaTimeout", "parseExpandAll", "otherContextWithExtTags", "otherContextRedefiningTag", "extTagPage"}
         \cup OptKinds

\* the option set a kind passes to its call: the cells it sets to something else than the default
OptionsOf(k) ==
  CASE k = "optTimeLimit" -> {"otimelimit"}                  \* expand(probe, timeout = small)
    [] k = "luaTimeout" -> {"otimelimit"}                    \* expand(endless loop, timeout = 1)
    [] k = "optNoInvoke" -> {"oinvoke"}                      \* expand(probe, expand_invoke = False)
    [] k = "optNoParserFns" -> {"oparserfns"}                \* expand(probe, expand_parserfns = False)
    [] k = "optPreExpand" -> {"opreexpand"}                  \* expand(probe, pre_expand = True)
    [] k = "optTemplateSets" -> {"opreexpand", "otmplsets"}  \* expand(probe, pre_expand = True, templates_to_expand / _to_not_expand)
    [] k = "optTemplateFns" -> {"otmplfns"}                  \* expand(probe, template_fn, post_template_fn)
    [] k = "optQuiet" -> {"oquiet"}                          \* expand(probe, quiet = True)
    [] k = "optAll" -> CallOptCells \ {"oexpandall"}         \* every option of expand() but the time limit
    [] k = "optParsePreExpand" -> {"opreexpand", "otmplsets"}   \* parse(probe, pre_expand = True, additional_expand, do_not_pre_expand)
    [] k = "optParseHooks" -> {"oexpandall", "otmplfns"}     \* parse(probe, expand_all = True, template_fn, post_template_fn)
    [] k = "parseExpandAll" -> {"oexpandall"}
    [] OTHER -> {}

\* kinds whose call reaches a top-level #invoke (the probe text has one; not when the options keep #invoke unexpanded)
OptLua(k) == k \in OptKinds \ {"optNoInvoke", "optNoParserFns", "optAll", "optParseProbe"}
OptParse(k) == k \in {"optParsePreExpand", "optParseHooks", "optParseProbe"}
IsLua(k) == OptLua(k) \/ k \in {"luaGlobal", "luaString", "luaStringMeta", "luaRequired", "luaRetained", "luaHandedOut", "luaLoadData", "luaLoadJson",
                   "luaStripMarker", "luaError", "luaTimeout"}
IsParse(k) == OptParse(k) \/ k \in {"unclosedMarkup", "unclosedTable", "preTag", "parseExpandAll", "extTagPage"}

\* cells whose value can influence the result of a page of this kind
\* every call reads its options: what the text of the page makes of them (templates / parser functions / #invoke);
\* only an invocation that runs for long reads the time limit (the clock of the sandbox has granules of 1 s)
OptReads(k) ==
  IF k \in {"otherContextWithExtTags", "otherContextRedefiningTag"} THEN {}
  ELSE IF IsParse(k) /\ ~OptParse(k) /\ k # "parseExpandAll" THEN {"opreexpand", "otmplsets", "oexpandall"}
  ELSE CallOptCells \cup (IF k \in SlowKinds THEN {"otimelimit"} ELSE {})
BaseReads(k) ==
  CASE k \in {"unclosedMarkup", "unclosedTable", "preTag"} -> {"parser", "cookies", "tags", "msgs"}
    [] k = "extTagPage" -> {"parser", "cookies", "tags", "msgs"}
    [] k = "parseExpandAll" -> {"parser", "cookies", "path", "msgs", "memo", "tags"}
    \* templateNowiki: a template whose body holds <nowiki>..</nowiki> (its cookie lives in the per-page table)
    [] k \in {"manyCalls", "templateLoop", "sectionError", "templateNowiki"} -> {"cookies", "path", "msgs", "memo"}
    [] k = "luaGlobal" -> {"cookies", "path", "msgs", "luastk", "lglobal"}
    \* the per-invocation `string` table is cloned from the table the string metatable indexes
    [] k = "luaString" -> {"cookies", "path", "msgs", "luastk", "lstring", "lsmeta"}
    [] k = "luaStringMeta" -> {"cookies", "path", "msgs", "luastk", "lsmeta"}
    [] k = "luaRequired" -> {"cookies", "path", "msgs", "luastk", "lloaded", "memo"}
    [] k = "luaRetained" -> {"cookies", "path", "msgs", "luastk", "lretain"}
    \* luaHandedOut: obtains an object from every constructor, reports its writable fields, then writes them
    [] k = "luaHandedOut" -> {"cookies", "path", "msgs", "luastk", "lobjects", "memo"}
    [] k \in {"luaLoadData", "luaLoadJson"} -> {"cookies", "path", "msgs", "luastk", "ldata", "memo"}
    [] k = "luaStripMarker" -> {"cookies", "path", "msgs", "luastk", "strip"}
    [] k \in {"luaError", "luaTimeout"} -> {"cookies", "path", "msgs", "luastk"}
    \* otherContextRedefiningTag: another context whose extension tags give a built-in tag name other data
    [] k \in {"otherContextWithExtTags", "otherContextRedefiningTag"} -> {}
    \* the probe text: a template, a parser function, two #invoke, a template needing pre-expansion, an undefined template
    [] OptLua(k) /\ ~OptParse(k) -> {"cookies", "path", "msgs", "memo", "luastk", "lglobal"}
    [] OptParse(k) -> {"parser", "cookies", "path", "msgs", "memo", "tags"} \cup (IF OptLua(k) THEN {"luastk", "lglobal"} ELSE {})
    [] k \in OptKinds -> {"cookies", "path", "msgs", "memo"}
Reads(k) == BaseReads(k) \cup OptReads(k)

\* cells a page of this kind leaves changed when it returns (after the code's own clean-up)
Writes(k) ==
  (IF IsParse(k) THEN {"cookies", "msgs"} ELSE {})
  \cup (IF k \in {"manyCalls", "templateLoop", "sectionError", "templateNowiki", "parseExpandAll"} THEN {"cookies", "msgs", "memo"} ELSE {})
  \cup (IF IsLua(k) THEN {"cookies", "msgs", "memo"} ELSE {})
  \cup (CASE k = "luaGlobal" -> {"lglobal"}
          [] k = "luaString" -> {"lstring"}
          [] k = "luaStringMeta" -> {"lsmeta"}
          [] k = "luaRequired" -> {"lloaded"}
          [] k = "luaRetained" -> {"lretain"}
          [] k = "luaHandedOut" -> {"lobjects"}
          [] k \in {"luaLoadData", "luaLoadJson"} -> {"ldata"}
          [] k = "luaStripMarker" -> {"strip"}
          [] k \in {"otherContextWithExtTags", "otherContextRedefiningTag"} -> IF "ExtensionTagsShared" \in Dev THEN {"tags"} ELSE {}
          [] OTHER -> {})
  \cup (IF k \in OptKinds \ {"slowModule"} THEN {"cookies", "msgs", "memo"} \cup (IF OptLua(k) THEN {"lglobal"} ELSE {}) ELSE {})
  \* the option set of the call: the locals of the call die with it (a deviation keeps them); the time limit is
  \* stored in the Lua runtime by the top-level #invoke that takes it and stays there
  \cup (OptionsOf(k) \cap {"otimelimit"})
  \cup (IF "CallOptionsKept" \in Dev THEN OptionsOf(k) \cap CallOptCells ELSE {})

\* cells the processing of a page resets before they are read: start_page, then the
\* call itself (parse resets the parser cells; a top-level #invoke resets the Lua environment)
Resets(k) ==
  {"cookies", "path", "msgs", "strip", "luastk", "ldata"}                    \* start_page
  \cup (IF IsParse(k) THEN {"parser"} ELSE {})
  \cup (IF IsLua(k) THEN {"lglobal", "lloaded", "lstring"}
                         \cup (IF "StringMetatableShared" \in Dev THEN {} ELSE {"lsmeta"})
                         \cup (IF "RetainedLibraryTablesShared" \in Dev THEN {} ELSE {"lretain"})
                         \* a constructor builds a new object for every request: nothing written into an earlier one is met
                         \cup (IF "HandedOutObjectsMemoised" \in Dev THEN {} ELSE {"lobjects"})
                         \* _lua_set_timeout: the limit of this call, or the default when the call gives none
                         \cup (IF "TimeLimitKept" \in Dev /\ "otimelimit" \notin OptionsOf(k) THEN {} ELSE {"otimelimit"})
        ELSE {})
  \* every call takes its own arguments (defaults where none is given)
  \cup (IF k \in {"otherContextWithExtTags", "otherContextRedefiningTag"} THEN {}
        ELSE IF "CallOptionsKept" \in Dev THEN OptionsOf(k) \cap CallOptCells ELSE CallOptCells)
\* "memo" is never reset but is coherent with the database (C10), so reading it is harmless
Harmless == {"memo"}

VARIABLES dirty, hist, clean
cvars == <<dirty, hist, clean>>

CInit == dirty = {} /\ hist = <<>> /\ clean = <<>>
Process(k) ==
  LET pre == dirty \ Resets(k)
      interferes == (Reads(k) \cap pre) \ Harmless
  IN /\ dirty' = pre \cup Writes(k)
     /\ hist' = Append(hist, k)
     /\ clean' = Append(clean, interferes)
\* non-interference: no page ever reads a cell that an earlier page left dirty
NonInterference == \A i \in 1..Len(clean) : clean[i] = {}
=============================================================================
