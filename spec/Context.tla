------------------------------ MODULE Context ------------------------------
(* C09: every piece of state that outlives a call of the processing context, *)
(* with the point at which the code resets it, and page operations as        *)
(* readers / writers of these cells.  A cell is "dirty" when an earlier page  *)
(* left a value in it that differs from a fresh context's.                    *)
(*                                                                          *)
(*   cell                      reset by            (code anchor)             *)
(*   parser   parser_stack, beginning_of_line, linenum, pre_parse            *)
(*                             every parse          parser.py parse_encoded  *)
(*   cookies  cookies, rev_ht  start_page           core.py:1140             *)
(*   path     expand_stack     start_page (and restored by every call)       *)
(*   msgs     errors .. wiki_notices, section       start_page               *)
(*   strip    strip_marker_cache                    start_page               *)
(*   luastk   lua_env_stack, lua_frame_stack        start_page / call exit   *)
(*   lglobal  globals of the module environment     every top-level #invoke  *)
(*   lloaded  package.loaded of page modules        every top-level #invoke  *)
(*   ldata    mw.loadData cache                     start_page               *)
(*   lstring  the `string` library table            every top-level #invoke  *)
(*   lsmeta   the string metatable                  (see Dev)                *)
(*   lretain  tables of retained mw libraries        (see Dev)                *)
(*   memo     get_page memo                          add_page (coherent)      *)
(*   tags     allowed HTML tag table                 per context (see Dev)    *)
(* A page is one atom here; the invocations INSIDE one page (lglobal, lloaded, *)
(* lstring, luastk per #invoke) are modelled in ContextInvoke.tla.             *)
EXTENDS Naturals, Sequences, FiniteSets, TLC

CONSTANT Dev   \* deviations: "ExtensionTagsShared", "StringMetatableShared", "RetainedLibraryTablesShared"

Cells == {"parser", "cookies", "path", "msgs", "strip", "luastk", "lglobal", "lloaded", "ldata",
          "lstring", "lsmeta", "lretain", "memo", "tags"}

\* page kinds (the harness has one concrete page per kind)
Kinds == {"unclosedMarkup", "unclosedTable", "preTag", "manyCalls", "templateLoop", "sectionError", "templateNowiki",
          "luaGlobal", "luaString", "luaStringMeta", "luaRequired", "luaRetained", "luaLoadData", "luaLoadJson",
          "luaStripMarker", "luaError", "luaTimeout", "parseExpandAll", "otherContextWithExtTags", "otherContextRedefiningTag", "extTagPage"}

IsLua(k) == k \in {"luaGlobal", "luaString", "luaStringMeta", "luaRequired", "luaRetained", "luaLoadData", "luaLoadJson",
                   "luaStripMarker", "luaError", "luaTimeout"}
IsParse(k) == k \in {"unclosedMarkup", "unclosedTable", "preTag", "parseExpandAll", "extTagPage"}

\* cells whose value can influence the result of a page of this kind
Reads(k) ==
  CASE k \in {"unclosedMarkup", "unclosedTable", "preTag"} -> {"parser", "cookies", "tags", "msgs"}
    [] k = "extTagPage" -> {"parser", "cookies", "tags", "msgs"}
    [] k = "parseExpandAll" -> {"parser", "cookies", "path", "msgs", "memo", "tags"}
    \* templateNowiki: a template whose body holds <nowiki>..</nowiki> (its cookie lives in the per-page table)
    [] k \in {"manyCalls", "templateLoop", "sectionError", "templateNowiki"} -> {"cookies", "path", "msgs", "memo"}
    [] k = "luaGlobal" -> {"cookies", "path", "msgs", "luastk", "lglobal"}
    \* the per-invocation `string` table is cloned from the table the string metatable indexes
    [] k = "luaString" -> {"cookies", "path", "msgs", "luastk", "lstring", "lsmeta"}
    [] k = "luaStringMeta" -> {"cookies", "path", "msgs", "luastk", "lsmeta"}
    [] k = "luaRequired" -> {"cookies", "path", "msgs", "luastk", "lloaded", "memo"}
    [] k = "luaRetained" -> {"cookies", "path", "msgs", "luastk", "lretain"}
    [] k \in {"luaLoadData", "luaLoadJson"} -> {"cookies", "path", "msgs", "luastk", "ldata", "memo"}
    [] k = "luaStripMarker" -> {"cookies", "path", "msgs", "luastk", "strip"}
    [] k \in {"luaError", "luaTimeout"} -> {"cookies", "path", "msgs", "luastk"}
    \* otherContextRedefiningTag: another context whose extension tags give a built-in tag name other data
    [] k \in {"otherContextWithExtTags", "otherContextRedefiningTag"} -> {}

\* cells a page of this kind leaves changed when it returns (after the code's own clean-up)
Writes(k) ==
  (IF IsParse(k) THEN {"cookies", "msgs"} ELSE {})
  \cup (IF k \in {"manyCalls", "templateLoop", "sectionError", "templateNowiki", "parseExpandAll"} THEN {"cookies", "msgs", "memo"} ELSE {})
  \cup (IF IsLua(k) THEN {"cookies", "msgs", "memo"} ELSE {})
  \cup (CASE k = "luaGlobal" -> {"lglobal"}
          [] k = "luaString" -> {"lstring"}
          [] k = "luaStringMeta" -> {"lsmeta"}
          [] k = "luaRequired" -> {"lloaded"}
          [] k = "luaRetained" -> {"lretain"}
          [] k \in {"luaLoadData", "luaLoadJson"} -> {"ldata"}
          [] k = "luaStripMarker" -> {"strip"}
          [] k \in {"otherContextWithExtTags", "otherContextRedefiningTag"} -> IF "ExtensionTagsShared" \in Dev THEN {"tags"} ELSE {}
          [] OTHER -> {})

\* cells the processing of a page resets before they are read: start_page, then the
\* call itself (parse resets the parser cells; a top-level #invoke resets the Lua environment)
Resets(k) ==
  {"cookies", "path", "msgs", "strip", "luastk", "ldata"}                    \* start_page
  \cup (IF IsParse(k) THEN {"parser"} ELSE {})
  \cup (IF IsLua(k) THEN {"lglobal", "lloaded", "lstring"}
                         \cup (IF "StringMetatableShared" \in Dev THEN {} ELSE {"lsmeta"})
                         \cup (IF "RetainedLibraryTablesShared" \in Dev THEN {} ELSE {"lretain"})
        ELSE {})
\* "memo" is never reset but is coherent with the database (C10), so reading it is harmless
Harmless == {"memo"}

VARIABLES dirty, hist, clean
cvars == <<dirty, hist, clean>>

CInit == dirty = {} /\ hist = <<>> /\ clean = <<>>
Process(k) ==
  LET pre == dirty \ Resets(k)
      interferes == (Reads(k) \cap pre) \ Harmless
  IN /\ dirty' = pre \cup Writes(k)
     /\ hist' = Append(hist, k)
     /\ clean' = Append(clean, interferes)
\* non-interference: no page ever reads a cell that an earlier page left dirty
NonInterference == \A i \in 1..Len(clean) : clean[i] = {}
=============================================================================
