SPECIFICATION Spec
CONSTANTS
  Dev <- DevInBand
  B = 3
  RecMax = 1
  Bodies <- BodiesTight
  Kinds <- KindsAll
  MaxDepth = 1
  Progs <- P_ninv
INVARIANT TimeoutNotSwallowed
CHECK_DEADLOCK FALSE
