SPECIFICATION Spec
CONSTANTS
  Dev <- DevSubsectionKept
  Titles <- TitlesOne
  Sections <- SecTwo
  Subsections <- SubThree
  EmitSet <- EmitTwoKinds
  ExpandTexts <- ExpandTables
  ParseTexts <- NoText
  Markers <- MarkersNone
  MaxMsgs = 2
  MaxMarkers = 4
INVARIANT SubsectionClearedByStartSection
CHECK_DEADLOCK FALSE
