SPECIFICATION Spec
CONSTANTS
  Dev <- DevWarningSection
  Titles <- TitlesOne
  Sections <- SecTwo
  Subsections <- SubThree
  EmitSet <- EmitTwoKinds
  ExpandTexts <- ExpandTables
  ParseTexts <- NoText
  Markers <- MarkersNone
  MaxMsgs = 2
  MaxMarkers = 4
INVARIANT StampsTitleSection
CHECK_DEADLOCK FALSE
