SPECIFICATION STSpec
CONSTANTS
  Entries <- K_Entries
  Shapes <- K_Shapes
  Bounds <- K_Bounds
  MaxLen = 3
  MaxLoads = 2
  Dev <- KDevData
  Contexts <- K_CtxInv
  Manips <- K_Manips
INVARIANT StackConfined
CHECK_DEADLOCK FALSE
