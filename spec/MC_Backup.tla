---------------------------- MODULE MC_Backup ----------------------------
(* Bounded instances of Backup for exhaustive model checking.              *)
EXTENDS Backup

DevIdeal == {}
DevWal == {"StaleWalKept"}
DevBak == {"BackupNotAtomic"}
DevAsIs == {"StaleWalKept", "BackupNotAtomic"}
DevMode == {"JournalModeKept"}

StartsBase == {"base"}
StartsAll == {"base", "basedel", "zero", "absent"}
StartsJ == {"basedel", "zero", "absent"}

\* the flows of the library: process_dump(skip_extract_dump) = backup, overwrite;
\* analyze_and_overwrite_pages = overwrite; plain reopen; each with / without close
FlowsLib == [BOC |-> <<"backup", "write", "close">>,
             OC  |-> <<"write", "close">>,
             BC  |-> <<"backup", "close">>,
             C   |-> <<"close">>,
             BOBC |-> <<"backup", "write", "backup", "close">>,
             OBC |-> <<"write", "backup", "close">>]

\* the journal dimension (G): one dedicated library flow whose last overwrite is too large for SQLite's
\* page cache (overwrite, backup, overwrite, big overwrite, close), and the plain reopen
FlowsLibJ == [OBOVC |-> <<"write", "backup", "write", "bigwrite", "close">>,
              C |-> <<"close">>]

\* the journal dimension (M): orders of up to four calls with big overwrites before / after a backup
FlowsFreeJ == [V |-> <<"bigwrite">>, C |-> <<"close">>, B |-> <<"backup">>,
               VC |-> <<"bigwrite", "close">>, BV |-> <<"backup", "bigwrite">>,
               VB |-> <<"bigwrite", "backup">>, WV |-> <<"write", "bigwrite">>,
               BWV |-> <<"backup", "write", "bigwrite">>, BVW |-> <<"backup", "bigwrite", "write">>,
               BVC |-> <<"backup", "bigwrite", "close">>, VBV |-> <<"bigwrite", "backup", "bigwrite">>,
               WBWV |-> <<"write", "backup", "write", "bigwrite">>,
               BWVC |-> <<"backup", "write", "bigwrite", "close">>]

\* every order of up to four calls (two backups / two overwrites in one session,
\* backup after overwrite, ...): the design must be safe for any client
FlowsFree == [B |-> <<"backup">>, W |-> <<"write">>, C |-> <<"close">>,
              BW |-> <<"backup", "write">>, WB |-> <<"write", "backup">>,
              BB |-> <<"backup", "backup">>, WW |-> <<"write", "write">>,
              BWC |-> <<"backup", "write", "close">>, WBC |-> <<"write", "backup", "close">>,
              BWB |-> <<"backup", "write", "backup">>, WBW |-> <<"write", "backup", "write">>,
              BWBW |-> <<"backup", "write", "backup", "write">>,
              BWWC |-> <<"backup", "write", "write", "close">>,
              WBWC |-> <<"write", "backup", "write", "close">>,
              BWBC |-> <<"backup", "write", "backup", "close">>]
=============================================================================
