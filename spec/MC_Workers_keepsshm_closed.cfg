SPECIFICATION Spec
CONSTANTS
  Procs <- P2
  Dev <- DevKeepsShm
  Scenarios <- ScnClosedBak
INVARIANT NoFailure
INVARIANT SerialResults
INVARIANT StoreUnchanged
INVARIANT NoDeadlock
INVARIANT WalAtWork
INVARIANT TxnLockAgree
INVARIANT NoStaleSideFile
INVARIANT NoIdleTransaction
CHECK_DEADLOCK FALSE
