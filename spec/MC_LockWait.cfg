SPECIFICATION Spec
CONSTANTS
  BusyTimeout = 50
  MaxHold = 20
INVARIANT NeverLocked
INVARIANT Emit
PROPERTY EventuallyWrites
CHECK_DEADLOCK FALSE
