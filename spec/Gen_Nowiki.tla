---------------------------- MODULE Gen_Nowiki ----------------------------
EXTENDS Nowiki, Json
CONSTANTS MaxTok, Mode   \* Mode = "nowiki" | "comment"

\* token alphabet for payloads (each token a sequence of characters)
Tokens == { <<"{", "{", "T", "1", "|", "x", "}", "}">>, <<"{", "{", "{", "1", "}", "}", "}">>, <<"[", "[", "a", "]", "]">>,
            <<"{", "|">>, <<"|", "}">>, <<"|", "-">>, <<"*">>, <<"#">>, <<":">>, <<";">>, <<"<", "b", ">">>, <<"<", "/", "b", ">">>,
            <<"'", "'">>, <<"|">>, <<"=", "=">>, <<"_", "_", "T", "O", "C", "_", "_">>, <<"h", "t", "t", "p", ":", "/", "/", "x", ".", "y">>,
            <<"<", "!", "-", "-">>, <<"-", "-", ">">>, <<"<", "/", "n", "o", "w", "i", "k", "i">>, <<"a">>, <<"a", "b", "c">>, <<"SP">>, <<"NL">>,
            <<"-", "-", "-", "-">>, <<"\"">>, <<"!">>, <<"<", "n", "o", "w", "i", "k", "i", ">">> }
RECURSIVE Flat(_)
Flat(ts) == IF ts = <<>> THEN <<>> ELSE Head(ts) \o Flat(Tail(ts))
Payloads == { Flat(ts) : ts \in UNION { [1..n -> Tokens] : n \in 1..MaxTok } }
Contexts == {"top", "targ", "link", "list", "cell", "multi", "upper", "ucarg", "ucbody"}

\* comment documents: text / comment pieces; comment payloads avoid "-->" and nowiki tags
TextPieces == { <<"a">>, <<"b", "NL">>, <<"NL">>, <<"*", "SP", "c">>, <<"{", "{", "T", "1", "|", "x", "}", "}">>, <<"NL", "=", "=", "h", "=", "=", "NL">>, <<>> }
CommentPayloads == { <<"z">>, <<"SP", "{", "{", "T", "1", "}", "}", "SP">>, <<"NL", "*", "NL">>, <<"<", "!", "-", "-">>, <<"|", "}">>, <<>> }
Docs == { <<[k |-> "t", s |-> t1], [k |-> "c", s |-> c1], [k |-> "t", s |-> t2]>> : t1 \in TextPieces, c1 \in CommentPayloads, t2 \in TextPieces }
        \cup { <<[k |-> "t", s |-> t1], [k |-> "c", s |-> c1], [k |-> "c", s |-> c2], [k |-> "t", s |-> t2]>> :
                 t1 \in {<<"a", "NL">>, <<"b">>}, c1 \in CommentPayloads, c2 \in {<<"y">>, <<>>}, t2 \in TextPieces }
        \cup { <<[k |-> "t", s |-> <<"{", "{", "T", "1", "|">> \o t1], [k |-> "c", s |-> c1], [k |-> "t", s |-> <<"q", "}", "}">>]>> :
                 t1 \in {<<"a", "NL">>, <<>>}, c1 \in CommentPayloads }

VARIABLE case
Init == IF Mode = "nowiki" THEN case \in { [ctx |-> x, c |-> c] : x \in Contexts, c \in Payloads }
        ELSE case \in { [doc |-> d] : d \in Docs }
Next == UNCHANGED case
Spec == Init /\ [][Next]_case

Laws == Mode = "nowiki" => Recoverable(case.c) /\ Inert(case.c)
Emit == IF Mode = "nowiki"
        THEN PrintT(<<"CASE", ToJson([ctx |-> case.ctx, input |-> Input(case.ctx, case.c), expanded |-> Expanded(case.ctx, case.c),
                                      path |-> LeafPath(case.ctx), leaf |-> LeafText(case.ctx, case.c), c |-> case.c])>>)
        ELSE PrintT(<<"CASE", ToJson([written |-> Written(case.doc), stripped |-> Strip(case.doc)])>>)
GenInv == Laws /\ Emit
=============================================================================
