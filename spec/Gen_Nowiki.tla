---------------------------- MODULE Gen_Nowiki ----------------------------
EXTENDS Nowiki, Json
CONSTANTS MaxTok, Mode, Depth, DeepAll, FinRule   \* Mode = "nowiki" | "comment" | "nested" (frames up to Depth deep)

\* token alphabet for payloads (each token a sequence of characters)
Tokens == { <<"{", "{", "T", "1", "|", "x", "}", "}">>, <<"{", "{", "{", "1", "}", "}", "}">>, <<"[", "[", "a", "]", "]">>,
            <<"{", "|">>, <<"|", "}">>, <<"|", "-">>, <<"*">>, <<"#">>, <<":">>, <<";">>, <<"<", "b", ">">>, <<"<", "/", "b", ">">>,
            <<"'", "'">>, <<"|">>, <<"=", "=">>, <<"_", "_", "T", "O", "C", "_", "_">>, <<"h", "t", "t", "p", ":", "/", "/", "x", ".", "y">>,
            <<"<", "!", "-", "-">>, <<"-", "-", ">">>, <<"<", "/", "n", "o", "w", "i", "k", "i">>, <<"a">>, <<"a", "b", "c">>, <<"SP">>, <<"NL">>,
            <<"-", "-", "-", "-">>, <<"\"">>, <<"!">>, <<"<", "n", "o", "w", "i", "k", "i", ">">> }
RECURSIVE Flat(_)
Flat(ts) == IF ts = <<>> THEN <<>> ELSE Head(ts) \o Flat(Tail(ts))
Payloads == { Flat(ts) : ts \in UNION { [1..n -> Tokens] : n \in 1..MaxTok } }
Contexts == {"top", "targ", "link", "list", "cell", "multi", "upper", "ucarg", "ucbody"}

\* comment documents: text / comment pieces; comment payloads avoid "-->" and nowiki tags
TextPieces == { <<"a">>, <<"b", "NL">>, <<"NL">>, <<"*", "SP", "c">>, <<"{", "{", "T", "1", "|", "x", "}", "}">>, <<"NL", "=", "=", "h", "=", "=", "NL">>, <<>> }
CommentPayloads == { <<"z">>, <<"SP", "{", "{", "T", "1", "}", "}", "SP">>, <<"NL", "*", "NL">>, <<"<", "!", "-", "-">>, <<"|", "}">>, <<>> }
Docs == { <<[k |-> "t", s |-> t1], [k |-> "c", s |-> c1], [k |-> "t", s |-> t2]>> : t1 \in TextPieces, c1 \in CommentPayloads, t2 \in TextPieces }
        \cup { <<[k |-> "t", s |-> t1], [k |-> "c", s |-> c1], [k |-> "c", s |-> c2], [k |-> "t", s |-> t2]>> :
                 t1 \in {<<"a", "NL">>, <<"b">>}, c1 \in CommentPayloads, c2 \in {<<"y">>, <<>>}, t2 \in TextPieces }
        \cup { <<[k |-> "t", s |-> <<"{", "{", "T", "1", "|">> \o t1], [k |-> "c", s |-> c1], [k |-> "t", s |-> <<"q", "}", "}">>]>> :
                 t1 \in {<<"a", "NL">>, <<>>}, c1 \in CommentPayloads }

\* payloads of the nested universe: between them they hold every character of the entity table,
\* a template call, a link, table / list / heading markup, a magic word, comment delimiters.
\* What the frames do does not depend on the payload (it is one stored item while they are
\* processed), so a case is (frames, options) and carries one variant per payload; contexts of
\* fewer than Depth frames get all four payloads, the deepest ones all four only if DeepAll
\* (else one, chosen by position-weighted frame numbers so that all four occur)
PaySeq == << <<"{", "{", "T", "1", "|", "x", "}", "}", "|", "}">>, <<"[", "[", "a", "]", "]", "=", "=">>,
             <<"_", "_", "T", "O", "C", "_", "_", "<", "!", "-", "-">>, <<"*", "#", ":", ";", "\"", "'", "'", "-", "-", ">">> >>
FrameSeq == <<"text", "link", "ext", "T1", "if", "uc", "inv", "dt", "da", "dl", "ad", "tsib">>
FNum(f) == CHOOSE i \in 1..Len(FrameSeq) : FrameSeq[i] = f
RECURSIVE Weight(_, _)
Weight(fs, k) == IF fs = <<>> THEN 0 ELSE k * FNum(fs[1]) + Weight(Tail(fs), k + 1)
PayIdx(fs) == IF Len(fs) < Depth \/ DeepAll THEN <<1, 2, 3, 4>> ELSE << (Weight(fs, 1) % 4) + 1 >>
NestCases(z) == UNION { { [fs |-> fs, o |-> o] : o \in OptsFor(fs) } : fs \in NestStacks(Depth) }

VARIABLE case
Init == IF Mode = "nested" THEN case \in NestCases(0)
        ELSE IF Mode = "nowiki" THEN case \in { [ctx |-> x, c |-> c] : x \in Contexts, c \in Payloads }
        ELSE case \in { [doc |-> d] : d \in Docs }
Next == UNCHANGED case
Spec == Init /\ [][Next]_case

\* FinRule = "fixpoint": the code (closed form Fin; for contexts of fewer than Depth frames TLC also
\* checks that the pass-by-pass loop gives the same); another rule: that loop, for the Demo configurations
NestVariant(fs, r, c) == [c |-> c, q |-> Quote(c), input |-> NInput(fs, c), must |-> Demand(fs, r),
                          expanded |-> IF FinRule = "fixpoint" THEN Fin(r, c) ELSE FinLoop(r, c, FinRule, 1)]
Laws == /\ Mode = "nowiki" => Recoverable(case.c) /\ Inert(case.c)
        /\ Mode = "nested" => \A i \in 1..Len(PaySeq) : Recoverable(PaySeq[i]) /\ Inert(PaySeq[i])
Emit == IF Mode = "nested"
        THEN \E r \in {NRes(case.fs, case.o)} : \E pi \in {PayIdx(case.fs)} :
             \E vs \in { [i \in 1..Len(pi) |-> NestVariant(case.fs, r, PaySeq[pi[i]])] } :
               \* the statement, checked on the model's own steps: what the model hands out holds no
               \* placeholder and, wherever the stored nowiki survives, its entity-quoted content
               /\ \A i \in 1..Len(vs) : NoPlaceholder(vs[i].expanded) /\ (HasN(r) => Contains(vs[i].expanded, vs[i].q))
               /\ (FinRule = "fixpoint" /\ Len(case.fs) < Depth) => \A i \in 1..Len(vs) : FinLaw(r, vs[i].c)
               /\ PrintT(<<"CASE", ToJson([fs |-> case.fs, o |-> case.o, exact |-> Exact(case.fs), vars |-> vs])>>)
        ELSE IF Mode = "nowiki"
        THEN PrintT(<<"CASE", ToJson([ctx |-> case.ctx, input |-> Input(case.ctx, case.c), expanded |-> Expanded(case.ctx, case.c),
                                      path |-> LeafPath(case.ctx), leaf |-> LeafText(case.ctx, case.c), c |-> case.c])>>)
        ELSE PrintT(<<"CASE", ToJson([written |-> Written(case.doc), stripped |-> Strip(case.doc)])>>)
GenInv == Laws /\ Emit
=============================================================================
