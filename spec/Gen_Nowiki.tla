---------------------------- MODULE Gen_Nowiki ----------------------------
EXTENDS Nowiki, Json
CONSTANTS MaxTok, Mode, Depth   \* Mode = "nowiki" | "comment" | "nested" (frames up to Depth deep)

\* token alphabet for payloads (each token a sequence of characters)
Tokens == { <<"{", "{", "T", "1", "|", "x", "}", "}">>, <<"{", "{", "{", "1", "}", "}", "}">>, <<"[", "[", "a", "]", "]">>,
            <<"{", "|">>, <<"|", "}">>, <<"|", "-">>, <<"*">>, <<"#">>, <<":">>, <<";">>, <<"<", "b", ">">>, <<"<", "/", "b", ">">>,
            <<"'", "'">>, <<"|">>, <<"=", "=">>, <<"_", "_", "T", "O", "C", "_", "_">>, <<"h", "t", "t", "p", ":", "/", "/", "x", ".", "y">>,
            <<"<", "!", "-", "-">>, <<"-", "-", ">">>, <<"<", "/", "n", "o", "w", "i", "k", "i">>, <<"a">>, <<"a", "b", "c">>, <<"SP">>, <<"NL">>,
            <<"-", "-", "-", "-">>, <<"\"">>, <<"!">>, <<"<", "n", "o", "w", "i", "k", "i", ">">> }
RECURSIVE Flat(_)
Flat(ts) == IF ts = <<>> THEN <<>> ELSE Head(ts) \o Flat(Tail(ts))
Payloads == { Flat(ts) : ts \in UNION { [1..n -> Tokens] : n \in 1..MaxTok } }
Contexts == {"top", "targ", "link", "list", "cell", "multi", "upper", "ucarg", "ucbody"}

\* comment documents: text / comment pieces; comment payloads avoid "-->" and nowiki tags
TextPieces == { <<"a">>, <<"b", "NL">>, <<"NL">>, <<"*", "SP", "c">>, <<"{", "{", "T", "1", "|", "x", "}", "}">>, <<"NL", "=", "=", "h", "=", "=", "NL">>, <<>> }
CommentPayloads == { <<"z">>, <<"SP", "{", "{", "T", "1", "}", "}", "SP">>, <<"NL", "*", "NL">>, <<"<", "!", "-", "-">>, <<"|", "}">>, <<>> }
Docs == { <<[k |-> "t", s |-> t1], [k |-> "c", s |-> c1], [k |-> "t", s |-> t2]>> : t1 \in TextPieces, c1 \in CommentPayloads, t2 \in TextPieces }
        \cup { <<[k |-> "t", s |-> t1], [k |-> "c", s |-> c1], [k |-> "c", s |-> c2], [k |-> "t", s |-> t2]>> :
                 t1 \in {<<"a", "NL">>, <<"b">>}, c1 \in CommentPayloads, c2 \in {<<"y">>, <<>>}, t2 \in TextPieces }
        \cup { <<[k |-> "t", s |-> <<"{", "{", "T", "1", "|">> \o t1], [k |-> "c", s |-> c1], [k |-> "t", s |-> <<"q", "}", "}">>]>> :
                 t1 \in {<<"a", "NL">>, <<>>}, c1 \in CommentPayloads }

\* payloads of the nested universe: between them they hold every character of the entity table,
\* a template call, a link, table / list / heading markup, a magic word, comment delimiters;
\* with MaxTok >= 1 every payload of <= MaxTok tokens is used as well
NestPayloads == { <<"{", "{", "T", "1", "|", "x", "}", "}", "|", "}">>, <<"[", "[", "a", "]", "]", "=", "=">>,
                  <<"_", "_", "T", "O", "C", "_", "_", "<", "!", "-", "-">>, <<"*", "#", ":", ";", "\"", "'", "'", "-", "-", ">">> }
                \cup (IF MaxTok >= 1 THEN Payloads ELSE {})
NestCases(z) == UNION { { [fs |-> fs, o |-> o, c |-> c] : o \in OptsFor(fs), c \in NestPayloads } : fs \in NestStacks(Depth) }

VARIABLE case
Init == IF Mode = "nested" THEN case \in NestCases(0)
        ELSE IF Mode = "nowiki" THEN case \in { [ctx |-> x, c |-> c] : x \in Contexts, c \in Payloads }
        ELSE case \in { [doc |-> d] : d \in Docs }
Next == UNCHANGED case
Spec == Init /\ [][Next]_case

Laws == Mode \in {"nowiki", "nested"} => Recoverable(case.c) /\ Inert(case.c)
Emit == IF Mode = "nested"
        THEN PrintT(<<"CASE", ToJson([fs |-> case.fs, o |-> case.o, c |-> case.c, q |-> Quote(case.c), input |-> NInput(case.fs, case.c),
                                      expanded |-> NExpanded(case.fs, case.o, case.c), exact |-> ~Ambiguous(case.fs),
                                      must |-> Demand(case.fs, case.o, case.c)])>>)
        ELSE IF Mode = "nowiki"
        THEN PrintT(<<"CASE", ToJson([ctx |-> case.ctx, input |-> Input(case.ctx, case.c), expanded |-> Expanded(case.ctx, case.c),
                                      path |-> LeafPath(case.ctx), leaf |-> LeafText(case.ctx, case.c), c |-> case.c])>>)
        ELSE PrintT(<<"CASE", ToJson([written |-> Written(case.doc), stripped |-> Strip(case.doc)])>>)
GenInv == Laws /\ Emit
=============================================================================
