---------------------------- MODULE Gen_Nowiki ----------------------------
EXTENDS Nowiki, Json
CONSTANTS MaxTok, Mode, Depth, DeepAll, FinRule   \* Mode = "nowiki" | "comment" (Depth = width of the line layouts) | "nested" (frames up to Depth deep)

\* token alphabet for payloads (each token a sequence of characters)
Tokens == { <<"{", "{", "T", "1", "|", "x", "}", "}">>, <<"{", "{", "{", "1", "}", "}", "}">>, <<"[", "[", "a", "]", "]">>,
            <<"{", "|">>, <<"|", "}">>, <<"|", "-">>, <<"*">>, <<"#">>, <<":">>, <<";">>, <<"<", "b", ">">>, <<"<", "/", "b", ">">>,
            <<"'", "'">>, <<"|">>, <<"=", "=">>, <<"_", "_", "T", "O", "C", "_", "_">>, <<"h", "t", "t", "p", ":", "/", "/", "x", ".", "y">>,
            <<"<", "!", "-", "-">>, <<"-", "-", ">">>, <<"<", "/", "n", "o", "w", "i", "k", "i">>, <<"a">>, <<"a", "b", "c">>, <<"SP">>, <<"NL">>,
            <<"-", "-", "-", "-">>, <<"\"">>, <<"!">>, <<"<", "n", "o", "w", "i", "k", "i", ">">> }
RECURSIVE Flat(_)
Flat(ts) == IF ts = <<>> THEN <<>> ELSE Head(ts) \o Flat(Tail(ts))
Payloads == { Flat(ts) : ts \in UNION { [1..n -> Tokens] : n \in 1..MaxTok } }
Contexts == {"top", "targ", "link", "list", "cell", "multi", "upper", "ucarg", "ucbody"}

\* comment documents: text / comment pieces; comment payloads avoid "-->" and nowiki tags
TextPieces == { <<"a">>, <<"b", "NL">>, <<"NL">>, <<"*", "SP", "c">>, <<"{", "{", "T", "1", "|", "x", "}", "}">>, <<"NL", "=", "=", "h", "=", "=", "NL">>, <<>> }
CommentPayloads == { <<"z">>, <<"SP", "{", "{", "T", "1", "}", "}", "SP">>, <<"NL", "*", "NL">>, <<"<", "!", "-", "-">>, <<"|", "}">>, <<>> }
Docs == { <<[k |-> "t", s |-> t1], [k |-> "c", s |-> c1], [k |-> "t", s |-> t2]>> : t1 \in TextPieces, c1 \in CommentPayloads, t2 \in TextPieces }
        \cup { <<[k |-> "t", s |-> t1], [k |-> "c", s |-> c1], [k |-> "c", s |-> c2], [k |-> "t", s |-> t2]>> :
                 t1 \in {<<"a", "NL">>, <<"b">>}, c1 \in CommentPayloads, c2 \in {<<"y">>, <<>>}, t2 \in TextPieces }
        \cup { <<[k |-> "t", s |-> <<"{", "{", "T", "1", "|">> \o t1], [k |-> "c", s |-> c1], [k |-> "t", s |-> <<"q", "}", "}">>]>> :
                 t1 \in {<<"a", "NL">>, <<>>}, c1 \in CommentPayloads }

\* payloads of the nested universe: between them they hold every character of the entity table,
\* a template call, a link, table / list / heading markup, a magic word, comment delimiters.
\* What the frames do does not depend on the payload (it is one stored item while they are
\* processed), so a case is (frames, options) and carries one variant per payload; contexts of
\* fewer than Depth frames get all four payloads, the deepest ones all four only if DeepAll
\* (else one, chosen by position-weighted frame numbers so that all four occur)
PaySeq == << <<"{", "{", "T", "1", "|", "x", "}", "}", "|", "}">>, <<"[", "[", "a", "]", "]", "=", "=">>,
             <<"_", "_", "T", "O", "C", "_", "_", "<", "!", "-", "-">>, <<"*", "#", ":", ";", "\"", "'", "'", "-", "-", ">">> >>
FrameSeq == <<"text", "link", "ext", "T1", "if", "uc", "inv", "dt", "da", "dl", "ad", "tsib">>
FNum(f) == CHOOSE i \in 1..Len(FrameSeq) : FrameSeq[i] = f
RECURSIVE Weight(_, _)
Weight(fs, k) == IF fs = <<>> THEN 0 ELSE k * FNum(fs[1]) + Weight(Tail(fs), k + 1)
PayIdx(fs) == IF Len(fs) < Depth \/ DeepAll THEN <<1, 2, 3, 4>> ELSE << (Weight(fs, 1) % 4) + 1 >>
NestCases(z) == UNION { { [fs |-> fs, o |-> o] : o \in OptsFor(fs) } : fs \in NestStacks(Depth) }

(* ---- comment LINE LAYOUTS (Mode = "comment"): what stands around a comment on its line.
   A layout is  lead.pre . ind . group . aft . lead.post  put into an embedding context:
     lead   what precedes the comment's line: nothing, text without / with a line break, a blank
            before the line break, an empty line, a list item, a table (row) start, a heading, a
            preformatted line
     ind    the blanks / tabs between the line break and the comment
     group  one comment, two comments (adjacent, a blank / a line break / a line break and a blank /
            a letter between them), an empty and a multi-line comment
     aft    what follows on the same line: nothing, text, blank + text, only a blank, the next line,
            a list marker / table cell / table row / heading / template call / rule / paired nowiki
            (the comment then stands at the START of that construct's line)
   and [pre |-> <<"{", "|", "NL">>, x |-> <<"|">>, y |-> <<"-">>, post |-> <<"NL", "|", "SP", "x", "NL", "|", "}">>],
              [pre |-> <<>>, x |-> <<"{">>, y |-> <<"|">>, post |-> <<"NL", "|", "SP", "x", "NL", "|", "}">>],
              [pre |-> <<"a", "NL">>, x |-> <<"=">>, y |-> <<"=">>, post |-> <<"h", "=", "=", "NL">>],
              [pre |-> <<>>, x |-> <<"[">>, y |-> <<"[">>, post |-> <<"a", "]", "]">>],
              [pre |-> <<>>, x |-> <<"{">>, y |-> <<"{">>, post |-> <<"T", "1", "|", "x", "}", "}">>],
              [pre |-> <<>>, x |-> <<"'">>, y |-> <<"'">>, post |-> <<"i", "'", "'">>],
              [pre |-> <<"{", "|", "NL", "|", "SP", "x", "NL">>, x |-> <<"|">>, y |-> <<"}">>, post |-> <<>>],
              [pre |-> <<"a", "NL">>, x |-> <<"-">>, y |-> <<"-">>, post |-> <<"-", "-">>],
              [pre |-> <<"a", "NL">>, x |-> <<"*">>, y |-> <<"*">>, post |-> <<"SP", "b">>],
              [pre |-> <<>>, x |-> <<"_">>, y |-> <<"_">>, post |-> <<"T", "O", "C", "_", "_">>],
              [pre |-> <<>>, x |-> <<"<">>, y |-> <<"b">>, post |-> <<">", "x", "<", "/", "b", ">">>],
              [pre |-> <<>>, x |-> <<"&">>, y |-> <<"a">>, post |-> <<"m", "p", ";">>],
              [pre |-> <<>>, x |-> <<"{", "{", "T", "1">>, y |-> <<"|">>, post |-> <<"x", "}", "}">>],
              [pre |-> <<>>, x |-> <<"[", "[", "a">>, y |-> <<"|">>, post |-> <<"b", "]", "]">>],
              [pre |-> <<>>, x |-> <<"{", "{", "T", "1", "|", "x", "}">>, y |-> <<"}">>, post |-> <<>>],
              [pre |-> <<"*", "SP", "a", "NL">>, x |-> <<"*">>, y |-> <<":">>, post |-> <<"SP", "b">>] layouts  pre . x . sep . comment . y . post  where x y is a token of its own
   ("|" "-", "{" "|", "=" "=", ...), sep a line break and / or a blank or nothing.
   Depth = 0: two sub-products (everything before the comment x few afts, few leads x everything
   after it); Depth >= 1: the full product with more indentations.  The written text, the reference
   (StripRef), the body reference (rule "only") and the results of the mistaken rules where they
   differ are computed here; FinRule = "fixpoint" stands for the code's rule "direct", any other
   value names the rule under demonstration (Demo_Nowiki_c*.cfg).                              *)
Cm(p) == <<"<!--">> \o p \o <<"-->">>
CmZ == Cm(<<"SP", "z", "SP">>)
CmY == Cm(<<"y">>)
NwX == <<"<nowiki>", "[", "[", "x", "]", "]", "</nowiki>">>
CLeads(z) == { [pre |-> <<>>, post |-> <<>>],
               [pre |-> <<"a">>, post |-> <<>>],
               [pre |-> <<"a", "SP">>, post |-> <<>>],
               [pre |-> <<"a", "NL">>, post |-> <<>>],
               [pre |-> <<"a", "SP", "NL">>, post |-> <<>>],
               [pre |-> <<"a", "NL", "NL">>, post |-> <<>>],
               [pre |-> <<"*", "SP", "a", "NL">>, post |-> <<>>],
               [pre |-> <<"{", "|", "NL", "|", "-", "NL">>, post |-> <<"NL", "|", "}">>],
               [pre |-> <<"=", "=", "h", "=", "=", "NL">>, post |-> <<>>],
               [pre |-> <<"SP", "a", "NL">>, post |-> <<>>],
               [pre |-> <<"{", "|", "NL">>, post |-> <<"NL", "|", "}">>] }
CLeadsWide(z) == { [pre |-> <<";", "a", "NL">>, post |-> <<>>], [pre |-> <<"#", "SP", "a", "NL">>, post |-> <<>>], [pre |-> <<"{", "|", "NL", "|", "SP", "x", "NL">>, post |-> <<"NL", "|", "}">>] }
CLeadsFew(z) == { [pre |-> <<>>, post |-> <<>>], [pre |-> <<"a", "NL">>, post |-> <<>>], [pre |-> <<"a", "SP", "NL">>, post |-> <<>>], [pre |-> <<"{", "|", "NL", "|", "-", "NL">>, post |-> <<"NL", "|", "}">>] }
CInds(z) == { <<>>, <<"SP">>, <<"TAB">> }
CIndsWide(z) == { <<"SP", "SP">>, <<"SP", "TAB">>, <<"TAB", "SP">> }
CGroups(z) == { CmZ, Cm(<<>>), CmZ \o CmY, CmZ \o <<"SP">> \o CmY, CmZ \o <<"NL">> \o CmY, CmZ \o <<"NL", "SP">> \o CmY,
                CmZ \o <<"b">> \o CmY, Cm(<<"NL", "*", "NL">>) }
CGroupsFew(z) == { CmZ, CmZ \o <<"SP">> \o CmY, CmZ \o <<"NL">> \o CmY }
CAfts(z) == { <<>>, <<"b">>, <<"SP", "b">>, <<"SP">>, <<"NL", "c">>, <<"SP", "NL", "c">>, <<"*", "SP", "b">>, <<"#", "SP", "b", "NL", "#", "SP", "c">>, <<"|", "SP", "c">>, <<"|", "-", "NL", "|", "SP", "c">>, <<"=", "=", "h", "=", "=">>, <<"{", "{", "T", "1", "|", "x", "}", "}">>, <<"NL", "NL", "c">>, <<":", "b">>, <<"-", "-", "-", "-">>, NwX }
CAftsFew(z) == { <<>>, <<"b">>, <<"*", "SP", "b">>, <<"|", "SP", "c">> }
CAftsEmb(z) == { <<>>, <<"b">>, <<"SP", "b">>, <<"NL", "c">>, <<"|", "c">> }
CSeps(z) == { <<>>, <<"NL">>, <<"SP">>, <<"NL", "SP">>, <<"NL", "TAB">> }
CGlue(z) == { [pre |-> <<"{", "|", "NL">>, x |-> <<"|">>, y |-> <<"-">>, post |-> <<"NL", "|", "SP", "x", "NL", "|", "}">>],
              [pre |-> <<>>, x |-> <<"{">>, y |-> <<"|">>, post |-> <<"NL", "|", "SP", "x", "NL", "|", "}">>],
              [pre |-> <<"a", "NL">>, x |-> <<"=">>, y |-> <<"=">>, post |-> <<"h", "=", "=", "NL">>],
              [pre |-> <<>>, x |-> <<"[">>, y |-> <<"[">>, post |-> <<"a", "]", "]">>],
              [pre |-> <<>>, x |-> <<"{">>, y |-> <<"{">>, post |-> <<"T", "1", "|", "x", "}", "}">>],
              [pre |-> <<>>, x |-> <<"'">>, y |-> <<"'">>, post |-> <<"i", "'", "'">>],
              [pre |-> <<"{", "|", "NL", "|", "SP", "x", "NL">>, x |-> <<"|">>, y |-> <<"}">>, post |-> <<>>],
              [pre |-> <<"a", "NL">>, x |-> <<"-">>, y |-> <<"-">>, post |-> <<"-", "-">>],
              [pre |-> <<"a", "NL">>, x |-> <<"*">>, y |-> <<"*">>, post |-> <<"SP", "b">>],
              [pre |-> <<>>, x |-> <<"_">>, y |-> <<"_">>, post |-> <<"T", "O", "C", "_", "_">>],
              [pre |-> <<>>, x |-> <<"<">>, y |-> <<"b">>, post |-> <<">", "x", "<", "/", "b", ">">>],
              [pre |-> <<>>, x |-> <<"&">>, y |-> <<"a">>, post |-> <<"m", "p", ";">>],
              [pre |-> <<>>, x |-> <<"{", "{", "T", "1">>, y |-> <<"|">>, post |-> <<"x", "}", "}">>],
              [pre |-> <<>>, x |-> <<"[", "[", "a">>, y |-> <<"|">>, post |-> <<"b", "]", "]">>],
              [pre |-> <<>>, x |-> <<"{", "{", "T", "1", "|", "x", "}">>, y |-> <<"}">>, post |-> <<>>],
              [pre |-> <<"*", "SP", "a", "NL">>, x |-> <<"*">>, y |-> <<":">>, post |-> <<"SP", "b">>] }
Embed(e, t) ==
  CASE e = "top"  -> t
    [] e = "targ" -> <<"{", "{", "T", "1", "|">> \o t \o <<"}", "}">>
    [] e = "link" -> <<"[", "[", "a", "|">> \o t \o <<"]", "]">>
    [] e = "list" -> <<"*", "SP">> \o t \o <<"NL">>
    [] e = "cell" -> <<"{", "|", "NL", "|", "SP">> \o t \o <<"NL", "|", "}">>
Lay(l, i, g, a) == l.pre \o i \o g \o a \o l.post
Layouts(z) ==
  (IF Depth = 0
   THEN { Lay(l, i, g, a) : l \in CLeads(0), i \in CInds(0), g \in CGroups(0), a \in CAftsFew(0) }
        \cup { Lay(l, i, g, a) : l \in CLeadsFew(0), i \in {<<>>, <<"SP">>}, g \in CGroups(0), a \in CAfts(0) }
   ELSE { Lay(l, i, g, a) : l \in CLeads(0) \cup CLeadsWide(0), i \in CInds(0) \cup CIndsWide(0), g \in CGroups(0), a \in CAfts(0) })
  \cup { t.pre \o t.x \o sp \o g \o t.y \o t.post : t \in CGlue(0), sp \in CSeps(0), g \in {CmZ} \cup (IF Depth = 0 THEN {} ELSE {CmZ \o <<"SP">>, CmZ \o CmY}) }
LayCases(z) == { [k |-> "lay", emb |-> "top", doc |-> <<>>, w |-> t] : t \in Layouts(0) }
               \cup { [k |-> "lay", emb |-> e, doc |-> <<>>, w |-> Embed(e, Lay(l, i, g, a))] :
                        e \in {"targ", "link", "list", "cell"}, l \in CLeadsFew(0) \cup {[pre |-> <<"a">>, post |-> <<>>]},
                        i \in CInds(0) \cup (IF Depth = 0 THEN {} ELSE CIndsWide(0)), g \in (IF Depth = 0 THEN CGroupsFew(0) ELSE CGroups(0)), a \in CAftsEmb(0) }
CRule == IF FinRule = "fixpoint" THEN "direct" ELSE FinRule

VARIABLE case
Init == IF Mode = "nested" THEN case \in NestCases(0)
        ELSE IF Mode = "nowiki" THEN case \in { [ctx |-> x, c |-> c] : x \in Contexts, c \in Payloads }
        ELSE case \in { [k |-> "doc", emb |-> "top", doc |-> d, w |-> Written(d)] : d \in Docs } \cup LayCases(0)
Next == UNCHANGED case
Spec == Init /\ [][Next]_case

\* FinRule = "fixpoint": the code (closed form Fin; for contexts of fewer than Depth frames TLC also
\* checks that the pass-by-pass loop gives the same); another rule: that loop, for the Demo configurations
NestVariant(fs, r, c) == [c |-> c, q |-> Quote(c), input |-> NInput(fs, c), must |-> Demand(fs, r),
                          expanded |-> IF FinRule = "fixpoint" THEN Fin(r, c) ELSE FinLoop(r, c, FinRule, 1)]
Laws == /\ Mode = "nowiki" => Recoverable(case.c) /\ Inert(case.c)
        /\ Mode = "nested" => \A i \in 1..Len(PaySeq) : Recoverable(PaySeq[i]) /\ Inert(PaySeq[i])
Emit == IF Mode = "nested"
        THEN \E r \in {NRes(case.fs, case.o)} : \E pi \in {PayIdx(case.fs)} :
             \E vs \in { [i \in 1..Len(pi) |-> NestVariant(case.fs, r, PaySeq[pi[i]])] } :
               \* the statement, checked on the model's own steps: what the model hands out holds no
               \* placeholder and, wherever the stored nowiki survives, its entity-quoted content
               /\ \A i \in 1..Len(vs) : NoPlaceholder(vs[i].expanded) /\ (HasN(r) => Contains(vs[i].expanded, vs[i].q))
               /\ (FinRule = "fixpoint" /\ Len(case.fs) < Depth) => \A i \in 1..Len(vs) : FinLaw(r, vs[i].c)
               /\ PrintT(<<"CASE", ToJson([fs |-> case.fs, o |-> case.o, exact |-> Exact(case.fs), vars |-> vs])>>)
        ELSE IF Mode = "nowiki"
        THEN PrintT(<<"CASE", ToJson([ctx |-> case.ctx, input |-> Input(case.ctx, case.c), expanded |-> Expanded(case.ctx, case.c),
                                      path |-> LeafPath(case.ctx), leaf |-> LeafText(case.ctx, case.c), c |-> case.c])>>)
        ELSE IF case.k = "doc"
        THEN /\ StripRef(case.w) = Strip(case.doc)            \* the two formulations of the statement agree
             /\ PrintT(<<"CASE", ToJson([k |-> "doc", emb |-> "top", written |-> case.w, stripped |-> Strip(case.doc)])>>)
        ELSE \E ref \in {StripRef(case.w)} :
               /\ StripScan(case.w, 1, CRule) = ref            \* the code's step gives what the statement demands
               /\ PrintT(<<"CASE", ToJson([k |-> "lay", emb |-> case.emb, written |-> case.w, stripped |-> ref,
                                           only |-> StripScan(case.w, 1, "only"),
                                           alts |-> { x \in { [rule |-> r, text |-> StripScan(case.w, 1, r)] : r \in CMistakes \cup {"only"} } : x.text # ref }])>>)
GenInv == Laws /\ Emit
=============================================================================
