SPECIFICATION Spec
CONSTANTS
  Dev <- DevSamePage
  Titles <- TitlesOne
  Sections <- SecTwo
  Subsections <- SubTwo
  EmitSet <- EmitTwoKinds
  ExpandTexts <- NoText
  ParseTexts <- NoText
  Markers <- MarkersNone
  MaxMsgs = 1
  MaxMarkers = 0
INVARIANT CleanAfterStartPage
CHECK_DEADLOCK FALSE
