-------------------------- MODULE Gen_ExpanderPos --------------------------
(* C13 positions: WHERE in a call another call sits.  The pages of            *)
(* Gen_Expander / Gen_ExpanderRep write every argument NAME as literal text;  *)
(* here the name of a named argument is computed -- by a call of a template   *)
(* (selected or not, depending on the selection of the case), by a parser     *)
(* function, by an argument reference, by text next to a call -- and the same *)
(* inner content is also put in the other positions of a call (named value,   *)
(* positional value, name AND value, argument of an argument, body of a       *)
(* template, default of an argument reference in a body).  The outer call is  *)
(* a template that may be selected (T1 shows {{{x}}}, T2 forwards it), one    *)
(* that never is (NOPE), or one in a selected template's body (W, Wp).        *)
(*                                                                            *)
(* What the statement demands there: a call that IS expanded is expanded from *)
(* its FINAL argument map -- names and values of its arguments are expanded   *)
(* completely, whatever the selection says about the templates used in them;  *)
(* a call that is NOT expanded is emitted with its arguments treated in the   *)
(* current selection mode.  The twin (Expander.tla: BindArgs vs ExpArgsUnexp) *)
(* predicts output and hook calls; two laws are checked in TLC:               *)
(*   NoCallInNameR   no argument name handed to template_fn still holds call   *)
(*                   syntax (all templates used in names exist here);         *)
(*   FinalMapR       every (name, argument map) template_fn sees under a       *)
(*                   selection is one it also sees when everything is expanded *)
EXTENDS Gen_Expander

NamedC(key, v) == [named |-> TRUE, key |-> key, val |-> v]

(* ---------------- library ---------------- *)
KeyBody == Plain(<<Txt(<<"x">>)>>)                       \* yields the parameter name T1 / T2 look at
\* W: a body holding a call whose argument name is computed by a template call
WBody == Plain(<<Txt(<<"<">>), Call("T1", <<NamedC(<<Call("Key", <<>>)>>, <<Txt(<<"w">>)>>)>>), Txt(<<">">>)>>)
\* Wp: ... by an argument reference (substituted before the body is expanded)
WpBody == Plain(<<Txt(<<"<">>), Call("T1", <<NamedC(<<Par(<<"1">>)>>, <<Txt(<<"w">>)>>)>>), Txt(<<">">>)>>)
\* D: a call in the default of an argument reference of a body
DBody == Plain(<<Txt(<<"/">>), ParD(<<"1">>, <<Call("Key", <<>>)>>), Txt(<<"/">>)>>)
LibPos == LibBase @@ ("Key" :> KeyBody) @@ ("W" :> WBody) @@ ("Wp" :> WpBody) @@ ("D" :> DBody)

(* ---------------- inner content: what computes the name / value ---------------- *)
CKey == Call("Key", <<>>)
TV == <<Txt(<<"v">>)>>
InnerOf(u) ==
  CASE u = "call" -> <<CKey>>                                                  \* {{Key}}            -> x
    [] u = "blankcall" -> <<Call("Sp", <<>>)>>                                \* {{Sp}}             -> " v " (trimmed in a name)
    [] u = "pfn" -> <<If(<<Txt(<<"1">>)>>, <<Txt(<<"x">>)>>, <<>>)>>           \* {{#if:1|x|}}       -> x
    [] u = "pfncall" -> <<If(<<CKey>>, <<CKey>>, <<>>)>>                       \* {{#if:{{Key}}|{{Key}}|}} -> x
    [] u = "textcall" -> <<Txt(<<"x">>), Call("E", <<>>)>>                     \* x{{E}}             -> x
    [] u = "argref" -> <<ParD(<<"n">>, <<Txt(<<"x">>)>>)>>                     \* {{{n|x}}} on the page -> x
    [] u = "callarg" -> <<Call("D", <<Pos(<<CKey>>)>>)>>                       \* {{D|{{Key}}}}      -> /x/
InnersQ == {"call", "blankcall", "pfn", "textcall"}
Inners == InnersQ \cup {"pfncall", "argref", "callarg"}

(* ---------------- positions ---------------- *)
Outers == {"T1", "T2", "NOPE"}
PosPage(p, t, in) ==
  CASE p = "argname" -> <<Txt(<<"a", "SP">>), Call(t, <<NamedC(in, TV)>>), Txt(<<"SP", "b">>)>>
    [] p = "argname2" -> <<Call(t, <<Pos(<<Txt(<<"a">>)>>), NamedC(in, TV)>>)>>
    [] p = "both" -> <<Call(t, <<NamedC(in, in)>>)>>
    [] p = "argval" -> <<Call(t, <<Named(<<"x">>, in)>>)>>
    [] p = "posval" -> <<Call(t, <<Pos(in)>>)>>
    [] p = "inner" -> <<Call(t, <<Pos(<<Call("T1", <<NamedC(in, TV)>>)>>)>>)>>
    [] p = "twice" -> <<Call("T1", <<NamedC(in, TV)>>), Txt(<<"SP">>), Call(t, <<NamedC(in, <<Txt(<<"u">>)>>)>>)>>
    [] p = "bodyref" -> <<Call("Wp", <<Pos(in)>>)>>                              \* (t unused)
    [] p = "bodycall" -> <<Call("W", <<>>), Call(t, <<Pos(<<Call("W", <<>>)>>)>>)>>
    [] p = "default" -> <<Call("D", <<>>), Call(t, <<Named(<<"x">>, <<Call("D", <<>>)>>)>>)>>
Positions == {"argname", "argname2", "both", "argval", "posval", "inner", "twice", "bodyref", "bodycall", "default"}
PositionsQ == Positions \ {"argname2", "posval"}
\* positions that do not use the inner content / the outer template are generated once
UsesInner(p) == p \notin {"bodycall", "default"}
UsesOuter(p) == p # "bodyref"
Shapes(ps, ins, ts) ==
  { [pos |-> p, inner |-> u, outer |-> t] : p \in ps, u \in ins, t \in ts }
  \ ({ s \in [pos : ps, inner : ins, outer : ts] : ~UsesInner(s.pos) /\ s.inner # "call" }
     \cup { s \in [pos : ps, inner : ins, outer : ts] : ~UsesOuter(s.pos) /\ s.outer # "T1" })

(* ---------------- options ---------------- *)
PosSets == { {"T1"}, {"Key", "Sp", "E"}, {"T1", "T2", "Key"}, {"T1", "T2", "W", "Wp", "D"} }
PosNots == { {"Key"}, {"T1", "Sp"} }
OptsPosSel(hooks, sets) ==
  { Opt(TRUE, TRUE, e, FALSE, {}, TRUE, TRUE, h[1], h[2]) : e \in sets, h \in hooks }
  \cup { Opt(TRUE, he, IF he THEN {"T1", "T2", "Key", "W", "Wp", "D"} ELSE {}, TRUE, n, TRUE, TRUE, h[1], h[2]) : he \in BOOLEAN, n \in PosNots, h \in hooks }
  \cup { Opt(TRUE, FALSE, {}, FALSE, {}, TRUE, TRUE, h[1], h[2]) : h \in hooks }
PosHooks == { <<"none", "none">>, <<"observe", "observe">>, <<"observe", "replace">>, <<"marker", "none">>, <<"num", "number">> }
PosHooksQ == { <<"none", "none">>, <<"observe", "observe">>, <<"num", "number">> }
OptsPosFull == { Opt(FALSE, FALSE, {}, FALSE, {}, TRUE, TRUE, h[1], h[2]) : h \in PosHooks }
PosNeeds == { {}, {"T1"}, {"Key", "Sp"}, {"T2", "W", "Wp", "D"} }
PosNeedsQ == { {}, {"T1"}, {"T2", "W", "Wp", "D"} }

MkPos(s, nd, o, e) ==
  [lib |-> LibPos, need |-> nd, page |-> PosPage(s.pos, s.outer, InnerOf(s.inner)), o |-> o, enw |-> e,
   pos |-> s.pos, inner |-> s.inner, outer |-> s.outer]
PosCases ==
  CASE Universe = "C13P" ->
         { MkPos(s, {}, o, TRUE) : s \in Shapes(Positions, Inners, Outers), o \in OptsPosFull }
         \cup { MkPos(s, nd, o, e) : s \in Shapes(Positions, Inners, Outers), nd \in PosNeeds, o \in OptsPosSel(PosHooks, PosSets), e \in BOOLEAN }
    [] Universe = "C13PQ" ->
         { MkPos(s, {}, o, TRUE) : s \in Shapes(PositionsQ, InnersQ, {"T1", "NOPE"}), o \in OptsPosFull }
         \cup { MkPos(s, nd, o, TRUE) : s \in Shapes(PositionsQ, InnersQ, Outers), nd \in PosNeedsQ, o \in OptsPosSel(PosHooksQ, PosSets) }

\* a substituted argument value that becomes (part of) an argument NAME must be text a name can hold: the
\* marker strings of the hooks contain "<" / ">", which end a name (core.py: the name=value pattern), so the
\* position "bodyref" is generated with hooks that leave the text alone
NameSafe(c) == c.pos = "bodyref" => (c.o.tfn \in {"none", "observe"} /\ c.o.pfn \in {"none", "observe", "number"})
PosInit == case \in { c \in PosCases : NameSafe(c) }
PosSpec == PosInit /\ [][Next]_case

(* ---------------- model-level laws: the final argument map ---------------- *)
TfnAt(r) == { i \in 1..Len(r.st.hooks) : r.st.hooks[i].hook = "template_fn" }
NoCallInNameR(r) ==
  \A i \in TfnAt(r) : \A j \in 1..Len(r.st.hooks[i].args) :
     LET key == r.st.hooks[i].args[j].key IN \A m \in 1..Len(key) : key[m] # "{{"
TfnRecs(r) == { [name |-> r.st.hooks[i].name, args |-> r.st.hooks[i].args] : i \in TfnAt(r) }
FinalMapR(r) ==
  (case.o.pre /\ case.o.tfn = "observe" /\ case.o.pfn \in {"none", "observe"}) =>
     TfnRecs(r) \subseteq TfnRecs(Run([case EXCEPT !.o.pre = FALSE], {}))

PosEmitR(r) ==
  LET a == IF Known = {} THEN r ELSE Run(case, Known)
  IN PrintT(<<"CASE", ToJson([lib |-> case.lib, need |-> case.need, page |-> case.page, o |-> case.o, enw |-> case.enw,
                               pos |-> case.pos, inner |-> case.inner, outer |-> case.outer,
                               out |-> r.out, stack |-> r.st.stack, msgs |-> r.st.msgs, hooks |-> r.st.hooks,
                               ev |-> r.st.ev,
                               asis_out |-> a.out, asis_stack |-> a.st.stack])>>)
PosGenInv == LET r == Run(case, {}) IN LawsR(r) /\ NoCallInNameR(r) /\ FinalMapR(r) /\ PosEmitR(r)

=============================================================================
