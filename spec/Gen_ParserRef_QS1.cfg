SPECIFICATION Spec
CONSTANTS
  Universe = "S1"
  MaxLines = 3
INVARIANT MachineOK
CHECK_DEADLOCK FALSE
