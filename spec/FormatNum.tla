----------------------------- MODULE FormatNum -----------------------------
(* formatnum / formatnum ... |R  (parserfns.py: formatnum_fn,               *)
(* _formatnum_reverse) over numerals that are digit sequences (TLC integers *)
(* are 32 bit; 12-digit numerals do not fit).                               *)
(*   numeral  [int |-> <<digit atoms>>, frac |-> <<digit atoms>>]           *)
(*            frac = <<>>: no decimal point                                  *)
(*   shape    [sep |-> <<>> or <<atom>>, dec |-> atom, grp |-> <<sizes>>]    *)
(*            = grouping_separator, decimal_point, grouping_method of a      *)
(*            localization.json ((3,0): groups of 3; (3,2,0): 3 then 2s)     *)
(* RefFormat is the declarative grouping; FormatCode / ReverseCode are       *)
(* transcriptions of the code with its as-is behaviours as switches.         *)
EXTENDS Integers, Sequences, FiniteSets, TLC

CONSTANT Dev

Raw(n) == n.int \o (IF n.frac = <<>> THEN <<>> ELSE <<".">> \o n.frac)

Min2(a, b) == IF a < b THEN a ELSE b
\* size of the k-th group counted from the right: the k-th entry of grp, a 0
\* (or the end of grp) repeats the last positive size
RECURSIVE GSize(_, _)
GSize(grp, k) == LET j == Min2(k, Len(grp)) IN
                 IF grp[j] > 0 \/ j = 1 THEN grp[j] ELSE GSize(grp, j - 1)
\* number of digits to the right of the boundary below group k+1
RECURSIVE Bound(_, _)
Bound(grp, k) == IF k = 0 THEN 0 ELSE Bound(grp, k - 1) + GSize(grp, k)
IsBoundary(grp, p) == \E k \in 1..p : Bound(grp, k) = p

\* declarative: a separator stands wherever the number of digits to its right
\* is a group boundary
RECURSIVE Grouped(_, _, _)
Grouped(ds, sep, grp) ==
  IF Len(ds) = 0 THEN <<>>
  ELSE <<ds[1]>>
       \o (IF Len(ds) > 1 /\ grp # <<>> /\ GSize(grp, 1) > 0 /\ IsBoundary(grp, Len(ds) - 1) THEN sep ELSE <<>>)
       \o Grouped(Tail(ds), sep, grp)
RefFormat(n, sh) ==
  Grouped(n.int, sh.sep, sh.grp) \o (IF n.frac = <<>> THEN <<>> ELSE <<sh.dec>> \o n.frac)

(* ---- the code ---- *)
\* "if sep in arg0: return arg0"  -- "" is in every string; as-is also the
\* decimal point of the raw input is taken for a separator when sep = "."
EarlyReturn(n, sh, D) ==
  \/ sh.sep = <<>>
  \/ sh.sep = <<".">> /\ n.frac # <<>> /\ "RawDecimalPointTakenForSeparator" \in D
FormatCode(n, sh, D) == IF EarlyReturn(n, sh, D) THEN Raw(n) ELSE RefFormat(n, sh)

Digits == {"0", "1", "2", "3", "4", "5", "6", "7", "8", "9"}
Count(s, a) == Cardinality({i \in 1..Len(s) : s[i] = a})
Remove(s, a) == SelectSeq(s, LAMBDA c : c # a)
Subst(s, a, b) == [i \in 1..Len(s) |-> IF s[i] = a THEN b ELSE s[i]]
RemoveSep(s, sh) ==
  LET t == IF sh.sep = <<>> THEN s ELSE Remove(s, sh.sep[1])
  IN IF sh.sep = <<"NBSP">> THEN Remove(t, "SP") ELSE t
ReverseCode(s, sh, D) ==
  LET allowed == Digits \cup {sh.dec} \cup {sh.sep[i] : i \in 1..Len(sh.sep)}
                 \cup (IF sh.sep = <<"NBSP">> THEN {"SP"} ELSE {})
  IN IF s = <<>> \/ ~(\A i \in 1..Len(s) : s[i] \in allowed) \/ Count(s, sh.dec) > 1 THEN s
     ELSE IF "ReverseReplacesDecimalFirst" \in D
          THEN RemoveSep(Subst(s, sh.dec, "."), sh)     \* as-is order
          ELSE Subst(RemoveSep(s, sh), sh.dec, ".")

\* M: formatnum with R inverts formatnum
RoundTrips(n, sh, D) == ReverseCode(FormatCode(n, sh, D), sh, D) = Raw(n)
=============================================================================
