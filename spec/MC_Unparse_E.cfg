SPECIFICATION SpecE
CONSTANTS
  Universe = "CALL"
  Part = 0
  Parts = 1
  Known = {}
  Tags <- TagsFromFile
INVARIANT EmptyParts
CHECK_DEADLOCK FALSE
