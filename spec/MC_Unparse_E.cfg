SPECIFICATION SpecE
CONSTANTS
  Universe = "CALL"
  Part = 0
  Parts = 1
  Known = {}
  Tags <- TagsFromFile
INVARIANT EmptyPartsRoundTrip
INVARIANT WhatIfsBreak
CHECK_DEADLOCK FALSE
