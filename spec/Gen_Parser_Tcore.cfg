SPECIFICATION Spec
CONSTANTS
  Universe = "coreT"
  MaxLen = 4
INVARIANT MachineOK
CHECK_DEADLOCK FALSE
