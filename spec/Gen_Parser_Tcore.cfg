SPECIFICATION Spec
CONSTANTS
  Universe = "core"
  MaxLen = 4
INVARIANT MachineOK
CHECK_DEADLOCK FALSE
