----------------------------- MODULE LuaSession -----------------------------
(* C07, second clause: "after a timeout or any Lua error the same context     *)
(* expands subsequent invocations correctly" — in particular every #invoke    *)
(* runs under ITS OWN time limit, whatever the previous invocation left       *)
(* behind.  _lua_invoke arms the count hook before loading the module and     *)
(* clears it after the protected call of the function; three early exits      *)
(* (module chunk fails to load, function missing, module page missing) leave  *)
(* the hook installed.  That is harmless as long as the next invocation       *)
(* re-arms it unconditionally.                                                *)
(* Time is in clock granules (os.time()); Default is the 60 s default limit.  *)
EXTENDS Naturals, Sequences, FiniteSets, TLC

CONSTANT Dev      \* "HookKeptIfPresent": arming is skipped when a hook is already installed
                  \* "NestedTimeoutInBand": the limit striking inside a NESTED invocation ends only that one
                  \*                        (in-band element), the enclosing module carries on
Default == 60
Pause == 3        \* a pause longer than the short limit

\* step = [k |-> kind, lim |-> limit]; kinds:
\*   heavy  benign module function running > one hook period, returns a value
\*   nofn   function missing in the module      (early exit, hook stays installed)
\*   nomod  module page missing                  (early exit)
\*   bad    module chunk fails to load           (early exit)
\*   spin   endless loop                         (stopped at its deadline)
\*   nmspin / nfspin / nbspin  a module that first makes a NESTED #invoke (frame:preprocess) of a
\*          missing module / missing function / non-compiling module and then loops for ever:
\*          the failed nested invocation must not disturb the limit of the outer one
\*   nspin  a module whose NESTED invocation (frame:preprocess('{{#invoke:..|spin}}')) loops for ever; the
\*          module itself would return a value right after it
\*   nlspin the same nested invocation made again and again: while true do pcall(<nested spin>) end
\*          WHERE the endless code runs makes no difference: the invocation the caller made is stopped at
\*          its deadline and yields the timeout element
\*   pause  the caller waits (no Lua)
EarlyExit == {"nofn", "nomod", "bad"}
Spins == {"spin", "nmspin", "nfspin", "nbspin", "nspin", "nlspin"}

\* state threaded through a session: armed?, deadline in force, current time
S0 == [armed |-> FALSE, deadline |-> 0, now |-> 0]

Arm(s, lim) ==
  IF "HookKeptIfPresent" \in Dev /\ s.armed THEN s
  ELSE [s EXCEPT !.armed = TRUE, !.deadline = s.now + lim]

\* outcome of one step and the state it leaves
StepResult(s, st) ==
  IF st.k = "pause" THEN [out |-> "paused", s |-> [s EXCEPT !.now = @ + Pause]]
  ELSE LET a == Arm(s, st.lim) IN
       CASE st.k \in EarlyExit -> [out |-> "error", s |-> a]                       \* hook left installed
         [] st.k = "heavy" ->
              IF a.now > a.deadline
              THEN [out |-> "timeout", s |-> [a EXCEPT !.armed = FALSE]]            \* spurious
              ELSE [out |-> "value", s |-> [a EXCEPT !.armed = FALSE]]
         [] st.k \in {"nspin", "nlspin"} /\ "NestedTimeoutInBand" \in Dev ->
              \* the nested loop is stopped at the deadline, the enclosing module is not
              IF st.k = "nspin"
              THEN [out |-> "value", s |-> [a EXCEPT !.armed = FALSE, !.now = IF a.deadline >= a.now THEN a.deadline + 1 ELSE a.now]]
              ELSE [out |-> "hung", s |-> a]
         [] st.k \in Spins /\ ~(st.k \in {"nspin", "nlspin"} /\ "NestedTimeoutInBand" \in Dev) ->
              \* runs until the clock passes the deadline in force
              IF a.deadline >= a.now
              THEN [out |-> IF a.deadline = s.now + st.lim THEN "timeout-in-bound" ELSE "timeout-late",
                    s |-> [a EXCEPT !.armed = FALSE, !.now = a.deadline + 1]]
              ELSE [out |-> "timeout-in-bound", s |-> [a EXCEPT !.armed = FALSE]]

RECURSIVE Run(_, _, _)
Run(sess, i, s) == IF i > Len(sess) THEN <<>> ELSE LET r == StepResult(s, sess[i]) IN <<r.out>> \o Run(sess, i + 1, r.s)
Outcomes(sess) == Run(sess, 1, S0)

\* what the property demands of each step, independent of what came before
Demanded(st) == CASE st.k = "pause" -> "paused" [] st.k \in EarlyExit -> "error"
                  [] st.k = "heavy" -> "value" [] st.k \in Spins -> "timeout-in-bound"
MeetsDemand(sess) == Outcomes(sess) = [i \in 1..Len(sess) |-> Demanded(sess[i])]
=============================================================================
