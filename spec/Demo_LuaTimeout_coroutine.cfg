SPECIFICATION Spec
CONSTANTS
  Dev <- DevCo
  B = 3
  RecMax = 1
  Bodies <- BodiesTight
  Kinds <- KindsAll
  MaxDepth = 1
  Progs <- P_cowrap
PROPERTY AbortedAfterDeadline
CHECK_DEADLOCK FALSE
