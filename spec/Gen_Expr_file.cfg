SPECIFICATION FileSpec
CONSTANTS
  Dev <- DevIdeal
  Lits <- LitsQ
  Lits2 <- LitsTwo
  UnOps <- UnExact
  BinOps <- BinAll
  Families <- NoFam
  SoupAlphabet <- SoupSmall
  MaxSoup = 0
INVARIANT EmitTree
CHECK_DEADLOCK FALSE
