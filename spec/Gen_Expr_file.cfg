SPECIFICATION FileSpec
CONSTANTS
  Dev <- DevIdeal
  Lits <- LitsQ
  Lits2 <- LitsTwo
  UnOps <- UnExact
  BinOps <- BinAll
  Families <- NoFam
  SoupAlphabet <- SoupSmall
  MaxSoup = 0
INVARIANT EmitTie
CHECK_DEADLOCK FALSE
