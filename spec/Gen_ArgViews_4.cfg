SPECIFICATION Spec
CONSTANTS
  MaxLen = 4
  Known <- KnownC14
INVARIANT GenInv
CHECK_DEADLOCK FALSE
