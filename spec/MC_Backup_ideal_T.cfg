SPECIFICATION Spec
CONSTANTS
  Starts <- StartsBase
  Dev <- DevIdeal
  MaxRuns = 4
  FlowDef <- FlowsFree
INVARIANT RestoreCorrect
INVARIANT CrashSafe
INVARIANT NoLaterVersionSurvives
INVARIANT BackupNeverCosts
CHECK_DEADLOCK FALSE
