--------------------------- MODULE Gen_Ingest ---------------------------
(* Case generation for Ingest: every dump of the bound (as indices into the   *)
(* pool, which is emitted once) x every namespace selection, with the store   *)
(* the property demands (Expected), the as-is store (leading "Main:" dropped  *)
(* on add) when it differs, and the keys of the pages on which the statement can *)
(* be read both ways, and for redirect pages whose target is not written the   *)
(* way a MediaWiki export writes it the other spellings of the same target.   *)
EXTENDS MC_Ingest, Json

VARIABLE g
gvars == <<g, dump, sel, phase, pos, cur, com, memo>>

GInit ==
  \E n \in 0..MaxLen : \E f \in [1..n -> 1..Len(PoolSeq)] : \E s \in Sels :
    /\ InPart(f)
    /\ IInit(DumpOf(f), s)
    /\ g = f
GNext == FALSE /\ UNCHANGED gvars
GSpec == GInit /\ [][GNext]_gvars

CaseOf ==
  LET exp == Expected(dump, sel)
      asis == StoreAfter(dump, sel, TRUE) IN
  [f |-> g, sel |-> SetToSeq(sel), exp |-> SetToSeq(exp),
   same |-> asis = exp, asis |-> IF asis = exp THEN <<>> ELSE SetToSeq(asis),
   amb |-> SetToSeq(AmbKeys(dump)),
   redalt |-> SetToSeq({[title |-> x.title, ns |-> x.ns, alts |-> SetToSeq(x.alts)] : x \in SoftRedirects(exp)})]

GenInv ==
  /\ (g = <<>> => PrintT(<<"POOL", ToJson([pool |-> PoolSeq, defaults |-> Defaults])>>))
  /\ PrintT(<<"CASE", ToJson(CaseOf)>>)
=============================================================================
