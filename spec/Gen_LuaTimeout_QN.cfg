SPECIFICATION GSpec
CONSTANTS
  Dev <- DevIdeal
  B = 3
  RecMax = 1
  Bodies <- BodiesNest
  Kinds <- KindsNest
  MaxDepth = 2
  Progs <- ProgramsNested
INVARIANT GenInv
CHECK_DEADLOCK FALSE
