SPECIFICATION STSpec
CONSTANTS
  Entries <- K_Entries
  Shapes <- K_Shapes
  Bounds <- K_BoundsAll
  MaxLen = 4
  MaxLoads = 3
  Dev <- KDevIdeal
  Contexts <- K_Contexts
  Manips <- K_ManipsT
INVARIANT StackConfined
INVARIANT ChunkEnvFromSandbox
INVARIANT RunsInRequestedEnvS
INVARIANT FallbackIsBase
INVARIANT DataEnvIgnoresStack
INVARIANT ResidueOnlyFromReset
INVARIANT SRunAgrees
INVARIANT TypeOKS
CHECK_DEADLOCK FALSE
