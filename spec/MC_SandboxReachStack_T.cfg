SPECIFICATION STSpec
CONSTANTS
  Entries <- K_Entries
  Shapes <- K_ShapesQ
  Bounds <- K_Bounds
  MaxLen = 4
  MaxLoads = 2
  Dev <- KDevIdeal
  Contexts <- K_Contexts
  Manips <- K_Manips
INVARIANT StackConfined
INVARIANT ChunkEnvFromSandbox
INVARIANT RunsInRequestedEnvS
INVARIANT FallbackIsBase
INVARIANT DataEnvIgnoresStack
INVARIANT ResidueOnlyFromReset
INVARIANT SRunAgrees
INVARIANT TypeOKS
CHECK_DEADLOCK FALSE
