----------------------------- MODULE MC_Session -----------------------------
(* Bounded instances of Session: exhaustive model checking (MC_Session_*.cfg, *)
(* Demo_Session_*.cfg) and the action alphabets shared with Gen_Session.      *)
EXTENDS Session, Json

CONSTANTS Titles, Sections, Subsections, EmitSet, ExpandTexts, ParseTexts, Markers,
          MaxMsgs, MaxMarkers

(* ---------------- deviation sets ---------------- *)
DevNone == {}
DevSubsectionKept == {"SubsectionKeptOnStartSection"}
DevListsNotCleared == {"ListsNotClearedOnStartPage"}
DevWarningSection == {"WarningSectionFromSubsection"}
DevCookieDup == {"CookieNotDeduplicated"}
DevStripKeys == {"StripCounterKeyCollision"}
\* "the argument is the current value already: nothing to do" shortcuts (re-announcements)
DevSameSection == {"SameSectionShortcut"}
DevSamePage == {"SamePageShortcut"}
DevSubLikeSection == {"SubsectionNamedLikeSectionIgnored"}

(* ---------------- universes ---------------- *)
TitlesOne == {"Pg"}
TitlesTwo == {"Pg", "Qx"}
SecNone == {None}
SecTwo == {None, "S1"}
SecThree == {None, "S1", "S2"}
SubTwo == {None, "U1"}
SubThree == {None, "U1", "S1"}          \* a subsection named like a section

E(kind, msg, trace, sortid) == [kind |-> kind, msg |-> msg, trace |-> trace, sortid |-> sortid]
EmitAllKinds == {E(k, "m1", "", DefaultSortid) : k \in Kinds}
EmitRich == EmitAllKinds \cup {E("error", "m2", "tr1", "sid/7")}
EmitTwoKinds == {E("warning", "m1", "", DefaultSortid), E("note", "m1", "", DefaultSortid)}
EmitNone == {}

NoText == {}
ExpandMsgs == {Text(<<>>, "plain"), Text(<<>>, "loop"), Text(<<>>, "argbadfn")}
ParseMsgs == {Text(<<>>, "p_b"), Text(<<>>, "p_looppre")}
ExpandTables == {Text(<<>>, "plain"), Text(<<"x">>, "plain"), Text(<<"x", "y", "x">>, "plain"),
                 Text(<<>>, "loop"), Text(<<>>, "t1a"), Text(<<"y">>, "t2z")}
ParseTables == {Text(<<"x">>, "p_plain"), Text(<<>>, "p_t1a"), Text(<<>>, "p_looppre")}
\* one text per origin of a message inside expand() / parse(): loop warning (after its pop),
\* "too many args" debug (argument reference), parser-function error deep in a template argument
ExpandProducers == {Text(<<>>, "loop"), Text(<<>>, "toomany"), Text(<<>>, "argbadfn")}
ExpandGen == {Text(<<>>, "plain"), Text(<<"x">>, "plain"), Text(<<"x", "y", "x">>, "plain"),
              Text(<<>>, "loop"), Text(<<>>, "argbadfn"), Text(<<>>, "t1a")}
ParseGen == {Text(<<>>, "p_pre"), Text(<<>>, "p_b"), Text(<<>>, "p_looppre")}
ExpandAll == {Text(nw, s) : nw \in {<<>>, <<"x">>, <<"y", "x">>}, s \in ExpandSegs}
ParseAll == {Text(nw, s) : nw \in {<<>>, <<"x">>}, s \in ParseSegs}

M(node, content) == [node |-> node, content |-> content]
MarkersNone == {}
MarkersPlain == {M("nowiki", ""), M("h", "c1"), M("h", "c2")}
MarkersMore == MarkersPlain \cup {M("ref", "c1"), M("nowiki", "c1")}
MarkersMoreR == MarkersMore \cup {M("h", "preprocess")}
\* contents that coincide with the two counter keys of the as-built cache
MarkersReserved == {M("nowiki", ""), M("h", "c1"), M("h", "preprocess"), M("h", "nowiki")}

(* ---------------- bounded next-state relation ---------------- *)
\* the re-announcements (argument = the current value) are actions of their own, so that the
\* coverage report shows that they are taken (the harness raises when one never is)
DoStartPage == \E t \in Titles : ~SamePage(t) /\ StartPage(t)
DoReStartPage == \E t \in Titles : SamePage(t) /\ StartPage(t)
DoStartSection == \E s \in Sections : ~(SameSection(s) /\ subsection # None) /\ StartSection(s)
DoReStartSection == \E s \in Sections : SameSection(s) /\ subsection # None /\ StartSection(s)   \* a subsection to clear
DoStartSubsection == \E s \in Subsections : ~(SameSubsection(s) /\ s # None) /\ StartSubsection(s)
DoReStartSubsection == \E s \in Subsections : SameSubsection(s) /\ s # None /\ StartSubsection(s)
DoEmit == TotalMsgs < MaxMsgs /\ \E e \in EmitSet : Emit(e.kind, e.msg, e.trace, e.sortid)
DoExpand == TotalMsgs < MaxMsgs /\ \E t \in ExpandTexts : Expand(t)
DoParse == TotalMsgs < MaxMsgs /\ \E t \in ParseTexts : Parse(t)
DoToReturn == ToReturn
DoStrip == Len(markers) < MaxMarkers /\ \E m \in Markers : StripMarker(m.node, m.content)

Next == DoStartPage \/ DoReStartPage \/ DoStartSection \/ DoReStartSection \/ DoStartSubsection \/ DoReStartSubsection
        \/ DoEmit \/ DoExpand \/ DoParse
        \/ DoToReturn \/ DoStrip
Spec == Init /\ [][Next]_svars
=============================================================================
