SPECIFICATION STSpec
CONSTANTS
  Entries <- K_Entries
  Shapes <- K_ShapesT4
  Bounds <- K_BoundsAll
  MaxLen = 2
  MaxLoads = 2
  Dev <- KDevIdeal
  Contexts <- K_Contexts
  Manips <- K_ManipsAll
INVARIANT GenInvS
CHECK_DEADLOCK FALSE
