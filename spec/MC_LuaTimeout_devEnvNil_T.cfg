SPECIFICATION Spec
CONSTANTS
  Dev <- DevEnvNil
  B = 3
  RecMax = 1
  Bodies <- BodiesThree
  Kinds <- KindsMC3
  MaxDepth = 3
  Progs <- Programs
INVARIANT TypeOK
INVARIANT OutcomeMatches
INVARIANT CtxRestored
PROPERTY TerminatingEnds
CHECK_DEADLOCK FALSE
