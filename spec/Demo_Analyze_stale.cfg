SPECIFICATION DemoSpec
CONSTANTS
  PfxNs <- T_PfxNs
  CanonPfx <- T_CanonPfx
  UpperOf <- T_UpperOf
  ArgU <- NoArgs
  Dev <- DevStale
  TplNs = 10
  MaxN = 3
  MaxRedirects = 1
  Combos <- CombosB
  HistKinds <- KindsQ
PROPERTY Terminates
CHECK_DEADLOCK FALSE
