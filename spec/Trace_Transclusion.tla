--------------------------- MODULE Trace_Transclusion ---------------------------
(* Validates recorded (library, page, observed output) triples of the real  *)
(* expand() against the reference Eval of Transclusion.tla.  The batch file *)
(* (env TRACE_FILE) is a JSON array of [lib, page, out] with `out` the      *)
(* canonical tokenisation of the returned string.  Next to the reading of   *)
(* the statement (parameter names are trimmed) the reading of the          *)
(* implementation (interior blank runs of a name folded too) is evaluated; *)
(* a case is reported when the output differs from the first or when the   *)
(* two readings differ (the harness decides: VIOLATION only if both agree). *)
EXTENDS Transclusion, Json, IOUtils

Cases == JsonDeserialize(IOEnv.TRACE_FILE)
KnownDevs == {"ArgTrailingNewlineDropped"}

VARIABLES i, bad
Init == i = 1 /\ bad = <<>>
Next ==
  /\ i <= Len(Cases)
  /\ LET c == Cases[i]
         ideal == Expand(c.page, c.lib, {})
         fold == Expand(c.page, c.lib, {NameFold})
     IN bad' = IF c.out = ideal /\ fold = ideal THEN bad
               ELSE Append(bad, [i |-> i, expected |-> ideal, asis |-> Expand(c.page, c.lib, KnownDevs),
                                 fold |-> fold, asisFold |-> Expand(c.page, c.lib, KnownDevs \cup {NameFold})])
  /\ i' = i + 1
Spec == Init /\ [][Next]_<<i, bad>>
Verdict == (i = Len(Cases) + 1) => PrintT(<<"VERDICT", ToJson([consumed |-> i - 1, bad |-> bad])>>)
=============================================================================
