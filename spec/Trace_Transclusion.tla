--------------------------- MODULE Trace_Transclusion ---------------------------
(* Validates recorded (library, page, observed output) triples of the real  *)
(* expand() against the reference Eval of Transclusion.tla.  The batch file *)
(* (env TRACE_FILE) is a JSON array of [lib, page, out] with `out` the      *)
(* canonical tokenisation of the returned string.                           *)
EXTENDS Transclusion, Json, IOUtils

Cases == JsonDeserialize(IOEnv.TRACE_FILE)
KnownDevs == {"ArgTrailingNewlineDropped"}

VARIABLES i, bad
Init == i = 1 /\ bad = <<>>
Next ==
  /\ i <= Len(Cases)
  /\ LET c == Cases[i]
         ideal == Expand(c.page, c.lib, {})
     IN bad' = IF c.out = ideal THEN bad
               ELSE Append(bad, [i |-> i, expected |-> ideal, asis |-> Expand(c.page, c.lib, KnownDevs)])
  /\ i' = i + 1
Spec == Init /\ [][Next]_<<i, bad>>
Verdict == (i = Len(Cases) + 1) => PrintT(<<"VERDICT", ToJson([consumed |-> i - 1, bad |-> bad])>>)
=============================================================================
