----------------------------- MODULE Trace_Expr -----------------------------
(* Validates recorded #expr evaluations of the real code against Expr.       *)
(* TRACE_FILE: {"events": [{"toks": [...], "obs": {"kind": "val"|"err"|"exc",*)
(*              "n": .., "d": .., "close": bool}}              , ...]}     *)
(* obs.n/obs.d is the fraction with small denominator nearest to the number  *)
(* the code printed, close = it is within 1e-9 of what was printed.          *)
(* One event is consumed per step; mismatches are collected, not blocking.   *)
EXTENDS Expr, Json, IOUtils

NoDev == {}
AsIsDev == {"NoExceptionBarrier", "UnaryAfterE", "TrailingTokensIgnored",
            "ModFollowsDivisor", "RoundPythonBuiltin", "EIntegerLoopUnbounded"}

Events == JsonDeserialize(IOEnv.TRACE_FILE).events

VARIABLES l, bad, drift, excerr
tvars == <<l, bad, drift, excerr>>

\* "bad": a value was demanded and something else came back (C18);
\* "excerr": an in-band error was demanded and an exception escaped (C05);
\* "drift": a value came back where the model demands an in-band error
Judge(e, x) ==
  IF e.obs.kind = "exc" THEN (IF x.kind = "exc" THEN "ok" ELSE IF x.kind = "err" THEN "excerr" ELSE "bad")
  ELSE IF x.kind = "exc" THEN "drift"
  ELSE IF x.kind = "val" THEN
       (IF e.obs.kind # "val"
        \* a roughly known operand may legitimately be a zero divisor / outside a
        \* domain / overflow: an error is then no contradiction
        THEN (IF x.rk THEN "drift" ELSE "bad")
        ELSE IF x.ex /\ ~(e.obs.close /\ e.obs.n = x.n /\ e.obs.d = x.d) THEN "bad"
        ELSE "ok")
  ELSE (IF e.obs.kind = "val" THEN "drift" ELSE "ok")

TInit == l = 1 /\ bad = <<>> /\ drift = <<>> /\ excerr = <<>>
TNext ==
  /\ l <= Len(Events)
  /\ LET x == ExprOutcome(Events[l].toks)      \* the model's evaluation of the recorded tokens
         j == Judge(Events[l], x)
         rec == [i |-> l, expected |-> Proj(x)] IN
     /\ bad' = IF j = "bad" THEN Append(bad, rec) ELSE bad
     /\ drift' = IF j = "drift" THEN Append(drift, rec) ELSE drift
     /\ excerr' = IF j = "excerr" THEN Append(excerr, rec) ELSE excerr
  /\ l' = l + 1
TSpec == TInit /\ [][TNext]_tvars

Verdict == (l = Len(Events) + 1) =>
             PrintT(<<"VERDICT", ToJson([consumed |-> l - 1, bad |-> bad, drift |-> drift, excerr |-> excerr])>>)
Accepted == TLCGet("stats").diameter = Len(Events) + 1
=============================================================================
