SPECIFICATION Spec
CONSTANTS
  Universe = "ATTR"
  Part = 0
  Parts = 1
  Known = {}
  Tags <- TagsFromFile
INVARIANT DemoAttrAnyQuote
CHECK_DEADLOCK FALSE
