SPECIFICATION Spec
CONSTANTS
  Universe = "M6"
  MaxLines = 5
INVARIANT MachineOK
INVARIANT GenInv
CHECK_DEADLOCK FALSE
