SPECIFICATION Spec
CONSTANTS
  Universe = "M6"
  MaxLines = 5
INVARIANT MachineOK
CHECK_DEADLOCK FALSE
