------------------------------ MODULE MC_Render ------------------------------
(* The laws of the to_text rewriting system (Render.tla, ToText) that hold by   *)
(* design, checked by TLC on a bounded universe of strings: every sequence of   *)
(* at most MaxLen chunks (tags of every handled shape in several spellings,     *)
(* near-misses, links, brackets, blanks).  One initial state per string.        *)
(*   NoTag        no tag of the shapes the two generic rules handle survives    *)
(*   Stripped     the result neither starts nor ends with a blank; no run of    *)
(*                three newlines                                                *)
(*   RefDropped   what stands between <ref ..> and </ref> is not in the result  *)
(*   IdemFlat     on text without "<" / ">" whose link texts hold no "[" the    *)
(*                function is idempotent                                        *)
(*   IdemTagFree  (NOT a law: Demo_Render_nested.cfg) idempotence on every text *)
(*                without "<" / ">" - TLC finds the nested link                 *)
(*   ASSUME Breaks / NotBreaks   headings, br, hr become paragraph breaks; the  *)
(*                spellings the patterns miss do not (evaluated once)           *)
EXTENDS Render, Json

CONSTANTS MaxLen, Small      \* Small: chunk names used at the full length (the others only in strings of <= 2 chunks)

Chunk ==
  ("a" :> <<"a">>) @@
  ("sp" :> <<"SP">>) @@
  ("nl" :> <<"NL">>) @@
  ("ref" :> <<"<", "r", "e", "f", ">">>) @@
  ("refattr" :> <<"<", "r", "e", "f", "SP", "n", "a", "m", "e", "=", "x", ">">>) @@
  ("refself" :> <<"<", "r", "e", "f", "SP", "n", "a", "m", "e", "=", "x", "/", ">">>) @@
  ("refclose" :> <<"<", "/", "r", "e", "f", ">">>) @@
  ("refup" :> <<"<", "SP", "R", "E", "F", "SP", ">">>) @@
  ("refclosesp" :> <<"<", "SP", "/", "SP", "R", "e", "f", "SP", ">", "NL">>) @@
  ("refs" :> <<"<", "r", "e", "f", "e", "r", "e", "n", "c", "e", "s", "/", ">">>) @@
  ("refR" :> <<"<", "r", "e", "f", ">", "R", "<", "/", "r", "e", "f", ">">>) @@
  ("refRattr" :> <<"<", "r", "e", "f", "SP", "n", "a", "m", "e", "=", "x", "SP", ">", "R", "<", "SP", "/", "r", "e", "f", "SP", ">", "NL", "NL">>) @@
  ("h2" :> <<"<", "h", "2", ">">>) @@
  ("h2c" :> <<"<", "/", "h", "2", ">", "NL">>) @@
  ("H3x" :> <<"<", "H", "3", "SP", "i", "d", "=", "x", ">">>) @@
  ("h7" :> <<"<", "h", "7", ">">>) @@
  ("h1x" :> <<"<", "h", "1", "x", ">">>) @@
  ("div1" :> <<"<", "d", "i", "v", "1", ">">>) @@
  ("div" :> <<"<", "d", "i", "v", ">">>) @@
  ("divc" :> <<"<", "/", "d", "i", "v", ">">>) @@
  ("br" :> <<"<", "b", "r", ">">>) @@
  ("brs" :> <<"<", "b", "r", "/", ">">>) @@
  ("brsp" :> <<"<", "b", "r", "SP", "/", ">", "NL", "NL">>) @@
  ("brattr" :> <<"<", "b", "r", "SP", "c", "l", "e", "a", "r", "=", "a", "l", "l", ">">>) @@
  ("BR" :> <<"<", "B", "R", ">">>) @@
  ("hr" :> <<"<", "h", "r", ">">>) @@
  ("hrs" :> <<"<", "h", "r", "/", ">", "NL">>) @@
  ("span" :> <<"<", "s", "p", "a", "n", "SP", "i", "d", "=", "x", ">", "SP">>) @@
  ("spanc" :> <<"<", "/", "s", "p", "a", "n", ">">>) @@
  ("closesp" :> <<"<", "/", "SP", "b", ">">>) @@
  ("opensp" :> <<"<", "SP", "/", "b", ">">>) @@
  ("lt" :> <<"<">>) @@
  ("gt" :> <<">">>) @@
  ("slash" :> <<"/">>) @@
  ("emptytag" :> <<"<", ">">>) @@
  ("emptyclose" :> <<"<", "/", ">">>) @@
  ("cat" :> <<"[", "[", "C", "a", "t", "e", "g", "o", "r", "y", ":", "C", "]", "]">>) @@
  ("catsp" :> <<"[", "[", "SP", "C", "a", "t", "e", "g", "o", "r", "y", ":", "C", "|", "k", "]", "]">>) @@
  ("catlow" :> <<"[", "[", "c", "a", "t", "e", "g", "o", "r", "y", ":", "C", "]", "]">>) @@
  ("plainlink" :> <<"[", "[", "l", "]", "]">>) @@
  ("piped" :> <<"[", "[", "l", "|", "t", "]", "]">>) @@
  ("pipedopen" :> <<"[", "[", "l", "|", "a", "SP">>) @@
  ("open" :> <<"[", "[">>) @@
  ("close" :> <<"]", "]">>) @@
  ("pipe" :> <<"|">>) @@
  ("ext" :> <<"[", "h", "t", "t", "p", ":", "/", "/", "e", ".", "x", "SP", "t", "]">>) @@
  ("extbare" :> <<"[", "/", "/", "e", ".", "x", "]">>) @@
  ("ext2" :> <<"[", "/", "/", "e", ".", "x", "SP", "SP", "]">>) @@
  ("exts" :> <<"[", "h", "t", "t", "p", "s", ":", "/", "/", "e", ".", "x", "SP", "t", "SP", "u", "]">>) @@
  ("lb" :> <<"[">>) @@
  ("rb" :> <<"]">>)
Names == DOMAIN Chunk
Tuples == UNION {[1..n -> Names] : n \in 0..2}
          \cup UNION {[1..n -> Small] : n \in 3..MaxLen}
StringOf(t) == Cat([i \in 1..Len(t) |-> Chunk[t[i]]])

VARIABLES str, done
Init == str \in {StringOf(t) : t \in Tuples} /\ done = FALSE
Next == ~done /\ done' = TRUE /\ UNCHANGED str
Spec == Init /\ [][Next]_<<str, done>>

TagFree(s) == \A i \in 1..Len(s) : s[i] \notin {"<", ">"}
NoTagLeft(t) == \A i \in 1..Len(t) : MatchOpen(t, i).e = 0 /\ MatchClose(t, i).e = 0
Has(s, c) == \E i \in 1..Len(s) : s[i] = c
\* every piped / external link found by the scan has a text without "["
FlatLinks(s) == \A i \in 1..Len(s) : /\ (MatchPiped(s, i).e # 0 => ~Has(MatchPiped(s, i).r, "["))
                                     /\ (MatchExt(s, i).e # 0 => ~Has(MatchExt(s, i).r, "["))

\* all laws on one evaluation of ToText(str)
LawsOn(s, t) ==
  /\ NoTagLeft(t)
  /\ (t = <<>> \/ (t[1] \notin Ws /\ t[Len(t)] \notin Ws))
  /\ \A i \in 1..Len(t) : ~IsAt(t, i, <<"NL", "NL", "NL">>)
  /\ ~Has(t, "R")
  /\ (TagFree(s) /\ FlatLinks(s)) => ToText(t) = t
Laws == done \/ \A t \in {ToText(str)} : LawsOn(str, t)
IdemTagFree == done \/ (TagFree(str) => \A t \in {ToText(str)} : ToText(t) = t)

(* ---- evaluated once ---- *)
W(n) == <<"a">> \o Chunk[n] \o <<"c">>
Para == <<"a", "NL", "NL", "c">>
Rule4 == <<"a", "NL", "NL", "-", "-", "-", "-", "NL", "NL", "c">>
ASSUME Breaks ==
  /\ \A n \in {"h2", "h2c", "H3x", "div1", "br", "brs", "brsp"} : ToText(W(n)) = Para
  /\ \A n \in {"hr", "hrs"} : ToText(W(n)) = Rule4
\* the spellings the specific patterns miss fall to the generic rules: the tag goes, no paragraph break
ASSUME NotBreaks ==
  /\ \A n \in {"BR", "brattr", "div", "divc", "h7", "h1x", "spanc"} : ToText(W(n)) = <<"a", "c">>
  /\ ToText(W("span")) = <<"a", "c">>
\* observations (see notes/Render.md)
ASSUME Observations ==
  /\ ToText(<<"a", "SP", "<", "SP", "b", "SP", ">", "SP", "c">>) = <<"a", "SP", "c">>            \* "a < b > c"
  /\ ToText(W("refself") \o W("refR")) = <<"a", "c">>                                            \* <ref name=x/> swallows up to the next </ref>
  /\ ToText(W("refs") \o W("refclose")) = <<"a", "c">>                                           \* <references/> opens a ref
  /\ ToText(W("emptyclose")) = W("emptyclose") /\ ToText(W("emptytag")) = W("emptytag")          \* </> and <> stay
  /\ ToText(W("catlow")) = W("catlow") /\ ToText(W("plainlink")) = W("plainlink")                \* [[category:C]], [[l]] stay
ASSUME PrintT(<<"COUNT", ToJson([strings |-> Cardinality({StringOf(t) : t \in Tuples}),
                          idem_antecedent |-> Cardinality({s \in {StringOf(t) : t \in Tuples} : TagFree(s) /\ FlatLinks(s)}),
                          with_ref_body |-> Cardinality({s \in {StringOf(t) : t \in Tuples} : Has(s, "R")})])>>)
=============================================================================
