SPECIFICATION GSpec
CONSTANTS
  Dev <- DevIdeal
  B = 3
  RecMax = 1
  Bodies <- BodiesTight
  Kinds <- KindsAll
  MaxDepth = 2
  Progs <- Programs
INVARIANT GenInv
CHECK_DEADLOCK FALSE
