SPECIFICATION Spec
CONSTANTS
  Universe = "inline"
  MaxLen = 3
INVARIANT MachineOK
CHECK_DEADLOCK FALSE
