---------------------------- MODULE Gen_FormatNum ----------------------------
(* Cases for formatnum: every numeral of the bound x every locale shape read *)
(* from SHAPES_FILE ([{"sep": [..], "dec": "..", "grp": [..]}, ...]).        *)
EXTENDS MC_FormatNum, Json, IOUtils

FileShapes == JsonDeserialize(IOEnv.SHAPES_FILE)
Emit == x.ph = "case" =>
  PrintT(<<"CASE", ToJson([shape |-> x.sh, raw |-> Raw(x.n),
                           fmt |-> FormatCode(x.n, Shapes[x.sh], Dev),
                           ref |-> RefFormat(x.n, Shapes[x.sh])])>>)
=============================================================================
