------------------------- MODULE MC_SandboxReachLoad -------------------------
(* Design-level instances of SandboxReachLoad: universes of source shapes,  *)
(* entry points and boundaries, and the named deviation sets.               *)
EXTENDS SandboxReachLoad

D_Entries == AllEntries
D_Bounds == {"same", "invoke", "page"}
\* every prefix x every form x every ending, LF line ends
D_Shapes == {Shape(p, f, "lf", t) : p \in AllPre, f \in AllForm, t \in AllTail}
\* the whole product
D_ShapesAll == {Shape(p, f, e, t) : p \in AllPre, f \in AllForm, e \in AllEol, t \in AllTail}
\* the shapes on which caches and fallbacks can matter: good and bad prefixes x what comes back
D_ShapesCore == {Shape(p, f, "lf", "none") : p \in {"none", "bom", "shebang", "garbage"}, f \in {"table", "string", "raise", "expr"}}
                \cup {Shape("none", "table", "crlf", "none"), Shape("none", "nothing", "lf", "none"),
                      Shape("none", "table", "lf", "unfinished"), Shape("bom", "nothing", "lf", "none")}
\* for the longest histories: one compiling and two non-compiling prefixes x values that are cached / not cached
D_ShapesMin == {Shape(p, f, "lf", "none") : p \in {"none", "bom", "shebang"}, f \in {"table", "string"}}
               \cup {Shape("none", "raise", "lf", "none"), Shape("none", "expr", "lf", "none")}

DevIdeal == {}
DevRecompiled == {"RecompiledChunkNotConfined"}
DevRecompiledCached == {"RecompiledChunkNotConfined", "RecompiledCached"}
DevRecompiledLine == {"RecompiledChunkNotConfined", "RepairFirstLine"}
DevRecompiledReturn == {"RecompiledChunkNotConfined", "RepairWrapReturn"}
DevDataEnv == {"DataEnvFromHost"}
=============================================================================
