SPECIFICATION Spec
CONSTANTS
  Starts <- StartsBase
  Dev <- DevAsIs
  MaxRuns = 3
  FlowDef <- FlowsLib
INVARIANT RestoreCorrect
CHECK_DEADLOCK FALSE
