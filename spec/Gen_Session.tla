----------------------------- MODULE Gen_Session -----------------------------
(* Behaviour generation for Session: the history (actions with the snapshot  *)
(* of the specification state after each of them) is part of the state; a    *)
(* behaviour is printed as JSON in its final state only, for replay into a   *)
(* real Wtp context (harness/c16s.py).                                       *)
(*   exhaustive (Gen_Session_*.cfg): every action sequence StartPage . a^k,  *)
(*     k = MaxLen-1, plus the sequences of length FreshLen that start on a   *)
(*     context on which start_page has not been called;                      *)
(*   -simulate (Sim_Session.cfg): random walks of length MaxLen; the last    *)
(*     action is forced to be to_return so that one walk prints once;        *)
(*   re-announcement family (Family = "reannounce", Gen_Session_R*.cfg):     *)
(*     start_page(T0) . w . Producers for EVERY word w of length PosLen over the   *)
(*     positioning alphabet (start_page / start_section / start_subsection    *)
(*     over Titles / Sections / Subsections - so every call is also made with *)
(*     the argument that is current already, with any state to clear before   *)
(*     it - and one "mark" letter that leaves messages and cookies behind),   *)
(*     followed by the fixed Producers: one message-producing call of every kind   *)
(*     (the five application calls, expand() texts recording a warning after  *)
(*     a pop / a debug / a deeply nested error, parse() texts) and to_return. *)
(*     Each logged call carries `same`: its argument was the current value.   *)
EXTENDS MC_Session

CONSTANTS MaxLen, FreshLen, SimMode,
          Family,   \* "seq": the families above; "reannounce": the re-announcement family
          PosLen    \* length of the positioning word of the re-announcement family

VARIABLES hist,
          smcA      \* the as-built strip-marker cache run in parallel (prediction "asis_num")
gvars == <<title, section, subsection, lists, path, cookies, smc, ret, last, ghost, markers, pos, hist, smcA>>

Snapshot == [title |-> title', section |-> section', subsection |-> subsection',
             lists |-> lists', path |-> path', cookies |-> cookies', ret |-> ret',
             \* the stamps every message recorded by this call must carry: the documented
             \* position (declarative reference `pos`), not the fields the code assigns
             stamp_title |-> StampT(title'), stamp_section |-> StampS(pos'.section),
             stamp_subsection |-> StampS(pos'.subsection)]

Act(op, a, b, c, d, nw) == [op |-> op, a |-> a, b |-> b, c |-> c, d |-> d, nw |-> nw]
\* the call re-announces the value that is current before it
Same(act) == CASE act.op = "start_page" -> SamePage(act.a)
               [] act.op = "start_section" -> SameSection(act.a)
               [] act.op = "start_subsection" -> SameSubsection(act.a)
               [] OTHER -> FALSE
Log(act, asis) == hist' = Append(hist, [act |-> act, st |-> Snapshot, asis_num |-> asis, same |-> Same(act)])

GInit == Init /\ hist = <<>> /\ smcA = {}

GStartPage == \E t \in Titles : StartPage(t) /\ smcA' = {} /\ Log(Act("start_page", t, "", "", "", <<>>), 0)
GStartSection == \E s \in Sections : StartSection(s) /\ UNCHANGED smcA /\ Log(Act("start_section", s, "", "", "", <<>>), 0)
GStartSubsection == \E s \in Subsections : StartSubsection(s) /\ UNCHANGED smcA /\ Log(Act("start_subsection", s, "", "", "", <<>>), 0)
GEmit == \E e \in EmitSet : Emit(e.kind, e.msg, e.trace, e.sortid) /\ UNCHANGED smcA
                            /\ Log(Act("emit", e.kind, e.msg, e.sortid, e.trace, <<>>), 0)
GExpand == \E t \in ExpandTexts : Expand(t) /\ UNCHANGED smcA /\ Log(Act("expand", t.seg, "", "", "", t.nw), 0)
GParse == \E t \in ParseTexts : Parse(t) /\ UNCHANGED smcA /\ Log(Act("parse", t.seg, "", "", "", t.nw), 0)
GToReturn == ToReturn /\ UNCHANGED smcA /\ Log(Act("to_return", "", "", "", "", <<>>), 0)
GStrip == \E m \in Markers :
            \E r \in {StripStep(smcA, m.node, m.content, TRUE)} :
              /\ StripMarker(m.node, m.content) /\ smcA' = r.smc
              /\ Log(Act("strip_marker", m.node, m.content, "", "", <<>>), r.num)

Started == hist # <<>> /\ hist[1].act.op = "start_page"
GAny == GStartPage \/ GStartSection \/ GStartSubsection \/ GEmit \/ GExpand \/ GParse \/ GToReturn \/ GStrip
\* calls that are legal on a context on which start_page has not been called
GFresh == GStartSection \/ GStartSubsection \/ GEmit \/ GToReturn \/ GStrip

(* ---------------- re-announcement family ---------------- *)
TheTitle == CHOOSE t \in Titles : TRUE
\* the mark letter: a call that leaves two messages and three cookies behind (state that a
\* following start_page has to clear whatever its title)
MarkText == Text(<<>>, "p_looppre")
\* one message-producing call of every kind, then to_return
Producers == <<Act("emit", "error", "m2", "sid/7", "tr1", <<>>),
          Act("emit", "warning", "m1", DefaultSortid, "", <<>>),
          Act("emit", "debug", "m1", DefaultSortid, "", <<>>),
          Act("emit", "note", "m1", DefaultSortid, "", <<>>),
          Act("emit", "wiki_notice", "m1", DefaultSortid, "", <<>>),
          Act("expand", "loop", "", "", "", <<>>),
          Act("expand", "toomany", "", "", "", <<>>),
          Act("expand", "argbadfn", "", "", "", <<>>),
          Act("parse", "p_b", "", "", "", <<>>),
          Act("parse", "p_looppre", "", "", "", <<>>),
          Act("to_return", "", "", "", "", <<>>)>>
GDo(act) ==
  /\ CASE act.op = "emit" -> Emit(act.a, act.b, act.d, act.c)
       [] act.op = "expand" -> Expand(Text(act.nw, act.a))
       [] act.op = "parse" -> Parse(Text(act.nw, act.a))
       [] act.op = "to_return" -> ToReturn
  /\ UNCHANGED smcA /\ Log(act, 0)
GMark == Parse(MarkText) /\ UNCHANGED smcA /\ Log(Act("parse", MarkText.seg, "", "", "", MarkText.nw), 0)
GPos == GStartPage \/ GStartSection \/ GStartSubsection \/ GMark
RLen == 1 + PosLen + Len(Producers)
GNextR ==
  \/ hist = <<>> /\ StartPage(TheTitle) /\ smcA' = {} /\ Log(Act("start_page", TheTitle, "", "", "", <<>>), 0)
  \/ Len(hist) \in 1..PosLen /\ GPos
  \/ Len(hist) > PosLen /\ Len(hist) < RLen /\ GDo(Producers[Len(hist) - PosLen])

GNext ==
  IF Family = "reannounce" THEN GNextR ELSE
  IF SimMode
  THEN /\ Len(hist) < MaxLen
       /\ IF hist = <<>> THEN GStartPage
          ELSE IF Len(hist) = MaxLen - 1 THEN GToReturn
          ELSE GAny
  ELSE \/ hist = <<>> /\ (GStartPage \/ (FreshLen > 0 /\ GFresh))
       \/ Started /\ Len(hist) < MaxLen /\ GAny
       \/ hist # <<>> /\ ~Started /\ Len(hist) < FreshLen /\ GAny
GSpec == GInit /\ [][GNext]_gvars

Final == IF Family = "reannounce" THEN Len(hist) = RLen ELSE
         IF SimMode THEN Len(hist) = MaxLen
         ELSE hist # <<>> /\ ((Started /\ Len(hist) = MaxLen) \/ (~Started /\ Len(hist) = FreshLen))
GenInv == Final => PrintT(<<"CASE", ToJson([hist |-> hist])>>)
=============================================================================
