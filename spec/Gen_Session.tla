----------------------------- MODULE Gen_Session -----------------------------
(* Behaviour generation for Session: the history (actions with the snapshot  *)
(* of the specification state after each of them) is part of the state; a    *)
(* behaviour is printed as JSON in its final state only, for replay into a   *)
(* real Wtp context (harness/c16s.py).                                       *)
(*   exhaustive (Gen_Session_*.cfg): every action sequence StartPage . a^k,  *)
(*     k = MaxLen-1, plus the sequences of length FreshLen that start on a   *)
(*     context on which start_page has not been called;                      *)
(*   -simulate (Sim_Session.cfg): random walks of length MaxLen; the last    *)
(*     action is forced to be to_return so that one walk prints once.        *)
EXTENDS MC_Session

CONSTANTS MaxLen, FreshLen, SimMode

VARIABLES hist,
          smcA      \* the as-built strip-marker cache run in parallel (prediction "asis_num")
gvars == <<title, section, subsection, lists, path, cookies, smc, ret, last, ghost, markers, hist, smcA>>

Snapshot == [title |-> title', section |-> section', subsection |-> subsection',
             lists |-> lists', path |-> path', cookies |-> cookies', ret |-> ret',
             \* the stamps every message recorded by this call must carry
             stamp_title |-> StampT(title'), stamp_section |-> StampS(section'),
             stamp_subsection |-> StampS(subsection')]

Act(op, a, b, c, d, nw) == [op |-> op, a |-> a, b |-> b, c |-> c, d |-> d, nw |-> nw]
Log(act, asis) == hist' = Append(hist, [act |-> act, st |-> Snapshot, asis_num |-> asis])

GInit == Init /\ hist = <<>> /\ smcA = {}

GStartPage == \E t \in Titles : StartPage(t) /\ smcA' = {} /\ Log(Act("start_page", t, "", "", "", <<>>), 0)
GStartSection == \E s \in Sections : StartSection(s) /\ UNCHANGED smcA /\ Log(Act("start_section", s, "", "", "", <<>>), 0)
GStartSubsection == \E s \in Subsections : StartSubsection(s) /\ UNCHANGED smcA /\ Log(Act("start_subsection", s, "", "", "", <<>>), 0)
GEmit == \E e \in EmitSet : Emit(e.kind, e.msg, e.trace, e.sortid) /\ UNCHANGED smcA
                            /\ Log(Act("emit", e.kind, e.msg, e.sortid, e.trace, <<>>), 0)
GExpand == \E t \in ExpandTexts : Expand(t) /\ UNCHANGED smcA /\ Log(Act("expand", t.seg, "", "", "", t.nw), 0)
GParse == \E t \in ParseTexts : Parse(t) /\ UNCHANGED smcA /\ Log(Act("parse", t.seg, "", "", "", t.nw), 0)
GToReturn == ToReturn /\ UNCHANGED smcA /\ Log(Act("to_return", "", "", "", "", <<>>), 0)
GStrip == \E m \in Markers :
            \E r \in {StripStep(smcA, m.node, m.content, TRUE)} :
              /\ StripMarker(m.node, m.content) /\ smcA' = r.smc
              /\ Log(Act("strip_marker", m.node, m.content, "", "", <<>>), r.num)

Started == hist # <<>> /\ hist[1].act.op = "start_page"
GAny == GStartPage \/ GStartSection \/ GStartSubsection \/ GEmit \/ GExpand \/ GParse \/ GToReturn \/ GStrip
\* calls that are legal on a context on which start_page has not been called
GFresh == GStartSection \/ GStartSubsection \/ GEmit \/ GToReturn \/ GStrip

GNext ==
  IF SimMode
  THEN /\ Len(hist) < MaxLen
       /\ IF hist = <<>> THEN GStartPage
          ELSE IF Len(hist) = MaxLen - 1 THEN GToReturn
          ELSE GAny
  ELSE \/ hist = <<>> /\ (GStartPage \/ (FreshLen > 0 /\ GFresh))
       \/ Started /\ Len(hist) < MaxLen /\ GAny
       \/ hist # <<>> /\ ~Started /\ Len(hist) < FreshLen /\ GAny
GSpec == GInit /\ [][GNext]_gvars

Final == IF SimMode THEN Len(hist) = MaxLen
         ELSE hist # <<>> /\ ((Started /\ Len(hist) = MaxLen) \/ (~Started /\ Len(hist) = FreshLen))
GenInv == Final => PrintT(<<"CASE", ToJson([hist |-> hist])>>)
=============================================================================
