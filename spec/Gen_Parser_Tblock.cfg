SPECIFICATION Spec
CONSTANTS
  Universe = "block"
  MaxLen = 5
INVARIANT MachineOK
CHECK_DEADLOCK FALSE
