SPECIFICATION Spec
CONSTANTS
  Universe = "blockT"
  MaxLen = 5
INVARIANT MachineOK
CHECK_DEADLOCK FALSE
