--------------------------- MODULE Trace_Analyze ---------------------------
(* Validates recorded runs of the real analyze_templates against Analyze.    *)
(* The trace file (env TRACE_FILE) holds the atom tables of the titles and   *)
(* a list of events, one per call:                                           *)
(*   [tid, pages: <<[title, redirect, uses, flag]>>, terminated, marked]     *)
(* and, for a call on a database that already carried marks (a later call of *)
(* a recorded history analyse / add and overwrite pages / analyse again),    *)
(* pre = the titles marked when the call started.                            *)
(* For every event the model's algorithm is run on the recorded world (all   *)
(* visiting orders, starting from the recorded earlier marks), its result is *)
(* compared with the declarative reference (closure of flagged + earlier     *)
(* marks, + redirect neighbours), and the recorded result is judged:         *)
(*   Lower \subseteq marked \subseteq UpperH and the call terminated          *)
(* (Lower: demanded whatever the earlier marks are; UpperH = Upper when      *)
(* there are none).  Inside the interval but different from the model's      *)
(* result is reported with why = "drift".                                    *)
EXTENDS Naturals, Sequences, FiniteSets, TLC, Json, IOUtils

TraceFile == JsonDeserialize(IOEnv.TRACE_FILE)
Events == TraceFile.events
T_PfxNs == TraceFile.pfxns
T_CanonPfx == TraceFile.canon
T_UpperOf == TraceFile.upper
T_TplNs == TraceFile.tplns
NoDev == {}
NoArgs == {}

VARIABLES world, marked, pc, ci, imap, stack, todo, amemo, cur, com, memo, l, bad
A == INSTANCE Analyze WITH PfxNs <- T_PfxNs, CanonPfx <- T_CanonPfx, UpperOf <- T_UpperOf,
                           Dev <- NoDev, ArgU <- NoArgs, TplNs <- T_TplNs

tvars == <<world, marked, pc, ci, imap, stack, todo, amemo, cur, com, memo, l, bad>>

Range(s) == {s[k] : k \in 1..Len(s)}
WorldOf(e) ==
  [pages |-> [k \in 1..Len(e.pages) |->
     A!WPage(e.pages[k].title, e.pages[k].redirect, Range(e.pages[k].uses), e.pages[k].flag)],
   pre |-> IF "pre" \in DOMAIN e THEN Range(e.pre) ELSE {}]
Empty == [pages |-> <<>>]

TInit ==
  /\ l = 1 /\ bad = <<>>
  /\ A!AInit(IF Len(Events) > 0 THEN WorldOf(Events[1]) ELSE Empty)

\* verdict on event l once the model has finished its own run on that world
Judge ==
  LET e == Events[l]
      W == world
      obs == Range(e.marked)
      lo == A!Lower(W)
      up == A!UpperH(W)
      ideal == A!IdealH(W)
      modelOK == marked = ideal
      implOK == e.terminated /\ lo \subseteq obs /\ obs \subseteq up
      why == IF ~modelOK THEN "model" ELSE IF ~e.terminated THEN "nontermination"
             ELSE IF implOK THEN "drift"
             ELSE IF A!PreOf(W) = {} /\ obs = A!AsIs(W) THEN "asis"
             ELSE IF A!PreOf(W) # {} /\ obs = A!AsIsH(W) THEN "reseed" ELSE "other"
  IN bad' = IF modelOK /\ implOK /\ obs = ideal THEN bad
            ELSE Append(bad, [i |-> l, tid |-> e.tid, why |-> why,
                              lower |-> lo, upper |-> up, ideal |-> ideal, asis |-> A!AsIs(W)])

TNext ==
  /\ l <= Len(Events)
  /\ \/ /\ pc # "done" /\ A!ANext /\ UNCHANGED <<l, bad>>
     \/ /\ pc = "done"
        /\ Judge
        /\ l' = l + 1
        /\ IF l + 1 <= Len(Events) THEN A!AReset(WorldOf(Events[l + 1]))
           ELSE UNCHANGED <<world, marked, pc, ci, imap, stack, todo, amemo, cur, com, memo>>
TSpec == TInit /\ [][TNext]_tvars

\* printed in the state(s) that have consumed the whole trace
Verdict == (l = Len(Events) + 1) => PrintT(<<"VERDICT", ToJson([consumed |-> l - 1, bad |-> bad])>>)
\* the model-level invariants hold along every validated run too
ModelInv == A!NeverOvermarksH /\ A!PushedOnce /\ A!KeepsEarlierMarks
=============================================================================
