--------------------------- MODULE Trace_PageStore ---------------------------
(* Validates recorded executions of the real page store against PageStore.  *)
(* The trace file (env TRACE_FILE) holds the atom tables of the titles used *)
(* and a list of events, one per public call, with the observed result.     *)
(* Every event is consumed by the corresponding PageStore action; a result  *)
(* that differs from the specification's is recorded in `bad` (the verdict  *)
(* is total: validation continues after a mismatch).                        *)
EXTENDS Naturals, Sequences, FiniteSets, TLC, Json, IOUtils

TraceFile == JsonDeserialize(IOEnv.TRACE_FILE)
Events == TraceFile.events
T_UpperOf == TraceFile.upper
NoDev == {}
NoArgs == {}

VARIABLES cur, com, memo, l, bad
\* The atom tables either come with the trace (pfxns, canon) or are derived by the specification
\* from the namespace table of the recorded site (nstab: entries [id, canonical, local, aliases],
\* fold: letter-case facts of the prefix spellings; PageStore.tla, Ns* operators).
NT == INSTANCE PageStore WITH PfxNs <- <<>>, CanonPfx <- <<>>, UpperOf <- <<>>, Dev <- NoDev, ArgU <- NoArgs
HasTable == "nstab" \in DOMAIN TraceFile
T_Tab == {TraceFile.nstab[i] : i \in 1..Len(TraceFile.nstab)}
T_PfxNsV == IF HasTable THEN NT!NsRefPfxNs(T_Tab, TraceFile.fold) ELSE TraceFile.pfxns
T_CanonPfxV == IF HasTable THEN NT!NsCanonPfx(T_Tab) ELSE TraceFile.canon
T_PfxNs == T_PfxNsV
T_CanonPfx == T_CanonPfxV
TableOK == HasTable => NT!NsUnambiguous(T_Tab, TraceFile.fold)
PS == INSTANCE PageStore WITH PfxNs <- T_PfxNs, CanonPfx <- T_CanonPfx, UpperOf <- T_UpperOf,
                              Dev <- NoDev, ArgU <- NoArgs

tvars == <<cur, com, memo, l, bad>>

TInit == PS!PSInit /\ l = 1 /\ bad = <<>>

ResOf(e) == [found |-> e.res.found, title |-> e.res.title, ns |-> e.res.ns,
             redirect |-> e.res.redirect, body |-> e.res.body, model |-> e.res.model]

Note(e, ok, exp) == bad' = IF ok THEN bad ELSE Append(bad, [i |-> l, tid |-> e.tid, op |-> e.op, expected |-> exp])

Step(e) ==
  CASE e.op = "reset" ->
         /\ cur' = {} /\ com' = {} /\ memo' = {} /\ bad' = bad
    [] e.op = "add" ->
         /\ PS!AddPage(e.title, e.ns, e.redirect, e.body, e.model) /\ bad' = bad
    [] e.op = "commit" ->
         /\ PS!Commit /\ bad' = bad
    [] e.op = "get" ->
         LET g == PS!GetPage(PS!Args(e.title, e.ns, e.nr))
             ref == PS!RefGet(cur, e.title, e.ns, e.nr) IN
         /\ memo' = g.memo /\ UNCHANGED <<cur, com>>
         /\ Note(e, ResOf(e) = ref /\ g.res = ref, ref)
    [] e.op = "resolve" ->
         LET g == PS!Resolve(e.title, e.ns)
             ref == PS!RefResolve(cur, e.title, e.ns) IN
         /\ memo' = g.memo /\ UNCHANGED <<cur, com>>
         /\ Note(e, ResOf(e) = ref /\ g.res = ref, ref)
    [] e.op = "exists" ->
         LET g == PS!GetPage(PS!Args(e.title, e.ns, FALSE))
             ref == PS!RefGet(cur, e.title, e.ns, FALSE) IN
         /\ memo' = g.memo /\ UNCHANGED <<cur, com>>
         /\ Note(e, e.res.found = ref.found, ref)
    [] e.op = "body" ->
         LET g == PS!Resolve(e.title, e.ns)
             ref == PS!RefResolve(cur, e.title, e.ns) IN
         /\ memo' = g.memo /\ UNCHANGED <<cur, com>>
         /\ Note(e, e.res.found = ref.found /\ (ref.found => e.res.body = ref.body), ref)
    [] e.op = "count" ->
         LET n == PS!CountPages(cur, e.hasNs, {e.nsl[i] : i \in 1..Len(e.nsl)}, e.redirects, e.hasModel, e.model) IN
         /\ UNCHANGED <<cur, com, memo>>
         /\ Note(e, e.res.n = n, [n |-> n])
    [] e.op = "all" ->
         LET rows == PS!AllPages(cur, e.hasNs, {e.nsl[i] : i \in 1..Len(e.nsl)}, e.redirects, e.hasModel, e.model)
             got == {[found |-> TRUE, title |-> e.res.rows[i].title, ns |-> e.res.rows[i].ns, redirect |-> e.res.rows[i].redirect,
                      body |-> e.res.rows[i].body, model |-> e.res.rows[i].model] : i \in 1..Len(e.res.rows)} IN
         /\ UNCHANGED <<cur, com, memo>>
         /\ Note(e, got = rows /\ Len(e.res.rows) = Cardinality(rows), [n |-> Cardinality(rows)])
    [] e.op = "reopen_get" ->
         LET ref == PS!RefGet(com, e.title, e.ns, e.nr) IN
         /\ UNCHANGED <<cur, com, memo>>
         /\ Note(e, ResOf(e) = ref, ref)

TNext == l <= Len(Events) /\ Step(Events[l]) /\ l' = l + 1
TSpec == TInit /\ [][TNext]_tvars

\* printed once, in the state that has consumed the whole trace
Verdict == (l = Len(Events) + 1) => PrintT(<<"VERDICT", ToJson([consumed |-> l - 1, bad |-> bad, tableok |-> TableOK])>>)
\* the model-level invariant must hold along every validated execution too
Coherent == PS!MemoCoherent
Accepted == TLCGet("stats").diameter = Len(Events) + 1
=============================================================================
