SPECIFICATION Spec
CONSTANTS
  Dev <- DevCookieDup
  Titles <- TitlesOne
  Sections <- SecTwo
  Subsections <- SubThree
  EmitSet <- EmitTwoKinds
  ExpandTexts <- ExpandTables
  ParseTexts <- NoText
  Markers <- MarkersNone
  MaxMsgs = 2
  MaxMarkers = 4
INVARIANT CookieInjective
CHECK_DEADLOCK FALSE
