----------------------------- MODULE Gen_Expr -----------------------------
(* Case generation for Expr: every tree / token soup of the bounded         *)
(* instance with the outcome the specification predicts, as JSON.            *)
EXTENDS MC_Expr, Json, IOUtils

EmitTree ==
  IsTree =>
  PrintT(<<"CASE", ToJson([min |-> RenderMin(x), full |-> RenderFull(x),
                           exp |-> Proj(Fold(x))])>>)
\* the `round` universe and the numeral spellings: also what kinds of roundings the tree contains and what the
\* value selects in #ifexpr (truth) and plural (comparison with 1)
EmitTie ==
  IsTree =>
  LET f == Fold(x) IN
  PrintT(<<"CASE", ToJson([min |-> RenderMin(x), full |-> RenderFull(x), exp |-> Proj(f),
                           ties |-> TieKinds(x),
                           fam |-> IF IsSpellTree(x) THEN "spell" ELSE "",
                           spell |-> SpellKinds(x),
                           truth |-> IF f.kind = "val" THEN Truth(f) ELSE "u",
                           one |-> IF f.kind = "val" THEN Cmp3(f, One) ELSE "u"])>>)
EmitSoup ==
  PrintT(<<"CASE", ToJson([toks |-> x, exp |-> Proj(ExprOutcome(x)), ref |-> MWOutcome(x).kind])>>)

(* trees supplied by the harness (sampled to depth 5): AST_FILE holds a list *)
FileTrees == JsonDeserialize(IOEnv.AST_FILE)
FileInit == x \in {FileTrees[i] : i \in 1..Len(FileTrees)}
FileSpec == FileInit /\ [][UNCHANGED x]_x
=============================================================================
