SPECIFICATION SLSpec
CONSTANTS
  Entries <- D_Entries
  Shapes <- D_Shapes
  Bounds <- D_Bounds
  MaxLen = 2
  Dev <- DevIdeal
INVARIANT GenInv
CHECK_DEADLOCK FALSE
