--------------------------- MODULE Gen_LuaTimeout ---------------------------
(* Generator: every program of the bounded grammar, with the outcome the    *)
(* property demands and the outcome LuaTimeout predicts under every set of  *)
(* deviations, as JSON.  harness/c07.py renders each program to a Lua       *)
(* module, runs it through Wtp.expand(..., timeout=) and compares.          *)
EXTENDS MC_LuaTimeout, Json

GSpec == LTInit(Progs) /\ [][UNCHANGED vars]_vars

Emit ==
  PrintT(<<"CASE", ToJson([body |-> prog.body, wrap |-> prog.wrap,
                           demand |-> Demand(prog.body, prog.wrap),
                           preds |-> {[dev |-> S, r |-> Pred(prog.body, prog.wrap, S)] : S \in SUBSET DevNames}])>>)
GenInv == Emit
=============================================================================
