SPECIFICATION Spec
CONSTANTS
  Dev <- DevIdeal
  Known <- KnownBuiltin
  Names <- NamesBuiltin
INVARIANT EveryCallEndsInBand
CHECK_DEADLOCK FALSE
