SPECIFICATION Spec
CONSTANTS
  Dev <- DevIdeal
  Known <- KnownBuiltin
  Names <- NamesBuiltin
  Sites <- SitesBuiltin
  NsFns <- NsFnsBuiltin
INVARIANT EveryCallEndsInBand
CHECK_DEADLOCK FALSE
