--------------------------- MODULE Gen_LuaSession ---------------------------
EXTENDS Naturals, Sequences, TLC, Json
NoDev == {}
DevKept == {"HookKeptIfPresent"}
DevInBand == {"NestedTimeoutInBand"}
Ideal == INSTANCE LuaSession WITH Dev <- NoDev
Seeded == INSTANCE LuaSession WITH Dev <- DevKept
InBand == INSTANCE LuaSession WITH Dev <- DevInBand
St(k, lim) == [k |-> k, lim |-> lim]
First == { St(k, l) : k \in {"nofn", "nomod", "bad"}, l \in {1, 60} } \cup { St("heavy", 1), St("spin", 1) }
Probe == { St("heavy", 1), St("heavy", 60), St("spin", 1) }
Nested == { St("nmspin", 1), St("nfspin", 1), St("nbspin", 1), St("nspin", 1), St("nlspin", 1) }
Sessions == { <<n>> : n \in Nested } \cup { <<n, p>> : n \in Nested, p \in {St("heavy", 1), St("spin", 1)} }
            \cup { <<f, p>> : f \in First, p \in Probe } \cup { <<f, St("pause", 0), p>> : f \in First, p \in Probe }
            \cup { <<f, g, St("pause", 0), p>> : f \in {St("nofn", 1), St("bad", 60)}, g \in {St("nomod", 60), St("spin", 1)}, p \in Probe }
VARIABLE sess
Init == sess \in Sessions
Next == UNCHANGED sess
Spec == Init /\ [][Next]_sess
Laws == Ideal!MeetsDemand(sess)
Emit == PrintT(<<"CASE", ToJson([sess |-> sess, out |-> Ideal!Outcomes(sess)])>>)
GenInv == Laws /\ Emit
\* Demo: with the hook kept when present, some session violates the demand
DemoKept == Seeded!MeetsDemand(sess)
\* Demo: with the nested timeout handed on in-band, some session violates the demand
DemoInBand == InBand!MeetsDemand(sess)
=============================================================================
