SPECIFICATION MCPSpec
CONSTANTS
  PfxNs <- T_PfxNs
  CanonPfx <- T_CanonPfx
  UpperOf <- T_UpperOf
  ArgU <- NoArgs
  Dev <- DevIdeal
  TplNs = 10
  MaxN = 2
  MaxRedirects = 1
  Combos <- CombosQ2
  HistKinds <- KindsQ
INVARIANT ResultIsIdealH
INVARIANT ResultWithinStatementH
INVARIANT NeverOvermarksH
INVARIANT KeepsEarlierMarks
INVARIANT PushedOnce
PROPERTY Terminates
CHECK_DEADLOCK FALSE
