SPECIFICATION Spec
CONSTANTS
  Dev <- DevStripKeys
  Titles <- TitlesOne
  Sections <- SecTwo
  Subsections <- SubThree
  EmitSet <- EmitTwoKinds
  ExpandTexts <- ExpandTables
  ParseTexts <- NoText
  Markers <- MarkersReserved
  MaxMsgs = 2
  MaxMarkers = 4
INVARIANT StripSameContentSameNumber
CHECK_DEADLOCK FALSE
