SPECIFICATION GSpec
CONSTANTS
  Dev <- DevIdeal
  B = 3
  RecMax = 1
  Bodies <- BodiesHelperT
  Kinds <- KindsAll
  MaxDepth = 2
  Progs <- ProgramsHelpers
INVARIANT GenInv
CHECK_DEADLOCK FALSE
