SPECIFICATION Spec
CONSTANTS
  Universe = "core"
  MaxLen = 4
INVARIANT AsIsWellFormed
CHECK_DEADLOCK FALSE
