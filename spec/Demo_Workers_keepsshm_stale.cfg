SPECIFICATION Spec
CONSTANTS
  Procs <- P2
  Dev <- DevKeepsShm
  Scenarios <- ScnRestoreLiveQ
INVARIANT NoStaleSideFile
CHECK_DEADLOCK FALSE
