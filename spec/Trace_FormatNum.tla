---------------------------- MODULE Trace_FormatNum ----------------------------
(* Validates recorded formatnum round trips of the real code.                   *)
(* TRACE_FILE: {"shapes": [{"sep": [..], "dec": "..", "grp": [..]}, ...],       *)
(*   "events": [{"shape": k, "int": [digits], "frac": [digits],                 *)
(*               "formatted": [atoms], "back": [atoms]}, ...]}                  *)
(* bad:   {{formatnum:{{formatnum:N}}|R}} is not N   (what the property states) *)
(* drift: {{formatnum:N}} is not the grouping the model predicts                *)
EXTENDS Integers, Sequences, FiniteSets, TLC, Json, IOUtils

TraceFile == JsonDeserialize(IOEnv.TRACE_FILE)
Events == TraceFile.events
Shapes == TraceFile.shapes
NoDev == {}
VARIABLES l, bad, drift
F == INSTANCE FormatNum WITH Dev <- NoDev
tvars == <<l, bad, drift>>

TInit == l = 1 /\ bad = <<>> /\ drift = <<>>
TNext ==
  /\ l <= Len(Events)
  /\ LET e == Events[l]
         n == [int |-> e.int, frac |-> e.frac]
         sh == Shapes[e.shape] IN
     /\ bad' = IF e.back = F!Raw(n) /\ F!RoundTrips(n, sh, NoDev) THEN bad
               ELSE Append(bad, [i |-> l, expected |-> F!Raw(n)])
     /\ drift' = IF e.formatted = F!FormatCode(n, sh, NoDev) THEN drift
                 ELSE Append(drift, [i |-> l, expected |-> F!FormatCode(n, sh, NoDev)])
  /\ l' = l + 1
TSpec == TInit /\ [][TNext]_tvars
Verdict == (l = Len(Events) + 1) =>
             PrintT(<<"VERDICT", ToJson([consumed |-> l - 1, bad |-> bad, drift |-> drift])>>)
Accepted == TLCGet("stats").diameter = Len(Events) + 1
=============================================================================
