SPECIFICATION Spec
CONSTANTS
  Universe = "SP3"
  MaxLines = 3
INVARIANT MachineOK
CHECK_DEADLOCK FALSE
