SPECIFICATION Spec
CONSTANTS
  Dev <- DevInBand
  B = 3
  RecMax = 1
  Bodies <- BodiesTight
  Kinds <- KindsAll
  MaxDepth = 2
  Progs <- P_ploop_ninv
PROPERTY AbortedAfterDeadline
CHECK_DEADLOCK FALSE
