SPECIFICATION Spec
CONSTANTS
  Universe = "H"
  MaxLines = 5
INVARIANT MachineOK
CHECK_DEADLOCK FALSE
