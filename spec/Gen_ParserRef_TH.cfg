SPECIFICATION Spec
CONSTANTS
  Universe = "H"
  MaxLines = 5
INVARIANT MachineOK
INVARIANT GenInv
CHECK_DEADLOCK FALSE
