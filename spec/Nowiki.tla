------------------------------ MODULE Nowiki ------------------------------
(* C15: <nowiki> content and HTML comments.                                  *)
(* A payload c is a sequence of characters (one-character atoms, "SP", "NL"); *)
(* Quote is the documented entity table of common.py (_nowiki_map); the      *)
(* required outputs for the five embedding contexts and the comment-deletion *)
(* function are stated here and evaluated by TLC.                            *)
EXTENDS Naturals, Sequences, FiniteSets, TLC

Ent == ("=" :> "&equals;") @@ ("<" :> "&lt;") @@ (">" :> "&gt;") @@ ("*" :> "&ast;") @@ ("#" :> "&num;")
       @@ (":" :> "&colon;") @@ ("!" :> "&excl;") @@ ("|" :> "&vert;") @@ ("[" :> "&lsqb;") @@ ("]" :> "&rsqb;")
       @@ ("{" :> "&lbrace;") @@ ("}" :> "&rbrace;") @@ ("\"" :> "&quot;") @@ ("'" :> "&apos;") @@ ("_" :> "&#95;")
MarkupChars == DOMAIN Ent

QuoteChar(ch) == IF ch \in MarkupChars THEN Ent[ch] ELSE ch
Quote(c) == [i \in 1..Len(c) |-> QuoteChar(c[i])]
DecodeAtom(a) == IF \E ch \in MarkupChars : Ent[ch] = a THEN CHOOSE ch \in MarkupChars : Ent[ch] = a ELSE a
Decode(q) == [i \in 1..Len(q) |-> DecodeAtom(q[i])]

\* laws of the table
Recoverable(c) == Decode(Quote(c)) = c
Inert(c) == \A i \in 1..Len(Quote(c)) : Quote(c)[i] \notin MarkupChars

(* ---- embedding contexts: written input and required expansion, as atom sequences;
        "<nowiki>" / "</nowiki>" and the context syntax are multi-character atoms ---- *)
NW(c) == <<"<nowiki>">> \o c \o <<"</nowiki>">>
Input(ctx, c) ==
  CASE ctx = "top"  -> <<"p">> \o NW(c) \o <<"q">>
    [] ctx = "targ" -> <<"{{T1|">> \o NW(c) \o <<"}}">>
    [] ctx = "link" -> <<"[[a|">> \o NW(c) \o <<"]]">>
    [] ctx = "list" -> <<"*", "SP">> \o NW(c) \o <<"NL">>
    [] ctx = "cell" -> <<"{|", "NL", "|", "SP">> \o NW(c) \o <<"NL", "|}">>
    \* several spans in one text; tags are case-insensitive and may carry blanks
    [] ctx = "multi" -> <<"p">> \o NW(c) \o <<"m">> \o NW(c) \o <<"m">> \o NW(c) \o <<"m">> \o NW(c) \o <<"q">>
    [] ctx = "upper" -> <<"p", "<NOWIKI >">> \o c \o <<"</NoWiki  >", "q">>
    \* the content is the argument of a transforming parser function / of a template that
    \* transforms its argument (TU is the template "{{uc:{{{1}}}}}"): it must stay opaque
    [] ctx = "ucarg" -> <<"{{uc:">> \o NW(c) \o <<"}}">>
    [] ctx = "ucbody" -> <<"{{TU|">> \o NW(c) \o <<"}}">>
\* T1 is the template "({{{1}}})"
Expanded(ctx, c) ==
  CASE ctx = "top"  -> <<"p">> \o Quote(c) \o <<"q">>
    [] ctx = "targ" -> <<"(">> \o Quote(c) \o <<")">>
    [] ctx = "link" -> <<"[[a|">> \o Quote(c) \o <<"]]">>
    [] ctx = "list" -> <<"*", "SP">> \o Quote(c) \o <<"NL">>
    [] ctx = "cell" -> <<"{|", "NL", "|", "SP">> \o Quote(c) \o <<"NL", "|}">>
    [] ctx = "multi" -> <<"p">> \o Quote(c) \o <<"m">> \o Quote(c) \o <<"m">> \o Quote(c) \o <<"m">> \o Quote(c) \o <<"q">>
    [] ctx = "upper" -> <<"p">> \o Quote(c) \o <<"q">>
    [] ctx \in {"ucarg", "ucbody"} -> Quote(c)
\* parse(): path of node kinds to the single text leaf, and the text it must hold
LeafPath(ctx) ==
  CASE ctx \in {"top", "multi", "upper"} -> <<>>
    [] ctx \in {"ucarg", "ucbody"} -> <<"SKIP">>      \* expand-only contexts
    [] ctx = "targ" -> <<"TEMPLATE">>
    [] ctx = "link" -> <<"LINK">>
    [] ctx = "list" -> <<"LIST", "LIST_ITEM">>
    [] ctx = "cell" -> <<"TABLE", "TABLE_ROW", "TABLE_CELL">>
LeafText(ctx, c) ==
  CASE ctx \in {"top", "upper"}  -> <<"p">> \o Quote(c) \o <<"q">>
    [] ctx = "multi" -> <<"p">> \o Quote(c) \o <<"m">> \o Quote(c) \o <<"m">> \o Quote(c) \o <<"m">> \o Quote(c) \o <<"q">>
    [] ctx = "list" -> <<"SP">> \o Quote(c) \o <<"NL">>
    [] ctx = "cell" -> <<"SP">> \o Quote(c) \o <<"NL">>
    [] OTHER -> Quote(c)

(* ---- NESTED embedding contexts x expansion options ----------------------------------
   A nested context is a sequence of frames, outermost first, around one paired nowiki;
   all frame text is written as one-character atoms (entities are one atom each), so a
   real output tokenised into characters and entities compares directly.
   What expand() does with a frame depends on the MODE it is met in
     "all"  everything is expanded (expand_all of expand_recurse),
     "sel"  pre_expand: only selected templates are expanded, parser functions always,
     "raw"  the frame sits inside something that is EMITTED RAW (a construct disabled by
            <nowiki/>, a parser function under expand_parserfns=False, #invoke under
            expand_invoke=False): its stored arguments are written out as they were,
            only the paired nowiki inside still has to come out entity-quoted,
   and on the options o = [pfn, inv : BOOLEAN, sel : "all" | "none" | "T1"]
   (expand_parserfns, expand_invoke, pre_expand/templates_to_expand).               *)
Frames == {"text", "link", "ext", "T1", "if", "uc", "inv", "dt", "da", "dl", "ad", "tsib"}
NestOpts == [pfn : BOOLEAN, inv : BOOLEAN, sel : {"all", "none", "T1"}]
DefaultOpts == [pfn |-> TRUE, inv |-> TRUE, sel |-> "all"]
TopMode(o) == IF o.sel = "all" THEN "all" ELSE "sel"

FPre(f) ==
  CASE f = "text" -> <<"p">>
    [] f = "link" -> <<"[", "[", "a", "|">>
    [] f = "ext"  -> <<"[", "h", "t", "t", "p", "s", ":", "/", "/", "x", ".", "y", "SP">>
    [] f = "T1"   -> <<"{", "{", "T", "1", "|">>
    [] f = "if"   -> <<"{", "{", "#", "i", "f", ":", "1", "|">>
    [] f = "uc"   -> <<"{", "{", "u", "c", ":">>
    [] f = "inv"  -> <<"{", "{", "#", "i", "n", "v", "o", "k", "e", ":", "m", "|", "f", "|">>
    [] f = "dt"   -> <<"{", "{", "<", "n", "o", "w", "i", "k", "i", "/", ">", "t", "|">>       \* {{<nowiki/>t|
    [] f = "da"   -> <<"{", "{", "{", "<", "n", "o", "w", "i", "k", "i", "/", ">", "p", "|">>  \* {{{<nowiki/>p|
    [] f = "dl"   -> <<"[", "<", "n", "o", "w", "i", "k", "i", "/", ">", "[", "a", "|">>       \* [<nowiki/>[a|
    [] f = "ad"   -> <<"{", "{", "{", "p", "|">>      \* argument reference outside any template: its default
    [] f = "tsib" -> <<>>                             \* a template call NEXT TO the inner construct
FPost(f) ==
  CASE f = "text" -> <<"q">>
    [] f \in {"link", "dl"} -> <<"]", "]">>
    [] f = "ext"  -> <<"]">>
    [] f \in {"T1", "if", "uc", "inv", "dt"} -> <<"}", "}">>
    [] f \in {"da", "ad"} -> <<"}", "}", "}">>
    [] f = "tsib" -> <<"{", "{", "T", "1", "|", "s", "}", "}">>

NWOut == <<"<", "n", "o", "w", "i", "k", "i", "SP", "/", ">">>      \* <nowiki/> is rendered "<nowiki />"
\* a construct disabled by <nowiki/> comes out with its own markup as entities
EntPre(f) ==
  CASE f = "dt" -> <<"&lbrace;", "&lbrace;">> \o NWOut \o <<"t", "&vert;">>
    [] f = "da" -> <<"&lbrace;", "&lbrace;", "&lbrace;">> \o NWOut \o <<"p", "&vert;">>
    [] f = "dl" -> <<"&lsqb;", "&lsqb;", "a", "&vert;">>
EntPost(f) ==
  CASE f = "dt" -> <<"&rbrace;", "&rbrace;">>
    [] f = "da" -> <<"&rbrace;", "&rbrace;", "&rbrace;">>
    [] f = "dl" -> <<"&rsqb;", "&rsqb;">>
SibCall == <<"{", "{", "T", "1", "|", "s", "}", "}">>
\* <strong class="error">Template loop detected: [[:Template:T1]]</strong>
LoopErr == <<"<", "s", "t", "r", "o", "n", "g", "SP", "c", "l", "a", "s", "s", "=", "\"", "e", "r", "r", "o", "r", "\"", ">",
             "T", "e", "m", "p", "l", "a", "t", "e", "SP", "l", "o", "o", "p", "SP", "d", "e", "t", "e", "c", "t", "e", "d", ":", "SP",
             "[", "[", ":", "T", "e", "m", "p", "l", "a", "t", "e", ":", "T", "1", "]", "]", "<", "/", "s", "t", "r", "o", "n", "g", ">">>

(* The text under expansion is a sequence of ITEMS: atoms [t |-> "a", v] and stored
   constructs ("cookies") [t |-> "n", f, kids]; f = "N" is the stored paired nowiki,
   f = "sib" the sibling call {{T1|s}}.  One operator per step of the real code:
     Build     _encode: innermost first, every construct becomes a stored item
     ER / ER1  expand_recurse(coded, parent, expand_all): m = "all" | "sel" (expand_all or not),
               inb = a body of T1 is being expanded and no argument evaluation lies between
               (detect_expand_template_loop); something emitted raw EXPOSES its stored
               arguments: they are met again when the text passes through the body of an
               enclosing expanded template (the second ER over "(" v ")")
     EA / EA1  expand_args(coded, {}) for an argument reference outside any template
     Fin       _finalize_expand: what is still stored is written out, repeatedly, until
               nothing stored is left; the paired nowiki becomes Quote(c)                *)
At(seq) == [i \in 1..Len(seq) |-> [t |-> "a", v |-> seq[i]]]
Node(f, kids) == [t |-> "n", f |-> f, kids |-> kids]
RECURSIVE Build(_)
Build(fs) ==
  IF fs = <<>> THEN <<Node("N", <<>>)>>
  ELSE IF fs[1] = "tsib" THEN Build(Tail(fs)) \o <<Node("sib", <<>>)>>
  ELSE IF fs[1] = "text" THEN At(<<"p">>) \o Build(Tail(fs)) \o At(<<"q">>)
  ELSE <<Node(fs[1], Build(Tail(fs)))>>

RECURSIVE EA(_), EA1(_)
EA(items) == IF items = <<>> THEN <<>> ELSE EA1(items[1]) \o EA(Tail(items))
EA1(it) ==
  IF it.t = "a" THEN <<it>>
  ELSE CASE it.f \in {"N", "dt", "da", "dl"} -> <<it>>                        \* nowiki flag: kept as it is
         [] it.f \in {"T1", "sib", "if", "uc", "inv"} -> <<Node(it.f, EA(it.kids))>>  \* stored again with its arguments processed
         [] it.f = "ad" -> EA(it.kids)                                        \* no such argument: the default value
         [] it.f \in {"link", "ext"} -> At(FPre(it.f)) \o EA(it.kids) \o At(FPost(it.f))   \* written out as text

Selected(m, o) == m = "all" \/ o.sel = "T1"
RECURSIVE ER(_, _, _, _), ER1(_, _, _, _)
ER(items, m, inb, o) == IF items = <<>> THEN <<>> ELSE ER1(items[1], m, inb, o) \o ER(Tail(items), m, inb, o)
ER1(it, m, inb, o) ==
  IF it.t = "a" THEN <<it>>
  ELSE CASE it.f = "N" -> <<it>>
         [] it.f \in {"dt", "da", "dl"} -> At(EntPre(it.f)) \o it.kids \o At(EntPost(it.f))      \* raw: arguments exposed
         [] it.f \in {"link", "ext"} -> At(FPre(it.f)) \o ER(it.kids, m, inb, o) \o At(FPost(it.f))
         [] it.f \in {"T1", "sib"} ->
              (IF ~Selected(m, o)
               THEN (IF it.f = "sib" THEN At(SibCall) ELSE At(FPre("T1")) \o ER(it.kids, m, inb, o) \o At(FPost("T1")))
               ELSE IF inb THEN At(LoopErr)
               ELSE ER(At(<<"(">>) \o (IF it.f = "sib" THEN At(<<"s">>) ELSE ER(it.kids, "all", FALSE, o)) \o At(<<")">>), m, TRUE, o))
         [] it.f \in {"if", "uc"} ->
              (IF o.pfn THEN ER(it.kids, "all", inb, o)                                        \* #if:1|X -> X ; uc:X -> X (X opaque)
               ELSE At(FPre(it.f)) \o it.kids \o At(FPost(it.f)))                               \* expand_parserfns=False: raw
         [] it.f = "inv" -> At(FPre("inv")) \o it.kids \o At(FPost("inv"))                      \* universe keeps ~o.pfn \/ ~o.inv: raw
         [] it.f = "ad" -> ER(EA(it.kids), m, inb, o)

RECURSIVE Fin(_, _)
Fin(items, c) ==
  IF items = <<>> THEN <<>>
  ELSE LET it == items[1] IN
       (IF it.t = "a" THEN <<it.v>>
        ELSE CASE it.f = "N" -> Quote(c)
               [] it.f = "sib" -> SibCall
               [] it.f \in {"dt", "da", "dl"} -> EntPre(it.f) \o Fin(it.kids, c) \o EntPost(it.f)
               [] OTHER -> FPre(it.f) \o Fin(it.kids, c) \o FPost(it.f))
       \o Fin(Tail(items), c)

(* _finalize_expand step by step: one pass writes out every stored item that is in the text
   (its stored arguments come into the text, still stored); passes are repeated by RULE
     "fixpoint"  until the text no longer changes, i.e. nothing stored is left (the code; Fin
                 above is its closed form, FinLaw below)
     "flagTA"    only after a pass that wrote out a template call / argument reference
     "two"       at most twice
   (the last two are mistakes of this loop, kept for Demo_Nowiki_*.cfg: TLC finds the nested
   context in which a placeholder is left).  Whatever is still stored at the end is in the
   output as a placeholder character, "CK".                                              *)
FinPass1(it, c) ==
  IF it.t = "a" THEN <<it>>
  ELSE CASE it.f = "N" -> At(Quote(c))
         [] it.f = "sib" -> At(SibCall)
         [] it.f \in {"dt", "da", "dl"} -> At(EntPre(it.f)) \o it.kids \o At(EntPost(it.f))
         [] OTHER -> At(FPre(it.f)) \o it.kids \o At(FPost(it.f))
RECURSIVE FinPass(_, _), FinLoop(_, _, _, _)
FinPass(items, c) == IF items = <<>> THEN <<>> ELSE FinPass1(items[1], c) \o FinPass(Tail(items), c)
Stored(items) == \E i \in 1..Len(items) : items[i].t = "n"
StoredTA(items) == \E i \in 1..Len(items) : items[i].t = "n" /\ items[i].f \in {"T1", "sib", "if", "uc", "inv", "dt", "da", "ad"}
FlatOut(items) == [i \in 1..Len(items) |-> IF items[i].t = "a" THEN items[i].v ELSE "CK"]
FinLoop(items, c, rule, n) ==
  IF ~Stored(items) THEN FlatOut(items)
  ELSE IF (rule = "flagTA" /\ ~StoredTA(items)) \/ (rule = "two" /\ n = 2) THEN FlatOut(FinPass(items, c))   \* the last pass
  ELSE FinLoop(FinPass(items, c), c, rule, n + 1)
FinLaw(items, c) == FinLoop(items, c, "fixpoint", 1) = Fin(items, c)

RECURSIVE NInput(_, _)
NInput(fs, c) == IF fs = <<>> THEN NW(c) ELSE FPre(fs[1]) \o NInput(Tail(fs), c) \o FPost(fs[1])
NRes(fs, o) == ER(Build(fs), TopMode(o), FALSE, o)        \* what expand_recurse hands to _finalize_expand
NExpanded(fs, o, c) == Fin(NRes(fs, o), c)
\* is the stored nowiki still there (it is lost with a call of T1 that the library's loop detection rejects)
RECURSIVE HasN(_)
HasN(items) == \E i \in 1..Len(items) : items[i].t = "n" /\ (items[i].f = "N" \/ HasN(items[i].kids))

\* Bracket runs that are ambiguous wikitext (which "]]" closes what): a disabled link inside
\* a link or disabled link, an external link whose "]" runs into the "]]" of a link, two
\* external links closing together ("]]") somewhere inside a link.  The
\* encoder pairs brackets leftmost-first there; the model does not predict the rendering of
\* the frames then, only what the statement demands (Demand below).
Ambiguous(fs) == \/ \E i, j \in 1..Len(fs) : i < j /\ fs[i] \in {"link", "dl"} /\ fs[j] = "dl"
                 \/ \E i \in 1..(Len(fs) - 1) : fs[i] \in {"link", "dl"} /\ fs[i + 1] = "ext"
                 \/ \E i, k \in 1..(Len(fs) - 1) : i < k /\ fs[i] \in {"link", "dl"} /\ fs[k] = "ext" /\ fs[k + 1] = "ext"
\* Order of the encoder: links, external links and argument references are encoded in one
\* inner loop, in this order.  A link whose text holds an external link (not adjacent) cannot be
\* matched before that external link is encoded - and in the same round an argument reference
\* around the link IS matched (its text only must be free of braces), takes the still unencoded
\* link as text and is split at the link's "|": {{{p|[[a|p[https://x.y X]q]]}}} has the default
\* value "[[a" (whatever X is; nothing to do with nowiki).  Over-approximated by: an argument
\* reference with an external link below it, a link between them and no brace construct around
\* that external link between them (a sibling call is encoded a round earlier and does not help).
ArgSwallows(fs, A) == \E i, k \in 1..Len(fs) : /\ i < k /\ fs[i] \in A /\ fs[k] = "ext"
                                              /\ \E j \in (i + 1)..(k - 1) : fs[j] \in {"link", "dl"}
                                              /\ \A x \in (i + 1)..(k - 1) : fs[x] \in {"text", "link", "dl", "ext", "tsib"}
\* the model predicts the whole output / only what the statement demands
Exact(fs) == ~Ambiguous(fs) /\ ~ArgSwallows(fs, {"da", "ad"})
\* must the quoted payload be in the output?  Where the model predicts the output: unless the
\* library's template-loop error replaces a call of T1 that encloses it (r = NRes(fs, o), handed
\* in evaluated).  Where it does not: only if no brace construct is around (with mis-paired
\* brackets a brace construct may be read as a call of a missing template, or be split at a
\* "|", and then drops its arguments - whatever they are)
Demand(fs, r) == IF Exact(fs) THEN HasN(r) ELSE \A i \in 1..Len(fs) : fs[i] \in {"text", "link", "ext", "dl"}

\* the universe: "uc" transforms its argument, so it is only used directly around the nowiki;
\* options are varied only where some frame of the context looks at them
HasF(fs, S) == \E i \in 1..Len(fs) : fs[i] \in S
NestStacks(d) == { fs \in UNION { [1..n -> Frames] : n \in 1..d } : \A i \in 1..Len(fs) : fs[i] = "uc" => i = Len(fs) }
OptsFor(fs) == { o \in NestOpts : /\ (~HasF(fs, {"if", "uc", "inv"}) => o.pfn)
                                  /\ (~HasF(fs, {"inv"}) => o.inv)
                                  /\ (HasF(fs, {"inv"}) => ~o.pfn \/ ~o.inv)
                                  /\ (~HasF(fs, {"T1", "tsib"}) => o.sel = "all") }

\* the statement's own observables on a tokenised real output ("CK" = any character of the
\* placeholder range U+10203D..U+10FFF0): no placeholder; the quoted payload is there
NoPlaceholder(out) == \A i \in 1..Len(out) : out[i] # "CK"
Contains(out, q) == \E i \in 0..(Len(out) - Len(q)) : SubSeq(out, i + 1, i + Len(q)) = q

(* ---- comments: a document is a sequence of pieces [k |-> "t"|"c", s |-> chars];
        the comment and the line break directly before it are deleted ---- *)
RECURSIVE Strip(_)
Strip(doc) ==
  IF doc = <<>> THEN <<>>
  ELSE IF Len(doc) >= 2 /\ doc[1].k = "t" /\ doc[2].k = "c"
       THEN LET t == doc[1].s
                t2 == IF Len(t) > 0 /\ t[Len(t)] = "NL" THEN SubSeq(t, 1, Len(t) - 1) ELSE t
            IN t2 \o Strip(Tail(doc))
  ELSE IF doc[1].k = "c" THEN Strip(Tail(doc))
  ELSE doc[1].s \o Strip(Tail(doc))
RECURSIVE Written(_)
Written(doc) ==
  IF doc = <<>> THEN <<>>
  ELSE (IF doc[1].k = "c" THEN <<"<!--">> \o doc[1].s \o <<"-->">> ELSE doc[1].s) \o Written(Tail(doc))
(* ---- comments, flat formulation: a text is a sequence of one-character atoms ("SP", "NL",
        "TAB" for blank, line break, tab) in which "<!--", "-->", "<nowiki>", "</nowiki>" are
        atoms.  What stands AROUND a comment on its line is part of the text, so what a comment
        takes with it when it is removed can be stated position by position.
     StripRef   the statement: a position is deleted iff it lies in a closed comment outside
                nowiki, or holds the line break DIRECTLY before such a comment; nothing else
     StripScan  the code (preprocess_text): paired nowiki is stored first, then the text is
                scanned from the left for  [prefix] "<!--" ... first "-->" [suffix]  and every
                match is removed.  What prefix / suffix the comment may take with it is the RULE:
                  "direct"  one line break directly before it                       (the code)
                  "only"    nothing (what _template_to_body does with a template body)
                  "indent"  a line break and the blanks / tabs between it and the comment
                  "lines"   all line breaks directly before it
                  "trail"   the line break directly before it and the blanks / tabs after it
                (the last three are mistakes of this step, kept for Demo_Nowiki_c*.cfg: TLC
                finds the line layout in which the comment then contributes: joins two lines,
                eats an indentation, ...)                                                    *)
RECURSIVE FirstAt(_, _, _)
FirstAt(s, a, i) == IF i > Len(s) THEN 0 ELSE IF s[i] = a THEN i ELSE FirstAt(s, a, i + 1)
RECURSIVE RunLen(_, _, _)
RunLen(s, S, i) == IF i <= Len(s) /\ s[i] \in S THEN 1 + RunLen(s, S, i + 1) ELSE 0
\* <<open, close>> positions of the closed comments outside nowiki, at or after i
RECURSIVE CSpans(_, _)
CSpans(s, i) ==
  IF i > Len(s) THEN {}
  ELSE IF s[i] = "<nowiki>" /\ FirstAt(s, "</nowiki>", i + 1) > 0 THEN CSpans(s, FirstAt(s, "</nowiki>", i + 1) + 1)
  ELSE IF s[i] = "<!--" /\ FirstAt(s, "-->", i + 1) > 0
       THEN {<<i, FirstAt(s, "-->", i + 1)>>} \cup CSpans(s, FirstAt(s, "-->", i + 1) + 1)
  ELSE CSpans(s, i + 1)
CDeleted(s) == CHOOSE d \in { { k \in 1..Len(s) : \E p \in sp : (p[1] <= k /\ k <= p[2]) \/ (k = p[1] - 1 /\ s[k] = "NL") }
                              : sp \in {CSpans(s, 1)} } : TRUE
RECURSIVE Keep(_, _, _)
Keep(s, d, i) == IF i > Len(s) THEN <<>> ELSE (IF i \in d THEN <<>> ELSE <<s[i]>>) \o Keep(s, d, i + 1)
StripRef(s) == CHOOSE r \in { Keep(s, d, 1) : d \in {CDeleted(s)} } : TRUE

\* a text as characters only (a recorded output is compared character by character: the removal
\* of a comment may bring "<!" and "--" together, which is text, not a delimiter of the written input)
CharsOf(a) == CASE a = "<!--" -> <<"<", "!", "-", "-">> [] a = "-->" -> <<"-", "-", ">">>
                [] a = "<nowiki>" -> <<"<", "n", "o", "w", "i", "k", "i", ">">> [] a = "</nowiki>" -> <<"<", "/", "n", "o", "w", "i", "k", "i", ">">>
                [] OTHER -> <<a>>
RECURSIVE Chars(_)
Chars(s) == IF s = <<>> THEN <<>> ELSE CharsOf(s[1]) \o Chars(Tail(s))

CBlanks == {"SP", "TAB"}
CRules == {"direct", "only", "indent", "lines", "trail"}
CMistakes == {"indent", "lines", "trail"}
CPrefix(s, i, rule) ==
  CASE rule = "only"   -> 0
    [] rule = "indent" -> IF s[i] = "NL" THEN 1 + RunLen(s, CBlanks, i + 1) ELSE 0
    [] rule = "lines"  -> RunLen(s, {"NL"}, i)
    [] OTHER           -> IF s[i] = "NL" THEN 1 ELSE 0
CSuffix(s, j, rule) == IF rule = "trail" THEN RunLen(s, CBlanks, j) ELSE 0
\* where the comment matched at position i (with its optional prefix) ends; 0 = no match at i
CMatchEnd(s, i, rule) ==
  LET p == CPrefix(s, i, rule)
      o == IF p > 0 /\ i + p <= Len(s) /\ s[i + p] = "<!--" THEN i + p ELSE IF s[i] = "<!--" THEN i ELSE 0
  IN IF o = 0 THEN 0 ELSE FirstAt(s, "-->", o + 1)
RECURSIVE StripScan(_, _, _)
StripScan(s, i, rule) ==
  IF i > Len(s) THEN <<>>
  ELSE IF s[i] = "<nowiki>" /\ FirstAt(s, "</nowiki>", i + 1) > 0
       THEN SubSeq(s, i, FirstAt(s, "</nowiki>", i + 1)) \o StripScan(s, FirstAt(s, "</nowiki>", i + 1) + 1, rule)
  ELSE LET e == CMatchEnd(s, i, rule) IN
         IF e > 0 THEN StripScan(s, e + 1 + CSuffix(s, e + 1, rule), rule) ELSE <<s[i]>> \o StripScan(s, i + 1, rule)
=============================================================================
