------------------------------ MODULE Nowiki ------------------------------
(* C15: <nowiki> content and HTML comments.                                  *)
(* A payload c is a sequence of characters (one-character atoms, "SP", "NL"); *)
(* Quote is the documented entity table of common.py (_nowiki_map); the      *)
(* required outputs for the five embedding contexts and the comment-deletion *)
(* function are stated here and evaluated by TLC.                            *)
EXTENDS Naturals, Sequences, FiniteSets, TLC

Ent == ("=" :> "&equals;") @@ ("<" :> "&lt;") @@ (">" :> "&gt;") @@ ("*" :> "&ast;") @@ ("#" :> "&num;")
       @@ (":" :> "&colon;") @@ ("!" :> "&excl;") @@ ("|" :> "&vert;") @@ ("[" :> "&lsqb;") @@ ("]" :> "&rsqb;")
       @@ ("{" :> "&lbrace;") @@ ("}" :> "&rbrace;") @@ ("\"" :> "&quot;") @@ ("'" :> "&apos;") @@ ("_" :> "&#95;")
MarkupChars == DOMAIN Ent

QuoteChar(ch) == IF ch \in MarkupChars THEN Ent[ch] ELSE ch
Quote(c) == [i \in 1..Len(c) |-> QuoteChar(c[i])]
DecodeAtom(a) == IF \E ch \in MarkupChars : Ent[ch] = a THEN CHOOSE ch \in MarkupChars : Ent[ch] = a ELSE a
Decode(q) == [i \in 1..Len(q) |-> DecodeAtom(q[i])]

\* laws of the table
Recoverable(c) == Decode(Quote(c)) = c
Inert(c) == \A i \in 1..Len(Quote(c)) : Quote(c)[i] \notin MarkupChars

(* ---- embedding contexts: written input and required expansion, as atom sequences;
        "<nowiki>" / "</nowiki>" and the context syntax are multi-character atoms ---- *)
NW(c) == <<"<nowiki>">> \o c \o <<"</nowiki>">>
Input(ctx, c) ==
  CASE ctx = "top"  -> <<"p">> \o NW(c) \o <<"q">>
    [] ctx = "targ" -> <<"{{T1|">> \o NW(c) \o <<"}}">>
    [] ctx = "link" -> <<"[[a|">> \o NW(c) \o <<"]]">>
    [] ctx = "list" -> <<"*", "SP">> \o NW(c) \o <<"NL">>
    [] ctx = "cell" -> <<"{|", "NL", "|", "SP">> \o NW(c) \o <<"NL", "|}">>
    \* several spans in one text; tags are case-insensitive and may carry blanks
    [] ctx = "multi" -> <<"p">> \o NW(c) \o <<"m">> \o NW(c) \o <<"m">> \o NW(c) \o <<"m">> \o NW(c) \o <<"q">>
    [] ctx = "upper" -> <<"p", "<NOWIKI >">> \o c \o <<"</NoWiki  >", "q">>
    \* the content is the argument of a transforming parser function / of a template that
    \* transforms its argument (TU is the template "{{uc:{{{1}}}}}"): it must stay opaque
    [] ctx = "ucarg" -> <<"{{uc:">> \o NW(c) \o <<"}}">>
    [] ctx = "ucbody" -> <<"{{TU|">> \o NW(c) \o <<"}}">>
\* T1 is the template "({{{1}}})"
Expanded(ctx, c) ==
  CASE ctx = "top"  -> <<"p">> \o Quote(c) \o <<"q">>
    [] ctx = "targ" -> <<"(">> \o Quote(c) \o <<")">>
    [] ctx = "link" -> <<"[[a|">> \o Quote(c) \o <<"]]">>
    [] ctx = "list" -> <<"*", "SP">> \o Quote(c) \o <<"NL">>
    [] ctx = "cell" -> <<"{|", "NL", "|", "SP">> \o Quote(c) \o <<"NL", "|}">>
    [] ctx = "multi" -> <<"p">> \o Quote(c) \o <<"m">> \o Quote(c) \o <<"m">> \o Quote(c) \o <<"m">> \o Quote(c) \o <<"q">>
    [] ctx = "upper" -> <<"p">> \o Quote(c) \o <<"q">>
    [] ctx \in {"ucarg", "ucbody"} -> Quote(c)
\* parse(): path of node kinds to the single text leaf, and the text it must hold
LeafPath(ctx) ==
  CASE ctx \in {"top", "multi", "upper"} -> <<>>
    [] ctx \in {"ucarg", "ucbody"} -> <<"SKIP">>      \* expand-only contexts
    [] ctx = "targ" -> <<"TEMPLATE">>
    [] ctx = "link" -> <<"LINK">>
    [] ctx = "list" -> <<"LIST", "LIST_ITEM">>
    [] ctx = "cell" -> <<"TABLE", "TABLE_ROW", "TABLE_CELL">>
LeafText(ctx, c) ==
  CASE ctx \in {"top", "upper"}  -> <<"p">> \o Quote(c) \o <<"q">>
    [] ctx = "multi" -> <<"p">> \o Quote(c) \o <<"m">> \o Quote(c) \o <<"m">> \o Quote(c) \o <<"m">> \o Quote(c) \o <<"q">>
    [] ctx = "list" -> <<"SP">> \o Quote(c) \o <<"NL">>
    [] ctx = "cell" -> <<"SP">> \o Quote(c) \o <<"NL">>
    [] OTHER -> Quote(c)

(* ---- comments: a document is a sequence of pieces [k |-> "t"|"c", s |-> chars];
        the comment and the line break directly before it are deleted ---- *)
RECURSIVE Strip(_)
Strip(doc) ==
  IF doc = <<>> THEN <<>>
  ELSE IF Len(doc) >= 2 /\ doc[1].k = "t" /\ doc[2].k = "c"
       THEN LET t == doc[1].s
                t2 == IF Len(t) > 0 /\ t[Len(t)] = "NL" THEN SubSeq(t, 1, Len(t) - 1) ELSE t
            IN t2 \o Strip(Tail(doc))
  ELSE IF doc[1].k = "c" THEN Strip(Tail(doc))
  ELSE doc[1].s \o Strip(Tail(doc))
RECURSIVE Written(_)
Written(doc) ==
  IF doc = <<>> THEN <<>>
  ELSE (IF doc[1].k = "c" THEN <<"<!--">> \o doc[1].s \o <<"-->">> ELSE doc[1].s) \o Written(Tail(doc))
=============================================================================
