SPECIFICATION Spec
CONSTANTS
  Dev <- DevSubLikeSection
  Titles <- TitlesOne
  Sections <- SecTwo
  Subsections <- SubThree
  EmitSet <- EmitTwoKinds
  ExpandTexts <- NoText
  ParseTexts <- NoText
  Markers <- MarkersNone
  MaxMsgs = 1
  MaxMarkers = 0
INVARIANT StampsSubsection
CHECK_DEADLOCK FALSE
