SPECIFICATION DemoSpec
CONSTANTS
  PfxNs <- T_PfxNs
  CanonPfx <- T_CanonPfx
  UpperOf <- T_UpperOf
  ArgU <- NoArgs
  Dev <- DevExact
  TplNs = 10
  MaxN = 3
  MaxRedirects = 1
  Combos <- CombosB
  HistKinds <- KindsQ
INVARIANT ResultIsClosure
CHECK_DEADLOCK FALSE
