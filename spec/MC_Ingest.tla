--------------------------- MODULE MC_Ingest ---------------------------
(* Bounded instances of Ingest: every dump of <= MaxLen pages over a pool of  *)
(* abstract pages (title kinds x namespaces x content models x redirects x    *)
(* bodies), every namespace selection of a small family.                      *)
EXTENDS Ingest, SequencesExt

(* ---------------- tables (English language data) ---------------- *)
T_PfxNs == ("Template:" :> 10) @@ ("Module:" :> 828) @@ ("Wiktionary:" :> 4) @@ ("MediaWiki:" :> 8)
T_CanonPfx == ("10" :> "Template:") @@ ("828" :> "Module:") @@ ("4" :> "Wiktionary:") @@ ("8" :> "MediaWiki:")
T_UpperOf == ("z" :> "Z") @@ ("Z" :> "Z")
T_Defaults == << [title |-> <<"Template:", "!">>, body |-> "d1"],
                 [title |-> <<"Template:", "=">>, body |-> "d2"],
                 [title |-> <<"Template:", "((">>, body |-> "d3"],
                 [title |-> <<"Template:", "))">>, body |-> "d4"] >>
T_OkModels == {"wikitext", "Scribunto", "json"}
DevIdeal == {}
DevMain == {"MainPrefixStrippedOnAdd"}
NoArgs == {}

CONSTANTS MaxLen, Pool, Sels, Parts, Part

(* ---------------- titles ---------------- *)
BaseOf(tk) ==
  CASE tk = "plain" -> <<"Z", "ed">>
    [] tk = "lower" -> <<"z", "ed">>
    [] tk = "main" -> <<"Main:", "Z", "ed">>
    [] tk = "doc" -> <<"Z", "ed", "/documentation">>
    [] tk = "tc" -> <<"Z", "ed", "/testcases">>
    [] tk = "tcsub" -> <<"Z", "ed", "/testcases", "/x">>
    [] tk = "tcx" -> <<"Z", "ed", "/testcases", "X">>
    [] tk = "docsub" -> <<"Z", "ed", "/documentation", "/x">>
    [] tk = "docword" -> <<"Z", "ed", " documentation">>
    [] tk = "sub" -> <<"Z", "ed", "/sub">>
    [] tk = "colon" -> <<"Z", "ed", ": x:y">>
    [] tk = "pfxlike" -> <<"Template", ":Zed">>
    [] tk = "uni" -> <<"Ünï", "-çø𝔡é">>
    [] tk = "bang" -> <<"!">>
    [] tk = "eq" -> <<"=">>
    [] tk = "lb" -> <<"((">>
    [] tk = "rb" -> <<"))">>
TitleFor(ns, tk) == (IF ns = 0 THEN <<>> ELSE <<T_CanonPfx[ToString(ns)]>>) \o BaseOf(tk)

(* ---------------- bodies ---------------- *)
\* identifiers; "t*" bodies contain inclusion-control markup
IncOf(b) == CASE b = "t1" -> "t1i" [] b = "t2" -> "t2i" [] b = "t3" -> "t3i" [] b = "t4" -> "t4i"
              [] OTHER -> b

MkPage(ns, tk, model, redto, body) ==
  DPage(TitleFor(ns, tk), ns, model,
        IF redto = "none" THEN NoRedirect ELSE TitleFor(ns, redto),
        body, IncOf(body))

(* ---------------- pools ---------------- *)
\* core: collisions, duplicates, exclusions, models, redirects, templates, defaults
PoolCore ==
  { MkPage(0, "plain", "wikitext", "none", "b1"),
    MkPage(0, "plain", "wikitext", "none", "b2"),
    MkPage(0, "main", "wikitext", "none", "b3"),
    MkPage(0, "lower", "wikitext", "none", "b4"),
    MkPage(0, "doc", "wikitext", "none", "b1"),
    MkPage(0, "tc", "wikitext", "none", "b1"),
    MkPage(0, "plain", "css", "none", "b5"),
    MkPage(0, "plain", "wikitext", "sub", "b1"),
    MkPage(0, "sub", "wikitext", "none", "b6"),
    MkPage(10, "plain", "wikitext", "none", "t1"),
    MkPage(10, "plain", "wikitext", "none", "b1"),
    MkPage(10, "plain", "wikitext", "lower", "b1"),
    MkPage(10, "bang", "wikitext", "none", "t2"),
    MkPage(10, "eq", "wikitext", "rb", "b1"),
    MkPage(10, "main", "wikitext", "none", "b2"),
    MkPage(828, "plain", "Scribunto", "none", "t1"),
    MkPage(828, "doc", "wikitext", "none", "b1"),
    MkPage(828, "plain", "Scribunto", "sub", "b1"),
    MkPage(4, "plain", "wikitext", "none", "b5"),
    MkPage(8, "plain", "json", "none", "b6"),
    MkPage(8, "sub", "javascript", "none", "b1") }

\* every title kind in the main and the template namespace
PoolTitles ==
  { MkPage(ns, tk, "wikitext", "none", "b1") :
      ns \in {0, 10},
      tk \in {"plain", "lower", "main", "doc", "tc", "tcsub", "tcx", "docsub", "docword", "sub", "colon",
              "pfxlike", "uni", "bang", "eq", "lb", "rb"} }
\* every content model, with and without redirect
PoolModels ==
  { MkPage(ns, "plain", m, r, "b1") :
      ns \in {0, 8}, m \in {"wikitext", "Scribunto", "json", "css", "javascript", "sanitized-css", ""},
      r \in {"none", "sub"} }
\* every body in a template and a non-template namespace
PoolBodies ==
  { MkPage(ns, "plain", "wikitext", "none", b) :
      ns \in {0, 10, 828}, b \in {"b1", "b2", "b3", "b4", "b5", "b6", "b7", "b8", "t1", "t2", "t3", "t4"} }
\* the default helper templates present in the dump, as pages and as redirects
PoolDefaults ==
  { MkPage(10, tk, "wikitext", r, "b2") : tk \in {"bang", "eq", "lb", "rb"}, r \in {"none", "plain"} }

PoolQ == PoolCore
PoolT == PoolCore \cup PoolTitles \cup PoolModels \cup PoolBodies \cup PoolDefaults
PoolWide == PoolT

SelsQ == { {0, 10, 828}, {0, 4, 8, 10, 828} }
SelsT == { {0, 10, 828}, {0, 4, 8, 10, 828}, {0}, {10, 828} }

(* ---------------- exhaustive exploration ---------------- *)
PoolSeq == SetToSeq(Pool)
DumpOf(f) == [k \in DOMAIN f |-> PoolSeq[f[k]]]
InPart(f) == Parts = 1 \/ (IF Len(f) = 0 THEN 0 ELSE f[1] % Parts) = Part

MCInit ==
  \E n \in 0..MaxLen : \E f \in [1..n -> 1..Len(PoolSeq)] : \E s \in Sels :
    /\ InPart(f)
    /\ IInit(DumpOf(f), s)
MCSpec == MCInit /\ [][INext]_ivars /\ WF_ivars(INext)
Terminates == <>IDone

\* Demo: the main-namespace pages "Zed" and "Main:Zed"
DemoDump == << MkPage(0, "plain", "wikitext", "none", "b1"), MkPage(0, "main", "wikitext", "none", "b3") >>
DemoInit == IInit(DemoDump, {0, 10, 828})
DemoSpec == DemoInit /\ [][INext]_ivars
=============================================================================
