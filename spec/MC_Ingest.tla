--------------------------- MODULE MC_Ingest ---------------------------
(* Bounded instances of Ingest: every dump of <= MaxLen pages over a pool of  *)
(* abstract pages (title kinds x namespaces x content models x redirects x    *)
(* bodies), every namespace selection of a small family.                      *)
EXTENDS Ingest, SequencesExt

(* ---------------- tables (English language data) ---------------- *)
T_CanonPfx == ("10" :> "Template:") @@ ("828" :> "Module:") @@ ("4" :> "Wiktionary:") @@ ("8" :> "MediaWiki:")
              @@ ("100" :> "Appendix:") @@ ("11" :> "Template talk:") @@ ("829" :> "Module talk:")
\* other spellings of the prefixes (aliases of the language data, lower case)
T_AliasPfx == ("10" :> "T:") @@ ("828" :> "MOD:") @@ ("4" :> "WT:") @@ ("100" :> "AP:")
T_LowerPfx == ("10" :> "template:") @@ ("828" :> "module:") @@ ("4" :> "wiktionary:") @@ ("100" :> "appendix:")
T_PfxNs == ("Template:" :> 10) @@ ("Module:" :> 828) @@ ("Wiktionary:" :> 4) @@ ("MediaWiki:" :> 8)
           @@ ("Appendix:" :> 100) @@ ("Template talk:" :> 11) @@ ("Module talk:" :> 829)
           @@ ("T:" :> 10) @@ ("MOD:" :> 828) @@ ("WT:" :> 4) @@ ("AP:" :> 100)
           @@ ("template:" :> 10) @@ ("module:" :> 828) @@ ("wiktionary:" :> 4) @@ ("appendix:" :> 100)
T_UpperOf == ("z" :> "Z") @@ ("Z" :> "Z")
T_Defaults == << [title |-> <<"Template:", "!">>, body |-> "d1"],
                 [title |-> <<"Template:", "=">>, body |-> "d2"],
                 [title |-> <<"Template:", "((">>, body |-> "d3"],
                 [title |-> <<"Template:", "))">>, body |-> "d4"] >>
T_OkModels == {"wikitext", "Scribunto", "json"}
DevIdeal == {}
DevMain == {"MainPrefixStrippedOnAdd"}
DevRed == {"RedirectTreatedAsTitle"}
DevTalk == {"TalkReducedLikeSubject"}
NoArgs == {}

CONSTANTS MaxLen, Pool, Sels, Parts, Part

(* ---------------- titles ---------------- *)
BaseOf(tk) ==
  CASE tk = "plain" -> <<"Z", "ed">>
    [] tk = "lower" -> <<"z", "ed">>
    [] tk = "main" -> <<"Main:", "Z", "ed">>
    [] tk = "doc" -> <<"Z", "ed", "/documentation">>
    [] tk = "tc" -> <<"Z", "ed", "/testcases">>
    [] tk = "tcsub" -> <<"Z", "ed", "/testcases", "/x">>
    [] tk = "tcx" -> <<"Z", "ed", "/testcases", "X">>
    [] tk = "docsub" -> <<"Z", "ed", "/documentation", "/x">>
    [] tk = "docword" -> <<"Z", "ed", " documentation">>
    [] tk = "sub" -> <<"Z", "ed", "/sub">>
    [] tk = "colon" -> <<"Z", "ed", ": x:y">>
    [] tk = "pfxlike" -> <<"Template", ":Zed">>
    \* titles whose TEXT begins with / equals the name of a namespace without the page being in it
    [] tk = "tword" -> <<"Template">>
    [] tk = "twords" -> <<"Template", "s">>
    [] tk = "twordx" -> <<"Template", "-based">>
    [] tk = "ttalkword" -> <<"Template", " talk">>
    [] tk = "tlower" -> <<"template", "s">>
    [] tk = "mword" -> <<"Module">>
    [] tk = "mwords" -> <<"Module", "s">>
    [] tk = "uni" -> <<"Ünï", "-çø𝔡é">>
    [] tk = "bang" -> <<"!">>
    [] tk = "eq" -> <<"=">>
    [] tk = "lb" -> <<"((">>
    [] tk = "rb" -> <<"))">>
TitleFor(ns, tk) == (IF ns = 0 THEN <<>> ELSE <<T_CanonPfx[ToString(ns)]>>) \o BaseOf(tk)

(* ---------------- bodies ---------------- *)
\* identifiers; "t*" bodies contain inclusion-control markup
IncOf(b) == CASE b = "t1" -> "t1i" [] b = "t2" -> "t2i" [] b = "t3" -> "t3i" [] b = "t4" -> "t4i"
              [] OTHER -> b

MkPage(ns, tk, model, redto, body) ==
  DPage(TitleFor(ns, tk), ns, model,
        IF redto = "none" THEN NoRedirect ELSE TitleFor(ns, redto),
        body, IncOf(body))

(* ---------------- pools ---------------- *)
\* core: collisions, duplicates, exclusions, models, redirects, templates, defaults
PoolCore ==
  { MkPage(0, "plain", "wikitext", "none", "b1"),
    MkPage(0, "plain", "wikitext", "none", "b2"),
    MkPage(0, "main", "wikitext", "none", "b3"),
    MkPage(0, "lower", "wikitext", "none", "b4"),
    MkPage(0, "doc", "wikitext", "none", "b1"),
    MkPage(0, "tc", "wikitext", "none", "b1"),
    MkPage(0, "plain", "css", "none", "b5"),
    MkPage(0, "plain", "wikitext", "sub", "b1"),
    MkPage(0, "sub", "wikitext", "none", "b6"),
    MkPage(10, "plain", "wikitext", "none", "t1"),
    MkPage(10, "plain", "wikitext", "none", "b1"),
    MkPage(10, "plain", "wikitext", "lower", "b1"),
    MkPage(10, "bang", "wikitext", "none", "t2"),
    MkPage(10, "eq", "wikitext", "rb", "b1"),
    MkPage(10, "main", "wikitext", "none", "b2"),
    MkPage(828, "plain", "Scribunto", "none", "t1"),
    MkPage(828, "doc", "wikitext", "none", "b1"),
    MkPage(828, "plain", "Scribunto", "sub", "b1"),
    MkPage(4, "plain", "wikitext", "none", "b5"),
    MkPage(8, "plain", "json", "none", "b6"),
    MkPage(8, "sub", "javascript", "none", "b1") }

\* every title kind in the main and the template namespace
PoolTitles ==
  { MkPage(ns, tk, "wikitext", "none", "b1") :
      ns \in {0, 10},
      tk \in {"plain", "lower", "main", "doc", "tc", "tcsub", "tcx", "docsub", "docword", "sub", "colon",
              "pfxlike", "uni", "bang", "eq", "lb", "rb"} }
\* every content model, with and without redirect
PoolModels ==
  { MkPage(ns, "plain", m, r, "b1") :
      ns \in {0, 8}, m \in {"wikitext", "Scribunto", "json", "css", "javascript", "sanitized-css", ""},
      r \in {"none", "sub"} }
\* every body in a template and a non-template namespace
PoolBodies ==
  { MkPage(ns, "plain", "wikitext", "none", b) :
      ns \in {0, 10, 828}, b \in {"b1", "b2", "b3", "b4", "b5", "b6", "b7", "b8", "t1", "t2", "t3", "t4"} }
\* the default helper templates present in the dump, as pages and as redirects
PoolDefaults ==
  { MkPage(10, tk, "wikitext", r, "b2") : tk \in {"bang", "eq", "lb", "rb"}, r \in {"none", "plain"} }

(* ---------------- redirect targets x source namespaces ---------------- *)
\* a target = (form, namespace it points into, title kind); forms: "canon" as a MediaWiki
\* export writes it (no prefix for the main namespace, canonical prefix otherwise),
\* "sp" with a space, and the spellings an export never uses: alias prefix, lower-case
\* prefix, leading colon, fragment, underscore
TargetFor(form, tns, tk) ==
  CASE form = "canon" -> TitleFor(tns, tk)
    [] form = "sp" -> TitleFor(tns, tk) \o <<"SP", "x">>
    [] form = "alias" -> <<T_AliasPfx[ToString(tns)]>> \o BaseOf(tk)
    [] form = "lc" -> <<T_LowerPfx[ToString(tns)]>> \o BaseOf(tk)
    [] form = "colon" -> <<":">> \o TitleFor(tns, tk)
    [] form = "frag" -> TitleFor(tns, tk) \o <<"#", "Sec", "SP", "1">>
    [] form = "us" -> TitleFor(tns, tk) \o <<"US", "x">>
MkRed(src, tgt) ==
  DPage(TitleFor(src[1], src[2]), src[1], src[3], TargetFor(tgt[1], tgt[2], tgt[3]), "b1", "b1")
\* a namespace with a prefix other than ns
OtherNs(ns) == IF ns = 10 THEN 828 ELSE 10
OwnOr(ns) == IF ns \in {0, 8} THEN 10 ELSE ns
\* the targets tried from a page <<ns, title kind, model>>
TargetsOf(src, wide) ==
  LET ns == src[1] IN
  { <<"canon", ns, "sub">>,            \* same namespace
    <<"canon", ns, src[2]>>,           \* the page itself
    <<"canon", 0, "plain">>,           \* main namespace (from ns # 0: the bare name of the page)
    <<"canon", 0, "lower">>,
    <<"canon", 0, "colon">>,           \* main-namespace title with colons
    <<"canon", 0, "main">>,
    <<"canon", OtherNs(ns), "plain">>, \* another namespace's prefix
    <<"sp", 0, "plain">>,
    <<"alias", OwnOr(ns), "plain">>, <<"lc", OwnOr(ns), "lower">>,
    <<"colon", 0, "plain">>, <<"colon", OtherNs(ns), "plain">>,
    <<"frag", 0, "lower">>, <<"frag", OwnOr(ns), "plain">>,
    <<"us", 0, "plain">> }
  \cup (IF wide THEN { <<"canon", 0, "uni">>, <<"canon", 0, "pfxlike">>, <<"canon", ns, "lower">>,
                       <<"canon", 100, "lower">>, <<"alias", OtherNs(ns), "lower">>, <<"lc", OtherNs(ns), "plain">>,
                       <<"colon", OwnOr(ns), "sub">>, <<"frag", OtherNs(ns), "sub">>, <<"us", OwnOr(ns), "plain">>,
                       <<"sp", OwnOr(ns), "lower">> }
        ELSE {})
RedSourcesQ == { <<0, "plain", "wikitext">>, <<10, "plain", "wikitext">>, <<828, "plain", "Scribunto">>,
                 <<4, "lower", "wikitext">>, <<100, "plain", "wikitext">> }
RedSourcesT == RedSourcesQ \cup { <<0, "lower", "wikitext">>, <<10, "sub", "wikitext">>, <<10, "lower", "wikitext">>,
                                  <<8, "plain", "json">>, <<100, "sub", "wikitext">> }
\* pages the targets may or may not find in the dump (targets of chains are the sources)
RedTargetPages ==
  { MkPage(0, "plain", "wikitext", "none", "b1"), MkPage(0, "lower", "wikitext", "none", "b2"),
    MkPage(10, "plain", "wikitext", "none", "t1"), MkPage(828, "plain", "Scribunto", "none", "b3") }
RedPages(srcs, wide) == UNION { {MkRed(s, t) : t \in TargetsOf(s, wide)} : s \in srcs }
PoolRed == RedPages(RedSourcesQ, FALSE) \cup RedTargetPages
PoolRedT == RedPages(RedSourcesT, TRUE) \cup RedTargetPages
(* ---------------- title text x namespace x inclusion-control markup ---------------- *)
\* The relation between the TEXT of a title and the names of the namespaces is a dimension of
\* its own: talk namespaces whose name extends the name of their subject namespace
\* ("Template talk:", "Module talk:"), and in every namespace titles that equal / begin with
\* the word "Template" or "Module" ("Template", "Templates", "Template-based", "Template talk",
\* "Template:Zed" as a main-namespace title, "Appendix:Templates", "Module:Template",
\* "Template:Templates").  Crossed with every body carrying inclusion-control markup
\* (noinclude / onlyinclude / includeonly / comment) and one plain body.  The demanded text is
\* the written one everywhere except in the template namespace (Expected / TextsVerbatim).
NameKinds == {"plain", "tword", "twords", "twordx", "ttalkword", "tlower", "pfxlike", "mword", "mwords"}
NameNss == {0, 10, 11, 100, 828, 829}
NameBodies == {"t1", "t2", "t3", "t4", "b1"}
PoolNames ==
  { MkPage(ns, tk, IF ns = 828 THEN "Scribunto" ELSE "wikitext", "none", b) :
      ns \in NameNss, tk \in NameKinds, b \in NameBodies }
\* pairs: the same word-like title in two namespaces / a talk page and its template in one dump
PoolNamePairs ==
  { MkPage(ns, tk, "wikitext", "none", b) : ns \in {0, 10, 11}, tk \in {"plain", "twords"}, b \in {"t1", "t2"} }
SelsNames == { {0, 10, 11, 100, 828, 829} }
SelsNamesT == { {0, 10, 11, 100, 828, 829}, {0, 10, 828}, {11, 829} }
PoolQ == PoolCore
PoolT == PoolCore \cup PoolTitles \cup PoolModels \cup PoolBodies \cup PoolDefaults
PoolWide == PoolT

SelsQ == { {0, 10, 828}, {0, 4, 8, 10, 828} }
SelsT == { {0, 10, 828}, {0, 4, 8, 10, 828}, {0}, {10, 828} }
SelsRed == { {0, 4, 8, 10, 100, 828} }
SelsRedT == { {0, 4, 8, 10, 100, 828}, {0, 10, 828} }

(* ---------------- exhaustive exploration ---------------- *)
PoolSeq == SetToSeq(Pool)
DumpOf(f) == [k \in DOMAIN f |-> PoolSeq[f[k]]]
InPart(f) == Parts = 1 \/ (IF Len(f) = 0 THEN 0 ELSE f[1] % Parts) = Part

MCInit ==
  \E n \in 0..MaxLen : \E f \in [1..n -> 1..Len(PoolSeq)] : \E s \in Sels :
    /\ InPart(f)
    /\ IInit(DumpOf(f), s)
MCSpec == MCInit /\ [][INext]_ivars /\ WF_ivars(INext)
Terminates == <>IDone

\* Demo: the main-namespace pages "Zed" and "Main:Zed"
DemoDump == << MkPage(0, "plain", "wikitext", "none", "b1"), MkPage(0, "main", "wikitext", "none", "b3") >>
DemoInit == IInit(DemoDump, {0, 10, 828})
DemoSpec == DemoInit /\ [][INext]_ivars
\* Demo (vacuity guard of RedirectsVerbatim): a template page pointing to the main-namespace page "Zed"
DemoRedDump == << MkRed(<<10, "plain", "wikitext">>, <<"canon", 0, "plain">>) >>
DemoRedInit == IInit(DemoRedDump, {0, 10, 828})
DemoRedSpec == DemoRedInit /\ [][INext]_ivars
\* Demo (vacuity guard of TextsVerbatim): a page of the talk namespace of the templates with a noinclude section
DemoTalkDump == << MkPage(11, "plain", "wikitext", "none", "t1") >>
DemoTalkInit == IInit(DemoTalkDump, {0, 10, 11, 828})
DemoTalkSpec == DemoTalkInit /\ [][INext]_ivars
=============================================================================
