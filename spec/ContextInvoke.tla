--------------------------- MODULE ContextInvoke ---------------------------
(* C09, last clause: "Global variables, module-level state and changes to     *)
(* library tables made by one Lua invocation are not visible to later         *)
(* invocations" -- INVOCATION-level histories inside ONE page (Context.tla    *)
(* treats a page as one atom and therefore cannot tell a page whose second    *)
(* #invoke sees the first one's state from a correct one: a fresh context     *)
(* processing the same page shows the same wrong text).                       *)
(*                                                                          *)
(* Written from call_lua_sandbox (luaexec.py) and _lua_invoke                 *)
(* (_sandbox_phase2.lua):                                                     *)
(*   Reset   the Lua environment is reset (package.loaded of page modules     *)
(*           flushed, globals cleared) iff lua_env_stack is empty, i.e. for   *)
(*           every TOP-LEVEL #invoke                  luaexec.py "== 0"      *)
(*   Push    mod_env = clone(top of lua_env_stack or _G), pushed BEFORE the   *)
(*           module is looked up                     _lua_invoke             *)
(*   Load    cached instance (package.loaded) or run the module chunk in      *)
(*           mod_env; a module that does not exist / does not compile /       *)
(*           returns nil RAISES (exception on the Python side); a chunk that  *)
(*           fails at run time is reported in-band (ok = false)               *)
(*   Call    pcall(fn): errors in the function and a missing function are     *)
(*           in-band; a timeout is re-raised; a result that is not UTF-8      *)
(*           raises UnicodeDecodeError on the Python side                     *)
(*   Leave   call_lua_sandbox cuts lua_env_stack back to its length at entry  *)
(*           whatever the way the call ended (Dev "EnvKeptOnAbort": not when  *)
(*           it ended in an exception on the Python side)                     *)
(*   Limit   (round 8) the time limit is an OPTION OF THE CALL expand(...,      *)
(*           timeout=t): _lua_set_timeout, called by _lua_invoke before the     *)
(*           Push, stores the limit of THIS call - or the default when the call *)
(*           gives none - in the Lua runtime (_lua_current_max_time,            *)
(*           _lua_deadline; one runtime per context, start_page does not touch  *)
(*           it) iff lua_env_stack is empty: nested invocations run under the   *)
(*           limit of the outermost one.  Kinds whose call is GIVEN a small     *)
(*           limit: Limited; "slow" runs for longer than the small limit and    *)
(*           far shorter than the default (Dev "TimeLimitKept": a call that     *)
(*           gives no limit runs under the one an earlier call left there)      *)
(* Environments are table identities (a module instance keeps the             *)
(* environment its chunk ran in; require() runs the chunk in the environment  *)
(* on top of the stack), hence the little heap.                               *)
(*                                                                          *)
(* NESTED PROGRAMS (round 7): one top-level invocation of a driver module     *)
(* (Module:Nest) runs a sequence of steps INSIDE that one invocation: nested  *)
(* invocations (reached through frame:preprocess, through a lazily expanded   *)
(* argument, through frame:expandTemplate) that write / read a global, a      *)
(* field of string.* / table.*, module-level and require()d state; reads and  *)
(* writes of the same cells by the running invocation itself; nested          *)
(* invocations of a second driver (Module:Nest2) running a sub-program.       *)
(* Isolation BETWEEN a nested invocation and its caller and between SIBLING   *)
(* nested invocations is what ProgInv / DemandedProg are about.               *)
EXTENDS Naturals, Sequences, FiniteSets, TLC

CONSTANT Dev   \* "EnvKeptOnAbort": an invocation that ends in a host-side exception leaves its environment on the stack
               \* "LoadDataTableMutableWithinPage": the table handed out by mw.loadData / mw.loadJsonData is the cached
               \*    object itself, writable, and the cache lives until start_page (as-is); ideal: what one invocation
               \*    writes into it is not there for the next top-level invocation (read-only table or own copy)
               \* "NestedInvokeSharesLoadedModules": a NESTED invocation finds the page modules loaded by its caller and
               \*    by earlier nested invocations of the same top-level call in package.loaded (the reset happens for
               \*    top-level invocations only; as-is): module-level state, and - through the environment the cached
               \*    chunk ran in - globals and library patches of one nested invocation reach a later sibling that
               \*    uses the same module; ideal: every invocation gets its own instances of the page modules
               \* "TimeLimitKept": a top-level invocation whose call gives no time limit runs under the limit an earlier
               \*    call left in the Lua runtime (class of the seeded change of round 8)
               \* "NestedSharesCallerEnv": a nested invocation runs in the environment on top of lua_env_stack itself
               \*    instead of a clone of it (class of the seeded change of round 7)
               \* "HandedOutObjectsMemoised": a constructor of a retained library keeps the objects it has built and hands
               \*    the SAME object out again for the same request: what one invocation writes into "its" object is there
               \*    for every later invocation / page of the context that asks for it (class of the seeded change of round 9;
               \*    never as-is)
               \* "ContentLanguageObjectShared": mw.language.getContentLanguage() hands out ONE object (a local of the
               \*    retained library mw_language) for the whole life of the Lua runtime (as-is); ideal: as for every
               \*    other constructor, an object that carries nothing an earlier invocation wrote

\* ---- invocation kinds (the harness has one concrete #invoke per kind) ----
Counter == {"bump", "bump2", "peek"}        \* Module:Ctr, module-level `local n = 0`
Probes  == Counter \cup {"reqbump",         \* Module:Req: require("Module:Ctr").inc()
                         "gset", "gget",    \* Module:G: sets / reads the global MARK
                         "rget",            \* Module:R: another module reading the global MARK
                         "sset", "sget"}    \* Module:Str: patches / reads string.leaked (the per-invocation clone of `string`)
\* Module:LD: ldset / ljset try to write field x of the table from mw.loadData("Module:LDdata") / mw.loadJsonData("Module:LJ.json")
\* (inside pcall: a read-only table is as good as a private copy) and return the value read BEFORE; ldget / ljget read it
LoadData == {"ldset", "ldget", "ljset", "ljget"}
\* kinds used only INSIDE nested programs: Module:Tab patches / reads table.leaked, Module:V reads all three cells
NestOnly == {"tset", "tget", "view"}
InBand  == {"nofn", "err", "loaderr"}       \* Lua-side failures returned as ok = false
Raising == {"nomod", "nilmod", "synmod", "badutf", "timeout"}   \* end in an exception on the Python side
\* the time limit as an option of the call (one expand() per invocation): lim_peek = Module:Ctr peek called with a
\* small limit, slow = Module:F slow (runs 1-2 s) called without a limit, lim_slow = the same called with a small limit
TimeKinds == {"lim_peek", "slow", "lim_slow"}
Limited == {"timeout", "lim_peek", "lim_slow"}      \* the call of these kinds is given a small time limit
\* (round 9) OBJECTS HANDED OUT by the constructors of the retained libraries (mw.title.*, mw.language.*, mw.html,
\* mw.message): Module:Obj obtains an object from a constructor and reports the state of its writable fields ("init" =
\* as a fresh context hands it out); the writer kinds (ow_) then write them ("set"), the reader kinds (or_) only read.
\* The object a request NAMES (ObjKey): the same title reached through different constructors is one key (the main
\* namespace has no subpages: the base page of T/sub is T/sub itself - the title that T:subPageTitle("sub") names too).
\*   tnew  mw.title.new(T)            tmake mw.title.makeTitle(0, T)     tbase mw.title.new(T .. "/sub").basePageTitle
\*   tcur  mw.title.getCurrentTitle() tsub  mw.title.new(T):subPageTitle("sub")
\*   lnew  mw.language.new("en")      lcont mw.language.getContentLanguage()
\*   html  mw.html.create("div")      msg   mw.message.new("obj-msg")
ObjW == {"ow_tnew", "ow_tmake", "ow_tbase", "ow_tcur", "ow_tsub", "ow_lnew", "ow_lcont", "ow_html", "ow_msg"}
ObjR == {"or_tnew", "or_tmake", "or_tbase", "or_tcur", "or_tsub", "or_lnew", "or_lcont", "or_html", "or_msg"}
ObjKinds == ObjW \cup ObjR
ObjKeys == {"T", "C", "S", "L", "LC", "H", "M"}
ObjKey(k) == CASE k \in {"ow_tnew", "or_tnew", "ow_tmake", "or_tmake"} -> "T"
               [] k \in {"ow_tcur", "or_tcur"} -> "C" [] k \in {"ow_tsub", "or_tsub", "ow_tbase", "or_tbase"} -> "S"
               [] k \in {"ow_lnew", "or_lnew"} -> "L" [] k \in {"ow_lcont", "or_lcont"} -> "LC"
               [] k \in {"ow_html", "or_html"} -> "H" [] k \in {"ow_msg", "or_msg"} -> "M"
\* the object handed out for this key is one and the same for the whole life of the Lua runtime
ObjShared(key) == "HandedOutObjectsMemoised" \in Dev \/ (key = "LC" /\ "ContentLanguageObjectShared" \in Dev)
Simple  == Probes \cup LoadData \cup InBand \cup Raising \cup TimeKinds \cup ObjKinds
\* Module:N: sets the global MARK, then makes a NESTED #invoke through frame:preprocess (n_) or
\* frame:expandTemplate (t_) and returns the nested result in brackets
Nested  == {"n_nomod", "n_nilmod", "n_synmod", "n_badutf", "n_nofn", "n_err", "n_loaderr", "n_bump", "t_nomod", "t_badutf", "t_bump"}
Inner(k) == CASE k \in {"n_nomod", "t_nomod"} -> "nomod" [] k = "n_nilmod" -> "nilmod" [] k = "n_synmod" -> "synmod"
              [] k \in {"n_badutf", "t_badutf"} -> "badutf" [] k = "n_nofn" -> "nofn" [] k = "n_err" -> "err"
              [] k = "n_loaderr" -> "loaderr" [] k \in {"n_bump", "t_bump"} -> "bump"
Kinds == Simple \cup Nested \cup {"page"}   \* "page": the caller begins a new page (start_page clears lua_env_stack)
\* kinds after which the seeded class of defects shows: the invocation (or its nested one) ends abnormally
Disturbing == InBand \cup Raising \cup Nested

\* page modules that exist, compile and return a table
Mods == {"Ctr", "Req", "G", "R", "Str", "F", "N", "LD", "Tab", "V", "Nest", "Nest2", "Obj"}
ModOf(k) == CASE k \in Counter \cup {"lim_peek"} -> "Ctr" [] k \in {"slow", "lim_slow"} -> "F" [] k = "reqbump" -> "Req" [] k \in {"gset", "gget"} -> "G" [] k = "rget" -> "R"
              [] k \in {"sset", "sget"} -> "Str" [] k \in LoadData -> "LD" [] k \in {"nofn", "err", "badutf", "timeout"} -> "F"
              [] k = "nomod" -> "Nomod" [] k = "nilmod" -> "Nil" [] k = "synmod" -> "Syn" [] k = "loaderr" -> "Bad"
              [] k \in Nested -> "N" [] k \in {"tset", "tget"} -> "Tab" [] k = "view" -> "V" [] k \in ObjKinds -> "Obj"

Env0 == [g |-> "nil", s |-> "nil", t |-> "nil"]          \* _G after _lua_reset_env: no MARK, string.leaked = table.leaked = nil
NoInst == [on |-> FALSE, n |-> 0, env |-> 0]
Data0 == [ld |-> "init", lj |-> "init"]                \* field x of the two data tables as their pages define it
\* objs: the written fields of the object the runtime would hand out AGAIN for a key (only a deviation makes it do so: no
\* reset, no start_page reaches a local of a retained library)
S0 == [heap |-> <<>>, stk |-> <<>>, loaded |-> [m \in Mods |-> NoInst], data |-> Data0, lim |-> "default",
       objs |-> [key \in ObjKeys |-> "init"]]
TopIdx(s) == s.stk[Len(s.stk)]
TopEnv(s) == IF s.stk = <<>> THEN Env0 ELSE s.heap[TopIdx(s)]

Reset(s) == IF s.stk = <<>>
            THEN [s EXCEPT !.loaded = [m \in Mods |-> NoInst],
                           !.data = IF "LoadDataTableMutableWithinPage" \in Dev THEN @ ELSE Data0]
            ELSE s
\* _lua_set_timeout (before the Push): only the outermost invocation starts the clock
SetLimit(s, k) == IF s.stk # <<>> THEN s
                  ELSE IF k \in Limited THEN [s EXCEPT !.lim = "small"]
                  ELSE IF "TimeLimitKept" \in Dev THEN s ELSE [s EXCEPT !.lim = "default"]
Push(s)  == IF s.stk # <<>> /\ "NestedSharesCallerEnv" \in Dev
            THEN [s EXCEPT !.stk = Append(@, TopIdx(s))]             \* no clone: the caller's own environment again
            ELSE [s EXCEPT !.heap = Append(@, TopEnv(s)), !.stk = Append(@, Len(s.heap) + 1)]
\* entry = length of the stack when call_lua_sandbox was entered: everything pushed since is removed
Leave(s, entry, aborted) ==
  IF aborted /\ "EnvKeptOnAbort" \in Dev THEN s
  ELSE IF Len(s.stk) <= entry THEN s ELSE [s EXCEPT !.stk = SubSeq(@, 1, entry)]
\* load (or find in package.loaded) module m; its chunk runs in the environment on top of the stack
Load(s, m) == IF s.loaded[m].on THEN s ELSE [s EXCEPT !.loaded[m] = [on |-> TRUE, n |-> 0, env |-> TopIdx(s)]]

R(s, res, v, ab) == [s |-> s, res |-> res, v |-> v, ab |-> ab]
\* the part of a simple invocation between Push and Leave
Body(s, k) ==
  LET m == ModOf(k) IN
  IF m \in {"Nomod", "Syn", "Nil"} THEN R(s, "err", "", TRUE)          \* error()/assert outside any pcall: raises
  ELSE IF m = "Bad" THEN R(s, "err", "", FALSE)                        \* pcall(initfn) failed: in-band
  ELSE
    LET s1 == Load(s, m)
        inst == s1.loaded[m]
        cs == Load(s1, "Ctr")                                           \* for require("Module:Ctr")
    IN CASE k \in {"nofn", "err"} -> R(s1, "err", "", FALSE)
         [] k = "timeout" -> R(s1, "timeout", "", TRUE)
         [] k = "badutf" -> R(s1, "empty", "", TRUE)
         [] k = "bump" -> R([s1 EXCEPT !.loaded[m].n = @ + 1], "val", ToString(inst.n + 1), FALSE)
         [] k = "bump2" -> R([s1 EXCEPT !.loaded[m].n = @ + 2], "val", ToString(inst.n + 2), FALSE)
         [] k \in {"peek", "lim_peek"} -> R(s1, "val", ToString(inst.n), FALSE)
         \* longer than the small limit, shorter than the default: the limit in force decides
         [] k \in {"slow", "lim_slow"} -> IF s1.lim = "small" THEN R(s1, "timeout", "", TRUE) ELSE R(s1, "val", "done", FALSE)
         [] k = "reqbump" -> R([cs EXCEPT !.loaded["Ctr"].n = @ + 1], "val", ToString(cs.loaded["Ctr"].n + 1), FALSE)
         [] k = "gset" -> R([s1 EXCEPT !.heap[inst.env].g = "set"], "val", s1.heap[inst.env].g, FALSE)
         [] k \in {"gget", "rget"} -> R(s1, "val", s1.heap[inst.env].g, FALSE)
         [] k = "sset" -> R([s1 EXCEPT !.heap[inst.env].s = "set"], "val", s1.heap[inst.env].s, FALSE)
         [] k = "sget" -> R(s1, "val", s1.heap[inst.env].s, FALSE)
         [] k = "ldset" -> R([s1 EXCEPT !.data.ld = "set"], "val", s1.data.ld, FALSE)
         [] k = "ldget" -> R(s1, "val", s1.data.ld, FALSE)
         [] k = "ljset" -> R([s1 EXCEPT !.data.lj = "set"], "val", s1.data.lj, FALSE)
         [] k = "ljget" -> R(s1, "val", s1.data.lj, FALSE)
         [] k = "tset" -> R([s1 EXCEPT !.heap[inst.env].t = "set"], "val", s1.heap[inst.env].t, FALSE)
         [] k = "tget" -> R(s1, "val", s1.heap[inst.env].t, FALSE)
         [] k = "view" -> R(s1, "val", <<s1.heap[inst.env].g, s1.heap[inst.env].s, s1.heap[inst.env].t>>, FALSE)
         \* a constructor builds a new object for every request; the write goes into THAT object and dies with it
         [] k \in ObjW -> R(IF ObjShared(ObjKey(k)) THEN [s1 EXCEPT !.objs[ObjKey(k)] = "set"] ELSE s1, "val", s1.objs[ObjKey(k)], FALSE)
         [] k \in ObjR -> R(s1, "val", s1.objs[ObjKey(k)], FALSE)

Out(k, res, v, ires, iv) == [k |-> k, res |-> res, v |-> v, ires |-> ires, iv |-> iv]
InvS(s, k) == LET b == Body(Push(SetLimit(Reset(s), k)), k) IN [s |-> Leave(b.s, Len(s.stk), b.ab), res |-> b.res, v |-> b.v]
\* package.loaded as a NESTED invocation finds it / as its caller finds it again afterwards
ForNested(s) == IF "NestedInvokeSharesLoadedModules" \in Dev THEN s ELSE [s EXCEPT !.loaded = [m \in Mods |-> NoInst]]
BackIn(s, caller) == IF "NestedInvokeSharesLoadedModules" \in Dev THEN s ELSE [s EXCEPT !.loaded = caller.loaded]
InvN(s, k) ==
  LET s1 == Load(Push(Reset(s)), "N")
      s2 == [s1 EXCEPT !.heap[s1.loaded["N"].env].g = "set"]            \* MARK = "set" in the module's environment
      i == InvS(ForNested(s2), Inner(k))                                 \* nested: the stack is not empty, no reset
  IN [s |-> Leave(BackIn(i.s, s2), Len(s.stk), FALSE), o |-> Out(k, "val", "", i.res, i.v)]
Invoke(s, k) ==
  IF k = "page" THEN [s |-> [s EXCEPT !.stk = <<>>, !.data = Data0], o |-> Out(k, "page", "", "none", "")]
  ELSE IF k \in Nested THEN InvN(s, k)
  ELSE LET r == InvS(s, k) IN [s |-> r.s, o |-> Out(k, r.res, r.v, "none", "")]

RECURSIVE Run(_, _, _)
Run(h, i, s) == IF i > Len(h) THEN <<>> ELSE LET r == Invoke(s, h[i]) IN <<r.o>> \o Run(h, i + 1, r.s)
Outcomes(h) == Run(h, 1, S0)
RECURSIVE RunS(_, _, _, _)      \* the same, also giving the state reached
RunS(h, i, s, acc) == IF i > Len(h) THEN [s |-> s, o |-> acc] ELSE LET r == Invoke(s, h[i]) IN RunS(h, i + 1, r.s, Append(acc, r.o))

\* ---- nested programs: the steps of ONE invocation of a driver module ----
\* step = [via, k, sub]: via "own": the running invocation itself reads all three cells (k = "O") or sets one of
\*   them (k = "Wg" / "Ws" / "Wt") to "own" (Module:Nest) / "sub" (Module:Nest2);  via "P" / "A" / "T": a nested invocation reached through
\*   frame:preprocess / an argument expanded when the function reads it / frame:expandTemplate, of the simple
\*   kind k, or (k = "prog") of the second driver Module:Nest2 running the steps sub.
\* The three ways are one and the same transition here: that the outcome does not depend on the way is part of
\* what the conformance check establishes (the harness concretises each way differently).
NestWriters == {"gset", "sset", "tset", "bump", "reqbump"}
NestReaders == {"gget", "sget", "tget", "view", "peek"}
NestKinds == NestWriters \cup NestReaders
StepOut(via, k, vals, sub) == [via |-> via, k |-> k, vals |-> vals, sub |-> sub]
ValsOf(k, v) == IF k = "view" THEN v ELSE <<v>>
CellsAt(s, e) == <<s.heap[e].g, s.heap[e].s, s.heap[e].t>>
OwnWrite(s, e, k, wv) == CASE k = "Wg" -> [s EXCEPT !.heap[e].g = wv] [] k = "Ws" -> [s EXCEPT !.heap[e].s = wv]
                           [] k = "Wt" -> [s EXCEPT !.heap[e].t = wv]
WrittenBy(me) == IF me = "Nest" THEN "own" ELSE "sub"
RECURSIVE ProgInv(_, _, _), ProgSteps(_, _, _, _, _, _)
\* an invocation of the driver module me running prog, entered in state s (top level: empty stack, reset)
ProgInv(s, me, prog) ==
  LET s1 == Load(Push(Reset(s)), me)
      r == ProgSteps(s1, s1.loaded[me].env, WrittenBy(me), prog, 1, <<>>)
  IN [s |-> Leave(r.s, Len(s.stk), FALSE), o |-> r.o]
ProgSteps(s, e, wv, prog, i, acc) ==
  IF i > Len(prog) THEN [s |-> s, o |-> acc]
  ELSE LET st == prog[i] IN
    IF st.via = "own" THEN
      IF st.k = "O" THEN ProgSteps(s, e, wv, prog, i + 1, Append(acc, StepOut("own", "O", CellsAt(s, e), <<>>)))
      ELSE ProgSteps(OwnWrite(s, e, st.k, wv), e, wv, prog, i + 1, Append(acc, StepOut("own", st.k, <<>>, <<>>)))
    ELSE IF st.k = "prog" THEN
      LET r == ProgInv(ForNested(s), "Nest2", st.sub)
      IN ProgSteps(BackIn(r.s, s), e, wv, prog, i + 1, Append(acc, StepOut(st.via, "prog", <<>>, r.o)))
    ELSE
      LET r == InvS(ForNested(s), st.k)
      IN ProgSteps(BackIn(r.s, s), e, wv, prog, i + 1, Append(acc, StepOut(st.via, st.k, ValsOf(st.k, r.v), <<>>)))
\* a nest case: top-level invocations pre, then the top-level invocation of Module:Nest running prog, then post
CaseOutcomes(c) ==
  LET a == RunS(c.pre, 1, S0, <<>>)
      p == ProgInv(a.s, "Nest", c.prog)
      b == RunS(c.post, 1, p.s, <<>>)
  IN [pre |-> a.o, prog |-> p.o, post |-> b.o]

\* ---- declarative reference: what the statement demands ----
\* every top-level invocation gives what it gives as the first invocation of a fresh context
Solo(k) == Invoke(S0, k).o
Demanded(h) == [i \in 1..Len(h) |-> Solo(h[i])]
MeetsDemand(h) == Outcomes(h) = Demanded(h)
\* nested programs: what a nested invocation writes (globals, library tables, module-level state, state of modules
\* it require()s) is there neither for the rest of the enclosing invocation nor for a later nested invocation.
\* c = the three cells as the running invocation ITSELF set them; a nested invocation starts from a copy of them
\* (that a nested invocation sees what its caller set is how the code is built - the statement does not ask for
\* it; the harness reports a difference there as drift) and from fresh module instances.
DemNested(c, k) == CASE k \in {"gset", "gget"} -> <<c.g>> [] k \in {"sset", "sget"} -> <<c.s>> [] k \in {"tset", "tget"} -> <<c.t>>
                     [] k = "view" -> <<c.g, c.s, c.t>> [] k \in {"bump", "reqbump"} -> <<"1">> [] k = "peek" -> <<"0">>
RECURSIVE DemSteps(_, _, _, _, _)
DemSteps(c, wv, prog, i, acc) ==
  IF i > Len(prog) THEN acc
  ELSE LET st == prog[i] IN
    IF st.via = "own" THEN
      IF st.k = "O" THEN DemSteps(c, wv, prog, i + 1, Append(acc, StepOut("own", "O", <<c.g, c.s, c.t>>, <<>>)))
      ELSE DemSteps(CASE st.k = "Wg" -> [c EXCEPT !.g = wv] [] st.k = "Ws" -> [c EXCEPT !.s = wv] [] st.k = "Wt" -> [c EXCEPT !.t = wv],
                    wv, prog, i + 1, Append(acc, StepOut("own", st.k, <<>>, <<>>)))
    ELSE IF st.k = "prog" THEN DemSteps(c, wv, prog, i + 1, Append(acc, StepOut(st.via, "prog", <<>>, DemSteps(c, WrittenBy("Nest2"), st.sub, 1, <<>>))))
    ELSE DemSteps(c, wv, prog, i + 1, Append(acc, StepOut(st.via, st.k, DemNested(c, st.k), <<>>)))
DemandedProg(prog) == DemSteps(Env0, WrittenBy("Nest"), prog, 1, <<>>)
CaseMeetsDemand(c) == CaseOutcomes(c) = [pre |-> Demanded(c.pre), prog |-> DemandedProg(c.prog), post |-> Demanded(c.post)]
=============================================================================
