SPECIFICATION Spec
CONSTANTS
  Universe = "T"
INVARIANT GenInv
CHECK_DEADLOCK FALSE
