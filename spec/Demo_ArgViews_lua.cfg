SPECIFICATION Spec
CONSTANTS
  MaxLen = 2
  Known <- KnownC14
INVARIANT DemoLua
CHECK_DEADLOCK FALSE
