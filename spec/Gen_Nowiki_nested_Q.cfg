SPECIFICATION Spec
CONSTANTS
  MaxTok = 0
  Mode = "nested"
  Depth = 3
  DeepAll = TRUE
  FinRule = "fixpoint"
INVARIANT GenInv
CHECK_DEADLOCK FALSE
