SPECIFICATION Spec
CONSTANTS
  MaxTok = 0
  Mode = "nested"
  Depth = 3
  DeepAll = TRUE
INVARIANT GenInv
CHECK_DEADLOCK FALSE
