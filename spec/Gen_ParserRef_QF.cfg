SPECIFICATION Spec
CONSTANTS
  Universe = "F"
  MaxLines = 3
INVARIANT MachineOK
INVARIANT GenInv
CHECK_DEADLOCK FALSE
