SPECIFICATION Spec
CONSTANTS
  Universe = "F"
  MaxLines = 3
INVARIANT MachineOK
CHECK_DEADLOCK FALSE
