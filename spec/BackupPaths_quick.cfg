SPECIFICATION PSpec
CONSTANTS
  ShapeIds <- IdsQuick
  PDev <- PDevNone
INVARIANT NamesDistinct
INVARIANT SiblingsDisjoint
INVARIANT RestoreExact
INVARIANT CloseExact
INVARIANT PathInv
CHECK_DEADLOCK FALSE
