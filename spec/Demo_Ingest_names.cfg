SPECIFICATION DemoTalkSpec
CONSTANTS
  PfxNs <- T_PfxNs
  CanonPfx <- T_CanonPfx
  UpperOf <- T_UpperOf
  ArgU <- NoArgs
  TplNs = 10
  Defaults <- T_Defaults
  OkModels <- T_OkModels
  Parts = 1
  Part = 0
  Dev <- DevTalk
  MaxLen = 2
  Pool <- PoolQ
  Sels <- SelsQ
INVARIANT TextsVerbatim
CHECK_DEADLOCK FALSE
