--------------------------- MODULE Trace_Workers ---------------------------
(* Validates (process, operation class, result) traces performed by real     *)
(* worker processes against Workers (the code as it is: all deviations       *)
(* switched on).  Every event is consumed by the action the process is at;   *)
(* an operation of another class than the model expects, an action that is   *)
(* not enabled, or a result that differs from the model's is recorded in     *)
(* `bad` (validation continues).  Events carry the interval [t0, t1] in      *)
(* which the operation took effect (schedule-controlled replays: a point);   *)
(* TLC may consume events in any order that respects these intervals, and    *)
(* consumes a mismatching event only when no matching one is available, so   *)
(* a verdict with empty `bad` means: some linearisation of the recorded      *)
(* operations is a behaviour of the model.  The verdict also carries what    *)
(* the model predicts for every worker and for the store, and the ghost      *)
(* flags that tell which deviation was involved.                             *)
(* Journal mode (conformance item, never part of `bad`): a "script" event    *)
(* may carry the journal mode the harness read from the header of the file   *)
(* at the database path right after the operation (field jm: "wal", "del",   *)
(* "" = not observed); it is compared with the mode the model gives the      *)
(* file after Script and differences are collected in `obs` (k = "jm").       *)
(* Transaction state (conformance item, never part of `bad`): every event    *)
(* may carry field tx: "y" / "n" = Connection.in_transaction of the process' *)
(* connection right after the operation - for a close event: at the idle     *)
(* point before close_db_conn was called, i.e. when the page work was over   *)
(* and no library call active - or "" = not observed.  It is compared with   *)
(* the model's txn (InTxn) at the same point; differences go to `obs`        *)
(* (k = "tx" / "idle").  A mismatch note in `bad` carries the observed tx    *)
(* and the model's transaction state of the process (mtx) at that point.     *)
(* Side files (the restore).  An "unlink" event (the unlinks of create_db's  *)
(* restore branch, one step) carries kw / ks: the step did NOT remove       *)
(* <db>-wal / <db>-shm.  The model's step is performed WITH THE OBSERVED     *)
(* set of side files left in place (W!UnlinkK), so what follows - whose      *)
(* first access trusts an index without its log, who reads another           *)
(* database's pages, for how long - is computed by the model's side-file     *)
(* rules; the event itself is a mismatch ("the restore left a side file")    *)
(* unless the set is what the model's restore leaves (nothing).  Ghost       *)
(* sf.stale / sf.live travel with every mismatch note and with the verdict.  *)
(* Process 0 may perform "backup" (backup_db of the creating context).       *)
EXTENDS Naturals, Sequences, FiniteSets, TLC, Json, IOUtils

TraceFile == JsonDeserialize(IOEnv.TRACE_FILE)
Traces == TraceFile.traces
T_Procs == 1..TraceFile.maxprocs
T_Dev == {"RestoreRaceOnStartup", "BootstrapUnderSnapshot", "BootcheckNeverHits"}
ScnOf(t) == [bak |-> Traces[t].scn.bak, boot |-> Traces[t].scn.boot, cursor |-> Traces[t].scn.cursor, drv |-> Traces[t].scn.drv,
             prov |-> Traces[t].scn.prov, rdr |-> Traces[t].scn.rdr, bkd |-> Traces[t].scn.bkd]
T_Scn == {ScnOf(t) : t \in 1..Len(Traces)}

VARIABLES scn, pmain, pbak, ino, wlock, pc, conn, snap, saw, res, chk, raced, snapfail, opn, life, txn, sf, tid, used, bad, obs
W == INSTANCE Workers WITH Procs <- T_Procs, Dev <- T_Dev, Scenarios <- T_Scn
wvars == <<scn, pmain, pbak, ino, wlock, pc, conn, snap, saw, res, chk, raced, snapfail, opn, life, txn, sf>>
tvars == <<scn, pmain, pbak, ino, wlock, pc, conn, snap, saw, res, chk, raced, snapfail, opn, life, txn, sf, tid, used, bad, obs>>

Events == Traces[tid].events

TInit == /\ W!Init /\ tid \in 1..Len(Traces) /\ scn = ScnOf(tid) /\ used = {} /\ bad = <<>> /\ obs = {}

ClsOf(lab) ==
  CASE lab = "exists" -> "exists" [] lab = "unlink" -> "unlink" [] lab = "rename" -> "rename"
    [] lab = "connect" -> "connect" [] lab = "script" -> "script" [] lab = "cursor" -> "cursor"
    [] lab = "read1" -> "read" [] lab = "read2" -> "read" [] lab = "bootcheck" -> "bootcheck"
    [] lab = "insert" -> "write" [] lab = "commit" -> "commit" [] lab = "backup" -> "backup" [] OTHER -> "none"
\* process 0 is the creating context; a context whose page work is over is at its close
ClsAt(p) == IF W!CanClose(p) THEN "close" ELSE ClsOf(pc[p])
LabAt(p) == IF W!CanClose(p) THEN "close" ELSE pc[p]

ReadResult(p) ==
  IF W!Exp \in W!View(p) THEN W!Exp
  ELSE IF W!View(p) \ {"boot"} = {} THEN "missing"
  ELSE IF W!Exp = "B" THEN "M" ELSE "B"

\* what the model says the operation returns, evaluated in the state before the step
ModelResult(p) ==
  LET lab == pc[p] IN
  CASE lab = "exists" -> IF pbak # 0 THEN "yes" ELSE "no"
    [] lab = "rename" -> IF pbak = 0 THEN "fnf" ELSE "ok"
    [] lab = "script" -> IF pmain # conn[p] \/ W!StaleIndex(p) THEN "ioerr" ELSE "ok"
    [] lab \in {"read1", "read2"} -> ReadResult(p)
    [] lab = "bootcheck" -> IF W!BootFound(p) THEN "yes" ELSE "no"
    [] lab = "insert" -> IF W!InsertFails(p) \/ W!IdleHeld(p) THEN "locked" ELSE "ok"
    [] lab = "commit" -> IF W!RollbackBlocked(p) THEN "locked" ELSE "ok"
    [] OTHER -> "ok"

Same(real, model) == real = model \/ (real = "none" /\ model \in {"M", "B"})

Idx == 1..Len(Events)
\* no unconsumed event finished before this one started
Ready(i) == i \notin used /\ \A j \in Idx \ used : j = i \/ ~(Events[j].t1 < Events[i].t0)
\* the side files an unlink event reports as left in place, and the model's step with exactly those left
KeptOf(e) == (IF e.cls = "unlink" /\ e.kw THEN {"wal"} ELSE {}) \cup (IF e.cls = "unlink" /\ e.ks THEN {"shm"} ELSE {})
StepOf(e) == IF e.cls = "unlink" /\ pc[e.p] = "unlink" THEN W!UnlinkK(e.p, KeptOf(e)) ELSE W!Step(e.p)
Clean(i) == LET e == Events[i] IN
            /\ ClsAt(e.p) = e.cls /\ ENABLED W!Step(e.p) /\ Same(e.r, ModelResult(e.p))
            /\ KeptOf(e) = W!RestoreKeeps
FirstReady == CHOOSE i \in Idx : Ready(i) /\ \A j \in Idx : Ready(j) => Events[i].t1 <= Events[j].t1

Note(i, why, exp) ==
  LET e == Events[i] IN
  bad' = Append(bad, [i |-> i, p |-> e.p, cls |-> e.cls, r |-> e.r, why |-> why, expected |-> exp,
                      raced |-> raced, snapfail |-> snapfail, life |-> life, tx |-> e.tx, mtx |-> txn[e.p],
                      stale |-> sf.stale, kept |-> KeptOf(e)])

\* to be used after W!Step(Events[i].p): the mode of the file the process is connected to, and the
\* transaction state of its connection (a close: the state at the idle point BEFORE the step)
YN(b) == IF b THEN "y" ELSE "n"
JmObs(i) ==
  LET e == Events[i]
      jmo == IF e.cls = "script" /\ e.jm # "" /\ conn'[e.p] # 0 /\ e.jm # ino'[conn'[e.p]].jm
             THEN {[i |-> i, p |-> e.p, k |-> "jm", seen |-> e.jm, model |-> ino'[conn'[e.p]].jm]} ELSE {}
      mtx == IF e.cls = "close" THEN YN(txn[e.p] # "none") ELSE YN(txn'[e.p] # "none")
      txo == IF e.tx # "" /\ e.tx # mtx
             THEN {[i |-> i, p |-> e.p, k |-> IF e.cls = "close" THEN "idle" ELSE "tx", seen |-> e.tx, model |-> mtx]} ELSE {}
  \* a SET (the event index is part of every entry): events whose intervals overlap are consumed in every compatible
  \* order, and the states reached must not differ by the order in which differences were noted
  IN obs' = obs \cup jmo \cup txo

ConsumeClean(i) == Ready(i) /\ Clean(i) /\ StepOf(Events[i]) /\ JmObs(i) /\ bad' = bad /\ used' = used \cup {i}

ConsumeBad ==
  /\ used # Idx /\ \A i \in Idx : Ready(i) => ~Clean(i)
  /\ LET i == FirstReady
         e == Events[i]
         p == e.p IN
     /\ used' = used \cup {i}
     /\ IF ClsAt(p) # e.cls
        THEN Note(i, "operation not expected here", LabAt(p)) /\ UNCHANGED wvars /\ obs' = obs
        ELSE IF ~ENABLED W!Step(p)
        THEN Note(i, "step not enabled in the model", LabAt(p)) /\ UNCHANGED wvars /\ obs' = obs
        ELSE IF KeptOf(e) # W!RestoreKeeps /\ Same(e.r, ModelResult(p))
        THEN StepOf(e) /\ JmObs(i) /\ Note(i, "the restore left a side file of the replaced database in place", "ok")
        ELSE StepOf(e) /\ JmObs(i) /\ Note(i, "result differs", ModelResult(p))

TNext == ((\E i \in Idx : ConsumeClean(i)) \/ ConsumeBad) /\ tid' = tid
TSpec == TInit /\ [][TNext]_tvars

Verdict ==
  (used = Idx) =>
    PrintT(<<"VERDICT", ToJson([tid |-> tid, bad |-> bad,
                                res |-> [i \in 1..Traces[tid].n |-> res[i]],
                                store |-> (pmain # 0 /\ ino[pmain].c \ {"boot"} = {W!Exp}),
                                raced |-> raced, snapfail |-> snapfail, life |-> life, obs |-> obs,
                                stale |-> sf.stale, live |-> sf.live,
                                jm |-> IF pmain # 0 THEN ino[pmain].jm ELSE "none"])>>)
=============================================================================
