SPECIFICATION Spec
CONSTANTS
  Universe = "nestW3"
  MaxLen = 3
INVARIANT MachineOK
CHECK_DEADLOCK FALSE
