SPECIFICATION Spec
CONSTANTS
  Starts <- StartsAll
  Dev <- DevIdeal
  MaxRuns = 3
  FlowDef <- FlowsFreeJ
INVARIANT RestoreCorrect
INVARIANT CrashSafe
INVARIANT NoLaterVersionSurvives
INVARIANT BackupNeverCosts
CHECK_DEADLOCK FALSE
