SPECIFICATION Spec
CONSTANTS
  MaxTok = 4
  MaxSeg = 0
  Mode = "soup"
INVARIANT GenInv
CHECK_DEADLOCK FALSE
