SPECIFICATION SpecSat
CONSTANTS
  Edges <- L_Edges
  Init0 <- L_Init
  Forbidden <- L_Forbidden
INVARIANT Confined
CHECK_DEADLOCK FALSE
