--------------------------- MODULE Gen_Expander ---------------------------
(* Bounded universes for the expander twin: pages x libraries x option      *)
(* combinations.  Each initial state is one case; TLC checks the model-level *)
(* properties (expansion path restored, twin == reference, cycles reported, *)
(* nothing selected => text unchanged, hooks called once per expanded call)  *)
(* and prints the predicted observables for replay into the real code.       *)
EXTENDS Expander, Json, IOUtils

CONSTANTS Universe, Known

NoDev == {}
KnownExp == {"ArgTrailingNewlineDropped"}
DevInvokeLeak == {"InvokeDisabledLeavesStackEntry"}
DevPattern == {"RepeatedPatternLoopDetection"}
DevTopDefault == {"TopLevelDefaultNotExpanded"}

(* ---------------- constructors ---------------- *)
Txt(s) == [k |-> "t", s |-> s]
Par(n) == [k |-> "p", name |-> n, hasDef |-> FALSE, def |-> <<>>]
ParD(n, d) == [k |-> "p", name |-> n, hasDef |-> TRUE, def |-> d]
Call(n, args) == [k |-> "c", name |-> n, args |-> args]
Pos(v) == [named |-> FALSE, key |-> <<>>, val |-> v]
Named(key, v) == [named |-> TRUE, key |-> <<Txt(key)>>, val |-> v]
If(c, y, n) == [k |-> "if", c |-> c, y |-> y, n |-> n]
IfEq(a, b, y, n) == [k |-> "eq", a |-> a, b |-> b, y |-> y, n |-> n]
Switch(v, cases, hasD, d) == [k |-> "sw", v |-> v, cases |-> cases, hasDflt |-> hasD, dflt |-> d]
Inv(fn, args) == [k |-> "inv", fn |-> fn, args |-> args]
Plain(c) == <<[w |-> "plain", c |-> c]>>
Link(args) == [k |-> "l", args |-> args]
Ext(c) == [k |-> "x", c |-> c]

ThePreBody == <<Txt(<<"<">>), Call("T1", <<Pos(<<Txt(<<"z">>)>>)>>), Call("NOPE", <<>>), Txt(<<">">>)>>

(* ---------------- libraries ---------------- *)
T1Show == Plain(<<Txt(<<"(">>), Par(<<"1">>), Txt(<<",">>), ParD(<<"x">>, <<Txt(<<"d">>)>>), Txt(<<")">>)>>)
T2Fwd == Plain(<<Txt(<<"<">>), Call("T1", <<Pos(<<Par(<<"1">>)>>), Named(<<"x">>, <<Par(<<"x">>)>>)>>), Txt(<<">">>)>>)
T2If == Plain(<<If(<<Par(<<"1">>)>>, <<Txt(<<"SP", "y", "SP">>)>>, <<Call("T1", <<Pos(<<Txt(<<"n">>)>>)>>)>>)>>)
SpBody == Plain(<<Txt(<<"SP", "v", "SP">>)>>)
StarBody == Plain(<<Txt(<<"*">>), Par(<<"1">>)>>)
EmptyBody == Plain(<<>>)
LibBase == ("T1" :> T1Show) @@ ("T2" :> T2Fwd) @@ ("Sp" :> SpBody) @@ ("E" :> EmptyBody)
LibIf == ("T1" :> StarBody) @@ ("T2" :> T2If) @@ ("Sp" :> SpBody) @@ ("E" :> EmptyBody)

\* cyclic libraries (C05a / C16): A (and B) on top of LibBase
LSelf == LibBase @@ ("A" :> Plain(<<Txt(<<"x">>), Call("A", <<>>), Txt(<<"y">>)>>))
LMut == LibBase @@ ("A" :> Plain(<<Call("B", <<>>)>>)) @@ ("B" :> Plain(<<Txt(<<"(">>), Call("A", <<>>), Txt(<<")">>)>>))
LArg == LibBase @@ ("A" :> Plain(<<Call("B", <<Pos(<<Call("A", <<>>)>>)>>)>>)) @@ ("B" :> Plain(<<Txt(<<"[">>), Par(<<"1">>), Txt(<<"]">>)>>))
LNamed == LibBase @@ ("A" :> Plain(<<Call("B", <<Named(<<"x">>, <<Call("A", <<>>)>>)>>)>>)) @@ ("B" :> Plain(<<Txt(<<"[">>), Par(<<"x">>), Txt(<<"]">>)>>))
LDef == LibBase @@ ("A" :> Plain(<<ParD(<<"1">>, <<Call("A", <<>>)>>)>>))
LIf == LibBase @@ ("A" :> Plain(<<If(<<ParD(<<"1">>, <<>>)>>, <<Txt(<<"r">>), Call("A", <<Pos(<<Par(<<"1">>)>>)>>)>>, <<Txt(<<"end">>)>>)>>))
LFan == LibBase @@ ("A" :> Plain(<<Call("A", <<>>), Txt(<<"+">>), Call("A", <<>>)>>))
LSw == LibBase @@ ("A" :> Plain(<<Switch(<<Par(<<"1">>)>>, <<[key |-> <<"a">>, val |-> <<Call("A", <<Pos(<<Txt(<<"a">>)>>)>>)>>]>>, TRUE, <<Txt(<<"stop">>)>>)>>))
LAlt == LibBase @@ ("A" :> Plain(<<Call("B", <<>>)>>)) @@ ("B" :> Plain(<<If(<<Call("A", <<>>)>>, <<Call("A", <<>>), Call("B", <<>>)>>, <<>>)>>))
ParC(n, d) == [k |-> "pc", name |-> n, hasDef |-> TRUE, def |-> d]
LName == LibBase @@ ("A" :> Plain(<<ParC(<<Txt(<<"x">>), Call("A", <<>>)>>, <<Txt(<<"p">>)>>), ParC(<<Txt(<<"y">>), Call("A", <<>>)>>, <<Txt(<<"q">>)>>)>>))
LName2 == LibBase @@ ("A" :> Plain(<<ParC(<<Txt(<<"x">>), Call("B", <<>>)>>, <<Txt(<<"p">>)>>), ParC(<<Txt(<<"y">>), Call("B", <<>>)>>, <<Txt(<<"q">>)>>)>>)) @@ ("B" :> Plain(<<Call("A", <<>>)>>))
LInvPre == LibBase @@ ("A" :> Plain(<<Inv("pre", <<>>)>>))
\* redirects that never reach a page (installed by the harness for the marker RDC): Ping -> Pong -> Ping,
\* Cw -> cw (its own title in the other first-letter case).  Calls to them go nowhere.
LRdc == LibBase @@ ("RDC" :> Plain(<<>>))
RdcPages == { <<Call("Ping", <<>>)>>, <<Call("T1", <<Pos(<<Call("Pong", <<>>)>>)>>), Call("Cw", <<>>)>>, <<Call("R1", <<>>)>> }
CyclicLibs == {LSelf, LMut, LArg, LNamed, LDef, LIf, LFan, LSw, LAlt, LName, LName2}
AcyclicLibs == {LibBase, LibIf}

(* ---------------- pages ---------------- *)
V0 == { <<Txt(<<"a">>)>>, <<Txt(<<"SP", "b", "SP">>)>>, <<Call("Sp", <<>>)>>, <<Call("T1", <<Pos(<<Txt(<<"i">>)>>)>>)>>,
        <<Call("NOPE", <<>>)>>, <<>> }
CallPages == { <<Call(n, <<Pos(v)>>)>> : n \in {"T1", "T2", "NOPE", "E"}, v \in V0 }
             \cup { <<Call(n, <<Named(<<"x">>, v), Pos(w)>>)>> : n \in {"T1", "T2"}, v \in V0, w \in {<<Txt(<<"a">>)>>, <<Call("Sp", <<>>)>>} }
             \cup { <<Txt(<<"p">>), Call("T2", <<Pos(<<Call("T1", <<Pos(<<Call("Sp", <<>>)>>)>>)>>)>>), Txt(<<"q">>)>> }
PfnPages == { <<If(c, <<Call("T1", <<Pos(<<Txt(<<"y">>)>>)>>)>>, <<Txt(<<"n">>)>>)>> : c \in V0 }
            \cup { <<IfEq(<<Call("Sp", <<>>)>>, <<Txt(<<"v">>)>>, <<Txt(<<"eq">>)>>, <<Call("T2", <<>>)>>)>>,
                   <<Switch(<<Call("Sp", <<>>)>>, <<[key |-> <<"v">>, val |-> <<Call("T1", <<Pos(<<Txt(<<"s">>)>>)>>)>>]>>, TRUE, <<Txt(<<"d">>)>>)>>,
                   <<ParD(<<"z">>, <<Call("T1", <<Pos(<<Txt(<<"q">>)>>)>>)>>)>>, <<Par(<<"z">>)>>,
                   <<Link(<<<<Txt(<<"a">>)>>, <<Call("T1", <<Pos(<<Txt(<<"l">>)>>)>>), Call("T2", <<>>)>>>>)>>,
                   <<Ext(<<Call("Sp", <<>>), Inv("echo", <<Pos(<<Txt(<<"e">>)>>)>>)>>)>>,
                   <<Call("T1", <<Pos(<<Link(<<<<Txt(<<"b">>)>>, <<Call("A", <<>>)>>>>)>>)>>)>> }
InvPages == { <<Inv(fn, <<Pos(v)>>)>> : fn \in {"echo", "err", "pre", "tpl", "pyx", "pcx", "ext"}, v \in {<<Txt(<<"a">>)>>, <<Call("T1", <<Pos(<<Txt(<<"i">>)>>)>>)>>} }
            \cup { <<Call("T1", <<Pos(<<Inv("echo", <<Pos(<<Txt(<<"a">>)>>)>>)>>)>>)>>,
                   <<Inv("err", <<>>), Inv("echo", <<Pos(<<Txt(<<"b">>)>>)>>), Inv("err", <<>>)>>,
                   <<If(<<Inv("err", <<>>)>>, <<Inv("echo", <<Pos(<<Txt(<<"c">>)>>)>>)>>, <<>>)>>,
                   <<Call("A", <<>>)>>,
                   <<Inv("ext", <<>>), Txt(<<"SP">>), Inv("ext", <<>>), Call("T1", <<Pos(<<Inv("ext", <<>>)>>)>>)>> }
SiblingPages == { <<Call(a, <<Pos(<<Txt(<<"1">>)>>)>>), Txt(<<"SP">>), Call(b, <<Pos(<<Txt(<<"2">>)>>)>>)>> : a \in {"T1", "T2", "Sp"}, b \in {"T1", "T2", "Sp"} }
                \cup { <<Call("T1", <<Pos(<<Call(a, <<>>), Call(b, <<Pos(<<Txt(<<"x">>)>>)>>)>>)>>)>> : a \in {"T2", "Sp"}, b \in {"T1", "T2"} }
\* argument names that str.isdigit() accepts but that are not decimal numerals
OddNamePages == { <<Call("T1", <<Named(<<"SUP2">>, <<Txt(<<"x">>)>>), Pos(<<Txt(<<"y">>)>>)>>)>>, <<ParD(<<"SUP2">>, <<Txt(<<"d">>)>>)>>,
                  <<Call("T1", <<Named(<<"ARD3">>, <<Txt(<<"x">>)>>)>>)>> }
CycPages == { <<Call("A", <<>>)>>, <<Call("A", <<Pos(<<Txt(<<"a">>)>>)>>)>>,
              <<If(<<Txt(<<"1">>)>>, <<Call("A", <<>>)>>, <<>>)>>,
              <<Txt(<<"p">>), Call("A", <<>>), Call("T1", <<Pos(<<Call("A", <<Pos(<<Txt(<<"a">>)>>)>>)>>)>>), Txt(<<"q">>)>> }

\* templates whose includable part is empty (documentation-only pages), used flat, twice, and as an argument
EmptyPages == { <<Call("E", <<>>)>>, <<Call("E", <<>>), Txt(<<"SP">>), Call("E", <<Pos(<<Txt(<<"a">>)>>)>>)>>,
                <<Call("T1", <<Pos(<<Call("E", <<>>)>>)>>), Call("E", <<>>)>> }

\* long flat pages: n calls side by side, none nested (a page of N flat calls is never "too deep"), followed
\* by a selected template; with #invoke expansion disabled the Lua calls come back as written
RECURSIVE Flat(_, _)
Flat(n, item) == IF n = 0 THEN <<>> ELSE <<item>> \o Flat(n - 1, item)
FlatPages == { Flat(n, it) \o <<Txt(<<"SP">>), Call("T1", <<Pos(<<Txt(<<"z">>)>>)>>)>> :
                 n \in {99, 120}, it \in {Inv("echo", <<Pos(<<Txt(<<"a">>)>>)>>), Call("T2", <<>>), Call("NOPE", <<>>)} }

LoopPages == { <<Inv("loop", <<>>), Inv("echo", <<Pos(<<Txt(<<"k">>)>>)>>)>>, <<Call("T1", <<Pos(<<Inv("loop", <<>>)>>)>>)>> }

RECURSIVE Nest(_)
Nest(n) == IF n = 0 THEN <<Txt(<<"c">>)>> ELSE <<Call("T1", <<Pos(Nest(n - 1))>>)>>
RECURSIVE NestIf(_)
NestIf(n) == IF n = 0 THEN <<Txt(<<"c">>)>> ELSE <<If(<<Txt(<<"1">>)>>, NestIf(n - 1), <<>>)>>
DeepPagesQ == { Nest(n) : n \in {2, 49, 50} } \cup { NestIf(n) : n \in {33, 34} }
DeepPages == { Nest(n) : n \in {1, 2, 10, 48, 49, 50, 51, 60} } \cup { NestIf(n) : n \in {10, 32, 33, 34, 40} }

(* ---------------- options ---------------- *)
Opt(pre, hasExp, exp, hasNot, nots, pfns, invoke, tfn, pfn) ==
  [pre |-> pre, hasExp |-> hasExp, exp |-> exp, hasNot |-> hasNot, nots |-> nots,
   pfns |-> pfns, invoke |-> invoke, tfn |-> tfn, pfn |-> pfn]
Opts16 == { Opt(pre, FALSE, {}, FALSE, {}, pf, iv, h, IF h = "none" THEN "none" ELSE "observe") :
              pre \in BOOLEAN, pf \in BOOLEAN, iv \in BOOLEAN, h \in {"none", "observe"} }
OptAll == Opt(FALSE, FALSE, {}, FALSE, {}, TRUE, TRUE, "none", "none")
Names == {"T1", "T2", "Sp"}
OptsSel ==
  { Opt(TRUE, he, IF he THEN e ELSE {}, hn, IF hn THEN n ELSE {}, pf, TRUE, tf, po) :
      he \in BOOLEAN, e \in SUBSET Names, hn \in BOOLEAN, n \in {{}, {"T1"}, {"Sp", "T2"}},
      pf \in BOOLEAN, tf \in {"none", "observe", "marker"}, po \in {"none", "replace"} }
OptsSelQ == { o \in OptsSel : (o.hasExp \/ o.exp = {}) /\ (o.hasNot \/ o.nots = {}) /\ ~(o.tfn = "marker" /\ o.pfn = "replace") }
OptsFullHooks == { Opt(FALSE, FALSE, {}, FALSE, {}, TRUE, TRUE, tf, po) : tf \in {"none", "observe", "marker"}, po \in {"none", "observe", "replace"} }
Needs == { {}, {"T1"}, {"T2"}, {"Sp", "T1"} }
OptsFlat == { Opt(TRUE, TRUE, {"T1"}, FALSE, {}, pf, iv, "observe", "none") : pf \in BOOLEAN, iv \in BOOLEAN }

Cases ==
  CASE Universe = "C16" ->
         { [lib |-> l, need |-> {"T2", "A"}, page |-> p, o |-> o, enw |-> TRUE] :
             l \in AcyclicLibs \cup CyclicLibs \cup {LInvPre}, p \in CallPages \cup PfnPages \cup InvPages \cup CycPages \cup SiblingPages \cup DeepPagesQ \cup EmptyPages, o \in Opts16 }
         \cup { [lib |-> LibBase, need |-> {"T2"}, page |-> p, o |-> o, enw |-> TRUE] : p \in LoopPages, o \in Opts16 }
    [] Universe = "C16Q" ->
         { [lib |-> l, need |-> {"T2", "A"}, page |-> p, o |-> o, enw |-> TRUE] :
             l \in {LibBase, LArg, LSelf, LInvPre}, p \in PfnPages \cup InvPages \cup CycPages \cup EmptyPages, o \in Opts16 }
         \cup { [lib |-> LibBase, need |-> {"T2"}, page |-> p, o |-> o, enw |-> TRUE] : p \in LoopPages, o \in Opts16 }
    [] Universe = "C05" ->
         { [lib |-> l, need |-> {}, page |-> p, o |-> OptAll, enw |-> TRUE] : l \in CyclicLibs \cup AcyclicLibs, p \in CycPages \cup DeepPages }
         \cup { [lib |-> LRdc, need |-> {}, page |-> p, o |-> OptAll, enw |-> TRUE] : p \in RdcPages \cup OddNamePages }
    [] Universe = "C13" ->
         { [lib |-> l, need |-> nd, page |-> p, o |-> o, enw |-> e] :
             l \in AcyclicLibs, nd \in Needs, p \in CallPages \cup PfnPages \cup SiblingPages, o \in OptsSel \cup OptsFullHooks, e \in BOOLEAN }
         \cup { [lib |-> LibBase, need |-> {}, page |-> p, o |-> o, enw |-> TRUE] : p \in FlatPages, o \in OptsFlat }
    [] Universe = "C13Q" ->
         { [lib |-> l, need |-> nd, page |-> p, o |-> o, enw |-> TRUE] :
             l \in {LibBase}, nd \in {{}, {"T2"}, {"Sp", "T1"}}, p \in CallPages \cup PfnPages, o \in OptsSelQ \cup OptsFullHooks }
         \cup { [lib |-> LibBase, need |-> nd, page |-> p, o |-> o, enw |-> e] :
                  nd \in {{"T2"}, {"Sp", "T1"}}, p \in SiblingPages, o \in OptsSelQ, e \in BOOLEAN }
         \cup { [lib |-> LibBase, need |-> {}, page |-> p, o |-> o, enw |-> TRUE] : p \in FlatPages, o \in OptsFlat }
    [] Universe = "C05Q" ->
         { [lib |-> l, need |-> {}, page |-> p, o |-> OptAll, enw |-> TRUE] : l \in CyclicLibs, p \in CycPages }
         \cup { [lib |-> LibBase, need |-> {}, page |-> p, o |-> OptAll, enw |-> TRUE] : p \in DeepPagesQ \cup OddNamePages }
         \cup { [lib |-> LRdc, need |-> {}, page |-> p, o |-> OptAll, enw |-> TRUE] : p \in RdcPages }
    [] Universe = "BLOWUP" ->
         { [lib |-> LAlt, need |-> {}, page |-> <<Call("A", <<>>)>>, o |-> OptAll, enw |-> TRUE] }
    [] Universe = "FILE" ->
         \* recorded / externally generated cases (V direction): sets arrive as JSON arrays
         LET raw == JsonDeserialize(IOEnv.CASE_FILE)
             SetOf(q) == {q[i] : i \in 1..Len(q)}
         IN { [lib |-> raw[i].lib, need |-> SetOf(raw[i].need), page |-> raw[i].page,
               o |-> [raw[i].o EXCEPT !.exp = SetOf(@), !.nots = SetOf(@)], enw |-> TRUE] : i \in 1..Len(raw) }
    [] Universe = "C04M" ->
         { [lib |-> l, need |-> {}, page |-> p, o |-> OptAll, enw |-> TRUE] : l \in AcyclicLibs, p \in CallPages \cup PfnPages }

VARIABLE case
Init == case \in Cases
Next == UNCHANGED case
Spec == Init /\ [][Next]_case

XOf(c, dev) == [lib |-> c.lib, need |-> c.need, o |-> c.o, Dev |-> dev, enwikt |-> c.enw]
PageStack == <<[t |-> "page", n |-> "Pg"]>>
Run(c, dev) == ExpandCall(c.page, PageStack, XOf(c, dev))

(* ---------------- model-level properties (ideal design, Dev = {}) ------- *)
\* (each takes the result r of one evaluation of the twin, so that the twin is
\*  evaluated once per case)
\* C16: the expansion path after the call is the path before the call
StackRestoredR(r) == r.st.stack = PageStack

\* C04 (machine == reference): full expansion without hooks equals Eval
TwinIsReferenceR(r) == (Universe = "C04M") => r.out = Expand(case.page, case.lib, {})

\* C05a: a loop / depth cut leaves an error element AND a recorded message
CutsReportedR(r) ==
  (\E i \in 1..Len(r.out) : r.out[i] \in {"<ERR:depth>", "<ERR:loop:"}) =>
     \E j \in 1..Len(r.st.msgs) : r.st.msgs[j].sortid \in {"core/1115", "core/1422"}

\* C13 (i): nothing selected and parser functions off => the page comes back unchanged
NothingSelected(c) == c.o.pre /\ ~c.o.hasExp /\ c.need = {} /\ ~c.o.pfns /\ c.o.tfn = "none" /\ c.o.pfn = "none"
NoTopPar(c) == \A i \in 1..Len(c) : c[i].k # "p"
\* "unchanged" is read up to the blanks around the first argument of a parser function
\* (insignificant in MediaWiki: parser-function parameters are trimmed), which expand()
\* strips when it re-emits the call
RECURSIVE SrcT(_), SrcTArgs(_, _)
SrcTItem(it) ==
  CASE it.k = "if" -> <<"{{", "#if:">> \o Trim(SrcT(it.c)) \o <<"|">> \o Src(it.y) \o <<"|">> \o Src(it.n) \o <<"}}">>
    [] it.k = "eq" -> <<"{{", "#ifeq:">> \o Trim(SrcT(it.a)) \o <<"|">> \o Src(it.b) \o <<"|">> \o Src(it.y) \o <<"|">> \o Src(it.n) \o <<"}}">>
    [] it.k = "sw" -> <<"{{", "#switch:">> \o Trim(SrcT(it.v)) \o SrcCases(it.cases, 1)
                      \o (IF it.hasDflt THEN <<"|", "#default", "=">> \o Src(it.dflt) ELSE <<>>) \o <<"}}">>
    [] it.k = "c" -> <<"{{", it.name>> \o SrcTArgs(it.args, 1) \o <<"}}">>
    [] OTHER -> SrcItem(it)
SrcTArgs(args, i) ==
  IF i > Len(args) THEN <<>>
  ELSE <<"|">> \o (IF args[i].named THEN SrcT(args[i].key) \o <<"=">> ELSE <<>>) \o SrcT(args[i].val) \o SrcTArgs(args, i + 1)
SrcT(c) == IF c = <<>> THEN <<>> ELSE SrcTItem(Head(c)) \o SrcT(Tail(c))
UnchangedWhenNothingSelectedR(r) ==
  (NothingSelected(case) /\ NoTopPar(case.page)) => r.out = SrcT(case.page)
\* C13 (iii): template_fn is called once per expanded call, post_template_fn at most once per call
HooksOncePerCallR(r) ==
  LET nT == Cardinality({i \in 1..Len(r.st.hooks) : r.st.hooks[i].hook = "template_fn"})
      nP == Cardinality({i \in 1..Len(r.st.hooks) : r.st.hooks[i].hook = "post_template_fn"})
  IN (case.o.tfn = "none" => nT = 0) /\ (case.o.pfn = "none" => nP = 0) /\ (case.o.tfn # "none" /\ case.o.pfn # "none" => nP <= nT)

\* C05a: the work of one call is bounded by a small polynomial in the depth limit and
\* the library size (|lib| * DepthLimit * 8 pushes); the repeated-pattern loop detector
\* violates it (Demo_Expander_blowup: LAlt with a small depth limit)
WorkBound == Cardinality(DOMAIN case.lib) * DepthLimit * 8
WorkBoundedR(r) == r.st.steps <= WorkBound
DemoBlowup == LET n == Run(case, DevPattern).st.steps IN PrintT(<<"STEPS", n, WorkBound>>) /\ n <= WorkBound

LawsR(r) == WorkBoundedR(r) /\ StackRestoredR(r) /\ TwinIsReferenceR(r) /\ CutsReportedR(r) /\ UnchangedWhenNothingSelectedR(r) /\ HooksOncePerCallR(r)

EmitR(r) ==
  LET a == IF Known = {} THEN r ELSE Run(case, Known)
  IN PrintT(<<"CASE", ToJson([lib |-> case.lib, need |-> case.need, page |-> case.page, o |-> case.o, enw |-> case.enw,
                               out |-> r.out, stack |-> r.st.stack, msgs |-> r.st.msgs, hooks |-> r.st.hooks,
                               ev |-> r.st.ev,
                               asis_out |-> a.out, asis_stack |-> a.st.stack])>>)
\* Laws: the model-level properties; GenInv: laws + emission of the case
Laws == LET r == Run(case, {}) IN LawsR(r)
GenInv == LET r == Run(case, {}) IN LawsR(r) /\ EmitR(r)

\* Demo: the as-is design with the leak violates StackRestored
DemoLeak == Run(case, DevInvokeLeak).st.stack = PageStack
=============================================================================
