SPECIFICATION Spec
INVARIANT GenInv
CHECK_DEADLOCK FALSE
