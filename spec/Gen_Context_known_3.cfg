SPECIFICATION Spec
CONSTANTS
  Dev <- KnownC09
  MaxLen = 3
  KindSet <- AllKinds
  Shape = "gen"
INVARIANT GenInv
CHECK_DEADLOCK FALSE
