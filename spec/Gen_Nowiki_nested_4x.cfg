SPECIFICATION Spec
CONSTANTS
  MaxTok = 0
  Mode = "nested"
  Depth = 4
INVARIANT GenInv
CHECK_DEADLOCK FALSE
