SPECIFICATION SpecS
CONSTANTS
  Depth = 3
  Part = 0
  Parts = 1
INVARIANT Seams
CHECK_DEADLOCK FALSE
