SPECIFICATION Spec
CONSTANTS
  Procs <- P3
  Dev <- DevNever
  Scenarios <- ScnAll
INVARIANT NoFailure
INVARIANT SerialResults
INVARIANT StoreUnchanged
INVARIANT NoDeadlock
CHECK_DEADLOCK FALSE
