SPECIFICATION SpecD
CONSTANTS
  Universe = "LADDER"
  Known <- KnownExp
  DepthLimit = 100
  PreBody <- ThePreBody
  LogEvents = FALSE
  Tier = "demo"
INVARIANT DemoUnbounded
CHECK_DEADLOCK FALSE
