SPECIFICATION Spec
CONSTANTS
  Universe = "O"
  MaxLines = 3
INVARIANT MachineOK
CHECK_DEADLOCK FALSE
