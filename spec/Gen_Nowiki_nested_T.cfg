SPECIFICATION Spec
CONSTANTS
  MaxTok = 0
  Mode = "nested"
  Depth = 4
  DeepAll = FALSE
  FinRule = "fixpoint"
INVARIANT GenInv
CHECK_DEADLOCK FALSE
