SPECIFICATION Spec
CONSTANTS
  Universe = "inline"
  MaxLen = 4
INVARIANT MachineOK
CHECK_DEADLOCK FALSE
