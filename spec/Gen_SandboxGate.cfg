SPECIFICATION SGSpec
CONSTANTS
  Objs <- L_Objs
  Names <- L_Names
  Facts <- L_Facts
  Writable <- L_Writable
  Modes <- L_Modes
  Bounds <- L_Bounds
  MaxLen <- L_MaxLen
  Dev <- NoDev
INVARIANT GenInv
CHECK_DEADLOCK FALSE
