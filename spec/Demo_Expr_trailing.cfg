SPECIFICATION SoupSpec
CONSTANTS
  Dev <- DevTrailing
  Lits <- LitsQ
  Lits2 <- LitsTwo
  UnOps <- UnExact
  BinOps <- BinAll
  Families <- NoFam
  SoupAlphabet <- SoupSmall
  MaxSoup = 2
INVARIANT LadderMatchesReference
CHECK_DEADLOCK FALSE
