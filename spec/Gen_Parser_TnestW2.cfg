SPECIFICATION Spec
CONSTANTS
  Universe = "nestW2"
  MaxLen = 3
INVARIANT MachineOK
CHECK_DEADLOCK FALSE
