SPECIFICATION Spec
CONSTANTS
  Universe = "Q"
INVARIANT GenInv
CHECK_DEADLOCK FALSE
