SPECIFICATION Spec
CONSTANTS
  Universe = "NAME"
  Part = 0
  Parts = 1
  Known = {}
  Tags <- TagsFromFile
INVARIANT DemoAttrNameClass
CHECK_DEADLOCK FALSE
