SPECIFICATION PosSpec
CONSTANTS
  Universe = "C13PQ"
  Known <- KnownExp
  DepthLimit = 100
  PreBody <- ThePreBody
  LogEvents = FALSE
INVARIANT PosGenInv
CHECK_DEADLOCK FALSE
