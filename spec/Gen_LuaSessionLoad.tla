------------------------- MODULE Gen_LuaSessionLoad -------------------------
EXTENDS Naturals, Sequences, TLC, Json
NoDev == {}
DevMarker == {"LoadMarkerKept"}
Ideal == INSTANCE LuaSessionLoad WITH Dev <- NoDev
Kept == INSTANCE LuaSessionLoad WITH Dev <- DevMarker
St(k, m, via, at) == [k |-> k, m |-> m, via |-> via, at |-> at]
Use(m, via) == St("use", m, via, "none")
\* abort steps: cause x place x way x name class (mw.loadData hands out a value, not functions to call: chunk only;
\* the second retained name only for the plain require)
Aborts == { St(k, m, via, at) : k \in {"spin", "err"}, m \in {"r1", "o1"}, via \in {"require", "nreq", "self"}, at \in {"chunk", "fn"} }
          \cup { St(k, m, "data", "chunk") : k \in {"spin", "err"}, m \in {"r1", "o1"} }
          \cup { St(k, "r2", "require", "chunk") : k \in {"spin", "err"} }
\* the benign invocation that follows needs the SAME module again: through the same cache the abort went through
UsesAfter(a) == IF a.via = "data" THEN { Use(a.m, "data"), Use(a.m, "require") } ELSE { Use(a.m, "require"), Use(a.m, "self") }
RefNames == {"r1", "r2", "o1"}
Sessions == { <<Use(m, via)>> : m \in RefNames, via \in {"require", "data", "self", "nreq"} }   \* the fresh-context reference
            \cup UNION { { <<a, u>> : u \in UsesAfter(a) } : a \in Aborts }
            \cup { <<St(kk[1], m, "require", "chunk"), St(kk[2], m, "require", "chunk"), Use(m, "require")>> :
                     m \in {"r1", "o1"}, kk \in {<<"spin", "err">>, <<"err", "spin">>} }
            \cup { <<St("err", "r1", "require", "chunk"), Use("r2", "require"), Use("r1", "nreq")>> }
VARIABLE sess
Init == sess \in Sessions
Next == UNCHANGED sess
Spec == Init /\ [][Next]_sess
Laws == Ideal!MeetsDemand(sess)
Emit == PrintT(<<"CASE", ToJson([sess |-> sess, out |-> Ideal!Outcomes(sess), kept |-> Kept!Outcomes(sess)])>>)
GenInv == Laws /\ Emit
\* Demo: with the 'being loaded' entry kept after an aborted load some session violates the demand
DemoKept == Kept!MeetsDemand(sess)
=============================================================================
