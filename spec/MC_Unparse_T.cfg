SPECIFICATION Spec
CONSTANTS
  Universe = "GQ"
  Part = 0
  Parts = 4
  Known = {}
  Tags <- TagsFromFile
INVARIANT RoundTrip
INVARIANT EmptyParts
CHECK_DEADLOCK FALSE
