SPECIFICATION Spec
CONSTANTS
  Universe = "GQ"
  Part = 0
  Parts = 4
  Known = {}
  Tags <- TagsFromFile
INVARIANT RoundTrip
CHECK_DEADLOCK FALSE
