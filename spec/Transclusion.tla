--------------------------- MODULE Transclusion ---------------------------
(* Reference (denotational) semantics of MediaWiki transclusion as stated   *)
(* by property C04, over an abstract syntax:                                *)
(*                                                                          *)
(*   text    = Seq(Atom)         Atom: "a" "b" ... "SP" "NL" "TAB" "*" "#" ":" *)
(*   content = Seq(item)                                                    *)
(*   item    = [k |-> "t",  s    |-> text]                     plain text   *)
(*           | [k |-> "p",  name |-> text, hasDef, def |-> content]  {{{n|d}}} *)
(*             (a name may have several words: <<"f", "SP", "SP", "n">>, see KeyOf) *)
(*           | [k |-> "pc", name |-> content, hasDef, def]   {{{computed|d}}} *)
(*           | [k |-> "c",  name |-> Atom, args |-> Seq(arg)]   {{name|..}} *)
(*           | [k |-> "if", c, y, n |-> content]                {{#if:c|y|n}} *)
(*           | [k |-> "eq", a, b, y, n |-> content]             {{#ifeq:..}} *)
(*           | [k |-> "sw", v |-> content, cases |-> Seq([key |-> text,     *)
(*                   val |-> content]), hasDflt, dflt |-> content]          *)
(*           | [k |-> "l",  args |-> Seq(content)]              [[a|b|...]] *)
(*           | [k |-> "x",  c |-> content]                      [http://x.y c] *)
(*   arg     = [named |-> BOOLEAN, key |-> content, val |-> content]        *)
(*   library : template name -> Seq(segment),                               *)
(*   segment = [w |-> "plain"|"noinclude"|"includeonly"|"onlyinclude"|      *)
(*                    "comment", c |-> content]                             *)
(*                                                                          *)
(* `Dev` lists named deviations of the implementation from these rules      *)
(* (as-is behaviour); the ideal is Dev = {}.                                *)
EXTENDS Naturals, Sequences, FiniteSets, TLC

WS == {"SP", "NL", "TAB"}   \* blank, newline, tabulator (all stripped by trimming)
LineMarkers == {"*", "#", ":", ";", "{|"}
NumAtoms == <<"1", "2", "3", "4", "5", "6">>

RECURSIVE LTrim(_)
LTrim(s) == IF Len(s) > 0 /\ s[1] \in WS THEN LTrim(Tail(s)) ELSE s
RECURSIVE RTrim(_)
RTrim(s) == IF Len(s) > 0 /\ s[Len(s)] \in WS THEN RTrim(SubSeq(s, 1, Len(s) - 1)) ELSE s
Trim(s) == RTrim(LTrim(s))

\* "a result starting with a list/table marker gets a newline prepended"
AddNL(s) == IF Len(s) > 0 /\ s[1] \in LineMarkers THEN <<"NL">> \o s ELSE s

DropOneNL(s) == IF Len(s) > 0 /\ s[Len(s)] = "NL" THEN SubSeq(s, 1, Len(s) - 1) ELSE s

(* ---------------- parameter names ---------------- *)
\* The statement fixes that named keys are whitespace-TRIMMED; two written names denote the
\* same parameter when their trimmed texts are equal.  A name may consist of several words
\* separated by runs of blanks ("first  name", a name broken over two lines, a tabulator).
\* The statement says nothing about such interior runs; the implementation additionally
\* folds every interior run of blanks to one blank, at BOTH places where a name is read (the
\* key of a named argument at the call, and the name of a {{{reference}}} in the body).  That
\* convention is selected by "NameBlankRunsFolded" \in Dev (a convention switch, not a
\* deviation from the statement).  For names that are written identically (up to padding)
\* at the call and in the body both readings agree -- see LawSameWriting in Gen_Transclusion.
RECURSIVE FoldRuns(_)
FoldRuns(s) ==   \* every maximal run of blanks becomes one "SP"
  IF s = <<>> THEN <<>>
  ELSE IF Head(s) \in WS THEN <<"SP">> \o FoldRuns(LTrim(s)) ELSE <<Head(s)>> \o FoldRuns(Tail(s))
NameFold == "NameBlankRunsFolded"
\* canonical form of a written parameter name
KeyOf(s, Dev) == IF NameFold \in Dev THEN FoldRuns(Trim(s)) ELSE Trim(s)

(* ---------------- template names ---------------- *)
\* A call may write the name of a template in several spellings (page-store rules,
\* PageStore.tla): with the namespace prefix, with a lower-case first letter, with an
\* underscore for a blank.  Alias maps such a written name to the stored name; names not
\* in the table denote themselves.  Redirect maps a redirect page to its target (one hop
\* is followed; a redirect to a redirect is not).
\* the redirect pages R1 -> T1, R2 -> R1, r1 (lower-case alias of R1) exist in the page store
\* exactly when the library contains the marker entry "RDR"
RedirectsInstalled(lib) == "RDR" \in DOMAIN lib
Alias == ("Template:T1" :> "T1") @@ ("t1" :> "T1") @@ ("template:T1" :> "T1") @@ ("T:T1" :> "T1")
         @@ ("Template:T2" :> "T2") @@ ("t2" :> "T2")
Redirect == ("R1" :> "T1") @@ ("R2" :> "R1") @@ ("r1" :> "T1")
Stored(n) == IF n \in DOMAIN Alias THEN Alias[n] ELSE n
\* the library page whose body is transcluded, or "" when the call goes nowhere
Target(n, lib) ==
  LET s == Stored(n) IN
  IF s \in DOMAIN lib THEN s
  ELSE IF s \in DOMAIN Redirect /\ Redirect[s] \in DOMAIN lib /\ RedirectsInstalled(lib) THEN Redirect[s]
  ELSE ""

(* ---------------- frames ---------------- *)
\* a frame binds parameter keys (trimmed texts) to values; `top` = the page itself
TopFrame == [top |-> TRUE, b |-> <<>>]
Frame(bindings) == [top |-> FALSE, b |-> bindings]   \* bindings: Seq([key, val]) in call order

HasKey(f, key) == \E i \in 1..Len(f.b) : f.b[i].key = key
\* later duplicates win
ValueOf(f, key) ==
  LET i == CHOOSE j \in 1..Len(f.b) : f.b[j].key = key /\ \A k \in (j + 1)..Len(f.b) : f.b[k].key # key
  IN f.b[i].val

(* ---------------- includable part of a template body ---------------- *)
RECURSIVE Concat(_)
Concat(ss) == IF ss = <<>> THEN <<>> ELSE Head(ss) \o Concat(Tail(ss))

RECURSIVE SegSelect(_, _)
SegSelect(segs, ws) == \* contents of the segments whose wrapper is in ws, concatenated
  IF segs = <<>> THEN <<>>
  ELSE (IF Head(segs).w \in ws THEN Head(segs).c ELSE <<>>) \o SegSelect(Tail(segs), ws)

IncludablePart(segs) ==
  IF \E i \in 1..Len(segs) : segs[i].w = "onlyinclude"
  THEN SegSelect(segs, {"onlyinclude"})
  ELSE SegSelect(segs, {"plain", "includeonly"})

(* ---------------- evaluation ---------------- *)
IsWsText(it) == it.k = "t" /\ \A i \in 1..Len(it.s) : it.s[i] \in WS

\* source-level trimming of a content (what the implementation does to a named
\* value *before* expanding it): strips blanks of leading/trailing text items only
RECURSIVE SrcLTrim(_)
SrcLTrim(c) ==
  IF c = <<>> THEN c
  ELSE IF Head(c).k = "t"
       THEN LET t == LTrim(Head(c).s) IN
            IF t = <<>> THEN SrcLTrim(Tail(c)) ELSE <<[k |-> "t", s |-> t]>> \o Tail(c)
       ELSE c
RECURSIVE SrcRTrim(_)
SrcRTrim(c) ==
  IF c = <<>> THEN c
  ELSE LET n == Len(c) IN
       IF c[n].k = "t"
       THEN LET t == RTrim(c[n].s) IN
            IF t = <<>> THEN SrcRTrim(SubSeq(c, 1, n - 1))
            ELSE SubSeq(c, 1, n - 1) \o <<[k |-> "t", s |-> t]>>
       ELSE c
SrcTrim(c) == SrcRTrim(SrcLTrim(c))

\* Deviation "ArgTrailingNewlineDropped" (deliberate in the code, pinned by
\* test_unnamed_template_arg_end_in_newline): inside a template body (expand_args) every
\* substituted parameter value loses one final newline, and every argument of a nested call
\* loses one final newline of its text after substitution, before it is expanded.
TxtItem(s) == [k |-> "t", s |-> s]
ArgSrcDrop(c, f, Dev) ==
  IF "ArgTrailingNewlineDropped" \notin Dev \/ f.top \/ c = <<>> THEN c
  ELSE LET n == Len(c) last == c[n] IN
       IF last.k = "t"
       THEN IF DropOneNL(last.s) = <<>> THEN SubSeq(c, 1, n - 1) ELSE [c EXCEPT ![n] = TxtItem(DropOneNL(last.s))]
       ELSE IF last.k = "p" /\ HasKey(f, KeyOf(last.name, Dev))
            THEN [c EXCEPT ![n] = TxtItem(DropOneNL(DropOneNL(ValueOf(f, KeyOf(last.name, Dev)))))]
       ELSE c
ParamValue(f, key, Dev) ==
  IF "ArgTrailingNewlineDropped" \in Dev THEN DropOneNL(ValueOf(f, key)) ELSE ValueOf(f, key)

RECURSIVE Eval(_, _, _, _), EvalItem(_, _, _, _), Bind(_, _, _, _, _, _), SwitchEval(_, _, _, _, _, _),
          EvalJoin(_, _, _, _, _), LateKey(_, _, _, _)

\* Deviation "ComputedNumericKeyNotPositional": the implementation decides whether the key of a named
\* argument is a number (= the positional parameter of that number) on the WRITTEN key, before the key is
\* expanded.  A key that becomes a positive numeral only by an expansion made at the call ({{T|{{one}}=v}},
\* {{T|{{#if:x|1}}=v}}, on the page itself also {{T|{{{z|1}}}=v}}) is stored as a text key that no
\* {{{1}}} can reach: the argument is lost.  Inside a template body parameter references of the key are
\* substituted before the decision (expand_args), so {{T|{{{k}}}=v}} with k = 1 is not affected - unless the
\* reference falls back to a default that itself needs expansion.
Digits == {"0", "1", "2", "3", "4", "5", "6", "7", "8", "9"}
IsPosNumeral(key) == /\ key # <<>> /\ \A i \in 1..Len(key) : key[i] \in Digits
                     /\ \E i \in 1..Len(key) : key[i] # "0"
\* the written key still contains something that is expanded only when the call is made
LateKey(kc, f, lib, Dev) ==
  \E i \in 1..Len(kc) :
    LET it == kc[i] IN
    \/ it.k \in {"c", "if", "eq", "sw"}
    \/ it.k \in {"p", "pc"} /\ f.top
    \/ /\ it.k \in {"p", "pc"} /\ ~f.top /\ it.hasDef
       /\ ~HasKey(f, KeyOf(IF it.k = "p" THEN it.name ELSE Eval(it.name, f, lib, Dev), Dev))
       /\ LateKey(it.def, f, lib, Dev)
LostKey(key) == <<"(text key)">> \o key

\* Eval(content, frame, lib, Dev) -> text
Eval(c, f, lib, Dev) ==
  IF c = <<>> THEN <<>> ELSE EvalItem(Head(c), f, lib, Dev) \o Eval(Tail(c), f, lib, Dev)

\* bind the arguments of a call, evaluated in the CALLER's frame f
Bind(args, i, pos, f, lib, Dev) ==
  IF i > Len(args) THEN <<>>
  ELSE LET a == args[i] IN
       IF a.named
       THEN LET k0 == KeyOf(Eval(a.key, f, lib, Dev), Dev)
                key == IF "ComputedNumericKeyNotPositional" \in Dev /\ IsPosNumeral(k0) /\ LateKey(a.key, f, lib, Dev)
                       THEN LostKey(k0) ELSE k0
                val == IF "NamedValueTrimmedBeforeExpansion" \in Dev
                       THEN Eval(SrcTrim(a.val), f, lib, Dev)
                       ELSE Trim(Eval(a.val, f, lib, Dev))
            IN <<[key |-> key, val |-> val]>> \o Bind(args, i + 1, pos, f, lib, Dev)
       ELSE <<[key |-> <<NumAtoms[pos]>>, val |-> Eval(ArgSrcDrop(a.val, f, Dev), f, lib, Dev)]>>
            \o Bind(args, i + 1, pos + 1, f, lib, Dev)

\* a case written without "=value" (|a|b|c=X) falls through to the next case that has a
\* value; it is represented by the one-item content <<[k |-> "ft"]>> as its val
IsFT(c) == Len(c.val) = 1 /\ c.val[1].k = "ft"
NextValued(cases, i) == IF \E j \in i..Len(cases) : ~IsFT(cases[j])
                        THEN CHOOSE j \in i..Len(cases) : ~IsFT(cases[j]) /\ \A k \in i..(j - 1) : IsFT(cases[k])
                        ELSE 0
SwitchEval(v, i, it, f, lib, Dev) ==
  IF i > Len(it.cases)
  THEN IF it.hasDflt THEN Trim(Eval(it.dflt, f, lib, Dev)) ELSE <<>>
  ELSE IF Trim(it.cases[i].key) = v
       THEN LET j == NextValued(it.cases, i) IN
            IF j = 0 THEN <<>> ELSE Trim(Eval(it.cases[j].val, f, lib, Dev))
       ELSE SwitchEval(v, i + 1, it, f, lib, Dev)

\* links are transparent containers: their |-separated parts are evaluated in place
EvalJoin(args, i, f, lib, Dev) ==
  IF i > Len(args) THEN <<>>
  ELSE (IF i > 1 THEN <<"|">> ELSE <<>>) \o Eval(args[i], f, lib, Dev) \o EvalJoin(args, i + 1, f, lib, Dev)

EvalItem(it, f, lib, Dev) ==
  CASE it.k = "t" -> it.s
    [] it.k = "l" -> <<"[[">> \o EvalJoin(it.args, 1, f, lib, Dev) \o <<"]]">>
    [] it.k = "x" -> <<"[", "http://x.y", "SP">> \o Eval(it.c, f, lib, Dev) \o <<"]">>
    [] it.k = "p" ->
         LET key == KeyOf(it.name, Dev) IN
         IF ~f.top /\ HasKey(f, key) THEN ParamValue(f, key, Dev)
         ELSE IF it.hasDef THEN Eval(it.def, f, lib, Dev)
         ELSE <<"{{{">> \o key \o <<"}}}">>
    \* {{{computed name|default}}}: the name is itself content, evaluated in the same frame
    [] it.k = "pc" ->
         LET key == KeyOf(Eval(it.name, f, lib, Dev), Dev) IN
         IF ~f.top /\ HasKey(f, key) THEN ParamValue(f, key, Dev)
         ELSE IF it.hasDef THEN Eval(it.def, f, lib, Dev)
         ELSE <<"{{{">> \o key \o <<"}}}">>
    [] it.k = "c" ->
         IF Target(it.name, lib) = ""
         THEN <<"[[:Template:", it.name, "]]">>
         ELSE LET nf == Frame(Bind(it.args, 1, 1, f, lib, Dev))
              IN AddNL(Eval(IncludablePart(lib[Target(it.name, lib)]), nf, lib, Dev))
    [] it.k = "if" ->
         AddNL(IF Trim(Eval(it.c, f, lib, Dev)) # <<>>
               THEN Trim(Eval(it.y, f, lib, Dev)) ELSE Trim(Eval(it.n, f, lib, Dev)))
    [] it.k = "eq" ->
         AddNL(IF Trim(Eval(it.a, f, lib, Dev)) = Trim(Eval(it.b, f, lib, Dev))
               THEN Trim(Eval(it.y, f, lib, Dev)) ELSE Trim(Eval(it.n, f, lib, Dev)))
    [] it.k = "sw" ->
         AddNL(SwitchEval(Trim(Eval(it.v, f, lib, Dev)), 1, it, f, lib, Dev))

\* what expand(page) must return for a page processed on its own (no frame)
Expand(page, lib, Dev) == Eval(page, TopFrame, lib, Dev)

(* ---------------- well-formedness of inputs (acyclic libraries) -------- *)
RECURSIVE CallsIn(_)
CallsInItem(it) ==
  CASE it.k = "t" -> {}
    [] it.k = "l" -> UNION {CallsIn(it.args[i]) : i \in 1..Len(it.args)}
    [] it.k = "x" -> CallsIn(it.c)
    [] it.k = "p" -> IF it.hasDef THEN CallsIn(it.def) ELSE {}
    [] it.k = "pc" -> CallsIn(it.name) \cup (IF it.hasDef THEN CallsIn(it.def) ELSE {})
    [] it.k = "c" -> {it.name} \cup UNION {CallsIn(it.args[i].val) \cup CallsIn(it.args[i].key) : i \in 1..Len(it.args)}
    [] it.k = "if" -> CallsIn(it.c) \cup CallsIn(it.y) \cup CallsIn(it.n)
    [] it.k = "eq" -> CallsIn(it.a) \cup CallsIn(it.b) \cup CallsIn(it.y) \cup CallsIn(it.n)
    [] it.k = "sw" -> CallsIn(it.v) \cup CallsIn(it.dflt)
                      \cup UNION {IF IsFT(it.cases[i]) THEN {} ELSE CallsIn(it.cases[i].val) : i \in 1..Len(it.cases)}
CallsIn(c) == UNION {CallsInItem(c[i]) : i \in 1..Len(c)}
=============================================================================
