SPECIFICATION RepSpec
CONSTANTS
  Universe = "C13RQ"
  Known <- KnownExp
  DepthLimit = 100
  PreBody <- ThePreBody
  LogEvents = FALSE
INVARIANT RepGenInv
CHECK_DEADLOCK FALSE
