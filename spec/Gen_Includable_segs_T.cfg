SPECIFICATION Spec
CONSTANTS
  MaxTok = 0
  MaxSeg = 4
  Mode = "segs"
INVARIANT GenInv
CHECK_DEADLOCK FALSE
