SPECIFICATION Spec
CONSTANTS
  Procs <- P2
  Dev <- DevKeepsShm
  Scenarios <- ScnRestoreLiveQ
INVARIANT NoFailure
INVARIANT SerialResults
INVARIANT StoreUnchanged
INVARIANT NoDeadlock
CHECK_DEADLOCK FALSE
