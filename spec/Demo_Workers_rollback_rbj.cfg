SPECIFICATION Spec
CONSTANTS
  Procs <- P2
  Dev <- DevCreatorOnly
  Scenarios <- ScnRbjReader
INVARIANT NoFailure
INVARIANT SerialResults
INVARIANT StoreUnchanged
INVARIANT NoDeadlock

CHECK_DEADLOCK FALSE
