SPECIFICATION Spec
CONSTANTS
  Dev <- DevIdeal
  Shapes <- BuiltinShapes
  MaxDigits = 12
  Fracs <- FracsAll
INVARIANT RoundTrip
INVARIANT FormatsLikeReference
INVARIANT Ungrouped
CHECK_DEADLOCK FALSE
