SPECIFICATION Spec
CONSTANTS
  Tier = "quick"
INVARIANT DemoLoadData
CHECK_DEADLOCK FALSE
