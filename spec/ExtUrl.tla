------------------------------- MODULE ExtUrl -------------------------------
(* C01 (round 9): the SHAPE OF THE URL PART of an external link               *)
(*      [ <url part> ]      and      [ <url part> <blank> label ]             *)
(* The chunk universes of Gen_Parser treat a labelled external link as ONE    *)
(* atom ("ME", spelled [http://x.org w]); here the url part varies atom by    *)
(* atom: port, query / fragment directly after the host, IPv6 brackets,       *)
(* userinfo, percent escapes, trailing punctuation, and a nowiki / template   *)
(* call / argument reference / bracket inside it.                             *)
(*                                                                            *)
(* Written from parser.py (token regex, url_fn, text_fn URL branch, magic_fn, *)
(* _parser_merge_str_children):                                               *)
(*  * calls, argument references, nowiki (and the inner brackets of "[1]"     *)
(*    while a link is read) are replaced by ONE placeholder character each    *)
(*    before tokenising;                                                      *)
(*  * the URL token is  scheme://host  followed, only if a "/" comes directly  *)
(*    after the host, by a path that runs up to the next  ] [ { } < > | blank  *)
(*    - placeholder characters are swallowed by the path; everything after a  *)
(*    host without "/" (":80", "?q", "#f", ...) and everything after the end  *)
(*    of the path arrives as further tokens: further text pieces, or - for a  *)
(*    placeholder standing on its own - a TEMPLATE / TEMPLATE_ARG node;       *)
(*  * all pieces are collected as children of the open URL node; at the first *)
(*    blank (label) or at the closing bracket (no label) the children are     *)
(*    MERGED (adjacent strings joined, placeholders inside strings resolved   *)
(*    back to their source text) and become the first argument.               *)
(* Arg1(u) is that merged first argument.  The property statement demands of  *)
(* it what WellFormed says (no adjacent strings, no placeholder character);   *)
(* the exact item sequence is the model's own prediction (DRIFT when the real *)
(* parser differs).                                                           *)
EXTENDS Naturals, Sequences

\* heads: what the url part begins with
\*   hHOST http://x.org   hPATH https://x.org/p (the URL token already has a path)   hREL //x.org
\*   hIP6 http://[::1]    hMAIL mailto:a@b.c
Heads == {"hHOST", "hPATH", "hIP6", "hREL", "hMAIL"}
\* text_fn, URL branch: the bracket is a link only if the FIRST token after it begins like a URL
\* (the pieces "http" / "mailto" of a head that is not a URL token do not)
IsLink(h) == h \in {"hHOST", "hPATH", "hREL"}
\* tail atoms of the url part
\*   plain text
PlainAtoms == {"PORT", "SLASH", "QUERY", "FRAG", "PCT", "AT", "DOT", "COMMA", "AMP", "UNI"}
\*   one placeholder character each: on its own a node (call, argument reference) ...
CallAtoms == {"TPL", "ARG"}
\*   ... or text again (nowiki; "[1]": inner brackets are placeholder characters while the link is read)
TextCookieAtoms == {"NOWIKI", "BRK"}
TailAtoms == PlainAtoms \cup CallAtoms \cup TextCookieAtoms
NodeKindOf(a) == IF a = "TPL" THEN "TEMPLATE" ELSE "TEMPLATE_ARG"
\* url_fn: one trailing character of the URL TOKEN out of . , ! ? is split off - and, inside an open
\* external link, not put back (as-is behaviour; outside the statement of C01)
Trailing == {"DOT", "COMMA"}

\* one collected child: a text piece [s |-> atoms] or a node [k |-> kind]
IsPiece(x) == "s" \in DOMAIN x
DropTrailing(acc) ==
  LET p == acc[Len(acc)].s IN
  IF Len(p) > 1 /\ p[Len(p)] \in Trailing THEN [acc EXCEPT ![Len(acc)] = [s |-> SubSeq(p, 1, Len(p) - 1)]] ELSE acc

\* the children collected while the url part is read.  mode: what the URL token (the last piece) still
\* swallows: "host" (dots, letters; a "/" opens the path), "path" (everything up to ] [ { } < > | blank - placeholder
\* characters included), "none" (the URL token is over / there was none)
RECURSIVE Collect(_, _, _, _)
Collect(u, i, acc, mode) ==
  IF i > Len(u) THEN (IF mode = "none" THEN acc ELSE DropTrailing(acc))
  ELSE LET a == u[i]
           grow == [acc EXCEPT ![Len(acc)] = [s |-> @.s \o <<a>>]] IN
       IF mode = "path" THEN Collect(u, i + 1, grow, "path")
       ELSE IF mode = "host" /\ a \in {"DOT", "UNI"} THEN Collect(u, i + 1, grow, "host")
       ELSE IF mode = "host" /\ a = "SLASH" THEN Collect(u, i + 1, grow, "path")
       ELSE LET acc1 == IF mode = "host" THEN DropTrailing(acc) ELSE acc IN
            IF a \in CallAtoms
            THEN Collect(u, i + 1, Append(acc1, [k |-> NodeKindOf(a)]), "none")
            ELSE Collect(u, i + 1, Append(acc1, [s |-> <<a>>]), "none")

StartMode(h) == CASE h = "hHOST" -> "host" [] h = "hPATH" -> "path" [] OTHER -> "none"

\* _parser_merge_str_children: adjacent strings joined
RECURSIVE Merge(_, _)
Merge(ps, acc) ==
  IF ps = <<>> THEN acc
  ELSE IF acc # <<>> /\ IsPiece(Head(ps)) /\ IsPiece(acc[Len(acc)])
       THEN Merge(Tail(ps), [acc EXCEPT ![Len(acc)] = [s |-> @.s \o Head(ps).s]])
       ELSE Merge(Tail(ps), Append(acc, Head(ps)))

\* u = <<head>> \o tail atoms.  (the as-is variant "NoMergeBeforeLabel" hands the collected pieces on unmerged)
Pieces(u) == Collect(u, 2, << [s |-> <<u[1]>>] >>, StartMode(u[1]))
Arg1(u) == Merge(Pieces(u), <<>>)
Arg1Unmerged(u) == Pieces(u)

NoAdjacent(arg) == \A i \in 1..(Len(arg) - 1) : ~(IsPiece(arg[i]) /\ IsPiece(arg[i + 1]))
\* what the statement demands of the first argument, on the model's side
Arg1OK(u) == NoAdjacent(Arg1(u))
=============================================================================
