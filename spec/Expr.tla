------------------------------- MODULE Expr -------------------------------
(* #expr of wikitextprocessor (parserfns.py: expr_fn).                       *)
(*                                                                          *)
(*  Tokens are atom strings ("2.5", "mod", "(", "HUGE", ...).               *)
(*  Three evaluators over the same abstract arithmetic (ApplyU / ApplyB):   *)
(*    Fold(ast)        value of an expression tree = what the property      *)
(*                     demands of a well-formed expression;                 *)
(*    MWOutcome(toks)  the documented MediaWiki evaluation of a token       *)
(*                     sequence: operator-precedence (shunting-yard) parse   *)
(*                     over the precedence table of                          *)
(*                     Help:Extension:ParserFunctions##expr, every binary   *)
(*                     operator left-associative  (the declarative           *)
(*                     reference for arbitrary token sequences);             *)
(*    ExprOutcome(toks) transcription of the code's recursive-descent        *)
(*                     ladder (parse_expr .. parse_atom, generic_binary),    *)
(*                     including every error return.                         *)
(*  RMin / RFull render a tree with minimal / full parenthesisation.        *)
(*                                                                          *)
(*  Numbers are exact rationals n/d with |n|, d <= MaxI (so all products fit *)
(*  TLC's 32-bit integers) or *inexact* abstract values (sign, magnitude).   *)
(*  Outcomes are uniform records:                                            *)
(*     kind = "val"  a number     (ex = TRUE: exactly n/d)                   *)
(*     kind = "err"  an in-band error (what = syntax | div0 | domain |       *)
(*                   overflow)                                               *)
(*     kind = "exc"  an exception escapes or the call does not return (only  *)
(*                   with as-is deviations)                                  *)
(* Dev = set of as-is behaviours of the code that are switched on; {} is the *)
(* ideal (= the code with proposed_fixes/C05-expr*.diff, C18-expr*.diff).    *)
EXTENDS Integers, Sequences, FiniteSets, TLC

CONSTANT Dev

(* ------------------------------------------------------------------ *)
(* abstract numbers                                                   *)
(* ------------------------------------------------------------------ *)
MaxI == 30000
AbsI(x) == IF x < 0 THEN -x ELSE x
RECURSIVE Gcd(_, _)
Gcd(a, b) == IF b = 0 THEN a ELSE Gcd(b, a % b)

\* fx: the IEEE-double computation of this value is exact (dyadic rational
\* reached through exact steps); discontinuous operators applied to a value
\* that is not fx, exactly at a discontinuity, give an inexact result.
\* rk ("risk"): somewhere below, an operator that can fail produced a value the
\* model knows only roughly -- the real evaluation may legitimately end in an
\* arithmetic error instead of this value.
\* nr ("nearest"): the value is exactly n/d, its double is NOT exact (fx = FALSE) but
\* it is the correctly rounded double of n/d: a decimal numeral as written, the
\* negation / absolute value / scaling by a power of two of such a value, the
\* quotient of two exact doubles (IEEE division is correctly rounded), the result
\* of `round` to k >= 1 digits (converted back from the decimal).  Python's repr()
\* of such a double is the short decimal n/d itself (<= 15 significant digits), so
\* what is "written" is known to the model and a decimal tie of `round` is decided.
\* Sums, products and everything reached through an inexact step are not nr.
Out(kind, what, ex, n, d, sg, mag, fx) ==
  [kind |-> kind, what |-> what, ex |-> ex, n |-> n, d |-> d, sg |-> sg, mag |-> mag, fx |-> fx, rk |-> FALSE,
   nr |-> FALSE]
Err(w) == Out("err", w, FALSE, 0, 1, "u", "mid", FALSE)
Exc(w) == Out("exc", w, FALSE, 0, 1, "u", "mid", FALSE)
Ix(sg, mag) == Out("val", "", FALSE, 0, 1, sg, mag, FALSE)
Unknown == Ix("u", "mid")
SgOf(n) == IF n > 0 THEN "p" ELSE IF n < 0 THEN "n" ELSE "z"
IsPow2(d) == d \in {1, 2, 4, 8, 16, 32, 64, 128, 256, 512, 1024, 2048, 4096, 8192, 16384}

\* exact rational (d > 0, |n| and d below 2^31); out of bound -> inexact
Qf(n, d, fx) ==
  LET g == Gcd(AbsI(n), d)
      nn == n \div g
      dd == d \div g
  IN IF AbsI(nn) > MaxI \/ dd > MaxI THEN Ix(SgOf(n), "mid")
     ELSE Out("val", "", TRUE, nn, dd, SgOf(nn), "mid", fx /\ IsPow2(dd))
Q(n, d) == Qf(n, d, TRUE)
Zero == Q(0, 1)
One == Q(1, 1)
Bool(b) == IF b THEN One ELSE Zero

SetNr(r, b) == IF r.kind = "val" /\ r.ex /\ ~r.fx /\ b THEN [r EXCEPT !.nr = TRUE] ELSE r
\* the double the code holds is the double nearest to n/d
Near(a) == a.ex /\ (a.fx \/ a.nr)
\* +-2^j: multiplying / dividing by it is exact in binary floating point
Pow2Val(a) == a.ex /\ a.fx /\ IsPow2(AbsI(a.n)) /\ IsPow2(a.d)

Flip(sg) == CASE sg = "p" -> "n" [] sg = "n" -> "p" [] OTHER -> sg
SgMul(a, b) == IF a = "z" \/ b = "z" THEN "z" ELSE IF a = "u" \/ b = "u" THEN "u"
               ELSE IF a = b THEN "p" ELSE "n"
IsInt(a) == a.ex /\ a.d = 1
IsZero(a) == a.ex /\ a.n = 0
Huge(a) == ~a.ex /\ a.mag = "huge"
Tiny(a) == ~a.ex /\ a.mag = "tiny"

\* as-is: arithmetic failures are Python exceptions that nobody catches
Raise(w) == IF "NoExceptionBarrier" \in Dev THEN Exc(w) ELSE Err(w)

(* ---- unary ------------------------------------------------------- *)
Neg(a) == IF a.ex THEN SetNr(Qf(-a.n, a.d, a.fx), a.nr) ELSE Ix(Flip(a.sg), a.mag)
AbsV(a) == IF a.ex THEN SetNr(Qf(AbsI(a.n), a.d, a.fx), a.nr) ELSE Ix(IF a.sg = "n" THEN "p" ELSE a.sg, a.mag)
Truth(a) == IF a.ex THEN (IF a.n # 0 THEN "t" ELSE IF a.fx THEN "f" ELSE "u")
            \* an inexact value is only known roughly (values beyond the exact bound are labelled
            \* "mid" whatever their true magnitude): it may underflow to 0.0 in the floating-point
            \* evaluation, so its truth value is not decided by the model (numeric accuracy)
            ELSE "u"
NotV(a) == CASE Truth(a) = "t" -> Zero [] Truth(a) = "f" -> One [] OTHER -> Unknown

FloorI(n, d) == n \div d
TruncI(n, d) == IF n >= 0 THEN n \div d ELSE -((-n) \div d)
CeilI(n, d) == -((-n) \div d)
\* rounding functions: fragile exactly at integers when the operand is not fx
IntFn(a, which) ==
  IF a.ex THEN
     IF a.d = 1 /\ ~a.fx THEN Unknown
     ELSE Q(CASE which = "floor" -> FloorI(a.n, a.d)
              [] which = "ceil" -> CeilI(a.n, a.d)
              [] OTHER -> TruncI(a.n, a.d), 1)
  ELSE IF a.mag = "huge" THEN a
  ELSE IF a.mag = "tiny" /\ a.sg = "p" THEN (IF which = "ceil" THEN One ELSE Zero)
  ELSE IF a.mag = "tiny" /\ a.sg = "n" THEN (IF which = "floor" THEN Q(-1, 1) ELSE Zero)
  ELSE Unknown

PerfSq(n) == \E k \in 0..174 : k * k = n
Root(n) == CHOOSE k \in 0..174 : k * k = n
SqrtV(a) ==
  IF a.ex THEN
     IF a.n < 0 THEN Err("domain")          \* in-band also as-is ("sqrt of negative value")
     ELSE IF PerfSq(a.n) /\ PerfSq(a.d) THEN Qf(Root(a.n), Root(a.d), a.fx) ELSE Ix("p", "mid")
  ELSE IF a.sg = "n" THEN Err("domain")
  ELSE IF a.mag = "huge" THEN Raise("overflow")
  ELSE Ix(a.sg, "mid")

ExpV(a) ==
  IF a.ex THEN
     IF a.n = 0 THEN One
     ELSE IF a.n > 709 * a.d THEN Raise("overflow")
     ELSE IF a.n < -745 * a.d THEN Zero
     ELSE Ix("p", "mid")
  ELSE IF a.mag = "huge" THEN (IF a.sg = "n" THEN Zero ELSE Raise("overflow"))
  ELSE Ix("p", "mid")

LnV(a) ==
  IF a.ex THEN
     IF a.n <= 0 THEN Raise("domain")
     ELSE IF a.n = a.d THEN Zero
     ELSE Ix(IF a.n > a.d THEN "p" ELSE "n", "mid")
  ELSE IF a.sg = "n" THEN Raise("domain")
  ELSE IF a.sg # "p" THEN Unknown
  ELSE IF a.mag = "tiny" THEN Ix("n", "mid")
  ELSE IF a.mag = "huge" THEN Ix("p", "mid")
  ELSE Unknown

\* sin tan atan (odd, 0 -> 0) / cos (0 -> 1)
TrigV(a, zeroval) ==
  IF a.ex THEN (IF a.n = 0 THEN zeroval ELSE Unknown)
  ELSE IF a.mag = "huge" THEN Raise("overflow")
  ELSE IF a.mag = "tiny" /\ zeroval = Zero THEN a
  ELSE Unknown

ArcV(a, which) ==   \* asin / acos
  IF a.ex THEN
     IF AbsI(a.n) > a.d THEN Raise("domain")
     ELSE IF which = "asin" /\ a.n = 0 THEN Zero
     ELSE IF which = "acos" /\ a.n = a.d THEN Zero
     ELSE Unknown
  ELSE IF a.mag = "huge" THEN Raise("domain")
  ELSE Unknown

UnaryNames == {"-", "+", "not", "ceil", "trunc", "floor", "abs", "sqrt", "exp", "ln",
               "sin", "cos", "tan", "acos", "asin", "atan"}

CanFail == {"sqrt", "exp", "ln", "sin", "cos", "tan", "atan", "asin", "acos",
            "e", "^", "/", "div", "mod", "round", "*", "+", "-"}
Risk(r, risky) == IF r.kind = "val" /\ risky THEN [r EXCEPT !.rk = TRUE] ELSE r

ApplyU0(op, a) ==
  CASE op = "-" -> Neg(a)
    [] op = "+" -> a
    [] op = "not" -> NotV(a)
    [] op = "abs" -> AbsV(a)
    [] op \in {"floor", "ceil", "trunc"} -> IntFn(a, op)
    [] op = "sqrt" -> SqrtV(a)
    [] op = "exp" -> ExpV(a)
    [] op = "ln" -> LnV(a)
    [] op \in {"sin", "tan", "atan"} -> TrigV(a, Zero)
    [] op = "cos" -> TrigV(a, One)
    [] op \in {"asin", "acos"} -> ArcV(a, op)
ApplyU(op, a) == LET r == ApplyU0(op, a) IN Risk(r, a.rk \/ (op \in CanFail \ {"-", "+"} /\ ~r.ex))

(* ---- binary ------------------------------------------------------ *)
MulV(a, b) ==
  IF (IsZero(a) /\ a.fx /\ ~Huge(b)) \/ (IsZero(b) /\ b.fx /\ ~Huge(a)) THEN Zero   \* 0 * x = 0 exactly
  ELSE IF a.ex /\ b.ex THEN SetNr(Qf(a.n * b.n, a.d * b.d, a.fx /\ b.fx),
                                   (Near(a) /\ Pow2Val(b)) \/ (Near(b) /\ Pow2Val(a)))
  ELSE IF IsZero(a) \/ IsZero(b) THEN Zero
  ELSE IF Huge(a) \/ Huge(b) THEN (IF Tiny(a) \/ Tiny(b) THEN Unknown ELSE Raise("overflow"))
  ELSE IF Tiny(a) /\ Tiny(b) THEN Zero
  ELSE Ix(SgMul(a.sg, b.sg), IF Tiny(a) \/ Tiny(b) THEN "tiny" ELSE "mid")

DivV(a, b) ==
  IF IsZero(b) THEN Err("div0")             \* in-band also as-is ("Divide by zero")
  ELSE IF a.ex /\ b.ex THEN
       \* the quotient of two exact doubles is correctly rounded; dividing by +-2^j is exact
       SetNr(IF b.n > 0 THEN Qf(a.n * b.d, a.d * b.n, a.fx /\ b.fx)
                        ELSE Qf(-(a.n * b.d), a.d * (-b.n), a.fx /\ b.fx),
             (a.fx /\ b.fx) \/ (Near(a) /\ Pow2Val(b)))
  ELSE IF IsZero(a) THEN Zero
  ELSE IF b.sg \notin {"p", "n"} THEN Unknown
  ELSE IF Huge(a) THEN (IF Huge(b) THEN Unknown ELSE Raise("overflow"))
  ELSE IF Tiny(b) THEN (IF Tiny(a) THEN Unknown ELSE Raise("overflow"))
  ELSE IF Huge(b) THEN Ix(SgMul(a.sg, b.sg), "tiny")
  ELSE Ix(SgMul(a.sg, b.sg), IF Tiny(a) THEN "tiny" ELSE "mid")

AddV(a, b) ==
  IF a.ex /\ b.ex THEN Qf(a.n * b.d + b.n * a.d, a.d * b.d, a.fx /\ b.fx)
  ELSE IF Huge(a) \/ Huge(b) THEN
       (IF Huge(a) /\ Huge(b) /\ a.sg # b.sg THEN Unknown ELSE Raise("overflow"))
  ELSE IF IsZero(a) THEN b
  ELSE IF IsZero(b) THEN a
  ELSE IF Tiny(a) /\ b.ex THEN Ix(b.sg, "mid")
  ELSE IF Tiny(b) /\ a.ex THEN Ix(a.sg, "mid")
  ELSE Ix(IF a.sg = b.sg THEN a.sg ELSE "u", "mid")
SubV(a, b) == AddV(a, Neg(b))

\* mod: both operands truncated to integers, sign of the dividend (PHP %)
ModV(a, b) ==
  IF "ModFollowsDivisor" \in Dev /\ a.ex /\ b.ex THEN
     \* as-is: Python's %, no truncation, sign of the divisor
     (IF b.n = 0 THEN Err("div0")
      ELSE LET q == IF b.n > 0 THEN FloorI(a.n * b.d, a.d * b.n) ELSE FloorI(-(a.n * b.d), a.d * (-b.n))
           IN SubV(a, MulV(Q(q, 1), b)))
  ELSE
  LET ta == IntFn(a, "trunc")
      tb == IntFn(b, "trunc") IN
  IF tb.ex /\ tb.n = 0 THEN Err("div0")
  ELSE IF Huge(ta) \/ Huge(tb) THEN Raise("overflow")
  ELSE IF ~ta.ex \/ ~tb.ex THEN Unknown
  ELSE LET r == AbsI(ta.n) % AbsI(tb.n) IN Q(IF ta.n < 0 THEN -r ELSE r, 1)

Pow10(k) == CASE k = 0 -> 1 [] k = 1 -> 10 [] k = 2 -> 100 [] k = 3 -> 1000 [] k = 4 -> 10000

\* x e y  =  x * 10^y
EV(a, b) ==
  IF Huge(b) /\ "EIntegerLoopUnbounded" \in Dev /\ (b.sg = "p" \/ IsZero(a))
  THEN Exc("hang")      \* as-is: binary_e_fn multiplies / divides by 10 in a loop |y| times
  ELSE IF b.ex /\ b.n > 300 * b.d THEN Raise("overflow")      \* 10^y alone overflows
  ELSE IF Huge(b) THEN (IF b.sg = "n" THEN Zero ELSE Raise("overflow"))
  ELSE IF ~b.ex THEN            \* exponent known only roughly: may still overflow
       (IF Tiny(b) THEN a ELSE IF Huge(a) THEN Raise("overflow") ELSE Ix(IF a.ex THEN "u" ELSE a.sg, "mid"))
  ELSE IF IsZero(a) THEN Zero
  ELSE IF Huge(a) THEN Raise("overflow")
  ELSE IF ~a.ex THEN Ix(a.sg, "mid")
  ELSE IF b.d = 1 THEN
       LET k == b.n IN
       IF k >= 0 /\ k <= 4 THEN Qf(a.n * Pow10(k), a.d, a.fx)
       ELSE IF k < 0 /\ k >= -4 THEN Qf(a.n, a.d * Pow10(-k), FALSE)
       ELSE IF k < -340 THEN Zero
       ELSE Ix(a.sg, "mid")
  ELSE Ix(a.sg, "mid")

RECURSIVE PowAcc(_, _, _)
PowAcc(acc, a, k) == IF k = 0 \/ ~acc.ex THEN acc ELSE PowAcc(MulV(acc, a), a, k - 1)

\* |base|^k exceeds the range of a double (about 1.8e308): decided on the
\* number of decimal digits of the base, or on base >= 2 and k >= 1024
Digits10(n) == IF n >= 10000 THEN 4 ELSE IF n >= 1000 THEN 3 ELSE IF n >= 100 THEN 2 ELSE IF n >= 10 THEN 1 ELSE 0
PowOverflows(base, k) ==
  LET m == AbsI(base.n) \div base.d IN
  \/ m >= 2 /\ k >= 1024
  \/ Digits10(m) >= 1 /\ k * Digits10(m) >= 309

PowV(a, b) ==
  IF a.ex /\ b.ex THEN
     IF b.d = 1 THEN
        LET k == b.n IN
        IF k = 0 THEN One
        ELSE IF a.n = 0 THEN (IF k > 0 THEN Zero ELSE Raise("domain"))
        ELSE IF a.n = a.d THEN One
        ELSE IF a.n = -a.d THEN (IF k % 2 = 0 THEN One ELSE Q(-1, 1))
        ELSE LET base == IF k > 0 THEN a
                         ELSE IF a.n > 0 THEN Qf(a.d, a.n, a.fx) ELSE Qf(-a.d, -a.n, a.fx)
                 r == PowAcc(One, base, AbsI(k)) IN
             IF r.ex THEN r
             ELSE IF PowOverflows(base, AbsI(k)) THEN Raise("overflow")
             ELSE IF AbsI(k) >= 1100 /\ AbsI(base.n) < base.d THEN Zero
             ELSE Ix(IF a.n > 0 \/ k % 2 = 0 THEN "p" ELSE "n", "mid")
     ELSE \* fractional exponent
        IF a.n < 0 THEN Raise("domain")
        ELSE IF a.n = 0 THEN (IF b.n > 0 THEN Zero ELSE Raise("domain"))
        ELSE IF a.n = a.d THEN One
        ELSE Ix("p", "mid")
  ELSE IF IsZero(b) THEN One
  ELSE IF Huge(a) \/ Huge(b) THEN Raise("overflow")
  ELSE IF Tiny(a) /\ b.sg = "n" THEN Raise("overflow")
  ELSE IF a.sg = "n" /\ ~IsInt(b) THEN Raise("domain")
  ELSE Ix(IF a.sg = "p" THEN "p" ELSE "u", "mid")

\* round half away from zero on n/d
RoundI(n, d) == LET q == (2 * AbsI(n) + d) \div (2 * d) IN IF n < 0 THEN -q ELSE q
IsTie(n, d) == (2 * AbsI(n)) % (2 * d) = d
\* as-is: Python's round(), ties to even
RoundEvenI(n, d) ==
  IF IsTie(n, d)
  THEN LET lo == AbsI(n) \div d
           q == IF lo % 2 = 0 THEN lo ELSE lo + 1 IN IF n < 0 THEN -q ELSE q
  ELSE RoundI(n, d)
RI(n, d) == IF "RoundPythonBuiltin" \in Dev THEN RoundEvenI(n, d) ELSE RoundI(n, d)

RoundV(a, b) ==
  \* as-is: round(x, y) of Python needs an int y; every float y is a TypeError
  IF "RoundPythonBuiltin" \in Dev /\ ((b.ex /\ b.d # 1) \/ (~b.ex /\ ~Huge(b))) THEN Exc("type")
  ELSE
  LET tb == IntFn(b, "trunc") IN
  IF Huge(tb) THEN Raise("overflow")
  ELSE IF ~tb.ex THEN Unknown
  ELSE IF ~a.ex THEN a
  ELSE LET k == tb.n IN
       IF k >= 0 /\ k <= 4 THEN
          \* a tie is decided when the code holds the written number: an exact double, or (the
          \* repaired code rounds the decimal repr, not the binary expansion) the nearest double
          \* of a short decimal.  The result for k >= 1 is converted back from a decimal: nearest.
          (IF IsTie(a.n * Pow10(k), a.d) /\ ~a.fx /\ (~a.nr \/ "RoundPythonBuiltin" \in Dev) THEN Unknown
           ELSE SetNr(Qf(RI(a.n * Pow10(k), a.d), Pow10(k), a.fx), k >= 1 /\ "RoundPythonBuiltin" \notin Dev))
       ELSE IF k < 0 /\ k >= -4 THEN
          (IF IsTie(a.n, a.d * Pow10(-k)) /\ ~a.fx THEN Unknown
           ELSE Qf(RI(a.n, a.d * Pow10(-k)) * Pow10(-k), 1, TRUE))
       ELSE IF k > 4 THEN (IF 10000 % a.d = 0 THEN a ELSE Ix(a.sg, "mid"))
       ELSE Zero

Rank(a) ==
  IF a.ex THEN (IF a.n > 0 THEN 2 ELSE IF a.n < 0 THEN -2 ELSE 0)
  ELSE IF a.sg = "u" \/ a.sg = "z" THEN 99
  ELSE LET m == CASE a.mag = "tiny" -> 1 [] a.mag = "mid" -> 2 [] OTHER -> 3
       IN IF a.sg = "p" THEN m ELSE -m
Cmp3(a, b) ==
  IF Rank(a) = 99 \/ Rank(b) = 99 THEN "u"
  ELSE IF Rank(a) < Rank(b) THEN "lt"
  ELSE IF Rank(a) > Rank(b) THEN "gt"
  ELSE IF a.ex /\ b.ex THEN
       (IF a.n * b.d < b.n * a.d THEN "lt"
        ELSE IF a.n * b.d > b.n * a.d THEN "gt"
        \* equal rationals: equal doubles when both are exact or both the nearest double
        ELSE IF (a.fx /\ b.fx) \/ (Near(a) /\ Near(b)) THEN "eq" ELSE "u")
  ELSE "u"
CmpV(op, a, b) ==
  LET c == Cmp3(a, b) IN
  IF c = "u" THEN Unknown
  ELSE Bool(CASE op = "=" -> c = "eq"
              [] op \in {"!=", "<>"} -> c # "eq"
              [] op = "<" -> c = "lt"
              [] op = ">" -> c = "gt"
              [] op = "<=" -> c # "gt"
              [] op = ">=" -> c # "lt")

AndV(a, b) == IF Truth(a) = "f" \/ Truth(b) = "f" THEN Zero
              ELSE IF Truth(a) = "t" /\ Truth(b) = "t" THEN One ELSE Unknown
OrV(a, b) == IF Truth(a) = "t" \/ Truth(b) = "t" THEN One
             ELSE IF Truth(a) = "f" /\ Truth(b) = "f" THEN Zero ELSE Unknown

CmpOps == {"=", "!=", "<>", "<", ">", "<=", ">="}
BinaryNames == {"e", "^", "*", "/", "div", "mod", "+", "-", "round", "and", "or"} \cup CmpOps

ApplyB0(op, a, b) ==
  CASE op = "e" -> EV(a, b)
    [] op = "^" -> PowV(a, b)
    [] op = "*" -> MulV(a, b)
    [] op \in {"/", "div"} -> DivV(a, b)
    [] op = "mod" -> ModV(a, b)
    [] op = "+" -> AddV(a, b)
    [] op = "-" -> SubV(a, b)
    [] op = "round" -> RoundV(a, b)
    [] op \in CmpOps -> CmpV(op, a, b)
    [] op = "and" -> AndV(a, b)
    [] op = "or" -> OrV(a, b)
ApplyB(op, a, b) == LET r == ApplyB0(op, a, b) IN Risk(r, a.rk \/ b.rk \/ (op \in CanFail /\ ~r.ex))

(* ------------------------------------------------------------------ *)
(* tokens                                                             *)
(* ------------------------------------------------------------------ *)
\* number literals the configurations may use: text -> <<n, d>>
LitTable ==
  ("0" :> <<0, 1>>) @@ ("1" :> <<1, 1>>) @@ ("2" :> <<2, 1>>) @@ ("3" :> <<3, 1>>) @@
  ("4" :> <<4, 1>>) @@ ("5" :> <<5, 1>>) @@ ("6" :> <<6, 1>>) @@ ("7" :> <<7, 1>>) @@
  ("8" :> <<8, 1>>) @@ ("9" :> <<9, 1>>) @@ ("10" :> <<10, 1>>) @@ ("12" :> <<12, 1>>) @@
  ("0.5" :> <<1, 2>>) @@ ("1.5" :> <<3, 2>>) @@ ("2.5" :> <<5, 2>>) @@ ("3.5" :> <<7, 2>>) @@
  (".5" :> <<1, 2>>) @@ ("2." :> <<2, 1>>) @@ ("0.25" :> <<1, 4>>) @@ ("0.75" :> <<3, 4>>) @@
  ("1.25" :> <<5, 4>>) @@ ("400" :> <<400, 1>>) @@ ("5000" :> <<5000, 1>>)
\* decimal numerals for the `round` universe (MC_Expr family "ties"): ties at 1, 2, 3
\* digits that have no exact binary representation (their double lies below or above
\* the tie), ties that are exact in binary, near-ties, integers for negative digit
\* counts, and the numerals their roundings are compared with.  (Not part of the
\* tokeniser vocabulary CharsOf: lexically they are digits "." digits like "0.25".)
TieLitTable ==
  ("0.15" :> <<3, 20>>) @@ ("0.35" :> <<7, 20>>) @@ ("0.45" :> <<9, 20>>) @@ ("1.45" :> <<29, 20>>) @@
  ("2.55" :> <<51, 20>>) @@ ("0.005" :> <<1, 200>>) @@ ("0.075" :> <<3, 40>>) @@ ("0.285" :> <<57, 200>>) @@
  ("0.995" :> <<199, 200>>) @@ ("1.005" :> <<201, 200>>) @@ ("2.675" :> <<107, 40>>) @@ ("1.445" :> <<289, 200>>) @@
  ("0.0015" :> <<3, 2000>>) @@ ("0.1235" :> <<247, 2000>>) @@ ("1.0005" :> <<2001, 2000>>) @@
  ("0.125" :> <<1, 8>>) @@ ("0.375" :> <<3, 8>>) @@ ("0.0625" :> <<1, 16>>) @@
  ("2.674" :> <<1337, 500>>) @@ ("2.676" :> <<669, 250>>) @@ ("1.0049" :> <<10049, 10000>>) @@
  ("15" :> <<15, 1>>) @@ ("25" :> <<25, 1>>) @@ ("250" :> <<250, 1>>) @@ ("40" :> <<40, 1>>) @@
  ("100" :> <<100, 1>>) @@ ("200" :> <<200, 1>>) @@ ("57" :> <<57, 1>>) @@ ("107" :> <<107, 1>>) @@ ("201" :> <<201, 1>>) @@
  ("0.29" :> <<29, 100>>) @@ ("0.28" :> <<7, 25>>) @@ ("1.01" :> <<101, 100>>) @@ ("2.68" :> <<67, 25>>) @@
  ("2.67" :> <<267, 100>>) @@ ("0.2" :> <<1, 5>>) @@ ("0.1" :> <<1, 10>>) @@ ("2.7" :> <<27, 10>>)
\* numeral SPELLINGS (MC_Expr family "spell"): one value written in several ways -- leading
\* zeros, a fraction of zeros, a bare trailing / leading point.  A numeral is the sequence of
\* its characters; its value is NOT written down here but computed from the characters by
\* positional notation (NumeralValue), so the table cannot disagree with the spelling.
SpellChars ==
  ("00" :> <<"0", "0">>) @@ ("000" :> <<"0", "0", "0">>) @@ ("0.0" :> <<"0", ".", "0">>) @@ ("0." :> <<"0", ".">>) @@
  (".0" :> <<".", "0">>) @@ ("00.00" :> <<"0", "0", ".", "0", "0">>) @@
  ("01" :> <<"0", "1">>) @@ ("001" :> <<"0", "0", "1">>) @@ ("0001" :> <<"0", "0", "0", "1">>) @@
  ("1.0" :> <<"1", ".", "0">>) @@ ("1.00" :> <<"1", ".", "0", "0">>) @@ ("01.0" :> <<"0", "1", ".", "0">>) @@
  ("1." :> <<"1", ".">>) @@ ("01." :> <<"0", "1", ".">>) @@ ("001.000" :> <<"0", "0", "1", ".", "0", "0", "0">>) @@
  ("02" :> <<"0", "2">>) @@ ("002" :> <<"0", "0", "2">>) @@ ("2.0" :> <<"2", ".", "0">>) @@ ("02.00" :> <<"0", "2", ".", "0", "0">>) @@
  ("010" :> <<"0", "1", "0">>) @@ ("0010" :> <<"0", "0", "1", "0">>) @@ ("10.0" :> <<"1", "0", ".", "0">>) @@ ("10." :> <<"1", "0", ".">>) @@
  ("11" :> <<"1", "1">>) @@ ("011" :> <<"0", "1", "1">>) @@ ("11.0" :> <<"1", "1", ".", "0">>) @@
  ("21" :> <<"2", "1">>) @@ ("021" :> <<"0", "2", "1">>) @@ ("101" :> <<"1", "0", "1">>) @@ ("0101" :> <<"0", "1", "0", "1">>) @@
  ("0100" :> <<"0", "1", "0", "0">>) @@ ("100.0" :> <<"1", "0", "0", ".", "0">>) @@
  ("01.5" :> <<"0", "1", ".", "5">>) @@ ("1.50" :> <<"1", ".", "5", "0">>) @@ ("001.500" :> <<"0", "0", "1", ".", "5", "0", "0">>) @@
  ("00.5" :> <<"0", "0", ".", "5">>) @@ ("0.50" :> <<"0", ".", "5", "0">>) @@ (".50" :> <<".", "5", "0">>) @@
  ("0.10" :> <<"0", ".", "1", "0">>) @@ ("00.1" :> <<"0", "0", ".", "1">>) @@ (".1" :> <<".", "1">>) @@
  ("1.10" :> <<"1", ".", "1", "0">>) @@ ("1.1" :> <<"1", ".", "1">>) @@ ("01.1" :> <<"0", "1", ".", "1">>) @@
  ("0.1" :> <<"0", ".", "1">>) @@ ("100" :> <<"1", "0", "0">>)      \* (also in TieLitTable, with the same value)
DigitOfChar == ("0" :> 0) @@ ("1" :> 1) @@ ("2" :> 2) @@ ("3" :> 3) @@ ("4" :> 4) @@ ("5" :> 5) @@ ("6" :> 6) @@
               ("7" :> 7) @@ ("8" :> 8) @@ ("9" :> 9)
RECURSIVE DigitsInt(_, _)
DigitsInt(cs, acc) == IF Len(cs) = 0 THEN acc ELSE DigitsInt(Tail(cs), 10 * acc + DigitOfChar[cs[1]])
PointAt(cs) == IF \E i \in 1..Len(cs) : cs[i] = "." THEN CHOOSE i \in 1..Len(cs) : cs[i] = "." ELSE Len(cs) + 1
\* <<n, d>> in lowest terms of the numeral  digits [ "." digits-or-none ]  |  "." digits  (at most 4 fraction digits)
NumeralValue(cs) ==
  LET p == PointAt(cs)
      ip == SubSeq(cs, 1, p - 1)
      fp == SubSeq(cs, p + 1, Len(cs))
      n == DigitsInt(ip \o fp, 0)
      d == CASE Len(fp) = 0 -> 1 [] Len(fp) = 1 -> 10 [] Len(fp) = 2 -> 100 [] Len(fp) = 3 -> 1000 [] Len(fp) = 4 -> 10000
      g == IF n = 0 THEN d ELSE Gcd(n, d)
  IN <<n \div g, d \div g>>
SpellLitTable == [t \in DOMAIN SpellChars |-> NumeralValue(SpellChars[t])]
\* how a numeral is spelled (the classes the harness reports): canonical, or a subset of the others
NumeralSpelling(cs) ==
  LET p == PointAt(cs) IN
  (IF p > 2 /\ cs[1] = "0" THEN {"leading-zeros"} ELSE {})
  \cup (IF p = 1 THEN {"no-integer-part"} ELSE {})
  \cup (IF p = Len(cs) THEN {"bare-trailing-point"} ELSE {})
  \cup (IF p < Len(cs) /\ cs[Len(cs)] = "0" THEN {"trailing-fraction-zeros"} ELSE {})
AllLits == LitTable @@ TieLitTable @@ SpellLitTable
IsLit(t) == t \in DOMAIN AllLits
\* "HUGE": a 400-digit integer literal; "TINY": 0.000...01 with 320 zeros
NumVal(t) == CASE t = "HUGE" -> Ix("p", "huge")
               [] t = "TINY" -> Ix("p", "tiny")
               \* float(tok) is the double nearest to the numeral as written
               [] OTHER -> SetNr(Q(AllLits[t][1], AllLits[t][2]), TRUE)
IsNum(t) == IsLit(t) \/ t \in {"HUGE", "TINY"}
End == "<end>"
TokAt(ts, i) == IF i <= Len(ts) THEN ts[i] ELSE End

(* ------------------------------------------------------------------ *)
(* the tokeniser of expr_fn on characters:                            *)
(*   lower(text), then one of: digits [. digits-or-none] | . digits |  *)
(*   letters | != | <> | >= | <= | any other non-blank character      *)
(* Lexemes are sequences of one-character strings.                    *)
(* ------------------------------------------------------------------ *)
CharsOf ==
  ("0" :> <<"0">>)
  @@ ("1" :> <<"1">>)
  @@ ("2" :> <<"2">>)
  @@ ("3" :> <<"3">>)
  @@ ("4" :> <<"4">>)
  @@ ("5" :> <<"5">>)
  @@ ("6" :> <<"6">>)
  @@ ("7" :> <<"7">>)
  @@ ("8" :> <<"8">>)
  @@ ("9" :> <<"9">>)
  @@ ("10" :> <<"1", "0">>)
  @@ ("12" :> <<"1", "2">>)
  @@ ("0.5" :> <<"0", ".", "5">>)
  @@ ("1.5" :> <<"1", ".", "5">>)
  @@ ("2.5" :> <<"2", ".", "5">>)
  @@ ("3.5" :> <<"3", ".", "5">>)
  @@ (".5" :> <<".", "5">>)
  @@ ("2." :> <<"2", ".">>)
  @@ ("0.25" :> <<"0", ".", "2", "5">>)
  @@ ("0.75" :> <<"0", ".", "7", "5">>)
  @@ ("1.25" :> <<"1", ".", "2", "5">>)
  @@ ("400" :> <<"4", "0", "0">>)
  @@ ("5000" :> <<"5", "0", "0", "0">>)
  @@ ("e" :> <<"e">>)
  @@ ("pi" :> <<"p", "i">>)
  @@ ("not" :> <<"n", "o", "t">>)
  @@ ("ceil" :> <<"c", "e", "i", "l">>)
  @@ ("trunc" :> <<"t", "r", "u", "n", "c">>)
  @@ ("floor" :> <<"f", "l", "o", "o", "r">>)
  @@ ("abs" :> <<"a", "b", "s">>)
  @@ ("sqrt" :> <<"s", "q", "r", "t">>)
  @@ ("exp" :> <<"e", "x", "p">>)
  @@ ("ln" :> <<"l", "n">>)
  @@ ("sin" :> <<"s", "i", "n">>)
  @@ ("cos" :> <<"c", "o", "s">>)
  @@ ("tan" :> <<"t", "a", "n">>)
  @@ ("acos" :> <<"a", "c", "o", "s">>)
  @@ ("asin" :> <<"a", "s", "i", "n">>)
  @@ ("atan" :> <<"a", "t", "a", "n">>)
  @@ ("div" :> <<"d", "i", "v">>)
  @@ ("mod" :> <<"m", "o", "d">>)
  @@ ("round" :> <<"r", "o", "u", "n", "d">>)
  @@ ("and" :> <<"a", "n", "d">>)
  @@ ("or" :> <<"o", "r">>)
  @@ ("foo" :> <<"f", "o", "o">>)
  @@ ("inf" :> <<"i", "n", "f">>)
  @@ ("nan" :> <<"n", "a", "n">>)
  @@ ("+" :> <<"+">>)
  @@ ("-" :> <<"-">>)
  @@ ("*" :> <<"*">>)
  @@ ("/" :> <<"/">>)
  @@ ("^" :> <<"^">>)
  @@ ("=" :> <<"=">>)
  @@ ("!=" :> <<"!", "=">>)
  @@ ("<>" :> <<"<", ">">>)
  @@ ("<" :> <<"<">>)
  @@ (">" :> <<">">>)
  @@ ("<=" :> <<"<", "=">>)
  @@ (">=" :> <<">", "=">>)
  @@ ("(" :> <<"(">>)
  @@ (")" :> <<")">>)
  @@ ("." :> <<".">>)
  @@ ("#" :> <<"#">>)
  @@ ("!" :> <<"!">>)
Vocabulary == DOMAIN CharsOf
LowerChar == ("A" :> "a") @@ ("B" :> "b") @@ ("C" :> "c") @@ ("D" :> "d") @@ ("E" :> "e") @@ ("F" :> "f")
          @@ ("G" :> "g") @@ ("H" :> "h") @@ ("I" :> "i") @@ ("J" :> "j") @@ ("K" :> "k") @@ ("L" :> "l")
          @@ ("M" :> "m") @@ ("N" :> "n") @@ ("O" :> "o") @@ ("P" :> "p") @@ ("Q" :> "q") @@ ("R" :> "r")
          @@ ("S" :> "s") @@ ("T" :> "t") @@ ("U" :> "u") @@ ("V" :> "v") @@ ("W" :> "w") @@ ("X" :> "x")
          @@ ("Y" :> "y") @@ ("Z" :> "z")
UpperChar == [c \in {LowerChar[k] : k \in DOMAIN LowerChar} |-> CHOOSE k \in DOMAIN LowerChar : LowerChar[k] = c]
ToLower(cs) == [i \in 1..Len(cs) |-> IF cs[i] \in DOMAIN LowerChar THEN LowerChar[cs[i]] ELSE cs[i]]
ToUpper(cs) == [i \in 1..Len(cs) |-> IF cs[i] \in DOMAIN UpperChar THEN UpperChar[cs[i]] ELSE cs[i]]
IsDigitC(c) == c \in {"0", "1", "2", "3", "4", "5", "6", "7", "8", "9"}
IsLetterC(c) == c \in {LowerChar[k] : k \in DOMAIN LowerChar}
IsSpaceC(c) == c \in {" ", "\n", "\t"}

\* index of the last character of the run of digits / letters starting at i (i - 1 if none)
RECURSIVE RunEnd(_, _, _)
RunEnd(cs, i, letters) ==
  IF i <= Len(cs) /\ (IF letters THEN IsLetterC(cs[i]) ELSE IsDigitC(cs[i])) THEN RunEnd(cs, i + 1, letters) ELSE i - 1

RECURSIVE LexFrom(_, _)
LexFrom(cs, i) ==
  IF i > Len(cs) THEN <<>>
  ELSE LET c == cs[i]
           nxt == IF i < Len(cs) THEN cs[i + 1] ELSE " "
           \* end index of the lexeme starting at i
           j == IF IsDigitC(c) THEN
                   (LET d == RunEnd(cs, i, FALSE) IN
                    IF d < Len(cs) /\ cs[d + 1] = "." THEN RunEnd(cs, d + 2, FALSE) ELSE d)
                ELSE IF c = "." /\ IsDigitC(nxt) THEN RunEnd(cs, i + 1, FALSE)
                ELSE IF IsLetterC(c) THEN RunEnd(cs, i, TRUE)
                ELSE IF (c = "!" /\ nxt = "=") \/ (c = "<" /\ nxt \in {">", "="}) \/ (c = ">" /\ nxt = "=") THEN i + 1
                ELSE i
       IN IF IsSpaceC(c) THEN LexFrom(cs, i + 1)
          ELSE <<SubSeq(cs, i, j)>> \o LexFrom(cs, j + 1)
Tokenize(cs) == LexFrom(ToLower(cs), 1)

\* two lexemes written without a blank between them would lex differently
\* (the rule the harness uses when it renders token lists "tight")
NeedSpace(a, b) ==
  LET ca == CharsOf[a]
      la == ca[Len(ca)]
      fb == CharsOf[b][1] IN
  \/ IsLetterC(la) /\ IsLetterC(fb)
  \/ IsDigitC(fb) /\ (IsDigitC(la) \/ la = ".")
  \/ fb = "." /\ \A i \in 1..Len(ca) : IsDigitC(ca[i])
  \/ (a = "!" /\ fb = "=") \/ (a = "<" /\ fb \in {">", "="}) \/ (a = ">" /\ fb = "=")

(* ------------------------------------------------------------------ *)
(* expression trees: <<"lit", tok>>, <<"un", op, a>>, <<"bin", op, a, b>> *)
(* ------------------------------------------------------------------ *)
RECURSIVE Fold(_)
Fold(a) ==
  CASE a[1] = "lit" -> (IF a[2] \in {"e", "pi"} THEN Ix("p", "mid") ELSE NumVal(a[2]))
    [] a[1] = "un" -> LET x == Fold(a[3]) IN IF x.kind # "val" THEN x ELSE ApplyU(a[2], x)
    [] a[1] = "bin" -> LET x == Fold(a[3]) IN
                       IF x.kind # "val" THEN x
                       ELSE LET y == Fold(a[4]) IN
                            IF y.kind # "val" THEN y ELSE ApplyB(a[2], x, y)

\* documented precedence (highest first): e, unary + -  (10); not and the
\* functions (9); ^ (8); * / div mod (7); + - (6); round (5); comparisons
\* (4); and (3); or (2).
PrecB(op) == CASE op = "e" -> 10 [] op = "^" -> 8 [] op \in {"*", "/", "div", "mod"} -> 7
               [] op \in {"+", "-"} -> 6 [] op = "round" -> 5 [] op \in CmpOps -> 4
               [] op = "and" -> 3 [] op = "or" -> 2
PrecU(op) == IF op \in {"-", "+"} THEN 10 ELSE 9

Paren(ts) == <<"(">> \o ts \o <<")">>
\* lowest precedence of a chain of prefix operators (what a following binary
\* operator of higher precedence would capture)
RECURSIVE LowU(_)
LowU(a) == IF a[1] # "un" THEN 99
           ELSE LET r == LowU(a[3]) p == PrecU(a[2]) IN IF r < p THEN r ELSE p

\* minimal parenthesisation; tail = nothing follows this sub-expression
\* before the end / a closing parenthesis
RECURSIVE RMin(_, _)
RMin(a, tail) ==
  CASE a[1] = "lit" -> <<a[2]>>
    [] a[1] = "un" ->
         LET x == a[3]
             need == x[1] = "bin" /\ PrecB(x[2]) <= PrecU(a[2])
         IN <<a[2]>> \o (IF need THEN Paren(RMin(x, TRUE)) ELSE RMin(x, tail))
    [] a[1] = "bin" ->
         LET p == PrecB(a[2])
             l == a[3]
             r == a[4]
             needL == (l[1] = "bin" /\ PrecB(l[2]) < p) \/ (l[1] = "un" /\ LowU(l) < p)
             needR == (r[1] = "bin" /\ PrecB(r[2]) <= p) \/ (r[1] = "un" /\ LowU(r) < p /\ ~tail)
         IN (IF needL THEN Paren(RMin(l, TRUE)) ELSE RMin(l, FALSE))
            \o <<a[2]>> \o
            (IF needR THEN Paren(RMin(r, TRUE)) ELSE RMin(r, tail))
RenderMin(a) == RMin(a, TRUE)

RECURSIVE RenderFull(_)
RenderFull(a) ==
  CASE a[1] = "lit" -> <<a[2]>>
    [] a[1] = "un" -> <<a[2]>> \o Paren(RenderFull(a[3]))
    [] a[1] = "bin" -> Paren(RenderFull(a[3])) \o <<a[2]>> \o Paren(RenderFull(a[4]))

(* ------------------------------------------------------------------ *)
(* reference for token sequences: MediaWiki's operator-precedence      *)
(* evaluation over the documented table, all binary operators          *)
(* left-associative                                                    *)
(* ------------------------------------------------------------------ *)
WordUnary == UnaryNames \ {"-", "+"}
MWPrec(tag) == CASE tag \in {"u-", "u+"} -> 10
                 [] tag = "(" -> -1
                 [] tag \in WordUnary -> 9
                 [] OTHER -> PrecB(tag)
MWUnary(tag) == tag \in {"u-", "u+"} \cup WordUnary
MWOk == Zero
MWSt(opnd, ops, ex, err) == [opnd |-> opnd, ops |-> ops, ex |-> ex, err |-> err]
MWFail(st, e) == [st EXCEPT !.err = e]
Front(s) == SubSeq(s, 1, Len(s) - 1)
Last(s) == s[Len(s)]

\* pop the top operator and apply it
MWApply(st) ==
  LET top == Last(st.ops)
      n == Len(st.opnd) IN
  IF MWUnary(top) THEN
     IF n < 1 THEN MWFail(st, Err("syntax"))
     ELSE LET v == ApplyU(IF top = "u-" THEN "-" ELSE IF top = "u+" THEN "+" ELSE top, st.opnd[n]) IN
          IF v.kind # "val" THEN MWFail(st, v)
          ELSE MWSt(Append(Front(st.opnd), v), Front(st.ops), st.ex, st.err)
  ELSE
     IF n < 2 THEN MWFail(st, Err("syntax"))
     ELSE LET v == ApplyB(top, st.opnd[n - 1], st.opnd[n]) IN
          IF v.kind # "val" THEN MWFail(st, v)
          ELSE MWSt(Append(SubSeq(st.opnd, 1, n - 2), v), Front(st.ops), st.ex, st.err)

RECURSIVE MWPopWhile(_, _)
MWPopWhile(st, p) ==
  IF st.err.kind # "val" \/ Len(st.ops) = 0 THEN st
  ELSE IF Last(st.ops) # "(" /\ MWPrec(Last(st.ops)) >= p THEN MWPopWhile(MWApply(st), p)
  ELSE st

MWStep(st, t) ==
  IF st.err.kind # "val" THEN st
  ELSE IF IsNum(t) \/ t \in {"pi", "."} \/ (t = "e" /\ st.ex) THEN
       (IF ~st.ex THEN MWFail(st, Err("syntax"))
        ELSE MWSt(Append(st.opnd, IF IsNum(t) THEN NumVal(t) ELSE IF t = "." THEN Zero ELSE Ix("p", "mid")),
                  st.ops, FALSE, st.err))
  ELSE IF t \in {"+", "-"} /\ st.ex THEN MWSt(st.opnd, Append(st.ops, IF t = "-" THEN "u-" ELSE "u+"), TRUE, st.err)
  ELSE IF t \in WordUnary THEN
       (IF ~st.ex THEN MWFail(st, Err("syntax")) ELSE MWSt(st.opnd, Append(st.ops, t), TRUE, st.err))
  ELSE IF t = "(" THEN
       (IF ~st.ex THEN MWFail(st, Err("syntax")) ELSE MWSt(st.opnd, Append(st.ops, "("), TRUE, st.err))
  ELSE IF t = ")" THEN
       LET s2 == MWPopWhile(st, 0) IN
       IF s2.err.kind # "val" THEN s2
       ELSE IF Len(s2.ops) = 0 \/ st.ex THEN MWFail(s2, Err("syntax"))
       ELSE MWSt(s2.opnd, Front(s2.ops), FALSE, s2.err)
  ELSE IF t \in BinaryNames THEN
       (IF st.ex THEN MWFail(st, Err("syntax"))
        ELSE LET s2 == MWPopWhile(st, PrecB(t)) IN
             IF s2.err.kind # "val" THEN s2
             ELSE MWSt(s2.opnd, Append(s2.ops, t), TRUE, s2.err))
  ELSE MWFail(st, Err("syntax"))         \* unrecognised word / punctuation

RECURSIVE MWRun(_, _, _)
MWRun(st, ts, i) == IF i > Len(ts) THEN st ELSE MWRun(MWStep(st, ts[i]), ts, i + 1)

MWOutcome(ts) ==
  LET s1 == MWRun(MWSt(<<>>, <<>>, TRUE, MWOk), ts, 1) IN
  IF s1.err.kind # "val" THEN s1.err
  ELSE IF s1.ex THEN Err("syntax")                       \* missing operand / empty
  ELSE LET s2 == MWPopWhile(s1, 0) IN
       IF s2.err.kind # "val" THEN s2.err
       ELSE IF Len(s2.ops) # 0 \/ Len(s2.opnd) # 1 THEN Err("syntax")   \* unclosed bracket
       ELSE s2.opnd[1]

(* ------------------------------------------------------------------ *)
(* the code: recursive-descent ladder of expr_fn                       *)
(*   parse_expr = or > and > cmp > round > add > mul > pow >           *)
(*   parse_unary_fn > binary e > parse_unary > parse_atom              *)
(* Every parse operator returns [r |-> outcome, i |-> index of the     *)
(* next unread token].                                                 *)
(* ------------------------------------------------------------------ *)
R(r, i) == [r |-> r, i |-> i]
LevelOps(l) == CASE l = "e" -> {"e"} [] l = "pow" -> {"^"} [] l = "mul" -> {"*", "/", "div", "mod"}
                 [] l = "add" -> {"+", "-"} [] l = "round" -> {"round"} [] l = "cmp" -> CmpOps
                 [] l = "and" -> {"and"} [] l = "or" -> {"or"}

RECURSIVE PAtom(_, _), PUnary(_, _), PUnaryFn(_, _), PLevel(_, _, _), PLoop(_, _, _, _), PSub(_, _, _)

\* the operand parser of a level of the generic_binary tower
PSub(ts, i, l) ==
  CASE l = "or" -> PLevel(ts, i, "and")
    [] l = "and" -> PLevel(ts, i, "cmp")
    [] l = "cmp" -> PLevel(ts, i, "round")
    [] l = "round" -> PLevel(ts, i, "add")
    [] l = "add" -> PLevel(ts, i, "mul")
    [] l = "mul" -> PLevel(ts, i, "pow")
    [] l = "pow" -> PUnaryFn(ts, i)
    [] l = "e" -> PUnary(ts, i)

\* generic_binary
PLevel(ts, i, l) ==
  LET a == PSub(ts, i, l) IN
  IF a.r.kind # "val" THEN a ELSE PLoop(ts, a.r, a.i, l)

PLoop(ts, acc, j, l) ==
  LET t == TokAt(ts, j) IN
  IF t \notin LevelOps(l) THEN R(acc, j)                  \* None or unget_token
  ELSE LET b == PSub(ts, j + 1, l) IN
       IF b.r.kind # "val" THEN b
       ELSE LET v == ApplyB(t, acc, b.r) IN
            IF v.kind = "val" THEN PLoop(ts, v, b.i, l)
            ELSE IF v.kind = "err" /\ "NoExceptionBarrier" \in Dev /\ TokAt(ts, b.i) \in LevelOps(l)
                 \* as-is: the error *string* is fed back as the left operand of
                 \* the next operator of the level (TypeError, or "..."*2)
                 THEN R(Exc("type"), b.i)
                 ELSE R(v, b.i)

\* parse_unary_fn ("-" and "+" are entries of unary_fns too)
PUnaryFn(ts, i) ==
  LET t == TokAt(ts, i) IN
  IF t \in UnaryNames THEN
     LET a == PUnaryFn(ts, i + 1) IN
     IF a.r.kind # "val" THEN a ELSE R(ApplyU(t, a.r), a.i)
  ELSE PLevel(ts, i, "e")

\* parse_unary: only reached for the right operand of binary "e"
PUnary(ts, i) ==
  LET t == TokAt(ts, i) IN
  IF t = "-" THEN LET a == PUnary(ts, i + 1) IN IF a.r.kind # "val" THEN a ELSE R(Neg(a.r), a.i)
  ELSE IF t = "+" THEN (IF "UnaryAfterE" \in Dev THEN PAtom(ts, i + 1) ELSE PUnary(ts, i + 1))
  ELSE IF t \in UnaryNames /\ "UnaryAfterE" \notin Dev THEN PUnaryFn(ts, i)
  ELSE PAtom(ts, i)

PAtom(ts, i) ==
  LET t == TokAt(ts, i) IN
  IF t = End THEN R(Err("syntax"), i)
  ELSE IF t = "(" THEN
       LET a == PLevel(ts, i + 1, "or") IN
       IF a.r.kind = "exc" THEN a
       ELSE IF TokAt(ts, a.i) # ")" THEN R(Err("syntax"), a.i)
       ELSE R(a.r, a.i + 1)
  ELSE IF IsNum(t) THEN R(NumVal(t), i + 1)
  ELSE IF t \in {"e", "pi"} THEN R(Ix("p", "mid"), i + 1)
  ELSE IF t = "." THEN R(Zero, i + 1)
  ELSE IF t \in {"inf", "nan"} /\ "NoExceptionBarrier" \in Dev
       \* as-is: float("inf") / float("nan") succeed; the final
       \* math.floor(ret) raises OverflowError / ValueError
       THEN R(Exc("overflow"), i + 1)
  ELSE R(Err("syntax"), i)

ExprOutcome(ts) ==
  LET a == PLevel(ts, 1, "or") IN
  IF a.r.kind = "val" /\ a.i <= Len(ts) /\ "TrailingTokensIgnored" \notin Dev
  THEN Err("syntax")     \* ideal: every token must be consumed
  ELSE a.r

(* ------------------------------------------------------------------ *)
(* projections                                                        *)
(* ------------------------------------------------------------------ *)
\* two outcomes agree on what the property constrains: same class, and the
\* same number when both are exact
Agree(x, y) ==
  /\ x.kind = y.kind
  /\ (x.kind = "val" /\ x.ex /\ y.ex) => (x.n = y.n /\ x.d = y.d)
  /\ (x.kind = "val") => (x.ex = y.ex)
Proj(x) == [kind |-> x.kind, what |-> x.what, ex |-> x.ex, n |-> x.n, d |-> x.d, rk |-> x.rk]
=============================================================================
