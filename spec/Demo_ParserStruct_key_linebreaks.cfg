SPECIFICATION Spec
CONSTANTS
  Universe = "PAIR"
  Part = 0
  Parts = 1
  Known = {}
  Tags <- TagsFromFile
INVARIANT DemoKeyLineBreaks
CHECK_DEADLOCK FALSE
