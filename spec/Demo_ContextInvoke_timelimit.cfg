SPECIFICATION Spec
CONSTANTS
  Tier = "quick"
INVARIANT DemoTimeLimit
CHECK_DEADLOCK FALSE
