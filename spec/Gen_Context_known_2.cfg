SPECIFICATION Spec
CONSTANTS
  Dev <- KnownC09
  MaxLen = 2
  KindSet <- QuickKinds
INVARIANT GenInv
CHECK_DEADLOCK FALSE
