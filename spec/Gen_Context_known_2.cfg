SPECIFICATION Spec
CONSTANTS
  Dev <- KnownC09
  MaxLen = 2
  KindSet <- QuickKinds
  Shape = "genquick"
INVARIANT GenInv
CHECK_DEADLOCK FALSE
