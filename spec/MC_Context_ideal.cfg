SPECIFICATION Spec
CONSTANTS
  Dev <- NoDev
  MaxLen = 4
  KindSet <- BaseKinds
  Shape = "all"
INVARIANT NonInterference
CHECK_DEADLOCK FALSE
