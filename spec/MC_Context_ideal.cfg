SPECIFICATION Spec
CONSTANTS
  Dev <- NoDev
  MaxLen = 4
  KindSet <- AllKinds
INVARIANT NonInterference
CHECK_DEADLOCK FALSE
