SPECIFICATION Spec
CONSTANTS
  Dev <- DevIdeal
  Shapes <- FileShapes
  MaxDigits = 12
  Fracs <- FracsAll
INVARIANT Emit
CHECK_DEADLOCK FALSE
