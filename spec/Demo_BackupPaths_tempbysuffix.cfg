SPECIFICATION PSpec
CONSTANTS
  ShapeIds <- IdsTmp
  PDev <- PDevTempBySuffix
INVARIANT NamesDistinct
CHECK_DEADLOCK FALSE
