----------------------------- MODULE ParserRef -----------------------------
(* Declarative nesting model of property C02.                                 *)
(*                                                                            *)
(* A document is a sequence of lines                                          *)
(*   [t |-> "H", l |-> 1..6]      heading of level l                          *)
(*   [t |-> "L", p |-> marker]    list line, marker = sequence over {"*","#"} *)
(*   [t |-> "R"]  horizontal rule   [t |-> "P"]  paragraph   [t |-> "B"] blank *)
(*   [t |-> "I"]  indented line (a blank, then the word): a preformatted     *)
(*                block -- the one balanced filler block that is still OPEN  *)
(*                when the next line arrives (it ends at the first line that *)
(*                is not indented, whatever that line is)                    *)
(*   [t |-> "O", c |-> ..]  a paragraph line that opens a construct and does  *)
(*                not close it (UNBALANCED: outside the property; RefRelations*)
(*                treats it like a paragraph, the universes that contain it   *)
(*                take their expectation from the machine -- DRIFT only)      *)
(*   round 8 -- constructs that SPAN LINES: a list / paragraph / indented     *)
(*   line may carry the field  o |-> kind : after its word it OPENS a construct*)
(*   (<pre>, <div>, <span>, <ref>) that is closed on a LATER line:             *)
(*   [t |-> "X"]  a continuation line (a word) inside the open construct       *)
(*   [t |-> "C", c |-> kind, b |-> BOOLEAN]  the line that holds the closer    *)
(*                (b: the closer stands first, else the word stands first)     *)
(*   Opener, continuation and closer lines together are ONE balanced filler    *)
(*   that happens to contain newlines.  X and C lines are paragraph-like       *)
(*   (their word is content of the section that is open).  Whether such a      *)
(*   filler CONTINUES the list item it was opened in (it is part of the item's *)
(*   logical line: join) or ENDS it like a paragraph line (break) is something *)
(*   the statement does not say: RefAccept(doc) holds both readings; the lines *)
(*   after the closer are ordinary lines in both.                              *)
(* Line i carries the unique marker word W(i).                                *)
(*                                                                            *)
(* RefRelations(doc) states, without any stack, what the property demands:    *)
(*   own[i]   the node that holds the marker word of line i                   *)
(*            (H: a LEVELl node, word in its title; L: a LIST_ITEM with the   *)
(*            line's marker, word directly among its children)                *)
(*   sec[i]   H: parent section = nearest preceding heading of strictly lower *)
(*            level that is still open; L, P: the section that contains the   *)
(*            line = nearest preceding heading still open; 0 = none (root)    *)
(*   item[i]  L: the most recent open item whose marker is a proper prefix    *)
(*   lst[i]   L: first line of the list this item belongs to (equal markers   *)
(*            continue the list, anything else starts a new one)              *)
(*   counts   exactly one section node per heading, one item per list line    *)
(*   par[i]   the kind of the PARENT NODE of the structure line i creates:    *)
(*            H: of its section node -- the node of the parent section, or    *)
(*            ROOT when there is none (sections are nested in sections and in *)
(*            nothing else: every block that was still open when the heading  *)
(*            line arrived has ended);  L: of the list the item belongs to -- *)
(*            the parent item, else the containing section / ROOT;  I: of the *)
(*            preformatted block -- the containing section / ROOT;  R: of the *)
(*            rule node -- the section that is still open after the rule /    *)
(*            ROOT (rule nodes carry no word: the k-th rule node of the tree  *)
(*            in document order belongs to the k-th rule line)                *)
EXTENDS Naturals, Sequences, FiniteSets

IsH(doc, i) == doc[i].t = "H"
IsL(doc, i) == doc[i].t = "L"
LevelKind(l) ==
  CASE l = 1 -> "LEVEL1" [] l = 2 -> "LEVEL2" [] l = 3 -> "LEVEL3"
    [] l = 4 -> "LEVEL4" [] l = 5 -> "LEVEL5" [] l = 6 -> "LEVEL6"

Max(S) == CHOOSE x \in S : \A y \in S : y <= x
Min(S) == CHOOSE x \in S : \A y \in S : x <= y
MaxOr0(S) == IF S = {} THEN 0 ELSE Max(S)

(* ---- sections ---- *)
\* heading j (< k) is still open just before line k: no later heading of the
\* same or a lower level, and -- for sections deeper than level 2 -- no rule
SectionOpen(doc, j, k) ==
  /\ IsH(doc, j) /\ j < k
  /\ \A m \in (j + 1)..(k - 1) :
       /\ ~(IsH(doc, m) /\ doc[m].l <= doc[j].l)
       /\ ~(doc[m].t = "R" /\ doc[j].l > 2)
SecParent(doc, i) ==   \* for a heading line
  MaxOr0({ j \in 1..(i - 1) : SectionOpen(doc, j, i) /\ doc[j].l < doc[i].l })
Container(doc, k) ==   \* for any other line
  MaxOr0({ j \in 1..(k - 1) : SectionOpen(doc, j, k) })

(* ---- lists ---- *)
ProperPrefix(p, q) == Len(p) < Len(q) /\ \A n \in 1..Len(p) : p[n] = q[n]
\* (round 8) continuation / closer lines of a construct that spans lines; the line that opened it
IsCont(doc, m) == doc[m].t \in {"X", "C"}
IsOpener(doc, j) == "o" \in DOMAIN doc[j]
OpenerOf(doc, m) == MaxOr0({ j \in 1..(m - 1) : IsOpener(doc, j) })
\* reading `join`: the lines of a spanning construct opened in a list item belong to that item's logical line
Transparent(doc, m, join) ==
  join /\ IsCont(doc, m) /\ OpenerOf(doc, m) # 0 /\ IsL(doc, OpenerOf(doc, m))
\* j and k belong to one run of consecutive list lines
SameRun(doc, j, k, join) == \A m \in j..k : IsL(doc, m) \/ Transparent(doc, m, join)
\* item j (< k) is still open at line k: every line in between is nested in it
ItemOpen(doc, j, k, join) ==
  /\ j < k /\ SameRun(doc, j, k, join)
  /\ \A m \in (j + 1)..(k - 1) : IsL(doc, m) => ProperPrefix(doc[j].p, doc[m].p)
ItemParent(doc, k, join) ==
  MaxOr0({ j \in 1..(k - 1) : IsL(doc, j) /\ ItemOpen(doc, j, k, join) /\ ProperPrefix(doc[j].p, doc[k].p) })
\* the previous item of the same list: same marker, only its own descendants in between
PrevSibling(doc, k, join) ==
  MaxOr0({ j \in 1..(k - 1) : IsL(doc, j) /\ ItemOpen(doc, j, k, join) /\ doc[j].p = doc[k].p })
RECURSIVE ListHead(_, _, _)
ListHead(doc, k, join) == IF PrevSibling(doc, k, join) = 0 THEN k ELSE ListHead(doc, PrevSibling(doc, k, join), join)

NoOwn == [k |-> "-", w |-> "-", m |-> <<>>]
IsI(doc, i) == doc[i].t = "I"
Worded == {"H", "L", "P", "I", "O", "X", "C"}      \* line types that carry a marker word
ParaLike == {"P", "O", "X", "C"}                  \* ... whose word is plain content of the open section
\* the node of section j; 0 = no section: the root
SecKind(doc, j) == IF j = 0 THEN "ROOT" ELSE LevelKind(doc[j].l)
RefRelationsJ(doc, join) ==
  LET n == Len(doc) IN
  [ own  |-> [i \in 1..n |->
                IF IsH(doc, i) THEN [k |-> LevelKind(doc[i].l), w |-> "largs", m |-> <<>>]
                ELSE IF IsL(doc, i) THEN [k |-> "LIST_ITEM", w |-> "children", m |-> doc[i].p]
                ELSE IF IsI(doc, i) THEN [k |-> "PREFORMATTED", w |-> "children", m |-> <<>>]
                ELSE NoOwn],
    sec  |-> [i \in 1..n |->
                IF IsH(doc, i) THEN SecParent(doc, i)
                ELSE IF doc[i].t \in {"L", "I"} \cup ParaLike THEN Container(doc, i) ELSE 0],
    item |-> [i \in 1..n |-> IF IsL(doc, i) THEN ItemParent(doc, i, join) ELSE 0],
    lst  |-> [i \in 1..n |-> IF IsL(doc, i) THEN ListHead(doc, i, join) ELSE 0],
    par  |-> [i \in 1..n |->
                IF IsH(doc, i) THEN SecKind(doc, SecParent(doc, i))
                ELSE IF IsL(doc, i) THEN (IF ItemParent(doc, i, join) # 0 THEN "LIST_ITEM" ELSE SecKind(doc, Container(doc, i)))
                ELSE IF IsI(doc, i) THEN SecKind(doc, Container(doc, i))
                ELSE IF doc[i].t = "R" THEN SecKind(doc, Container(doc, i + 1))
                ELSE "-"],
    nsec |-> Cardinality({ i \in 1..n : IsH(doc, i) }),
    nitem |-> Cardinality({ i \in 1..n : IsL(doc, i) }),
    nlist |-> Cardinality({ i \in 1..n : IsL(doc, i) /\ ListHead(doc, i, join) = i }) ]
RefRelations(doc) == RefRelationsJ(doc, FALSE)
\* (round 8) what the statement accepts for a document with a construct that spans lines: both readings
HasSpan(doc) == \E i \in 1..Len(doc) : IsOpener(doc, i)
\* the construct opened last has not been closed yet (the document is unbalanced as it stands)
SpanOpen(doc) ==
  LET j == OpenerOf(doc, Len(doc) + 1) IN j # 0 /\ \A m \in (j + 1)..Len(doc) : doc[m].t # "C"
RefAccept(doc) == IF HasSpan(doc) THEN << RefRelationsJ(doc, FALSE), RefRelationsJ(doc, TRUE) >> ELSE << RefRelations(doc) >>

(* ------------------------------------------------------------------------ *)
(* The same relations read off a tree (machine tree of Parser.tla: nodes     *)
(* [kind, sarg, largs, attrs, children], strings [s |-> atoms]).             *)
(* A chain = the enclosing nodes of an occurrence of an atom, root first,    *)
(* each [p |-> path, kind, sarg, w |-> "children" | "largs"].                *)
IsStrC(c) == "s" \in DOMAIN c
HasAtom(s, a) == \E j \in 1..Len(s) : s[j] = a
\* first occurrence of atom a below node n: the chain, or <<>>.  Paths are
\* sequences of child positions (position i of largs[k] is written 1000*k + i).
RECURSIVE FindN(_, _, _)
RECURSIVE FindL(_, _, _, _, _, _, _)
FindL(n, path, a, lst, where, off, i) ==
  IF i > Len(lst) THEN <<>>
  ELSE LET me == [p |-> path, kind |-> n.kind, sarg |-> n.sarg, w |-> where]
           c == lst[i] IN
       IF IsStrC(c)
       THEN (IF HasAtom(c.s, a) THEN <<me>> ELSE FindL(n, path, a, lst, where, off, i + 1))
       ELSE LET r == FindN(c, Append(path, off + i), a) IN
            IF r # <<>> THEN <<me>> \o r ELSE FindL(n, path, a, lst, where, off, i + 1)
RECURSIVE FindA(_, _, _, _)
FindA(n, path, a, k) ==
  IF k > Len(n.largs) THEN <<>>
  ELSE LET r == FindL(n, path, a, n.largs[k], "largs", 1000 * k, 1) IN
       IF r # <<>> THEN r ELSE FindA(n, path, a, k + 1)
FindN(n, path, a) ==
  LET r == FindL(n, path, a, n.children, "children", 0, 1) IN
  IF r # <<>> THEN r ELSE FindA(n, path, a, 1)

\* number of strings below n that contain atom a
RECURSIVE CntN(_, _)
RECURSIVE CntL(_, _, _)
CntL(lst, a, i) ==
  IF i > Len(lst) THEN 0
  ELSE (IF IsStrC(lst[i]) THEN (IF HasAtom(lst[i].s, a) THEN 1 ELSE 0) ELSE CntN(lst[i], a))
       + CntL(lst, a, i + 1)
RECURSIVE CntA(_, _, _)
CntA(n, a, k) == IF k > Len(n.largs) THEN 0 ELSE CntL(n.largs[k], a, 1) + CntA(n, a, k + 1)
CntN(n, a) == CntL(n.children, a, 1) + CntA(n, a, 1)

\* number of nodes of the given kinds in the tree
RECURSIVE CountKinds(_, _)
RECURSIVE CountIn(_, _, _)
CountIn(lst, kinds, i) ==
  IF i > Len(lst) THEN 0
  ELSE (IF IsStrC(lst[i]) THEN 0 ELSE CountKinds(lst[i], kinds)) + CountIn(lst, kinds, i + 1)
RECURSIVE CountArgs(_, _, _)
CountArgs(n, kinds, k) == IF k > Len(n.largs) THEN 0 ELSE CountIn(n.largs[k], kinds, 1) + CountArgs(n, kinds, k + 1)
CountKinds(n, kinds) ==
  (IF n.kind \in kinds THEN 1 ELSE 0) + CountIn(n.children, kinds, 1) + CountArgs(n, kinds, 1)

LevelKinds == {"LEVEL1", "LEVEL2", "LEVEL3", "LEVEL4", "LEVEL5", "LEVEL6"}
\* index (from the end) of the nearest entry of the given kinds in chain[1..upto]; 0 = none
RECURSIVE Nearest(_, _, _)
Nearest(chain, upto, kinds) ==
  IF upto = 0 THEN 0
  ELSE IF chain[upto].kind \in kinds THEN upto
  ELSE Nearest(chain, upto - 1, kinds)

\* chs[i] = the chain of line i's marker word (<<>> if the word does not occur exactly once).
\* (Chains are passed as an argument so that TLC evaluates the tree walks once.)
\* the kinds of the parents of the rule nodes, in document order (title arguments before the content)
RECURSIVE RuleParN(_), RuleParL(_, _, _), RuleParA(_, _)
RuleParL(lst, pk, i) ==
  IF i > Len(lst) THEN <<>>
  ELSE (IF IsStrC(lst[i]) THEN <<>> ELSE IF lst[i].kind = "HLINE" THEN <<pk>> ELSE RuleParN(lst[i])) \o RuleParL(lst, pk, i + 1)
RuleParA(n, k) == IF k > Len(n.largs) THEN <<>> ELSE RuleParL(n.largs[k], n.kind, 1) \o RuleParA(n, k + 1)
RuleParN(n) == RuleParA(n, 1) \o RuleParL(n.children, n.kind, 1)

RelationsOfChains(doc, chs, nsec, nitem, nlist, rulepar) ==
  LET n == Len(doc)
      one(i) == chs[i] # <<>>
      ownp(i) == IF one(i) THEN chs[i][Len(chs[i])].p ELSE <<98>>
      upp(i) == IF one(i) /\ Len(chs[i]) >= 2 THEN chs[i][Len(chs[i]) - 1].p ELSE <<99>>
      \* the line of type t whose own node sits at this path (0 = none)
      LineOfPath(p, t) == MaxOr0({ j \in 1..n : doc[j].t = t /\ ownp(j) = p })
      worded(i) == doc[i].t \in Worded
      own(i) == IF ~one(i) THEN [k |-> "BAD", w |-> "-", m |-> <<>>]
                ELSE LET e == chs[i][Len(chs[i])] IN
                     IF doc[i].t \in ParaLike THEN NoOwn ELSE [k |-> e.kind, w |-> e.w, m |-> e.sarg]
      sec(i) == IF ~one(i) THEN 0
                ELSE LET c == chs[i]
                         upto == IF doc[i].t = "H" THEN Len(c) - 1 ELSE Len(c)
                         x == Nearest(c, upto, LevelKinds)
                     IN IF x = 0 THEN 0 ELSE LineOfPath(c[x].p, "H")
      item(i) == IF ~one(i) \/ doc[i].t # "L" THEN 0
                 ELSE LET c == chs[i]
                          x == Nearest(c, Len(c) - 1, {"LIST_ITEM"})
                      IN IF x = 0 THEN 0 ELSE LineOfPath(c[x].p, "L")
      lst(i) == IF ~one(i) \/ doc[i].t # "L" THEN 0
                ELSE Min({ j \in 1..n : doc[j].t = "L" /\ upp(j) = upp(i) })
      \* kind of the k-th enclosing node above the one that holds the word ("NONE": the chain is too short)
      anc(i, k) == IF one(i) /\ Len(chs[i]) > k THEN chs[i][Len(chs[i]) - k].kind ELSE "NONE"
      par(i) == CASE doc[i].t = "H" -> anc(i, 1)      \* word in the title of the section node: its parent
                  [] doc[i].t = "L" -> anc(i, 2)      \* word in the item: item, list, the list's parent
                  [] doc[i].t = "I" -> anc(i, 1)      \* word in the preformatted block: its parent
                  [] doc[i].t = "R" -> (IF Len(rulepar) = Cardinality({ j \in 1..n : doc[j].t = "R" })
                                        THEN rulepar[Cardinality({ j \in 1..i : doc[j].t = "R" })] ELSE "NONE")
                  [] OTHER -> "-"
  IN [ own |-> [i \in 1..n |-> IF worded(i) THEN own(i) ELSE NoOwn],
       sec |-> [i \in 1..n |-> IF worded(i) THEN sec(i) ELSE 0],
       item |-> [i \in 1..n |-> item(i)],
       lst |-> [i \in 1..n |-> lst(i)],
       par |-> [i \in 1..n |-> par(i)],
       nsec |-> nsec, nitem |-> nitem, nlist |-> nlist ]

\* (bound variables of a set constructor are evaluated eagerly by TLC: the tree is walked once)
TreeRelations(tree, doc, W(_)) ==
  CHOOSE r \in { RelationsOfChains(doc, c, CountKinds(t, LevelKinds), CountKinds(t, {"LIST_ITEM"}), CountKinds(t, {"LIST"}), RuleParN(t)) :
                   c \in { [i \in 1..Len(doc) |-> IF doc[i].t \in Worded /\ CntN(t, W(i)) = 1
                                                  THEN FindN(t, <<>>, W(i)) ELSE <<>>] : t \in {tree} },
                   t \in {tree} } : TRUE
=============================================================================
