----------------------------- MODULE ParserRef -----------------------------
(* Declarative nesting model of property C02.                                 *)
(*                                                                            *)
(* A document is a sequence of lines                                          *)
(*   [t |-> "H", l |-> 1..6]      heading of level l                          *)
(*   [t |-> "L", p |-> marker]    list line, marker = sequence over {"*","#"} *)
(*   [t |-> "R"]  horizontal rule   [t |-> "P"]  paragraph   [t |-> "B"] blank *)
(* Line i carries the unique marker word W(i).                                *)
(*                                                                            *)
(* RefRelations(doc) states, without any stack, what the property demands:    *)
(*   own[i]   the node that holds the marker word of line i                   *)
(*            (H: a LEVELl node, word in its title; L: a LIST_ITEM with the   *)
(*            line's marker, word directly among its children)                *)
(*   sec[i]   H: parent section = nearest preceding heading of strictly lower *)
(*            level that is still open; L, P: the section that contains the   *)
(*            line = nearest preceding heading still open; 0 = none (root)    *)
(*   item[i]  L: the most recent open item whose marker is a proper prefix    *)
(*   lst[i]   L: first line of the list this item belongs to (equal markers   *)
(*            continue the list, anything else starts a new one)              *)
(*   counts   exactly one section node per heading, one item per list line    *)
EXTENDS Naturals, Sequences, FiniteSets

IsH(doc, i) == doc[i].t = "H"
IsL(doc, i) == doc[i].t = "L"
LevelKind(l) ==
  CASE l = 1 -> "LEVEL1" [] l = 2 -> "LEVEL2" [] l = 3 -> "LEVEL3"
    [] l = 4 -> "LEVEL4" [] l = 5 -> "LEVEL5" [] l = 6 -> "LEVEL6"

Max(S) == CHOOSE x \in S : \A y \in S : y <= x
Min(S) == CHOOSE x \in S : \A y \in S : x <= y
MaxOr0(S) == IF S = {} THEN 0 ELSE Max(S)

(* ---- sections ---- *)
\* heading j (< k) is still open just before line k: no later heading of the
\* same or a lower level, and -- for sections deeper than level 2 -- no rule
SectionOpen(doc, j, k) ==
  /\ IsH(doc, j) /\ j < k
  /\ \A m \in (j + 1)..(k - 1) :
       /\ ~(IsH(doc, m) /\ doc[m].l <= doc[j].l)
       /\ ~(doc[m].t = "R" /\ doc[j].l > 2)
SecParent(doc, i) ==   \* for a heading line
  MaxOr0({ j \in 1..(i - 1) : SectionOpen(doc, j, i) /\ doc[j].l < doc[i].l })
Container(doc, k) ==   \* for any other line
  MaxOr0({ j \in 1..(k - 1) : SectionOpen(doc, j, k) })

(* ---- lists ---- *)
ProperPrefix(p, q) == Len(p) < Len(q) /\ \A n \in 1..Len(p) : p[n] = q[n]
\* j and k belong to one run of consecutive list lines
SameRun(doc, j, k) == \A m \in j..k : IsL(doc, m)
\* item j (< k) is still open at line k: every line in between is nested in it
ItemOpen(doc, j, k) ==
  /\ j < k /\ SameRun(doc, j, k)
  /\ \A m \in (j + 1)..(k - 1) : ProperPrefix(doc[j].p, doc[m].p)
ItemParent(doc, k) ==
  MaxOr0({ j \in 1..(k - 1) : ItemOpen(doc, j, k) /\ ProperPrefix(doc[j].p, doc[k].p) })
\* the previous item of the same list: same marker, only its own descendants in between
PrevSibling(doc, k) ==
  MaxOr0({ j \in 1..(k - 1) : ItemOpen(doc, j, k) /\ doc[j].p = doc[k].p })
RECURSIVE ListHead(_, _)
ListHead(doc, k) == IF PrevSibling(doc, k) = 0 THEN k ELSE ListHead(doc, PrevSibling(doc, k))

NoOwn == [k |-> "-", w |-> "-", m |-> <<>>]
RefRelations(doc) ==
  LET n == Len(doc) IN
  [ own  |-> [i \in 1..n |->
                IF IsH(doc, i) THEN [k |-> LevelKind(doc[i].l), w |-> "largs", m |-> <<>>]
                ELSE IF IsL(doc, i) THEN [k |-> "LIST_ITEM", w |-> "children", m |-> doc[i].p]
                ELSE NoOwn],
    sec  |-> [i \in 1..n |->
                IF IsH(doc, i) THEN SecParent(doc, i)
                ELSE IF doc[i].t \in {"L", "P"} THEN Container(doc, i) ELSE 0],
    item |-> [i \in 1..n |-> IF IsL(doc, i) THEN ItemParent(doc, i) ELSE 0],
    lst  |-> [i \in 1..n |-> IF IsL(doc, i) THEN ListHead(doc, i) ELSE 0],
    nsec |-> Cardinality({ i \in 1..n : IsH(doc, i) }),
    nitem |-> Cardinality({ i \in 1..n : IsL(doc, i) }),
    nlist |-> Cardinality({ i \in 1..n : IsL(doc, i) /\ ListHead(doc, i) = i }) ]

(* ------------------------------------------------------------------------ *)
(* The same relations read off a tree (machine tree of Parser.tla: nodes     *)
(* [kind, sarg, largs, attrs, children], strings [s |-> atoms]).             *)
(* A chain = the enclosing nodes of an occurrence of an atom, root first,    *)
(* each [p |-> path, kind, sarg, w |-> "children" | "largs"].                *)
IsStrC(c) == "s" \in DOMAIN c
RECURSIVE Occ(_, _, _)
OccIn(n, path, a, lst, where, tag) ==
  LET me == [p |-> path, kind |-> n.kind, sarg |-> n.sarg, w |-> where] IN
  UNION { IF IsStrC(lst[i])
          THEN (IF \E j \in 1..Len(lst[i].s) : lst[i].s[j] = a THEN { <<me>> } ELSE {})
          ELSE { <<me>> \o c : c \in Occ(lst[i], path \o <<tag, i>>, a) }
          : i \in 1..Len(lst) }
Occ(n, path, a) ==
  OccIn(n, path, a, n.children, "children", 0)
  \cup UNION { OccIn(n, path, a, n.largs[k], "largs", k) : k \in 1..Len(n.largs) }

RECURSIVE CountKinds(_, _)
CountIn(lst, kinds) ==
  LET F[i \in 0..Len(lst)] ==
        IF i = 0 THEN 0
        ELSE F[i - 1] + (IF IsStrC(lst[i]) THEN 0 ELSE CountKinds(lst[i], kinds))
  IN F[Len(lst)]
CountKinds(n, kinds) ==
  LET G[k \in 0..Len(n.largs)] == IF k = 0 THEN 0 ELSE G[k - 1] + CountIn(n.largs[k], kinds)
  IN (IF n.kind \in kinds THEN 1 ELSE 0) + CountIn(n.children, kinds) + G[Len(n.largs)]

LevelKinds == {"LEVEL1", "LEVEL2", "LEVEL3", "LEVEL4", "LEVEL5", "LEVEL6"}
\* index (from the end) of the nearest entry of the given kinds in chain[1..upto]; 0 = none
RECURSIVE Nearest(_, _, _)
Nearest(chain, upto, kinds) ==
  IF upto = 0 THEN 0
  ELSE IF chain[upto].kind \in kinds THEN upto
  ELSE Nearest(chain, upto - 1, kinds)

TreeRelations(tree, doc, W(_)) ==
  LET n == Len(doc)
      occ == [i \in 1..n |-> IF doc[i].t \in {"H", "L", "P"} THEN Occ(tree, <<>>, W(i)) ELSE {}]
      one(i) == Cardinality(occ[i]) = 1
      ch(i) == CHOOSE c \in occ[i] : TRUE
      \* the line whose own node sits at this path (0 = none)
      LineOfPath(p, t) ==
        MaxOr0({ j \in 1..n : doc[j].t = t /\ one(j) /\ ch(j)[Len(ch(j))].p = p })
      own(i) == IF ~one(i) THEN [k |-> "BAD", w |-> "-", m |-> <<>>]
                ELSE LET e == ch(i)[Len(ch(i))] IN
                     IF doc[i].t = "P" THEN NoOwn ELSE [k |-> e.kind, w |-> e.w, m |-> e.sarg]
      sec(i) == IF ~one(i) THEN 0
                ELSE LET c == ch(i)
                         upto == IF doc[i].t = "H" THEN Len(c) - 1 ELSE Len(c)
                         x == Nearest(c, upto, LevelKinds)
                     IN IF x = 0 THEN 0 ELSE LineOfPath(c[x].p, "H")
      item(i) == IF ~one(i) \/ doc[i].t # "L" THEN 0
                 ELSE LET c == ch(i)
                          x == Nearest(c, Len(c) - 1, {"LIST_ITEM"})
                      IN IF x = 0 THEN 0 ELSE LineOfPath(c[x].p, "L")
      \* path of the node directly above the own node
      up(i) == IF one(i) /\ Len(ch(i)) >= 2 THEN ch(i)[Len(ch(i)) - 1].p ELSE <<99>>
      lst(i) == IF ~one(i) \/ doc[i].t # "L" THEN 0
                ELSE Min({ j \in 1..n : doc[j].t = "L" /\ one(j) /\ up(j) = up(i) })
  IN [ own |-> [i \in 1..n |-> IF doc[i].t \in {"H", "L", "P"} THEN own(i) ELSE NoOwn],
       sec |-> [i \in 1..n |-> IF doc[i].t \in {"H", "L", "P"} THEN sec(i) ELSE 0],
       item |-> [i \in 1..n |-> item(i)],
       lst |-> [i \in 1..n |-> lst(i)],
       nsec |-> CountKinds(tree, LevelKinds),
       nitem |-> CountKinds(tree, {"LIST_ITEM"}),
       nlist |-> CountKinds(tree, {"LIST"}) ]
=============================================================================
