------------------------- MODULE Trace_ParserStruct -------------------------
(* Decides recorded parses of the real parser.  TRACE_FILE is a JSON object   *)
(*   known : deviation names currently listed as open findings                *)
(*   cases : [page, real]  page = a written structure (ParserStruct.tla),     *)
(*           real = ptree2 abstraction of ctx.parse(concretise(Render(page))) *)
(* Per case TLC computes TreeOf(page) and decides Equiv(real, TreeOf(page)).  *)
(* A failing case is attributed to listed deviations when the as-is machine   *)
(* (deviations switched on) reproduces the real tree.  `strict` says whether   *)
(* the page is inside the statement's quantifier (URL-safe attribute values): *)
(* only then a failing case contradicts the statement, otherwise it is DRIFT. *)
EXTENDS ParserStruct, Json, IOUtils

TagsFromFile == JsonDeserialize(IOEnv.TAGS_FILE)
Batch == JsonDeserialize(IOEnv.TRACE_FILE)
Known == {Batch.known[i] : i \in 1..Len(Batch.known)} \cap AllParserDevs
Cases == Batch.cases

VARIABLES i, bad
Init == i = 1 /\ bad = <<>>
Next ==
  /\ i <= Len(Cases)
  /\ LET c == Cases[i]
         exp == TreeOf(c.page)
         ok == Equiv(c.real, exp)
         a == Render(c.page)
         asis == MachineTree(a, Known)
         explained == Known # {} /\ Equiv(c.real, asis)
         devs == IF explained THEN {d \in Known : ~Equiv(MachineTree(a, {d}), exp)} ELSE {}
     IN bad' = IF ok THEN bad ELSE Append(bad, [i |-> i, expected |-> exp, devs |-> devs, strict |-> UrlSafePage(c.page)])
  /\ i' = i + 1
Spec == Init /\ [][Next]_<<i, bad>>
Verdict == (i = Len(Cases) + 1) => PrintT(<<"VERDICT", ToJson([consumed |-> i - 1, bad |-> bad])>>)
=============================================================================
