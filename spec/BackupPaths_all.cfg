SPECIFICATION PSpec
CONSTANTS
  ShapeIds <- IdsAll
  PDev <- PDevNone
INVARIANT NamesDistinct
INVARIANT SiblingsDisjoint
INVARIANT RestoreExact
INVARIANT CloseExact
INVARIANT PathInv
CHECK_DEADLOCK FALSE
