---------------------------- MODULE Trace_Session ----------------------------
(* Validates recorded sessions of real Wtp contexts against Session.         *)
(* The trace file (env TRACE_FILE) holds a list of events, one per public    *)
(* call: op, arguments (a, b, c, d, nw) and the projection of the real state *)
(* observed after the call (obs).  Every event is consumed by the            *)
(* corresponding Session action; each clause of the comparison that fails is *)
(* recorded by name in `bad` (the verdict is total: validation goes on with  *)
(* the specification's state after a mismatch).                              *)
(*   obs = [title, section, subsection, path, lens: kind -> length,          *)
(*          new: kind -> messages appended by this call (all messages after  *)
(*          start_page / reset), stable: the older messages are unchanged,   *)
(*          cookies: keys of the cookie table, ret: [keys, lens, node, num]] *)
(*   message = [msg, trace, title, section, subsection, called_from, path,   *)
(*              keys: its key set, tuple: path is a tuple]                   *)
EXTENDS Naturals, Sequences, FiniteSets, TLC, Json, IOUtils, SequencesExt

TraceFile == JsonDeserialize(IOEnv.TRACE_FILE)
Events == TraceFile.events
NoDev == {}

VARIABLES title, section, subsection, lists, path, cookies, smc, ret, last, ghost, markers, pos,
          l,        \* index of the next event
          bad,      \* failed clauses so far
          ppath,    \* the path observed after the previous call
          re        \* re-announcements consumed so far (calls whose argument was the current value)
S == INSTANCE Session WITH Dev <- NoDev

tvars == <<title, section, subsection, lists, path, cookies, smc, ret, last, ghost, markers, pos, l, bad, ppath, re>>

NoRe == [page |-> 0, page_dirty |-> 0, section |-> 0, section_sub |-> 0, subsection |-> 0,
         lastsame |-> FALSE]     \* the last positioning call was a re-announcement
TInit == S!Init /\ l = 1 /\ bad = <<>> /\ ppath = <<>> /\ re = NoRe

\* which re-announcement the event is, judged on the specification's state before it
\* (page_dirty: start_page(T) on page T with messages, a section or cookies to clear;
\*  section_sub: start_section(S) in section S with a subsection to clear)
ReOf(e) ==
  CASE e.op = "start_page" /\ S!SamePage(e.a) ->
         IF S!TotalMsgs > 0 \/ section # S!None \/ subsection # S!None \/ cookies # <<>> THEN {"page", "page_dirty"} ELSE {"page"}
    [] e.op = "start_section" /\ S!SameSection(e.a) ->
         IF subsection # S!None THEN {"section", "section_sub"} ELSE {"section"}
    [] e.op = "start_subsection" /\ S!SameSubsection(e.a) /\ e.a # S!None -> {"subsection"}
    [] OTHER -> {}

SetOf(q) == {q[i] : i \in 1..Len(q)}
AllNew(e, P(_)) == \A k \in S!Kinds : \A i \in 1..Len(e.obs.new[k]) : P(e.obs.new[k][i])

\* what the specification predicts for the messages appended by this call
NewOf(k) == IF Len(lists'[k]) >= Len(lists[k]) /\ last' \notin {"start_page", "init"}
            THEN SubSeq(lists'[k], Len(lists[k]) + 1, Len(lists'[k])) ELSE lists'[k]
Pairwise(e, F(_, _)) ==
  \A k \in S!Kinds : \A i \in 1..Len(e.obs.new[k]) :
    i <= Len(NewOf(k)) => F(e.obs.new[k][i], NewOf(k)[i])

\* clause name -> holds?   (primed variables: the state after the Session action)
Clauses(e) ==
  [ title          |-> e.obs.title = title',
    section        |-> e.obs.section = section',
    subsection     |-> e.obs.subsection = subsection',
    path           |-> e.obs.path = path',
    path_restored  |-> (e.op \in {"expand", "parse"}) => e.obs.path = ppath,
    lists_emptied  |-> (e.op = "start_page") => \A k \in S!Kinds : e.obs.lens[k] = 0,
    lists_len      |-> \A k \in S!Kinds : e.obs.lens[k] = Len(lists'[k]),
    lists_stable   |-> e.obs.stable,
    msg_keys       |-> AllNew(e, LAMBDA m : SetOf(m.keys) = S!DocKeys /\ m.tuple),
    \* the stamps: the documented position (declarative reference pos), not the fields
    msg_title      |-> AllNew(e, LAMBDA m : m.title = S!StampT(title')),
    msg_section    |-> AllNew(e, LAMBDA m : m.section = S!StampS(pos'.section)),
    msg_subsection |-> AllNew(e, LAMBDA m : m.subsection = S!StampS(pos'.subsection)),
    msg_path       |-> Pairwise(e, LAMBDA m, x : m.path = x.path),
    msg_text       |-> Pairwise(e, LAMBDA m, x : m.msg = x.msg /\ m.trace = x.trace),
    msg_sortid     |-> Pairwise(e, LAMBDA m, x : m.called_from = x.called_from),
    cookies        |-> e.obs.cookies = cookies',
    ret            |-> /\ SetOf(e.obs.ret.keys) = ret'.keys
                       /\ e.obs.ret.node = ret'.node /\ e.obs.ret.num = ret'.num
                       /\ \A k \in S!Kinds : e.obs.ret.lens[k] = ret'.lens[k] ]

Predicted == [title |-> title', section |-> section', subsection |-> subsection', path |-> path',
              lens |-> [k \in S!Kinds |-> Len(lists'[k])], new |-> [k \in S!Kinds |-> NewOf(k)],
              cookies |-> cookies', ret |-> ret',
              stamp_title |-> S!StampT(title'), stamp_section |-> S!StampS(pos'.section),
              stamp_subsection |-> S!StampS(pos'.subsection),
              \* the last positioning call re-announced the current value (this event, if it is one)
              same |-> re'.lastsame]

Check(e) ==
  \E c \in {Clauses(e)} :
    LET failing == {n \in DOMAIN c : ~c[n]} IN
    bad' = IF failing = {} THEN bad
           ELSE Append(bad, [i |-> l, sid |-> e.sid, op |-> e.op, clauses |-> failing,
                             expected |-> ToJson(Predicted)])

Act(e) ==
  CASE e.op = "reset" -> S!Reset
    [] e.op = "start_page" -> S!StartPage(e.a)
    [] e.op = "start_section" -> S!StartSection(e.a)
    [] e.op = "start_subsection" -> S!StartSubsection(e.a)
    [] e.op = "emit" -> S!Emit(e.a, e.b, e.d, e.c)
    [] e.op = "expand" -> S!Expand(S!Text(e.nw, e.a))
    [] e.op = "parse" -> S!Parse(S!Text(e.nw, e.a))
    [] e.op = "to_return" -> S!ToReturn
    [] e.op = "strip_marker" -> S!StripMarker(e.a, e.b)

TNext == /\ l <= Len(Events)
         /\ \E e \in {Events[l]} : /\ re' = [n \in DOMAIN re |->
                                               IF n = "lastsame"
                                               THEN IF e.op \in {"start_page", "start_section", "start_subsection"}
                                                    THEN ReOf(e) # {} ELSE e.op # "reset" /\ re[n]
                                               ELSE IF n \in ReOf(e) THEN re[n] + 1 ELSE re[n]]
                                   /\ Act(e) /\ Check(e) /\ ppath' = e.obs.path
         /\ l' = l + 1
TSpec == TInit /\ [][TNext]_tvars

\* printed once, in the state that has consumed the whole trace
Verdict == (l = Len(Events) + 1) => PrintT(<<"VERDICT", ToJson([consumed |-> l - 1, bad |-> bad, re |-> re])>>)
\* the model-level invariants hold along every validated execution too
ModelInv == /\ S!PosIsState /\ S!AnnouncedPosition /\ S!StampsTitleSection /\ S!StampsSubsection /\ S!PathIsTitle /\ S!CookieInjective
            /\ S!CleanAfterStartPage /\ S!SubsectionClearedByStartSection
            /\ S!NowikiNumbered /\ S!StripSameContentSameNumber
Accepted == TLCGet("stats").diameter = Len(Events) + 1
=============================================================================
