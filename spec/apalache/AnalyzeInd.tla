----------------------------- MODULE AnalyzeInd -----------------------------
(* Typed abstraction of the WORKLIST part of spec/Analyze.tla (C17: analyze_templates)   *)
(* for inductive-invariant checks with Apalache (harness/apalache.py, thorough tier).    *)
(* TLC checks Analyze.tla itself on enumerated small worlds and binds it to the code;    *)
(* this module is about the DESIGN only: for EVERY inclusion relation (up to the size in *)
(* ConstInit) the classifier pass + worklist loop marks exactly the least set that       *)
(* contains the flagged and the earlier-marked templates and is closed under "includes a *)
(* member", after any number of steps, in any order of the database and of the worklist. *)
(*                                                                                       *)
(* Abstraction (Analyze.tla operator -> here)                                            *)
(*  * a world's pages -> the set T of the uninterpreted sort TPL; Flagged(W) -> F;       *)
(*    PreOf(W) -> P; the inclusion relation IncRel(W, FALSE) = {<<includer, included>>}  *)
(*    -> the constant R.  Name resolution (written names, prefixes, the page-store       *)
(*    lookup and its memo: MapKey, MemoGet, amemo) is NOT modelled: the relation is      *)
(*    given resolved, which is what Analyze.tla's ideal (Dev = {}) computes - that the   *)
(*    incremental included_map equals IncRel is checked by TLC (ResultIsClosure on the   *)
(*    generated worlds) and against the code (C17 G / V), not here.                      *)
(*  * Classify: the pass over world.pages[ci] in database order -> Classify(p) for ANY   *)
(*    not yet classified p (over-approximates the order); imap grows by p's edges;       *)
(*    marked / stack change as in Analyze!Classify, including the deviation switch       *)
(*    MarkedNotReseeded.  ClassifyDone = the branch ci > Len(world.pages).               *)
(*  * stack (a LIFO sequence) -> a SET, Pop takes ANY member (over-approximation: the    *)
(*    result must not depend on the order; PushedOnce is meaningless here).  curT is a   *)
(*    ghost: the template whose includers are being visited.                             *)
(*  * Visit: MemoGet(.., t) on a resolved template is found, and with the memo cleared   *)
(*    (ideal) g.marked is `t \in marked`.                                                *)
(*  * Sql1 / Sql2 (redirect neighbours) are not part of this module: pc = "sql1" is the  *)
(*    end of the worklist loop.                                                          *)
(* Every behaviour of the ideal Analyze.tla projects to a behaviour of this module, so   *)
(* the invariants hold there.  C is an ARBITRARY set closed under the two rules (only    *)
(* constrained by ConstInit), so `marked \subseteq C` as an invariant says: marked is    *)
(* inside EVERY closed set; at the end marked is itself closed: it is the least one.     *)
EXTENDS Integers, FiniteSets, Apalache

CONSTANTS
  \* @type: Set(TPL);
  T,
  \* @type: Set(<<TPL, TPL>>);
  R,       \* <<includer, included>>
  \* @type: Set(TPL);
  F,       \* flagged by the classifier
  \* @type: Set(TPL);
  P,       \* marked before the call
  \* @type: Set(TPL);
  C,       \* any closed set (see ConstInit)
  \* @type: Bool;
  DevNotReseeded     \* "MarkedNotReseeded" \in Dev

VARIABLES
  \* @type: Set(TPL);
  marked,
  \* @type: Set(TPL);
  stack,
  \* @type: Set(TPL);
  todo,
  \* @type: Str;
  pc,
  \* @type: Set(TPL);
  classified,
  \* @type: Set(<<TPL, TPL>>);
  imap,
  \* @type: TPL;
  curT

\* @type: (Set(TPL)) => Bool;
Closed(X) == (F \union P) \subseteq X /\ \A e \in R : e[2] \in X => e[1] \in X

Init ==
  /\ marked = P /\ stack = {} /\ todo = {} /\ pc = "classify"
  /\ classified = {} /\ imap = {} /\ curT = Gen(1)

Classify(p) ==
  /\ pc = "classify" /\ p \notin classified
  /\ imap' = imap \union {e \in R : e[1] = p}
  /\ marked' = IF p \in F THEN marked \union {p} ELSE marked
  /\ stack' = IF p \in F \/ (p \in marked /\ ~DevNotReseeded) THEN stack \union {p} ELSE stack
  /\ classified' = classified \union {p}
  /\ UNCHANGED <<todo, pc, curT>>

ClassifyDone ==
  /\ pc = "classify" /\ classified = T
  /\ pc' = "propagate"
  /\ UNCHANGED <<marked, stack, todo, classified, imap, curT>>

Pop ==
  /\ pc = "propagate"
  /\ IF stack = {}
     THEN pc' = "sql1" /\ UNCHANGED <<stack, todo, curT>>
     ELSE \E t \in stack :
            LET inc == {e[1] : e \in {x \in imap : x[2] = t}} IN
            /\ stack' = stack \ {t}
            /\ todo' = inc
            /\ curT' = t
            /\ pc' = IF inc = {} THEN "propagate" ELSE "inner"
  /\ UNCHANGED <<marked, classified, imap>>

Visit ==
  /\ pc = "inner"
  /\ \E t \in todo :
       /\ IF t \in marked
          THEN UNCHANGED <<marked, stack>>
          ELSE marked' = marked \union {t} /\ stack' = stack \union {t}
       /\ todo' = todo \ {t}
       /\ pc' = IF todo \ {t} = {} THEN "propagate" ELSE "inner"
  /\ UNCHANGED <<classified, imap, curT>>

Next == (\E p \in T : Classify(p)) \/ ClassifyDone \/ Pop \/ Visit

(* ------------------------------ properties ------------------------------ *)
WorklistDone == pc = "sql1"
\* Analyze!NeverOvermarksH: nothing is marked without reason - marked lies in every closed set
NeverOvermarks == marked \subseteq C /\ stack \subseteq marked
\* Analyze!KeepsEarlierMarks
KeepsEarlierMarks == P \subseteq marked
\* Analyze!ResultIsIdealH without the redirect pass: at the end marked is closed (and, by
\* NeverOvermarks for every closed C, the least closed set = LfpR(IncRel, Flagged \cup PreOf))
ResultIsClosed == WorklistDone => Closed(marked)
\* the same with the quantification over all closed sets written out (C not used; from IndInvQ)
ResultIsLeastClosure ==
  WorklistDone => (Closed(marked) /\ \A Y \in SUBSET T : Closed(Y) => marked \subseteq Y)

(* --------------------------- inductive invariant --------------------------- *)
\* @type: (TPL) => Bool;
IncludersMarked(m) == \A e \in R : e[2] = m => e[1] \in marked

IndCore ==
  /\ pc \in {"classify", "propagate", "inner", "sql1"}
  /\ marked \subseteq T /\ stack \subseteq T /\ todo \subseteq T /\ classified \subseteq T
  /\ imap = {e \in R : e[1] \in classified}
  /\ pc # "classify" => classified = T
  /\ P \subseteq marked
  /\ (F \intersect classified) \subseteq marked
  /\ stack \subseteq marked
  /\ pc # "inner" => todo = {}
  /\ pc = "inner" => (todo # {} /\ curT \in marked /\ \A t \in todo : <<t, curT>> \in R)
  /\ pc = "sql1" => stack = {}
  /\ pc = "classify" => \A m \in marked : m \in stack \/ m \notin classified
  \* every marked template's includers are marked, or the template is still on the worklist,
  \* or it is the one being processed and its unmarked includers are still to be visited
  /\ pc # "classify" =>
       \A m \in marked : \/ m \in stack
                         \/ IncludersMarked(m)
                         \/ (pc = "inner" /\ m = curT /\ \A e \in R : e[2] = m => e[1] \in marked \union todo)

\* for an arbitrary closed C ...
IndInv == IndCore /\ marked \subseteq C
\* ... and with the quantification over all closed sets inside the invariant (C not used; small T only)
InEveryClosed == \A Y \in SUBSET T : Closed(Y) => marked \subseteq Y
IndInvQ == IndCore /\ InEveryClosed

(* vacuity guard: must FAIL (IndInit has a state in the middle of a propagation with work left) *)
NoInterestingState == ~(pc = "inner" /\ stack # {} /\ \E t \in todo : t \notin marked)

(* ------------------------------ instances ------------------------------ *)
Universe(n, k) ==
  /\ T = Gen(n)
  /\ R = Gen(k) /\ R \subseteq T \X T
  /\ F \in SUBSET T /\ P \in SUBSET T
  /\ C \in SUBSET T /\ Closed(C)

ConstInit == Universe(5, 8) /\ DevNotReseeded = FALSE
ConstInitDev == Universe(5, 8) /\ DevNotReseeded = TRUE
\* a larger universe (slower: minutes)
ConstInitBig == Universe(8, 14) /\ DevNotReseeded = FALSE
\* for IndInvQ / ResultIsLeastClosure (quantify over SUBSET T)
ConstInitSmall == Universe(5, 8) /\ DevNotReseeded = FALSE

IndInit ==
  /\ pc \in {"classify", "propagate", "inner", "sql1"}
  /\ marked \in SUBSET T /\ stack \in SUBSET T /\ todo \in SUBSET T /\ classified \in SUBSET T
  /\ imap \in SUBSET R
  /\ curT = Gen(1)
  /\ IndInv

IndInitQ ==
  /\ pc \in {"classify", "propagate", "inner", "sql1"}
  /\ marked \in SUBSET T /\ stack \in SUBSET T /\ todo \in SUBSET T /\ classified \in SUBSET T
  /\ imap \in SUBSET R
  /\ curT = Gen(1)
  /\ IndInvQ
=============================================================================
