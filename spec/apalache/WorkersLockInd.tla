--------------------------- MODULE WorkersLockInd ---------------------------
(* Typed abstraction of the LOCK / TRANSACTION / JOURNAL-MODE core of spec/Workers.tla   *)
(* (C20) for inductive-invariant checks with Apalache (harness/apalache.py, thorough     *)
(* tier).  TLC checks Workers.tla itself (2-3 workers, a handful of scenarios) and binds *)
(* it to the code; this module is about the DESIGN only and shows that                   *)
(*    OneWriter          at most one connection holds the write lock of an inode         *)
(*    TxnLockAgree       lock table and transaction states are two views of one thing    *)
(*    WalAtWork          page work only runs on a WAL database                           *)
(*    NoIdleTransaction  a context on which no library call is active is not inside an   *)
(*                       open transaction                                                *)
(* follow from ONE inductive invariant - they need each other: the commit can only fail  *)
(* on a rollback-journal file (excluded by WalAtWork), the bootstrap write can only fail *)
(* on an idle lock holder (excluded by NoIdleTransaction + TxnLockAgree) - and that the  *)
(* invariant stops being inductive under each of the deviations BootstrapUnderSnapshot,  *)
(* CommitSkippedWhenUnchanged and ModeSetByCreatorOnly of Workers.tla.                   *)
(*                                                                                       *)
(* Kept from Workers.tla, action by action (same names, same guards on the kept state):  *)
(*   pc, conn, opn, txn as they are; snap[p].on as snapon[p]; pmain;                     *)
(*   wlock as a SET of grants [ino, p] (in Workers.tla a function inode -> holder, which *)
(*   makes "one holder per inode" true by typing; here it is a proof obligation);        *)
(*   ino[i].used / .tabs / .jm = "wal" as the sets used / tabInos / walInos.             *)
(*   Connect, Script, OpenCursor, Read1, Bootcheck, Insert, Commit, Read2, Close         *)
(*   abstract the operators of the same name.                                            *)
(* Dropped, and replaced by nondeterminism (every behaviour of Workers.tla, under the    *)
(* abstraction map that forgets the dropped variables and renames inodes injectively, is *)
(* a behaviour of this module - an OVER-approximation, so invariants proved here hold    *)
(* there):                                                                               *)
(*   * page contents / versions / checkpoints (ino[i].c, .ver, .ck), saw, res, chk,      *)
(*     raced, snapfail, life, scn: every test on them (Exp \in View(p), BootFound,       *)
(*     snapshot stale, "boot" already stored, Cursor(p)) is a free boolean choice.  So   *)
(*     the result covers Dev = {} as well as BootcheckNeverHits and every scenario.      *)
(*   * the restore steps Exists / Unlink / Rename and pbak: one action Restore that moves *)
(*     to any later start-up label and re-points the path <db> to ANY existing file or   *)
(*     to none.  Covers the atomic restore and RestoreRaceOnStartup.                     *)
(*   * FreeIno (CHOOSE among 3 + |Procs| inodes): a counter nextIno; inodes are only     *)
(*     compared for equality.  Initially files 1 (at the path) and 2 (the backup, if     *)
(*     any) exist with tables, in ANY journal mode (prov = built / lib / rbj).           *)
(*   * CloseRemovesSideFiles, BackupDropsJournalMode (hypothetical, Demo only; the       *)
(*     latter only fixes the initial mode of file 2, which is arbitrary here anyway).    *)
(*                                                                                       *)
(* Sizes: process and inode identifiers are arbitrary integers; bounded are the NUMBER   *)
(* of workers (Gen(n) in ConstInit) and of files / grants in the arbitrary pre-state of  *)
(* the inductive step (Gen(k) in IndInit).                                               *)
EXTENDS Integers, FiniteSets, Apalache

CONSTANTS
  \* @type: Set(Int);
  Procs,
  \* @type: Bool;
  BootSnap,            \* "BootstrapUnderSnapshot" \in Dev
  \* @type: Bool;
  CommitSkipped,       \* "CommitSkippedWhenUnchanged" \in Dev
  \* @type: Bool;
  ModeByCreatorOnly    \* "ModeSetByCreatorOnly" \in Dev

D == 0
PAll == Procs \union {D}

VARIABLES
  \* @type: Int;
  pmain,
  \* @type: Int;
  nextIno,
  \* @type: Set(Int);
  used,
  \* @type: Set(Int);
  tabInos,
  \* @type: Set(Int);
  walInos,
  \* @type: Set({ino: Int, p: Int});
  wlock,
  \* @type: Int -> Str;
  pc,
  \* @type: Int -> Int;
  conn,
  \* @type: Int -> Bool;
  opn,
  \* @type: Int -> Bool;
  snapon,
  \* @type: Int -> Str;
  txn

Pre == {"exists", "unlink", "rename", "connect"}
Work == {"cursor", "read1", "bootcheck", "insert", "commit", "read2"}
Open == Work \union {"script", "done"}
PCs == Pre \union Open \union {"failed", "closed"}
Txns == {"none", "write", "begun"}

Init ==
  /\ pmain = 1 /\ nextIno = 3 /\ used = {1, 2} /\ tabInos = {1, 2}
  /\ walInos \in SUBSET {1, 2}
  /\ wlock = {}
  /\ \E drv \in BOOLEAN :
       /\ pc = [p \in PAll |-> IF p # D THEN "exists" ELSE IF drv THEN "done" ELSE "closed"]
       /\ opn = [p \in PAll |-> p = D /\ drv]
  /\ conn = [p \in PAll |-> IF p = D THEN 1 ELSE 0]
  /\ snapon = [p \in PAll |-> FALSE]
  /\ txn = [p \in PAll |-> "none"]

\* @type: (Int, Str) => Bool;
Go(p, l) == pc' = [pc EXCEPT ![p] = l]
\* @type: (Int) => Bool;
LockFree(i) == \A g \in wlock : g.ino # i
\* @type: (Int) => Bool;
Idle(q) == opn[q] /\ pc[q] \in {"done", "failed"}
\* @type: (Int) => Bool;
IdleHeld(p) == \E g \in wlock : g.ino = conn[p] /\ g.p # p /\ Idle(g.p)

(* ---- create_db ---- *)
Restore(p) ==
  /\ pc[p] \in {"exists", "unlink", "rename"}
  /\ \E m \in used \union {0} : pmain' = m
  /\ \E l \in {"unlink", "rename", "connect", "failed"} : Go(p, l)
  /\ UNCHANGED <<nextIno, used, tabInos, walInos, wlock, conn, opn, snapon, txn>>

Connect(p) ==
  /\ pc[p] = "connect"
  /\ IF pmain = 0
     THEN /\ pmain' = nextIno /\ nextIno' = nextIno + 1 /\ used' = used \union {nextIno}
          /\ conn' = [conn EXCEPT ![p] = nextIno]
     ELSE conn' = [conn EXCEPT ![p] = pmain] /\ UNCHANGED <<pmain, nextIno, used>>
  /\ Go(p, "script")
  /\ opn' = [opn EXCEPT ![p] = TRUE]
  /\ UNCHANGED <<tabInos, walInos, wlock, snapon, txn>>

Script(p) ==
  /\ pc[p] = "script"
  /\ IF pmain # conn[p]
     THEN Go(p, "failed") /\ opn' = [opn EXCEPT ![p] = FALSE] /\ UNCHANGED <<tabInos, walInos>>
     ELSE /\ IF conn[p] \in tabInos
             THEN /\ tabInos' = tabInos
                  /\ walInos' = IF ModeByCreatorOnly THEN walInos ELSE walInos \union {conn[p]}
             ELSE /\ LockFree(conn[p])
                  /\ tabInos' = tabInos \union {conn[p]}
                  /\ walInos' = walInos \union {conn[p]}
          /\ \E l \in {"cursor", "read1"} : Go(p, l)
          /\ opn' = opn
  /\ UNCHANGED <<pmain, nextIno, used, wlock, conn, snapon, txn>>

(* ---- page work ---- *)
OpenCursor(p) ==
  /\ pc[p] = "cursor"
  /\ \E b \in BOOLEAN : snapon' = [snapon EXCEPT ![p] = b]
  /\ Go(p, "read1")
  /\ UNCHANGED <<pmain, nextIno, used, tabInos, walInos, wlock, conn, opn, txn>>

Read1(p) ==
  /\ pc[p] = "read1"
  /\ \E l \in {"bootcheck", "failed"} : Go(p, l)
  /\ UNCHANGED <<pmain, nextIno, used, tabInos, walInos, wlock, conn, opn, snapon, txn>>

Bootcheck(p) ==
  /\ pc[p] = "bootcheck"
  /\ \E l \in {"read2", "insert"} : Go(p, l)
  /\ UNCHANGED <<pmain, nextIno, used, tabInos, walInos, wlock, conn, opn, snapon, txn>>

Insert(p) ==
  /\ pc[p] = "insert"
  /\ \E stale \in BOOLEAN, stored \in BOOLEAN :
       IF BootSnap /\ snapon[p] /\ (stale \/ ~LockFree(conn[p]))
       THEN Go(p, "failed") /\ wlock' = wlock /\ txn' = [txn EXCEPT ![p] = "begun"]
       ELSE IF IdleHeld(p)
       THEN Go(p, "failed") /\ wlock' = wlock /\ txn' = [txn EXCEPT ![p] = "begun"]
       ELSE /\ LockFree(conn[p])                  \* otherwise the busy handler waits
            /\ wlock' = wlock \union {[ino |-> conn[p], p |-> p]}
            /\ txn' = [txn EXCEPT ![p] = "write"]
            /\ Go(p, IF CommitSkipped /\ stored THEN "read2" ELSE "commit")
  /\ UNCHANGED <<pmain, nextIno, used, tabInos, walInos, conn, opn, snapon>>

\* @type: (Int) => Bool;
RollbackBlocked(p) ==
  /\ conn[p] \notin walInos
  /\ \E q \in PAll \ {p} : opn[q] /\ conn[q] = conn[p] /\ snapon[q]

Commit(p) ==
  /\ pc[p] = "commit"
  /\ IF RollbackBlocked(p)
     THEN Go(p, "failed") /\ UNCHANGED <<wlock, txn>>     \* still inside its write transaction
     ELSE /\ wlock' = {g \in wlock : g.ino # conn[p]}
          /\ txn' = [txn EXCEPT ![p] = "none"]
          /\ Go(p, "read2")
  /\ UNCHANGED <<pmain, nextIno, used, tabInos, walInos, conn, opn, snapon>>

Read2(p) ==
  /\ pc[p] = "read2"
  /\ \E l \in {"done", "failed"} : Go(p, l)
  /\ UNCHANGED <<pmain, nextIno, used, tabInos, walInos, wlock, conn, opn, snapon, txn>>

(* ---- close_db_conn ---- *)
Close(p) ==
  /\ Idle(p)
  /\ opn' = [opn EXCEPT ![p] = FALSE]
  /\ snapon' = [snapon EXCEPT ![p] = FALSE]
  /\ pc' = [pc EXCEPT ![p] = IF pc[p] = "done" THEN "closed" ELSE "failed"]
  /\ wlock' = {g \in wlock : g.p # p}
  /\ txn' = [txn EXCEPT ![p] = "none"]
  /\ UNCHANGED <<pmain, nextIno, used, tabInos, walInos, conn>>

Step(p) == Restore(p) \/ Connect(p) \/ Script(p) \/ OpenCursor(p) \/ Read1(p) \/ Bootcheck(p)
           \/ Insert(p) \/ Commit(p) \/ Read2(p) \/ Close(p)
Next == \E p \in PAll : Step(p)

(* ------------------------------ properties ------------------------------ *)
OneWriter ==
  /\ \A g1, g2 \in wlock : g1.ino = g2.ino => g1.p = g2.p
  /\ \A p, q \in PAll : (opn[p] /\ opn[q] /\ txn[p] = "write" /\ txn[q] = "write" /\ conn[p] = conn[q]) => p = q
TxnLockAgree ==
  /\ \A g \in wlock : g.p \in PAll /\ opn[g.p] /\ conn[g.p] = g.ino /\ txn[g.p] = "write"
  /\ \A p \in PAll : txn[p] = "write" => (opn[p] /\ [ino |-> conn[p], p |-> p] \in wlock)
  /\ \A p \in PAll : ~opn[p] => txn[p] = "none"
WalAtWork == \A p \in Procs : pc[p] \in Work => conn[p] \in walInos
NoIdleTransaction == \A p \in PAll : Idle(p) => txn[p] = "none"

(* --------------------------- inductive invariant --------------------------- *)
TypeOK ==
  /\ pc \in [PAll -> PCs]
  /\ txn \in [PAll -> Txns]
  /\ opn \in [PAll -> BOOLEAN]
  /\ snapon \in [PAll -> BOOLEAN]
  /\ DOMAIN conn = PAll

IndInv ==
  /\ TypeOK
  /\ nextIno > 0
  /\ \A i \in used : 0 < i /\ i < nextIno
  /\ tabInos \subseteq used /\ walInos \subseteq used
  /\ (pmain = 0 \/ pmain \in used)
  /\ pc[D] \in {"done", "closed"}
  /\ \A p \in PAll :
       /\ pc[p] \in Pre \union {"closed"} => ~opn[p]
       /\ pc[p] \in Open => opn[p]
       /\ opn[p] => conn[p] \in used
       /\ pc[p] \in Work => conn[p] \in walInos
       \* inside a transaction = inside the bootstrap write's critical section, holding the lock
       /\ txn[p] # "none" => (txn[p] = "write" /\ pc[p] = "commit")
       /\ pc[p] = "commit" => txn[p] = "write"
  /\ \A g \in wlock : g.p \in PAll /\ opn[g.p] /\ conn[g.p] = g.ino /\ txn[g.p] = "write"
  /\ \A p \in PAll : txn[p] = "write" => [ino |-> conn[p], p |-> p] \in wlock
  /\ \A g1, g2 \in wlock : g1.ino = g2.ino => g1 = g2

(* vacuity guard: must FAIL (IndInit has a state where one worker is inside the critical section on the *)
(* file another worker has an open cursor on, and a third context is idle)                              *)
NoInterestingState ==
  ~(\E p, q, r \in PAll : /\ p # q /\ q # r /\ p # r
                          /\ txn[p] = "write" /\ snapon[q] /\ opn[q] /\ conn[q] = conn[p] /\ Idle(r))

(* ------------------------------ instances ------------------------------ *)
Ideal == BootSnap = FALSE /\ CommitSkipped = FALSE /\ ModeByCreatorOnly = FALSE
ConstInit == Procs = Gen(4) /\ (\A p \in Procs : p > 0) /\ Ideal
\* more workers (slower: minutes)
ConstInitBig == Procs = Gen(6) /\ (\A p \in Procs : p > 0) /\ Ideal
ConstInitBootSnap ==
  Procs = Gen(4) /\ (\A p \in Procs : p > 0) /\ BootSnap = TRUE /\ CommitSkipped = FALSE /\ ModeByCreatorOnly = FALSE
ConstInitCommitSkipped ==
  Procs = Gen(4) /\ (\A p \in Procs : p > 0) /\ BootSnap = FALSE /\ CommitSkipped = TRUE /\ ModeByCreatorOnly = FALSE
ConstInitCreatorOnly ==
  Procs = Gen(4) /\ (\A p \in Procs : p > 0) /\ BootSnap = FALSE /\ CommitSkipped = FALSE /\ ModeByCreatorOnly = TRUE

IndInit ==
  /\ pmain \in Int /\ nextIno \in Int
  /\ used = Gen(5) /\ tabInos = Gen(5) /\ walInos = Gen(5)
  /\ wlock = Gen(5)
  /\ pc \in [PAll -> PCs]
  /\ txn \in [PAll -> Txns]
  /\ opn \in [PAll -> BOOLEAN]
  /\ snapon \in [PAll -> BOOLEAN]
  /\ conn \in [PAll -> Int]
  /\ IndInv

IndInitBig ==
  /\ pmain \in Int /\ nextIno \in Int
  /\ used = Gen(8) /\ tabInos = Gen(8) /\ walInos = Gen(8)
  /\ wlock = Gen(8)
  /\ pc \in [PAll -> PCs]
  /\ txn \in [PAll -> Txns]
  /\ opn \in [PAll -> BOOLEAN]
  /\ snapon \in [PAll -> BOOLEAN]
  /\ conn \in [PAll -> Int]
  /\ IndInv
=============================================================================
