---------------------------- MODULE PageStoreInd ----------------------------
(* Typed abstraction of spec/PageStore.tla for INDUCTIVE-invariant checks with Apalache   *)
(* (harness/apalache.py, thorough tier of C10).  TLC checks PageStore.tla itself on small *)
(* constants and binds it to the code; this module is about the DESIGN only: it shows     *)
(* that memo coherence is an inductive invariant of the store's operations, i.e. holds    *)
(* after ANY number of add_page / get_page / commit / reopen steps, and that it stops     *)
(* being inductive when the deviation MemoNotInvalidatedOnAdd is switched on.             *)
(*                                                                                        *)
(* What is abstracted, and why that is sound for MemoCoherent                             *)
(*  * Titles.  PageStore.tla has titles as sequences of atoms and two normalisations      *)
(*    (NormAdd on the write side, Candidates on the read side).  Here a stored title is   *)
(*    a value of the uninterpreted sort TITLE (unbounded, only equality).                 *)
(*      - AddPage(t, ns, red, body) abstracts PageStore!AddPage(title, ns, redirect, body,*)
(*        model) with t = NormAdd(title, ns): NormAdd is a function into stored titles, so*)
(*        letting t range over ALL of Titles over-approximates its image.  body stands    *)
(*        for the pair (body, model): both are payload that no guard reads.               *)
(*      - A lookup argument (title, ns, nr) is represented by what DbGet reads of it: the *)
(*        candidate list Candidates(title, ns) (PageStore.tla: 0, 1 or 2 stored titles    *)
(*        tried in order - here n, c1, c2), ns and nr.  DbGet(S, title, ns, nr) =         *)
(*        FirstHit(S, Candidates(title, ns), 1, ns, nr) depends on the spelling only      *)
(*        through that list, so two spellings with the same list are the same abstract    *)
(*        argument.  The abstraction map on states sends a memo entry [args, res] to      *)
(*        [alpha(args), res].  A concrete Lookup that misses while the abstract one hits  *)
(*        (another spelling of the same class was memoised) adds [alpha(args),            *)
(*        DbGet(cur, args)], which under MemoCoherent IS the entry already there: the     *)
(*        abstract step stutters.  Every other concrete step maps to the abstract step of *)
(*        the same name, so alpha(reachable concrete states) is included in the abstract  *)
(*        reachable states and MemoCoherent here implies PageStore!MemoCoherent there.    *)
(*      - Lookup abstracts PageStore!Lookup; PageStore!LookupResolve is two memoised      *)
(*        lookups (the second with the redirect target's candidates and nr = TRUE) and is *)
(*        abstracted by two Lookup steps with unrelated arguments (over-approximation:    *)
(*        the dependence of the second argument on the first result is dropped).          *)
(*  * FirstHit's `CHOOSE r \in q` (SQL: LIMIT 1) is a fixed but arbitrary choice among    *)
(*    the rows of one title in several namespaces (only for ns = NoNs).  TLC's CHOOSE is  *)
(*    the least element in a fixed total order; here Pick takes the least namespace id    *)
(*    (unique because KeysUnique is part of the invariant).  The proof uses only that the *)
(*    choice is a function of the row set.                                                *)
(*  * Commit abstracts PageStore!Commit.  Reopen (not an action of PageStore.tla; the     *)
(*    harness probes a second context on the same file, Trace_PageStore "reopen_get")     *)
(*    closes the context without committing and opens a new one: it sees the committed    *)
(*    rows and has an empty memo.                                                         *)
(*                                                                                        *)
(* Sizes.  TITLE, BODY and the namespace ids (Int) are unbounded; what is bounded is the  *)
(* NUMBER of rows / memo entries of the arbitrary pre-state of the inductive step         *)
(* (Gen(N) in IndInit) and the number of distinct parameters an action may choose from    *)
(* (Gen(k) in ConstInit; one step uses at most 2 titles, 1 namespace, 1 body).            *)
EXTENDS Integers, FiniteSets, Apalache

CONSTANTS
  \* @type: Set(TITLE);
  Titles,
  \* @type: Set(Int);
  Nss,
  \* @type: Set(BODY);
  Bodies,
  \* @type: Bool;
  DevMemo     \* "MemoNotInvalidatedOnAdd" \in Dev of PageStore.tla

(*
  @typeAlias: row = {title: TITLE, ns: Int, red: TITLE, body: BODY};
  @typeAlias: res = {found: Bool, title: TITLE, ns: Int, red: TITLE, body: BODY};
  @typeAlias: args = {c1: TITLE, c2: TITLE, n: Int, ns: Int, nr: Bool};
  @typeAlias: ment = {args: $args, res: $res};
*)
PageStoreInd_aliases == TRUE

VARIABLES
  \* @type: Set($row);
  cur,    \* rows visible to the writer connection (committed + pending)
  \* @type: Set($row);
  com,    \* rows committed to the file
  \* @type: Set($ment);
  memo    \* the lru_cache of get_page

NoNs == 9999                  \* namespace_id = None
NoRed == "none_OF_TITLE"      \* redirect_to IS NULL
NoBody == "none_OF_BODY"

\* @type: ($row) => $res;
Found(r) == [found |-> TRUE, title |-> r.title, ns |-> r.ns, red |-> r.red, body |-> r.body]
\* @type: $res;
NotFound == [found |-> FALSE, title |-> NoRed, ns |-> 0, red |-> NoRed, body |-> NoBody]

\* @type: (Set($row), $row) => Set($row);
Upsert(S, row) == {r \in S : ~(r.title = row.title /\ r.ns = row.ns)} \union {row}

\* @type: (Set($row), TITLE, Int, Bool) => Set($row);
Query(S, t, ns, nr) ==
  {r \in S : /\ r.title = t
             /\ (ns = NoNs \/ r.ns = ns)
             /\ (nr => r.red = NoRed)}

\* @type: (Set($row)) => $row;
Pick(q) == CHOOSE r \in q : \A r2 \in q : r.ns <= r2.ns

\* what get_page returns when it goes to the database (PageStore!DbGet / FirstHit)
\* @type: (Set($row), $args) => $res;
DbGet(S, a) ==
  LET q1 == Query(S, a.c1, a.ns, a.nr)
      q2 == Query(S, a.c2, a.ns, a.nr)
  IN IF a.n >= 1 /\ q1 # {} THEN Found(Pick(q1))
     ELSE IF a.n >= 2 /\ q2 # {} THEN Found(Pick(q2))
     ELSE NotFound

Init == cur = {} /\ com = {} /\ memo = {}

\* @type: ($args) => Bool;
MemoHit(a) == \E m \in memo : m.args = a

\* PageStore!GetPage(a).res: what the caller of get_page observes
\* @type: ($args) => Set($res);
Observed(a) == IF MemoHit(a) THEN {m.res : m \in {m2 \in memo : m2.args = a}} ELSE {DbGet(cur, a)}

\* @type: ($args) => Bool;
Lookup(a) ==
  /\ memo' = IF MemoHit(a) THEN memo ELSE memo \union {[args |-> a, res |-> DbGet(cur, a)]}
  /\ UNCHANGED <<cur, com>>

\* @type: (TITLE, Int, TITLE, BODY) => Bool;
AddPage(t, ns, red, body) ==
  /\ cur' = Upsert(cur, [title |-> t, ns |-> ns, red |-> red, body |-> body])
  /\ memo' = IF DevMemo THEN memo ELSE {}
  /\ UNCHANGED com

Commit == com' = cur /\ UNCHANGED <<cur, memo>>
Reopen == cur' = com /\ memo' = {} /\ UNCHANGED com

ArgSet == [c1: Titles, c2: Titles, n: 0..2, ns: Nss \union {NoNs}, nr: BOOLEAN]

Next ==
  \/ \E t \in Titles, ns \in Nss, red \in Titles \union {NoRed}, body \in Bodies : AddPage(t, ns, red, body)
  \/ \E a \in ArgSet : Lookup(a)
  \/ Commit
  \/ Reopen

(* ------------------------------ invariants ------------------------------ *)
\* @type: (Set($row)) => Bool;
KeysUnique(S) == \A r1, r2 \in S : (r1.title = r2.title /\ r1.ns = r2.ns) => r1 = r2
MemoFunctional == \A m1, m2 \in memo : m1.args = m2.args => m1 = m2
\* PageStore!MemoCoherent: whatever is memoised is what the database would answer now
MemoCoherent == \A m \in memo : m.res = DbGet(cur, m.args)

IndInv == KeysUnique(cur) /\ KeysUnique(com) /\ MemoFunctional /\ MemoCoherent

\* consequence: every lookup observed through the API is what the store answers now
ObservedCurrent == \A a \in ArgSet : Observed(a) = {DbGet(cur, a)}

\* PageStore!CommitOnlyPublishes as an action invariant: the committed rows change only by
\* becoming exactly the writer's rows (committed + pending), and Commit publishes exactly those
CommitOnlyPublishes == com' # com => (com' = cur /\ cur' = cur)

(* vacuity guards: these must FAIL (IndInit has states with a populated, hitting memo) *)
NoInterestingState == ~(\E m \in memo : m.res.found /\ m.args.n = 2 /\ \E r \in cur : r.red # NoRed)

(* ------------------------------ instances ------------------------------ *)
ConstInit ==
  /\ Titles = Gen(3)
  /\ Nss = Gen(2)
  /\ Bodies = Gen(2)
  /\ DevMemo = FALSE

ConstInitDev ==
  /\ Titles = Gen(3)
  /\ Nss = Gen(2)
  /\ Bodies = Gen(2)
  /\ DevMemo = TRUE

IndInit ==
  /\ cur = Gen(4)
  /\ com = Gen(4)
  /\ memo = Gen(4)
  /\ IndInv

\* larger arbitrary pre-states (slower: IndInit6 took 8-12 minutes; it is not part of the routine run)
IndInit5 ==
  /\ cur = Gen(5)
  /\ com = Gen(5)
  /\ memo = Gen(5)
  /\ IndInv

IndInit6 ==
  /\ cur = Gen(6)
  /\ com = Gen(6)
  /\ memo = Gen(6)
  /\ IndInv
=============================================================================
