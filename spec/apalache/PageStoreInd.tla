---------------------------- MODULE PageStoreInd ----------------------------
EXTENDS Integers, FiniteSets, Apalache

CONSTANTS
  \* @type: Set(TITLE);
  Titles,
  \* @type: Set(Int);
  Nss,
  \* @type: Set(BODY);
  Bodies,
  \* @type: Bool;
  DevMemo

(*
  @typeAlias: row = {title: TITLE, ns: Int, red: TITLE, body: BODY};
  @typeAlias: res = {found: Bool, title: TITLE, ns: Int, red: TITLE, body: BODY};
  @typeAlias: args = {c1: TITLE, c2: TITLE, n: Int, ns: Int, nr: Bool};
  @typeAlias: ment = {args: $args, res: $res};
*)
PageStoreInd_aliases == TRUE

VARIABLES
  \* @type: Set($row);
  cur,
  \* @type: Set($row);
  com,
  \* @type: Set($ment);
  memo

NoNs == 9999
NoRed == "none_OF_TITLE"
NoBody == "none_OF_BODY"

\* @type: ($row) => $res;
Found(r) == [found |-> TRUE, title |-> r.title, ns |-> r.ns, red |-> r.red, body |-> r.body]
\* @type: $res;
NotFound == [found |-> FALSE, title |-> NoRed, ns |-> 0, red |-> NoRed, body |-> NoBody]

\* @type: (Set($row), $row) => Set($row);
Upsert(S, row) == {r \in S : ~(r.title = row.title /\ r.ns = row.ns)} \union {row}

\* @type: (Set($row), TITLE, Int, Bool) => Set($row);
Query(S, t, ns, nr) ==
  {r \in S : /\ r.title = t
             /\ (ns = NoNs \/ r.ns = ns)
             /\ (nr => r.red = NoRed)}

\* @type: (Set($row)) => $row;
Pick(q) == CHOOSE r \in q : \A r2 \in q : r.ns <= r2.ns

\* @type: (Set($row), $args) => $res;
DbGet(S, a) ==
  LET q1 == Query(S, a.c1, a.ns, a.nr)
      q2 == Query(S, a.c2, a.ns, a.nr)
  IN IF a.n >= 1 /\ q1 # {} THEN Found(Pick(q1))
     ELSE IF a.n >= 2 /\ q2 # {} THEN Found(Pick(q2))
     ELSE NotFound

Init == cur = {} /\ com = {} /\ memo = {}

\* @type: ($args) => Bool;
MemoHit(a) == \E m \in memo : m.args = a

\* @type: ($args) => Bool;
Lookup(a) ==
  /\ memo' = IF MemoHit(a) THEN memo ELSE memo \union {[args |-> a, res |-> DbGet(cur, a)]}
  /\ UNCHANGED <<cur, com>>

AddPage(t, ns, red, body) ==
  /\ cur' = Upsert(cur, [title |-> t, ns |-> ns, red |-> red, body |-> body])
  /\ memo' = IF DevMemo THEN memo ELSE {}
  /\ UNCHANGED com

Commit == com' = cur /\ UNCHANGED <<cur, memo>>
Reopen == cur' = com /\ memo' = {} /\ UNCHANGED com

ArgSet == [c1: Titles, c2: Titles, n: 0..2, ns: Nss \union {NoNs}, nr: BOOLEAN]

Next ==
  \/ \E t \in Titles, ns \in Nss, red \in Titles \union {NoRed}, body \in Bodies : AddPage(t, ns, red, body)
  \/ \E a \in ArgSet : Lookup(a)
  \/ Commit
  \/ Reopen

\* @type: (Set($row)) => Bool;
KeysUnique(S) == \A r1, r2 \in S : (r1.title = r2.title /\ r1.ns = r2.ns) => r1 = r2
MemoFunctional == \A m1, m2 \in memo : m1.args = m2.args => m1 = m2
MemoCoherent == \A m \in memo : m.res = DbGet(cur, m.args)

IndInv == KeysUnique(cur) /\ KeysUnique(com) /\ MemoFunctional /\ MemoCoherent

ConstInit ==
  /\ Titles = Gen(3)
  /\ Nss = Gen(2)
  /\ Bodies = Gen(2)
  /\ DevMemo = FALSE

ConstInitDev ==
  /\ Titles = Gen(3)
  /\ Nss = Gen(2)
  /\ Bodies = Gen(2)
  /\ DevMemo = TRUE

IndInit ==
  /\ cur = Gen(4)
  /\ com = Gen(4)
  /\ memo = Gen(4)
  /\ IndInv
=============================================================================
