----------------------------- MODULE LockWaitInd -----------------------------
(* Apalache wrapper of spec/LockWait.tla (C20): the base module itself is INSTANCEd -    *)
(* nothing is abstracted - with typed variables; BusyTimeout and MaxHold stay PARAMETERS  *)
(* (ConstInit constrains them only by MaxHold < BusyTimeout), and the pre-state of the    *)
(* inductive step ranges over all integers.  Hence NeverLocked ("the waiting writer never *)
(* gives up with `database is locked`") is shown for EVERY busy timeout and EVERY bound   *)
(* on the hold below it, after any number of steps - TLC checks 50 / 20.  With            *)
(* MaxHold >= BusyTimeout (Demo_LockWait_idle / _short) the inductive step fails.           *)
(* The liveness half (EventuallyWrites) stays with TLC.                                   *)
EXTENDS Integers

CONSTANTS
  \* @type: Int;
  BusyTimeout,
  \* @type: Int;
  MaxHold

VARIABLES
  \* @type: Int;
  hold,
  \* @type: Int;
  t,
  \* @type: Str;
  hstate,
  \* @type: Str;
  cstate

L == INSTANCE LockWait

Init == L!Init
Next == L!Next
NeverLocked == L!NeverLocked

ConstInit == BusyTimeout \in Nat /\ MaxHold \in Nat /\ MaxHold < BusyTimeout
\* the holder may keep the lock for as long as the busy handler waits, or longer
ConstInitLong == BusyTimeout \in Nat /\ MaxHold \in Nat /\ MaxHold >= BusyTimeout

IndInv ==
  /\ hold \in 0..MaxHold
  /\ t \in 0..hold
  /\ hstate \in {"holding", "done"}
  /\ cstate \in {"waiting", "wrote"}
  /\ (cstate = "wrote" => hstate = "done")
  /\ (hstate = "done" => t = hold)

IndInit ==
  /\ hold \in Int /\ t \in Int
  /\ hstate \in {"holding", "done", "other"}
  /\ cstate \in {"waiting", "wrote", "locked", "other"}
  /\ IndInv

==============================================================================
