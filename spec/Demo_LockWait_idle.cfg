SPECIFICATION Spec
CONSTANTS
  BusyTimeout = 50
  MaxHold = 60
INVARIANT NeverLocked
CHECK_DEADLOCK FALSE
