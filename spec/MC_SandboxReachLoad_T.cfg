SPECIFICATION SLSpec
CONSTANTS
  Entries <- D_Entries
  Shapes <- D_ShapesCore
  Bounds <- D_Bounds
  MaxLen = 3
  Dev <- DevIdeal
INVARIANT PageCodeConfined
INVARIANT RunsOnlyIfCompiles
INVARIANT LoadsOnlyIfCompiles
INVARIANT RunsInRequestedEnv
INVARIANT CachedChunkBound
INVARIANT RunAgrees
CHECK_DEADLOCK FALSE
